From FP Require Import Lexer Parser ShowPT Digest Formatter.
From Coq Require Import String List NArith.
Import ListNotations.
Open Scope string_scope.
Set Printing Width 100000000.
Set Printing Depth 100000000.
Definition show_fres (r : fres) : string :=
  match r with
  | FOk s => "OK:" ++ sh_escaped s ""
  | FErr s => "ERR:" ++ sh_escaped s ""
  | FPanic p => "PANIC:" ++ p
  end.
Definition check (rs : list rune) : string := digest (show_fres (format_res rs)).
Definition full (rs : list rune) : string := show_fres (format_res rs).
Eval vm_compute in ("<<<M3652>>>" ++ check (runes_of_ascii "options {
    ArrayPrefixLenType = u16;
    FixedStringPadFromLeft = true;
    JavaPackage = ""co\
m.example.msg"";
    GoPackage = ""ms\
g"";
    GoModule = ""example.com/msg"";
}
MetaData Meta {
    u32 SeqNum `sequence number`,
    char[8] Symbol `symbol`,
    zchar[5] ZSym `z symbol`,
    string Note,
    Symbol AltSymbol `alias of symbol`,
    f64 Price,
}
packet Inner {
    u8 a,
    i16 b,
    string c,
}
packet Inner2 {
    u8 a2,
    char[3] c2,
}
packet Logon {
    u8 x,
    string user,
    repeat u16 codes,
}
packet Logout {
    u16 reason,
}
packet Empty {
}
root packet Msg {
    u8 su8,
    uint8 luint8,
    u16 su16,
    uint16 luint16,
    u32 su32,
    uint32 luint32,
    u64 su64,
    uint64 luint64,
    i8 si8,
    int8 lint8,
    i16 si16,
    int16 lint16,
    i32 si32,
    int32 lint32,
    i64 si64,
    int64 lint64,
    f32 sf32,
    float32 lfloat32,
    f64 sf64,
    float64 lfloat64,
    char[6] fsplain,
    @leftPad('0') char[4] fs0,
    @rightPad('0') char[5] fs1,
    @leftPad(' ') char[6] fs2,
    @rightPad(' ') char[7] fs3,
    @leftPad('\x00') char[8] fs4,
    @rightPad('\x00') char[9] fs5,
    @leftPad() char[10] fs6,
    @rightPad() char[11] fs7,
    zchar[7] fz,
    @leftPad('0') zchar[3] fzl0,
    string s1 `doc`,
    char[] s2,
    Inner,
    Sub {
        u8 q,
        string w,
        Deep {
            u16 z,
            repeat i32 zs,
        },
    },
    repeat u8 ru8,
    repeat u16 ru16,
    repeat u32 ru32,
    repeat u64 ru64,
    repeat i8 ri8,
    repeat i16 ri16,
    repeat i32 ri32,
    repeat i64 ri64,
    repeat f32 rf32,
    repeat f64 rf64,
    repeat string rstr,
    repeat char[] rstr2,
    repeat char[3] rfs,
    repeat zchar[3] rfz,
    repeat Inner2,
    repeat Grp {
        u8 k,
        char[2] v,
    },
    SeqNum,
    SeqNum seq2,
    repeat SeqNum seqs,
    Symbol,
    AltSymbol alt,
    ZSym,
    Note,
    repeat Symbol syms,
    Price px,
    u16 MsgType,
    u32 BodyLen @lengthOf(Body),
    match MsgType as Body {
        1 : Logon,
        [2, 3] : Logout,
        7 : Logon,
        9 : Empty,
    },
    u32 Checksum @calculatedFrom(""CRC32""),
}
")).
Eval vm_compute in ("<<<M1074>>>" ++ check (runes_of_ascii "root packet options1 {
@rightPad( '0'
    )	u64  string_
    `a\`, @lengthOf(u128
    /// triple
    ) @tag(	7 )i16 // " ++ [27880; 37322]%N ++ runes_of_ascii "
o ,repeat uint8 a1 , @lengthOf( msg_type ) repeat float64 Z9_`two words` ,  match metadata
as
Logon
/// triple
// a // b
{ [""" ++ [128512]%N ++ runes_of_ascii """
, 42]
    : A , } , BodyLength len ,
    // a // b
    }
    packet
zchar {
string_ lengthOf , match x as Logon { """ ++ [28040; 24687]%N ++ runes_of_ascii """ : calculatedFrom ,	""" ++ [233]%N ++ runes_of_ascii "t" ++ [233]%N ++ runes_of_ascii """ : roots
[ 255 ] ://	t
falsey 255 :
T ,// packet A { u8 x, }
}, repeat
charz ,@calculatedFrom( // " ++ [128512]%N ++ runes_of_ascii " emoji
""it's""  ) @calculatedFrom( ""\n"" ) @rightPad ( ' ')
    int32
    rootA , i64_ leftPad, roots , char[]
// c
// " ++ [128512]%N ++ runes_of_ascii " emoji
msg_type `" ++ [233]%N ++ runes_of_ascii "`
    , pack @calculatedFrom(""// no comment"" ) , @rightPad ( ' ' )	repeat// trailing space 
leftPad ,int64 lengthOf,} // trailing space 
packet  msg_type
{@lengthOf(
Z9_ )	repeat trueish
// " ++ [27880; 37322]%N ++ runes_of_ascii "
// " ++ [27880; 37322]%N ++ runes_of_ascii "
{// trailing space 
stringy
`{ , }` , u64 calculatedFrom	@calculatedFrom( ""it's"") ,char[ // @lengthOf(
10 //x
] crc
// a // b
// " ++ [128512]%N ++ runes_of_ascii " emoji
,
    }	, match f32a as Logon{
    // @lengthOf(
    ""abc""
: BodyLength, [	0 , 42
]  :
    Header
007: Z9_
""a\""b"":chars	,
} ,@lengthOf(  roots
)options1 // trailing space 
A `u8 x,`
    //	t
    ,  char[
1 ] u128
    // " ++ [27880; 37322]%N ++ runes_of_ascii "
    ,@lengthOf( x_y_z )
//x
//
MetaDataX @calculatedFrom( ""1""
    )
`{ , }` , len
{
x_y_z Logon ,matchKey repeatCount
// a // b
// " ++ [27880; 37322]%N ++ runes_of_ascii "
,
T { i8 trueish @calculatedFrom( ""\" ++ [233]%N ++ runes_of_ascii """ )`tab	here`
,} ,
    // a // b
    repeat float zchar /// triple
`two words` ,} ,repeat  u8	metadata
`crlf
line`
    ,@calculatedFrom( ""\" ++ [233]%N ++ runes_of_ascii """ )char[ 0	]
trueish
@calculatedFrom("""" )
//
//
, //x
uint8 charz // @lengthOf(
, } MetaData
    // a // b
    a1{
f32 trueish `line1
line2` ,string uint8x// packet A { u8 x, }
`" ++ [28040; 24687; 31867; 22411]%N ++ runes_of_ascii "`, i32 tag,
stringy zchar  `" ++ [28040; 24687; 31867; 22411]%N ++ runes_of_ascii "`
,	}
")).
Eval vm_compute in ("<<<M1098>>>" ++ check (runes_of_ascii "
packet
    uint8x { }  MetaData
    trueish { }root packet  tag
{
@calculatedFrom(	""x y"") @tag( 255 ) @calculatedFrom( ""a	b"" ) string_ Packet, repeat
u8 roots
    `" ++ [28040; 24687; 31867; 22411]%N ++ runes_of_ascii "`,
roots @calculatedFrom(""it's"" ) ,
rootA{ Foo	@calculatedFrom( ""x y"" ) `{ , }`, } , //
match MetaDataX
    as x_y_z  { 3  : trueish
    // a // b
    0
:
zchar , /// triple
""" ++ [233]%N ++ runes_of_ascii "t" ++ [233]%N ++ runes_of_ascii """:crc} ,
    roots { repeat zchar[10	] A , },
    @leftPad (
    '\x00'	) repeat string
    //x
    lengthOf ,	@tag(  0 ) u128 ,} packet body {
    len
    // " ++ [27880; 37322]%N ++ runes_of_ascii "
    `crlf
line` , @lengthOf(
    Pad )
    @calculatedFrom( ""\" ++ [233]%N ++ runes_of_ascii """) @leftPad //	t
(	' ' )
repeat float
{  zchar[
    // `tick` ""quote"" 'q'
    1 ]options1 , int32
// " ++ [128512]%N ++ runes_of_ascii " emoji
// trailing space 
metadata @lengthOf( f32a ) , } , match Packet as _x
    {  255 : Header,	007 : packetx
, [ 42
,255
]//	t
: msg_type // " ++ [128512]%N ++ runes_of_ascii " emoji
00  :lengthOf [ 3 , 65535
    ] // c
: string_ , ""abc"":uint8x, }, repeat x_y_z {  Foo // " ++ [27880; 37322]%N ++ runes_of_ascii "
{ repeat
A
    calculatedFrom, Z9_
    @calculatedFrom( ""it's"" ) `{ , }` ,
    repeat u repeatCount
, repeat u16 u8x `// not a comment` , } ,
u32  lengthOf `
` ,int8 rootA//
,
    repeat a1 { match
    //	t
    options1 as repeatCount{[	255 , 007 ]
: packetx  , } ,	As { repeatCount
u	, zchar[
255 ] BodyLength`{ , }` ,} ,}	, } ,
    char[4294967296
    ]	A `" ++ [233]%N ++ runes_of_ascii "` , u8 int
, repeat
    Packet  { x
    calculatedFrom `" ++ [233]%N ++ runes_of_ascii "` ,
} , A
    // packet A { u8 x, }
    , Foo @lengthOf(
matchKey )	`" ++ [233]%N ++ runes_of_ascii "`  ,
// `tick` ""quote"" 'q'
// a // b
uint32
    options1,
    } packet calculatedFrom
{}
")).
Eval vm_compute in ("<<<M4351>>>" ++ check (runes_of_ascii "
/// triple
	packet
	string_  {

repeat As u128
,  @lengthOf(

Header 
)i8i8 @lengthOf(
    len
)`" ++ [28040; 24687; 31867; 22411]%N ++ runes_of_ascii "` ,

uint8x{

match
i8i8 as// trailing space 
	msg_type {
    65535	: 
Foo 
,	[	""abc""	,
	00, 
""// no comment"" ,
	0  ,

    0123456789 , 
""// no comment"" ]  
  // `tick` ""quote"" 'q'
  // " ++ [128512]%N ++ runes_of_ascii " emoji
	:

int 
,	""" ++ [128512]%N ++ runes_of_ascii """ :

    u8x ,

    ""x y""
: x_y_z

, 7
    :  len,

42	:  As // c
	,
}
	,  }

    ,@tag(

    4294967296 
	    // packet A { u8 x, }
  // packet A { u8 x, }
    ) zchar[
    255 ]
	repeatCount
,repeat int16  x ,

    u16
Foo

    `two words`

, 
repeat
char[
    42

    ]f32a

    ,  string

    msg_type

/// triple
  , @rightPad( 
' '

    ) Z9_@calculatedFrom(//
  	""it's"" ),}packet

stringy 	 // packet A { u8 x, }
		{
    // `tick` ""quote"" 'q'
      float32
metadata,  }packet // @lengthOf(
    body {
    match leftPad
    as falsey {

""" ++ [233]%N ++ runes_of_ascii "t" ++ [233]%N ++ runes_of_ascii """

:
    len
,  }
	,  
  // trailing space 
	@calculatedFrom(

    ""CRC32"") f32a{ uint32 
body
    @lengthOf(
	Z9_
	) 	 /// triple
    	`line1
line2`,
    // @lengthOf(
    f64
u`line1
line2`  ,
trueish @lengthOf(
    rootA

    )	,
    char[

255	] u

    @calculatedFrom(	""a	b"" 
	    // `tick` ""quote"" 'q'
    // @lengthOf(
) ,

    }

    ,
	@tag( 
42)	options1 a1
    //
	,char[]

    Z9_	@calculatedFrom(  ""\n"" // c
  )	,
} 
      //")).
Eval vm_compute in ("<<<M4535>>>" ++ check (runes_of_ascii "packet f32a {
    @calculatedFrom(""" ++ [128512]%N ++ runes_of_ascii """)
    char[65535] Logon,
}

packet calculatedFrom {
    char[00] x `u8 x,`,
    repeat u8x {
        repeat float64 Packet,
    },
    repeat Z9_ leftPad,
    @calculatedFrom(""{,}"")
    repeat Header Foo,
    @tag(4294967296)
    @calculatedFrom(""it's"")
    @lengthOf(Logon)
    char[10] len ``,
    char[7] lengthOf @calculatedFrom(""" ++ [28040; 24687]%N ++ runes_of_ascii """) `
        `,
    @lengthOf(i8i8)
    repeat string_ trueish `doc`,
    // " ++ [27880; 37322]%N ++ runes_of_ascii "
    match BodyLength as rootA {
        ""packet"" : uint8x,
    },
    match u128 as float {
        """ ++ [233]%N ++ runes_of_ascii "t" ++ [233]%N ++ runes_of_ascii """ : stringy,
        ""packet"" : lengthOf,
        """ ++ [233]%N ++ runes_of_ascii "t" ++ [233]%N ++ runes_of_ascii """ : lengthOf,
        """ ++ [128512]%N ++ runes_of_ascii """ : lengthOf,
        ""it's"" : As,
        [""// no comment""] : int,
    },
}

root packet _x {
    Header `say ""hi""`,
    @leftPad('\x00')
    @lengthOf(Packet)
    @rightPad(' ')
    string msg_type @calculatedFrom(""" ++ [233]%N ++ runes_of_ascii "t" ++ [233]%N ++ runes_of_ascii """) `tab	here`,
    i64 zchar `crlf
        line`,
    i32 x_y_z,
    @tag(7)
    @leftPad(' ')
    @calculatedFrom(""1"")
    falsey `two words`,
}// " ++ [27880; 37322]%N ++ runes_of_ascii "

packet metadata {
    f64 u8x,
    u16 o `crlf
        line`,
    msg_type {
        u8 a1 @lengthOf(u) `it's`,// trailing space 
    },
    @lengthOf(rootA)
    f32a {
        repeat u16 uint8x,
    },//
}

options {
}// " ++ [128512]%N ++ runes_of_ascii " emoji")).
Eval vm_compute in ("<<<M3958>>>" ++ check (runes_of_ascii "options

    {Packet
	=""packet""len

    = ""packet"";
charz =
true }
	packet	calculatedFrom	// c
{ 
        //	t
  // a // b
  	repeat 	 // " ++ [27880; 37322]%N ++ runes_of_ascii "

Packet

,
    uint8x
    @calculatedFrom(  
      // @lengthOf(

// `tick` ""quote"" 'q'
    ""\n""  ), @calculatedFrom(	""// no comment"")

    @rightPad	/// triple

	(

    ' ' )	match  x 
//x

  //	t
  	as Packet	{
00
    :

    Pad
	[ 
0
] 
:	// @lengthOf(
  As
    ,

    } ,  @lengthOf(

chars ) a1`it's`
,	match
	Logon
as
int
{
	""packet""
	: 
int
    [""" ++ [28040; 24687]%N ++ runes_of_ascii """ ,0123456789	// trailing space 
  ,  ""x y""

,65535

//	t

	]  : lengthOf

,

    10	: asx
,
    [
""// no comment"" ] :

zchar
,

""// no comment""

:
    a1
    //
	// `tick` ""quote"" 'q'
	,0
	:	len
, 
} 	 // " ++ [27880; 37322]%N ++ runes_of_ascii "
	,
match
u8x

as  MetaDataX
	{ [ 255]
:
string_ // packet A { u8 x, }
		, [  ""// no comment""
,  ""CRC32""  ]  :
metadata  , // packet A { u8 x, }
    	""a\""b""
: 
	    // " ++ [27880; 37322]%N ++ runes_of_ascii "
leftPad  }
,
	Header
    `tab	here`

, }packet u128
{ char[ 
10  //x
	]  trueish	`tab	here`
, repeat
    asx

    { 
match len

as chars
	{

1 
:
MetaDataX  ,
	42	: roots,
10
: BodyLength , ""// no comment"":

    o ,
""a\\"": i64_  ,
}
	,

    } ,  }
")).
Eval vm_compute in ("<<<M3684>>>" ++ check (runes_of_ascii "options
{lengthOf 
=
""" ++ [128512]%N ++ runes_of_ascii """ Pad  =

""it's""
	Packet 
=' '
	;}

    packet stringy
	{

    @calculatedFrom(""a\\"")stringy 
asx 
  //x
  `doc` ,

f32a
	,
	options1 
{
	f64	BodyLength
    @lengthOf( i64_

),

    matchKey
// `tick` ""quote"" 'q'
	roots

,
	repeat i8 chars , 
/// triple
  	}
,	charz
    string_ 
, i8 repeatCount `crlf
line`,	} packet
    uint8x
{ 
@tag(

00// " ++ [128512]%N ++ runes_of_ascii " emoji
      )

    uint64  MetaDataX ,  @tag(  00
	)
char uint8x  @lengthOf(	uint8x )

    ,
	roots@lengthOf( stringy) `
`
,
@rightPad
() 
zchar[ 
0123456789  
  //
	]

    T  //x
`" ++ [233]%N ++ runes_of_ascii "` ,  @tag( 42
)
    repeat

i64	repeatCount  // `tick` ""quote"" 'q'
,
    falsey`doc` 
,char[

    65535]
falsey

    `say ""hi""`  ,

    x_y_z  int,
@lengthOf(  MetaDataX )

    match  Logon as leftPad{ ""abc""  :
zchar,

    255 
:
A	,}	, } MetaData falsey {}packet
	BodyLength  {
Pad

    asx
,
@calculatedFrom(

""a	b""	// " ++ [27880; 37322]%N ++ runes_of_ascii "
	  )

string
packetx
        //
    // packet A { u8 x, }
	`it's`
,float64
	uint8x`two words`

    ,
	zchar[
	007 ]uint8x 
@calculatedFrom(

    ""a\\""//x
	)

`" ++ [28040; 24687; 31867; 22411]%N ++ runes_of_ascii "`
    ,
}")).
Eval vm_compute in ("<<<M618>>>" ++ check (runes_of_ascii "
options { i64_ = int16; } packet
    // @lengthOf(
    crc
{ @tag(
0123456789)
    // a // b
    repeat
crc
{ char[ 1]	As @lengthOf(//
repeatCount) ,}, } root packet
falsey
{ repeat
repeatCount	{repeat Header {
calculatedFrom float `u8 x,` , } //
,
string u8x @lengthOf( zchar)
,	char[ 255]
    Foo , // " ++ [27880; 37322]%N ++ runes_of_ascii "
} // `tick` ""quote"" 'q'
,	@lengthOf( Z9_ ) packetx , /// triple
repeat
    // " ++ [128512]%N ++ runes_of_ascii " emoji
    string
BodyLength
    , @rightPad ( ' '
)
crc @calculatedFrom( // c
""\n"") , repeat options1
{ match Z9_
as A { 0 :
    matchKey ,	[ 00,
    10 ,
    0,
    """ ++ [233]%N ++ runes_of_ascii "t" ++ [233]%N ++ runes_of_ascii """ ]
    : zchar ,	""1"" : trueish ,""abc"" :
metadata ,
    255
    : matchKey
    ,
    },packetx @calculatedFrom( ""a\""b"" ) `
` , // packet A { u8 x, }
} , @tag(
    0
    )i32 A	, @calculatedFrom(  ""{,}"" ) @tag(
    3
    )
    As ,
    repeat f64 zchar`// not a comment`// a // b
,
}  packet rootA  {  @leftPad
(	'0')
trueish stringy`{ , }` , @calculatedFrom( ""{,}"" ) @tag( 3 )  u64	Pad@calculatedFrom( ""a	b"" ),uint16 _x @lengthOf(int) ``
,
    }MetaData
    int{ }
")).
Eval vm_compute in ("<<<M204>>>" ++ check (runes_of_ascii "options {
chars  =
    //x
    ' '	}
root packet	string_ {i8i8 @lengthOf(
Z9_ )
,	match int as chars // c
{ 007: body	,[ // packet A { u8 x, }
42 ] : int	, ""`tick`"" : options1
, } ,
@leftPad ( ' ' )uint16 crc `it's` , // a // b
float64  packetx
@lengthOf( crc // " ++ [27880; 37322]%N ++ runes_of_ascii "
)// trailing space 
, @tag(4294967296
) match int
as chars{4294967296
    : Foo ,
1:
asx 10
: Pad
    0123456789	: string_
,
3
// " ++ [27880; 37322]%N ++ runes_of_ascii "
// " ++ [128512]%N ++ runes_of_ascii " emoji
: T , ""it's""  : As  } , repeat  float falsey `say ""hi""`  ,
match uint8x as zchar { ""// no comment""
    : body
, 0123456789 : crc , ""{,}"" : o } ,repeat o chars ,uint32
As
`doc` ,
repeat trueish
{ char[
    7
] i64_
`{ , }`  , }
, } packet
    Packet {
zchar[ 0123456789 ] matchKey @lengthOf( chars
)  ,  x
//	t
// a // b
{
u64 o ,} , zchar[
    // a // b
    1 ]
    MetaDataX
@calculatedFrom(
"""" ), char[]lengthOf// trailing space 
@calculatedFrom( // " ++ [27880; 37322]%N ++ runes_of_ascii "
""a\""b""
) `
` ,@rightPad( ' ' ) //	t
uint16
len `a\` , @lengthOf( //x
tag )
char[ 65535
] pack ``, }
")).
Eval vm_compute in ("<<<M407>>>" ++ check (runes_of_ascii "// a // b
packet// a // b
o
{ body
// trailing space 
// `tick` ""quote"" 'q'
{ repeat string Z9_ ,
    match roots as A
{ [""" ++ [28040; 24687]%N ++ runes_of_ascii """,0
,00
    ,
0 ,	00 ,
65535 ]
:
// c
//x
T } , }
    , @calculatedFrom( ""\" ++ [233]%N ++ runes_of_ascii """  ) repeat asx{uint8  x_y_z
,
}
,  f64  Header
`line1
line2` ,}options {
    f32a	=
    // c
    7  ; packetx = 0123456789 u8x = """"
    ;
    } // a // b
root packet stringy { Foo @calculatedFrom(  ""abc""
    )
    `
`, @lengthOf( pack) repeat
    u8x{ f32
    zchar ,
    //x
    uint32 Z9_`tab	here`	,	leftPad {
msg_type @lengthOf(BodyLength )
,
repeat int8 T, string_ uint8x, match trueish as A{
[
""a	b"" ,
""a\\""
] : // packet A { u8 x, }
trueish
, [ ""a\\"",42,
""it's""
    ,
00, """ ++ [128512]%N ++ runes_of_ascii """] :  msg_type , ""a\\""
    : Z9_
/// triple
/// triple
, ""it's"" : // `tick` ""quote"" 'q'
T , ""\" ++ [233]%N ++ runes_of_ascii """ : As [4294967296, ""x y""
, 3 //
, ""abc"", // packet A { u8 x, }
""1""
, """ ++ [233]%N ++ runes_of_ascii "t" ++ [233]%N ++ runes_of_ascii """
    , 42	, ""\n""
    ]
: matchKey
,
}, }
, }
, }
")).
Eval vm_compute in ("<<<M429>>>" ++ check (runes_of_ascii "packet options1 {repeat
u128 { repeat	Z9_//
, Packet { falsey {match len // @lengthOf(
as //x
roots// packet A { u8 x, }
{
255 :
    msg_type , 10 :
string_ 0 : int
//x
// `tick` ""quote"" 'q'
, }
,// c
int16 Packet @lengthOf( // packet A { u8 x, }
f32a	)  ,  match lengthOf as //
leftPad {[ 00
,
    ""abc"" ]: charz ,} , repeat zchar[42 ]
Header `{ , }`,	}
//
// a // b
, }
//x
// c
,
    // `tick` ""quote"" 'q'
    repeat u {
tag
//	t
// @lengthOf(
{ /// triple
char[ 0] rootA
    @lengthOf( i8i8 )
, } , zchar[007]charz
    `two words` , }
    , } ,zchar[ 3 ]
u128
    @lengthOf( falsey
) , repeat string x // trailing space 
,// packet A { u8 x, }
repeat Foo _x `u8 x,` , match
roots as
Packet	{
    ""1"" :// a // b
falsey , } ,
@lengthOf(
uint8x
//x
// " ++ [128512]%N ++ runes_of_ascii " emoji
) // packet A { u8 x, }
@lengthOf(  lengthOf )@lengthOf( f32a )zchar[ 255 ] T `two words` ,f32a T ,
}")).
Eval vm_compute in ("<<<M644>>>" ++ check (runes_of_ascii "packet
falsey { uint64 calculatedFrom@lengthOf(//	t
msg_type )
/// triple
//	t
, i16
    zchar , f32	a1 ,
    // " ++ [27880; 37322]%N ++ runes_of_ascii "
    @calculatedFrom(
""// no comment"")a1 /// triple
`say ""hi""`,
As
// " ++ [128512]%N ++ runes_of_ascii " emoji
//x
Z9_ ,
    // packet A { u8 x, }
    repeatCount @lengthOf(uint8x ) , u8 o @calculatedFrom(	""`tick`"")`say ""hi""`
,
f32
    A @lengthOf(
    //
    packetx
    // `tick` ""quote"" 'q'
    )`line1
line2` ,}	MetaData len
    {As rootA
, zchar[ 10
]
BodyLength `it's` ,
int32	crc
`
` ,
zchar
u8x
, leftPad BodyLength ,
} MetaData zchar
{options1 calculatedFrom, zchar[ 7  ]trueish
    // c
    , } // " ++ [27880; 37322]%N ++ runes_of_ascii "
root
    packet Foo { @lengthOf( i8i8 )	repeat	zchar[  255 ] u `// not a comment`
,} MetaData // " ++ [27880; 37322]%N ++ runes_of_ascii "
int
    /// triple
    { uint16 matchKey  , int16 // `tick` ""quote"" 'q'
x_y_z//
`say ""hi""` ,
leftPad Logon ,}
")).
Eval vm_compute in ("<<<M4210>>>" ++ check (runes_of_ascii "

  // top
		options 
  // c0
  {// c1a
	  // c1b
	  FixedStringPadChar// c2a
  // c2b
	=	// c3a
	// c3b
    	'0' 	 // c4
  	; // c5
  } // c6
    packet// c7
      Q 
    // c8

  { 	 // c9
    	zchar[ 
  // c10
      4	// c11a
  // c11b
  ]// c12
z 
    // c13
  ,
	// c14
@rightPad	// c15

( // c16a
    // c16b

'\x00'  // c17a
    	// c17b
  )// c18
char[

    3// c20
    ]	// c21a
		// c21b
n

    // c22
	,
char[  // c24

5
] 
      // c26
  d// c27
	, 
	    // c28
  } 
root  // c30
	packet

R // c32
  { 	 // c33
Q 
  // c34

  , 	 // c35
zchar[  // c36
  8// c37a
    // c37b
  ]
    // c38

  top  // c39a
  // c39b
	, 
repeat	// c41a
// c41b
  zchar[ // c42
  2	// c43a
  // c43b
]	// c44
  zs 	 // c45
, 	 // c46
	}

    // c47
")).
Eval vm_compute in ("<<<M835>>>" ++ check (runes_of_ascii "
MetaData crc  {
} packet options1
{ u32 int@lengthOf(
int), @leftPad
    /// triple
    ( '\x00' )  repeat string uint8x
,
@lengthOf(
    T )
zchar trueish , @leftPad( )
int32 // a // b
i8i8 @lengthOf( u8x
    // " ++ [27880; 37322]%N ++ runes_of_ascii "
    ),
// c
// " ++ [27880; 37322]%N ++ runes_of_ascii "
repeatCount@calculatedFrom( ""x y"" )
    ,
    Logon	falsey ,}options {
int
= ""\n"" //	t
len=true ; _x= char
As =	int16
    ; }packet Z9_ { repeat rootA
    , @lengthOf( a1 )  string_
trueish
    `" ++ [233]%N ++ runes_of_ascii "` ,
int8	Foo , @tag(
007) repeat falsey`// not a comment` /// triple
, @tag(  0
)f64 x @calculatedFrom( ""a\\""
    // c
    ) `// not a comment` , // `tick` ""quote"" 'q'
uint64
Header
,
u8 charz	@calculatedFrom( """ ++ [128512]%N ++ runes_of_ascii """) `" ++ [28040; 24687; 31867; 22411]%N ++ runes_of_ascii "` , i32 As @lengthOf(
a1) `{ , }` , @calculatedFrom(
    ""a	b"")
uint16 x ,
}
")).
Eval vm_compute in ("<<<M546>>>" ++ check (runes_of_ascii "// a // b
packet  rootA
{
@lengthOf( Packet
    )	Logon { char[ 7 ]
    /// triple
    T //
`
`
    // @lengthOf(
    ,}, @lengthOf(  rootA
) repeat zchar[00 ]	Header ,
// c
// packet A { u8 x, }
repeat i8i8 {
match Foo as i8i8 {
[ 4294967296
, 1 ,7, ""\" ++ [233]%N ++ runes_of_ascii """, ""\n"" ,
42 , 255 ,007
] : options1
    ,
4294967296 : pack
""""
:u8x,[
65535 ,  ""\n""
] :  pack , ""`tick`"" : Z9_ },float64 stringy ,} ,	@calculatedFrom(
""`tick`""
)x
{
A @lengthOf(
    crc
    ), char[ 00
] roots
, }, @lengthOf( int
) // " ++ [27880; 37322]%N ++ runes_of_ascii "
@lengthOf(
    u8x	)// @lengthOf(
@lengthOf(
    a1 ) uint16 trueish
    @calculatedFrom(
    ""a\\""
) //x
, Header@lengthOf(MetaDataX )
    `say ""hi""`  , roots	@lengthOf( a1 ),
    }
// " ++ [128512]%N ++ runes_of_ascii " emoji
")).
Eval vm_compute in ("<<<M579>>>" ++ check (runes_of_ascii "packet
    A{
    repeatCount
    {
    // " ++ [27880; 37322]%N ++ runes_of_ascii "
    repeat string//	t
falsey
`" ++ [233]%N ++ runes_of_ascii "` , x Z9_ //x
,rootA repeatCount`a\` , repeat // " ++ [128512]%N ++ runes_of_ascii " emoji
char[]
x_y_z
``, }
,} root packet
    //
    int
    { @calculatedFrom( ""\n"") @calculatedFrom(
    ""a\\"" // trailing space 
) repeat lengthOf repeatCount `two words`
// packet A { u8 x, }
// c
,} root packet
BodyLength {
@calculatedFrom( ""`tick`"" ) repeat asx { zchar[ 10 ]
MetaDataX , repeat
    char[ 4294967296 ] rootA`say ""hi""`
    , uint64 As
`" ++ [233]%N ++ runes_of_ascii "` ,
chars
u , } ,@tag( 0123456789	) @tag( 0 )string
roots	`" ++ [28040; 24687; 31867; 22411]%N ++ runes_of_ascii "` ,
    u8 crc /// triple
`{ , }` , // a // b
@calculatedFrom(
    ""CRC32"")repeat i64_ _x ,
char Packet , }")).
Eval vm_compute in ("<<<M276>>>" ++ check (runes_of_ascii "packet zchar { msg_type ,
//
// `tick` ""quote"" 'q'
@tag( 65535 ) repeat float32 len,
    @lengthOf(
// " ++ [27880; 37322]%N ++ runes_of_ascii "
// `tick` ""quote"" 'q'
crc )	lengthOf
    //
    {
repeat float `say ""hi""` ,}	, u32 // a // b
Packet
@lengthOf( i8i8// a // b
)  `
`
// packet A { u8 x, }
// packet A { u8 x, }
,
i8i8 // a // b
, u32 calculatedFrom  @lengthOf( BodyLength //x
)`a\` , @lengthOf( Logon// " ++ [128512]%N ++ runes_of_ascii " emoji
) match MetaDataX
as	Foo  { [
""\n"" ,
255 ] :Packet , 3: o
    ,
[007] : T, }
, match pack as A { """ ++ [28040; 24687]%N ++ runes_of_ascii """
: _x 007	:
//x
// " ++ [128512]%N ++ runes_of_ascii " emoji
metadata,
255 :
As
    ,
    7 :charz, 10 : len, } , f32 len
, @leftPad ('\x00'  )float32 trueish , }
")).
Eval vm_compute in ("<<<M844>>>" ++ check (runes_of_ascii "root packet i8i8{ }
    root packet zchar {zchar[ 4294967296 ]
i8i8, @lengthOf(f32a
) match lengthOf as tag // a // b
{ 00 :
As,
}
,
msg_type`" ++ [233]%N ++ runes_of_ascii "` , i64_ @calculatedFrom( """" ) ,
    zchar[
    //
    3 ]//	t
roots
    , options1`u8 x,` ,
@lengthOf( string_)
BodyLength int `// not a comment`,
} packet x_y_z
    { @rightPad( ' ' )
    //x
    options1
    @calculatedFrom( ""`tick`"" ) ,
    float64
    As @lengthOf(
a1
    ) ,
    char[]
a1 ,
}packet
packetx
    {
@leftPad ( '\x00'
)stringy	`a\` , } packet packetx {@lengthOf(
tag
)	repeat  char T , @leftPad (' ' )  options1 matchKey  ,
    }
")).
Eval vm_compute in ("<<<M3634>>>" ++ check (runes_of_ascii "options {
    LittleEndian = false;
    ArrayPrefixLenType = u8;
    FixedStringPadChar = '0';
}
packet Order {
    InNote94 {
        f32 f1,
        f64 Side2,
        repeat InTail47 {
            char[] seqNo,
            char[] Tail,
            char[] lastPx,
        },
    },
    zchar[7] f1,
    u8 Side2,
}
root packet Reject {
    repeat char[4] Flags,
    InPrice63 {
        InSeqno41 {
            repeat i8 OrderId,
            repeat i32 clOrdID,
            char[9] tag7,
            char[] lastPx,
        },
        Order,
        uint8 Side2,
    },
}
")).
Eval vm_compute in ("<<<M988>>>" ++ check (runes_of_ascii "packet
    pack
    {	A // a // b
{ char[
0  ]msg_type `
` ,
} ,@lengthOf( msg_type
) MetaDataX {
    int64 u @calculatedFrom(
""a\""b""  )
`
`
    ,float32// a // b
i8i8  @calculatedFrom( ""a\\""
) `it's` ,	match uint8x as matchKey
    // a // b
    {""{,}"" :
i64_ ,
    42 : T , 3
:
x // c
}	, },@tag(10) @leftPad ( '\x00'
)
    zchar { f32a  Foo,}
    ,
match x_y_z as
    falsey{ ""// no comment"" : i64_ ,} , // `tick` ""quote"" 'q'
} options { uint8x
    // " ++ [128512]%N ++ runes_of_ascii " emoji
    =
    '0' ;	_x
= false // `tick` ""quote"" 'q'
f32a =zchar[ 00]
;
}
")).
Eval vm_compute in ("<<<M397>>>" ++ check (runes_of_ascii "
root
packet rootA	{@calculatedFrom( """ ++ [28040; 24687]%N ++ runes_of_ascii """ ) u  `" ++ [233]%N ++ runes_of_ascii "` , body , // " ++ [27880; 37322]%N ++ runes_of_ascii "
x
    @lengthOf( options1 // @lengthOf(
)
,
// " ++ [128512]%N ++ runes_of_ascii " emoji
// c
matchKey , @calculatedFrom( ""packet"" ) char[] f32a , u8 options1	`tab	here`
    , } packet Packet//
{
    } options
    { chars = 00 ;
Foo// packet A { u8 x, }
= true ;trueish
    // " ++ [27880; 37322]%N ++ runes_of_ascii "
    = ""1""; zchar = f64; matchKey =// " ++ [27880; 37322]%N ++ runes_of_ascii "
false ; } packet metadata {
    @leftPad
    ( '\x00' ) f32 charz @calculatedFrom(  ""{,}""
)
    `// not a comment`
,@calculatedFrom(""1""
) repeat int8 crc ,	}
")).
Eval vm_compute in ("<<<M786>>>" ++ check (runes_of_ascii "MetaData
    metadata{ } packet u // a // b
{ //
@lengthOf(	T) // packet A { u8 x, }
@lengthOf(u ) /// triple
@leftPad ('0'
//	t
// " ++ [27880; 37322]%N ++ runes_of_ascii "
) repeat
    uint8
x_y_z `" ++ [28040; 24687; 31867; 22411]%N ++ runes_of_ascii "`,
    } root packet A{ @tag(
    // a // b
    10 )
repeat zchar[ 0
    ]
    asx `doc` ,
    char[// @lengthOf(
7 ]float//x
@lengthOf(BodyLength)	`crlf
line` ,
zchar[ 0123456789 ] u128
,@rightPad
    ( )  repeat zchar[ 255
] Packet
    ``
    ,BodyLength Pad
,
    @tag(1
)zchar[
    10] float @lengthOf( roots) ,}")).
Eval vm_compute in ("<<<M366>>>" ++ check (runes_of_ascii "  packet tag  {
@calculatedFrom(""" ++ [28040; 24687]%N ++ runes_of_ascii """)A
    `" ++ [233]%N ++ runes_of_ascii "`
    ,
    // a // b
    match u as
// c
// trailing space 
len	{ [42 , """ ++ [233]%N ++ runes_of_ascii "t" ++ [233]%N ++ runes_of_ascii """ ] : As
42 :
    string_
,
""CRC32"" :
body , ""x y"":
    x //
,  [
// `tick` ""quote"" 'q'
// @lengthOf(
007 , 4294967296 ,""{,}"" ,
""""
    , """ ++ [28040; 24687]%N ++ runes_of_ascii """ , ""it's"" , """ ++ [128512]%N ++ runes_of_ascii """
    ] : u
    // " ++ [128512]%N ++ runes_of_ascii " emoji
    ,""" ++ [28040; 24687]%N ++ runes_of_ascii """  : _x,  }
,@lengthOf(rootA) u128 `doc`
,// " ++ [27880; 37322]%N ++ runes_of_ascii "
} options { falsey
=
string
string_=int8 ; } options
{// c
charz
// c
// trailing space 
= ""CRC32"" }
")).
Eval vm_compute in ("<<<M4513>>>" ++ check (runes_of_ascii "
options  {
o

    = 
' ' ;
lengthOf

    =
	""it's""string_
	= """ ++ [28040; 24687]%N ++ runes_of_ascii """
;

    i8i8	// c
	=

uint32	}packet Logon
{Pad
	@lengthOf(	stringy
    )	,
@rightPad ('\x00'  )

    Header  stringy `a\`
    , T

{  match a1
as
Logon	{	42 :
chars
	},
}	,stringy  {
	zchar[
	7	// trailing space 
	] x_y_z
, }, 
uint8x
BodyLength 
, 
repeat  zchar

,  @tag(

7 
)repeat	// packet A { u8 x, }
  u64

    u128 `" ++ [28040; 24687; 31867; 22411]%N ++ runes_of_ascii "`// packet A { u8 x, }
    , }
")).
Eval vm_compute in ("<<<M3805>>>" ++ check (runes_of_ascii "options {
    Logon = int32;
    x_y_z = ""1""
    f32a = 007
    BodyLength = zchar[3];
    MetaDataX = false;
}

packet A {
    match A as A {
        42 : _x,
    },
}

packet int {
    //
    _x asx,
}

packet trueish {
    float @calculatedFrom(""""),
    zchar[65535] Pad @calculatedFrom(""a	b"") `
        `,
}

options {
    // " ++ [128512]%N ++ runes_of_ascii " emoji
    f32a = zchar[42];
    body = ""`tick`"";//
    As = true
    tag = 3;
    packetx = true
}")).
Eval vm_compute in ("<<<M4091>>>" ++ check (runes_of_ascii "packet len {
    @tag(4294967296)
    repeat f32 a1 `" ++ [28040; 24687; 31867; 22411]%N ++ runes_of_ascii "`,
    uint8x `
    `,
}

root packet rootA {
    match crc as i8i8 {
        ""a\""b"" : _x,
        00 : Packet,
        ""// no comment"" : MetaDataX,
        // c
        [007, """ ++ [28040; 24687]%N ++ runes_of_ascii """] : MetaDataX,
        42 : charz,
        [""" ++ [233]%N ++ runes_of_ascii "t" ++ [233]%N ++ runes_of_ascii """, ""abc""] : _x,
    },
    uint16 Logon,
    @leftPad(' ')
    @leftPad(' ')
    uint8 stringy @lengthOf(msg_type) `
    `,
}")).
Eval vm_compute in ("<<<M4051>>>" ++ check (runes_of_ascii "  packet 
	// @lengthOf(
      x

    { 
int8 	 // packet A { u8 x, }
	T
	,}

options

{ } packet Z9_
{ @lengthOf(
//	t
  A
)  As
@calculatedFrom(

    ""x y""
    ) ,
	}
    MetaData
	//
// " ++ [128512]%N ++ runes_of_ascii " emoji
  Logon

{ 
	//x
  //x

pack 
trueish	, 	 /// triple
	rootA charz
, leftPad

leftPad

,
	char[]

    Logon  , 
// a // b
	// " ++ [27880; 37322]%N ++ runes_of_ascii "
f64

matchKey	,
    falsey  falsey`two words`
    , }")).
Eval vm_compute in ("<<<M4199>>>" ++ check (runes_of_ascii "  // trailing space 
  	packet Packet{

    @calculatedFrom(
""`tick`""  )
// a // b
  // `tick` ""quote"" 'q'

  repeat 
rootA{ 
        //
    repeat
    int8 
u128 `
`
	,char[  4294967296

]
A

@lengthOf(

    Foo  )

    ,}

    ,
    repeat

i16  leftPad
,
@lengthOf( // a // b
x ) float64  float// " ++ [128512]%N ++ runes_of_ascii " emoji
@lengthOf( roots

    ) ,  } // trailing space ")).
Eval vm_compute in ("<<<M368>>>" ++ check (runes_of_ascii "packet f32a{
    /// triple
    @calculatedFrom( """" ) matchKey	@lengthOf(
Packet	) `// not a comment` , match msg_type
//	t
// c
as lengthOf {"""":Z9_ ,
    ""`tick`""
    : crc , // " ++ [27880; 37322]%N ++ runes_of_ascii "
[ //
""\n"" ]: T	,
    ""x y""
    :
    // " ++ [128512]%N ++ runes_of_ascii " emoji
    _x
    ,// @lengthOf(
[  ""a\""b"" //
] :  u128 }
,zchar[ 7 ]
// trailing space 
// a // b
_x
,repeat len MetaDataX ,}
")).
Eval vm_compute in ("<<<M1152>>>" ++ check (runes_of_ascii "packet lengthOf { string falsey
//
// trailing space 
, repeat char[] tag  `
`
    // " ++ [27880; 37322]%N ++ runes_of_ascii "
    ,
    @rightPad('0' ) body { int8 pack@calculatedFrom( """" )`say ""hi""`
    ,// a // b
repeat
    char calculatedFrom ,float32 leftPad @lengthOf(
A )
// c
// @lengthOf(
, int64  Header ,	}
, i64_`{ , }`
,
f64 repeatCount `" ++ [233]%N ++ runes_of_ascii "` ,
} // trailing space ")).
Eval vm_compute in ("<<<M3942>>>" ++ check (runes_of_ascii "packet string_ {
    @lengthOf(int)
    BodyLength u8x,
    i64_ `tab	here`,
    char[3] string_,
    repeat leftPad `" ++ [28040; 24687; 31867; 22411]%N ++ runes_of_ascii "`,
    repeat int32 BodyLength `u8 x,`,// `tick` ""quote"" 'q'
    @tag(4294967296)
    BodyLength `crlf
        line`,
    msg_type Packet `" ++ [233]%N ++ runes_of_ascii "`,
    float32 string_ @calculatedFrom(""""),
    asx int `it's`,
}")).
Eval vm_compute in ("<<<M1906>>>" ++ check (runes_of_ascii "MetaData
    u { }  options {
// c
// @lengthOf(
float = int8 ;rootA rootA =false ; As =	int16 // `tick` ""quote"" 'q'
repeatCount
    // trailing space 
    =
    int16
; u8x =
    //	t
    '\x00' ; } options	{
    repeatCount
= 0
u128
    //
    = false ; i64_
// trailing space 
// `tick` ""quote"" 'q'
= '0' ; //	t
}
")).
Eval vm_compute in ("<<<M1928>>>" ++ check (runes_of_ascii "MetaData
    u { }  options {
// c
// @lengthOf(
float = int8 ;rootA =false ; @tag( =	int16 // `tick` ""quote"" 'q'
repeatCount
    // trailing space 
    =
    int16
; u8x =
    //	t
    '\x00' ; } options	{
    repeatCount
= 0
u128
    //
    = false ; i64_
// trailing space 
// `tick` ""quote"" 'q'
= '0' ; //	t
}
")).
Eval vm_compute in ("<<<M2069>>>" ++ check (runes_of_ascii "MetaData
    u { }  options {
// c
// @lengthOf(
float = int8 ;rootA =false ; As =	| int16 // `tick` ""quote"" 'q'
repeatCount
    // trailing space 
    =
    int16
; u8x =
    //	t
    '\x00' ; } options	{
    repeatCount
= 0
u128
    //
    = false ; i64_
// trailing space 
// `tick` ""quote"" 'q'
= '0' ; //	t
}
")).
Eval vm_compute in ("<<<M1917>>>" ++ check (runes_of_ascii "MetaData
    u { }  options {
// c
// @lengthOf(
float = int8 ;rootA =; false As =	int16 // `tick` ""quote"" 'q'
repeatCount
    // trailing space 
    =
    int16
; u8x =
    //	t
    '\x00' ; } options	{
    repeatCount
= 0
u128
    //
    = false ; i64_
// trailing space 
// `tick` ""quote"" 'q'
= '0' ; //	t
}
")).
Eval vm_compute in ("<<<M2074>>>" ++ check (runes_of_ascii "MetaData
    u { }  options {
// c
// @lengthOf(
float = int8 ;rootA =false ; " ++ [21517; 23383]%N ++ runes_of_ascii " =	int16 // `tick` ""quote"" 'q'
repeatCount
    // trailing space 
    =
    int16
; u8x =
    //	t
    '\x00' ; } options	{
    repeatCount
= 0
u128
    //
    = false ; i64_
// trailing space 
// `tick` ""quote"" 'q'
= '0' ; //	t
}
")).
Eval vm_compute in ("<<<M475>>>" ++ check (runes_of_ascii "options {zchar= ' '
    ;
    MetaDataX
    =
    zchar[ 255
] // " ++ [128512]%N ++ runes_of_ascii " emoji
; } options
{ options1 = ""1""
//x
// " ++ [128512]%N ++ runes_of_ascii " emoji
; } MetaData u128
/// triple
// `tick` ""quote"" 'q'
{ char[]
    leftPad , } options //	t
{ a1 = 255; }  packet
    As { repeat char[007 ]
    A , f32a@lengthOf( calculatedFrom
    ) ,
    }

")).
Eval vm_compute in ("<<<M2053>>>" ++ check (runes_of_ascii "MetaData
    u { }  options {
// c
// @lengthOf(
float = int8 ;rootA =false ; As =	int16 // `tick` ""quote"" 'q'
repeatCount
    // trailing space 
    =
    int16
; u8x =
    //	t
    '\x00' ; } options	{
    repeatCount
= 0
u128
    //
    = false ; i64_
// trailing space 
// `tick` ""quote"" 'q'
= '0' ;")).
Eval vm_compute in ("<<<M425>>>" ++ check (runes_of_ascii "// trailing space 
packet Packet
{@calculatedFrom(
""`tick`""
)
// a // b
// `tick` ""quote"" 'q'
repeat rootA  {
    //
    repeat int8 u128`
` , char[
4294967296
]A@lengthOf(
Foo ) , } , repeat i16	leftPad , @lengthOf( // a // b
x ) float64 float // " ++ [128512]%N ++ runes_of_ascii " emoji
@lengthOf(roots), } // trailing space ")).
Eval vm_compute in ("<<<M486>>>" ++ check (runes_of_ascii "options
    { /// triple
} MetaData
    Logon // packet A { u8 x, }
{ char[ 65535 ] i8i8
, }
options
{ u128
= f64 options1 = int8;  Packet
    // " ++ [27880; 37322]%N ++ runes_of_ascii "
    = true; falsey
=char[255
    ] uint8x
    =uint32
;	}	MetaData
//x
// trailing space 
i64_ {
} packet BodyLength  { } // a // b")).
Eval vm_compute in ("<<<M3482>>>" ++ check (runes_of_ascii "packet chars // c1a
  // c1b
{ // c2a
  // c2b
} // c3a
  // c3b
packet
    // c4
MetaDataX // c5a
  // c5b
{ @tag( // c7a
  // c7b
42
    // c8
) i16 // c10a
  // c10b
string_ // c11a
  // c11b
, // c12a
  // c12b
repeat // c13
x `say ""hi""` // c15
, // c16a
  // c16b
} ")).
Eval vm_compute in ("<<<M3659>>>" ++ check (runes_of_ascii "options {
    LittleEndian = true;
}
packet Sub {
    u8 a,
    @calculatedFrom(""CRC16"") u64 SubSum,
}
root packet Frame {
    u16 MsgType,
    u16 BodyLen @lengthOf(Body),
    Sub Body,
    string note,
    @calculatedFrom(""CRC16"") u64 Checksum,
    u8 tail,
}
")).
Eval vm_compute in ("<<<M1515>>>" ++ check (runes_of_ascii "packet
//	t
// trailing space 
_x {
// packet A { u8 x, }
// c
char[
3
    uint8 u8x @lengthOf(
u8x ) , @calculatedFrom(""" ++ [128512]%N ++ runes_of_ascii """ // @lengthOf(
)
i16	Foo
@lengthOf(	string_
    )`doc`	, repeat	i64 metadata , @lengthOf( string_
) i8 // c
u  `line1
line2`	,
}
")).
Eval vm_compute in ("<<<M1643>>>" ++ check (runes_of_ascii "packet
//	t
// trailing space 
_x {
// packet A { u8 x, }
// c
char[
3
    ] u8x @lengthOf(
u8x ) , @calculatedFrom(""" ++ [128512]%N ++ runes_of_ascii """ // @lengthOf(
)
i16	Foo
@lengthOf(	string_
    )`doc`	, repeat	i64 metadata , @lengthOf( string_
) i8 // c
u  `line1
line2`	, ,
}
")).
Eval vm_compute in ("<<<M1510>>>" ++ check (runes_of_ascii "packet
//	t
// trailing space 
_x {
// packet A { u8 x, }
// c
char[
{
    ] u8x @lengthOf(
u8x ) , @calculatedFrom(""" ++ [128512]%N ++ runes_of_ascii """ // @lengthOf(
)
i16	Foo
@lengthOf(	string_
    )`doc`	, repeat	i64 metadata , @lengthOf( string_
) i8 // c
u  `line1
line2`	,
}
")).
Eval vm_compute in ("<<<M2034>>>" ++ check (runes_of_ascii "MetaData
    u { }  options {
// c
// @lengthOf(
float = int8 ;rootA =false ; As =	int16 // `tick` ""quote"" 'q'
repeatCount
    // trailing space 
    =
    int16
; u8x =
    //	t
    '\x00' ; } options	{
    repeatCount
= 0
u128
    //
    = false ;")).
Eval vm_compute in ("<<<M1562>>>" ++ check (runes_of_ascii "packet
//	t
// trailing space 
_x {
// packet A { u8 x, }
// c
char[
3
    ] u8x @lengthOf(
u8x ) , @calculatedFrom(""" ++ [128512]%N ++ runes_of_ascii """ // @lengthOf(
)
i16	
@lengthOf(	string_
    )`doc`	, repeat	i64 metadata , @lengthOf( string_
) i8 // c
u  `line1
line2`	,
}
")).
Eval vm_compute in ("<<<M1525>>>" ++ check (runes_of_ascii "packet
//	t
// trailing space 
_x {
// packet A { u8 x, }
// c
char[
3
    ] u8x 3
u8x ) , @calculatedFrom(""" ++ [128512]%N ++ runes_of_ascii """ // @lengthOf(
)
i16	Foo
@lengthOf(	string_
    )`doc`	, repeat	i64 metadata , @lengthOf( string_
) i8 // c
u  `line1
line2`	,
}
")).
Eval vm_compute in ("<<<M3987>>>" ++ check (runes_of_ascii "
packet

lengthOf
{

}packet

Z9_	{  } 
packet	uint8x
{leftPad

    Foo 
    // `tick` ""quote"" 'q'
    `" ++ [233]%N ++ runes_of_ascii "` , 	 // c
  @calculatedFrom(
	//
	  /// triple
    ""\n"" )
@calculatedFrom(
""" ++ [128512]%N ++ runes_of_ascii """	)  zchar[0123456789 ]
	metadata
    ,
    }
")).
Eval vm_compute in ("<<<M2009>>>" ++ check (runes_of_ascii "MetaData
    u { }  options {
// c
// @lengthOf(
float = int8 ;rootA =false ; As =	int16 // `tick` ""quote"" 'q'
repeatCount
    // trailing space 
    =
    int16
; u8x =
    //	t
    '\x00' ; } options	{
    repeatCount
=")).
Eval vm_compute in ("<<<M3264>>>" ++ check (runes_of_ascii "// top
MetaData // c0
float // c1
{ // c2
float64 // c3
charz // c4
`
` // c5
, // c6
} // c7
root // c8
packet // c9
chars // c10
{ // c11
@rightPad // c12
( // c13
'0' // c14
) // c15
Foo // c16
, // c17
} // c18
")).
Eval vm_compute in ("<<<M1804>>>" ++ check (runes_of_ascii "options { trueish = ""`tick`"" ; string_= """ ++ [233]%N ++ runes_of_ascii "t" ++ [233]%N ++ runes_of_ascii """
    // c
    } root
    packet body { stringy @calculatedFrom(
""a	b"" ) `line1
line2` , }
packet Logon {
    @leftPad(
    0123456789 ) //	t
u16 string_ `u8 x,` ,
}
")).
Eval vm_compute in ("<<<M1704>>>" ++ check (runes_of_ascii "options { trueish = ""`tick`"" ; @lengthOf(= """ ++ [233]%N ++ runes_of_ascii "t" ++ [233]%N ++ runes_of_ascii """
    // c
    } root
    packet body { stringy @calculatedFrom(
""a	b"" ) `line1
line2` , }
packet Logon {
    @leftPad(
    ' ' ) //	t
u16 string_ `u8 x,` ,
}
")).
Eval vm_compute in ("<<<M1759>>>" ++ check (runes_of_ascii "options { trueish = ""`tick`"" ; string_= """ ++ [233]%N ++ runes_of_ascii "t" ++ [233]%N ++ runes_of_ascii """
    // c
    } root
    packet body { stringy @calculatedFrom(
""a	b"" i8 `line1
line2` , }
packet Logon {
    @leftPad(
    ' ' ) //	t
u16 string_ `u8 x,` ,
}
")).
Eval vm_compute in ("<<<M1758>>>" ++ check (runes_of_ascii "options { trueish = ""`tick`"" ; string_= """ ++ [233]%N ++ runes_of_ascii "t" ++ [233]%N ++ runes_of_ascii """
    // c
    } root
    packet body { stringy @calculatedFrom(
""a	b"" `line1
line2` ) , }
packet Logon {
    @leftPad(
    ' ' ) //	t
u16 string_ `u8 x,` ,
}
")).
Eval vm_compute in ("<<<M1786>>>" ++ check (runes_of_ascii "options { trueish = ""`tick`"" ; string_= """ ++ [233]%N ++ runes_of_ascii "t" ++ [233]%N ++ runes_of_ascii """
    // c
    } root
    packet body { stringy @calculatedFrom(
""a	b"" ) `line1
line2` , }
packet Logon 
    @leftPad(
    ' ' ) //	t
u16 string_ `u8 x,` ,
}
")).
Eval vm_compute in ("<<<M1684>>>" ++ check (runes_of_ascii "options { = = ""`tick`"" ; string_= """ ++ [233]%N ++ runes_of_ascii "t" ++ [233]%N ++ runes_of_ascii """
    // c
    } root
    packet body { stringy @calculatedFrom(
""a	b"" ) `line1
line2` , }
packet Logon {
    @leftPad(
    ' ' ) //	t
u16 string_ `u8 x,` ,
}
")).
Eval vm_compute in ("<<<M4228>>>" ++ check (runes_of_ascii "MetaData BodyLength {
    falsey Logon `{ , }`,
    u8 int `" ++ [28040; 24687; 31867; 22411]%N ++ runes_of_ascii "`,
    zchar[7] len,
}

MetaData u {
    Logon matchKey `{ , }`,
    char[42] int `line1
        line2`,
    char[7] x_y_z `doc`,
}")).
Eval vm_compute in ("<<<M506>>>" ++ check (runes_of_ascii "MetaData metadata { //	t
uint8x pack , a1
f32a , zchar a1 , rootA Header ,
    char[  42
    ]	string_,
    asx charz `crlf
line`
    // @lengthOf(
    , } options /// triple
{
    } 	 ")).
Eval vm_compute in ("<<<M1185>>>" ++ check (runes_of_ascii "  packet zchar { @calculatedFrom( ""// no comment""
)i32
//x
//
x_y_z , }options {int = i8 ; MetaDataX
=
// trailing space 
// c
char[] ; Logon
    =false; roots= 0//
Pad
=
false ;
}")).
Eval vm_compute in ("<<<M1065>>>" ++ check (runes_of_ascii "packet	stringy { // trailing space 
@lengthOf(rootA ) repeat char[] len`u8 x,`, float32 zchar,@tag(
    42
) @tag(
    255
) @tag( 10 )
    repeatCount, repeat leftPad ,} 	 ")).
Eval vm_compute in ("<<<M259>>>" ++ check (runes_of_ascii "options { Pad = char[]; u8x
    // trailing space 
    =
    ""packet"";
o = i64
; stringy
=""a\""b""
packetx
    // trailing space 
    = 65535
} options
{ chars
= '0'}")).
Eval vm_compute in ("<<<M4584>>>" ++ check (runes_of_ascii "packet lengthOf {
}

packet Z9_ {
}

packet uint8x {
    leftPad Foo `" ++ [233]%N ++ runes_of_ascii "`,// c
    @calculatedFrom(""\n"")
    @calculatedFrom(""" ++ [128512]%N ++ runes_of_ascii """)
    zchar[0123456789] metadata,
}")).
Eval vm_compute in ("<<<M2125>>>" ++ check (runes_of_ascii "options{
_x
= true
} options
{ o	= /// triple
false false
    ; chars
= ""\n"" } root packet	Pad
/// triple
// packet A { u8 x, }
{	chars
    // a // b
    ,}")).
Eval vm_compute in ("<<<M2202>>>" ++ check (runes_of_ascii "options{
_x
= true
} options
{ o	= /// triple
false
    ; chars
= ""\n"" } root packet	Pad
/// triple
// packet A { u@tag8 x, }
{	chars
    // a // b
    ,}")).
Eval vm_compute in ("<<<M403>>>" ++ check (runes_of_ascii "packet body {  @leftPad (
    ) zchar[
0 ] metadata , chars {
repeat
    // " ++ [128512]%N ++ runes_of_ascii " emoji
    u8 string_,
string options1
    @calculatedFrom( """ ++ [28040; 24687]%N ++ runes_of_ascii """
    ) , },}")).
Eval vm_compute in ("<<<M2406>>>" ++ check (runes_of_ascii "// c
packet x { @lengthOf( metadata ) repeat lengthOf
,a1{
trueish	,// c
repeat//	t
MetaDataX , } , zchar[
    42	rootA ] // `tick` ""quote"" 'q'
,
    }
")).
Eval vm_compute in ("<<<M1954>>>" ++ check (runes_of_ascii "MetaData
    u { }  options {
// c
// @lengthOf(
float = int8 ;rootA =false ; As =	int16 // `tick` ""quote"" 'q'
repeatCount
    // trailing space 
    =")).
Eval vm_compute in ("<<<M2080>>>" ++ check (runes_of_ascii "options
_x
= true
} options
{ o	= /// triple
false
    ; chars
= ""\n"" } root packet	Pad
/// triple
// packet A { u8 x, }
{	chars
    // a // b
    ,}")).
Eval vm_compute in ("<<<M2164>>>" ++ check (runes_of_ascii "options{
_x
= true
} options
{ o	= /// triple
false
    ; chars
= ""\n"" } root packet	
/// triple
// packet A { u8 x, }
{	chars
    // a // b
    ,}")).
Eval vm_compute in ("<<<M2333>>>" ++ check (runes_of_ascii "// c
packet x { @lengthOf( metadata ) repeat (
,a1{
trueish	,// c
repeat//	t
MetaDataX , } , zchar[
    42	] rootA // `tick` ""quote"" 'q'
,
    }
")).
Eval vm_compute in ("<<<M4532>>>" ++ check (runes_of_ascii "  options {	a1 /// triple
=	""1""
    ;

    trueish
    =

i64
    ; stringy
    = """ ++ [128512]%N ++ runes_of_ascii """ ; u8x
    = 
255

    ;
	u128

    =""`tick`"" ; 
}
")).
Eval vm_compute in ("<<<M1337>>>" ++ check (runes_of_ascii "
options {
MetaDataX = 3; matchKey =
i32 T// packet A { u8 x, }
= 1
    } packet Header
{ string i64_ @lengthOf( Packet ) `say ""hi""`,
}")).
Eval vm_compute in ("<<<M986>>>" ++ check (runes_of_ascii "//x
options { Header
= char[];} MetaData
    Z9_ { // @lengthOf(
x_y_z Header `crlf
line` ,
// " ++ [27880; 37322]%N ++ runes_of_ascii "
// " ++ [27880; 37322]%N ++ runes_of_ascii "
string pack ,} options { }
")).
Eval vm_compute in ("<<<M685>>>" ++ check (runes_of_ascii "MetaData
u128
    {string	falsey `u8 x,` // c
,
trueish
roots , } options
    {msg_type =
/// triple
// trailing space 
""" ++ [128512]%N ++ runes_of_ascii """ ; }")).
Eval vm_compute in ("<<<M1403>>>" ++ check (runes_of_ascii "
packet
    falsey falsey { Header@calculatedFrom(""packet""  ) , char[
    0123456789 ] packetx
    , } // `tick` ""quote"" 'q'")).
Eval vm_compute in ("<<<M3796>>>" ++ check (runes_of_ascii "MetaData	float  {  float64
charz
    `
`

    ,
} root
packet

    chars	{
	@rightPad

(
'0' )

Foo	, }
    // c
 
")).
Eval vm_compute in ("<<<M3335>>>" ++ check (runes_of_ascii "root packet matchKey { zchar[ 3 ] pack @calculatedFrom( ""a	b"" ) `doc`
// c
, } options { } MetaData A { int8 msg_type , }")).
Eval vm_compute in ("<<<M1408>>>" ++ check (runes_of_ascii "
packet
    falsey { { Header@calculatedFrom(""packet""  ) , char[
    0123456789 ] packetx
    , } // `tick` ""quote"" 'q'")).
Eval vm_compute in ("<<<M1401>>>" ++ check (runes_of_ascii "
char[]
    falsey { Header@calculatedFrom(""packet""  ) , char[
    0123456789 ] packetx
    , } // `tick` ""quote"" 'q'")).
Eval vm_compute in ("<<<M1485>>>" ++ check (runes_of_ascii "
packet
    falsey { na" ++ [239]%N ++ runes_of_ascii "ve@calculatedFrom(""packet""  ) , char[
    0123456789 ] packetx
    , } // `tick` ""quote"" 'q'")).
Eval vm_compute in ("<<<M1445>>>" ++ check (runes_of_ascii "
packet
    falsey { Header@calculatedFrom(""packet""  ) , char[
    false ] packetx
    , } // `tick` ""quote"" 'q'")).
Eval vm_compute in ("<<<M2999>>>" ++ check (runes_of_ascii "packet A {
  match k as n {
    [""a"", ""bb"", 007, ""d"", ""e"", 66, ""g"", ""h"", 9, ""j"", ""k"", 12] : B
    2 : C
  },
}")).
Eval vm_compute in ("<<<M2995>>>" ++ check (runes_of_ascii "packet A {
  match k as n {
    [""a"", 22, ""c c"", 4, ""e"", 66, ""g"", 8, ""i"", 10, ""k"", 12] : B
    2 : C
  },
}")).
Eval vm_compute in ("<<<M3015>>>" ++ check (runes_of_ascii "packet A {
    u16 len @lengthOf(body) `
`,
    u32 crc @calculatedFrom(""CRC32"") `
`,
    string body,
}")).
Eval vm_compute in ("<<<M2973>>>" ++ check (runes_of_ascii "packet A {
  match k as n {
    [""a"", ""bb"", 007, ""d"", ""e"", 66, ""g"", ""h"", 9, ""j""] : B
    2 : C
  },
}")).
Eval vm_compute in ("<<<M4271>>>" ++ check (runes_of_ascii "
// " ++ [27880; 37322]%N ++ runes_of_ascii "
  MetaData  msg_type{ } MetaData
	Pad {int64 
Header,
	}

    MetaData 
matchKey
	{} //
")).
Eval vm_compute in ("<<<M1536>>>" ++ check (runes_of_ascii "packet
//	t
// trailing space 
_x {
// packet A { u8 x, }
// c
char[
3
    ] u8x @lengthOf(
u8x")).
Eval vm_compute in ("<<<M2971>>>" ++ check (runes_of_ascii "packet A {
  match k as n {
    [1, 22, ""c c"", 4, 5, ""f"", 7, 8, ""i"", 10] : B
    2 : C
  },
}")).
Eval vm_compute in ("<<<M582>>>" ++ check (runes_of_ascii "MetaData f32a { u32 roots , T matchKey  `tab	here` ,
/// triple
// packet A { u8 x, }
} 	 ")).
Eval vm_compute in ("<<<M3271>>>" ++ check (runes_of_ascii "MetaData float // c
{ float64 charz `
` , } root packet chars { @rightPad ( '0' ) Foo , }")).
Eval vm_compute in ("<<<M3303>>>" ++ check (runes_of_ascii "MetaData float { float64 charz `
` , } root packet chars { @rightPad ( '0' ) Foo , // c
}")).
Eval vm_compute in ("<<<M3514>>>" ++ check (runes_of_ascii "packet chars { } packet MetaDataX { @tag( 42 ) i16 string_ , repeat x
// c
`say ""hi""` , }")).
Eval vm_compute in ("<<<M1050>>>" ++ check (runes_of_ascii "packet matchKey // @lengthOf(
{ // packet A { u8 x, }
@leftPad( '0' ) int16 options1,}
")).
Eval vm_compute in ("<<<M1187>>>" ++ check (runes_of_ascii "options{
a1 = false
x
= ""CRC32""
// `tick` ""quote"" 'q'
// @lengthOf(
A  =  42
    } 	 ")).
Eval vm_compute in ("<<<M3221>>>" ++ check (runes_of_ascii "packet metadata { Logon { // c
A `" ++ [28040; 24687; 31867; 22411]%N ++ runes_of_ascii "` , tag o , } , zchar len `// not a comment` , }")).
Eval vm_compute in ("<<<M4497>>>" ++ check (runes_of_ascii "  packet

    Inner {u8

a
,
}root

packet
    P {
repeat Inner
items ,
u8 x
	,
} ")).
Eval vm_compute in ("<<<M3441>>>" ++ check (runes_of_ascii "packet o { repeat Logon uint8x , // c
} options { asx = zchar[ 3 ] stringy = '\x00' }")).
Eval vm_compute in ("<<<M2927>>>" ++ check (runes_of_ascii "packet A {
  match k as n {
    [1, ""bb"", 007, ""d"", 5, ""f"", 7] : B,
    2 : C
  },
}")).
Eval vm_compute in ("<<<M1939>>>" ++ check (runes_of_ascii "MetaData
    u { }  options {
// c
// @lengthOf(
float = int8 ;rootA =false ; As =")).
Eval vm_compute in ("<<<M3418>>>" ++ check (runes_of_ascii "MetaData body { i64 pack `it's` , } packet stringy { int16 calculatedFrom // c
, }")).
Eval vm_compute in ("<<<M4485>>>" ++ check (runes_of_ascii "
packet
    x_y_z
{
    char	stringy	@calculatedFrom(""" ++ [233]%N ++ runes_of_ascii "t" ++ [233]%N ++ runes_of_ascii """  )

,
	} /// triple")).
Eval vm_compute in ("<<<M778>>>" ++ check (runes_of_ascii "options {repeatCount
= int64 u8x =
//	t
// packet A { u8 x, }
' '
;
}
// " ++ [27880; 37322]%N ++ runes_of_ascii "
")).
Eval vm_compute in ("<<<M1291>>>" ++ check (runes_of_ascii "
root packet charz
    { @rightPad ( '0' )
_x	@lengthOf( asx
) `" ++ [233]%N ++ runes_of_ascii "`
, }
")).
Eval vm_compute in ("<<<M1516>>>" ++ check (runes_of_ascii "packet
//	t
// trailing space 
_x {
// packet A { u8 x, }
// c
char[
3")).
Eval vm_compute in ("<<<M2879>>>" ++ check (runes_of_ascii "packet A {
  match k as n {
    [1, 22, ""c c""] : B,
    2 : C
  },
}")).
Eval vm_compute in ("<<<M1023>>>" ++ check (runes_of_ascii "packet x_y_z { char stringy@calculatedFrom( """ ++ [233]%N ++ runes_of_ascii "t" ++ [233]%N ++ runes_of_ascii """ ), } /// triple")).
Eval vm_compute in ("<<<M2708>>>" ++ check (runes_of_ascii "[ '0' packet Logon char @lengthOf( ) ; ) MetaData ; int16 f64 (")).
Eval vm_compute in ("<<<M123>>>" ++ check (runes_of_ascii "
packet crc	{ u32 T@lengthOf( x ) `crlf
line` ,// a // b
}")).
Eval vm_compute in ("<<<M2860>>>" ++ check (runes_of_ascii "packet A {
  match k as n {
    [""a""] : B
    2 : C
  },
}")).
Eval vm_compute in ("<<<M4446>>>" ++ check (runes_of_ascii "root packet calculatedFrom {
    char[] trueish `
    `,
}")).
Eval vm_compute in ("<<<M1436>>>" ++ check (runes_of_ascii "
packet
    falsey { Header@calculatedFrom(""packet""  )")).
Eval vm_compute in ("<<<M1431>>>" ++ check (runes_of_ascii "
packet
    falsey { Header@calculatedFrom(""packet""")).
Eval vm_compute in ("<<<M4553>>>" ++ check (runes_of_ascii "options {
    falsey = ""\" ++ [233]%N ++ runes_of_ascii """;
    lengthOf = 0;
}")).
Eval vm_compute in ("<<<M177>>>" ++ check (runes_of_ascii "root packet
repeatCount{ } // trailing space ")).
Eval vm_compute in ("<<<M737>>>" ++ check (runes_of_ascii "  MetaData
options1{ float _x `{ , }`
, }")).
Eval vm_compute in ("<<<M2696>>>" ++ check (runes_of_ascii "; f32 , } true repeat u16 string lengthOf")).
Eval vm_compute in ("<<<M3202>>>" ++ check (runes_of_ascii "root packet u128 { chars `it's` ,
// c
}")).
Eval vm_compute in ("<<<M514>>>" ++ check (runes_of_ascii "root
packet lengthOf { } options {}
")).
Eval vm_compute in ("<<<M4578>>>" ++ check (runes_of_ascii "

  options {pack 
=int32
    ;  }
")).
Eval vm_compute in ("<<<M2582>>>" ++ check (runes_of_ascii "packet A { char[3] @lengthOf(y), }")).
Eval vm_compute in ("<<<M3006>>>" ++ check (runes_of_ascii "root packet A {
    u8 x `a
b`,
}")).
Eval vm_compute in ("<<<M2711>>>" ++ check (runes_of_ascii "jj09.>2DTk%ME=LXhml^SMAda\<;R~)")).
Eval vm_compute in ("<<<M3112>>>" ++ check (runes_of_ascii "packet A {
 u8 x `d" ++ [8287]%N ++ runes_of_ascii "`, // c" ++ [8287]%N ++ runes_of_ascii "
}")).
Eval vm_compute in ("<<<M3001>>>" ++ check (runes_of_ascii "packet A {
    u8 x `a
b`,
}")).
Eval vm_compute in ("<<<M2447>>>" ++ check (runes_of_ascii "int8 int16 int32 int64 int")).
Eval vm_compute in ("<<<M3258>>>" ++ check (runes_of_ascii "root packet pack // c
{ }")).
Eval vm_compute in ("<<<M2669>>>" ++ check (runes_of_ascii "options { packet = 1; }")).
Eval vm_compute in ("<<<M3920>>>" ++ check (runes_of_ascii "// packet A { u8 x, }")).
Eval vm_compute in ("<<<M1198>>>" ++ check (runes_of_ascii "  packet i64_ { }

")).
Eval vm_compute in ("<<<M4292>>>" ++ check (runes_of_ascii "

  packet
i64_{ 
}")).
Eval vm_compute in ("<<<M3106>>>" ++ check (runes_of_ascii "// c" ++ [8239]%N ++ runes_of_ascii "
packet A {
}")).
Eval vm_compute in ("<<<M2658>>>" ++ check (runes_of_ascii "options { a = ; }")).
Eval vm_compute in ("<<<M2654>>>" ++ check (runes_of_ascii "MetaData M M { }")).
Eval vm_compute in ("<<<M423>>>" ++ check (runes_of_ascii "
 /// triple")).
Eval vm_compute in ("<<<M2369>>>" ++ check (runes_of_ascii "// c
packet")).
Eval vm_compute in ("<<<M2088>>>" ++ check (runes_of_ascii "options{")).
Eval vm_compute in ("<<<M3768>>>" ++ check (runes_of_ascii "  //
 
")).
Eval vm_compute in ("<<<M2431>>>" ++ check (runes_of_ascii "char_")).
Eval vm_compute in ("<<<M3129>>>" ++ check (runes_of_ascii "// c" ++ [8203]%N)).
Eval vm_compute in ("<<<M2769>>>" ++ check (runes_of_ascii "int8")).
Eval vm_compute in ("<<<M2673>>>" ++ check (runes_of_ascii "{ }")).
Eval vm_compute in ("<<<M2444>>>" ++ check (runes_of_ascii "u")).
