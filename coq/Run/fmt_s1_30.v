From FP Require Import Lexer Parser ShowPT Digest Formatter.
From Coq Require Import String List NArith.
Import ListNotations.
Open Scope string_scope.
Set Printing Width 100000000.
Set Printing Depth 100000000.
Definition show_fres (r : fres) : string :=
  match r with
  | FOk s => "OK:" ++ sh_escaped s ""
  | FErr s => "ERR:" ++ sh_escaped s ""
  | FPanic p => "PANIC:" ++ p
  end.
Definition check (rs : list rune) : string := digest (show_fres (format_res rs)).
Definition full (rs : list rune) : string := show_fres (format_res rs).
Eval vm_compute in ("<<<M1632>>>" ++ check (runes_of_ascii "
root

    packet

zchar  { repeatCount // a // b
@lengthOf(
	asx)

, match

    string_
as
	o 	 // @lengthOf(
  {
7  :packetx  ,

    7
:Pad

}
, 	 // packet A { u8 x, }
	zchar[65535 
]
T@calculatedFrom(	/// triple
""" ++ [128512]%N ++ runes_of_ascii """	) ,

tag  @lengthOf( 	 // " ++ [27880; 37322]%N ++ runes_of_ascii "
		u ) `crlf
line`
,@calculatedFrom( 

// " ++ [128512]%N ++ runes_of_ascii " emoji
  """")  _x
	@calculatedFrom( // @lengthOf(

""a	b""  )
	`// not a comment`
,match	Z9_ 
as 
float {  0123456789:calculatedFrom ,

    ""{,}""

    : u	//	t

} ,@leftPad( ) @tag(255)@lengthOf(
i8i8

)match
	tag
    as trueish{ 
4294967296

:

uint8x ,  [  //x
65535
]

    : u8x , 10 :

i64_ , """"	: metadata
	}
,  int64
T ,  }
    root packet len

    { @tag(
0 )
Logon  , 
@tag(
255

    ) repeat

u64

    packetx
	`it's`	,

    @tag(

    4294967296

    )
zchar[  007
]

    repeatCount `a\`
, char[ 4294967296

] 

// " ++ [128512]%N ++ runes_of_ascii " emoji

	// packet A { u8 x, }
	asx 
@calculatedFrom( ""it's"" 
) ,

    }root

    packet

asx {
    uint16 options1@lengthOf(matchKey

    ) 
`it's`,
}root  //
	  packet Logon  {
@lengthOf( 
asx  )@calculatedFrom(

    ""packet""  ) Z9_
@calculatedFrom(	// " ++ [128512]%N ++ runes_of_ascii " emoji
	""" ++ [28040; 24687]%N ++ runes_of_ascii """ )	, @tag(  007 
    /// triple
  )
	zchar[0123456789
]
i64_

    ,
    msg_type
`line1
line2` ,repeat
zchar[	007] Pad `
` ,falsey {	chars
lengthOf ``, match 
Header
    as

lengthOf 
{""" ++ [233]%N ++ runes_of_ascii "t" ++ [233]%N ++ runes_of_ascii """ 
:falsey 42

    : uint8x 
, [ 007
,  ""abc""
,
	// c
	// a // b
	  ""abc"" ,  ""a\\""
    ,	65535// c
  ,
""a\""b""
,42
,  ""{,}""] 
:
charz
	}  , int64 //x
	Foo 	 // c
  ,

Z9_
@lengthOf( int ) `it's`
	,
}

,  @rightPad(
)// trailing space 
  string
As

    @calculatedFrom( """ ++ [28040; 24687]%N ++ runes_of_ascii """)
,  
      // c
match matchKey 
as	repeatCount
{
4294967296	:	msg_type	, """ ++ [28040; 24687]%N ++ runes_of_ascii """

:
	zchar 
3

    :u8x , """"
    :
asx 
// trailing space 
// `tick` ""quote"" 'q'
	, }	, 
} ")).
Eval vm_compute in ("<<<M379>>>" ++ check (runes_of_ascii "options {
    StringPrefixLenType = u16;
    ArrayPrefixLenType = u16;
}

packet SampleBinary {
    uint16 MsgType `" ++ [28040; 24687; 31867; 22411]%N ++ runes_of_ascii "`,
    u16 BodyLenght @lengthOf(Body) `" ++ [28040; 24687; 20307; 38271; 24230]%N ++ runes_of_ascii "`,
    match MsgType as Body {
        1 : Logon,
        2 : Logout,
        3 : Heartbeat,
        4 : RiskControlRequest,
        5 : RiskControlResponse,
    },
    @calculatedFrom(""CRC32"")
    u32 Ckecksum `" ++ [26657; 39564; 21644]%N ++ runes_of_ascii "`,
}

packet Logon {
    @leftPad('0')
    char[10] UserName `" ++ [29992; 25143; 21517]%N ++ runes_of_ascii "`,
    string Password `" ++ [23494; 30721]%N ++ runes_of_ascii "`,
    uint64 ClientId `" ++ [23458; 25143; 31471]%N ++ runes_of_ascii "ID`,
    u16 HeartbeatInterval `" ++ [24515; 36339; 38388; 38548]%N ++ runes_of_ascii "`,
}

packet Logout {
    @rightPad('0')
    char[10] UserName `" ++ [29992; 25143; 21517]%N ++ runes_of_ascii "`,
    uint64 ClientId `" ++ [23458; 25143; 31471]%N ++ runes_of_ascii "ID`,
}

packet Heartbeat {
}

packet RiskControlRequest {
    string UniqueOrderId `" ++ [21807; 19968; 35746; 21333; 21495]%N ++ runes_of_ascii "`,
    char[16] ClOrdID `" ++ [23458; 25143; 35746; 21333; 21495]%N ++ runes_of_ascii "`,
    char[3] MarketID `" ++ [24066; 22330]%N ++ runes_of_ascii "id`,
    char[12] SecurityID `" ++ [35777; 21048; 20195; 30721]%N ++ runes_of_ascii "`,
    char Side `" ++ [20080; 21334; 26041; 21521]%N ++ runes_of_ascii "`,
    char OrderType `" ++ [35746; 21333; 31867; 22411]%N ++ runes_of_ascii "`,
    u64 Price `" ++ [20215; 26684]%N ++ runes_of_ascii "`,
    u32 Qty `" ++ [25968; 37327]%N ++ runes_of_ascii "`,
    repeat string ExtraInfo `" ++ [38468; 21152; 20449; 24687]%N ++ runes_of_ascii "`,
    repeat SubOrder {
        char[16] ClOrdID `" ++ [23376; 35746; 21333; 21495]%N ++ runes_of_ascii "`,
        u64 Price `" ++ [23376; 35746; 21333; 20215; 26684]%N ++ runes_of_ascii "`,
        u32 Qty `" ++ [23376; 35746; 21333; 25968; 37327]%N ++ runes_of_ascii "`,
    },
}

packet RiskControlResponse {
    string UniqueOrderId `" ++ [21807; 19968; 35746; 21333; 21495]%N ++ runes_of_ascii "`,
    i32 Status `" ++ [29366; 24577]%N ++ runes_of_ascii "`,
    string Msg `" ++ [32467; 26524; 20449; 24687]%N ++ runes_of_ascii "`,
    repeat Detail,
}

packet Detail {
    string RuleName `" ++ [35268; 21017; 21517; 31216]%N ++ runes_of_ascii "`,
    u16 Code `" ++ [21407; 22240; 20195; 30721]%N ++ runes_of_ascii "`,
}")).
Eval vm_compute in ("<<<M1782>>>" ++ check (runes_of_ascii "options{ StringPrefixLenType = u16 ;ArrayPrefixLenType =

u8
	;	FixedStringPadFromLeft
=
	true

    ;

FixedStringPadChar  = ' ' ;
    } packet

    Quote

{	int64 OrderId ,
    char[]  Ref ,
	@leftPad(
	'0'

    )
char[5

    ]	price	, }
packet
Heartbeat{ zchar[ 3]
venue,	string Flags  , 
}
	packet Trade
{repeat  InTag787
{ 
i32 
venue 
,

char[

    5]

sym
	,
repeat InPx98{
char[

    11 ]Qty 
,
    Heartbeat , char[]  price	,u32 x, float64 
count
    ,

    repeat Quote

, },zchar[ 7]  Note , repeat char[
	1
	]
Tail 
,
	}
	,repeat
    char[2 ]
    seqNo

    ,
    InTail55 { repeat  Quote
	,string
	msgKind 
,
InPx18 { 
char[]	count
, repeat Quote , 
uint16
	Qty, }

,
char[4
]
    seqNo	,
    repeat  Heartbeat

    ,repeat
	string 
sym

    , }

,repeat
	Quote,

Heartbeat
,
    @leftPad  (	' '	)	char[
	10]OrderId 
,

} root 
packet Fill
	{
	Heartbeat  ,uint32
	count  , u8
	OrderId
,match OrderId 
as Body

{
96:
    Quote
, 195 :Trade  ,187 :Heartbeat	, }

,
u32 
venue @calculatedFrom(  ""CRC32"" )
,

    }
")).
Eval vm_compute in ("<<<M287>>>" ++ check (runes_of_ascii "
root packet	Foo {
Packet
{
u32 chars `{ , }`
// a // b
// " ++ [128512]%N ++ runes_of_ascii " emoji
, zchar[ // " ++ [27880; 37322]%N ++ runes_of_ascii "
255 ] Foo
    , } , f32a @lengthOf( MetaDataX ) `doc` , As`say ""hi""`
,  char[] crc @calculatedFrom( """ ++ [28040; 24687]%N ++ runes_of_ascii """
)`say ""hi""` ,	int32 T//x
`// not a comment` , @lengthOf( x )
    //
    pack
{  match
i8i8 as trueish
    { ""x y"" : BodyLength, [
// `tick` ""quote"" 'q'
// packet A { u8 x, }
""\n""
    ,007,
    ""// no comment"" ,
//x
// " ++ [128512]%N ++ runes_of_ascii " emoji
42
,
""1"" , 65535// " ++ [128512]%N ++ runes_of_ascii " emoji
,10 ] :
    a1 ,[ ""{,}""
]
: metadata
, ""a	b"" : As , }	,
} ,
match f32a	as
    A
    {""abc"": rootA
    4294967296 : /// triple
Z9_
    // c
    , [
007 , ""a\""b""	, 00
    , 42 ,
1	,0123456789 ,""x y""
] : Foo , }, char[ 7 ] i64_
    `it's` , @lengthOf( pack ) repeat As , } MetaData
charz	{ u64 asx, } packet x { }MetaData MetaDataX{A a1
    // " ++ [128512]%N ++ runes_of_ascii " emoji
    , char[]	x`a\` ,uint16 leftPad , }options
{
a1 =
    42
; BodyLength	= true
;
x_y_z =int16 } 	 ")).
Eval vm_compute in ("<<<M1914>>>" ++ check (runes_of_ascii "options{LittleEndian
    =

    false
    ; StringPrefixLenType
    =

    u8
;

ArrayPrefixLenType=u8 
;
    FixedStringPadFromLeft  =

true 
; 
FixedStringPadChar
=' '

;}packet  Trade {

    zchar[
2  ]

Side2
,	i8 seqNo  ,}

packet  Party

{ uint32 price , }
    packet Ack { 
@rightPad	(  '\x00'	) char[ 6
]  x
	,repeat char[
	4
	]
    Flags	,
zchar[
9
]
f1
	,

    }packet  Cancel{
    Ack ,
    }
    packet
Heartbeat 
{ 
string  Px	, string	Acct
,
f64 Side2 ,
InQty24 
{	i16
    seqNo,

    repeat  i32
Flags 
,
}	,
    }root 
packet Logon { Trade
, i64 venue,  u32
    x , u8 seqNo
, match seqNo	as

    Body

    {
[ 
1
	, 164
    ] :Ack
    ,
    31 
:  Cancel ,23 :
Heartbeat, 
64	:
Party , 
} ,
	}

")).
Eval vm_compute in ("<<<M1643>>>" ++ check (runes_of_ascii "packet zchar {
    BodyLength x,// trailing space 
    @rightPad('0')
    match _x as x {
        [""" ++ [128512]%N ++ runes_of_ascii """] : falsey,
        65535 : chars,
        0 : falsey,
        [""packet""] : metadata,
        0 : repeatCount,
        00 : packetx,
    },
}

packet crc {
    match body as len {
        7 : leftPad,
        007 : x_y_z,
        00 : x_y_z,
        [0, 10, 10, 10] : calculatedFrom,
        ""packet"" : calculatedFrom,
    },
    @leftPad('0')
    @tag(4294967296)
    match u128 as trueish {
        3 : i64_,
    },
    char[255] o @lengthOf(leftPad) `u8 x,`,
}

MetaData o {
    float roots,
    x_y_z MetaDataX,
    packetx zchar,
}")).
Eval vm_compute in ("<<<M42>>>" ++ check (runes_of_ascii "packet	BodyLength { repeat f32a Pad`// not a comment` ,
// " ++ [128512]%N ++ runes_of_ascii " emoji
// c
}
MetaData As { }options { crc
    // packet A { u8 x, }
    =
""a\\""
float= '\x00'
    a1 // c
= ' ';i8i8 =
    4294967296
}	packet u128 {
// `tick` ""quote"" 'q'
//
match //x
stringy as o{ ""`tick`""  : Foo  , [ 4294967296 ]	: x_y_z ,} ,zchar[ /// triple
10 ] // `tick` ""quote"" 'q'
Packet@lengthOf(u8x
),
@lengthOf(
roots) // " ++ [27880; 37322]%N ++ runes_of_ascii "
x
    `// not a comment` , i64
    asx @lengthOf( rootA ) , metadata ,
i64_ @calculatedFrom(  ""\" ++ [233]%N ++ runes_of_ascii """ ) ,	@lengthOf(u128
) repeat o `two words` , }
")).
Eval vm_compute in ("<<<M293>>>" ++ check (runes_of_ascii "root
    packet
//	t
// c
charz{
f32 stringy // @lengthOf(
, @rightPad ( '\x00'
    ) metadata
    { MetaDataX
A
    // `tick` ""quote"" 'q'
    , }
,
repeat zchar[ 0/// triple
] u8x , @calculatedFrom( // @lengthOf(
""it's"")
    match trueish as
u128 { ""{,}"" :
    stringy
} ,}
    packet Packet
{char[ 3]  int @calculatedFrom( ""x y""
) ,
}
MetaData Packet { u128 trueish `" ++ [28040; 24687; 31867; 22411]%N ++ runes_of_ascii "` , int8 pack,
    // packet A { u8 x, }
    zchar[ 00 //x
] repeatCount `a\` ,
    // c
    }
")).
Eval vm_compute in ("<<<M2020>>>" ++ check (runes_of_ascii "// top
options {
    // c1
    LittleEndian = true;
}// c6a

// c6b
packet Sub {
    // c9
    u8 a,
    @calculatedFrom(""CRC16"")
    // c15
    u64 SubSum,
}// c19a

// c19b
root packet Frame {
    // c23
    u16 MsgType,// c26a
    // c26b
    u16 BodyLen @lengthOf(Body),
    Sub Body,
    string note,// c38
    @calculatedFrom(""CRC16"")
    // c41
    u64 Checksum,
    // c44
    u8 tail,// c47a
    // c47b
}
// c48")).
Eval vm_compute in ("<<<M1457>>>" ++ check (runes_of_ascii "// top
packet
    // c0
B
    // c1
{ // c2
u8 // c3
a // c4
, } // c6
root packet
    // c8
P {
    // c10
u8 K , // c13a
  // c13b
u64
    // c14
L // c15a
  // c15b
@lengthOf(
    // c16
Body // c17
)
    // c18
, match // c20a
  // c20b
K // c21a
  // c21b
as // c22a
  // c22b
Body
    // c23
{ 1 : // c26a
  // c26b
B , // c28a
  // c28b
} , // c30
}
    // c31
")).
Eval vm_compute in ("<<<M2022>>>" ++ check (runes_of_ascii "packet charz {
    repeat char[3] BodyLength,
    As stringy,
    match tag as uint8x {
        //
        [""it's"", 007, 4294967296] : uint8x,
    },// a // b
    @tag(0)
    /// triple
    repeat char[7] u,
}

// packet A { u8 x, }
MetaData options1 {
    Z9_ _x,
}

packet BodyLength {
}

MetaData chars {
    float Foo,
}")).
Eval vm_compute in ("<<<M1503>>>" ++ check (runes_of_ascii "packet A {
    u8 a,
}
packet B {
    u16 b,
}
packet C {
    u32 c,
}
root packet M {
    u16 Kc, u16 Kb, u16 Ka,
    match Kc as X {
        9 : A,
        10 : B,
    },
    match Kb as Y {
        2 : C,
        1 : A,
    },
    match Ka as Z {
        1 : B,
    },
    A, B, C,
}
")).
Eval vm_compute in ("<<<M579>>>" ++ check (runes_of_ascii "root packet tag { }  packet MetaDataX{char[007	]
// c
/// triple
asx  @calculatedFrom( ""a\""b""
) `say ""hi""`// " ++ [27880; 37322]%N ++ runes_of_ascii "
,  @tag(4294967296 )
    char[ char[1//x
] packetx @calculatedFrom(""a\""b""
    ) ,
// " ++ [128512]%N ++ runes_of_ascii " emoji
// a // b
@calculatedFrom(""" ++ [233]%N ++ runes_of_ascii "t" ++ [233]%N ++ runes_of_ascii """  ) repeat pack // " ++ [27880; 37322]%N ++ runes_of_ascii "
,
    } // c")).
Eval vm_compute in ("<<<M574>>>" ++ check (runes_of_ascii "root packet tag { }  packet MetaDataX{char[007	]
// c
/// triple
asx  @calculatedFrom( ""a\""b""
) `say ""hi""`// " ++ [27880; 37322]%N ++ runes_of_ascii "
,  @tag(4294967296 ) )
    char[1//x
] packetx @calculatedFrom(""a\""b""
    ) ,
// " ++ [128512]%N ++ runes_of_ascii " emoji
// a // b
@calculatedFrom(""" ++ [233]%N ++ runes_of_ascii "t" ++ [233]%N ++ runes_of_ascii """  ) repeat pack // " ++ [27880; 37322]%N ++ runes_of_ascii "
,
    } // c")).
Eval vm_compute in ("<<<M669>>>" ++ check (runes_of_ascii "root packet tag { }  packet MetaDataX{char[007	]
// c
/// triple
asx  @calculatedFrom( ""a\""b""
"") `say ""hi""`// " ++ [27880; 37322]%N ++ runes_of_ascii "
,  @tag(4294967296 )
    char[1//x
] packetx @calculatedFrom(""a\""b""
    ) ,
// " ++ [128512]%N ++ runes_of_ascii " emoji
// a // b
@calculatedFrom(""" ++ [233]%N ++ runes_of_ascii "t" ++ [233]%N ++ runes_of_ascii """  ) repeat pack // " ++ [27880; 37322]%N ++ runes_of_ascii "
,
    } // c")).
Eval vm_compute in ("<<<M630>>>" ++ check (runes_of_ascii "root packet tag { }  packet MetaDataX{char[007	]
// c
/// triple
asx  @calculatedFrom( ""a\""b""
) `say ""hi""`// " ++ [27880; 37322]%N ++ runes_of_ascii "
,  @tag(4294967296 )
    char[1//x
] packetx @calculatedFrom(""a\""b""
    ) ,
// " ++ [128512]%N ++ runes_of_ascii " emoji
// a // b
@calculatedFrom(""" ++ [233]%N ++ runes_of_ascii "t" ++ [233]%N ++ runes_of_ascii """  repeat ) pack // " ++ [27880; 37322]%N ++ runes_of_ascii "
,
    } // c")).
Eval vm_compute in ("<<<M506>>>" ++ check (runes_of_ascii "root packet tag { }  i64 MetaDataX{char[007	]
// c
/// triple
asx  @calculatedFrom( ""a\""b""
) `say ""hi""`// " ++ [27880; 37322]%N ++ runes_of_ascii "
,  @tag(4294967296 )
    char[1//x
] packetx @calculatedFrom(""a\""b""
    ) ,
// " ++ [128512]%N ++ runes_of_ascii " emoji
// a // b
@calculatedFrom(""" ++ [233]%N ++ runes_of_ascii "t" ++ [233]%N ++ runes_of_ascii """  ) repeat pack // " ++ [27880; 37322]%N ++ runes_of_ascii "
,
    } // c")).
Eval vm_compute in ("<<<M651>>>" ++ check (runes_of_ascii "root packet tag { }  packet MetaDataX{char[007	]
// c
/// triple
asx  @calculatedFrom( ""a\""b""
) `say ""hi""`// " ++ [27880; 37322]%N ++ runes_of_ascii "
,  @tag(4294967296 )
    char[1//x
] packetx @calculatedFrom(""a\""b""
    ) ,
// " ++ [128512]%N ++ runes_of_ascii " emoji
// a // b
@calculatedFrom(""" ++ [233]%N ++ runes_of_ascii "t" ++ [233]%N ++ runes_of_ascii """  ) repeat pack // " ++ [27880; 37322]%N ++ runes_of_ascii "
,")).
Eval vm_compute in ("<<<M1722>>>" ++ check (runes_of_ascii "packet matchKey {
    // packet A { u8 x, }
    zchar[65535] Foo @calculatedFrom(""\n"") ``,
    @tag(10)
    repeat x Logon `
        `,
    @calculatedFrom(""it's"")
    @rightPad()
    zchar[255] lengthOf,
    repeat uint8x `" ++ [233]%N ++ runes_of_ascii "`,
}")).
Eval vm_compute in ("<<<M1391>>>" ++ check (runes_of_ascii "// top
packet // c0
chars // c1
{ // c2
} // c3
packet // c4
MetaDataX // c5
{ // c6
@tag( // c7
42 // c8
) // c9
i16 // c10
string_ // c11
, // c12
repeat // c13
x // c14
`say ""hi""` // c15
, // c16
} // c17
")).
Eval vm_compute in ("<<<M277>>>" ++ check (runes_of_ascii "// " ++ [128512]%N ++ runes_of_ascii " emoji
MetaData trueish {
    // @lengthOf(
    asx lengthOf
    // a // b
    , int8 // c
float`it's`
,}
MetaData
int{ int8
charz ,} packet asx { o @calculatedFrom(
""\" ++ [233]%N ++ runes_of_ascii """
    ) ,
}
")).
Eval vm_compute in ("<<<M420>>>" ++ check (runes_of_ascii "packet
    // `tick` ""quote"" 'q'
    crc
// packet A { u8 x, }
//	t
{
u32 a1 ,
    // trailing space 
    roots
charz charz //
`two words`,	}
    MetaData int {
} /// triple")).
Eval vm_compute in ("<<<M450>>>" ++ check (runes_of_ascii "packet
    // `tick` ""quote"" 'q'
    crc
// packet A { u8 x, }
//	t
{
u32 a1 ,
    // trailing space 
    roots
charz //
`two words`,	}
    MetaData int { {
} /// triple")).
Eval vm_compute in ("<<<M406>>>" ++ check (runes_of_ascii "packet
    // `tick` ""quote"" 'q'
    crc
// packet A { u8 x, }
//	t
{
u32 , a1
    // trailing space 
    roots
charz //
`two words`,	}
    MetaData int {
} /// triple")).
Eval vm_compute in ("<<<M449>>>" ++ check (runes_of_ascii "packet
    // `tick` ""quote"" 'q'
    crc
// packet A { u8 x, }
//	t
{
u32 a1 ,
    // trailing space 
    roots
charz //
`two words`,	}
    MetaData int 
} /// triple")).
Eval vm_compute in ("<<<M690>>>" ++ check (runes_of_ascii "root packet len // trailing space 
{
// " ++ [27880; 37322]%N ++ runes_of_ascii "
//	t
char[10
] a" ++ [769]%N ++ runes_of_ascii "b	@lengthOf( o ) `crlf
line`,
    @rightPad
( ' '
) string
    Header @calculatedFrom( ""a\\""
    ), }
")).
Eval vm_compute in ("<<<M1781>>>" ++ check (runes_of_ascii "
root  packet

    matchKey 
{
zchar[3  ]

    pack
@calculatedFrom(	""a	b""

    )	`doc` ,

}options

{ 	 // c
  	} MetaData

A
{int8 msg_type
,
}
")).
Eval vm_compute in ("<<<M1789>>>" ++ check (runes_of_ascii "packet A {
    match k as n {
        [
            ""a"", ""bb"", 007, ""d"", ""e"",
            66, ""g"", ""h"", 9
        ] : B,
        2 : C,
    },
}")).
Eval vm_compute in ("<<<M1790>>>" ++ check (runes_of_ascii "packet A {
    match k as n {
        [
            1, ""bb"", 007, ""d"", 5,
            ""f"", 7, ""h""
        ] : B,
        2 : C,
    },
}")).
Eval vm_compute in ("<<<M1458>>>" ++ check (runes_of_ascii "packet  B
{
    u8
a

    ,
}root
    packet P {

u8 K

,
	u64
L

@lengthOf(	Body ) ,	match
K 
as
Body{
	1
:

B,} 
,
}
")).
Eval vm_compute in ("<<<M1232>>>" ++ check (runes_of_ascii "root packet matchKey { zchar[
// c
3 ] pack @calculatedFrom( ""a	b"" ) `doc` , } options { } MetaData A { int8 msg_type , }")).
Eval vm_compute in ("<<<M1264>>>" ++ check (runes_of_ascii "root packet matchKey { zchar[ 3 ] pack @calculatedFrom( ""a	b"" ) `doc` , } options { } MetaData A { int8
// c
msg_type , }")).
Eval vm_compute in ("<<<M1772>>>" ++ check (runes_of_ascii "MetaData  float 
{
	float64	charz  `
`, 
} root
	packet

chars  
  // c
{
@rightPad (
    '0'

)
	Foo
    ,
    }
")).
Eval vm_compute in ("<<<M1597>>>" ++ check (runes_of_ascii "packet
o
    {
	repeat Logon 
uint8x, }
	options  // c
	{asx 
=

zchar[ 3 ]
    stringy  =

    '\x00'
}

")).
Eval vm_compute in ("<<<M459>>>" ++ check (runes_of_ascii "packet
    // `tick` ""quote"" 'q'
    crc
// packet A { u8 x, }
//	t
{
u32 a1 ,
    // trailing space 
    ")).
Eval vm_compute in ("<<<M1875>>>" ++ check (runes_of_ascii "  MetaData
float {	float64
charz 
`
`  // c
,
    }
    root
packet 
chars {	@rightPad
('0' )Foo
, }")).
Eval vm_compute in ("<<<M26>>>" ++ check (runes_of_ascii "options // " ++ [27880; 37322]%N ++ runes_of_ascii "
{Packet = 4294967296
; i64_  = // c
""1"" ;	Z9_ = ""abc"" ; options1 =
""a\\""
; o=0  ; }")).
Eval vm_compute in ("<<<M1960>>>" ++ check (runes_of_ascii "
packet pack	{
repeat As
	{

char[
65535 	 // trailing space 
  ]
crc `crlf
line`

,}

,}
")).
Eval vm_compute in ("<<<M382>>>" ++ check (runes_of_ascii "root packet SimpleMessage {
    uint16 MsgType `" ++ [28040; 24687; 31867; 22411]%N ++ runes_of_ascii "`,
    string JsonBody `Json" ++ [23383; 31526; 20018; 28040; 24687; 20307]%N ++ runes_of_ascii "`,
}")).
Eval vm_compute in ("<<<M1191>>>" ++ check (runes_of_ascii "MetaData float { float64 charz `
`
// c
, } root packet chars { @rightPad ( '0' ) Foo , }")).
Eval vm_compute in ("<<<M1402>>>" ++ check (runes_of_ascii "packet chars { } // c
packet MetaDataX { @tag( 42 ) i16 string_ , repeat x `say ""hi""` , }")).
Eval vm_compute in ("<<<M16>>>" ++ check (runes_of_ascii "packet Z9_// packet A { u8 x, }
{ @tag(
4294967296 )uint8x@calculatedFrom( ""abc"" ), }

")).
Eval vm_compute in ("<<<M1132>>>" ++ check (runes_of_ascii "packet metadata { Logon { // c
A `" ++ [28040; 24687; 31867; 22411]%N ++ runes_of_ascii "` , tag o , } , zchar len `// not a comment` , }")).
Eval vm_compute in ("<<<M860>>>" ++ check (runes_of_ascii "packet A {
  match k as n {
    [1, 22, 007, 4, 5, 66, 7, 8, 9] : B,
    2 : C
  },
}")).
Eval vm_compute in ("<<<M1369>>>" ++ check (runes_of_ascii "packet o { repeat Logon uint8x , } options { asx = zchar[ 3 ]
// c
stringy = '\x00' }")).
Eval vm_compute in ("<<<M2025>>>" ++ check (runes_of_ascii "packet A {
    match k as n {
        [""a"", ""bb"", 007] : B,
        2 : C,
    },
}")).
Eval vm_compute in ("<<<M1330>>>" ++ check (runes_of_ascii "MetaData body { i64 pack `it's` , } packet stringy { int16 calculatedFrom
// c
, }")).
Eval vm_compute in ("<<<M1607>>>" ++ check (runes_of_ascii "root packet repeatCount {
    msg_type {
        float64 lengthOf `" ++ [233]%N ++ runes_of_ascii "`,
    },
}")).
Eval vm_compute in ("<<<M817>>>" ++ check (runes_of_ascii "packet A {
  match k as n {
    [1, 22, ""c c"", 4, 5] : B
    2 : C
  },
}")).
Eval vm_compute in ("<<<M795>>>" ++ check (runes_of_ascii "packet A {
  match k as n {
    [1, 22, 007, 4] : B,
    2 : C
  },
}")).
Eval vm_compute in ("<<<M2098>>>" ++ check (runes_of_ascii "root packet P {
    u8 s_u8,
    repeat u8 r_u8,
    u16 b_len,
}")).
Eval vm_compute in ("<<<M142>>>" ++ check (runes_of_ascii "options // `tick` ""quote"" 'q'
{ repeatCount = 3/// triple
}")).
Eval vm_compute in ("<<<M1290>>>" ++ check (runes_of_ascii "packet x { @rightPad ( ) repeat roots // c
Logon `doc` , }")).
Eval vm_compute in ("<<<M1073>>>" ++ check (runes_of_ascii "// a
MetaData M {} // b
// c
MetaData N {} // d
// e")).
Eval vm_compute in ("<<<M1998>>>" ++ check (runes_of_ascii "root packet u128 {
    chars `it's`,
    // c
}")).
Eval vm_compute in ("<<<M2044>>>" ++ check (runes_of_ascii "// top
root packet pack {
    // c3
}// c4")).
Eval vm_compute in ("<<<M240>>>" ++ check (runes_of_ascii "
packet Header{ char[] body
//x
//
, }
")).
Eval vm_compute in ("<<<M135>>>" ++ check (runes_of_ascii "MetaData pack { f64 A `{ , }` ,}

")).
Eval vm_compute in ("<<<M41>>>" ++ check (runes_of_ascii "MetaData crc
{ } // @lengthOf(")).
Eval vm_compute in ("<<<M1612>>>" ++ check (runes_of_ascii "  packet
    A  {
	} 	 // c" ++ [160]%N)).
Eval vm_compute in ("<<<M1172>>>" ++ check (runes_of_ascii "root packet pack {
// c
}")).
Eval vm_compute in ("<<<M1381>>>" ++ check (runes_of_ascii "// c
MetaData o { }")).
Eval vm_compute in ("<<<M1021>>>" ++ check (runes_of_ascii "packet A {
}
// c" ++ [8287]%N)).
Eval vm_compute in ("<<<M1029>>>" ++ check (runes_of_ascii "packet A {
}// c" ++ [12]%N)).
Eval vm_compute in ("<<<M2039>>>" ++ check (runes_of_ascii "  // c" ++ [12288]%N ++ runes_of_ascii "
")).
Eval vm_compute in ("<<<M1040>>>" ++ check (runes_of_ascii "// c" ++ [8203]%N)).
