From FP Require Import Lexer Parser ShowPT Digest.
From Coq Require Import String List NArith.
Import ListNotations.
Open Scope string_scope.
Set Printing Width 100000000.
Set Printing Depth 100000000.
Definition nl : string := String (Ascii.ascii_of_nat 10) EmptyString.
Definition model_lex (rs : list rune) : string := show_toks (lex rs).
Definition model_parse (rs : list rune) : string :=
  show_pt (match lex rs with Some ts => parse ts | None => None end).
(* coqc is slow at printing long strings: digests first (Digest.v), full texts on demand *)
Definition check (rs : list rune) : string :=
  digest (model_lex rs) ++ " " ++ digest (model_parse rs).
Definition full (rs : list rune) : string := model_lex rs ++ nl ++ model_parse rs.
Definition terms (ts : list tok) (t : pt) : string :=
  digest (show_toks (Some ts)) ++ " " ++ digest (show_pt (Some t)) ++ " " ++ digest (show_pt (parse ts)).
Definition terms_full (ts : list tok) (t : pt) : string :=
  show_toks (Some ts) ++ nl ++ show_pt (Some t) ++ nl ++ show_pt (parse ts).
Eval vm_compute in ("<<<M31>>>" ++ check (runes_of_ascii "MetaData
T {crc /// triple
u8x `say ""hi""` , } // `tick` ""quote"" 'q'")).
Eval vm_compute in ("<<<M63>>>" ++ check (runes_of_ascii "options
{  chars =
    /// triple
    char; o
    /// triple
    = true u128 =
    ""x y"" ;} packet	chars
    { @calculatedFrom( ""\n"" )repeat f64 packetx  ,  @tag(4294967296 ) float32 Header
, zchar[
007
]float `// not a comment`
    ,
    }
options  {
stringy = zchar[ 7 ] ;}")).
Eval vm_compute in ("<<<M95>>>" ++ check (runes_of_ascii "// trailing space 
MetaData u8x
{
i64_
    i64_ `doc`,i16 Z9_ `say ""hi""` , BodyLength
roots ,
}")).
Eval vm_compute in ("<<<M127>>>" ++ check (runes_of_ascii "
packet  u
    //	t
    {uint32 metadata	,	@lengthOf( metadata // " ++ [27880; 37322]%N ++ runes_of_ascii "
)
// `tick` ""quote"" 'q'
// c
repeat Logon
    ,x_y_z// a // b
, @lengthOf(
    tag )
// " ++ [128512]%N ++ runes_of_ascii " emoji
// c
float msg_type	,}MetaData chars { u8x
    matchKey
// " ++ [27880; 37322]%N ++ runes_of_ascii "
//x
,
    uint8
    x_y_z `u8 x,`, zchar x_y_z `doc` ,	char i64_ `a\` ,f32 tag//	t
, } MetaData _x {
// trailing space 
// `tick` ""quote"" 'q'
} options { }
")).
Eval vm_compute in ("<<<M159>>>" ++ check (runes_of_ascii "
options{	roots ='\x00' lengthOf
=
    true
; Packet = // `tick` ""quote"" 'q'
""packet"" ; o = // packet A { u8 x, }
""packet"" ; A// " ++ [27880; 37322]%N ++ runes_of_ascii "
=
    //
    true ; // trailing space 
} packet body
{ _x ,	zchar[
65535
]
Header @calculatedFrom( // trailing space 
""""  ) `u8 x,` , }
root packet
    //	t
    T // trailing space 
{ @tag(// trailing space 
7) @tag( 0
    )
@leftPad( '0' )// a // b
int64
x @lengthOf( Packet )
    , msg_type stringy
`" ++ [28040; 24687; 31867; 22411]%N ++ runes_of_ascii "`/// triple
, } /// triple")).
Eval vm_compute in ("<<<M191>>>" ++ check (runes_of_ascii "MetaData float {
    lengthOf u128 `tab	here` ,u x ,
metadata crc `line1
line2` ,
} root
packet//
trueish { @leftPad (
'0'
    ) repeat zchar[ 10 ] lengthOf `u8 x,`
    ,@leftPad
// " ++ [27880; 37322]%N ++ runes_of_ascii "
// trailing space 
('\x00'	) zchar[ 255 ] tag
// a // b
// @lengthOf(
,
@leftPad	(
    ) u128 trueish, chars@lengthOf(
    i64_
) `it's` //	t
,
    @tag( 10 ) zchar[
    007 ] asx, char[
1]
    zchar,
// `tick` ""quote"" 'q'
// trailing space 
@tag( 7
    // packet A { u8 x, }
    ) @calculatedFrom(""packet""
    )	match  f32a as
uint8x{
00  :Header , 007// trailing space 
: charz ,[ 255 , """ ++ [233]%N ++ runes_of_ascii "t" ++ [233]%N ++ runes_of_ascii """ ] :
rootA
    // `tick` ""quote"" 'q'
    ""it's"" :
    lengthOf
,""x y"" :
pack //x
,
""" ++ [28040; 24687]%N ++ runes_of_ascii """
: _x , } , repeat Header { char[ 7] i8i8 ,char  msg_type @lengthOf(pack ) `line1
line2`
,
// packet A { u8 x, }
// a // b
uint8
crc @lengthOf(
zchar ) `line1
line2` ,} , } packet Foo
    { } packet// @lengthOf(
Foo { zchar[0123456789
    ]
    packetx
    @calculatedFrom(
""packet"" // packet A { u8 x, }
)
    `doc`  , zchar @calculatedFrom( ""\n""//	t
)
`
` , @leftPad  ( '\x00' )
    @tag( // trailing space 
65535 ) char[ 0
/// triple
// c
] metadata@calculatedFrom( ""a\""b"" ), repeat
    lengthOf{ lengthOf
`" ++ [233]%N ++ runes_of_ascii "`
    // `tick` ""quote"" 'q'
    ,
} , As , }
packet BodyLength {//x
@calculatedFrom( ""a\""b""
)
    @lengthOf( x ) @tag( 00
) Packet zchar
    `` ,
@tag(0123456789 )	repeat	char[ 255 ]  x `it's`,// a // b
u
// " ++ [128512]%N ++ runes_of_ascii " emoji
// c
{ match BodyLength
as
// packet A { u8 x, }
// `tick` ""quote"" 'q'
tag
    {3
: matchKey ,} ,
} ,@tag( 0123456789 )
    // " ++ [128512]%N ++ runes_of_ascii " emoji
    char	asx `line1
line2`,@lengthOf( chars ) @calculatedFrom(
""a	b"" )f64 len
    , match int as //x
BodyLength { 1
:
    Header ,[ 0 ] :// c
tag
""" ++ [28040; 24687]%N ++ runes_of_ascii """ :asx, } , @leftPad
( ' '
    ) metadata `crlf
line` ,
// `tick` ""quote"" 'q'
// trailing space 
len
@lengthOf( metadata
    ), zchar[  65535 ]
    A
@lengthOf( // c
trueish )
,@leftPad ( '0'
)
repeatCount Z9_
    `" ++ [233]%N ++ runes_of_ascii "`  ,
} 	 ")).
Eval vm_compute in ("<<<M223>>>" ++ check (runes_of_ascii "  root packet charz{}")).
Eval vm_compute in ("<<<T223>>>" ++ terms [mkTok 34 "root" 1 2 false; mkTok 35 "packet" 1 7 false; mkTok 42 "charz" 1 14 false; mkTok 2 "{" 1 19 false; mkTok 3 "}" 1 20 false; mkTok 0 "<EOF>" 1 21 false] (mkPacket (mkPtok 34 "root" 1 2 0) (Some (mkPtok 3 "}" 1 20 4)) [(DPacket (mkPacketDef (mkSpan (mkPtok 34 "root" 1 2 0) (mkPtok 3 "}" 1 20 4)) (Some (mkPtok 34 "root" 1 2 0)) (mkPtok 35 "packet" 1 7 1) (mkPtok 42 "charz" 1 14 2) (mkPtok 2 "{" 1 19 3) [] (mkPtok 3 "}" 1 20 4)))])).
Eval vm_compute in ("<<<M255>>>" ++ check (runes_of_ascii "root packet  roots
{ falsey@calculatedFrom(""a\""b"" ) ,
    @lengthOf(
A )Header @calculatedFrom( ""packet""
) `u8 x,` ,
@leftPad  (' '
) @lengthOf(
    calculatedFrom)
// `tick` ""quote"" 'q'
// packet A { u8 x, }
match rootA as x_y_z {42	:
    //	t
    len, }, } options //x
{ chars =// c
4294967296 ;
    BodyLength
    = 0123456789 roots
    = ""a\""b"";
} //")).
Eval vm_compute in ("<<<M287>>>" ++ check (runes_of_ascii "packet  int  { @calculatedFrom( """ ++ [28040; 24687]%N ++ runes_of_ascii """  )
@tag(
    // `tick` ""quote"" 'q'
    007
    ) options1 @calculatedFrom( ""CRC32"" ) `tab	here`
, @lengthOf(
As )
    x x_y_z , repeat x
{ i64 Z9_,
zchar[
    // c
    007 ] body
//	t
// a // b
@lengthOf( uint8x
    )
    // c
    , f64  metadata @calculatedFrom( ""`tick`""	)
    `tab	here`, }	, } packet msg_type {
    repeat
// trailing space 
// c
zchar[255 ]A, int64 f32a ,// " ++ [128512]%N ++ runes_of_ascii " emoji
Pad
@lengthOf( falsey
)
,
match
    falsey
as
x_y_z {
7: // `tick` ""quote"" 'q'
len
,}
/// triple
// c
, string // " ++ [27880; 37322]%N ++ runes_of_ascii "
uint8x
    `a\`,string rootA
//x
// a // b
@lengthOf( int	) ,	}	root
/// triple
// `tick` ""quote"" 'q'
packet pack { crc i64_ , }
")).
Eval vm_compute in ("<<<M319>>>" ++ check (runes_of_ascii "options
{
}
root
    // a // b
    packet x //	t
{ match
    len as x{ [	7 , 42 ,	007 , //x
255 // trailing space 
, ""// no comment""
// `tick` ""quote"" 'q'
// " ++ [128512]%N ++ runes_of_ascii " emoji
]:x_y_z, ""`tick`"" : u128
, 3 : string_
    /// triple
    ,
[	""CRC32""  ] : trueish ,4294967296 :Foo ,
[ 0 ]
: lengthOf } , }")).
Eval vm_compute in ("<<<M351>>>" ++ check (runes_of_ascii "MetaData u { BodyLength repeatCount // packet A { u8 x, }
,
} options {
string_
= false ; i8i8=10 ;}
    root packet float { } //")).
Eval vm_compute in ("<<<M383>>>" ++ check (runes_of_ascii "// c


")).
Eval vm_compute in ("<<<M415>>>" ++ check (runes_of_ascii "packet
metadata
    { zchar[ 10]i64_ `say ""hi""` , repeat // " ++ [27880; 37322]%N ++ runes_of_ascii "
Header
// a // b
// " ++ [128512]%N ++ runes_of_ascii " emoji
uint8x ,@lengthOf( falsey ) int8
_x @calculatedFrom( ""x y"" )`{ , }` // c
,	stringy
metadata`a\` // " ++ [128512]%N ++ runes_of_ascii " emoji
, // " ++ [128512]%N ++ runes_of_ascii " emoji
@lengthOf(
Packet)
    i64_
{match crc  as Header
{[ 0 , 0123456789  ] : // c
Foo
    ,
    ""abc""
// trailing space 
// @lengthOf(
:pack , } ,match int as charz { 1
    /// triple
    : packetx , 7: MetaDataX	, // " ++ [128512]%N ++ runes_of_ascii " emoji
7
: a1 007  :zchar, ""CRC32""
    :
stringy , [ ""\" ++ [233]%N ++ runes_of_ascii """,""CRC32"" ] : i8i8	}
//
//x
, pack
    /// triple
    `doc`
, tag
{ _x@calculatedFrom( ""CRC32""
    )
    `
` ,
repeat asx
`{ , }` /// triple
,i32 _x //x
@calculatedFrom(
""\n"")  `u8 x,`, }
, }, f32a @lengthOf( chars // trailing space 
) , string Packet
    , @leftPad  (
    ' ' ) @lengthOf(
u8x ) // trailing space 
a1// " ++ [128512]%N ++ runes_of_ascii " emoji
@calculatedFrom(
    ""x y"" ) `doc` ,
options1 , body
`{ , }` , } MetaData Foo{ uint8 Z9_ `{ , }` , } packet Header
    { pack	{// trailing space 
leftPad	{ u128 i64_ , zchar[ 7
// @lengthOf(
// `tick` ""quote"" 'q'
] i64_ @calculatedFrom( ""packet"" ) // packet A { u8 x, }
`line1
line2` //x
, //
metadata Logon , char[10 // packet A { u8 x, }
]
asx @lengthOf( uint8x
) `it's`
    ,
} /// triple
, } ,@calculatedFrom( ""a\\"") Logon
@lengthOf(
    uint8x ) `
` , int64 msg_type
    , metadata
_x
// @lengthOf(
/// triple
, @leftPad  (	)
    trueish { Header {
//x
// `tick` ""quote"" 'q'
uint8x
    { char[0123456789]	leftPad	@calculatedFrom(
""" ++ [233]%N ++ runes_of_ascii "t" ++ [233]%N ++ runes_of_ascii """ )
    `" ++ [28040; 24687; 31867; 22411]%N ++ runes_of_ascii "`, } ,// " ++ [128512]%N ++ runes_of_ascii " emoji
char[ // a // b
1
    ]
// c
// packet A { u8 x, }
asx @calculatedFrom(  ""it's"" ) , roots	, } , }	, zchar[
    // " ++ [128512]%N ++ runes_of_ascii " emoji
    255 ]	Packet , // `tick` ""quote"" 'q'
repeat i8i8 , repeat
float64 u8x, @calculatedFrom(""" ++ [233]%N ++ runes_of_ascii "t" ++ [233]%N ++ runes_of_ascii """)
asx @calculatedFrom( ""a\""b"" ),
}  MetaData
    /// triple
    roots // packet A { u8 x, }
{}")).
Eval vm_compute in ("<<<M447>>>" ++ check (runes_of_ascii "packet lengthOf {
} packet
Z9_
{ } packet  uint8x { leftPad Foo
    // `tick` ""quote"" 'q'
    `" ++ [233]%N ++ runes_of_ascii "` , // c
@calculatedFrom(
//
/// triple
""\n"" ) @calculatedFrom( """ ++ [128512]%N ++ runes_of_ascii """ ) zchar[  0123456789
    ]metadata
,}
")).
Eval vm_compute in ("<<<T447>>>" ++ terms [mkTok 35 "packet" 1 0 false; mkTok 42 "lengthOf" 1 7 false; mkTok 2 "{" 1 16 false; mkTok 3 "}" 2 0 false; mkTok 35 "packet" 2 2 false; mkTok 42 "Z9_" 3 0 false; mkTok 2 "{" 4 0 false; mkTok 3 "}" 4 2 false; mkTok 35 "packet" 4 4 false; mkTok 42 "uint8x" 4 12 false; mkTok 2 "{" 4 19 false; mkTok 42 "leftPad" 4 21 false; mkTok 42 "Foo" 4 29 false; mkTok 44 "// `tick` ""quote"" 'q'" 5 4 true; mkTok 43 (string_of_bytes [96; 195; 169; 96]%N) 6 4 false; mkTok 40 "," 6 8 false; mkTok 44 "// c" 6 10 true; mkTok 5 "@calculatedFrom(" 7 0 false; mkTok 44 "//" 8 0 true; mkTok 44 "/// triple" 9 0 true; mkTok 31 """\n""" 10 0 false; mkTok 6 ")" 10 5 false; mkTok 5 "@calculatedFrom(" 10 7 false; mkTok 31 (string_of_bytes [34; 240; 159; 152; 128; 34]%N) 10 24 false; mkTok 6 ")" 10 28 false; mkTok 14 "zchar[" 10 30 false; mkTok 30 "0123456789" 10 38 false; mkTok 13 "]" 11 4 false; mkTok 42 "metadata" 11 5 false; mkTok 40 "," 12 0 false; mkTok 3 "}" 12 1 false; mkTok 0 "<EOF>" 13 0 false] (mkPacket (mkPtok 35 "packet" 1 0 0) (Some (mkPtok 3 "}" 12 1 30)) [(DPacket (mkPacketDef (mkSpan (mkPtok 35 "packet" 1 0 0) (mkPtok 3 "}" 2 0 3)) None (mkPtok 35 "packet" 1 0 0) (mkPtok 42 "lengthOf" 1 7 1) (mkPtok 2 "{" 1 16 2) [] (mkPtok 3 "}" 2 0 3))); (DPacket (mkPacketDef (mkSpan (mkPtok 35 "packet" 2 2 4) (mkPtok 3 "}" 4 2 7)) None (mkPtok 35 "packet" 2 2 4) (mkPtok 42 "Z9_" 3 0 5) (mkPtok 2 "{" 4 0 6) [] (mkPtok 3 "}" 4 2 7))); (DPacket (mkPacketDef (mkSpan (mkPtok 35 "packet" 4 4 8) (mkPtok 3 "}" 12 1 30)) None (mkPtok 35 "packet" 4 4 8) (mkPtok 42 "uint8x" 4 12 9) (mkPtok 2 "{" 4 19 10) [(mkFieldWithAttr (mkSpan (mkPtok 42 "leftPad" 4 21 11) (mkPtok 40 "," 6 8 15)) [] (ObjectField (mkSpan (mkPtok 42 "leftPad" 4 21 11) (mkPtok 40 "," 6 8 15)) None (mkPtok 42 "leftPad" 4 21 11) (Some (mkPtok 42 "Foo" 4 29 12)) (Some (mkPtok 43 (string_of_bytes [96; 195; 169; 96]%N) 6 4 14)) (mkPtok 40 "," 6 8 15))); (mkFieldWithAttr (mkSpan (mkPtok 5 "@calculatedFrom(" 7 0 17) (mkPtok 40 "," 12 0 29)) [(FACalculatedFrom (mkSpan (mkPtok 5 "@calculatedFrom(" 7 0 17) (mkPtok 6 ")" 10 5 21)) (mkCalculatedFrom (mkSpan (mkPtok 5 "@calculatedFrom(" 7 0 17) (mkPtok 6 ")" 10 5 21)) (mkPtok 5 "@calculatedFrom(" 7 0 17) (mkPtok 31 """\n""" 10 0 20) (mkPtok 6 ")" 10 5 21))); (FACalculatedFrom (mkSpan (mkPtok 5 "@calculatedFrom(" 10 7 22) (mkPtok 6 ")" 10 28 24)) (mkCalculatedFrom (mkSpan (mkPtok 5 "@calculatedFrom(" 10 7 22) (mkPtok 6 ")" 10 28 24)) (mkPtok 5 "@calculatedFrom(" 10 7 22) (mkPtok 31 (string_of_bytes [34; 240; 159; 152; 128; 34]%N) 10 24 23) (mkPtok 6 ")" 10 28 24)))] (MetaField (mkSpan (mkPtok 14 "zchar[" 10 30 25) (mkPtok 40 "," 12 0 29)) None (mkMetaDecl (mkSpan (mkPtok 14 "zchar[" 10 30 25) (mkPtok 40 "," 12 0 29)) (TyFixed (mkSpan (mkPtok 14 "zchar[" 10 30 25) (mkPtok 13 "]" 11 4 27)) (mkFixedString (mkSpan (mkPtok 14 "zchar[" 10 30 25) (mkPtok 13 "]" 11 4 27)) (mkPtok 14 "zchar[" 10 30 25) (mkPtok 30 "0123456789" 10 38 26) (mkPtok 13 "]" 11 4 27))) (mkPtok 42 "metadata" 11 5 28) None (mkPtok 40 "," 12 0 29))))] (mkPtok 3 "}" 12 1 30)))])).
Eval vm_compute in ("<<<M479>>>" ++ check (runes_of_ascii "  packet
    body {
    @tag( 00 ) zchar[
255 ]
//	t
// `tick` ""quote"" 'q'
zchar @calculatedFrom( ""it's"" ) , int8 i8i8	,
    x_y_z @lengthOf(options1 )
    ,
    // packet A { u8 x, }
    zchar[00
] T,
repeat float64
chars , f64 repeatCount `doc` ,
    repeat i64_
repeatCount, repeat Header int
    , uint16 len `line1
line2`
    ,
@lengthOf(	Header)
@tag( 0123456789
) float64 u8x @lengthOf(options1 ) `u8 x,`
    , }options { x = ""\" ++ [233]%N ++ runes_of_ascii """ ; }
    // " ++ [128512]%N ++ runes_of_ascii " emoji
    MetaData	trueish	{ options1 float ``  , // a // b
zchar[ 3]
    lengthOf , }options{ rootA
    =""1""  T = """ ++ [128512]%N ++ runes_of_ascii """ }
")).
Eval vm_compute in ("<<<M511>>>" ++ check (runes_of_ascii "  MetaData tag { lengthOf
Z9_	, } // `tick` ""quote"" 'q'
packet body { @lengthOf( uint8x
    )
zchar[00
// packet A { u8 x, }
//	t
] metadata@lengthOf(
lengthOf)
    , @rightPad ( ) u @lengthOf(	asx )  `{ , }`, roots // `tick` ""quote"" 'q'
{ Foo{
    packetx
    ,
}, match
pack as stringy
    { 65535 : Logon  , """ ++ [233]%N ++ runes_of_ascii "t" ++ [233]%N ++ runes_of_ascii """ :
x_y_z [ """"
    ]
    :	metadata
[ 65535 // a // b
, ""it's""	,
    00 ,// packet A { u8 x, }
""{,}"", ""`tick`"" ,4294967296 , 42, 0 ] // " ++ [27880; 37322]%N ++ runes_of_ascii "
:o ""it's"" : // c
leftPad , } ,
repeat string calculatedFrom ,u64 options1 ,
    }  ,@lengthOf(
// `tick` ""quote"" 'q'
// @lengthOf(
repeatCount )	@tag( 65535
    // trailing space 
    )
@calculatedFrom( ""`tick`"" //
) zchar @lengthOf(crc)
`
`
    // @lengthOf(
    , x_y_z ,
} packet lengthOf // c
{ @leftPad ( '0'
)@lengthOf( uint8x
) @leftPad
//x
/// triple
( ' '	) Foo @calculatedFrom(
""a\""b"") , zchar[
7 ] Z9_
    ,  } packet	crc{ @calculatedFrom( ""{,}""  ) @tag( 3	) @lengthOf(
// packet A { u8 x, }
// c
int
)
    crc charz
, } options { int
=
    '0' ; Packet =
""" ++ [128512]%N ++ runes_of_ascii """ Packet
= ""`tick`"" ;float = char[
    10 ] ; // " ++ [27880; 37322]%N ++ runes_of_ascii "
msg_type
    = char[ 00
    ]}
")).
Eval vm_compute in ("<<<M543>>>" ++ check (runes_of_ascii "// trailing space 
root
packet x_y_z //	t
{ @leftPad (
    )
repeat
rootA  {BodyLength body`
` ,
u8 leftPad
@calculatedFrom( ""1""	)``,
char[007 ] i64_ , } ,u32
// trailing space 
// c
zchar `line1
line2`, char[ 10
    // packet A { u8 x, }
    ]
    //	t
    i8i8 @calculatedFrom( """ ++ [233]%N ++ runes_of_ascii "t" ++ [233]%N ++ runes_of_ascii """ ) , }
packet a1
    {}
")).
Eval vm_compute in ("<<<M575>>>" ++ check (runes_of_ascii "root
packet
// a // b
// " ++ [128512]%N ++ runes_of_ascii " emoji
Z9_ // a // b
{ // " ++ [128512]%N ++ runes_of_ascii " emoji
}
")).
Eval vm_compute in ("<<<M607>>>" ++ check (runes_of_ascii "
options {a1= 4294967296 ;
    //	t
    u =	"""" BodyLength =0123456789 ;
}
    packet float{
    char[ 10// trailing space 
]
    calculatedFrom `say ""hi""`
,}	packet  charz
    { u
{
    match string_
    as crc {
0 : zchar//x
4294967296:// packet A { u8 x, }
u 255 : falsey }
    ,len@lengthOf(
// a // b
// c
asx )`tab	here`
    ,o @calculatedFrom( ""\n"" ), },// " ++ [128512]%N ++ runes_of_ascii " emoji
} options
{  T = false ;}  packet
calculatedFrom {
    match u8x
as leftPad { """ ++ [233]%N ++ runes_of_ascii "t" ++ [233]%N ++ runes_of_ascii """ //x
:packetx , ""\n"" :lengthOf ,
007 :
    pack 007 :
BodyLength
,
    ""a\\""  :
charz}
, @tag(
    7 // trailing space 
)body { repeat char[
7 ]// packet A { u8 x, }
_x`" ++ [28040; 24687; 31867; 22411]%N ++ runes_of_ascii "` , } ,	@tag(// " ++ [128512]%N ++ runes_of_ascii " emoji
42 )string  tag `crlf
line`	,  @tag( // " ++ [27880; 37322]%N ++ runes_of_ascii "
00 )repeat char[	0  ] calculatedFrom `tab	here`, u16 Z9_ @calculatedFrom( ""{,}"" ) ,
//x
//x
@calculatedFrom(
    ""\" ++ [233]%N ++ runes_of_ascii """ )
    match	Logon
    // @lengthOf(
    as Z9_ {
[
""1""
    //	t
    , // c
""1""	] :
    options1 } ,
T
    metadata ,_x {
    // @lengthOf(
    f32 x
    , int64
a1
//x
// " ++ [27880; 37322]%N ++ runes_of_ascii "
@lengthOf(_x
    )`u8 x,` , uint8x { _x	@lengthOf(
charz ) // `tick` ""quote"" 'q'
, int64// @lengthOf(
trueish
    ,  char[0	]
// `tick` ""quote"" 'q'
// c
roots @calculatedFrom( ""// no comment"")
    `crlf
line` , u ,}
    , } , }
")).
Eval vm_compute in ("<<<M639>>>" ++ check (runes_of_ascii "
root packet
a1  {repeat
    string x
`// not a comment`	,
//x
// @lengthOf(
}options
//
//	t
{ stringy
= true } packet msg_type { @rightPad ( '\x00'
    // " ++ [27880; 37322]%N ++ runes_of_ascii "
    ) match crc
as packetx
{ 65535 :body , 65535 :
T,	}
    , //x
stringy
    ,u32 roots, uint32 body , }")).
Eval vm_compute in ("<<<M671>>>" ++ check (runes_of_ascii "//
MetaData calculatedFrom {
    char[ 42 ]
tag	,
    body tag ``
, int16 int , zchar[ 42 ] tag //	t
`doc`
, char[]matchKey , uint32 // " ++ [128512]%N ++ runes_of_ascii " emoji
Z9_,  } //	t")).
Eval vm_compute in ("<<<T671>>>" ++ terms [mkTok 44 "//" 1 0 true; mkTok 37 "MetaData" 2 0 false; mkTok 42 "calculatedFrom" 2 9 false; mkTok 2 "{" 2 24 false; mkTok 12 "char[" 3 4 false; mkTok 30 "42" 3 10 false; mkTok 13 "]" 3 13 false; mkTok 42 "tag" 4 0 false; mkTok 40 "," 4 4 false; mkTok 42 "body" 5 4 false; mkTok 42 "tag" 5 9 false; mkTok 43 "``" 5 13 false; mkTok 40 "," 6 0 false; mkTok 25 "int16" 6 2 false; mkTok 42 "int" 6 8 false; mkTok 40 "," 6 12 false; mkTok 14 "zchar[" 6 14 false; mkTok 30 "42" 6 21 false; mkTok 13 "]" 6 24 false; mkTok 42 "tag" 6 26 false; mkTok 44 (string_of_bytes [47; 47; 9; 116]%N) 6 30 true; mkTok 43 "`doc`" 7 0 false; mkTok 40 "," 8 0 false; mkTok 16 "char[]" 8 2 false; mkTok 42 "matchKey" 8 8 false; mkTok 40 "," 8 17 false; mkTok 22 "uint32" 8 19 false; mkTok 44 (string_of_bytes [47; 47; 32; 240; 159; 152; 128; 32; 101; 109; 111; 106; 105]%N) 8 26 true; mkTok 42 "Z9_" 9 0 false; mkTok 40 "," 9 3 false; mkTok 3 "}" 9 6 false; mkTok 44 (string_of_bytes [47; 47; 9; 116]%N) 9 8 true; mkTok 0 "<EOF>" 9 12 false] (mkPacket (mkPtok 37 "MetaData" 2 0 1) (Some (mkPtok 3 "}" 9 6 30)) [(DMeta (mkMetaDef (mkSpan (mkPtok 37 "MetaData" 2 0 1) (mkPtok 3 "}" 9 6 30)) (mkPtok 37 "MetaData" 2 0 1) (mkPtok 42 "calculatedFrom" 2 9 2) (mkPtok 2 "{" 2 24 3) [(MIDecl (mkMetaDecl (mkSpan (mkPtok 12 "char[" 3 4 4) (mkPtok 40 "," 4 4 8)) (TyFixed (mkSpan (mkPtok 12 "char[" 3 4 4) (mkPtok 13 "]" 3 13 6)) (mkFixedString (mkSpan (mkPtok 12 "char[" 3 4 4) (mkPtok 13 "]" 3 13 6)) (mkPtok 12 "char[" 3 4 4) (mkPtok 30 "42" 3 10 5) (mkPtok 13 "]" 3 13 6))) (mkPtok 42 "tag" 4 0 7) None (mkPtok 40 "," 4 4 8))); (MIRef (mkRefMetaDecl (mkSpan (mkPtok 42 "body" 5 4 9) (mkPtok 40 "," 6 0 12)) (mkPtok 42 "body" 5 4 9) (mkPtok 42 "tag" 5 9 10) (Some (mkPtok 43 "``" 5 13 11)) (mkPtok 40 "," 6 0 12))); (MIDecl (mkMetaDecl (mkSpan (mkPtok 25 "int16" 6 2 13) (mkPtok 40 "," 6 12 15)) (TyBasic (mkSpan (mkPtok 25 "int16" 6 2 13) (mkPtok 25 "int16" 6 2 13)) (mkBasicType (mkSpan (mkPtok 25 "int16" 6 2 13) (mkPtok 25 "int16" 6 2 13)) (mkPtok 25 "int16" 6 2 13))) (mkPtok 42 "int" 6 8 14) None (mkPtok 40 "," 6 12 15))); (MIDecl (mkMetaDecl (mkSpan (mkPtok 14 "zchar[" 6 14 16) (mkPtok 40 "," 8 0 22)) (TyFixed (mkSpan (mkPtok 14 "zchar[" 6 14 16) (mkPtok 13 "]" 6 24 18)) (mkFixedString (mkSpan (mkPtok 14 "zchar[" 6 14 16) (mkPtok 13 "]" 6 24 18)) (mkPtok 14 "zchar[" 6 14 16) (mkPtok 30 "42" 6 21 17) (mkPtok 13 "]" 6 24 18))) (mkPtok 42 "tag" 6 26 19) (Some (mkPtok 43 "`doc`" 7 0 21)) (mkPtok 40 "," 8 0 22))); (MIDecl (mkMetaDecl (mkSpan (mkPtok 16 "char[]" 8 2 23) (mkPtok 40 "," 8 17 25)) (TyDynamic (mkSpan (mkPtok 16 "char[]" 8 2 23) (mkPtok 16 "char[]" 8 2 23)) (mkDynamicString (mkSpan (mkPtok 16 "char[]" 8 2 23) (mkPtok 16 "char[]" 8 2 23)) (mkPtok 16 "char[]" 8 2 23))) (mkPtok 42 "matchKey" 8 8 24) None (mkPtok 40 "," 8 17 25))); (MIDecl (mkMetaDecl (mkSpan (mkPtok 22 "uint32" 8 19 26) (mkPtok 40 "," 9 3 29)) (TyBasic (mkSpan (mkPtok 22 "uint32" 8 19 26) (mkPtok 22 "uint32" 8 19 26)) (mkBasicType (mkSpan (mkPtok 22 "uint32" 8 19 26) (mkPtok 22 "uint32" 8 19 26)) (mkPtok 22 "uint32" 8 19 26))) (mkPtok 42 "Z9_" 9 0 28) None (mkPtok 40 "," 9 3 29)))] (mkPtok 3 "}" 9 6 30)))])).
Eval vm_compute in ("<<<M703>>>" ++ check (runes_of_ascii "// @lengthOf(
packet BodyLength { char T
    , } root packet
A
{
repeat len `say ""hi""` ,repeat Pad{ repeat char[] // " ++ [128512]%N ++ runes_of_ascii " emoji
stringy  , repeat
rootA
{ uint64
Foo @lengthOf( // `tick` ""quote"" 'q'
options1 ) // @lengthOf(
`it's` ,
//x
/// triple
zchar { zchar[
42] Z9_
,
    repeat o  i8i8 ,
uint8 x `it's` ,
    rootA Foo
`{ , }`, }
, }
,
metadata
@calculatedFrom( ""a	b"" )
, } ,  @tag(	1) string
    // c
    u `doc`
    //	t
    ,  u
@calculatedFrom(
    ""it's"")
    ``,char[ 7 ]	packetx@lengthOf( A ) `{ , }`	, string _x `
` ,
float32 _x , repeat char[ 42 ] rootA
`doc` ,} MetaData matchKey {
zchar[ 0123456789
    ]falsey
    `` , }  packet Logon
{ @lengthOf( zchar ) match leftPad as falsey
    {
3 : Packet , 007 :// `tick` ""quote"" 'q'
zchar
1 : // @lengthOf(
float ,	""it's"" :
body""CRC32""
    // " ++ [128512]%N ++ runes_of_ascii " emoji
    :  body } , @calculatedFrom(""{,}"") zchar[
    1 ] i8i8 @lengthOf(
uint8x  )
,
zchar[ 00]
    // `tick` ""quote"" 'q'
    a1
, uint64
    u , string Packet @calculatedFrom( ""packet"" ), }
")).
Eval vm_compute in ("<<<M735>>>" ++ check (runes_of_ascii "options { packetx
=
255 ; }
packet float
{ repeat
    //
    f64 metadata `
`
//	t
//	t
,}
MetaData leftPad {
} //x")).
Eval vm_compute in ("<<<M767>>>" ++ check (runes_of_ascii "
")).
Eval vm_compute in ("<<<M799>>>" ++ check (runes_of_ascii "
MetaData o{ char[]BodyLength
,
}
    options
    { Foo=uint32 i8i8  = char[ 10
    ];
    Logon =  true i64_= string ;
    }root
//
// @lengthOf(
packet a1
{ i8i8
`tab	here` , @calculatedFrom( ""a	b""
    ) string calculatedFrom
    @calculatedFrom( ""abc"" )	``
, }
")).
Eval vm_compute in ("<<<M831>>>" ++ check (runes_of_ascii "options { }")).
Eval vm_compute in ("<<<M863>>>" ++ check (runes_of_ascii "options
//	t
// @lengthOf(
{
roots
=""" ++ [28040; 24687]%N ++ runes_of_ascii """
; }")).
Eval vm_compute in ("<<<M895>>>" ++ check (runes_of_ascii "
")).
Eval vm_compute in ("<<<T895>>>" ++ terms [mkTok 0 "<EOF>" 2 0 false] (mkPacket (mkPtok 0 "<EOF>" 2 0 0) None [])).
Eval vm_compute in ("<<<M927>>>" ++ check (runes_of_ascii "packet calculatedFrom
    { @calculatedFrom(
""{,}"" )
    // c
    @tag(
    65535 ) f32 Packet @lengthOf(o )
    , @calculatedFrom(  ""`tick`"" ) uint32 MetaDataX  @calculatedFrom(""it's""  ) ``,
} // a // b")).
Eval vm_compute in ("<<<M959>>>" ++ check (runes_of_ascii "options { Foo =
    // trailing space 
    ""\" ++ [233]%N ++ runes_of_ascii """roots = ""`tick`""
// trailing space 
//	t
; crc = ""packet"" ; falsey= // a // b
1
float = u32	; } packet
options1	{
    match Header as Packet { [ ""abc""
    ] : Header , ""`tick`"" : i64_, [ 7 ,
/// triple
//x
"""", 3 ] : Z9_	,
    [ ""// no comment"" ,
""x y"" , """ ++ [28040; 24687]%N ++ runes_of_ascii """ , 1, ""a	b"" ] : x_y_z
,""a\""b"" :float// c
} , // @lengthOf(
i8i8 _x,  @rightPad ( '\x00')	zchar[
0
    ] string_ ,}packet u8x {@lengthOf(  packetx) char[ 42
    ]
    // `tick` ""quote"" 'q'
    _x,
    f64 matchKey `it's`
, match repeatCount
as
roots
    {
// packet A { u8 x, }
// " ++ [27880; 37322]%N ++ runes_of_ascii "
[
""CRC32""
,
""" ++ [128512]%N ++ runes_of_ascii """
    ] : i8i8 ,} ,
    // " ++ [27880; 37322]%N ++ runes_of_ascii "
    @lengthOf(
len ) @rightPad
( ' '	) u stringy	`say ""hi""` ,// @lengthOf(
repeat char[ 7  ] pack	`" ++ [28040; 24687; 31867; 22411]%N ++ runes_of_ascii "`,	@tag( 42	) string u8x`// not a comment`
    , } root packet As
    {	int32 x
@calculatedFrom( ""\n"" ) , }
")).
Eval vm_compute in ("<<<M991>>>" ++ check (runes_of_ascii "  packet Pad{	@leftPad ( '\x00' ) @tag( 42
    )@rightPad ( ' ')
    uint8 asx
    // c
    ,
@rightPad
    (	)string a1,	u8x  @calculatedFrom( """ ++ [128512]%N ++ runes_of_ascii """ )	,	@tag(
    1 ) zchar[ 255 ] u128 ,@tag( 00)match
//x
//	t
u128
as zchar { 3 :	tag , [ """ ++ [233]%N ++ runes_of_ascii "t" ++ [233]%N ++ runes_of_ascii """ ]
: // " ++ [27880; 37322]%N ++ runes_of_ascii "
int ,
}
    ,
    @leftPad	( ) zchar[7 ]
    zchar
@lengthOf(
lengthOf ) , repeat Packet Foo	`a\`  , @lengthOf(
msg_type
)@rightPad
(
'0' ) @tag(255 ) string
    tag
//	t
//
@lengthOf(roots // a // b
)
    `say ""hi""` , repeat// " ++ [128512]%N ++ runes_of_ascii " emoji
Logon f32a,}packet uint8x {
    // trailing space 
    @rightPad	(' ' )@lengthOf(
    Header
)zchar[
7 ] u ,} // " ++ [128512]%N ++ runes_of_ascii " emoji
MetaData a1
    { rootA msg_type ,
u16
    /// triple
    lengthOf `it's`,f32
u8x
, }
    // c
    packet	trueish {}")).
Eval vm_compute in ("<<<M1023>>>" ++ check (runes_of_ascii "
packet roots{pack, @calculatedFrom( ""it's""
)
    MetaDataX @lengthOf( u
) , @lengthOf(//x
falsey  ) metadata _x	`doc` , } options{ BodyLength =	""" ++ [28040; 24687]%N ++ runes_of_ascii """; Packet = 0123456789 ; T=
    ' ' ; T = 4294967296
;
    }
")).
Eval vm_compute in ("<<<M1055>>>" ++ check (runes_of_ascii "root packet calculatedFrom{ } 	 ")).
Eval vm_compute in ("<<<M1087>>>" ++ check (runes_of_ascii "options  { x_y_z
= uint32
    ; x
= false ;len
= 0//
; }
root packet trueish {
    // `tick` ""quote"" 'q'
    @tag( 42// packet A { u8 x, }
) matchKey string_,
}
")).
Eval vm_compute in ("<<<M1119>>>" ++ check (runes_of_ascii "packet
    packetx
{@calculatedFrom( ""packet""
)
    // " ++ [27880; 37322]%N ++ runes_of_ascii "
    @calculatedFrom( ""// no comment"" ) @leftPad /// triple
(	'0') //	t
Z9_ T
, leftPad uint8x ,@tag( 4294967296
    //
    ) leftPad //
{ roots { char options1 , }, match Pad
    as int{ [
10 ]
    :roots//	t
,
[	""CRC32"" , ""1"" , 3  ,7
    ,// " ++ [27880; 37322]%N ++ runes_of_ascii "
0
, 0,
    /// triple
    ""CRC32"" , 7
// `tick` ""quote"" 'q'
// a // b
]	:Packet
,	1
    : tag ,1:
    matchKey [	42]:
_x }
, repeat	tag
// packet A { u8 x, }
// " ++ [128512]%N ++ runes_of_ascii " emoji
{ metadata `" ++ [233]%N ++ runes_of_ascii "`
,  }, //	t
u
    `a\` , } ,  }
")).
Eval vm_compute in ("<<<T1119>>>" ++ terms [mkTok 35 "packet" 1 0 false; mkTok 42 "packetx" 2 4 false; mkTok 2 "{" 3 0 false; mkTok 5 "@calculatedFrom(" 3 1 false; mkTok 31 """packet""" 3 18 false; mkTok 6 ")" 4 0 false; mkTok 44 (string_of_bytes [47; 47; 32; 230; 179; 168; 233; 135; 138]%N) 5 4 true; mkTok 5 "@calculatedFrom(" 6 4 false; mkTok 31 """// no comment""" 6 21 false; mkTok 6 ")" 6 37 false; mkTok 32 "@leftPad" 6 39 false; mkTok 44 "/// triple" 6 48 true; mkTok 8 "(" 7 0 false; mkTok 33 "'0'" 7 2 false; mkTok 6 ")" 7 5 false; mkTok 44 (string_of_bytes [47; 47; 9; 116]%N) 7 7 true; mkTok 42 "Z9_" 8 0 false; mkTok 42 "T" 8 4 false; mkTok 40 "," 9 0 false; mkTok 42 "leftPad" 9 2 false; mkTok 42 "uint8x" 9 10 false; mkTok 40 "," 9 17 false; mkTok 9 "@tag(" 9 18 false; mkTok 30 "4294967296" 9 24 false; mkTok 44 "//" 10 4 true; mkTok 6 ")" 11 4 false; mkTok 42 "leftPad" 11 6 false; mkTok 44 "//" 11 14 true; mkTok 2 "{" 12 0 false; mkTok 42 "roots" 12 2 false; mkTok 2 "{" 12 8 false; mkTok 19 "char" 12 10 false; mkTok 42 "options1" 12 15 false; mkTok 40 "," 12 24 false; mkTok 3 "}" 12 26 false; mkTok 40 "," 12 27 false; mkTok 38 "match" 12 29 false; mkTok 42 "Pad" 12 35 false; mkTok 17 "as" 13 4 false; mkTok 42 "int" 13 7 false; mkTok 2 "{" 13 10 false; mkTok 18 "[" 13 12 false; mkTok 30 "10" 14 0 false; mkTok 13 "]" 14 3 false; mkTok 39 ":" 15 4 false; mkTok 42 "roots" 15 5 false; mkTok 44 (string_of_bytes [47; 47; 9; 116]%N) 15 10 true; mkTok 40 "," 16 0 false; mkTok 18 "[" 17 0 false; mkTok 31 """CRC32""" 17 2 false; mkTok 40 "," 17 10 false; mkTok 31 """1""" 17 12 false; mkTok 40 "," 17 16 false; mkTok 30 "3" 17 18 false; mkTok 40 "," 17 21 false; mkTok 30 "7" 17 22 false; mkTok 40 "," 18 4 false; mkTok 44 (string_of_bytes [47; 47; 32; 230; 179; 168; 233; 135; 138]%N) 18 5 true; mkTok 30 "0" 19 0 false; mkTok 40 "," 20 0 false; mkTok 30 "0" 20 2 false; mkTok 40 "," 20 3 false; mkTok 44 "/// triple" 21 4 true; mkTok 31 """CRC32""" 22 4 false; mkTok 40 "," 22 12 false; mkTok 30 "7" 22 14 false; mkTok 44 "// `tick` ""quote"" 'q'" 23 0 true; mkTok 44 "// a // b" 24 0 true; mkTok 13 "]" 25 0 false; mkTok 39 ":" 25 2 false; mkTok 42 "Packet" 25 3 false; mkTok 40 "," 26 0 false; mkTok 30 "1" 26 2 false; mkTok 39 ":" 27 4 false; mkTok 42 "tag" 27 6 false; mkTok 40 "," 27 10 false; mkTok 30 "1" 27 11 false; mkTok 39 ":" 27 12 false; mkTok 42 "matchKey" 28 4 false; mkTok 18 "[" 28 13 false; mkTok 30 "42" 28 15 false; mkTok 13 "]" 28 17 false; mkTok 39 ":" 28 18 false; mkTok 42 "_x" 29 0 false; mkTok 3 "}" 29 3 false; mkTok 40 "," 30 0 false; mkTok 36 "repeat" 30 2 false; mkTok 42 "tag" 30 9 false; mkTok 44 "// packet A { u8 x, }" 31 0 true; mkTok 44 (string_of_bytes [47; 47; 32; 240; 159; 152; 128; 32; 101; 109; 111; 106; 105]%N) 32 0 true; mkTok 2 "{" 33 0 false; mkTok 42 "metadata" 33 2 false; mkTok 43 (string_of_bytes [96; 195; 169; 96]%N) 33 11 false; mkTok 40 "," 34 0 false; mkTok 3 "}" 34 3 false; mkTok 40 "," 34 4 false; mkTok 44 (string_of_bytes [47; 47; 9; 116]%N) 34 6 true; mkTok 42 "u" 35 0 false; mkTok 43 "`a\`" 36 4 false; mkTok 40 "," 36 9 false; mkTok 3 "}" 36 11 false; mkTok 40 "," 36 13 false; mkTok 3 "}" 36 16 false; mkTok 0 "<EOF>" 37 0 false] (mkPacket (mkPtok 35 "packet" 1 0 0) (Some (mkPtok 3 "}" 36 16 102)) [(DPacket (mkPacketDef (mkSpan (mkPtok 35 "packet" 1 0 0) (mkPtok 3 "}" 36 16 102)) None (mkPtok 35 "packet" 1 0 0) (mkPtok 42 "packetx" 2 4 1) (mkPtok 2 "{" 3 0 2) [(mkFieldWithAttr (mkSpan (mkPtok 5 "@calculatedFrom(" 3 1 3) (mkPtok 40 "," 9 0 18)) [(FACalculatedFrom (mkSpan (mkPtok 5 "@calculatedFrom(" 3 1 3) (mkPtok 6 ")" 4 0 5)) (mkCalculatedFrom (mkSpan (mkPtok 5 "@calculatedFrom(" 3 1 3) (mkPtok 6 ")" 4 0 5)) (mkPtok 5 "@calculatedFrom(" 3 1 3) (mkPtok 31 """packet""" 3 18 4) (mkPtok 6 ")" 4 0 5))); (FACalculatedFrom (mkSpan (mkPtok 5 "@calculatedFrom(" 6 4 7) (mkPtok 6 ")" 6 37 9)) (mkCalculatedFrom (mkSpan (mkPtok 5 "@calculatedFrom(" 6 4 7) (mkPtok 6 ")" 6 37 9)) (mkPtok 5 "@calculatedFrom(" 6 4 7) (mkPtok 31 """// no comment""" 6 21 8) (mkPtok 6 ")" 6 37 9))); (FAPadding (mkSpan (mkPtok 32 "@leftPad" 6 39 10) (mkPtok 6 ")" 7 5 14)) (mkPaddingAttr (mkSpan (mkPtok 32 "@leftPad" 6 39 10) (mkPtok 6 ")" 7 5 14)) (mkPtok 32 "@leftPad" 6 39 10) (mkPtok 8 "(" 7 0 12) (Some (mkPtok 33 "'0'" 7 2 13)) (mkPtok 6 ")" 7 5 14)))] (ObjectField (mkSpan (mkPtok 42 "Z9_" 8 0 16) (mkPtok 40 "," 9 0 18)) None (mkPtok 42 "Z9_" 8 0 16) (Some (mkPtok 42 "T" 8 4 17)) None (mkPtok 40 "," 9 0 18))); (mkFieldWithAttr (mkSpan (mkPtok 42 "leftPad" 9 2 19) (mkPtok 40 "," 9 17 21)) [] (ObjectField (mkSpan (mkPtok 42 "leftPad" 9 2 19) (mkPtok 40 "," 9 17 21)) None (mkPtok 42 "leftPad" 9 2 19) (Some (mkPtok 42 "uint8x" 9 10 20)) None (mkPtok 40 "," 9 17 21))); (mkFieldWithAttr (mkSpan (mkPtok 9 "@tag(" 9 18 22) (mkPtok 40 "," 36 13 101)) [(FATag (mkSpan (mkPtok 9 "@tag(" 9 18 22) (mkPtok 6 ")" 11 4 25)) (mkTagAttr (mkSpan (mkPtok 9 "@tag(" 9 18 22) (mkPtok 6 ")" 11 4 25)) (mkPtok 9 "@tag(" 9 18 22) (mkPtok 30 "4294967296" 9 24 23) (mkPtok 6 ")" 11 4 25)))] (InerObjectField (mkSpan (mkPtok 42 "leftPad" 11 6 26) (mkPtok 40 "," 36 13 101)) None (InerObjectDecl (mkSpan (mkPtok 42 "leftPad" 11 6 26) (mkPtok 3 "}" 36 11 100)) (mkPtok 42 "leftPad" 11 6 26) (mkPtok 2 "{" 12 0 28) [(InerObjectField (mkSpan (mkPtok 42 "roots" 12 2 29) (mkPtok 40 "," 12 27 35)) None (InerObjectDecl (mkSpan (mkPtok 42 "roots" 12 2 29) (mkPtok 3 "}" 12 26 34)) (mkPtok 42 "roots" 12 2 29) (mkPtok 2 "{" 12 8 30) [(MetaField (mkSpan (mkPtok 19 "char" 12 10 31) (mkPtok 40 "," 12 24 33)) None (mkMetaDecl (mkSpan (mkPtok 19 "char" 12 10 31) (mkPtok 40 "," 12 24 33)) (TyBasic (mkSpan (mkPtok 19 "char" 12 10 31) (mkPtok 19 "char" 12 10 31)) (mkBasicType (mkSpan (mkPtok 19 "char" 12 10 31) (mkPtok 19 "char" 12 10 31)) (mkPtok 19 "char" 12 10 31))) (mkPtok 42 "options1" 12 15 32) None (mkPtok 40 "," 12 24 33)))] (mkPtok 3 "}" 12 26 34)) (mkPtok 40 "," 12 27 35)); (MatchField (mkSpan (mkPtok 38 "match" 12 29 36) (mkPtok 40 "," 30 0 85)) (mkMatchFieldDecl (mkSpan (mkPtok 38 "match" 12 29 36) (mkPtok 3 "}" 29 3 84)) (mkPtok 38 "match" 12 29 36) (mkPtok 42 "Pad" 12 35 37) (mkPtok 17 "as" 13 4 38) (mkPtok 42 "int" 13 7 39) (mkPtok 2 "{" 13 10 40) [(mkMatchPair (mkSpan (mkPtok 18 "[" 13 12 41) (mkPtok 40 "," 16 0 47)) (MKList (mkKeyList (mkSpan (mkPtok 18 "[" 13 12 41) (mkPtok 13 "]" 14 3 43)) (mkPtok 18 "[" 13 12 41) (mkPtok 30 "10" 14 0 42) [] (mkPtok 13 "]" 14 3 43))) (mkPtok 39 ":" 15 4 44) (mkPtok 42 "roots" 15 5 45) (Some (mkPtok 40 "," 16 0 47))); (mkMatchPair (mkSpan (mkPtok 18 "[" 17 0 48) (mkPtok 40 "," 26 0 71)) (MKList (mkKeyList (mkSpan (mkPtok 18 "[" 17 0 48) (mkPtok 13 "]" 25 0 68)) (mkPtok 18 "[" 17 0 48) (mkPtok 31 """CRC32""" 17 2 49) [((mkPtok 40 "," 17 10 50), (mkPtok 31 """1""" 17 12 51)); ((mkPtok 40 "," 17 16 52), (mkPtok 30 "3" 17 18 53)); ((mkPtok 40 "," 17 21 54), (mkPtok 30 "7" 17 22 55)); ((mkPtok 40 "," 18 4 56), (mkPtok 30 "0" 19 0 58)); ((mkPtok 40 "," 20 0 59), (mkPtok 30 "0" 20 2 60)); ((mkPtok 40 "," 20 3 61), (mkPtok 31 """CRC32""" 22 4 63)); ((mkPtok 40 "," 22 12 64), (mkPtok 30 "7" 22 14 65))] (mkPtok 13 "]" 25 0 68))) (mkPtok 39 ":" 25 2 69) (mkPtok 42 "Packet" 25 3 70) (Some (mkPtok 40 "," 26 0 71))); (mkMatchPair (mkSpan (mkPtok 30 "1" 26 2 72) (mkPtok 40 "," 27 10 75)) (MKDigits (mkPtok 30 "1" 26 2 72)) (mkPtok 39 ":" 27 4 73) (mkPtok 42 "tag" 27 6 74) (Some (mkPtok 40 "," 27 10 75))); (mkMatchPair (mkSpan (mkPtok 30 "1" 27 11 76) (mkPtok 42 "matchKey" 28 4 78)) (MKDigits (mkPtok 30 "1" 27 11 76)) (mkPtok 39 ":" 27 12 77) (mkPtok 42 "matchKey" 28 4 78) None); (mkMatchPair (mkSpan (mkPtok 18 "[" 28 13 79) (mkPtok 42 "_x" 29 0 83)) (MKList (mkKeyList (mkSpan (mkPtok 18 "[" 28 13 79) (mkPtok 13 "]" 28 17 81)) (mkPtok 18 "[" 28 13 79) (mkPtok 30 "42" 28 15 80) [] (mkPtok 13 "]" 28 17 81))) (mkPtok 39 ":" 28 18 82) (mkPtok 42 "_x" 29 0 83) None)] (mkPtok 3 "}" 29 3 84)) (mkPtok 40 "," 30 0 85)); (InerObjectField (mkSpan (mkPtok 36 "repeat" 30 2 86) (mkPtok 40 "," 34 4 95)) (Some (mkPtok 36 "repeat" 30 2 86)) (InerObjectDecl (mkSpan (mkPtok 42 "tag" 30 9 87) (mkPtok 3 "}" 34 3 94)) (mkPtok 42 "tag" 30 9 87) (mkPtok 2 "{" 33 0 90) [(ObjectField (mkSpan (mkPtok 42 "metadata" 33 2 91) (mkPtok 40 "," 34 0 93)) None (mkPtok 42 "metadata" 33 2 91) None (Some (mkPtok 43 (string_of_bytes [96; 195; 169; 96]%N) 33 11 92)) (mkPtok 40 "," 34 0 93))] (mkPtok 3 "}" 34 3 94)) (mkPtok 40 "," 34 4 95)); (ObjectField (mkSpan (mkPtok 42 "u" 35 0 97) (mkPtok 40 "," 36 9 99)) None (mkPtok 42 "u" 35 0 97) None (Some (mkPtok 43 "`a\`" 36 4 98)) (mkPtok 40 "," 36 9 99))] (mkPtok 3 "}" 36 11 100)) (mkPtok 40 "," 36 13 101)))] (mkPtok 3 "}" 36 16 102)))])).
Eval vm_compute in ("<<<M1151>>>" ++ check (runes_of_ascii "MetaData	pack
{  } MetaData	trueish
{
    string o,
u // @lengthOf(
roots , Header calculatedFrom
`doc` , zchar[42] metadata `u8 x,`
    , Packet lengthOf , u128 lengthOf ,} root packet Logon{ repeat/// triple
zchar[ 7 ]
// packet A { u8 x, }
// `tick` ""quote"" 'q'
roots ,  match u as x  {  [""" ++ [28040; 24687]%N ++ runes_of_ascii """
    , 0,""a	b""
    // @lengthOf(
    , 3/// triple
,
    ""a\""b"", ""// no comment""	,""packet"" , ""`tick`"" ]	: o ,[0  ,	""x y""] : u ""a\""b"" : pack [ 65535 , 007
    , """ ++ [233]%N ++ runes_of_ascii "t" ++ [233]%N ++ runes_of_ascii """
// " ++ [27880; 37322]%N ++ runes_of_ascii "
// @lengthOf(
,42] // trailing space 
: f32a 255
    : i8i8//	t
, 0123456789 :
Pad
,
} , Foo , @calculatedFrom( ""x y"" )
body{
    repeat string metadata`it's` , repeat zchar
    x_y_z , lengthOf {Logon
    pack
, match options1
as leftPad// c
{ //x
10:a1
, """ ++ [28040; 24687]%N ++ runes_of_ascii """
    :	A , [
// trailing space 
// " ++ [128512]%N ++ runes_of_ascii " emoji
""" ++ [28040; 24687]%N ++ runes_of_ascii """ ,65535 , 0123456789 , 0
] : i64_ , 1 // " ++ [27880; 37322]%N ++ runes_of_ascii "
: string_ ,
65535	:calculatedFrom ,
}
    , crc { u128, u128
@lengthOf( x) , u16 falsey @lengthOf( u )	, } , char[ 42] options1
@calculatedFrom( ""packet"")
`u8 x,`,} , float/// triple
float  `u8 x,` , }
,match  packetx
    as T { ""packet""
// @lengthOf(
// @lengthOf(
: As,
007 : BodyLength , 00:
trueish
, [
    ""abc""  ,
10
    , 3 , 10,
007
    ,
// " ++ [128512]%N ++ runes_of_ascii " emoji
// c
""\n""
, 1
//	t
// a // b
] : _x ,}	, o
    `say ""hi""` ,
@leftPad
( '0' )
@tag( 10 ) @calculatedFrom( ""\" ++ [233]%N ++ runes_of_ascii """ )
u32 //	t
i64_
    // `tick` ""quote"" 'q'
    `{ , }`
,x
body `line1
line2`//	t
,
}
packet
    repeatCount {i64 rootA @calculatedFrom( """ ++ [128512]%N ++ runes_of_ascii """ )	`" ++ [28040; 24687; 31867; 22411]%N ++ runes_of_ascii "` , @rightPad( ' ' ) @rightPad
(	)  int32 rootA	@calculatedFrom( ""{,}"" ) , i16
    BodyLength // " ++ [27880; 37322]%N ++ runes_of_ascii "
, @calculatedFrom( ""`tick`"" )
Logon
    lengthOf `two words`
, zchar[ 4294967296]
x_y_z
    `" ++ [28040; 24687; 31867; 22411]%N ++ runes_of_ascii "` , string zchar
    `say ""hi""`
// `tick` ""quote"" 'q'
// c
, @tag( 1 ) f32 x_y_z `it's`
, } root packet string_ {// @lengthOf(
@leftPad
( '0'
) // a // b
@calculatedFrom( ""// no comment"" ) @leftPad
( ) // " ++ [27880; 37322]%N ++ runes_of_ascii "
char[
1]
tag
    `say ""hi""` , @calculatedFrom( // " ++ [27880; 37322]%N ++ runes_of_ascii "
""it's""
)
    match BodyLength  as A {
    255 :Foo,}, u16 x_y_z
@calculatedFrom( ""CRC32""
    ) , o  MetaDataX `// not a comment`, options1  @lengthOf(
x ) , match  float as
A{ [65535 ] :
    leftPad
, [ 007
,
7 , ""a\\"",1
] : msg_type,  10 :u128 """ ++ [28040; 24687]%N ++ runes_of_ascii """ : As , }  ,}
")).
Eval vm_compute in ("<<<M1183>>>" ++ check (runes_of_ascii "// " ++ [27880; 37322]%N ++ runes_of_ascii "
packet
    Header {
}
// " ++ [128512]%N ++ runes_of_ascii " emoji
")).
Eval vm_compute in ("<<<M1215>>>" ++ check (runes_of_ascii "MetaData string_ {
i32 packetx
`doc`, }//
packet zchar{ @rightPad
    (' '
)@calculatedFrom(""`tick`"" ) @calculatedFrom( ""CRC32"" // c
)u8x
    /// triple
    @lengthOf(
    Foo ) ,
    }	root
packet i8i8
    { }

")).
Eval vm_compute in ("<<<M1247>>>" ++ check (runes_of_ascii "packet u128 {
// packet A { u8 x, }
// c
@rightPad (
' ')uint8x { zchar {
match u8x
as
Logon {007 // @lengthOf(
: Packet
    //x
    , [ 255 ,
//
//x
""`tick`"" ,00 , 42 ,
""a\\""
    ,	3 ] :
// @lengthOf(
// a // b
int ,},  metadata `" ++ [28040; 24687; 31867; 22411]%N ++ runes_of_ascii "` ,
repeat char[]Header
    , a1, }
, match // packet A { u8 x, }
leftPad as rootA{
0123456789 : int,0 : pack, }, tag { // " ++ [27880; 37322]%N ++ runes_of_ascii "
string_ ,
    pack calculatedFrom  , },// packet A { u8 x, }
} ,
    //x
    zchar[
255] msg_type , i32// c
x, match options1 // @lengthOf(
as
    options1 {  10// @lengthOf(
: //
zchar,
42 : pack ,
[  ""a\\"" ] :
    // @lengthOf(
    As [42
,
    ""a\""b"" ] : asx
, [
    10 ] :a1 ,
[
    00]
:
    // trailing space 
    chars
    // " ++ [27880; 37322]%N ++ runes_of_ascii "
    , } ,
// `tick` ""quote"" 'q'
//	t
char[0] Header @lengthOf(
chars) // @lengthOf(
`it's` ,
//
//	t
match//	t
x_y_z as
    u8x {  65535 : Logon
    ,""" ++ [233]%N ++ runes_of_ascii "t" ++ [233]%N ++ runes_of_ascii """ :
Header ,
    ""a	b"":
metadata ,	[
    255,
""a\\""
// a // b
// c
, ""a	b""
, //x
1 , ""{,}"" , """",255 , """ ++ [28040; 24687]%N ++ runes_of_ascii """ ]: f32a
//	t
// c
, 3	:
len // @lengthOf(
}, @leftPad
( ) @calculatedFrom( ""a\\"") int64 leftPad
`" ++ [233]%N ++ runes_of_ascii "` , @calculatedFrom( ""packet"" )
    @tag(
10 )  @calculatedFrom(""a\\"" ) string Packet
    @lengthOf( BodyLength ),//x
@leftPad ( // @lengthOf(
'0' )repeat
char[]
//	t
// trailing space 
Logon
,
@tag( 00
) match
u8x as Z9_ {
[ 10 ] : lengthOf
    0123456789 : _x, ""packet"" : i64_, } , }")).
Eval vm_compute in ("<<<M1279>>>" ++ check (runes_of_ascii "options {
    trueish
=// a // b
'0'
/// triple
//
;} options  { x_y_z
    =	'0'
u
= true;
    asx
= ""a	b"" ;
u128= 4294967296  len
=
    true
    ;	} packet u128 { A  { f32 repeatCount
@lengthOf(
    tag) , u32 tag , } ,
// " ++ [128512]%N ++ runes_of_ascii " emoji
// " ++ [128512]%N ++ runes_of_ascii " emoji
repeat
zchar
    zchar`u8 x,` , match
    u as	a1 { [ // " ++ [128512]%N ++ runes_of_ascii " emoji
""a\""b"" ,""" ++ [28040; 24687]%N ++ runes_of_ascii """]: Z9_ , 10 :int ,	[ ""\n"" , ""CRC32"" , 007
,
// " ++ [128512]%N ++ runes_of_ascii " emoji
// " ++ [128512]%N ++ runes_of_ascii " emoji
""" ++ [28040; 24687]%N ++ runes_of_ascii """ ,
""packet""
// " ++ [27880; 37322]%N ++ runes_of_ascii "
// `tick` ""quote"" 'q'
, 255 ,
    //
    1 ,
    255 ]  : matchKey
, }//
, char[/// triple
10 ]Z9_ // trailing space 
@calculatedFrom( """ ++ [128512]%N ++ runes_of_ascii """ )  `" ++ [28040; 24687; 31867; 22411]%N ++ runes_of_ascii "`,
    }
packet o{ match i64_
    as crc
{ ""CRC32"" : MetaDataX // trailing space 
, }
, a1 @lengthOf( Pad ) ,
packetx @calculatedFrom(
""" ++ [28040; 24687]%N ++ runes_of_ascii """
    // " ++ [27880; 37322]%N ++ runes_of_ascii "
    ) // a // b
`{ , }`
,
a1 { Packet // trailing space 
@lengthOf( T	) `two words`, metadata
{ match crc
as matchKey{
[""CRC32"" ,
""// no comment"", ""CRC32"" ,
    65535 ]
    :zchar 3: i64_ ,
} , repeat
stringy , }, x_y_z Pad// " ++ [128512]%N ++ runes_of_ascii " emoji
,
}
,
    zchar[	1
    ] i64_ @calculatedFrom( ""// no comment""
)
    , @rightPad ( ' '// packet A { u8 x, }
)
//
// " ++ [128512]%N ++ runes_of_ascii " emoji
i8 float
@lengthOf( //x
tag )	,
    @tag(  255  )
    match rootA as
    A { ""`tick`"" : asx,  } ,}")).
Eval vm_compute in ("<<<M1311>>>" ++ check (runes_of_ascii "options { string_ = char[] ;
}
packet Z9_
{
// " ++ [27880; 37322]%N ++ runes_of_ascii "
// a // b
@tag( 1 ) matchKey matchKey
    ,
}	root packet
    // `tick` ""quote"" 'q'
    Z9_ {	@leftPad
    ( '\x00' ) @rightPad // " ++ [27880; 37322]%N ++ runes_of_ascii "
(
'\x00'// packet A { u8 x, }
)
float64 chars `it's` , }")).
Eval vm_compute in ("<<<M1343>>>" ++ check (runes_of_ascii " // " ++ [27880; 37322]%N)).
Eval vm_compute in ("<<<T1343>>>" ++ terms [mkTok 44 (string_of_bytes [47; 47; 32; 230; 179; 168; 233; 135; 138]%N) 1 1 true; mkTok 0 "<EOF>" 1 6 false] (mkPacket (mkPtok 0 "<EOF>" 1 6 1) None [])).
Eval vm_compute in ("<<<M1375>>>" ++ check (runes_of_ascii "  packet	Packet{ } root
packet pack { @calculatedFrom( ""CRC32"")string
pack`two words`
    // " ++ [128512]%N ++ runes_of_ascii " emoji
    , @lengthOf(Pad
    )
@lengthOf(
rootA ) i16 A`doc`, } options {asx =00;
string_= 7 ;
x_y_z= 0123456789; } packet uint8x { int32
trueish @lengthOf( roots ) `say ""hi""` ,
    @tag( 1 ) @lengthOf(	a1 )
match
f32a as
MetaDataX {
/// triple
// trailing space 
7 :	pack 65535 :
//
// `tick` ""quote"" 'q'
calculatedFrom
// a // b
// " ++ [27880; 37322]%N ++ runes_of_ascii "
, [
    3,""// no comment""
    ,  1 ,
/// triple
/// triple
0123456789 ]:
    // c
    Z9_ ,4294967296
: a1 ,007:int """ ++ [128512]%N ++ runes_of_ascii """ : o
,
}
    ,	repeat calculatedFrom a1 `crlf
line`
, }
")).
Eval vm_compute in ("<<<M1407>>>" ++ check (runes_of_ascii "MetaData
    Foo	{  }	packet x_y_z  {	a1
    u8x, /// triple
x
`it's`
    ,} packet
    Foo
{
@lengthOf(
    o) T @calculatedFrom( """ ++ [28040; 24687]%N ++ runes_of_ascii """ ) `two words`  ,
@lengthOf( i8i8 ) repeat metadata{u
{ repeat char[ 0
]// trailing space 
string_ ``, repeat
body {
    //
    zchar[	0123456789	]
Pad
    ,
    match
Pad as matchKey{
00
:_x
, [
    65535 , 7 , 10 , 3// `tick` ""quote"" 'q'
,// trailing space 
""" ++ [128512]%N ++ runes_of_ascii """
, 42
, ""\" ++ [233]%N ++ runes_of_ascii """ ,""a	b""
] : i8i8
    , } ,	int8 charz , match packetx
    as lengthOf	{
    [
    1/// triple
, 4294967296
, 1 ] :
As
},
}
    //
    , repeat zchar[ 4294967296]_x
, }, string o `` , }	, Header
Header
// @lengthOf(
// c
`u8 x,`
,charz
    i8i8 `crlf
line` ,}")).
Eval vm_compute in ("<<<M1439>>>" ++ check (runes_of_ascii "  root	packet falsey
{  }
root packet x { asx ,
stringy { //x
f64 roots
, char[]// packet A { u8 x, }
chars@lengthOf( uint8x )
    // `tick` ""quote"" 'q'
    `
`
, }  , @lengthOf(len ) i8	MetaDataX@calculatedFrom( ""packet""
) , match MetaDataX
    as _x
{ 0
: uint8x
, }
,
// c
//x
@leftPad ( '\x00')uint16 // c
roots @calculatedFrom(""abc""
    // `tick` ""quote"" 'q'
    ) ,  @rightPad
    (
' ') int32
leftPad @calculatedFrom( ""packet"" /// triple
) `" ++ [233]%N ++ runes_of_ascii "`, }  options { falsey = 7
i64_
=int16// packet A { u8 x, }
len=
false
//x
// @lengthOf(
;	_x
='0';asx = """ ++ [28040; 24687]%N ++ runes_of_ascii """
    ; } options {
packetx =uint64
    ; len=
    true ;
} packet
tag // `tick` ""quote"" 'q'
{@leftPad ( )
    @calculatedFrom(
""abc"")
    int16 Pad @lengthOf( BodyLength  ) , //x
}
")).
Eval vm_compute in ("<<<M1471>>>" ++ check (runes_of_ascii "
options { packetx = '\x00' o =
    // `tick` ""quote"" 'q'
    ""abc"" lengthOf // @lengthOf(
=
    255 zchar
    =""" ++ [128512]%N ++ runes_of_ascii """
Pad// packet A { u8 x, }
= string
;
}
root packet
options1//x
{ calculatedFrom
    o  ,
    x
    @lengthOf( leftPad // " ++ [128512]%N ++ runes_of_ascii " emoji
)
    , match
    _x as
stringy { 3
: i8i8 ,
} ,
    string T , }	root packet
uint8x
{ len
/// triple
// a // b
``,} packet matchKey {match calculatedFrom
as
    // " ++ [27880; 37322]%N ++ runes_of_ascii "
    Packet { [ """ ++ [28040; 24687]%N ++ runes_of_ascii """ , ""packet""//
]:// packet A { u8 x, }
rootA ,}	,	}options {
    uint8x = false ; }
")).
Eval vm_compute in ("<<<M1503>>>" ++ check (runes_of_ascii "packet u8x {// trailing space 
@tag(42 )
    int16
tag @lengthOf(
charz )`two words`, } packet chars
{
    //
    @leftPad ()uint16//x
stringy ,  matchKey { Logon msg_type
    //
    `say ""hi""`
    ,
},
match
    As as repeatCount { [ 0123456789 ]
:i64_ [
    """", //
65535 ] : len,0
:
len // packet A { u8 x, }
""abc"":
    f32a
    ,00 : //	t
tag } ,
}
root packet
    matchKey
    {repeat matchKey {
repeat  As{ _x { int64 packetx@calculatedFrom(
    ""packet"" ), i64 rootA `say ""hi""` // @lengthOf(
, }
,
}
, }	, }
")).
Eval vm_compute in ("<<<M1535>>>" ++ check (runes_of_ascii "root	packet Packet  { char[  42 ] packetx , @leftPad
(
    ) // " ++ [27880; 37322]%N ++ runes_of_ascii "
@calculatedFrom( ""1""
)
@calculatedFrom(	""a	b""
    )int8 lengthOf
    //x
    @calculatedFrom( ""\" ++ [233]%N ++ runes_of_ascii """	) `two words` // c
, @rightPad ('\x00' ) @calculatedFrom( ""a\\"" )string msg_type , int64 packetx ,@rightPad( ' ' ) match stringy
as chars
{  00
:
chars
, // c
[ """" , """ ++ [28040; 24687]%N ++ runes_of_ascii """ ] :
x , [	""{,}"" ]
: asx,0:	uint8x ,
7
:
As}
, //	t
@tag(
// `tick` ""quote"" 'q'
// a // b
00 ) repeat calculatedFrom { repeat float32 calculatedFrom `crlf
line` , uint32
    chars`two words`
    ,	match len
as u128
// " ++ [27880; 37322]%N ++ runes_of_ascii "
//
{ """"
//
// c
:
    msg_type , ""it's"" : BodyLength [ ""packet"" ] :
BodyLength ,
    00 : i8i8},	uint8 matchKey@calculatedFrom( ""a\\""
) , } , }
")).
Eval vm_compute in ("<<<M1567>>>" ++ check (runes_of_ascii "
root	packet i8i8 { zchar[ 10] int // `tick` ""quote"" 'q'
,
}
    packet roots {
    tag , char[	7] _x @calculatedFrom(
""packet""// trailing space 
) `a\` , } root
packet float{
Pad
    @lengthOf( Header) , @rightPad
( ) match metadata as
Logon { [ 0123456789
    ,
    7,
0123456789
    , ""CRC32"", ""\n"" ,  00 ,
""1"", 00 ]:
a1,}, int64 pack @calculatedFrom(
""{,}"") ,
} packet _x  {
@leftPad  (' ')Z9_@lengthOf( Z9_ ) ,@rightPad
    ()
A len , }
packet roots{char[1
    ] msg_type `a\`,}
")).
Eval vm_compute in ("<<<T1567>>>" ++ terms [mkTok 34 "root" 2 0 false; mkTok 35 "packet" 2 5 false; mkTok 42 "i8i8" 2 12 false; mkTok 2 "{" 2 17 false; mkTok 14 "zchar[" 2 19 false; mkTok 30 "10" 2 26 false; mkTok 13 "]" 2 28 false; mkTok 42 "int" 2 30 false; mkTok 44 "// `tick` ""quote"" 'q'" 2 34 true; mkTok 40 "," 3 0 false; mkTok 3 "}" 4 0 false; mkTok 35 "packet" 5 4 false; mkTok 42 "roots" 5 11 false; mkTok 2 "{" 5 17 false; mkTok 42 "tag" 6 4 false; mkTok 40 "," 6 8 false; mkTok 12 "char[" 6 10 false; mkTok 30 "7" 6 16 false; mkTok 13 "]" 6 17 false; mkTok 42 "_x" 6 19 false; mkTok 5 "@calculatedFrom(" 6 22 false; mkTok 31 """packet""" 7 0 false; mkTok 44 "// trailing space " 7 8 true; mkTok 6 ")" 8 0 false; mkTok 43 "`a\`" 8 2 false; mkTok 40 "," 8 7 false; mkTok 3 "}" 8 9 false; mkTok 34 "root" 8 11 false; mkTok 35 "packet" 9 0 false; mkTok 42 "float" 9 7 false; mkTok 2 "{" 9 12 false; mkTok 42 "Pad" 10 0 false; mkTok 7 "@lengthOf(" 11 4 false; mkTok 42 "Header" 11 15 false; mkTok 6 ")" 11 21 false; mkTok 40 "," 11 23 false; mkTok 32 "@rightPad" 11 25 false; mkTok 8 "(" 12 0 false; mkTok 6 ")" 12 2 false; mkTok 38 "match" 12 4 false; mkTok 42 "metadata" 12 10 false; mkTok 17 "as" 12 19 false; mkTok 42 "Logon" 13 0 false; mkTok 2 "{" 13 6 false; mkTok 18 "[" 13 8 false; mkTok 30 "0123456789" 13 10 false; mkTok 40 "," 14 4 false; mkTok 30 "7" 15 4 false; mkTok 40 "," 15 5 false; mkTok 30 "0123456789" 16 0 false; mkTok 40 "," 17 4 false; mkTok 31 """CRC32""" 17 6 false; mkTok 40 "," 17 13 false; mkTok 31 """\n""" 17 15 false; mkTok 40 "," 17 20 false; mkTok 30 "00" 17 23 false; mkTok 40 "," 17 26 false; mkTok 31 """1""" 18 0 false; mkTok 40 "," 18 3 false; mkTok 30 "00" 18 5 false; mkTok 13 "]" 18 8 false; mkTok 39 ":" 18 9 false; mkTok 42 "a1" 19 0 false; mkTok 40 "," 19 2 false; mkTok 3 "}" 19 3 false; mkTok 40 "," 19 4 false; mkTok 27 "int64" 19 6 false; mkTok 42 "pack" 19 12 false; mkTok 5 "@calculatedFrom(" 19 17 false; mkTok 31 """{,}""" 20 0 false; mkTok 6 ")" 20 5 false; mkTok 40 "," 20 7 false; mkTok 3 "}" 21 0 false; mkTok 35 "packet" 21 2 false; mkTok 42 "_x" 21 9 false; mkTok 2 "{" 21 13 false; mkTok 32 "@leftPad" 22 0 false; mkTok 8 "(" 22 10 false; mkTok 33 "' '" 22 11 false; mkTok 6 ")" 22 14 false; mkTok 42 "Z9_" 22 15 false; mkTok 7 "@lengthOf(" 22 18 false; mkTok 42 "Z9_" 22 29 false; mkTok 6 ")" 22 33 false; mkTok 40 "," 22 35 false; mkTok 32 "@rightPad" 22 36 false; mkTok 8 "(" 23 4 false; mkTok 6 ")" 23 5 false; mkTok 42 "A" 24 0 false; mkTok 42 "len" 24 2 false; mkTok 40 "," 24 6 false; mkTok 3 "}" 24 8 false; mkTok 35 "packet" 25 0 false; mkTok 42 "roots" 25 7 false; mkTok 2 "{" 25 12 false; mkTok 12 "char[" 25 13 false; mkTok 30 "1" 25 18 false; mkTok 13 "]" 26 4 false; mkTok 42 "msg_type" 26 6 false; mkTok 43 "`a\`" 26 15 false; mkTok 40 "," 26 19 false; mkTok 3 "}" 26 20 false; mkTok 0 "<EOF>" 27 0 false] (mkPacket (mkPtok 34 "root" 2 0 0) (Some (mkPtok 3 "}" 26 20 101)) [(DPacket (mkPacketDef (mkSpan (mkPtok 34 "root" 2 0 0) (mkPtok 3 "}" 4 0 10)) (Some (mkPtok 34 "root" 2 0 0)) (mkPtok 35 "packet" 2 5 1) (mkPtok 42 "i8i8" 2 12 2) (mkPtok 2 "{" 2 17 3) [(mkFieldWithAttr (mkSpan (mkPtok 14 "zchar[" 2 19 4) (mkPtok 40 "," 3 0 9)) [] (MetaField (mkSpan (mkPtok 14 "zchar[" 2 19 4) (mkPtok 40 "," 3 0 9)) None (mkMetaDecl (mkSpan (mkPtok 14 "zchar[" 2 19 4) (mkPtok 40 "," 3 0 9)) (TyFixed (mkSpan (mkPtok 14 "zchar[" 2 19 4) (mkPtok 13 "]" 2 28 6)) (mkFixedString (mkSpan (mkPtok 14 "zchar[" 2 19 4) (mkPtok 13 "]" 2 28 6)) (mkPtok 14 "zchar[" 2 19 4) (mkPtok 30 "10" 2 26 5) (mkPtok 13 "]" 2 28 6))) (mkPtok 42 "int" 2 30 7) None (mkPtok 40 "," 3 0 9))))] (mkPtok 3 "}" 4 0 10))); (DPacket (mkPacketDef (mkSpan (mkPtok 35 "packet" 5 4 11) (mkPtok 3 "}" 8 9 26)) None (mkPtok 35 "packet" 5 4 11) (mkPtok 42 "roots" 5 11 12) (mkPtok 2 "{" 5 17 13) [(mkFieldWithAttr (mkSpan (mkPtok 42 "tag" 6 4 14) (mkPtok 40 "," 6 8 15)) [] (ObjectField (mkSpan (mkPtok 42 "tag" 6 4 14) (mkPtok 40 "," 6 8 15)) None (mkPtok 42 "tag" 6 4 14) None None (mkPtok 40 "," 6 8 15))); (mkFieldWithAttr (mkSpan (mkPtok 12 "char[" 6 10 16) (mkPtok 40 "," 8 7 25)) [] (CheckSumField (mkSpan (mkPtok 12 "char[" 6 10 16) (mkPtok 40 "," 8 7 25)) (mkChecksumFieldDecl (mkSpan (mkPtok 12 "char[" 6 10 16) (mkPtok 40 "," 8 7 25)) (Some (TyFixed (mkSpan (mkPtok 12 "char[" 6 10 16) (mkPtok 13 "]" 6 17 18)) (mkFixedString (mkSpan (mkPtok 12 "char[" 6 10 16) (mkPtok 13 "]" 6 17 18)) (mkPtok 12 "char[" 6 10 16) (mkPtok 30 "7" 6 16 17) (mkPtok 13 "]" 6 17 18)))) (mkPtok 42 "_x" 6 19 19) (mkCalculatedFrom (mkSpan (mkPtok 5 "@calculatedFrom(" 6 22 20) (mkPtok 6 ")" 8 0 23)) (mkPtok 5 "@calculatedFrom(" 6 22 20) (mkPtok 31 """packet""" 7 0 21) (mkPtok 6 ")" 8 0 23)) (Some (mkPtok 43 "`a\`" 8 2 24)) (mkPtok 40 "," 8 7 25))))] (mkPtok 3 "}" 8 9 26))); (DPacket (mkPacketDef (mkSpan (mkPtok 34 "root" 8 11 27) (mkPtok 3 "}" 21 0 72)) (Some (mkPtok 34 "root" 8 11 27)) (mkPtok 35 "packet" 9 0 28) (mkPtok 42 "float" 9 7 29) (mkPtok 2 "{" 9 12 30) [(mkFieldWithAttr (mkSpan (mkPtok 42 "Pad" 10 0 31) (mkPtok 40 "," 11 23 35)) [] (LengthField (mkSpan (mkPtok 42 "Pad" 10 0 31) (mkPtok 40 "," 11 23 35)) (mkLengthFieldDecl (mkSpan (mkPtok 42 "Pad" 10 0 31) (mkPtok 40 "," 11 23 35)) None (mkPtok 42 "Pad" 10 0 31) (mkLengthOf (mkSpan (mkPtok 7 "@lengthOf(" 11 4 32) (mkPtok 6 ")" 11 21 34)) (mkPtok 7 "@lengthOf(" 11 4 32) (mkPtok 42 "Header" 11 15 33) (mkPtok 6 ")" 11 21 34)) None (mkPtok 40 "," 11 23 35)))); (mkFieldWithAttr (mkSpan (mkPtok 32 "@rightPad" 11 25 36) (mkPtok 40 "," 19 4 65)) [(FAPadding (mkSpan (mkPtok 32 "@rightPad" 11 25 36) (mkPtok 6 ")" 12 2 38)) (mkPaddingAttr (mkSpan (mkPtok 32 "@rightPad" 11 25 36) (mkPtok 6 ")" 12 2 38)) (mkPtok 32 "@rightPad" 11 25 36) (mkPtok 8 "(" 12 0 37) None (mkPtok 6 ")" 12 2 38)))] (MatchField (mkSpan (mkPtok 38 "match" 12 4 39) (mkPtok 40 "," 19 4 65)) (mkMatchFieldDecl (mkSpan (mkPtok 38 "match" 12 4 39) (mkPtok 3 "}" 19 3 64)) (mkPtok 38 "match" 12 4 39) (mkPtok 42 "metadata" 12 10 40) (mkPtok 17 "as" 12 19 41) (mkPtok 42 "Logon" 13 0 42) (mkPtok 2 "{" 13 6 43) [(mkMatchPair (mkSpan (mkPtok 18 "[" 13 8 44) (mkPtok 40 "," 19 2 63)) (MKList (mkKeyList (mkSpan (mkPtok 18 "[" 13 8 44) (mkPtok 13 "]" 18 8 60)) (mkPtok 18 "[" 13 8 44) (mkPtok 30 "0123456789" 13 10 45) [((mkPtok 40 "," 14 4 46), (mkPtok 30 "7" 15 4 47)); ((mkPtok 40 "," 15 5 48), (mkPtok 30 "0123456789" 16 0 49)); ((mkPtok 40 "," 17 4 50), (mkPtok 31 """CRC32""" 17 6 51)); ((mkPtok 40 "," 17 13 52), (mkPtok 31 """\n""" 17 15 53)); ((mkPtok 40 "," 17 20 54), (mkPtok 30 "00" 17 23 55)); ((mkPtok 40 "," 17 26 56), (mkPtok 31 """1""" 18 0 57)); ((mkPtok 40 "," 18 3 58), (mkPtok 30 "00" 18 5 59))] (mkPtok 13 "]" 18 8 60))) (mkPtok 39 ":" 18 9 61) (mkPtok 42 "a1" 19 0 62) (Some (mkPtok 40 "," 19 2 63)))] (mkPtok 3 "}" 19 3 64)) (mkPtok 40 "," 19 4 65))); (mkFieldWithAttr (mkSpan (mkPtok 27 "int64" 19 6 66) (mkPtok 40 "," 20 7 71)) [] (CheckSumField (mkSpan (mkPtok 27 "int64" 19 6 66) (mkPtok 40 "," 20 7 71)) (mkChecksumFieldDecl (mkSpan (mkPtok 27 "int64" 19 6 66) (mkPtok 40 "," 20 7 71)) (Some (TyBasic (mkSpan (mkPtok 27 "int64" 19 6 66) (mkPtok 27 "int64" 19 6 66)) (mkBasicType (mkSpan (mkPtok 27 "int64" 19 6 66) (mkPtok 27 "int64" 19 6 66)) (mkPtok 27 "int64" 19 6 66)))) (mkPtok 42 "pack" 19 12 67) (mkCalculatedFrom (mkSpan (mkPtok 5 "@calculatedFrom(" 19 17 68) (mkPtok 6 ")" 20 5 70)) (mkPtok 5 "@calculatedFrom(" 19 17 68) (mkPtok 31 """{,}""" 20 0 69) (mkPtok 6 ")" 20 5 70)) None (mkPtok 40 "," 20 7 71))))] (mkPtok 3 "}" 21 0 72))); (DPacket (mkPacketDef (mkSpan (mkPtok 35 "packet" 21 2 73) (mkPtok 3 "}" 24 8 91)) None (mkPtok 35 "packet" 21 2 73) (mkPtok 42 "_x" 21 9 74) (mkPtok 2 "{" 21 13 75) [(mkFieldWithAttr (mkSpan (mkPtok 32 "@leftPad" 22 0 76) (mkPtok 40 "," 22 35 84)) [(FAPadding (mkSpan (mkPtok 32 "@leftPad" 22 0 76) (mkPtok 6 ")" 22 14 79)) (mkPaddingAttr (mkSpan (mkPtok 32 "@leftPad" 22 0 76) (mkPtok 6 ")" 22 14 79)) (mkPtok 32 "@leftPad" 22 0 76) (mkPtok 8 "(" 22 10 77) (Some (mkPtok 33 "' '" 22 11 78)) (mkPtok 6 ")" 22 14 79)))] (LengthField (mkSpan (mkPtok 42 "Z9_" 22 15 80) (mkPtok 40 "," 22 35 84)) (mkLengthFieldDecl (mkSpan (mkPtok 42 "Z9_" 22 15 80) (mkPtok 40 "," 22 35 84)) None (mkPtok 42 "Z9_" 22 15 80) (mkLengthOf (mkSpan (mkPtok 7 "@lengthOf(" 22 18 81) (mkPtok 6 ")" 22 33 83)) (mkPtok 7 "@lengthOf(" 22 18 81) (mkPtok 42 "Z9_" 22 29 82) (mkPtok 6 ")" 22 33 83)) None (mkPtok 40 "," 22 35 84)))); (mkFieldWithAttr (mkSpan (mkPtok 32 "@rightPad" 22 36 85) (mkPtok 40 "," 24 6 90)) [(FAPadding (mkSpan (mkPtok 32 "@rightPad" 22 36 85) (mkPtok 6 ")" 23 5 87)) (mkPaddingAttr (mkSpan (mkPtok 32 "@rightPad" 22 36 85) (mkPtok 6 ")" 23 5 87)) (mkPtok 32 "@rightPad" 22 36 85) (mkPtok 8 "(" 23 4 86) None (mkPtok 6 ")" 23 5 87)))] (ObjectField (mkSpan (mkPtok 42 "A" 24 0 88) (mkPtok 40 "," 24 6 90)) None (mkPtok 42 "A" 24 0 88) (Some (mkPtok 42 "len" 24 2 89)) None (mkPtok 40 "," 24 6 90)))] (mkPtok 3 "}" 24 8 91))); (DPacket (mkPacketDef (mkSpan (mkPtok 35 "packet" 25 0 92) (mkPtok 3 "}" 26 20 101)) None (mkPtok 35 "packet" 25 0 92) (mkPtok 42 "roots" 25 7 93) (mkPtok 2 "{" 25 12 94) [(mkFieldWithAttr (mkSpan (mkPtok 12 "char[" 25 13 95) (mkPtok 40 "," 26 19 100)) [] (MetaField (mkSpan (mkPtok 12 "char[" 25 13 95) (mkPtok 40 "," 26 19 100)) None (mkMetaDecl (mkSpan (mkPtok 12 "char[" 25 13 95) (mkPtok 40 "," 26 19 100)) (TyFixed (mkSpan (mkPtok 12 "char[" 25 13 95) (mkPtok 13 "]" 26 4 97)) (mkFixedString (mkSpan (mkPtok 12 "char[" 25 13 95) (mkPtok 13 "]" 26 4 97)) (mkPtok 12 "char[" 25 13 95) (mkPtok 30 "1" 25 18 96) (mkPtok 13 "]" 26 4 97))) (mkPtok 42 "msg_type" 26 6 98) (Some (mkPtok 43 "`a\`" 26 15 99)) (mkPtok 40 "," 26 19 100))))] (mkPtok 3 "}" 26 20 101)))])).
Eval vm_compute in ("<<<M1599>>>" ++ check (runes_of_ascii "packet
body { @tag( 3 )
u64 len // a // b
, } packet
    msg_type{ }")).
Eval vm_compute in ("<<<M1631>>>" ++ check (runes_of_ascii "options
    //x
    {len =
true ; a1 //	t
= // @lengthOf(
false ; a1 = 00 ;
    // a // b
    } MetaData u128 {	} root packet x_y_z  {  @tag( 1 )  i64_ @lengthOf( Pad)
    ,	@lengthOf( _x
) char[
    4294967296 ]charz , //x
u128 string_ `u8 x,`, @tag( 10) Pad @lengthOf(
    // trailing space 
    crc  )
`line1
line2`, repeat	string_ u128
`
` , }
// " ++ [128512]%N ++ runes_of_ascii " emoji
")).
Eval vm_compute in ("<<<M1663>>>" ++ check (runes_of_ascii " /// triple")).
Eval vm_compute in ("<<<M1695>>>" ++ check (runes_of_ascii "options { stringy =
    true ; } MetaData repeatCount { char[] x_y_z ,char stringy , }")).
Eval vm_compute in ("<<<M1727>>>" ++ check (runes_of_ascii "root packet Packet  { } MetaData u128 { uint8x BodyLength , char[ 65535 ]
    i64_ `
`, } packet trueish //
{f64  u128 ,
    //x
    a1 uint8x ,@calculatedFrom( """")
// " ++ [128512]%N ++ runes_of_ascii " emoji
// a // b
u64 Pad,rootA
    {	repeatCount  {int /// triple
@lengthOf( tag
    ) ,} , }
/// triple
// c
,
    // " ++ [27880; 37322]%N ++ runes_of_ascii "
    @calculatedFrom( ""`tick`""
    ) repeat charz msg_type//x
`" ++ [233]%N ++ runes_of_ascii "` , matchKey uint8x ,repeat u64 calculatedFrom  ,x_y_z matchKey ,	stringy @calculatedFrom(""a\""b""// trailing space 
) , @rightPad// packet A { u8 x, }
( '0' ) repeat
o {
match body as
    A { ""abc"":Header	, } , } ,
}
// a // b
")).
Eval vm_compute in ("<<<M1759>>>" ++ check (runes_of_ascii "options
    { a1 =
char ; }
// `tick` ""quote"" 'q'
")).
Eval vm_compute in ("<<<M1791>>>" ++ check (runes_of_ascii "root
    packet u{ roots
falsey , @calculatedFrom( ""1"")
repeat i8 i64_`tab	here` , // " ++ [27880; 37322]%N ++ runes_of_ascii "
@leftPad (
    // packet A { u8 x, }
    '\x00' ) body
`doc` ,  @leftPad ( )@tag(00 )
@lengthOf(repeatCount )match
Packet	as	u128{
//x
//
[ 4294967296, """ ++ [128512]%N ++ runes_of_ascii """ ,""\" ++ [233]%N ++ runes_of_ascii """
    , """ ++ [233]%N ++ runes_of_ascii "t" ++ [233]%N ++ runes_of_ascii """ // a // b
, // @lengthOf(
1 ]	: crc , } ,
    }
")).
Eval vm_compute in ("<<<T1791>>>" ++ terms [mkTok 34 "root" 1 0 false; mkTok 35 "packet" 2 4 false; mkTok 42 "u" 2 11 false; mkTok 2 "{" 2 12 false; mkTok 42 "roots" 2 14 false; mkTok 42 "falsey" 3 0 false; mkTok 40 "," 3 7 false; mkTok 5 "@calculatedFrom(" 3 9 false; mkTok 31 """1""" 3 26 false; mkTok 6 ")" 3 29 false; mkTok 36 "repeat" 4 0 false; mkTok 24 "i8" 4 7 false; mkTok 42 "i64_" 4 10 false; mkTok 43 (string_of_bytes [96; 116; 97; 98; 9; 104; 101; 114; 101; 96]%N) 4 14 false; mkTok 40 "," 4 25 false; mkTok 44 (string_of_bytes [47; 47; 32; 230; 179; 168; 233; 135; 138]%N) 4 27 true; mkTok 32 "@leftPad" 5 0 false; mkTok 8 "(" 5 9 false; mkTok 44 "// packet A { u8 x, }" 6 4 true; mkTok 33 "'\x00'" 7 4 false; mkTok 6 ")" 7 11 false; mkTok 42 "body" 7 13 false; mkTok 43 "`doc`" 8 0 false; mkTok 40 "," 8 6 false; mkTok 32 "@leftPad" 8 9 false; mkTok 8 "(" 8 18 false; mkTok 6 ")" 8 20 false; mkTok 9 "@tag(" 8 21 false; mkTok 30 "00" 8 26 false; mkTok 6 ")" 8 29 false; mkTok 7 "@lengthOf(" 9 0 false; mkTok 42 "repeatCount" 9 10 false; mkTok 6 ")" 9 22 false; mkTok 38 "match" 9 23 false; mkTok 42 "Packet" 10 0 false; mkTok 17 "as" 10 7 false; mkTok 42 "u128" 10 10 false; mkTok 2 "{" 10 14 false; mkTok 44 "//x" 11 0 true; mkTok 44 "//" 12 0 true; mkTok 18 "[" 13 0 false; mkTok 30 "4294967296" 13 2 false; mkTok 40 "," 13 12 false; mkTok 31 (string_of_bytes [34; 240; 159; 152; 128; 34]%N) 13 14 false; mkTok 40 "," 13 18 false; mkTok 31 (string_of_bytes [34; 92; 195; 169; 34]%N) 13 19 false; mkTok 40 "," 14 4 false; mkTok 31 (string_of_bytes [34; 195; 169; 116; 195; 169; 34]%N) 14 6 false; mkTok 44 "// a // b" 14 12 true; mkTok 40 "," 15 0 false; mkTok 44 "// @lengthOf(" 15 2 true; mkTok 30 "1" 16 0 false; mkTok 13 "]" 16 2 false; mkTok 39 ":" 16 4 false; mkTok 42 "crc" 16 6 false; mkTok 40 "," 16 10 false; mkTok 3 "}" 16 12 false; mkTok 40 "," 16 14 false; mkTok 3 "}" 17 4 false; mkTok 0 "<EOF>" 18 0 false] (mkPacket (mkPtok 34 "root" 1 0 0) (Some (mkPtok 3 "}" 17 4 58)) [(DPacket (mkPacketDef (mkSpan (mkPtok 34 "root" 1 0 0) (mkPtok 3 "}" 17 4 58)) (Some (mkPtok 34 "root" 1 0 0)) (mkPtok 35 "packet" 2 4 1) (mkPtok 42 "u" 2 11 2) (mkPtok 2 "{" 2 12 3) [(mkFieldWithAttr (mkSpan (mkPtok 42 "roots" 2 14 4) (mkPtok 40 "," 3 7 6)) [] (ObjectField (mkSpan (mkPtok 42 "roots" 2 14 4) (mkPtok 40 "," 3 7 6)) None (mkPtok 42 "roots" 2 14 4) (Some (mkPtok 42 "falsey" 3 0 5)) None (mkPtok 40 "," 3 7 6))); (mkFieldWithAttr (mkSpan (mkPtok 5 "@calculatedFrom(" 3 9 7) (mkPtok 40 "," 4 25 14)) [(FACalculatedFrom (mkSpan (mkPtok 5 "@calculatedFrom(" 3 9 7) (mkPtok 6 ")" 3 29 9)) (mkCalculatedFrom (mkSpan (mkPtok 5 "@calculatedFrom(" 3 9 7) (mkPtok 6 ")" 3 29 9)) (mkPtok 5 "@calculatedFrom(" 3 9 7) (mkPtok 31 """1""" 3 26 8) (mkPtok 6 ")" 3 29 9)))] (MetaField (mkSpan (mkPtok 36 "repeat" 4 0 10) (mkPtok 40 "," 4 25 14)) (Some (mkPtok 36 "repeat" 4 0 10)) (mkMetaDecl (mkSpan (mkPtok 24 "i8" 4 7 11) (mkPtok 40 "," 4 25 14)) (TyBasic (mkSpan (mkPtok 24 "i8" 4 7 11) (mkPtok 24 "i8" 4 7 11)) (mkBasicType (mkSpan (mkPtok 24 "i8" 4 7 11) (mkPtok 24 "i8" 4 7 11)) (mkPtok 24 "i8" 4 7 11))) (mkPtok 42 "i64_" 4 10 12) (Some (mkPtok 43 (string_of_bytes [96; 116; 97; 98; 9; 104; 101; 114; 101; 96]%N) 4 14 13)) (mkPtok 40 "," 4 25 14)))); (mkFieldWithAttr (mkSpan (mkPtok 32 "@leftPad" 5 0 16) (mkPtok 40 "," 8 6 23)) [(FAPadding (mkSpan (mkPtok 32 "@leftPad" 5 0 16) (mkPtok 6 ")" 7 11 20)) (mkPaddingAttr (mkSpan (mkPtok 32 "@leftPad" 5 0 16) (mkPtok 6 ")" 7 11 20)) (mkPtok 32 "@leftPad" 5 0 16) (mkPtok 8 "(" 5 9 17) (Some (mkPtok 33 "'\x00'" 7 4 19)) (mkPtok 6 ")" 7 11 20)))] (ObjectField (mkSpan (mkPtok 42 "body" 7 13 21) (mkPtok 40 "," 8 6 23)) None (mkPtok 42 "body" 7 13 21) None (Some (mkPtok 43 "`doc`" 8 0 22)) (mkPtok 40 "," 8 6 23))); (mkFieldWithAttr (mkSpan (mkPtok 32 "@leftPad" 8 9 24) (mkPtok 40 "," 16 14 57)) [(FAPadding (mkSpan (mkPtok 32 "@leftPad" 8 9 24) (mkPtok 6 ")" 8 20 26)) (mkPaddingAttr (mkSpan (mkPtok 32 "@leftPad" 8 9 24) (mkPtok 6 ")" 8 20 26)) (mkPtok 32 "@leftPad" 8 9 24) (mkPtok 8 "(" 8 18 25) None (mkPtok 6 ")" 8 20 26))); (FATag (mkSpan (mkPtok 9 "@tag(" 8 21 27) (mkPtok 6 ")" 8 29 29)) (mkTagAttr (mkSpan (mkPtok 9 "@tag(" 8 21 27) (mkPtok 6 ")" 8 29 29)) (mkPtok 9 "@tag(" 8 21 27) (mkPtok 30 "00" 8 26 28) (mkPtok 6 ")" 8 29 29))); (FALengthOf (mkSpan (mkPtok 7 "@lengthOf(" 9 0 30) (mkPtok 6 ")" 9 22 32)) (mkLengthOf (mkSpan (mkPtok 7 "@lengthOf(" 9 0 30) (mkPtok 6 ")" 9 22 32)) (mkPtok 7 "@lengthOf(" 9 0 30) (mkPtok 42 "repeatCount" 9 10 31) (mkPtok 6 ")" 9 22 32)))] (MatchField (mkSpan (mkPtok 38 "match" 9 23 33) (mkPtok 40 "," 16 14 57)) (mkMatchFieldDecl (mkSpan (mkPtok 38 "match" 9 23 33) (mkPtok 3 "}" 16 12 56)) (mkPtok 38 "match" 9 23 33) (mkPtok 42 "Packet" 10 0 34) (mkPtok 17 "as" 10 7 35) (mkPtok 42 "u128" 10 10 36) (mkPtok 2 "{" 10 14 37) [(mkMatchPair (mkSpan (mkPtok 18 "[" 13 0 40) (mkPtok 40 "," 16 10 55)) (MKList (mkKeyList (mkSpan (mkPtok 18 "[" 13 0 40) (mkPtok 13 "]" 16 2 52)) (mkPtok 18 "[" 13 0 40) (mkPtok 30 "4294967296" 13 2 41) [((mkPtok 40 "," 13 12 42), (mkPtok 31 (string_of_bytes [34; 240; 159; 152; 128; 34]%N) 13 14 43)); ((mkPtok 40 "," 13 18 44), (mkPtok 31 (string_of_bytes [34; 92; 195; 169; 34]%N) 13 19 45)); ((mkPtok 40 "," 14 4 46), (mkPtok 31 (string_of_bytes [34; 195; 169; 116; 195; 169; 34]%N) 14 6 47)); ((mkPtok 40 "," 15 0 49), (mkPtok 30 "1" 16 0 51))] (mkPtok 13 "]" 16 2 52))) (mkPtok 39 ":" 16 4 53) (mkPtok 42 "crc" 16 6 54) (Some (mkPtok 40 "," 16 10 55)))] (mkPtok 3 "}" 16 12 56)) (mkPtok 40 "," 16 14 57)))] (mkPtok 3 "}" 17 4 58)))])).
Eval vm_compute in ("<<<M1823>>>" ++ check (runes_of_ascii "MetaData
    BodyLength
    //	t
    { len	rootA
,
    //	t
    } options	{ string_ =0 ; }
// trailing space 
")).
Eval vm_compute in ("<<<M1855>>>" ++ check (runes_of_ascii "// `tick` ""quote"" 'q'
packet T {	}
")).
Eval vm_compute in ("<<<M1887>>>" ++ check (runes_of_ascii "packet // packet A { u8 x, }
u128	{	@tag(10 )
string _x @calculatedFrom( """ ++ [233]%N ++ runes_of_ascii "t" ++ [233]%N ++ runes_of_ascii """ )
,char[ 3 ]
    // `tick` ""quote"" 'q'
    x_y_z@calculatedFrom( // " ++ [128512]%N ++ runes_of_ascii " emoji
""it's"" //
) , } root packet  A {
    match
    // c
    len
as Packet
{""" ++ [28040; 24687]%N ++ runes_of_ascii """ // a // b
: i8i8 ,[
    4294967296 ]
:
charz
    ,// " ++ [128512]%N ++ runes_of_ascii " emoji
}
    ,
    // " ++ [128512]%N ++ runes_of_ascii " emoji
    }  root
    packet trueish { i16 Packet @calculatedFrom( """ ++ [233]%N ++ runes_of_ascii "t" ++ [233]%N ++ runes_of_ascii """ //x
) `a\`
, @rightPad //	t
('0'  )
Logon { // packet A { u8 x, }
match msg_type as Packet { [ ""abc""
// trailing space 
// packet A { u8 x, }
]: MetaDataX ,
[ ""a\\""  ,
""a	b"" ] : x , 65535 ://
f32a,
    } ,zchar[  00 ]
rootA
@lengthOf( Foo)
, repeat u8x // " ++ [128512]%N ++ runes_of_ascii " emoji
,
}
//
/// triple
, @calculatedFrom(
// a // b
// @lengthOf(
""a	b""
)	match
MetaDataX//
as int	{ """ ++ [28040; 24687]%N ++ runes_of_ascii """ :
int,  1:
    T [""\n"" , ""packet""	,4294967296,4294967296
    // packet A { u8 x, }
    , """"
    , ""abc"" ] :
    Packet,[ ""\" ++ [233]%N ++ runes_of_ascii """	, 3, 007 ] : Logon , } , int@calculatedFrom( ""it's"" )  , }
")).
Eval vm_compute in ("<<<M1919>>>" ++ check (runes_of_ascii "// " ++ [128512]%N ++ runes_of_ascii " emoji
options // " ++ [27880; 37322]%N ++ runes_of_ascii "
{}
")).
Eval vm_compute in ("<<<M1951>>>" ++ check (runes_of_ascii "root packet A {repeat u8 u, // " ++ [128512]%N ++ runes_of_ascii " emoji
} root packet matchKey {char[] Pad @lengthOf( // " ++ [27880; 37322]%N ++ runes_of_ascii "
a1 ) , }")).
Eval vm_compute in ("<<<M1983>>>" ++ check (runes_of_ascii "root packet
Header {@calculatedFrom(""a\\"" )
match	calculatedFrom as  pack {00 : string_
} , tag matchKey , }")).
Eval vm_compute in ("<<<M2015>>>" ++ check (runes_of_ascii "options{ { i64_ = string ; trueish =
    '\x00'
    leftPad = ""a\\"" /// triple
; crc
    = 255; uint8x
=
""abc""
    ;}")).
Eval vm_compute in ("<<<M2047>>>" ++ check (runes_of_ascii "options{ i64_ = string ; trueish true
    '\x00'
    leftPad = ""a\\"" /// triple
; crc
    = 255; uint8x
=
""abc""
    ;}")).
Eval vm_compute in ("<<<M2079>>>" ++ check (runes_of_ascii "options{ i64_ = string ; trueish =
    '\x00'
    leftPad = ""a\\"" /// triple
; crc
     255; uint8x
=
""abc""
    ;}")).
Eval vm_compute in ("<<<M2111>>>" ++ check (runes_of_ascii "options{ i64_ = string ; trueish =
    '\x00'
    leftPad = ""a\\"" /// triple
; crc
    = 255; uint8x
=
""abc""
    };")).
Eval vm_compute in ("<<<M2143>>>" ++ check (runes_of_ascii "  '0'
asx
{
/// triple
// @lengthOf(
u32 stringy
`" ++ [28040; 24687; 31867; 22411]%N ++ runes_of_ascii "` ,} MetaData
    A {string  _x, zchar Header `a\`
// @lengthOf(
// packet A { u8 x, }
, char[] MetaDataX
,zchar[ 1 ]
    matchKey
    , char[] //
u,	char[0123456789 ]
    matchKey
    `{ , }`, }
")).
Eval vm_compute in ("<<<M2175>>>" ++ check (runes_of_ascii "  packet
asx
{
/// triple
// @lengthOf(
u32 stringy
`" ++ [28040; 24687; 31867; 22411]%N ++ runes_of_ascii "` , MetaData
    A {string  _x, zchar Header `a\`
// @lengthOf(
// packet A { u8 x, }
, char[] MetaDataX
,zchar[ 1 ]
    matchKey
    , char[] //
u,	char[0123456789 ]
    matchKey
    `{ , }`, }
")).
Eval vm_compute in ("<<<M2207>>>" ++ check (runes_of_ascii "  packet
asx
{
/// triple
// @lengthOf(
u32 stringy
`" ++ [28040; 24687; 31867; 22411]%N ++ runes_of_ascii "` ,} MetaData
    A {string  _x zchar , Header `a\`
// @lengthOf(
// packet A { u8 x, }
, char[] MetaDataX
,zchar[ 1 ]
    matchKey
    , char[] //
u,	char[0123456789 ]
    matchKey
    `{ , }`, }
")).
Eval vm_compute in ("<<<M2239>>>" ++ check (runes_of_ascii "  packet
asx
{
/// triple
// @lengthOf(
u32 stringy
`" ++ [28040; 24687; 31867; 22411]%N ++ runes_of_ascii "` ,} MetaData
    A {string  _x, zchar Header `a\`
// @lengthOf(
// packet A { u8 x, }
, char[]")).
Eval vm_compute in ("<<<M2271>>>" ++ check (runes_of_ascii "  packet
asx
{
/// triple
// @lengthOf(
u32 stringy
`" ++ [28040; 24687; 31867; 22411]%N ++ runes_of_ascii "` ,} MetaData
    A {string  _x, zchar Header `a\`
// @lengthOf(
// packet A { u8 x, }
, char[] MetaDataX
,zchar[ 1 ]
    matchKey
    , char[] char[] //
u,	char[0123456789 ]
    matchKey
    `{ , }`, }
")).
Eval vm_compute in ("<<<M2303>>>" ++ check (runes_of_ascii "  packet
asx
{
/// triple
// @lengthOf(
u32 stringy
`" ++ [28040; 24687; 31867; 22411]%N ++ runes_of_ascii "` ,} MetaData
    A {string  _x, zchar Header `a\`
// @lengthOf(
// packet A { u8 x, }
, char[] MetaDataX
,zchar[ 1 ]
    matchKey
    , char[] //
u,	char[0123456789 ]
    ]
    `{ , }`, }
")).
Eval vm_compute in ("<<<M2335>>>" ++ check (runes_of_ascii "  packet
asx
{
/// triple
// @lengthOf(
u32 stringy
`" ++ [28040; 24687; 31867; 22411]%N ++ runes_of_ascii "` ,} MetaData
    A {string  _x, zchar H" ++ [65279]%N ++ runes_of_ascii "eader `a\`
// @lengthOf(
// packet A { u8 x, }
, char[] MetaDataX
,zchar[ 1 ]
    matchKey
    , char[] //
u,	char[0123456789 ]
    matchKey
    `{ , }`, }
")).
Eval vm_compute in ("<<<M2367>>>" ++ check (runes_of_ascii "root
    packet
Packet
{ // trailing space 
matchKey `tab	here` `tab	here` ,}")).
Eval vm_compute in ("<<<M2399>>>" ++ check (runes_of_ascii "root
    packet
" ++ [252]%N ++ runes_of_ascii "ber
{ // trailing space 
matchKey `tab	here` ,}")).
Eval vm_compute in ("<<<M2431>>>" ++ check (runes_of_ascii "options{ falsey // a // b
=
    '0'")).
Eval vm_compute in ("<<<M2463>>>" ++ check (runes_of_ascii "options{ falsey // a // b
=
    '0' } options { repeatCount =
true ; string_ string_// a // b
=
// c
// " ++ [27880; 37322]%N ++ runes_of_ascii "
int64
// trailing space 
/// triple
; } // @lengthOf(")).
Eval vm_compute in ("<<<M2495>>>" ++ check (runes_of_ascii "options{ falsey // a // b
=
    " ++ [127]%N ++ runes_of_ascii "'0' } options { repeatCount =
true ; string_// a // b
=
// c
// " ++ [27880; 37322]%N ++ runes_of_ascii "
int64
// trailing space 
/// triple
; } // @lengthOf(")).
Eval vm_compute in ("<<<M2527>>>" ++ check (runes_of_ascii "options{}")).
Eval vm_compute in ("<<<M2559>>>" ++ check (runes_of_ascii "options{}root packet
metadata {
@lengthOf(x ) float32 float32
body ``, }
    MetaData
Z9_
    {
    string string_ , Logon x
,
uint32
    // packet A { u8 x, }
    Z9_,asx
_x
    `tab	here` , }
")).
Eval vm_compute in ("<<<M2591>>>" ++ check (runes_of_ascii "options{}root packet
metadata {
@lengthOf(x ) float32
body ``, }
    MetaData
)
    {
    string string_ , Logon x
,
uint32
    // packet A { u8 x, }
    Z9_,asx
_x
    `tab	here` , }
")).
Eval vm_compute in ("<<<M2623>>>" ++ check (runes_of_ascii "options{}root packet
metadata {
@lengthOf(x ) float32
body ``, }
    MetaData
Z9_
    {
    string string_ , Logon x

uint32
    // packet A { u8 x, }
    Z9_,asx
_x
    `tab	here` , }
")).
Eval vm_compute in ("<<<M2655>>>" ++ check (runes_of_ascii "options{}root packet
metadata {
@lengthOf(x ) float32
body ``, }
    MetaData
Z9_
    {
    string string_ , Logon x
,
uint32
    // packet A { u8 x, }
    Z9_,asx
_x
    , `tab	here` }
")).
Eval vm_compute in ("<<<M2687>>>" ++ check (runes_of_ascii "options{}root packet
metadata {
@lengthOf(x ) float32
body ``, }
    MetaData
caf" ++ [233]%N ++ runes_of_ascii "_1
    {
    string string_ , Logon x
,
uint32
    // packet A { u8 x, }
    Z9_,asx
_x
    `tab	here` , }
")).
Eval vm_compute in ("<<<M2719>>>" ++ check (runes_of_ascii "options {
    falsey=
""a\\"" ; ")).
Eval vm_compute in ("<<<M2751>>>" ++ check (runes_of_ascii "MetaData f32a f32a
{
    //	t
    }root
    packet tag  {
}
")).
Eval vm_compute in ("<<<M2783>>>" ++ check (runes_of_ascii "MetaData f32a
{
    //	t
    }root
    packet tag  ""// no comment""
}
")).
Eval vm_compute in ("<<<M2815>>>" ++ check (runes_of_ascii "
")).
Eval vm_compute in ("<<<T2815>>>" ++ terms [mkTok 0 "<EOF>" 2 0 false] (mkPacket (mkPtok 0 "<EOF>" 2 0 0) None [])).
Eval vm_compute in ("<<<M2847>>>" ++ check (runes_of_ascii "
options
    {msg_type =
    float32  }root
packet packet Z9_{ char /// triple
crc @lengthOf(
options1 ) //
,} MetaData a1{}
")).
Eval vm_compute in ("<<<M2879>>>" ++ check (runes_of_ascii "
options
    {msg_type =
    float32  }root
packet Z9_{ char /// triple
crc @lengthOf(
zchar[ ) //
,} MetaData a1{}
")).
Eval vm_compute in ("<<<M2911>>>" ++ check (runes_of_ascii "
options
    {msg_type =
    float32  }root
packet Z9_{ char /// triple
crc @lengthOf(
options1 ) //
,} MetaData a1{
")).
Eval vm_compute in ("<<<M2943>>>" ++ check (runes_of_ascii "packet crc crc{ // " ++ [128512]%N ++ runes_of_ascii " emoji
repeat string i8i8
`a\`, }
")).
Eval vm_compute in ("<<<M2975>>>" ++ check (runes_of_ascii "packet crc{ // " ++ [128512]%N ++ runes_of_ascii " emoji
repeat string i8i8
`a\`uint16 }
")).
Eval vm_compute in ("<<<M3007>>>" ++ check (@nil rune)).
Eval vm_compute in ("<<<M3039>>>" ++ check (runes_of_ascii "packet BodyLength {} MetaData zchar{ zchar[ zchar[// @lengthOf(
42 ]
    pack , string_
A , char[]crc , _x trueish ,
// " ++ [27880; 37322]%N ++ runes_of_ascii "
// " ++ [128512]%N ++ runes_of_ascii " emoji
zchar[
    3 ]	T // trailing space 
, } packet body
{
    }
")).
Eval vm_compute in ("<<<M3071>>>" ++ check (runes_of_ascii "packet BodyLength {} MetaData zchar{ zchar[// @lengthOf(
42 ]
    pack , string_
; , char[]crc , _x trueish ,
// " ++ [27880; 37322]%N ++ runes_of_ascii "
// " ++ [128512]%N ++ runes_of_ascii " emoji
zchar[
    3 ]	T // trailing space 
, } packet body
{
    }
")).
Eval vm_compute in ("<<<M3103>>>" ++ check (runes_of_ascii "packet BodyLength {} MetaData zchar{ zchar[// @lengthOf(
42 ]
    pack , string_
A , char[]crc , _x trueish 
// " ++ [27880; 37322]%N ++ runes_of_ascii "
// " ++ [128512]%N ++ runes_of_ascii " emoji
zchar[
    3 ]	T // trailing space 
, } packet body
{
    }
")).
Eval vm_compute in ("<<<M3135>>>" ++ check (runes_of_ascii "packet BodyLength {} MetaData zchar{ zchar[// @lengthOf(
42 ]
    pack , string_
A , char[]crc , _x trueish ,
// " ++ [27880; 37322]%N ++ runes_of_ascii "
// " ++ [128512]%N ++ runes_of_ascii " emoji
zchar[
    3 ]	T // trailing space 
, packet } body
{
    }
")).
Eval vm_compute in ("<<<M3167>>>" ++ check (runes_of_ascii "packet BodyLength {} MetaData zchar{ zchar[// @le<ngthOf(
42 ]
    pack , string_
A , char[]crc , _x trueish ,
// " ++ [27880; 37322]%N ++ runes_of_ascii "
// " ++ [128512]%N ++ runes_of_ascii " emoji
zchar[
    3 ]	T // trailing space 
, } packet body
{
    }
")).
Eval vm_compute in ("<<<M3199>>>" ++ check (runes_of_ascii "packet
string_ {@lengthOf(  ) match packetx as f32a {
    1 :	calculatedFrom , }  ,
    } packet len
    //	t
    { @calculatedFrom( """ ++ [233]%N ++ runes_of_ascii "t" ++ [233]%N ++ runes_of_ascii """ ) body Header , char[] lengthOf  `two words` ,chars{repeat string_ matchKey ,
    } ,
    }
")).
Eval vm_compute in ("<<<M3231>>>" ++ check (runes_of_ascii "packet
string_ {@lengthOf( int ) match packetx as f32a 1
    { :	calculatedFrom , }  ,
    } packet len
    //	t
    { @calculatedFrom( """ ++ [233]%N ++ runes_of_ascii "t" ++ [233]%N ++ runes_of_ascii """ ) body Header , char[] lengthOf  `two words` ,chars{repeat string_ matchKey ,
    } ,
    }
")).
Eval vm_compute in ("<<<M3263>>>" ++ check (runes_of_ascii "packet
string_ {@lengthOf( int ) match packetx as f32a {
    1 :	calculatedFrom , }")).
Eval vm_compute in ("<<<M3295>>>" ++ check (runes_of_ascii "packet
string_ {@lengthOf( int ) match packetx as f32a {
    1 :	calculatedFrom , }  ,
    } packet len
    //	t
    { @calculatedFrom( """ ++ [233]%N ++ runes_of_ascii "t" ++ [233]%N ++ runes_of_ascii """ ) ) body Header , char[] lengthOf  `two words` ,chars{repeat string_ matchKey ,
    } ,
    }
")).
Eval vm_compute in ("<<<M3327>>>" ++ check (runes_of_ascii "packet
string_ {@lengthOf( int ) match packetx as f32a {
    1 :	calculatedFrom , }  ,
    } packet len
    //	t
    { @calculatedFrom( """ ++ [233]%N ++ runes_of_ascii "t" ++ [233]%N ++ runes_of_ascii """ ) body Header , char[] lengthOf  match ,chars{repeat string_ matchKey ,
    } ,
    }
")).
Eval vm_compute in ("<<<M3359>>>" ++ check (runes_of_ascii "packet
string_ {@lengthOf( int ) match packetx as f32a {
    1 :	calculatedFrom , }  ,
    } packet len
    //	t
    { @calculatedFrom( """ ++ [233]%N ++ runes_of_ascii "t" ++ [233]%N ++ runes_of_ascii """ ) body Header , char[] lengthOf  `two words` ,chars{repeat string_ matchKey 
    } ,
    }
")).
Eval vm_compute in ("<<<M3391>>>" ++ check (runes_of_ascii "packet
string_ {@lengthOf( int ) match 'packetx as f32a {
    1 :	calculatedFrom , }  ,
    } packet len
    //	t
    { @calculatedFrom( """ ++ [233]%N ++ runes_of_ascii "t" ++ [233]%N ++ runes_of_ascii """ ) body Header , char[] lengthOf  `two words` ,chars{repeat string_ matchKey ,
    } ,
    }
")).
Eval vm_compute in ("<<<M3423>>>" ++ check (runes_of_ascii "/// triple
root
packet // packet A { u8 x, }
chars { @lengthOf(charz )
stringy,  @tag(  0 ) // a // b
asx
    As
, ,
// trailing space 
// trailing space 
x_y_z {
repeat i16 charz , } ,	int16  crc ,}
")).
Eval vm_compute in ("<<<M3455>>>" ++ check (runes_of_ascii "/// triple
root
packet // packet A { u8 x, }
chars { @lengthOf(charz )
stringy,  @tag(  0 ) // a // b
asx
    As
,
// trailing space 
// trailing space 
x_y_z {
repeat i16  , } ,	int16  crc ,}
")).
Eval vm_compute in ("<<<M3487>>>" ++ check (runes_of_ascii "/// triple
root
packet // packet A { u8 x, }
chars { @lengthOf(charz )
stringy,  @tag(  0 ) // a // b
asx
    As
,
// trailing space 
// trailing space 
 {
repeat i16 charz , } ,	int16  crc ,}
")).
Eval vm_compute in ("<<<M3519>>>" ++ check (runes_of_ascii "options")).
Eval vm_compute in ("<<<M3551>>>" ++ check (runes_of_ascii "@left")).
Eval vm_compute in ("<<<M3583>>>" ++ check (runes_of_ascii """//""")).
Eval vm_compute in ("<<<M3615>>>" ++ check (runes_of_ascii "a" ++ [11]%N ++ runes_of_ascii "b")).
Eval vm_compute in ("<<<M3647>>>" ++ check (runes_of_ascii "packet A { char[ 3 ] , }")).
Eval vm_compute in ("<<<M3679>>>" ++ check (runes_of_ascii "packet A { match k n { 1 : B }, }")).
Eval vm_compute in ("<<<M3711>>>" ++ check (runes_of_ascii "packet A { } x packet B { }")).
Eval vm_compute in ("<<<M3743>>>" ++ check (runes_of_ascii "}")).
Eval vm_compute in ("<<<M3775>>>" ++ check (runes_of_ascii "int32")).
Eval vm_compute in ("<<<M3807>>>" ++ check (runes_of_ascii "f32 @calculatedFrom( u32 @tag( )")).
Eval vm_compute in ("<<<M3839>>>" ++ check (runes_of_ascii "' ' char[ int32 char @tag( repeat } @lengthOf( char[ 0123456789")).
Eval vm_compute in ("<<<M3871>>>" ++ check (runes_of_ascii ") char[ i64 { true f64 match ""// no comment"" options : string [ )")).
Eval vm_compute in ("<<<M3903>>>" ++ check (runes_of_ascii "string @calculatedFrom( false zchar[ packet as int8 uint64 float32 ; int32")).
Eval vm_compute in ("<<<M3935>>>" ++ check (runes_of_ascii "= } ] ( ; `line1
line2` as uint16 char[] packet float32 true")).
Eval vm_compute in ("<<<M3967>>>" ++ check (runes_of_ascii "char @rightPad uint64 MetaData :")).
Eval vm_compute in ("<<<M3999>>>" ++ check (runes_of_ascii "char ( as char[ = i8 ) int8 char[] @calculatedFrom( ; int16 zchar[")).
