From FP Require Import Lexer Parser ShowPT Digest.
From Coq Require Import String List NArith.
Import ListNotations.
Open Scope string_scope.
Set Printing Width 100000000.
Set Printing Depth 100000000.
Definition nl : string := String (Ascii.ascii_of_nat 10) EmptyString.
Definition model_lex (rs : list rune) : string := show_toks (lex rs).
Definition model_parse (rs : list rune) : string :=
  show_pt (match lex rs with Some ts => parse ts | None => None end).
(* coqc is slow at printing long strings: digests first (Digest.v), full texts on demand *)
Definition check (rs : list rune) : string :=
  digest (model_lex rs) ++ " " ++ digest (model_parse rs).
Definition full (rs : list rune) : string := model_lex rs ++ nl ++ model_parse rs.
Definition terms (ts : list tok) (t : pt) : string :=
  digest (show_toks (Some ts)) ++ " " ++ digest (show_pt (Some t)) ++ " " ++ digest (show_pt (parse ts)).
Definition terms_full (ts : list tok) (t : pt) : string :=
  show_toks (Some ts) ++ nl ++ show_pt (Some t) ++ nl ++ show_pt (parse ts).
Eval vm_compute in ("<<<M31>>>" ++ check (runes_of_ascii "root
    packet body {
    @calculatedFrom( ""a	b""	) repeat
int32
zchar
, lengthOf body ,
@rightPad
( ' '
    )uint8x { u64  body , } , @tag( 1 )
@leftPad ( '0' ) @calculatedFrom( """ ++ [233]%N ++ runes_of_ascii "t" ++ [233]%N ++ runes_of_ascii """
)
    u64
x @calculatedFrom( """ ++ [128512]%N ++ runes_of_ascii """
// packet A { u8 x, }
//x
)
    , x
    , @lengthOf( u128 ) _x
    T `` //	t
, @rightPad	(
'0' )  i64// trailing space 
a1 , string
trueish @calculatedFrom( ""// no comment""
    ) `
`, }packet
    tag
{ } MetaData body { T u
    , string f32a  , f64
Packet ,
lengthOf Header `tab	here` ,
    }
// c
//
packet T // @lengthOf(
{
@leftPad( )chars	, @calculatedFrom( ""1""  )
@lengthOf( tag) @lengthOf( Foo ) match charz as chars
    { 42 :
    // packet A { u8 x, }
    uint8x , """ ++ [28040; 24687]%N ++ runes_of_ascii """ :o , 0123456789:
    lengthOf
,[
    ""a\\"" ,
""CRC32""
    , ""a	b"" ,""CRC32""	, 0
,""CRC32"" , ""a\\"", """" ] : T ""it's"" :
    tag } //x
, i8 roots, @lengthOf( float)
@tag(10)body { chars// trailing space 
{repeat
int8 body ,
}  , repeat
    Header {char[]
leftPad , } , /// triple
match Logon as
    // " ++ [128512]%N ++ runes_of_ascii " emoji
    zchar {
    4294967296
: len  , ""a\""b"" // trailing space 
: A 00:x_y_z ,  }
,//	t
repeat i16 options1,} ,
    }options { }
")).
Eval vm_compute in ("<<<M63>>>" ++ check (runes_of_ascii "
MetaData trueish { len packetx
`" ++ [28040; 24687; 31867; 22411]%N ++ runes_of_ascii "` , lengthOf len
// a // b
// trailing space 
,zchar[
7
    ]	T
`{ , }` , string_ // packet A { u8 x, }
f32a , len Z9_
`` , f64 options1 ,}	options
    {	u8x=
    string// 50% %s
;}")).
Eval vm_compute in ("<<<M95>>>" ++ check (runes_of_ascii "MetaData	metadata	{}
")).
Eval vm_compute in ("<<<M127>>>" ++ check (runes_of_ascii "root packet u{ zchar[ 00] body , @lengthOf( o ) match
u as u{
    ""\" ++ [233]%N ++ runes_of_ascii """ : Z9_
    //x
    [/// triple
65535 ,
255 , ""x y"" ] // a // b
:
chars,
0123456789:float , } , }packet x_y_z {
zchar[ 3 ]u
    , @tag(
    10 ) zchar[ 4294967296 ]  body // @lengthOf(
`tab	here` ,
@lengthOf(Pad
// a // b
// @lengthOf(
) repeat i64_ crc ,
repeat
    u16
    msg_type,	@rightPad
// @lengthOf(
//	t
(
) char[]
/// triple
// @lengthOf(
float //	t
, @rightPad
( )@leftPad
( )repeat char[ 4294967296
]options1 , repeat f64 _x`` , u64 string_//
,	} root packet packetx
{int32 i8i8 @calculatedFrom( ""\" ++ [233]%N ++ runes_of_ascii """
// a // b
// trailing space 
)
    `100% of %d`
// " ++ [128512]%N ++ runes_of_ascii " emoji
// " ++ [128512]%N ++ runes_of_ascii " emoji
, @tag( 1 ) @lengthOf( // " ++ [128512]%N ++ runes_of_ascii " emoji
i64_ )
    @calculatedFrom( ""x y""
    )
// `tick` ""quote"" 'q'
//	t
char[
    0123456789
    ]
rootA @calculatedFrom(
""// no comment"" )
    `" ++ [28040; 24687; 31867; 22411]%N ++ runes_of_ascii "` ,u32
T @lengthOf(x )
    `it's`, char MetaDataX/// triple
, } packet
/// triple
// `tick` ""quote"" 'q'
Header {@calculatedFrom(
""`tick`""  )
    @tag( 3) x crc,
    @calculatedFrom( ""it's"" )
u16 Z9_
`" ++ [28040; 24687; 31867; 22411]%N ++ runes_of_ascii "` ,	@calculatedFrom(
""`tick`"")
As , // c
@leftPad //	t
( )
    // trailing space 
    u128  @calculatedFrom(
    """ ++ [28040; 24687]%N ++ runes_of_ascii """ ) , @calculatedFrom(""// no comment""// trailing space 
)
repeat
As { body {
repeat f32a
{ match Z9_ as
BodyLength
    { ""it's"" : Logon }
//x
//
,
    char[ 65535 ] pack,
Packet @calculatedFrom( // `tick` ""quote"" 'q'
""a\\"") , char[] _x @calculatedFrom( """") , } , } ,} ,
    @tag(
65535
    )
@calculatedFrom(//
""abc"" )@calculatedFrom( ""`tick`"" )
    BodyLength {	crc matchKey,	asx ,
    match /// triple
repeatCount //	t
as
int{
""1""
:Logon
,
},
asx
    {repeat
_x ,
x Foo
`" ++ [233]%N ++ runes_of_ascii "` ,
repeat// c
zchar[42 ]A
    , u16
lengthOf `100% of %d`
, }
    // `tick` ""quote"" 'q'
    ,
    // a // b
    } ,
@rightPad (' ' )
    match  Z9_ as i64_ {
    //	t
    1 :
// 50% %s
// trailing space 
Header ,	""\n"": lengthOf  , } , string_ {  repeat char[ 255 // c
] Pad
    , }  ,
    float32
    leftPad @calculatedFrom( ""a\\"" )  , }
packet
calculatedFrom // c
{}
")).
Eval vm_compute in ("<<<M159>>>" ++ check (runes_of_ascii "MetaData matchKey { calculatedFrom A `
` ,  }
    options { tag=
""\" ++ [233]%N ++ runes_of_ascii """ ; Logon = ' '
    Header
= true ; } options { packetx = zchar[
    // " ++ [128512]%N ++ runes_of_ascii " emoji
    3  ]}
")).
Eval vm_compute in ("<<<M191>>>" ++ check (runes_of_ascii "
 // a // b")).
Eval vm_compute in ("<<<M223>>>" ++ check (runes_of_ascii "MetaData
float { uint8 Foo
    , zchar[1 ] asx `{ , }`  ,a1 lengthOf , falsey pack `u8 x,` ,
// " ++ [27880; 37322]%N ++ runes_of_ascii "
// packet A { u8 x, }
metadata Packet ,falsey // packet A { u8 x, }
pack ,
    }")).
Eval vm_compute in ("<<<T223>>>" ++ terms [mkTok 37 "MetaData" 1 0 false; mkTok 42 "float" 2 0 false; mkTok 2 "{" 2 6 false; mkTok 20 "uint8" 2 8 false; mkTok 42 "Foo" 2 14 false; mkTok 40 "," 3 4 false; mkTok 14 "zchar[" 3 6 false; mkTok 30 "1" 3 12 false; mkTok 13 "]" 3 14 false; mkTok 42 "asx" 3 16 false; mkTok 43 "`{ , }`" 3 20 false; mkTok 40 "," 3 29 false; mkTok 42 "a1" 3 30 false; mkTok 42 "lengthOf" 3 33 false; mkTok 40 "," 3 42 false; mkTok 42 "falsey" 3 44 false; mkTok 42 "pack" 3 51 false; mkTok 43 "`u8 x,`" 3 56 false; mkTok 40 "," 3 64 false; mkTok 44 (string_of_bytes [47; 47; 32; 230; 179; 168; 233; 135; 138]%N) 4 0 true; mkTok 44 "// packet A { u8 x, }" 5 0 true; mkTok 42 "metadata" 6 0 false; mkTok 42 "Packet" 6 9 false; mkTok 40 "," 6 16 false; mkTok 42 "falsey" 6 17 false; mkTok 44 "// packet A { u8 x, }" 6 24 true; mkTok 42 "pack" 7 0 false; mkTok 40 "," 7 5 false; mkTok 3 "}" 8 4 false; mkTok 0 "<EOF>" 8 5 false] (mkPacket (mkPtok 37 "MetaData" 1 0 0) (Some (mkPtok 3 "}" 8 4 28)) [(DMeta (mkMetaDef (mkSpan (mkPtok 37 "MetaData" 1 0 0) (mkPtok 3 "}" 8 4 28)) (mkPtok 37 "MetaData" 1 0 0) (mkPtok 42 "float" 2 0 1) (mkPtok 2 "{" 2 6 2) [(MIDecl (mkMetaDecl (mkSpan (mkPtok 20 "uint8" 2 8 3) (mkPtok 40 "," 3 4 5)) (TyBasic (mkSpan (mkPtok 20 "uint8" 2 8 3) (mkPtok 20 "uint8" 2 8 3)) (mkBasicType (mkSpan (mkPtok 20 "uint8" 2 8 3) (mkPtok 20 "uint8" 2 8 3)) (mkPtok 20 "uint8" 2 8 3))) (mkPtok 42 "Foo" 2 14 4) None (mkPtok 40 "," 3 4 5))); (MIDecl (mkMetaDecl (mkSpan (mkPtok 14 "zchar[" 3 6 6) (mkPtok 40 "," 3 29 11)) (TyFixed (mkSpan (mkPtok 14 "zchar[" 3 6 6) (mkPtok 13 "]" 3 14 8)) (mkFixedString (mkSpan (mkPtok 14 "zchar[" 3 6 6) (mkPtok 13 "]" 3 14 8)) (mkPtok 14 "zchar[" 3 6 6) (mkPtok 30 "1" 3 12 7) (mkPtok 13 "]" 3 14 8))) (mkPtok 42 "asx" 3 16 9) (Some (mkPtok 43 "`{ , }`" 3 20 10)) (mkPtok 40 "," 3 29 11))); (MIRef (mkRefMetaDecl (mkSpan (mkPtok 42 "a1" 3 30 12) (mkPtok 40 "," 3 42 14)) (mkPtok 42 "a1" 3 30 12) (mkPtok 42 "lengthOf" 3 33 13) None (mkPtok 40 "," 3 42 14))); (MIRef (mkRefMetaDecl (mkSpan (mkPtok 42 "falsey" 3 44 15) (mkPtok 40 "," 3 64 18)) (mkPtok 42 "falsey" 3 44 15) (mkPtok 42 "pack" 3 51 16) (Some (mkPtok 43 "`u8 x,`" 3 56 17)) (mkPtok 40 "," 3 64 18))); (MIRef (mkRefMetaDecl (mkSpan (mkPtok 42 "metadata" 6 0 21) (mkPtok 40 "," 6 16 23)) (mkPtok 42 "metadata" 6 0 21) (mkPtok 42 "Packet" 6 9 22) None (mkPtok 40 "," 6 16 23))); (MIRef (mkRefMetaDecl (mkSpan (mkPtok 42 "falsey" 6 17 24) (mkPtok 40 "," 7 5 27)) (mkPtok 42 "falsey" 6 17 24) (mkPtok 42 "pack" 7 0 26) None (mkPtok 40 "," 7 5 27)))] (mkPtok 3 "}" 8 4 28)))])).
Eval vm_compute in ("<<<M255>>>" ++ check (runes_of_ascii "
packet body { u32 BodyLength , i64 Pad	@calculatedFrom(//	t
""// no comment"" ) , @tag( 00 )
    @tag( 0123456789 ) @calculatedFrom(	""CRC32"" ) char i8i8 // trailing space 
@calculatedFrom( ""// no comment"" )	,
@tag( 3 ) @leftPad(
    '\x00'
)@rightPad
( ) match
string_ as MetaDataX//x
{""packet"" :float , [
    ""abc""
, """", 3
,
// @lengthOf(
/// triple
65535
    , ""a	b"" , 42 , 1 , ""packet"" ]:
    i64_ // @lengthOf(
, 7
    // packet A { u8 x, }
    :	lengthOf
0
    //x
    : len
    ,
10// 50% %s
: len , [0  ] :A, }
, }
// `tick` ""quote"" 'q'
")).
Eval vm_compute in ("<<<M287>>>" ++ check (runes_of_ascii "
packet _x { }
packet msg_type
    {	@lengthOf( f32a ) u8x Z9_
, } MetaData /// triple
chars { string T
, } //x")).
Eval vm_compute in ("<<<M319>>>" ++ check (runes_of_ascii "
root packet repeatCount { repeat
    crc trueish , u8 matchKey `a\` ,
repeat char[ 4294967296 ] len,  string x, } packet
    // c
    f32a  { uint64 metadata
,  repeat matchKey {
// c
//	t
char[]
msg_type @calculatedFrom( ""\n"" ) , string
chars @calculatedFrom( ""1"" ) `two words`// c
, } ,
stringy ,
repeat _x,string a1`{ , }` ,
char[] repeatCount @lengthOf( calculatedFrom )	, metadata
    @calculatedFrom(""abc"")
`" ++ [28040; 24687; 31867; 22411]%N ++ runes_of_ascii "`, }
options { matchKey = true }packet// trailing space 
stringy {	uint64
msg_type `" ++ [28040; 24687; 31867; 22411]%N ++ runes_of_ascii "`
,zchar[  4294967296 ]msg_type
@calculatedFrom( ""abc"")
, } /// triple")).
Eval vm_compute in ("<<<M351>>>" ++ check (runes_of_ascii "MetaData Z9_
    {//
char[] u128/// triple
`" ++ [28040; 24687; 31867; 22411]%N ++ runes_of_ascii "`// `tick` ""quote"" 'q'
,	float64
BodyLength ,roots MetaDataX `
`,
    packetx falsey ,
// trailing space 
// packet A { u8 x, }
i16 body // `tick` ""quote"" 'q'
,
    f64 i64_ , } options {u8x =""x y"" ; packetx = 255
    ; f32a	=""it's""	} packet u128{ T //	t
@calculatedFrom(  ""a\\"" ) ,}")).
Eval vm_compute in ("<<<M383>>>" ++ check (runes_of_ascii "root
packet //x
pack
{ match matchKey //	t
as
int // @lengthOf(
{ 00 : metadata
    ,
    ""a\\""
    : o ,
""// no comment"" :// `tick` ""quote"" 'q'
x ,
[
""packet""] : A
, [ ""\n"",0123456789 , 00 , ""// no comment"" ,007 ,
255,
1 ,// c
0 ]
    // a // b
    : metadata ,[ 00] : Pad ,} , } // @lengthOf(
MetaData tag
{uint64 i64_`` ,
    } packet BodyLength { repeat
u32
u128 , }
")).
Eval vm_compute in ("<<<M415>>>" ++ check (runes_of_ascii "MetaData lengthOf {len a1 `a\`
    , As
    x_y_z
`" ++ [28040; 24687; 31867; 22411]%N ++ runes_of_ascii "`,
    metadata x, calculatedFrom string_ `doc`	,} // trailing space ")).
Eval vm_compute in ("<<<M447>>>" ++ check (runes_of_ascii "packet _x { char[ 4294967296
] float
    @calculatedFrom( ""it's"" )
,// trailing space 
@calculatedFrom(  ""\" ++ [233]%N ++ runes_of_ascii """//x
)	match options1 as matchKey
{ [	""\n""	,
00,
255 ,
007 ,
    0123456789
    // " ++ [128512]%N ++ runes_of_ascii " emoji
    , 4294967296 ]
: MetaDataX // a // b
, /// triple
} // trailing space 
, repeat
    matchKey calculatedFrom `" ++ [233]%N ++ runes_of_ascii "` ,
@calculatedFrom( ""a\""b"" )body `` ,
}
MetaData falsey{ A leftPad
,
MetaDataX tag , }  packet string_ {@calculatedFrom( ""a\""b""
    ) @leftPad ('\x00' )  string options1 , @leftPad
    ( '0'
) @tag( 10 ) @leftPad( )a1 repeatCount `say ""hi""`
    , }")).
Eval vm_compute in ("<<<T447>>>" ++ terms [mkTok 35 "packet" 1 0 false; mkTok 42 "_x" 1 7 false; mkTok 2 "{" 1 10 false; mkTok 12 "char[" 1 12 false; mkTok 30 "4294967296" 1 18 false; mkTok 13 "]" 2 0 false; mkTok 42 "float" 2 2 false; mkTok 5 "@calculatedFrom(" 3 4 false; mkTok 31 """it's""" 3 21 false; mkTok 6 ")" 3 28 false; mkTok 40 "," 4 0 false; mkTok 44 "// trailing space " 4 1 true; mkTok 5 "@calculatedFrom(" 5 0 false; mkTok 31 (string_of_bytes [34; 92; 195; 169; 34]%N) 5 18 false; mkTok 44 "//x" 5 22 true; mkTok 6 ")" 6 0 false; mkTok 38 "match" 6 2 false; mkTok 42 "options1" 6 8 false; mkTok 17 "as" 6 17 false; mkTok 42 "matchKey" 6 20 false; mkTok 2 "{" 7 0 false; mkTok 18 "[" 7 2 false; mkTok 31 """\n""" 7 4 false; mkTok 40 "," 7 9 false; mkTok 30 "00" 8 0 false; mkTok 40 "," 8 2 false; mkTok 30 "255" 9 0 false; mkTok 40 "," 9 4 false; mkTok 30 "007" 10 0 false; mkTok 40 "," 10 4 false; mkTok 30 "0123456789" 11 4 false; mkTok 44 (string_of_bytes [47; 47; 32; 240; 159; 152; 128; 32; 101; 109; 111; 106; 105]%N) 12 4 true; mkTok 40 "," 13 4 false; mkTok 30 "4294967296" 13 6 false; mkTok 13 "]" 13 17 false; mkTok 39 ":" 14 0 false; mkTok 42 "MetaDataX" 14 2 false; mkTok 44 "// a // b" 14 12 true; mkTok 40 "," 15 0 false; mkTok 44 "/// triple" 15 2 true; mkTok 3 "}" 16 0 false; mkTok 44 "// trailing space " 16 2 true; mkTok 40 "," 17 0 false; mkTok 36 "repeat" 17 2 false; mkTok 42 "matchKey" 18 4 false; mkTok 42 "calculatedFrom" 18 13 false; mkTok 43 (string_of_bytes [96; 195; 169; 96]%N) 18 28 false; mkTok 40 "," 18 32 false; mkTok 5 "@calculatedFrom(" 19 0 false; mkTok 31 """a\""b""" 19 17 false; mkTok 6 ")" 19 24 false; mkTok 42 "body" 19 25 false; mkTok 43 "``" 19 30 false; mkTok 40 "," 19 33 false; mkTok 3 "}" 20 0 false; mkTok 37 "MetaData" 21 0 false; mkTok 42 "falsey" 21 9 false; mkTok 2 "{" 21 15 false; mkTok 42 "A" 21 17 false; mkTok 42 "leftPad" 21 19 false; mkTok 40 "," 22 0 false; mkTok 42 "MetaDataX" 23 0 false; mkTok 42 "tag" 23 10 false; mkTok 40 "," 23 14 false; mkTok 3 "}" 23 16 false; mkTok 35 "packet" 23 19 false; mkTok 42 "string_" 23 26 false; mkTok 2 "{" 23 34 false; mkTok 5 "@calculatedFrom(" 23 35 false; mkTok 31 """a\""b""" 23 52 false; mkTok 6 ")" 24 4 false; mkTok 32 "@leftPad" 24 6 false; mkTok 8 "(" 24 15 false; mkTok 33 "'\x00'" 24 16 false; mkTok 6 ")" 24 23 false; mkTok 15 "string" 24 26 false; mkTok 42 "options1" 24 33 false; mkTok 40 "," 24 42 false; mkTok 32 "@leftPad" 24 44 false; mkTok 8 "(" 25 4 false; mkTok 33 "'0'" 25 6 false; mkTok 6 ")" 26 0 false; mkTok 9 "@tag(" 26 2 false; mkTok 30 "10" 26 8 false; mkTok 6 ")" 26 11 false; mkTok 32 "@leftPad" 26 13 false; mkTok 8 "(" 26 21 false; mkTok 6 ")" 26 23 false; mkTok 42 "a1" 26 24 false; mkTok 42 "repeatCount" 26 27 false; mkTok 43 "`say ""hi""`" 26 39 false; mkTok 40 "," 27 4 false; mkTok 3 "}" 27 6 false; mkTok 0 "<EOF>" 27 7 false] (mkPacket (mkPtok 35 "packet" 1 0 0) (Some (mkPtok 3 "}" 27 6 92)) [(DPacket (mkPacketDef (mkSpan (mkPtok 35 "packet" 1 0 0) (mkPtok 3 "}" 20 0 54)) None (mkPtok 35 "packet" 1 0 0) (mkPtok 42 "_x" 1 7 1) (mkPtok 2 "{" 1 10 2) [(mkFieldWithAttr (mkSpan (mkPtok 12 "char[" 1 12 3) (mkPtok 40 "," 4 0 10)) [] (CheckSumField (mkSpan (mkPtok 12 "char[" 1 12 3) (mkPtok 40 "," 4 0 10)) (mkChecksumFieldDecl (mkSpan (mkPtok 12 "char[" 1 12 3) (mkPtok 40 "," 4 0 10)) (Some (TyFixed (mkSpan (mkPtok 12 "char[" 1 12 3) (mkPtok 13 "]" 2 0 5)) (mkFixedString (mkSpan (mkPtok 12 "char[" 1 12 3) (mkPtok 13 "]" 2 0 5)) (mkPtok 12 "char[" 1 12 3) (mkPtok 30 "4294967296" 1 18 4) (mkPtok 13 "]" 2 0 5)))) (mkPtok 42 "float" 2 2 6) (mkCalculatedFrom (mkSpan (mkPtok 5 "@calculatedFrom(" 3 4 7) (mkPtok 6 ")" 3 28 9)) (mkPtok 5 "@calculatedFrom(" 3 4 7) (mkPtok 31 """it's""" 3 21 8) (mkPtok 6 ")" 3 28 9)) None (mkPtok 40 "," 4 0 10)))); (mkFieldWithAttr (mkSpan (mkPtok 5 "@calculatedFrom(" 5 0 12) (mkPtok 40 "," 17 0 42)) [(FACalculatedFrom (mkSpan (mkPtok 5 "@calculatedFrom(" 5 0 12) (mkPtok 6 ")" 6 0 15)) (mkCalculatedFrom (mkSpan (mkPtok 5 "@calculatedFrom(" 5 0 12) (mkPtok 6 ")" 6 0 15)) (mkPtok 5 "@calculatedFrom(" 5 0 12) (mkPtok 31 (string_of_bytes [34; 92; 195; 169; 34]%N) 5 18 13) (mkPtok 6 ")" 6 0 15)))] (MatchField (mkSpan (mkPtok 38 "match" 6 2 16) (mkPtok 40 "," 17 0 42)) (mkMatchFieldDecl (mkSpan (mkPtok 38 "match" 6 2 16) (mkPtok 3 "}" 16 0 40)) (mkPtok 38 "match" 6 2 16) (mkPtok 42 "options1" 6 8 17) (mkPtok 17 "as" 6 17 18) (mkPtok 42 "matchKey" 6 20 19) (mkPtok 2 "{" 7 0 20) [(mkMatchPair (mkSpan (mkPtok 18 "[" 7 2 21) (mkPtok 40 "," 15 0 38)) (MKList (mkKeyList (mkSpan (mkPtok 18 "[" 7 2 21) (mkPtok 13 "]" 13 17 34)) (mkPtok 18 "[" 7 2 21) (mkPtok 31 """\n""" 7 4 22) [((mkPtok 40 "," 7 9 23), (mkPtok 30 "00" 8 0 24)); ((mkPtok 40 "," 8 2 25), (mkPtok 30 "255" 9 0 26)); ((mkPtok 40 "," 9 4 27), (mkPtok 30 "007" 10 0 28)); ((mkPtok 40 "," 10 4 29), (mkPtok 30 "0123456789" 11 4 30)); ((mkPtok 40 "," 13 4 32), (mkPtok 30 "4294967296" 13 6 33))] (mkPtok 13 "]" 13 17 34))) (mkPtok 39 ":" 14 0 35) (mkPtok 42 "MetaDataX" 14 2 36) (Some (mkPtok 40 "," 15 0 38)))] (mkPtok 3 "}" 16 0 40)) (mkPtok 40 "," 17 0 42))); (mkFieldWithAttr (mkSpan (mkPtok 36 "repeat" 17 2 43) (mkPtok 40 "," 18 32 47)) [] (ObjectField (mkSpan (mkPtok 36 "repeat" 17 2 43) (mkPtok 40 "," 18 32 47)) (Some (mkPtok 36 "repeat" 17 2 43)) (mkPtok 42 "matchKey" 18 4 44) (Some (mkPtok 42 "calculatedFrom" 18 13 45)) (Some (mkPtok 43 (string_of_bytes [96; 195; 169; 96]%N) 18 28 46)) (mkPtok 40 "," 18 32 47))); (mkFieldWithAttr (mkSpan (mkPtok 5 "@calculatedFrom(" 19 0 48) (mkPtok 40 "," 19 33 53)) [(FACalculatedFrom (mkSpan (mkPtok 5 "@calculatedFrom(" 19 0 48) (mkPtok 6 ")" 19 24 50)) (mkCalculatedFrom (mkSpan (mkPtok 5 "@calculatedFrom(" 19 0 48) (mkPtok 6 ")" 19 24 50)) (mkPtok 5 "@calculatedFrom(" 19 0 48) (mkPtok 31 """a\""b""" 19 17 49) (mkPtok 6 ")" 19 24 50)))] (ObjectField (mkSpan (mkPtok 42 "body" 19 25 51) (mkPtok 40 "," 19 33 53)) None (mkPtok 42 "body" 19 25 51) None (Some (mkPtok 43 "``" 19 30 52)) (mkPtok 40 "," 19 33 53)))] (mkPtok 3 "}" 20 0 54))); (DMeta (mkMetaDef (mkSpan (mkPtok 37 "MetaData" 21 0 55) (mkPtok 3 "}" 23 16 64)) (mkPtok 37 "MetaData" 21 0 55) (mkPtok 42 "falsey" 21 9 56) (mkPtok 2 "{" 21 15 57) [(MIRef (mkRefMetaDecl (mkSpan (mkPtok 42 "A" 21 17 58) (mkPtok 40 "," 22 0 60)) (mkPtok 42 "A" 21 17 58) (mkPtok 42 "leftPad" 21 19 59) None (mkPtok 40 "," 22 0 60))); (MIRef (mkRefMetaDecl (mkSpan (mkPtok 42 "MetaDataX" 23 0 61) (mkPtok 40 "," 23 14 63)) (mkPtok 42 "MetaDataX" 23 0 61) (mkPtok 42 "tag" 23 10 62) None (mkPtok 40 "," 23 14 63)))] (mkPtok 3 "}" 23 16 64))); (DPacket (mkPacketDef (mkSpan (mkPtok 35 "packet" 23 19 65) (mkPtok 3 "}" 27 6 92)) None (mkPtok 35 "packet" 23 19 65) (mkPtok 42 "string_" 23 26 66) (mkPtok 2 "{" 23 34 67) [(mkFieldWithAttr (mkSpan (mkPtok 5 "@calculatedFrom(" 23 35 68) (mkPtok 40 "," 24 42 77)) [(FACalculatedFrom (mkSpan (mkPtok 5 "@calculatedFrom(" 23 35 68) (mkPtok 6 ")" 24 4 70)) (mkCalculatedFrom (mkSpan (mkPtok 5 "@calculatedFrom(" 23 35 68) (mkPtok 6 ")" 24 4 70)) (mkPtok 5 "@calculatedFrom(" 23 35 68) (mkPtok 31 """a\""b""" 23 52 69) (mkPtok 6 ")" 24 4 70))); (FAPadding (mkSpan (mkPtok 32 "@leftPad" 24 6 71) (mkPtok 6 ")" 24 23 74)) (mkPaddingAttr (mkSpan (mkPtok 32 "@leftPad" 24 6 71) (mkPtok 6 ")" 24 23 74)) (mkPtok 32 "@leftPad" 24 6 71) (mkPtok 8 "(" 24 15 72) (Some (mkPtok 33 "'\x00'" 24 16 73)) (mkPtok 6 ")" 24 23 74)))] (MetaField (mkSpan (mkPtok 15 "string" 24 26 75) (mkPtok 40 "," 24 42 77)) None (mkMetaDecl (mkSpan (mkPtok 15 "string" 24 26 75) (mkPtok 40 "," 24 42 77)) (TyDynamic (mkSpan (mkPtok 15 "string" 24 26 75) (mkPtok 15 "string" 24 26 75)) (mkDynamicString (mkSpan (mkPtok 15 "string" 24 26 75) (mkPtok 15 "string" 24 26 75)) (mkPtok 15 "string" 24 26 75))) (mkPtok 42 "options1" 24 33 76) None (mkPtok 40 "," 24 42 77)))); (mkFieldWithAttr (mkSpan (mkPtok 32 "@leftPad" 24 44 78) (mkPtok 40 "," 27 4 91)) [(FAPadding (mkSpan (mkPtok 32 "@leftPad" 24 44 78) (mkPtok 6 ")" 26 0 81)) (mkPaddingAttr (mkSpan (mkPtok 32 "@leftPad" 24 44 78) (mkPtok 6 ")" 26 0 81)) (mkPtok 32 "@leftPad" 24 44 78) (mkPtok 8 "(" 25 4 79) (Some (mkPtok 33 "'0'" 25 6 80)) (mkPtok 6 ")" 26 0 81))); (FATag (mkSpan (mkPtok 9 "@tag(" 26 2 82) (mkPtok 6 ")" 26 11 84)) (mkTagAttr (mkSpan (mkPtok 9 "@tag(" 26 2 82) (mkPtok 6 ")" 26 11 84)) (mkPtok 9 "@tag(" 26 2 82) (mkPtok 30 "10" 26 8 83) (mkPtok 6 ")" 26 11 84))); (FAPadding (mkSpan (mkPtok 32 "@leftPad" 26 13 85) (mkPtok 6 ")" 26 23 87)) (mkPaddingAttr (mkSpan (mkPtok 32 "@leftPad" 26 13 85) (mkPtok 6 ")" 26 23 87)) (mkPtok 32 "@leftPad" 26 13 85) (mkPtok 8 "(" 26 21 86) None (mkPtok 6 ")" 26 23 87)))] (ObjectField (mkSpan (mkPtok 42 "a1" 26 24 88) (mkPtok 40 "," 27 4 91)) None (mkPtok 42 "a1" 26 24 88) (Some (mkPtok 42 "repeatCount" 26 27 89)) (Some (mkPtok 43 "`say ""hi""`" 26 39 90)) (mkPtok 40 "," 27 4 91)))] (mkPtok 3 "}" 27 6 92)))])).
Eval vm_compute in ("<<<M479>>>" ++ check (runes_of_ascii "root packet float {@calculatedFrom( """ ++ [128512]%N ++ runes_of_ascii """ )float32  T , match T as
    // " ++ [27880; 37322]%N ++ runes_of_ascii "
    msg_type { 65535 :
body ""\" ++ [233]%N ++ runes_of_ascii """: body
    1
: u128 7:x, [ ""// no comment""]	: BodyLength
} , zchar[7 ]
As
@lengthOf( body ) `" ++ [28040; 24687; 31867; 22411]%N ++ runes_of_ascii "` // 50% %s
,match
u128 as // c
body  { 255 : stringy
,//	t
} , match rootA as// a // b
_x {
    // " ++ [128512]%N ++ runes_of_ascii " emoji
    ""{,}"" : crc, 42 // trailing space 
:
    // trailing space 
    T	,	} , body
    A
    `two words`,string matchKey  `{ , }`  , options1 Foo,repeat
    f32 o , string
rootA`" ++ [28040; 24687; 31867; 22411]%N ++ runes_of_ascii "`
,
    } options //x
{ u8x =
    string; //
Pad = true ; asx= ""a\""b""} root packet zchar { repeat//	t
options1{ char[ 42 ]trueish
@calculatedFrom( ""a\""b""
)
    ,	char[00
    ]  A@calculatedFrom( ""it's""
// a // b
// " ++ [128512]%N ++ runes_of_ascii " emoji
)
    , match
    falsey as
calculatedFrom
    // @lengthOf(
    {
    ""{,}""  :
    As[ ""// no comment"" ] : Pad , [
00 , ""1""
    // c
    ,
""packet"" , 00 , ""abc"" ]:chars	}, repeat  msg_type `
`
    ,
    // 50% %s
    } // packet A { u8 x, }
,@calculatedFrom( ""CRC32""	) repeat u64	u8x `line1
line2` ,
    @tag( 42 ) char[ 7 ] _x  `" ++ [233]%N ++ runes_of_ascii "`
, }options{
Foo
//	t
// packet A { u8 x, }
= false ;
} MetaData A
    {	zchar _x // 50% %s
, // `tick` ""quote"" 'q'
}
")).
Eval vm_compute in ("<<<M511>>>" ++ check (runes_of_ascii "packet chars { // " ++ [27880; 37322]%N ++ runes_of_ascii "
@tag( 1 )crc,repeat
    T
{ lengthOf
@lengthOf(	chars)
`{ , }` , repeat zchar[0123456789 ]
int , } , repeat // " ++ [27880; 37322]%N ++ runes_of_ascii "
zchar[ 42] x
`two words` ,	zchar[ 65535 ]
asx
    // @lengthOf(
    , calculatedFrom , _x
leftPad
    // trailing space 
    ,//x
Pad
    { int16 x `tab	here` ,
    } , i64 charz @calculatedFrom(""abc""  ) , }options {a1
= 42 Packet
    =true ; // packet A { u8 x, }
Foo
= '0'
    As = true
; /// triple
Foo	= zchar[ 3
    ]
; }
packet
    a1{@calculatedFrom(
""abc"" //x
)metadata , @rightPad ( '0' ) Z9_
    ,
@lengthOf(packetx ) o @lengthOf( Header  ) `it's`
    , char[]
int
    @lengthOf( msg_type )
    ,
}")).
Eval vm_compute in ("<<<M543>>>" ++ check (runes_of_ascii "MetaData u	{ float32	u8x `{ , }`, char[ 007]
//x
// 50% %s
matchKey `tab	here`
, char[
7 ] float ,
    }
")).
Eval vm_compute in ("<<<M575>>>" ++ check (@nil rune)).
Eval vm_compute in ("<<<M607>>>" ++ check (runes_of_ascii "packet  u8x { @rightPad ( )match
a1 as
int
{007 :matchKey ,""a	b"" :pack 3 :
Z9_""x y""
    : asx , } ,} packet
// 50% %s
//x
metadata {string crc
    // @lengthOf(
    ,}")).
Eval vm_compute in ("<<<M639>>>" ++ check (runes_of_ascii "packet
x_y_z  { @calculatedFrom(
// packet A { u8 x, }
// @lengthOf(
""" ++ [128512]%N ++ runes_of_ascii """ )
    //
    match a1 as MetaDataX {
""" ++ [128512]%N ++ runes_of_ascii """: u8x , [ """ ++ [28040; 24687]%N ++ runes_of_ascii """ ]:
    asx  255  : falsey,
    [ 007 ]: stringy	10
    : chars , } , string_  { char[ 4294967296 ] //x
packetx
    // packet A { u8 x, }
    , } ,
    } root packet u128
    { calculatedFrom /// triple
MetaDataX
    `it's`//
, repeat leftPad
// c
// a // b
x_y_z
//x
// " ++ [27880; 37322]%N ++ runes_of_ascii "
, }packet BodyLength {char
    // c
    Pad
    @lengthOf(
// c
// `tick` ""quote"" 'q'
uint8x  )`line1
line2` , uint16
charz ,
// " ++ [128512]%N ++ runes_of_ascii " emoji
// c
@leftPad // @lengthOf(
( '\x00'  )	repeat A { repeat float32 Z9_
    , u16 A @calculatedFrom( ""1"" )``  , Pad{ Packet {repeat uint8 trueish, stringy @lengthOf( u ) `doc`
    , // c
charz Foo`
`,
uint16 falsey `100% of %d` ,} ,}, f32
roots ,
},
    // c
    }
")).
Eval vm_compute in ("<<<M671>>>" ++ check (runes_of_ascii "root
    // " ++ [27880; 37322]%N ++ runes_of_ascii "
    packet string_
    { repeat uint16
    Logon
`
` , @calculatedFrom(""" ++ [233]%N ++ runes_of_ascii "t" ++ [233]%N ++ runes_of_ascii """ ) char[255 ]Logon , u64 pack
@calculatedFrom( ""a\\"") ,@rightPad// 50% %s
( // `tick` ""quote"" 'q'
'0' )T
{ zchar[
    3
    ]
u8x@calculatedFrom( ""CRC32"" )
    `crlf
line`
    ,o
    { _x
{	float32
    calculatedFrom/// triple
, } ,  repeat int64 u128 ,	float32  string_
    @lengthOf(	msg_type )
`" ++ [233]%N ++ runes_of_ascii "`,	}
, }
, i16 charz `line1
line2`
,  repeat int64 a1  ,@lengthOf( // 50% %s
lengthOf)
    // " ++ [27880; 37322]%N ++ runes_of_ascii "
    @tag(
00 ) Header body	`" ++ [28040; 24687; 31867; 22411]%N ++ runes_of_ascii "`,@tag( // a // b
65535 )  match pack as
_x{ ""abc""  : charz
    , 255 // c
: T
,
[	""1"" ,007 ]
    :
rootA ,00	:
    i64_ } , char[] a1
`" ++ [233]%N ++ runes_of_ascii "`, matchKey { zchar[ 3
]  Pad //
`// not a comment`  ,
    }, }
options{packetx =' 'A =
0123456789;
string_
    = '\x00'
    ; float=""a\""b""  ; tag =
65535
    } root packet matchKey	{  @calculatedFrom( ""\n"" /// triple
) zchar crc
`100% of %d`
, repeat	x{char[] options1`two words` ,repeat
    // packet A { u8 x, }
    metadata {  options1 @calculatedFrom( ""CRC32"" ) , }, uint64 matchKey `" ++ [28040; 24687; 31867; 22411]%N ++ runes_of_ascii "` , leftPad,} , repeat i64  _x
`{ , }` ,@tag( 1 ) char[ 255] len  ,
}  root
packet charz	{ float64 body@lengthOf( falsey ) , zchar
    repeatCount , } root packet asx  {
//x
// 50% %s
}")).
Eval vm_compute in ("<<<T671>>>" ++ terms [mkTok 34 "root" 1 0 false; mkTok 44 (string_of_bytes [47; 47; 32; 230; 179; 168; 233; 135; 138]%N) 2 4 true; mkTok 35 "packet" 3 4 false; mkTok 42 "string_" 3 11 false; mkTok 2 "{" 4 4 false; mkTok 36 "repeat" 4 6 false; mkTok 21 "uint16" 4 13 false; mkTok 42 "Logon" 5 4 false; mkTok 43 (string_of_bytes [96; 10; 96]%N) 6 0 false; mkTok 40 "," 7 2 false; mkTok 5 "@calculatedFrom(" 7 4 false; mkTok 31 (string_of_bytes [34; 195; 169; 116; 195; 169; 34]%N) 7 20 false; mkTok 6 ")" 7 26 false; mkTok 12 "char[" 7 28 false; mkTok 30 "255" 7 33 false; mkTok 13 "]" 7 37 false; mkTok 42 "Logon" 7 38 false; mkTok 40 "," 7 44 false; mkTok 23 "u64" 7 46 false; mkTok 42 "pack" 7 50 false; mkTok 5 "@calculatedFrom(" 8 0 false; mkTok 31 """a\\""" 8 17 false; mkTok 6 ")" 8 22 false; mkTok 40 "," 8 24 false; mkTok 32 "@rightPad" 8 25 false; mkTok 44 "// 50% %s" 8 34 true; mkTok 8 "(" 9 0 false; mkTok 44 "// `tick` ""quote"" 'q'" 9 2 true; mkTok 33 "'0'" 10 0 false; mkTok 6 ")" 10 4 false; mkTok 42 "T" 10 5 false; mkTok 2 "{" 11 0 false; mkTok 14 "zchar[" 11 2 false; mkTok 30 "3" 12 4 false; mkTok 13 "]" 13 4 false; mkTok 42 "u8x" 14 0 false; mkTok 5 "@calculatedFrom(" 14 3 false; mkTok 31 """CRC32""" 14 20 false; mkTok 6 ")" 14 28 false; mkTok 43 (string_of_bytes [96; 99; 114; 108; 102; 13; 10; 108; 105; 110; 101; 96]%N) 15 4 false; mkTok 40 "," 17 4 false; mkTok 42 "o" 17 5 false; mkTok 2 "{" 18 4 false; mkTok 42 "_x" 18 6 false; mkTok 2 "{" 19 0 false; mkTok 28 "float32" 19 2 false; mkTok 42 "calculatedFrom" 20 4 false; mkTok 44 "/// triple" 20 18 true; mkTok 40 "," 21 0 false; mkTok 3 "}" 21 2 false; mkTok 40 "," 21 4 false; mkTok 36 "repeat" 21 7 false; mkTok 27 "int64" 21 14 false; mkTok 42 "u128" 21 20 false; mkTok 40 "," 21 25 false; mkTok 28 "float32" 21 27 false; mkTok 42 "string_" 21 36 false; mkTok 7 "@lengthOf(" 22 4 false; mkTok 42 "msg_type" 22 15 false; mkTok 6 ")" 22 24 false; mkTok 43 (string_of_bytes [96; 195; 169; 96]%N) 23 0 false; mkTok 40 "," 23 3 false; mkTok 3 "}" 23 5 false; mkTok 40 "," 24 0 false; mkTok 3 "}" 24 2 false; mkTok 40 "," 25 0 false; mkTok 25 "i16" 25 2 false; mkTok 42 "charz" 25 6 false; mkTok 43 (string_of_bytes [96; 108; 105; 110; 101; 49; 10; 108; 105; 110; 101; 50; 96]%N) 25 12 false; mkTok 40 "," 27 0 false; mkTok 36 "repeat" 27 3 false; mkTok 27 "int64" 27 10 false; mkTok 42 "a1" 27 16 false; mkTok 40 "," 27 20 false; mkTok 7 "@lengthOf(" 27 21 false; mkTok 44 "// 50% %s" 27 32 true; mkTok 42 "lengthOf" 28 0 false; mkTok 6 ")" 28 8 false; mkTok 44 (string_of_bytes [47; 47; 32; 230; 179; 168; 233; 135; 138]%N) 29 4 true; mkTok 9 "@tag(" 30 4 false; mkTok 30 "00" 31 0 false; mkTok 6 ")" 31 3 false; mkTok 42 "Header" 31 5 false; mkTok 42 "body" 31 12 false; mkTok 43 (string_of_bytes [96; 230; 182; 136; 230; 129; 175; 231; 177; 187; 229; 158; 139; 96]%N) 31 17 false; mkTok 40 "," 31 23 false; mkTok 9 "@tag(" 31 24 false; mkTok 44 "// a // b" 31 30 true; mkTok 30 "65535" 32 0 false; mkTok 6 ")" 32 6 false; mkTok 38 "match" 32 9 false; mkTok 42 "pack" 32 15 false; mkTok 17 "as" 32 20 false; mkTok 42 "_x" 33 0 false; mkTok 2 "{" 33 2 false; mkTok 31 """abc""" 33 4 false; mkTok 39 ":" 33 11 false; mkTok 42 "charz" 33 13 false; mkTok 40 "," 34 4 false; mkTok 30 "255" 34 6 false; mkTok 44 "// c" 34 10 true; mkTok 39 ":" 35 0 false; mkTok 42 "T" 35 2 false; mkTok 40 "," 36 0 false; mkTok 18 "[" 37 0 false; mkTok 31 """1""" 37 2 false; mkTok 40 "," 37 6 false; mkTok 30 "007" 37 7 false; mkTok 13 "]" 37 11 false; mkTok 39 ":" 38 4 false; mkTok 42 "rootA" 39 0 false; mkTok 40 "," 39 6 false; mkTok 30 "00" 39 7 false; mkTok 39 ":" 39 10 false; mkTok 42 "i64_" 40 4 false; mkTok 3 "}" 40 9 false; mkTok 40 "," 40 11 false; mkTok 16 "char[]" 40 13 false; mkTok 42 "a1" 40 20 false; mkTok 43 (string_of_bytes [96; 195; 169; 96]%N) 41 0 false; mkTok 40 "," 41 3 false; mkTok 42 "matchKey" 41 5 false; mkTok 2 "{" 41 14 false; mkTok 14 "zchar[" 41 16 false; mkTok 30 "3" 41 23 false; mkTok 13 "]" 42 0 false; mkTok 42 "Pad" 42 3 false; mkTok 44 "//" 42 7 true; mkTok 43 "`// not a comment`" 43 0 false; mkTok 40 "," 43 20 false; mkTok 3 "}" 44 4 false; mkTok 40 "," 44 5 false; mkTok 3 "}" 44 7 false; mkTok 1 "options" 45 0 false; mkTok 2 "{" 45 7 false; mkTok 42 "packetx" 45 8 false; mkTok 4 "=" 45 16 false; mkTok 33 "' '" 45 17 false; mkTok 42 "A" 45 20 false; mkTok 4 "=" 45 22 false; mkTok 30 "0123456789" 46 0 false; mkTok 41 ";" 46 10 false; mkTok 42 "string_" 47 0 false; mkTok 4 "=" 48 4 false; mkTok 33 "'\x00'" 48 6 false; mkTok 41 ";" 49 4 false; mkTok 42 "float" 49 6 false; mkTok 4 "=" 49 11 false; mkTok 31 """a\""b""" 49 12 false; mkTok 41 ";" 49 20 false; mkTok 42 "tag" 49 22 false; mkTok 4 "=" 49 26 false; mkTok 30 "65535" 50 0 false; mkTok 3 "}" 51 4 false; mkTok 34 "root" 51 6 false; mkTok 35 "packet" 51 11 false; mkTok 42 "matchKey" 51 18 false; mkTok 2 "{" 51 27 false; mkTok 5 "@calculatedFrom(" 51 30 false; mkTok 31 """\n""" 51 47 false; mkTok 44 "/// triple" 51 52 true; mkTok 6 ")" 52 0 false; mkTok 42 "zchar" 52 2 false; mkTok 42 "crc" 52 8 false; mkTok 43 "`100% of %d`" 53 0 false; mkTok 40 "," 54 0 false; mkTok 36 "repeat" 54 2 false; mkTok 42 "x" 54 9 false; mkTok 2 "{" 54 10 false; mkTok 16 "char[]" 54 11 false; mkTok 42 "options1" 54 18 false; mkTok 43 "`two words`" 54 26 false; mkTok 40 "," 54 38 false; mkTok 36 "repeat" 54 39 false; mkTok 44 "// packet A { u8 x, }" 55 4 true; mkTok 42 "metadata" 56 4 false; mkTok 2 "{" 56 13 false; mkTok 42 "options1" 56 16 false; mkTok 5 "@calculatedFrom(" 56 25 false; mkTok 31 """CRC32""" 56 42 false; mkTok 6 ")" 56 50 false; mkTok 40 "," 56 52 false; mkTok 3 "}" 56 54 false; mkTok 40 "," 56 55 false; mkTok 23 "uint64" 56 57 false; mkTok 42 "matchKey" 56 64 false; mkTok 43 (string_of_bytes [96; 230; 182; 136; 230; 129; 175; 231; 177; 187; 229; 158; 139; 96]%N) 56 73 false; mkTok 40 "," 56 80 false; mkTok 42 "leftPad" 56 82 false; mkTok 40 "," 56 89 false; mkTok 3 "}" 56 90 false; mkTok 40 "," 56 92 false; mkTok 36 "repeat" 56 94 false; mkTok 27 "i64" 56 101 false; mkTok 42 "_x" 56 106 false; mkTok 43 "`{ , }`" 57 0 false; mkTok 40 "," 57 8 false; mkTok 9 "@tag(" 57 9 false; mkTok 30 "1" 57 15 false; mkTok 6 ")" 57 17 false; mkTok 12 "char[" 57 19 false; mkTok 30 "255" 57 25 false; mkTok 13 "]" 57 28 false; mkTok 42 "len" 57 30 false; mkTok 40 "," 57 35 false; mkTok 3 "}" 58 0 false; mkTok 34 "root" 58 3 false; mkTok 35 "packet" 59 0 false; mkTok 42 "charz" 59 7 false; mkTok 2 "{" 59 13 false; mkTok 29 "float64" 59 15 false; mkTok 42 "body" 59 23 false; mkTok 7 "@lengthOf(" 59 27 false; mkTok 42 "falsey" 59 38 false; mkTok 6 ")" 59 45 false; mkTok 40 "," 59 47 false; mkTok 42 "zchar" 59 49 false; mkTok 42 "repeatCount" 60 4 false; mkTok 40 "," 60 16 false; mkTok 3 "}" 60 18 false; mkTok 34 "root" 60 20 false; mkTok 35 "packet" 60 25 false; mkTok 42 "asx" 60 32 false; mkTok 2 "{" 60 37 false; mkTok 44 "//x" 61 0 true; mkTok 44 "// 50% %s" 62 0 true; mkTok 3 "}" 63 0 false; mkTok 0 "<EOF>" 63 1 false] (mkPacket (mkPtok 34 "root" 1 0 0) (Some (mkPtok 3 "}" 63 0 226)) [(DPacket (mkPacketDef (mkSpan (mkPtok 34 "root" 1 0 0) (mkPtok 3 "}" 44 7 132)) (Some (mkPtok 34 "root" 1 0 0)) (mkPtok 35 "packet" 3 4 2) (mkPtok 42 "string_" 3 11 3) (mkPtok 2 "{" 4 4 4) [(mkFieldWithAttr (mkSpan (mkPtok 36 "repeat" 4 6 5) (mkPtok 40 "," 7 2 9)) [] (MetaField (mkSpan (mkPtok 36 "repeat" 4 6 5) (mkPtok 40 "," 7 2 9)) (Some (mkPtok 36 "repeat" 4 6 5)) (mkMetaDecl (mkSpan (mkPtok 21 "uint16" 4 13 6) (mkPtok 40 "," 7 2 9)) (TyBasic (mkSpan (mkPtok 21 "uint16" 4 13 6) (mkPtok 21 "uint16" 4 13 6)) (mkBasicType (mkSpan (mkPtok 21 "uint16" 4 13 6) (mkPtok 21 "uint16" 4 13 6)) (mkPtok 21 "uint16" 4 13 6))) (mkPtok 42 "Logon" 5 4 7) (Some (mkPtok 43 (string_of_bytes [96; 10; 96]%N) 6 0 8)) (mkPtok 40 "," 7 2 9)))); (mkFieldWithAttr (mkSpan (mkPtok 5 "@calculatedFrom(" 7 4 10) (mkPtok 40 "," 7 44 17)) [(FACalculatedFrom (mkSpan (mkPtok 5 "@calculatedFrom(" 7 4 10) (mkPtok 6 ")" 7 26 12)) (mkCalculatedFrom (mkSpan (mkPtok 5 "@calculatedFrom(" 7 4 10) (mkPtok 6 ")" 7 26 12)) (mkPtok 5 "@calculatedFrom(" 7 4 10) (mkPtok 31 (string_of_bytes [34; 195; 169; 116; 195; 169; 34]%N) 7 20 11) (mkPtok 6 ")" 7 26 12)))] (MetaField (mkSpan (mkPtok 12 "char[" 7 28 13) (mkPtok 40 "," 7 44 17)) None (mkMetaDecl (mkSpan (mkPtok 12 "char[" 7 28 13) (mkPtok 40 "," 7 44 17)) (TyFixed (mkSpan (mkPtok 12 "char[" 7 28 13) (mkPtok 13 "]" 7 37 15)) (mkFixedString (mkSpan (mkPtok 12 "char[" 7 28 13) (mkPtok 13 "]" 7 37 15)) (mkPtok 12 "char[" 7 28 13) (mkPtok 30 "255" 7 33 14) (mkPtok 13 "]" 7 37 15))) (mkPtok 42 "Logon" 7 38 16) None (mkPtok 40 "," 7 44 17)))); (mkFieldWithAttr (mkSpan (mkPtok 23 "u64" 7 46 18) (mkPtok 40 "," 8 24 23)) [] (CheckSumField (mkSpan (mkPtok 23 "u64" 7 46 18) (mkPtok 40 "," 8 24 23)) (mkChecksumFieldDecl (mkSpan (mkPtok 23 "u64" 7 46 18) (mkPtok 40 "," 8 24 23)) (Some (TyBasic (mkSpan (mkPtok 23 "u64" 7 46 18) (mkPtok 23 "u64" 7 46 18)) (mkBasicType (mkSpan (mkPtok 23 "u64" 7 46 18) (mkPtok 23 "u64" 7 46 18)) (mkPtok 23 "u64" 7 46 18)))) (mkPtok 42 "pack" 7 50 19) (mkCalculatedFrom (mkSpan (mkPtok 5 "@calculatedFrom(" 8 0 20) (mkPtok 6 ")" 8 22 22)) (mkPtok 5 "@calculatedFrom(" 8 0 20) (mkPtok 31 """a\\""" 8 17 21) (mkPtok 6 ")" 8 22 22)) None (mkPtok 40 "," 8 24 23)))); (mkFieldWithAttr (mkSpan (mkPtok 32 "@rightPad" 8 25 24) (mkPtok 40 "," 25 0 65)) [(FAPadding (mkSpan (mkPtok 32 "@rightPad" 8 25 24) (mkPtok 6 ")" 10 4 29)) (mkPaddingAttr (mkSpan (mkPtok 32 "@rightPad" 8 25 24) (mkPtok 6 ")" 10 4 29)) (mkPtok 32 "@rightPad" 8 25 24) (mkPtok 8 "(" 9 0 26) (Some (mkPtok 33 "'0'" 10 0 28)) (mkPtok 6 ")" 10 4 29)))] (InerObjectField (mkSpan (mkPtok 42 "T" 10 5 30) (mkPtok 40 "," 25 0 65)) None (InerObjectDecl (mkSpan (mkPtok 42 "T" 10 5 30) (mkPtok 3 "}" 24 2 64)) (mkPtok 42 "T" 10 5 30) (mkPtok 2 "{" 11 0 31) [(CheckSumField (mkSpan (mkPtok 14 "zchar[" 11 2 32) (mkPtok 40 "," 17 4 40)) (mkChecksumFieldDecl (mkSpan (mkPtok 14 "zchar[" 11 2 32) (mkPtok 40 "," 17 4 40)) (Some (TyFixed (mkSpan (mkPtok 14 "zchar[" 11 2 32) (mkPtok 13 "]" 13 4 34)) (mkFixedString (mkSpan (mkPtok 14 "zchar[" 11 2 32) (mkPtok 13 "]" 13 4 34)) (mkPtok 14 "zchar[" 11 2 32) (mkPtok 30 "3" 12 4 33) (mkPtok 13 "]" 13 4 34)))) (mkPtok 42 "u8x" 14 0 35) (mkCalculatedFrom (mkSpan (mkPtok 5 "@calculatedFrom(" 14 3 36) (mkPtok 6 ")" 14 28 38)) (mkPtok 5 "@calculatedFrom(" 14 3 36) (mkPtok 31 """CRC32""" 14 20 37) (mkPtok 6 ")" 14 28 38)) (Some (mkPtok 43 (string_of_bytes [96; 99; 114; 108; 102; 13; 10; 108; 105; 110; 101; 96]%N) 15 4 39)) (mkPtok 40 "," 17 4 40))); (InerObjectField (mkSpan (mkPtok 42 "o" 17 5 41) (mkPtok 40 "," 24 0 63)) None (InerObjectDecl (mkSpan (mkPtok 42 "o" 17 5 41) (mkPtok 3 "}" 23 5 62)) (mkPtok 42 "o" 17 5 41) (mkPtok 2 "{" 18 4 42) [(InerObjectField (mkSpan (mkPtok 42 "_x" 18 6 43) (mkPtok 40 "," 21 4 50)) None (InerObjectDecl (mkSpan (mkPtok 42 "_x" 18 6 43) (mkPtok 3 "}" 21 2 49)) (mkPtok 42 "_x" 18 6 43) (mkPtok 2 "{" 19 0 44) [(MetaField (mkSpan (mkPtok 28 "float32" 19 2 45) (mkPtok 40 "," 21 0 48)) None (mkMetaDecl (mkSpan (mkPtok 28 "float32" 19 2 45) (mkPtok 40 "," 21 0 48)) (TyBasic (mkSpan (mkPtok 28 "float32" 19 2 45) (mkPtok 28 "float32" 19 2 45)) (mkBasicType (mkSpan (mkPtok 28 "float32" 19 2 45) (mkPtok 28 "float32" 19 2 45)) (mkPtok 28 "float32" 19 2 45))) (mkPtok 42 "calculatedFrom" 20 4 46) None (mkPtok 40 "," 21 0 48)))] (mkPtok 3 "}" 21 2 49)) (mkPtok 40 "," 21 4 50)); (MetaField (mkSpan (mkPtok 36 "repeat" 21 7 51) (mkPtok 40 "," 21 25 54)) (Some (mkPtok 36 "repeat" 21 7 51)) (mkMetaDecl (mkSpan (mkPtok 27 "int64" 21 14 52) (mkPtok 40 "," 21 25 54)) (TyBasic (mkSpan (mkPtok 27 "int64" 21 14 52) (mkPtok 27 "int64" 21 14 52)) (mkBasicType (mkSpan (mkPtok 27 "int64" 21 14 52) (mkPtok 27 "int64" 21 14 52)) (mkPtok 27 "int64" 21 14 52))) (mkPtok 42 "u128" 21 20 53) None (mkPtok 40 "," 21 25 54))); (LengthField (mkSpan (mkPtok 28 "float32" 21 27 55) (mkPtok 40 "," 23 3 61)) (mkLengthFieldDecl (mkSpan (mkPtok 28 "float32" 21 27 55) (mkPtok 40 "," 23 3 61)) (Some (TyBasic (mkSpan (mkPtok 28 "float32" 21 27 55) (mkPtok 28 "float32" 21 27 55)) (mkBasicType (mkSpan (mkPtok 28 "float32" 21 27 55) (mkPtok 28 "float32" 21 27 55)) (mkPtok 28 "float32" 21 27 55)))) (mkPtok 42 "string_" 21 36 56) (mkLengthOf (mkSpan (mkPtok 7 "@lengthOf(" 22 4 57) (mkPtok 6 ")" 22 24 59)) (mkPtok 7 "@lengthOf(" 22 4 57) (mkPtok 42 "msg_type" 22 15 58) (mkPtok 6 ")" 22 24 59)) (Some (mkPtok 43 (string_of_bytes [96; 195; 169; 96]%N) 23 0 60)) (mkPtok 40 "," 23 3 61)))] (mkPtok 3 "}" 23 5 62)) (mkPtok 40 "," 24 0 63))] (mkPtok 3 "}" 24 2 64)) (mkPtok 40 "," 25 0 65))); (mkFieldWithAttr (mkSpan (mkPtok 25 "i16" 25 2 66) (mkPtok 40 "," 27 0 69)) [] (MetaField (mkSpan (mkPtok 25 "i16" 25 2 66) (mkPtok 40 "," 27 0 69)) None (mkMetaDecl (mkSpan (mkPtok 25 "i16" 25 2 66) (mkPtok 40 "," 27 0 69)) (TyBasic (mkSpan (mkPtok 25 "i16" 25 2 66) (mkPtok 25 "i16" 25 2 66)) (mkBasicType (mkSpan (mkPtok 25 "i16" 25 2 66) (mkPtok 25 "i16" 25 2 66)) (mkPtok 25 "i16" 25 2 66))) (mkPtok 42 "charz" 25 6 67) (Some (mkPtok 43 (string_of_bytes [96; 108; 105; 110; 101; 49; 10; 108; 105; 110; 101; 50; 96]%N) 25 12 68)) (mkPtok 40 "," 27 0 69)))); (mkFieldWithAttr (mkSpan (mkPtok 36 "repeat" 27 3 70) (mkPtok 40 "," 27 20 73)) [] (MetaField (mkSpan (mkPtok 36 "repeat" 27 3 70) (mkPtok 40 "," 27 20 73)) (Some (mkPtok 36 "repeat" 27 3 70)) (mkMetaDecl (mkSpan (mkPtok 27 "int64" 27 10 71) (mkPtok 40 "," 27 20 73)) (TyBasic (mkSpan (mkPtok 27 "int64" 27 10 71) (mkPtok 27 "int64" 27 10 71)) (mkBasicType (mkSpan (mkPtok 27 "int64" 27 10 71) (mkPtok 27 "int64" 27 10 71)) (mkPtok 27 "int64" 27 10 71))) (mkPtok 42 "a1" 27 16 72) None (mkPtok 40 "," 27 20 73)))); (mkFieldWithAttr (mkSpan (mkPtok 7 "@lengthOf(" 27 21 74) (mkPtok 40 "," 31 23 85)) [(FALengthOf (mkSpan (mkPtok 7 "@lengthOf(" 27 21 74) (mkPtok 6 ")" 28 8 77)) (mkLengthOf (mkSpan (mkPtok 7 "@lengthOf(" 27 21 74) (mkPtok 6 ")" 28 8 77)) (mkPtok 7 "@lengthOf(" 27 21 74) (mkPtok 42 "lengthOf" 28 0 76) (mkPtok 6 ")" 28 8 77))); (FATag (mkSpan (mkPtok 9 "@tag(" 30 4 79) (mkPtok 6 ")" 31 3 81)) (mkTagAttr (mkSpan (mkPtok 9 "@tag(" 30 4 79) (mkPtok 6 ")" 31 3 81)) (mkPtok 9 "@tag(" 30 4 79) (mkPtok 30 "00" 31 0 80) (mkPtok 6 ")" 31 3 81)))] (ObjectField (mkSpan (mkPtok 42 "Header" 31 5 82) (mkPtok 40 "," 31 23 85)) None (mkPtok 42 "Header" 31 5 82) (Some (mkPtok 42 "body" 31 12 83)) (Some (mkPtok 43 (string_of_bytes [96; 230; 182; 136; 230; 129; 175; 231; 177; 187; 229; 158; 139; 96]%N) 31 17 84)) (mkPtok 40 "," 31 23 85))); (mkFieldWithAttr (mkSpan (mkPtok 9 "@tag(" 31 24 86) (mkPtok 40 "," 40 11 116)) [(FATag (mkSpan (mkPtok 9 "@tag(" 31 24 86) (mkPtok 6 ")" 32 6 89)) (mkTagAttr (mkSpan (mkPtok 9 "@tag(" 31 24 86) (mkPtok 6 ")" 32 6 89)) (mkPtok 9 "@tag(" 31 24 86) (mkPtok 30 "65535" 32 0 88) (mkPtok 6 ")" 32 6 89)))] (MatchField (mkSpan (mkPtok 38 "match" 32 9 90) (mkPtok 40 "," 40 11 116)) (mkMatchFieldDecl (mkSpan (mkPtok 38 "match" 32 9 90) (mkPtok 3 "}" 40 9 115)) (mkPtok 38 "match" 32 9 90) (mkPtok 42 "pack" 32 15 91) (mkPtok 17 "as" 32 20 92) (mkPtok 42 "_x" 33 0 93) (mkPtok 2 "{" 33 2 94) [(mkMatchPair (mkSpan (mkPtok 31 """abc""" 33 4 95) (mkPtok 40 "," 34 4 98)) (MKString (mkPtok 31 """abc""" 33 4 95)) (mkPtok 39 ":" 33 11 96) (mkPtok 42 "charz" 33 13 97) (Some (mkPtok 40 "," 34 4 98))); (mkMatchPair (mkSpan (mkPtok 30 "255" 34 6 99) (mkPtok 40 "," 36 0 103)) (MKDigits (mkPtok 30 "255" 34 6 99)) (mkPtok 39 ":" 35 0 101) (mkPtok 42 "T" 35 2 102) (Some (mkPtok 40 "," 36 0 103))); (mkMatchPair (mkSpan (mkPtok 18 "[" 37 0 104) (mkPtok 40 "," 39 6 111)) (MKList (mkKeyList (mkSpan (mkPtok 18 "[" 37 0 104) (mkPtok 13 "]" 37 11 108)) (mkPtok 18 "[" 37 0 104) (mkPtok 31 """1""" 37 2 105) [((mkPtok 40 "," 37 6 106), (mkPtok 30 "007" 37 7 107))] (mkPtok 13 "]" 37 11 108))) (mkPtok 39 ":" 38 4 109) (mkPtok 42 "rootA" 39 0 110) (Some (mkPtok 40 "," 39 6 111))); (mkMatchPair (mkSpan (mkPtok 30 "00" 39 7 112) (mkPtok 42 "i64_" 40 4 114)) (MKDigits (mkPtok 30 "00" 39 7 112)) (mkPtok 39 ":" 39 10 113) (mkPtok 42 "i64_" 40 4 114) None)] (mkPtok 3 "}" 40 9 115)) (mkPtok 40 "," 40 11 116))); (mkFieldWithAttr (mkSpan (mkPtok 16 "char[]" 40 13 117) (mkPtok 40 "," 41 3 120)) [] (MetaField (mkSpan (mkPtok 16 "char[]" 40 13 117) (mkPtok 40 "," 41 3 120)) None (mkMetaDecl (mkSpan (mkPtok 16 "char[]" 40 13 117) (mkPtok 40 "," 41 3 120)) (TyDynamic (mkSpan (mkPtok 16 "char[]" 40 13 117) (mkPtok 16 "char[]" 40 13 117)) (mkDynamicString (mkSpan (mkPtok 16 "char[]" 40 13 117) (mkPtok 16 "char[]" 40 13 117)) (mkPtok 16 "char[]" 40 13 117))) (mkPtok 42 "a1" 40 20 118) (Some (mkPtok 43 (string_of_bytes [96; 195; 169; 96]%N) 41 0 119)) (mkPtok 40 "," 41 3 120)))); (mkFieldWithAttr (mkSpan (mkPtok 42 "matchKey" 41 5 121) (mkPtok 40 "," 44 5 131)) [] (InerObjectField (mkSpan (mkPtok 42 "matchKey" 41 5 121) (mkPtok 40 "," 44 5 131)) None (InerObjectDecl (mkSpan (mkPtok 42 "matchKey" 41 5 121) (mkPtok 3 "}" 44 4 130)) (mkPtok 42 "matchKey" 41 5 121) (mkPtok 2 "{" 41 14 122) [(MetaField (mkSpan (mkPtok 14 "zchar[" 41 16 123) (mkPtok 40 "," 43 20 129)) None (mkMetaDecl (mkSpan (mkPtok 14 "zchar[" 41 16 123) (mkPtok 40 "," 43 20 129)) (TyFixed (mkSpan (mkPtok 14 "zchar[" 41 16 123) (mkPtok 13 "]" 42 0 125)) (mkFixedString (mkSpan (mkPtok 14 "zchar[" 41 16 123) (mkPtok 13 "]" 42 0 125)) (mkPtok 14 "zchar[" 41 16 123) (mkPtok 30 "3" 41 23 124) (mkPtok 13 "]" 42 0 125))) (mkPtok 42 "Pad" 42 3 126) (Some (mkPtok 43 "`// not a comment`" 43 0 128)) (mkPtok 40 "," 43 20 129)))] (mkPtok 3 "}" 44 4 130)) (mkPtok 40 "," 44 5 131)))] (mkPtok 3 "}" 44 7 132))); (DOption (mkOptionDef (mkSpan (mkPtok 1 "options" 45 0 133) (mkPtok 3 "}" 51 4 153)) (mkPtok 1 "options" 45 0 133) (mkPtok 2 "{" 45 7 134) [(mkOptionDecl (mkSpan (mkPtok 42 "packetx" 45 8 135) (mkPtok 33 "' '" 45 17 137)) (mkPtok 42 "packetx" 45 8 135) (mkPtok 4 "=" 45 16 136) (VPaddingChar (mkSpan (mkPtok 33 "' '" 45 17 137) (mkPtok 33 "' '" 45 17 137)) (mkPtok 33 "' '" 45 17 137)) None); (mkOptionDecl (mkSpan (mkPtok 42 "A" 45 20 138) (mkPtok 41 ";" 46 10 141)) (mkPtok 42 "A" 45 20 138) (mkPtok 4 "=" 45 22 139) (VDigits (mkSpan (mkPtok 30 "0123456789" 46 0 140) (mkPtok 30 "0123456789" 46 0 140)) (mkPtok 30 "0123456789" 46 0 140)) (Some (mkPtok 41 ";" 46 10 141))); (mkOptionDecl (mkSpan (mkPtok 42 "string_" 47 0 142) (mkPtok 41 ";" 49 4 145)) (mkPtok 42 "string_" 47 0 142) (mkPtok 4 "=" 48 4 143) (VPaddingChar (mkSpan (mkPtok 33 "'\x00'" 48 6 144) (mkPtok 33 "'\x00'" 48 6 144)) (mkPtok 33 "'\x00'" 48 6 144)) (Some (mkPtok 41 ";" 49 4 145))); (mkOptionDecl (mkSpan (mkPtok 42 "float" 49 6 146) (mkPtok 41 ";" 49 20 149)) (mkPtok 42 "float" 49 6 146) (mkPtok 4 "=" 49 11 147) (VString (mkSpan (mkPtok 31 """a\""b""" 49 12 148) (mkPtok 31 """a\""b""" 49 12 148)) (mkPtok 31 """a\""b""" 49 12 148)) (Some (mkPtok 41 ";" 49 20 149))); (mkOptionDecl (mkSpan (mkPtok 42 "tag" 49 22 150) (mkPtok 30 "65535" 50 0 152)) (mkPtok 42 "tag" 49 22 150) (mkPtok 4 "=" 49 26 151) (VDigits (mkSpan (mkPtok 30 "65535" 50 0 152) (mkPtok 30 "65535" 50 0 152)) (mkPtok 30 "65535" 50 0 152)) None)] (mkPtok 3 "}" 51 4 153))); (DPacket (mkPacketDef (mkSpan (mkPtok 34 "root" 51 6 154) (mkPtok 3 "}" 58 0 205)) (Some (mkPtok 34 "root" 51 6 154)) (mkPtok 35 "packet" 51 11 155) (mkPtok 42 "matchKey" 51 18 156) (mkPtok 2 "{" 51 27 157) [(mkFieldWithAttr (mkSpan (mkPtok 5 "@calculatedFrom(" 51 30 158) (mkPtok 40 "," 54 0 165)) [(FACalculatedFrom (mkSpan (mkPtok 5 "@calculatedFrom(" 51 30 158) (mkPtok 6 ")" 52 0 161)) (mkCalculatedFrom (mkSpan (mkPtok 5 "@calculatedFrom(" 51 30 158) (mkPtok 6 ")" 52 0 161)) (mkPtok 5 "@calculatedFrom(" 51 30 158) (mkPtok 31 """\n""" 51 47 159) (mkPtok 6 ")" 52 0 161)))] (ObjectField (mkSpan (mkPtok 42 "zchar" 52 2 162) (mkPtok 40 "," 54 0 165)) None (mkPtok 42 "zchar" 52 2 162) (Some (mkPtok 42 "crc" 52 8 163)) (Some (mkPtok 43 "`100% of %d`" 53 0 164)) (mkPtok 40 "," 54 0 165))); (mkFieldWithAttr (mkSpan (mkPtok 36 "repeat" 54 2 166) (mkPtok 40 "," 56 92 191)) [] (InerObjectField (mkSpan (mkPtok 36 "repeat" 54 2 166) (mkPtok 40 "," 56 92 191)) (Some (mkPtok 36 "repeat" 54 2 166)) (InerObjectDecl (mkSpan (mkPtok 42 "x" 54 9 167) (mkPtok 3 "}" 56 90 190)) (mkPtok 42 "x" 54 9 167) (mkPtok 2 "{" 54 10 168) [(MetaField (mkSpan (mkPtok 16 "char[]" 54 11 169) (mkPtok 40 "," 54 38 172)) None (mkMetaDecl (mkSpan (mkPtok 16 "char[]" 54 11 169) (mkPtok 40 "," 54 38 172)) (TyDynamic (mkSpan (mkPtok 16 "char[]" 54 11 169) (mkPtok 16 "char[]" 54 11 169)) (mkDynamicString (mkSpan (mkPtok 16 "char[]" 54 11 169) (mkPtok 16 "char[]" 54 11 169)) (mkPtok 16 "char[]" 54 11 169))) (mkPtok 42 "options1" 54 18 170) (Some (mkPtok 43 "`two words`" 54 26 171)) (mkPtok 40 "," 54 38 172))); (InerObjectField (mkSpan (mkPtok 36 "repeat" 54 39 173) (mkPtok 40 "," 56 55 183)) (Some (mkPtok 36 "repeat" 54 39 173)) (InerObjectDecl (mkSpan (mkPtok 42 "metadata" 56 4 175) (mkPtok 3 "}" 56 54 182)) (mkPtok 42 "metadata" 56 4 175) (mkPtok 2 "{" 56 13 176) [(CheckSumField (mkSpan (mkPtok 42 "options1" 56 16 177) (mkPtok 40 "," 56 52 181)) (mkChecksumFieldDecl (mkSpan (mkPtok 42 "options1" 56 16 177) (mkPtok 40 "," 56 52 181)) None (mkPtok 42 "options1" 56 16 177) (mkCalculatedFrom (mkSpan (mkPtok 5 "@calculatedFrom(" 56 25 178) (mkPtok 6 ")" 56 50 180)) (mkPtok 5 "@calculatedFrom(" 56 25 178) (mkPtok 31 """CRC32""" 56 42 179) (mkPtok 6 ")" 56 50 180)) None (mkPtok 40 "," 56 52 181)))] (mkPtok 3 "}" 56 54 182)) (mkPtok 40 "," 56 55 183)); (MetaField (mkSpan (mkPtok 23 "uint64" 56 57 184) (mkPtok 40 "," 56 80 187)) None (mkMetaDecl (mkSpan (mkPtok 23 "uint64" 56 57 184) (mkPtok 40 "," 56 80 187)) (TyBasic (mkSpan (mkPtok 23 "uint64" 56 57 184) (mkPtok 23 "uint64" 56 57 184)) (mkBasicType (mkSpan (mkPtok 23 "uint64" 56 57 184) (mkPtok 23 "uint64" 56 57 184)) (mkPtok 23 "uint64" 56 57 184))) (mkPtok 42 "matchKey" 56 64 185) (Some (mkPtok 43 (string_of_bytes [96; 230; 182; 136; 230; 129; 175; 231; 177; 187; 229; 158; 139; 96]%N) 56 73 186)) (mkPtok 40 "," 56 80 187))); (ObjectField (mkSpan (mkPtok 42 "leftPad" 56 82 188) (mkPtok 40 "," 56 89 189)) None (mkPtok 42 "leftPad" 56 82 188) None None (mkPtok 40 "," 56 89 189))] (mkPtok 3 "}" 56 90 190)) (mkPtok 40 "," 56 92 191))); (mkFieldWithAttr (mkSpan (mkPtok 36 "repeat" 56 94 192) (mkPtok 40 "," 57 8 196)) [] (MetaField (mkSpan (mkPtok 36 "repeat" 56 94 192) (mkPtok 40 "," 57 8 196)) (Some (mkPtok 36 "repeat" 56 94 192)) (mkMetaDecl (mkSpan (mkPtok 27 "i64" 56 101 193) (mkPtok 40 "," 57 8 196)) (TyBasic (mkSpan (mkPtok 27 "i64" 56 101 193) (mkPtok 27 "i64" 56 101 193)) (mkBasicType (mkSpan (mkPtok 27 "i64" 56 101 193) (mkPtok 27 "i64" 56 101 193)) (mkPtok 27 "i64" 56 101 193))) (mkPtok 42 "_x" 56 106 194) (Some (mkPtok 43 "`{ , }`" 57 0 195)) (mkPtok 40 "," 57 8 196)))); (mkFieldWithAttr (mkSpan (mkPtok 9 "@tag(" 57 9 197) (mkPtok 40 "," 57 35 204)) [(FATag (mkSpan (mkPtok 9 "@tag(" 57 9 197) (mkPtok 6 ")" 57 17 199)) (mkTagAttr (mkSpan (mkPtok 9 "@tag(" 57 9 197) (mkPtok 6 ")" 57 17 199)) (mkPtok 9 "@tag(" 57 9 197) (mkPtok 30 "1" 57 15 198) (mkPtok 6 ")" 57 17 199)))] (MetaField (mkSpan (mkPtok 12 "char[" 57 19 200) (mkPtok 40 "," 57 35 204)) None (mkMetaDecl (mkSpan (mkPtok 12 "char[" 57 19 200) (mkPtok 40 "," 57 35 204)) (TyFixed (mkSpan (mkPtok 12 "char[" 57 19 200) (mkPtok 13 "]" 57 28 202)) (mkFixedString (mkSpan (mkPtok 12 "char[" 57 19 200) (mkPtok 13 "]" 57 28 202)) (mkPtok 12 "char[" 57 19 200) (mkPtok 30 "255" 57 25 201) (mkPtok 13 "]" 57 28 202))) (mkPtok 42 "len" 57 30 203) None (mkPtok 40 "," 57 35 204))))] (mkPtok 3 "}" 58 0 205))); (DPacket (mkPacketDef (mkSpan (mkPtok 34 "root" 58 3 206) (mkPtok 3 "}" 60 18 219)) (Some (mkPtok 34 "root" 58 3 206)) (mkPtok 35 "packet" 59 0 207) (mkPtok 42 "charz" 59 7 208) (mkPtok 2 "{" 59 13 209) [(mkFieldWithAttr (mkSpan (mkPtok 29 "float64" 59 15 210) (mkPtok 40 "," 59 47 215)) [] (LengthField (mkSpan (mkPtok 29 "float64" 59 15 210) (mkPtok 40 "," 59 47 215)) (mkLengthFieldDecl (mkSpan (mkPtok 29 "float64" 59 15 210) (mkPtok 40 "," 59 47 215)) (Some (TyBasic (mkSpan (mkPtok 29 "float64" 59 15 210) (mkPtok 29 "float64" 59 15 210)) (mkBasicType (mkSpan (mkPtok 29 "float64" 59 15 210) (mkPtok 29 "float64" 59 15 210)) (mkPtok 29 "float64" 59 15 210)))) (mkPtok 42 "body" 59 23 211) (mkLengthOf (mkSpan (mkPtok 7 "@lengthOf(" 59 27 212) (mkPtok 6 ")" 59 45 214)) (mkPtok 7 "@lengthOf(" 59 27 212) (mkPtok 42 "falsey" 59 38 213) (mkPtok 6 ")" 59 45 214)) None (mkPtok 40 "," 59 47 215)))); (mkFieldWithAttr (mkSpan (mkPtok 42 "zchar" 59 49 216) (mkPtok 40 "," 60 16 218)) [] (ObjectField (mkSpan (mkPtok 42 "zchar" 59 49 216) (mkPtok 40 "," 60 16 218)) None (mkPtok 42 "zchar" 59 49 216) (Some (mkPtok 42 "repeatCount" 60 4 217)) None (mkPtok 40 "," 60 16 218)))] (mkPtok 3 "}" 60 18 219))); (DPacket (mkPacketDef (mkSpan (mkPtok 34 "root" 60 20 220) (mkPtok 3 "}" 63 0 226)) (Some (mkPtok 34 "root" 60 20 220)) (mkPtok 35 "packet" 60 25 221) (mkPtok 42 "asx" 60 32 222) (mkPtok 2 "{" 60 37 223) [] (mkPtok 3 "}" 63 0 226)))])).
Eval vm_compute in ("<<<M703>>>" ++ check (runes_of_ascii "
packet
x_y_z { body { // " ++ [128512]%N ++ runes_of_ascii " emoji
_x BodyLength
,} , }")).
Eval vm_compute in ("<<<M735>>>" ++ check (runes_of_ascii "root
    packet o{ @tag(	65535 )
repeat zchar[ 0 ] Foo
    `100% of %d` , @rightPad
( '0'
) stringy // a // b
{ Pad  { stringy falsey , int32 metadata @lengthOf(
    x_y_z )
    ,
} ,
    }	,@rightPad (
) @tag(10 )
    // a // b
    BodyLength
`a\`
    , msg_type rootA, } packet i8i8 { @rightPad
    (
' '
)repeat A`a\`, char[4294967296] // a // b
x  @calculatedFrom(
""" ++ [28040; 24687]%N ++ runes_of_ascii """ )
    // " ++ [128512]%N ++ runes_of_ascii " emoji
    `" ++ [233]%N ++ runes_of_ascii "`
,
    repeat//x
string i8i8, MetaDataX{
// trailing space 
// a // b
float64 Z9_
@calculatedFrom(""" ++ [233]%N ++ runes_of_ascii "t" ++ [233]%N ++ runes_of_ascii """ )
    ,
} , }
")).
Eval vm_compute in ("<<<M767>>>" ++ check (runes_of_ascii "
packet u { }
")).
Eval vm_compute in ("<<<M799>>>" ++ check (runes_of_ascii "packet trueish
{
@tag( 65535	)
    float @lengthOf( As ) `" ++ [233]%N ++ runes_of_ascii "` ,i32 lengthOf	, repeat
float64
    stringy
`" ++ [28040; 24687; 31867; 22411]%N ++ runes_of_ascii "` , @lengthOf(
    A
) //	t
@calculatedFrom(
""a\\"" // 50% %s
) // @lengthOf(
@leftPad ('\x00' ) repeat
    u32 crc , chars
    /// triple
    , repeat string
    lengthOf
`two words`
, } // @lengthOf(
packet metadata {
@leftPad  ( '0' ) A {
    // `tick` ""quote"" 'q'
    asx // trailing space 
{ metadata
`crlf
line` ,a1@lengthOf(
zchar ) ,
    // " ++ [27880; 37322]%N ++ runes_of_ascii "
    i32
    _x
, T
{	match repeatCount as
/// triple
//	t
charz
{ // c
0123456789 : metadata } ,	float64 rootA`" ++ [28040; 24687; 31867; 22411]%N ++ runes_of_ascii "` ,
/// triple
// " ++ [128512]%N ++ runes_of_ascii " emoji
} ,  } , roots@lengthOf( falsey
) `doc`  ,
//x
// a // b
} , int32 x , float32 calculatedFrom , //
@lengthOf( charz ) @calculatedFrom(
""x y"")
@lengthOf( rootA ) char[ 00]
    f32a  @calculatedFrom( ""a\\"")`crlf
line`
    , zchar[ 10
] metadata
    ,
    zchar[
007 ] leftPad,
    repeat i8i8 rootA
// @lengthOf(
//
,uint64 calculatedFrom // " ++ [128512]%N ++ runes_of_ascii " emoji
@calculatedFrom(
""x y""
    )
`tab	here` , }")).
Eval vm_compute in ("<<<M831>>>" ++ check (runes_of_ascii "MetaData	pack
{ // trailing space 
}")).
Eval vm_compute in ("<<<M863>>>" ++ check (runes_of_ascii "
packet
    zchar { Logon a1 ,	u128
`
` , @lengthOf( charz ) i64 u8x
    @lengthOf(
    msg_type
    ) `// not a comment`  ,
repeat roots a1
, asx msg_type`crlf
line`
,@tag(42 )
    /// triple
    u64 metadata `{ , }`  , }")).
Eval vm_compute in ("<<<M895>>>" ++ check (runes_of_ascii "  options { a1 =""it's""As=true	Z9_ = 4294967296 // trailing space 
roots = char[]
    // packet A { u8 x, }
    T
= true} MetaData
f32a {	uint8 MetaDataX //	t
, a1 pack ,}
")).
Eval vm_compute in ("<<<T895>>>" ++ terms [mkTok 1 "options" 1 2 false; mkTok 2 "{" 1 10 false; mkTok 42 "a1" 1 12 false; mkTok 4 "=" 1 15 false; mkTok 31 """it's""" 1 16 false; mkTok 42 "As" 1 22 false; mkTok 4 "=" 1 24 false; mkTok 10 "true" 1 25 false; mkTok 42 "Z9_" 1 30 false; mkTok 4 "=" 1 34 false; mkTok 30 "4294967296" 1 36 false; mkTok 44 "// trailing space " 1 47 true; mkTok 42 "roots" 2 0 false; mkTok 4 "=" 2 6 false; mkTok 16 "char[]" 2 8 false; mkTok 44 "// packet A { u8 x, }" 3 4 true; mkTok 42 "T" 4 4 false; mkTok 4 "=" 5 0 false; mkTok 10 "true" 5 2 false; mkTok 3 "}" 5 6 false; mkTok 37 "MetaData" 5 8 false; mkTok 42 "f32a" 6 0 false; mkTok 2 "{" 6 5 false; mkTok 20 "uint8" 6 7 false; mkTok 42 "MetaDataX" 6 13 false; mkTok 44 (string_of_bytes [47; 47; 9; 116]%N) 6 23 true; mkTok 40 "," 7 0 false; mkTok 42 "a1" 7 2 false; mkTok 42 "pack" 7 5 false; mkTok 40 "," 7 10 false; mkTok 3 "}" 7 11 false; mkTok 0 "<EOF>" 8 0 false] (mkPacket (mkPtok 1 "options" 1 2 0) (Some (mkPtok 3 "}" 7 11 30)) [(DOption (mkOptionDef (mkSpan (mkPtok 1 "options" 1 2 0) (mkPtok 3 "}" 5 6 19)) (mkPtok 1 "options" 1 2 0) (mkPtok 2 "{" 1 10 1) [(mkOptionDecl (mkSpan (mkPtok 42 "a1" 1 12 2) (mkPtok 31 """it's""" 1 16 4)) (mkPtok 42 "a1" 1 12 2) (mkPtok 4 "=" 1 15 3) (VString (mkSpan (mkPtok 31 """it's""" 1 16 4) (mkPtok 31 """it's""" 1 16 4)) (mkPtok 31 """it's""" 1 16 4)) None); (mkOptionDecl (mkSpan (mkPtok 42 "As" 1 22 5) (mkPtok 10 "true" 1 25 7)) (mkPtok 42 "As" 1 22 5) (mkPtok 4 "=" 1 24 6) (VTrue (mkSpan (mkPtok 10 "true" 1 25 7) (mkPtok 10 "true" 1 25 7)) (mkPtok 10 "true" 1 25 7)) None); (mkOptionDecl (mkSpan (mkPtok 42 "Z9_" 1 30 8) (mkPtok 30 "4294967296" 1 36 10)) (mkPtok 42 "Z9_" 1 30 8) (mkPtok 4 "=" 1 34 9) (VDigits (mkSpan (mkPtok 30 "4294967296" 1 36 10) (mkPtok 30 "4294967296" 1 36 10)) (mkPtok 30 "4294967296" 1 36 10)) None); (mkOptionDecl (mkSpan (mkPtok 42 "roots" 2 0 12) (mkPtok 16 "char[]" 2 8 14)) (mkPtok 42 "roots" 2 0 12) (mkPtok 4 "=" 2 6 13) (VType (mkSpan (mkPtok 16 "char[]" 2 8 14) (mkPtok 16 "char[]" 2 8 14)) (TyDynamic (mkSpan (mkPtok 16 "char[]" 2 8 14) (mkPtok 16 "char[]" 2 8 14)) (mkDynamicString (mkSpan (mkPtok 16 "char[]" 2 8 14) (mkPtok 16 "char[]" 2 8 14)) (mkPtok 16 "char[]" 2 8 14)))) None); (mkOptionDecl (mkSpan (mkPtok 42 "T" 4 4 16) (mkPtok 10 "true" 5 2 18)) (mkPtok 42 "T" 4 4 16) (mkPtok 4 "=" 5 0 17) (VTrue (mkSpan (mkPtok 10 "true" 5 2 18) (mkPtok 10 "true" 5 2 18)) (mkPtok 10 "true" 5 2 18)) None)] (mkPtok 3 "}" 5 6 19))); (DMeta (mkMetaDef (mkSpan (mkPtok 37 "MetaData" 5 8 20) (mkPtok 3 "}" 7 11 30)) (mkPtok 37 "MetaData" 5 8 20) (mkPtok 42 "f32a" 6 0 21) (mkPtok 2 "{" 6 5 22) [(MIDecl (mkMetaDecl (mkSpan (mkPtok 20 "uint8" 6 7 23) (mkPtok 40 "," 7 0 26)) (TyBasic (mkSpan (mkPtok 20 "uint8" 6 7 23) (mkPtok 20 "uint8" 6 7 23)) (mkBasicType (mkSpan (mkPtok 20 "uint8" 6 7 23) (mkPtok 20 "uint8" 6 7 23)) (mkPtok 20 "uint8" 6 7 23))) (mkPtok 42 "MetaDataX" 6 13 24) None (mkPtok 40 "," 7 0 26))); (MIRef (mkRefMetaDecl (mkSpan (mkPtok 42 "a1" 7 2 27) (mkPtok 40 "," 7 10 29)) (mkPtok 42 "a1" 7 2 27) (mkPtok 42 "pack" 7 5 28) None (mkPtok 40 "," 7 10 29)))] (mkPtok 3 "}" 7 11 30)))])).
Eval vm_compute in ("<<<M927>>>" ++ check (runes_of_ascii "
options { }")).
Eval vm_compute in ("<<<M959>>>" ++ check (runes_of_ascii "options {
    rootA
    =/// triple
float32
; u8x//
= true ;Z9_=
// a // b
// trailing space 
'0' // a // b
; } // @lengthOf(")).
Eval vm_compute in ("<<<M991>>>" ++ check (runes_of_ascii "root packet
    string_ {// trailing space 
@tag(
    0 )
    char[]
    // trailing space 
    MetaDataX`it's`	, // @lengthOf(
trueish { pack f32a, } , // 50% %s
}")).
Eval vm_compute in ("<<<M1023>>>" ++ check (runes_of_ascii "root packet
calculatedFrom{ }
")).
Eval vm_compute in ("<<<M1055>>>" ++ check (runes_of_ascii "
options {a1 = true ; }
")).
Eval vm_compute in ("<<<M1087>>>" ++ check (runes_of_ascii "MetaData float { string Packet,} options
    //	t
    {
asx //	t
=
""\n""
    } options { repeatCount= """"; _x =
    zchar[ 007 // packet A { u8 x, }
] ;uint8x =
    u64 }
packet options1{i8 Pad , uint32 roots @calculatedFrom( ""// no comment"") `doc`, char[] rootA , match crc
as
//
// c
u { 0 :chars
    , 42 :
    packetx
,
// @lengthOf(
// trailing space 
} ,
@tag(	0
) int8 u128,
string
    pack`u8 x,`, Header @calculatedFrom(
""1"" ) ,  @tag( 10
)
u
, i16
u128
    ,
    // trailing space 
    @calculatedFrom( ""\n"" ) //	t
@rightPad ( '0' ) repeat zchar  msg_type	`{ , }` ,
}MetaData
    i8i8// @lengthOf(
{u8
    leftPad `crlf
line`
// packet A { u8 x, }
//	t
, } 	 ")).
Eval vm_compute in ("<<<M1119>>>" ++ check (runes_of_ascii "packet
// a // b
// a // b
A {
@tag(	00 ) f32a @lengthOf( Pad ), // a // b
@rightPad
    ( ' '
    // c
    )
uint16 o,	repeat Pad{ trueish@calculatedFrom(	""// no comment"" ) // c
, asx // a // b
calculatedFrom
`` ,//	t
zchar @lengthOf( int	) ,repeat packetx{ MetaDataX , } , } , repeat Packet matchKey  , //
} MetaData matchKey { u8 charz`" ++ [28040; 24687; 31867; 22411]%N ++ runes_of_ascii "`
, i8i8
    T , zchar[ 0 ] trueish,	char[
4294967296 ]
    //x
    float `a\`
, options1 Pad`" ++ [28040; 24687; 31867; 22411]%N ++ runes_of_ascii "`
    /// triple
    ,
    char[]
    stringy , }
")).
Eval vm_compute in ("<<<T1119>>>" ++ terms [mkTok 35 "packet" 1 0 false; mkTok 44 "// a // b" 2 0 true; mkTok 44 "// a // b" 3 0 true; mkTok 42 "A" 4 0 false; mkTok 2 "{" 4 2 false; mkTok 9 "@tag(" 5 0 false; mkTok 30 "00" 5 6 false; mkTok 6 ")" 5 9 false; mkTok 42 "f32a" 5 11 false; mkTok 7 "@lengthOf(" 5 16 false; mkTok 42 "Pad" 5 27 false; mkTok 6 ")" 5 31 false; mkTok 40 "," 5 32 false; mkTok 44 "// a // b" 5 34 true; mkTok 32 "@rightPad" 6 0 false; mkTok 8 "(" 7 4 false; mkTok 33 "' '" 7 6 false; mkTok 44 "// c" 8 4 true; mkTok 6 ")" 9 4 false; mkTok 21 "uint16" 10 0 false; mkTok 42 "o" 10 7 false; mkTok 40 "," 10 8 false; mkTok 36 "repeat" 10 10 false; mkTok 42 "Pad" 10 17 false; mkTok 2 "{" 10 20 false; mkTok 42 "trueish" 10 22 false; mkTok 5 "@calculatedFrom(" 10 29 false; mkTok 31 """// no comment""" 10 46 false; mkTok 6 ")" 10 62 false; mkTok 44 "// c" 10 64 true; mkTok 40 "," 11 0 false; mkTok 42 "asx" 11 2 false; mkTok 44 "// a // b" 11 6 true; mkTok 42 "calculatedFrom" 12 0 false; mkTok 43 "``" 13 0 false; mkTok 40 "," 13 3 false; mkTok 44 (string_of_bytes [47; 47; 9; 116]%N) 13 4 true; mkTok 42 "zchar" 14 0 false; mkTok 7 "@lengthOf(" 14 6 false; mkTok 42 "int" 14 17 false; mkTok 6 ")" 14 21 false; mkTok 40 "," 14 23 false; mkTok 36 "repeat" 14 24 false; mkTok 42 "packetx" 14 31 false; mkTok 2 "{" 14 38 false; mkTok 42 "MetaDataX" 14 40 false; mkTok 40 "," 14 50 false; mkTok 3 "}" 14 52 false; mkTok 40 "," 14 54 false; mkTok 3 "}" 14 56 false; mkTok 40 "," 14 58 false; mkTok 36 "repeat" 14 60 false; mkTok 42 "Packet" 14 67 false; mkTok 42 "matchKey" 14 74 false; mkTok 40 "," 14 84 false; mkTok 44 "//" 14 86 true; mkTok 3 "}" 15 0 false; mkTok 37 "MetaData" 15 2 false; mkTok 42 "matchKey" 15 11 false; mkTok 2 "{" 15 20 false; mkTok 20 "u8" 15 22 false; mkTok 42 "charz" 15 25 false; mkTok 43 (string_of_bytes [96; 230; 182; 136; 230; 129; 175; 231; 177; 187; 229; 158; 139; 96]%N) 15 30 false; mkTok 40 "," 16 0 false; mkTok 42 "i8i8" 16 2 false; mkTok 42 "T" 17 4 false; mkTok 40 "," 17 6 false; mkTok 14 "zchar[" 17 8 false; mkTok 30 "0" 17 15 false; mkTok 13 "]" 17 17 false; mkTok 42 "trueish" 17 19 false; mkTok 40 "," 17 26 false; mkTok 12 "char[" 17 28 false; mkTok 30 "4294967296" 18 0 false; mkTok 13 "]" 18 11 false; mkTok 44 "//x" 19 4 true; mkTok 42 "float" 20 4 false; mkTok 43 "`a\`" 20 10 false; mkTok 40 "," 21 0 false; mkTok 42 "options1" 21 2 false; mkTok 42 "Pad" 21 11 false; mkTok 43 (string_of_bytes [96; 230; 182; 136; 230; 129; 175; 231; 177; 187; 229; 158; 139; 96]%N) 21 14 false; mkTok 44 "/// triple" 22 4 true; mkTok 40 "," 23 4 false; mkTok 16 "char[]" 24 4 false; mkTok 42 "stringy" 25 4 false; mkTok 40 "," 25 12 false; mkTok 3 "}" 25 14 false; mkTok 0 "<EOF>" 26 0 false] (mkPacket (mkPtok 35 "packet" 1 0 0) (Some (mkPtok 3 "}" 25 14 87)) [(DPacket (mkPacketDef (mkSpan (mkPtok 35 "packet" 1 0 0) (mkPtok 3 "}" 15 0 56)) None (mkPtok 35 "packet" 1 0 0) (mkPtok 42 "A" 4 0 3) (mkPtok 2 "{" 4 2 4) [(mkFieldWithAttr (mkSpan (mkPtok 9 "@tag(" 5 0 5) (mkPtok 40 "," 5 32 12)) [(FATag (mkSpan (mkPtok 9 "@tag(" 5 0 5) (mkPtok 6 ")" 5 9 7)) (mkTagAttr (mkSpan (mkPtok 9 "@tag(" 5 0 5) (mkPtok 6 ")" 5 9 7)) (mkPtok 9 "@tag(" 5 0 5) (mkPtok 30 "00" 5 6 6) (mkPtok 6 ")" 5 9 7)))] (LengthField (mkSpan (mkPtok 42 "f32a" 5 11 8) (mkPtok 40 "," 5 32 12)) (mkLengthFieldDecl (mkSpan (mkPtok 42 "f32a" 5 11 8) (mkPtok 40 "," 5 32 12)) None (mkPtok 42 "f32a" 5 11 8) (mkLengthOf (mkSpan (mkPtok 7 "@lengthOf(" 5 16 9) (mkPtok 6 ")" 5 31 11)) (mkPtok 7 "@lengthOf(" 5 16 9) (mkPtok 42 "Pad" 5 27 10) (mkPtok 6 ")" 5 31 11)) None (mkPtok 40 "," 5 32 12)))); (mkFieldWithAttr (mkSpan (mkPtok 32 "@rightPad" 6 0 14) (mkPtok 40 "," 10 8 21)) [(FAPadding (mkSpan (mkPtok 32 "@rightPad" 6 0 14) (mkPtok 6 ")" 9 4 18)) (mkPaddingAttr (mkSpan (mkPtok 32 "@rightPad" 6 0 14) (mkPtok 6 ")" 9 4 18)) (mkPtok 32 "@rightPad" 6 0 14) (mkPtok 8 "(" 7 4 15) (Some (mkPtok 33 "' '" 7 6 16)) (mkPtok 6 ")" 9 4 18)))] (MetaField (mkSpan (mkPtok 21 "uint16" 10 0 19) (mkPtok 40 "," 10 8 21)) None (mkMetaDecl (mkSpan (mkPtok 21 "uint16" 10 0 19) (mkPtok 40 "," 10 8 21)) (TyBasic (mkSpan (mkPtok 21 "uint16" 10 0 19) (mkPtok 21 "uint16" 10 0 19)) (mkBasicType (mkSpan (mkPtok 21 "uint16" 10 0 19) (mkPtok 21 "uint16" 10 0 19)) (mkPtok 21 "uint16" 10 0 19))) (mkPtok 42 "o" 10 7 20) None (mkPtok 40 "," 10 8 21)))); (mkFieldWithAttr (mkSpan (mkPtok 36 "repeat" 10 10 22) (mkPtok 40 "," 14 58 50)) [] (InerObjectField (mkSpan (mkPtok 36 "repeat" 10 10 22) (mkPtok 40 "," 14 58 50)) (Some (mkPtok 36 "repeat" 10 10 22)) (InerObjectDecl (mkSpan (mkPtok 42 "Pad" 10 17 23) (mkPtok 3 "}" 14 56 49)) (mkPtok 42 "Pad" 10 17 23) (mkPtok 2 "{" 10 20 24) [(CheckSumField (mkSpan (mkPtok 42 "trueish" 10 22 25) (mkPtok 40 "," 11 0 30)) (mkChecksumFieldDecl (mkSpan (mkPtok 42 "trueish" 10 22 25) (mkPtok 40 "," 11 0 30)) None (mkPtok 42 "trueish" 10 22 25) (mkCalculatedFrom (mkSpan (mkPtok 5 "@calculatedFrom(" 10 29 26) (mkPtok 6 ")" 10 62 28)) (mkPtok 5 "@calculatedFrom(" 10 29 26) (mkPtok 31 """// no comment""" 10 46 27) (mkPtok 6 ")" 10 62 28)) None (mkPtok 40 "," 11 0 30))); (ObjectField (mkSpan (mkPtok 42 "asx" 11 2 31) (mkPtok 40 "," 13 3 35)) None (mkPtok 42 "asx" 11 2 31) (Some (mkPtok 42 "calculatedFrom" 12 0 33)) (Some (mkPtok 43 "``" 13 0 34)) (mkPtok 40 "," 13 3 35)); (LengthField (mkSpan (mkPtok 42 "zchar" 14 0 37) (mkPtok 40 "," 14 23 41)) (mkLengthFieldDecl (mkSpan (mkPtok 42 "zchar" 14 0 37) (mkPtok 40 "," 14 23 41)) None (mkPtok 42 "zchar" 14 0 37) (mkLengthOf (mkSpan (mkPtok 7 "@lengthOf(" 14 6 38) (mkPtok 6 ")" 14 21 40)) (mkPtok 7 "@lengthOf(" 14 6 38) (mkPtok 42 "int" 14 17 39) (mkPtok 6 ")" 14 21 40)) None (mkPtok 40 "," 14 23 41))); (InerObjectField (mkSpan (mkPtok 36 "repeat" 14 24 42) (mkPtok 40 "," 14 54 48)) (Some (mkPtok 36 "repeat" 14 24 42)) (InerObjectDecl (mkSpan (mkPtok 42 "packetx" 14 31 43) (mkPtok 3 "}" 14 52 47)) (mkPtok 42 "packetx" 14 31 43) (mkPtok 2 "{" 14 38 44) [(ObjectField (mkSpan (mkPtok 42 "MetaDataX" 14 40 45) (mkPtok 40 "," 14 50 46)) None (mkPtok 42 "MetaDataX" 14 40 45) None None (mkPtok 40 "," 14 50 46))] (mkPtok 3 "}" 14 52 47)) (mkPtok 40 "," 14 54 48))] (mkPtok 3 "}" 14 56 49)) (mkPtok 40 "," 14 58 50))); (mkFieldWithAttr (mkSpan (mkPtok 36 "repeat" 14 60 51) (mkPtok 40 "," 14 84 54)) [] (ObjectField (mkSpan (mkPtok 36 "repeat" 14 60 51) (mkPtok 40 "," 14 84 54)) (Some (mkPtok 36 "repeat" 14 60 51)) (mkPtok 42 "Packet" 14 67 52) (Some (mkPtok 42 "matchKey" 14 74 53)) None (mkPtok 40 "," 14 84 54)))] (mkPtok 3 "}" 15 0 56))); (DMeta (mkMetaDef (mkSpan (mkPtok 37 "MetaData" 15 2 57) (mkPtok 3 "}" 25 14 87)) (mkPtok 37 "MetaData" 15 2 57) (mkPtok 42 "matchKey" 15 11 58) (mkPtok 2 "{" 15 20 59) [(MIDecl (mkMetaDecl (mkSpan (mkPtok 20 "u8" 15 22 60) (mkPtok 40 "," 16 0 63)) (TyBasic (mkSpan (mkPtok 20 "u8" 15 22 60) (mkPtok 20 "u8" 15 22 60)) (mkBasicType (mkSpan (mkPtok 20 "u8" 15 22 60) (mkPtok 20 "u8" 15 22 60)) (mkPtok 20 "u8" 15 22 60))) (mkPtok 42 "charz" 15 25 61) (Some (mkPtok 43 (string_of_bytes [96; 230; 182; 136; 230; 129; 175; 231; 177; 187; 229; 158; 139; 96]%N) 15 30 62)) (mkPtok 40 "," 16 0 63))); (MIRef (mkRefMetaDecl (mkSpan (mkPtok 42 "i8i8" 16 2 64) (mkPtok 40 "," 17 6 66)) (mkPtok 42 "i8i8" 16 2 64) (mkPtok 42 "T" 17 4 65) None (mkPtok 40 "," 17 6 66))); (MIDecl (mkMetaDecl (mkSpan (mkPtok 14 "zchar[" 17 8 67) (mkPtok 40 "," 17 26 71)) (TyFixed (mkSpan (mkPtok 14 "zchar[" 17 8 67) (mkPtok 13 "]" 17 17 69)) (mkFixedString (mkSpan (mkPtok 14 "zchar[" 17 8 67) (mkPtok 13 "]" 17 17 69)) (mkPtok 14 "zchar[" 17 8 67) (mkPtok 30 "0" 17 15 68) (mkPtok 13 "]" 17 17 69))) (mkPtok 42 "trueish" 17 19 70) None (mkPtok 40 "," 17 26 71))); (MIDecl (mkMetaDecl (mkSpan (mkPtok 12 "char[" 17 28 72) (mkPtok 40 "," 21 0 78)) (TyFixed (mkSpan (mkPtok 12 "char[" 17 28 72) (mkPtok 13 "]" 18 11 74)) (mkFixedString (mkSpan (mkPtok 12 "char[" 17 28 72) (mkPtok 13 "]" 18 11 74)) (mkPtok 12 "char[" 17 28 72) (mkPtok 30 "4294967296" 18 0 73) (mkPtok 13 "]" 18 11 74))) (mkPtok 42 "float" 20 4 76) (Some (mkPtok 43 "`a\`" 20 10 77)) (mkPtok 40 "," 21 0 78))); (MIRef (mkRefMetaDecl (mkSpan (mkPtok 42 "options1" 21 2 79) (mkPtok 40 "," 23 4 83)) (mkPtok 42 "options1" 21 2 79) (mkPtok 42 "Pad" 21 11 80) (Some (mkPtok 43 (string_of_bytes [96; 230; 182; 136; 230; 129; 175; 231; 177; 187; 229; 158; 139; 96]%N) 21 14 81)) (mkPtok 40 "," 23 4 83))); (MIDecl (mkMetaDecl (mkSpan (mkPtok 16 "char[]" 24 4 84) (mkPtok 40 "," 25 12 86)) (TyDynamic (mkSpan (mkPtok 16 "char[]" 24 4 84) (mkPtok 16 "char[]" 24 4 84)) (mkDynamicString (mkSpan (mkPtok 16 "char[]" 24 4 84) (mkPtok 16 "char[]" 24 4 84)) (mkPtok 16 "char[]" 24 4 84))) (mkPtok 42 "stringy" 25 4 85) None (mkPtok 40 "," 25 12 86)))] (mkPtok 3 "}" 25 14 87)))])).
Eval vm_compute in ("<<<M1151>>>" ++ check (runes_of_ascii "MetaData Z9_ { } options	{ repeatCount  = '0'
crc
// " ++ [27880; 37322]%N ++ runes_of_ascii "
// " ++ [27880; 37322]%N ++ runes_of_ascii "
= 007
; rootA
=int8 ;_x	= 0 ;
}packet falsey{ }")).
Eval vm_compute in ("<<<M1183>>>" ++ check (runes_of_ascii "packet x_y_z
    //	t
    {
// packet A { u8 x, }
/// triple
_x , repeat float , @tag(
1) match Foo
    as rootA
{	[
255 ]
    : options1
    ,
    [ ""a\\"" ]	:
    /// triple
    leftPad , } ,@lengthOf( len) match
    o as  Z9_ {
    7: As ,
    ""x y"" : matchKey // `tick` ""quote"" 'q'
""// no comment"" : u128 , [
// @lengthOf(
// `tick` ""quote"" 'q'
0 , 255]:	len , ""CRC32"" :	metadata 3 : chars ,
} ,u64
roots `say ""hi""`
    ,
    @tag(
42
)
string int@lengthOf( Header ), @tag( 1 )@lengthOf(
float
    )
    // packet A { u8 x, }
    rootA Z9_, match	msg_type as metadata{
[ 7 , 0123456789 ] :uint8x
//x
// a // b
, [255 ] : int
,
    // packet A { u8 x, }
    255 :lengthOf , ""a\\""	: u128 /// triple
, ""1""	: u128 , },}
// `tick` ""quote"" 'q'
")).
Eval vm_compute in ("<<<M1215>>>" ++ check (@nil rune)).
Eval vm_compute in ("<<<M1247>>>" ++ check (runes_of_ascii "root packet MetaDataX  { }")).
Eval vm_compute in ("<<<M1279>>>" ++ check (runes_of_ascii "packet len
{  @tag(42	)
repeat asx
    {
    repeat _x u128`100% of %d` ,}	, int64 falsey
@lengthOf( packetx ) `` , x @calculatedFrom( // trailing space 
""CRC32"" ) ,match
Pad as uint8x	{ 65535/// triple
:
//x
//x
rootA ,
    } ,
    @rightPad
    ( )
@calculatedFrom(	""{,}""
) repeat zchar//	t
`doc`
,//	t
repeat msg_type
// @lengthOf(
//
`doc` , char[
    65535 ] i8i8 `// not a comment`, int32	Z9_
    `100% of %d`, @calculatedFrom(	""a\\"" )@tag( 1 //	t
) @calculatedFrom(
//x
// @lengthOf(
""CRC32""	) char[]	Z9_ ,BodyLength  ,}
    packet T{ }
    packet chars{
    repeat uint32
    repeatCount //
`line1
line2` ,
@lengthOf( i8i8 // a // b
) repeat u128 chars // a // b
`100% of %d` ,repeat options1
    {
_x{
repeat falsey
    `a\` ,	match x_y_z as
    Packet { """ ++ [28040; 24687]%N ++ runes_of_ascii """ : u8x , }
, zchar @calculatedFrom( """ ++ [233]%N ++ runes_of_ascii "t" ++ [233]%N ++ runes_of_ascii """ ) ,  }, stringy //x
,repeat uint16 asx , } ,@tag(
    0
    )@leftPad
( '\x00' )i64 repeatCount, @lengthOf( lengthOf )  repeat float32 Logon
    ,}
    packet Logon { @tag( 0 )char[] chars ,  }
MetaData //	t
roots { char[] f32a ,
zchar[ 42 ] A`{ , }` , float32 zchar , } 	 ")).
Eval vm_compute in ("<<<M1311>>>" ++ check (runes_of_ascii "options { lengthOf = ""`tick`"";repeatCount = 3 ;
    metadata  =
    255	;	i64_	= ' '
    // packet A { u8 x, }
    }
")).
Eval vm_compute in ("<<<M1343>>>" ++ check (runes_of_ascii "packet string_
    { @lengthOf( metadata ) zchar[ 0123456789 ] A
// @lengthOf(
// `tick` ""quote"" 'q'
, rootA zchar// packet A { u8 x, }
, u32 A
    /// triple
    @calculatedFrom(	""abc"" )
,	@calculatedFrom(""" ++ [28040; 24687]%N ++ runes_of_ascii """ )
    match chars as body // a // b
{ ""// no comment""
:
float, 1 :
    stringy
, [ 1
, 42	]
    :roots
    , """ ++ [28040; 24687]%N ++ runes_of_ascii """ :
    a1, ""packet"" : repeatCount ,7
    :
    int , } // packet A { u8 x, }
,}
")).
Eval vm_compute in ("<<<T1343>>>" ++ terms [mkTok 35 "packet" 1 0 false; mkTok 42 "string_" 1 7 false; mkTok 2 "{" 2 4 false; mkTok 7 "@lengthOf(" 2 6 false; mkTok 42 "metadata" 2 17 false; mkTok 6 ")" 2 26 false; mkTok 14 "zchar[" 2 28 false; mkTok 30 "0123456789" 2 35 false; mkTok 13 "]" 2 46 false; mkTok 42 "A" 2 48 false; mkTok 44 "// @lengthOf(" 3 0 true; mkTok 44 "// `tick` ""quote"" 'q'" 4 0 true; mkTok 40 "," 5 0 false; mkTok 42 "rootA" 5 2 false; mkTok 42 "zchar" 5 8 false; mkTok 44 "// packet A { u8 x, }" 5 13 true; mkTok 40 "," 6 0 false; mkTok 22 "u32" 6 2 false; mkTok 42 "A" 6 6 false; mkTok 44 "/// triple" 7 4 true; mkTok 5 "@calculatedFrom(" 8 4 false; mkTok 31 """abc""" 8 21 false; mkTok 6 ")" 8 27 false; mkTok 40 "," 9 0 false; mkTok 5 "@calculatedFrom(" 9 2 false; mkTok 31 (string_of_bytes [34; 230; 182; 136; 230; 129; 175; 34]%N) 9 18 false; mkTok 6 ")" 9 23 false; mkTok 38 "match" 10 4 false; mkTok 42 "chars" 10 10 false; mkTok 17 "as" 10 16 false; mkTok 42 "body" 10 19 false; mkTok 44 "// a // b" 10 24 true; mkTok 2 "{" 11 0 false; mkTok 31 """// no comment""" 11 2 false; mkTok 39 ":" 12 0 false; mkTok 42 "float" 13 0 false; mkTok 40 "," 13 5 false; mkTok 30 "1" 13 7 false; mkTok 39 ":" 13 9 false; mkTok 42 "stringy" 14 4 false; mkTok 40 "," 15 0 false; mkTok 18 "[" 15 2 false; mkTok 30 "1" 15 4 false; mkTok 40 "," 16 0 false; mkTok 30 "42" 16 2 false; mkTok 13 "]" 16 5 false; mkTok 39 ":" 17 4 false; mkTok 42 "roots" 17 5 false; mkTok 40 "," 18 4 false; mkTok 31 (string_of_bytes [34; 230; 182; 136; 230; 129; 175; 34]%N) 18 6 false; mkTok 39 ":" 18 11 false; mkTok 42 "a1" 19 4 false; mkTok 40 "," 19 6 false; mkTok 31 """packet""" 19 8 false; mkTok 39 ":" 19 17 false; mkTok 42 "repeatCount" 19 19 false; mkTok 40 "," 19 31 false; mkTok 30 "7" 19 32 false; mkTok 39 ":" 20 4 false; mkTok 42 "int" 21 4 false; mkTok 40 "," 21 8 false; mkTok 3 "}" 21 10 false; mkTok 44 "// packet A { u8 x, }" 21 12 true; mkTok 40 "," 22 0 false; mkTok 3 "}" 22 1 false; mkTok 0 "<EOF>" 23 0 false] (mkPacket (mkPtok 35 "packet" 1 0 0) (Some (mkPtok 3 "}" 22 1 64)) [(DPacket (mkPacketDef (mkSpan (mkPtok 35 "packet" 1 0 0) (mkPtok 3 "}" 22 1 64)) None (mkPtok 35 "packet" 1 0 0) (mkPtok 42 "string_" 1 7 1) (mkPtok 2 "{" 2 4 2) [(mkFieldWithAttr (mkSpan (mkPtok 7 "@lengthOf(" 2 6 3) (mkPtok 40 "," 5 0 12)) [(FALengthOf (mkSpan (mkPtok 7 "@lengthOf(" 2 6 3) (mkPtok 6 ")" 2 26 5)) (mkLengthOf (mkSpan (mkPtok 7 "@lengthOf(" 2 6 3) (mkPtok 6 ")" 2 26 5)) (mkPtok 7 "@lengthOf(" 2 6 3) (mkPtok 42 "metadata" 2 17 4) (mkPtok 6 ")" 2 26 5)))] (MetaField (mkSpan (mkPtok 14 "zchar[" 2 28 6) (mkPtok 40 "," 5 0 12)) None (mkMetaDecl (mkSpan (mkPtok 14 "zchar[" 2 28 6) (mkPtok 40 "," 5 0 12)) (TyFixed (mkSpan (mkPtok 14 "zchar[" 2 28 6) (mkPtok 13 "]" 2 46 8)) (mkFixedString (mkSpan (mkPtok 14 "zchar[" 2 28 6) (mkPtok 13 "]" 2 46 8)) (mkPtok 14 "zchar[" 2 28 6) (mkPtok 30 "0123456789" 2 35 7) (mkPtok 13 "]" 2 46 8))) (mkPtok 42 "A" 2 48 9) None (mkPtok 40 "," 5 0 12)))); (mkFieldWithAttr (mkSpan (mkPtok 42 "rootA" 5 2 13) (mkPtok 40 "," 6 0 16)) [] (ObjectField (mkSpan (mkPtok 42 "rootA" 5 2 13) (mkPtok 40 "," 6 0 16)) None (mkPtok 42 "rootA" 5 2 13) (Some (mkPtok 42 "zchar" 5 8 14)) None (mkPtok 40 "," 6 0 16))); (mkFieldWithAttr (mkSpan (mkPtok 22 "u32" 6 2 17) (mkPtok 40 "," 9 0 23)) [] (CheckSumField (mkSpan (mkPtok 22 "u32" 6 2 17) (mkPtok 40 "," 9 0 23)) (mkChecksumFieldDecl (mkSpan (mkPtok 22 "u32" 6 2 17) (mkPtok 40 "," 9 0 23)) (Some (TyBasic (mkSpan (mkPtok 22 "u32" 6 2 17) (mkPtok 22 "u32" 6 2 17)) (mkBasicType (mkSpan (mkPtok 22 "u32" 6 2 17) (mkPtok 22 "u32" 6 2 17)) (mkPtok 22 "u32" 6 2 17)))) (mkPtok 42 "A" 6 6 18) (mkCalculatedFrom (mkSpan (mkPtok 5 "@calculatedFrom(" 8 4 20) (mkPtok 6 ")" 8 27 22)) (mkPtok 5 "@calculatedFrom(" 8 4 20) (mkPtok 31 """abc""" 8 21 21) (mkPtok 6 ")" 8 27 22)) None (mkPtok 40 "," 9 0 23)))); (mkFieldWithAttr (mkSpan (mkPtok 5 "@calculatedFrom(" 9 2 24) (mkPtok 40 "," 22 0 63)) [(FACalculatedFrom (mkSpan (mkPtok 5 "@calculatedFrom(" 9 2 24) (mkPtok 6 ")" 9 23 26)) (mkCalculatedFrom (mkSpan (mkPtok 5 "@calculatedFrom(" 9 2 24) (mkPtok 6 ")" 9 23 26)) (mkPtok 5 "@calculatedFrom(" 9 2 24) (mkPtok 31 (string_of_bytes [34; 230; 182; 136; 230; 129; 175; 34]%N) 9 18 25) (mkPtok 6 ")" 9 23 26)))] (MatchField (mkSpan (mkPtok 38 "match" 10 4 27) (mkPtok 40 "," 22 0 63)) (mkMatchFieldDecl (mkSpan (mkPtok 38 "match" 10 4 27) (mkPtok 3 "}" 21 10 61)) (mkPtok 38 "match" 10 4 27) (mkPtok 42 "chars" 10 10 28) (mkPtok 17 "as" 10 16 29) (mkPtok 42 "body" 10 19 30) (mkPtok 2 "{" 11 0 32) [(mkMatchPair (mkSpan (mkPtok 31 """// no comment""" 11 2 33) (mkPtok 40 "," 13 5 36)) (MKString (mkPtok 31 """// no comment""" 11 2 33)) (mkPtok 39 ":" 12 0 34) (mkPtok 42 "float" 13 0 35) (Some (mkPtok 40 "," 13 5 36))); (mkMatchPair (mkSpan (mkPtok 30 "1" 13 7 37) (mkPtok 40 "," 15 0 40)) (MKDigits (mkPtok 30 "1" 13 7 37)) (mkPtok 39 ":" 13 9 38) (mkPtok 42 "stringy" 14 4 39) (Some (mkPtok 40 "," 15 0 40))); (mkMatchPair (mkSpan (mkPtok 18 "[" 15 2 41) (mkPtok 40 "," 18 4 48)) (MKList (mkKeyList (mkSpan (mkPtok 18 "[" 15 2 41) (mkPtok 13 "]" 16 5 45)) (mkPtok 18 "[" 15 2 41) (mkPtok 30 "1" 15 4 42) [((mkPtok 40 "," 16 0 43), (mkPtok 30 "42" 16 2 44))] (mkPtok 13 "]" 16 5 45))) (mkPtok 39 ":" 17 4 46) (mkPtok 42 "roots" 17 5 47) (Some (mkPtok 40 "," 18 4 48))); (mkMatchPair (mkSpan (mkPtok 31 (string_of_bytes [34; 230; 182; 136; 230; 129; 175; 34]%N) 18 6 49) (mkPtok 40 "," 19 6 52)) (MKString (mkPtok 31 (string_of_bytes [34; 230; 182; 136; 230; 129; 175; 34]%N) 18 6 49)) (mkPtok 39 ":" 18 11 50) (mkPtok 42 "a1" 19 4 51) (Some (mkPtok 40 "," 19 6 52))); (mkMatchPair (mkSpan (mkPtok 31 """packet""" 19 8 53) (mkPtok 40 "," 19 31 56)) (MKString (mkPtok 31 """packet""" 19 8 53)) (mkPtok 39 ":" 19 17 54) (mkPtok 42 "repeatCount" 19 19 55) (Some (mkPtok 40 "," 19 31 56))); (mkMatchPair (mkSpan (mkPtok 30 "7" 19 32 57) (mkPtok 40 "," 21 8 60)) (MKDigits (mkPtok 30 "7" 19 32 57)) (mkPtok 39 ":" 20 4 58) (mkPtok 42 "int" 21 4 59) (Some (mkPtok 40 "," 21 8 60)))] (mkPtok 3 "}" 21 10 61)) (mkPtok 40 "," 22 0 63)))] (mkPtok 3 "}" 22 1 64)))])).
Eval vm_compute in ("<<<M1375>>>" ++ check (runes_of_ascii "options {
trueish =42 int =
// trailing space 
// " ++ [27880; 37322]%N ++ runes_of_ascii "
' '
Packet
    = 007 ;
asx = string
    ; }	root packet u8x{}MetaData
//x
// packet A { u8 x, }
int
{ string charz, // `tick` ""quote"" 'q'
}")).
Eval vm_compute in ("<<<M1407>>>" ++ check (runes_of_ascii "  packet T
{ @tag( 42) match MetaDataX
as repeatCount { [42 ,00 , """"
,
""1"" , 00 ] :
    Z9_ , 0: packetx
    ,
    3 :
    float , 42 :  u8x
, ""1"": i8i8
} // " ++ [128512]%N ++ runes_of_ascii " emoji
, repeat options1 `" ++ [233]%N ++ runes_of_ascii "`,
    @lengthOf( int
    ) chars{
msg_type
,} , }	options
{
    _x = // @lengthOf(
""// no comment""
    }
    // " ++ [128512]%N ++ runes_of_ascii " emoji
    packet
    int { }

")).
Eval vm_compute in ("<<<M1439>>>" ++ check (runes_of_ascii "packet
Logon
{	} // a // b")).
Eval vm_compute in ("<<<M1471>>>" ++ check (runes_of_ascii "options  {
x = zchar[ 00 ]matchKey
    = //	t
i8
; o = char[] } packet	u {
    // c
    metadata @lengthOf(
zchar ), char[0123456789 //
] crc @calculatedFrom( ""a\""b"" ),
packetx charz, }packet  trueish { } options {
    Z9_=
// @lengthOf(
// `tick` ""quote"" 'q'
""" ++ [128512]%N ++ runes_of_ascii """
    // trailing space 
    ; // " ++ [27880; 37322]%N ++ runes_of_ascii "
roots
=' ';
    Header
=
4294967296 ;
falsey =  f64 } options
{ MetaDataX=
false}
")).
Eval vm_compute in ("<<<M1503>>>" ++ check (runes_of_ascii "MetaData//
zchar{}

")).
Eval vm_compute in ("<<<M1535>>>" ++ check (runes_of_ascii " // 50% %s")).
Eval vm_compute in ("<<<M1567>>>" ++ check (runes_of_ascii "packet
    zchar{  } root packet rootA {
    _x
    @lengthOf( A ), @lengthOf( i64_ )
i64 pack@lengthOf( Header
// @lengthOf(
// trailing space 
)
, repeat
char[] x	,
    u128// " ++ [27880; 37322]%N ++ runes_of_ascii "
@calculatedFrom(
""\" ++ [233]%N ++ runes_of_ascii """ )
,
    Z9_
// @lengthOf(
// 50% %s
u128 , } // 50% %s
packet u8x{
@tag(
    42 ) char[] u@calculatedFrom( ""a	b"" ) , stringy body  `
` ,
char[  10 ] x_y_z `" ++ [233]%N ++ runes_of_ascii "`
    ,
@lengthOf( u8x )// packet A { u8 x, }
chars o // 50% %s
`" ++ [233]%N ++ runes_of_ascii "`
// a // b
// @lengthOf(
,
    @lengthOf(i64_ ) @calculatedFrom(""\n""
    )
Z9_ u8x `{ , }`
, }
")).
Eval vm_compute in ("<<<T1567>>>" ++ terms [mkTok 35 "packet" 1 0 false; mkTok 42 "zchar" 2 4 false; mkTok 2 "{" 2 9 false; mkTok 3 "}" 2 12 false; mkTok 34 "root" 2 14 false; mkTok 35 "packet" 2 19 false; mkTok 42 "rootA" 2 26 false; mkTok 2 "{" 2 32 false; mkTok 42 "_x" 3 4 false; mkTok 7 "@lengthOf(" 4 4 false; mkTok 42 "A" 4 15 false; mkTok 6 ")" 4 17 false; mkTok 40 "," 4 18 false; mkTok 7 "@lengthOf(" 4 20 false; mkTok 42 "i64_" 4 31 false; mkTok 6 ")" 4 36 false; mkTok 27 "i64" 5 0 false; mkTok 42 "pack" 5 4 false; mkTok 7 "@lengthOf(" 5 8 false; mkTok 42 "Header" 5 19 false; mkTok 44 "// @lengthOf(" 6 0 true; mkTok 44 "// trailing space " 7 0 true; mkTok 6 ")" 8 0 false; mkTok 40 "," 9 0 false; mkTok 36 "repeat" 9 2 false; mkTok 16 "char[]" 10 0 false; mkTok 42 "x" 10 7 false; mkTok 40 "," 10 9 false; mkTok 42 "u128" 11 4 false; mkTok 44 (string_of_bytes [47; 47; 32; 230; 179; 168; 233; 135; 138]%N) 11 8 true; mkTok 5 "@calculatedFrom(" 12 0 false; mkTok 31 (string_of_bytes [34; 92; 195; 169; 34]%N) 13 0 false; mkTok 6 ")" 13 5 false; mkTok 40 "," 14 0 false; mkTok 42 "Z9_" 15 4 false; mkTok 44 "// @lengthOf(" 16 0 true; mkTok 44 "// 50% %s" 17 0 true; mkTok 42 "u128" 18 0 false; mkTok 40 "," 18 5 false; mkTok 3 "}" 18 7 false; mkTok 44 "// 50% %s" 18 9 true; mkTok 35 "packet" 19 0 false; mkTok 42 "u8x" 19 7 false; mkTok 2 "{" 19 10 false; mkTok 9 "@tag(" 20 0 false; mkTok 30 "42" 21 4 false; mkTok 6 ")" 21 7 false; mkTok 16 "char[]" 21 9 false; mkTok 42 "u" 21 16 false; mkTok 5 "@calculatedFrom(" 21 17 false; mkTok 31 (string_of_bytes [34; 97; 9; 98; 34]%N) 21 34 false; mkTok 6 ")" 21 40 false; mkTok 40 "," 21 42 false; mkTok 42 "stringy" 21 44 false; mkTok 42 "body" 21 52 false; mkTok 43 (string_of_bytes [96; 10; 96]%N) 21 58 false; mkTok 40 "," 22 2 false; mkTok 12 "char[" 23 0 false; mkTok 30 "10" 23 7 false; mkTok 13 "]" 23 10 false; mkTok 42 "x_y_z" 23 12 false; mkTok 43 (string_of_bytes [96; 195; 169; 96]%N) 23 18 false; mkTok 40 "," 24 4 false; mkTok 7 "@lengthOf(" 25 0 false; mkTok 42 "u8x" 25 11 false; mkTok 6 ")" 25 15 false; mkTok 44 "// packet A { u8 x, }" 25 16 true; mkTok 42 "chars" 26 0 false; mkTok 42 "o" 26 6 false; mkTok 44 "// 50% %s" 26 8 true; mkTok 43 (string_of_bytes [96; 195; 169; 96]%N) 27 0 false; mkTok 44 "// a // b" 28 0 true; mkTok 44 "// @lengthOf(" 29 0 true; mkTok 40 "," 30 0 false; mkTok 7 "@lengthOf(" 31 4 false; mkTok 42 "i64_" 31 14 false; mkTok 6 ")" 31 19 false; mkTok 5 "@calculatedFrom(" 31 21 false; mkTok 31 """\n""" 31 37 false; mkTok 6 ")" 32 4 false; mkTok 42 "Z9_" 33 0 false; mkTok 42 "u8x" 33 4 false; mkTok 43 "`{ , }`" 33 8 false; mkTok 40 "," 34 0 false; mkTok 3 "}" 34 2 false; mkTok 0 "<EOF>" 35 0 false] (mkPacket (mkPtok 35 "packet" 1 0 0) (Some (mkPtok 3 "}" 34 2 84)) [(DPacket (mkPacketDef (mkSpan (mkPtok 35 "packet" 1 0 0) (mkPtok 3 "}" 2 12 3)) None (mkPtok 35 "packet" 1 0 0) (mkPtok 42 "zchar" 2 4 1) (mkPtok 2 "{" 2 9 2) [] (mkPtok 3 "}" 2 12 3))); (DPacket (mkPacketDef (mkSpan (mkPtok 34 "root" 2 14 4) (mkPtok 3 "}" 18 7 39)) (Some (mkPtok 34 "root" 2 14 4)) (mkPtok 35 "packet" 2 19 5) (mkPtok 42 "rootA" 2 26 6) (mkPtok 2 "{" 2 32 7) [(mkFieldWithAttr (mkSpan (mkPtok 42 "_x" 3 4 8) (mkPtok 40 "," 4 18 12)) [] (LengthField (mkSpan (mkPtok 42 "_x" 3 4 8) (mkPtok 40 "," 4 18 12)) (mkLengthFieldDecl (mkSpan (mkPtok 42 "_x" 3 4 8) (mkPtok 40 "," 4 18 12)) None (mkPtok 42 "_x" 3 4 8) (mkLengthOf (mkSpan (mkPtok 7 "@lengthOf(" 4 4 9) (mkPtok 6 ")" 4 17 11)) (mkPtok 7 "@lengthOf(" 4 4 9) (mkPtok 42 "A" 4 15 10) (mkPtok 6 ")" 4 17 11)) None (mkPtok 40 "," 4 18 12)))); (mkFieldWithAttr (mkSpan (mkPtok 7 "@lengthOf(" 4 20 13) (mkPtok 40 "," 9 0 23)) [(FALengthOf (mkSpan (mkPtok 7 "@lengthOf(" 4 20 13) (mkPtok 6 ")" 4 36 15)) (mkLengthOf (mkSpan (mkPtok 7 "@lengthOf(" 4 20 13) (mkPtok 6 ")" 4 36 15)) (mkPtok 7 "@lengthOf(" 4 20 13) (mkPtok 42 "i64_" 4 31 14) (mkPtok 6 ")" 4 36 15)))] (LengthField (mkSpan (mkPtok 27 "i64" 5 0 16) (mkPtok 40 "," 9 0 23)) (mkLengthFieldDecl (mkSpan (mkPtok 27 "i64" 5 0 16) (mkPtok 40 "," 9 0 23)) (Some (TyBasic (mkSpan (mkPtok 27 "i64" 5 0 16) (mkPtok 27 "i64" 5 0 16)) (mkBasicType (mkSpan (mkPtok 27 "i64" 5 0 16) (mkPtok 27 "i64" 5 0 16)) (mkPtok 27 "i64" 5 0 16)))) (mkPtok 42 "pack" 5 4 17) (mkLengthOf (mkSpan (mkPtok 7 "@lengthOf(" 5 8 18) (mkPtok 6 ")" 8 0 22)) (mkPtok 7 "@lengthOf(" 5 8 18) (mkPtok 42 "Header" 5 19 19) (mkPtok 6 ")" 8 0 22)) None (mkPtok 40 "," 9 0 23)))); (mkFieldWithAttr (mkSpan (mkPtok 36 "repeat" 9 2 24) (mkPtok 40 "," 10 9 27)) [] (MetaField (mkSpan (mkPtok 36 "repeat" 9 2 24) (mkPtok 40 "," 10 9 27)) (Some (mkPtok 36 "repeat" 9 2 24)) (mkMetaDecl (mkSpan (mkPtok 16 "char[]" 10 0 25) (mkPtok 40 "," 10 9 27)) (TyDynamic (mkSpan (mkPtok 16 "char[]" 10 0 25) (mkPtok 16 "char[]" 10 0 25)) (mkDynamicString (mkSpan (mkPtok 16 "char[]" 10 0 25) (mkPtok 16 "char[]" 10 0 25)) (mkPtok 16 "char[]" 10 0 25))) (mkPtok 42 "x" 10 7 26) None (mkPtok 40 "," 10 9 27)))); (mkFieldWithAttr (mkSpan (mkPtok 42 "u128" 11 4 28) (mkPtok 40 "," 14 0 33)) [] (CheckSumField (mkSpan (mkPtok 42 "u128" 11 4 28) (mkPtok 40 "," 14 0 33)) (mkChecksumFieldDecl (mkSpan (mkPtok 42 "u128" 11 4 28) (mkPtok 40 "," 14 0 33)) None (mkPtok 42 "u128" 11 4 28) (mkCalculatedFrom (mkSpan (mkPtok 5 "@calculatedFrom(" 12 0 30) (mkPtok 6 ")" 13 5 32)) (mkPtok 5 "@calculatedFrom(" 12 0 30) (mkPtok 31 (string_of_bytes [34; 92; 195; 169; 34]%N) 13 0 31) (mkPtok 6 ")" 13 5 32)) None (mkPtok 40 "," 14 0 33)))); (mkFieldWithAttr (mkSpan (mkPtok 42 "Z9_" 15 4 34) (mkPtok 40 "," 18 5 38)) [] (ObjectField (mkSpan (mkPtok 42 "Z9_" 15 4 34) (mkPtok 40 "," 18 5 38)) None (mkPtok 42 "Z9_" 15 4 34) (Some (mkPtok 42 "u128" 18 0 37)) None (mkPtok 40 "," 18 5 38)))] (mkPtok 3 "}" 18 7 39))); (DPacket (mkPacketDef (mkSpan (mkPtok 35 "packet" 19 0 41) (mkPtok 3 "}" 34 2 84)) None (mkPtok 35 "packet" 19 0 41) (mkPtok 42 "u8x" 19 7 42) (mkPtok 2 "{" 19 10 43) [(mkFieldWithAttr (mkSpan (mkPtok 9 "@tag(" 20 0 44) (mkPtok 40 "," 21 42 52)) [(FATag (mkSpan (mkPtok 9 "@tag(" 20 0 44) (mkPtok 6 ")" 21 7 46)) (mkTagAttr (mkSpan (mkPtok 9 "@tag(" 20 0 44) (mkPtok 6 ")" 21 7 46)) (mkPtok 9 "@tag(" 20 0 44) (mkPtok 30 "42" 21 4 45) (mkPtok 6 ")" 21 7 46)))] (CheckSumField (mkSpan (mkPtok 16 "char[]" 21 9 47) (mkPtok 40 "," 21 42 52)) (mkChecksumFieldDecl (mkSpan (mkPtok 16 "char[]" 21 9 47) (mkPtok 40 "," 21 42 52)) (Some (TyDynamic (mkSpan (mkPtok 16 "char[]" 21 9 47) (mkPtok 16 "char[]" 21 9 47)) (mkDynamicString (mkSpan (mkPtok 16 "char[]" 21 9 47) (mkPtok 16 "char[]" 21 9 47)) (mkPtok 16 "char[]" 21 9 47)))) (mkPtok 42 "u" 21 16 48) (mkCalculatedFrom (mkSpan (mkPtok 5 "@calculatedFrom(" 21 17 49) (mkPtok 6 ")" 21 40 51)) (mkPtok 5 "@calculatedFrom(" 21 17 49) (mkPtok 31 (string_of_bytes [34; 97; 9; 98; 34]%N) 21 34 50) (mkPtok 6 ")" 21 40 51)) None (mkPtok 40 "," 21 42 52)))); (mkFieldWithAttr (mkSpan (mkPtok 42 "stringy" 21 44 53) (mkPtok 40 "," 22 2 56)) [] (ObjectField (mkSpan (mkPtok 42 "stringy" 21 44 53) (mkPtok 40 "," 22 2 56)) None (mkPtok 42 "stringy" 21 44 53) (Some (mkPtok 42 "body" 21 52 54)) (Some (mkPtok 43 (string_of_bytes [96; 10; 96]%N) 21 58 55)) (mkPtok 40 "," 22 2 56))); (mkFieldWithAttr (mkSpan (mkPtok 12 "char[" 23 0 57) (mkPtok 40 "," 24 4 62)) [] (MetaField (mkSpan (mkPtok 12 "char[" 23 0 57) (mkPtok 40 "," 24 4 62)) None (mkMetaDecl (mkSpan (mkPtok 12 "char[" 23 0 57) (mkPtok 40 "," 24 4 62)) (TyFixed (mkSpan (mkPtok 12 "char[" 23 0 57) (mkPtok 13 "]" 23 10 59)) (mkFixedString (mkSpan (mkPtok 12 "char[" 23 0 57) (mkPtok 13 "]" 23 10 59)) (mkPtok 12 "char[" 23 0 57) (mkPtok 30 "10" 23 7 58) (mkPtok 13 "]" 23 10 59))) (mkPtok 42 "x_y_z" 23 12 60) (Some (mkPtok 43 (string_of_bytes [96; 195; 169; 96]%N) 23 18 61)) (mkPtok 40 "," 24 4 62)))); (mkFieldWithAttr (mkSpan (mkPtok 7 "@lengthOf(" 25 0 63) (mkPtok 40 "," 30 0 73)) [(FALengthOf (mkSpan (mkPtok 7 "@lengthOf(" 25 0 63) (mkPtok 6 ")" 25 15 65)) (mkLengthOf (mkSpan (mkPtok 7 "@lengthOf(" 25 0 63) (mkPtok 6 ")" 25 15 65)) (mkPtok 7 "@lengthOf(" 25 0 63) (mkPtok 42 "u8x" 25 11 64) (mkPtok 6 ")" 25 15 65)))] (ObjectField (mkSpan (mkPtok 42 "chars" 26 0 67) (mkPtok 40 "," 30 0 73)) None (mkPtok 42 "chars" 26 0 67) (Some (mkPtok 42 "o" 26 6 68)) (Some (mkPtok 43 (string_of_bytes [96; 195; 169; 96]%N) 27 0 70)) (mkPtok 40 "," 30 0 73))); (mkFieldWithAttr (mkSpan (mkPtok 7 "@lengthOf(" 31 4 74) (mkPtok 40 "," 34 0 83)) [(FALengthOf (mkSpan (mkPtok 7 "@lengthOf(" 31 4 74) (mkPtok 6 ")" 31 19 76)) (mkLengthOf (mkSpan (mkPtok 7 "@lengthOf(" 31 4 74) (mkPtok 6 ")" 31 19 76)) (mkPtok 7 "@lengthOf(" 31 4 74) (mkPtok 42 "i64_" 31 14 75) (mkPtok 6 ")" 31 19 76))); (FACalculatedFrom (mkSpan (mkPtok 5 "@calculatedFrom(" 31 21 77) (mkPtok 6 ")" 32 4 79)) (mkCalculatedFrom (mkSpan (mkPtok 5 "@calculatedFrom(" 31 21 77) (mkPtok 6 ")" 32 4 79)) (mkPtok 5 "@calculatedFrom(" 31 21 77) (mkPtok 31 """\n""" 31 37 78) (mkPtok 6 ")" 32 4 79)))] (ObjectField (mkSpan (mkPtok 42 "Z9_" 33 0 80) (mkPtok 40 "," 34 0 83)) None (mkPtok 42 "Z9_" 33 0 80) (Some (mkPtok 42 "u8x" 33 4 81)) (Some (mkPtok 43 "`{ , }`" 33 8 82)) (mkPtok 40 "," 34 0 83)))] (mkPtok 3 "}" 34 2 84)))])).
Eval vm_compute in ("<<<M1599>>>" ++ check (runes_of_ascii "// `tick` ""quote"" 'q'
options { } root packet crc { @calculatedFrom( ""x y""
)
zchar[ 42
    ] _x `tab	here` , }
")).
Eval vm_compute in ("<<<M1631>>>" ++ check (runes_of_ascii "packet
T
// `tick` ""quote"" 'q'
// " ++ [128512]%N ++ runes_of_ascii " emoji
{ i64_{ matchKey Header//
,
repeat int Logon ,	}, repeat x_y_z{
    float32
    Pad @calculatedFrom( ""{,}"")  `line1
line2` , int8 Z9_ @lengthOf(	lengthOf )`` , }	,
@leftPad
( ' ' )  float @calculatedFrom(""" ++ [128512]%N ++ runes_of_ascii """ ), } MetaData _x	{
    string	zchar ,	crc uint8x
`two words` ,  } packet crc// `tick` ""quote"" 'q'
{match o as tag{10 : stringy, }
    // c
    , match	lengthOf as _x {
[""\" ++ [233]%N ++ runes_of_ascii """
    , ""a\\""  ,
    """"	, 3 ,
// " ++ [128512]%N ++ runes_of_ascii " emoji
// a // b
""" ++ [128512]%N ++ runes_of_ascii """ ,0123456789 ,255 ] : float /// triple
1
    : Logon 65535:crc } , @lengthOf(
    roots )match	zchar as packetx
{ [
    """ ++ [233]%N ++ runes_of_ascii "t" ++ [233]%N ++ runes_of_ascii """
] : x_y_z, 007
    : crc // @lengthOf(
, 00 :float } , @lengthOf(matchKey ) u32
    o `it's`,// `tick` ""quote"" 'q'
a1 @lengthOf(
int ) , match Z9_// a // b
as metadata // trailing space 
{	[
4294967296 ,
    ""a\\""
    ]
    :u8x ,
3
    // 50% %s
    : string_ ,} ,
@tag( 0123456789 )match	metadata// packet A { u8 x, }
as// trailing space 
lengthOf// 50% %s
{ """ ++ [233]%N ++ runes_of_ascii "t" ++ [233]%N ++ runes_of_ascii """
    : T
,
0 :u128
,1:	Logon , [	""a	b"" ,
""abc""
    /// triple
    ]
    :packetx //	t
,
    ""abc"" :
// `tick` ""quote"" 'q'
// @lengthOf(
len ,} , }
    options { leftPad=
    ""it's"" ; Z9_ = true ; } root packet
u128 {	u128@calculatedFrom( ""x y"" ) , }
")).
Eval vm_compute in ("<<<M1663>>>" ++ check (runes_of_ascii "// c
options { tag  = true ; }
MetaData tag
    {// a // b
uint64 chars ,} packet// " ++ [128512]%N ++ runes_of_ascii " emoji
MetaDataX{i16 trueish @lengthOf(
    asx ) `line1
line2` , @calculatedFrom(""CRC32""
    )
    uint64 crc , }
packet metadata {
metadata @calculatedFrom(
    ""1""
)`" ++ [233]%N ++ runes_of_ascii "` , } packet Foo {
i32
Packet @calculatedFrom(
    ""\" ++ [233]%N ++ runes_of_ascii """ //	t
) `line1
line2`	, repeat rootA Logon ,
    @rightPad ( '0'
)
    // `tick` ""quote"" 'q'
    repeat
zchar[3 ] matchKey , @calculatedFrom( ""\n"" )
    // a // b
    string body
@calculatedFrom( """ ++ [233]%N ++ runes_of_ascii "t" ++ [233]%N ++ runes_of_ascii """ )	,
    // a // b
    match
    roots
/// triple
//
as rootA { [ 4294967296
    // `tick` ""quote"" 'q'
    , ""// no comment"" , ""a\""b"", 42 ,
42 ] :
metadata ,
    ""1""
//
/// triple
: T //x
, 3 :
    msg_type ,	65535 :pack
, }	,
i8
    f32a `line1
line2`,trueish a1 `line1
line2`
,match u128  as //
repeatCount
{ 007: x_y_z
,//	t
0 ://	t
u  ,	[// c
4294967296 , // " ++ [27880; 37322]%N ++ runes_of_ascii "
00 ,""1""
, 7 , ""\n"",
00 ]:crc,
    ""x y"" :tag , [ """ ++ [128512]%N ++ runes_of_ascii """// `tick` ""quote"" 'q'
,
""{,}"" , //x
3 ,
42 ,""`tick`""]//x
: x """ ++ [233]%N ++ runes_of_ascii "t" ++ [233]%N ++ runes_of_ascii """:
a1 }, @leftPad('0' )@lengthOf( uint8x
    )char[] // 50% %s
chars ,
    }
")).
Eval vm_compute in ("<<<M1695>>>" ++ check (runes_of_ascii "MetaData len { char[] asx `` , u32
    msg_type
, }
packet
uint8x
    {
    zchar[ 007  ]x_y_z@lengthOf( i8i8 ) `it's`
, @leftPad (	'\x00'	)f64 Logon ,} // " ++ [27880; 37322]%N)).
Eval vm_compute in ("<<<M1727>>>" ++ check (runes_of_ascii "packet
uint8x { @tag( 1 )@lengthOf( Packet
/// triple
// `tick` ""quote"" 'q'
)
    repeat T
    ,
repeat options1// trailing space 
`tab	here`
// packet A { u8 x, }
// @lengthOf(
,chars crc  , float32 MetaDataX  `` , @tag( 0123456789 )
    char uint8x
    @calculatedFrom(""" ++ [28040; 24687]%N ++ runes_of_ascii """
)
`a\` , @lengthOf(A )
uint16// packet A { u8 x, }
Z9_
    `line1
line2` ,
    @rightPad
(
'0'
) i32
    repeatCount	@calculatedFrom(""a	b"" ) `a\`	,}
    options
{ Header =""" ++ [28040; 24687]%N ++ runes_of_ascii """
; T = uint8 u8x
    =false ; falsey	= f32 ;
    matchKey
= '0' ;
}")).
Eval vm_compute in ("<<<M1759>>>" ++ check (runes_of_ascii "MetaData _x {}")).
Eval vm_compute in ("<<<M1791>>>" ++ check (runes_of_ascii "MetaData matchKey
    { stringy len, u64 u128 ,zchar[
//x
// `tick` ""quote"" 'q'
0123456789	]// packet A { u8 x, }
Logon , f64 trueish ,} packet // " ++ [128512]%N ++ runes_of_ascii " emoji
falsey
// 50% %s
//
{}
")).
Eval vm_compute in ("<<<T1791>>>" ++ terms [mkTok 37 "MetaData" 1 0 false; mkTok 42 "matchKey" 1 9 false; mkTok 2 "{" 2 4 false; mkTok 42 "stringy" 2 6 false; mkTok 42 "len" 2 14 false; mkTok 40 "," 2 17 false; mkTok 23 "u64" 2 19 false; mkTok 42 "u128" 2 23 false; mkTok 40 "," 2 28 false; mkTok 14 "zchar[" 2 29 false; mkTok 44 "//x" 3 0 true; mkTok 44 "// `tick` ""quote"" 'q'" 4 0 true; mkTok 30 "0123456789" 5 0 false; mkTok 13 "]" 5 11 false; mkTok 44 "// packet A { u8 x, }" 5 12 true; mkTok 42 "Logon" 6 0 false; mkTok 40 "," 6 6 false; mkTok 29 "f64" 6 8 false; mkTok 42 "trueish" 6 12 false; mkTok 40 "," 6 20 false; mkTok 3 "}" 6 21 false; mkTok 35 "packet" 6 23 false; mkTok 44 (string_of_bytes [47; 47; 32; 240; 159; 152; 128; 32; 101; 109; 111; 106; 105]%N) 6 30 true; mkTok 42 "falsey" 7 0 false; mkTok 44 "// 50% %s" 8 0 true; mkTok 44 "//" 9 0 true; mkTok 2 "{" 10 0 false; mkTok 3 "}" 10 1 false; mkTok 0 "<EOF>" 11 0 false] (mkPacket (mkPtok 37 "MetaData" 1 0 0) (Some (mkPtok 3 "}" 10 1 27)) [(DMeta (mkMetaDef (mkSpan (mkPtok 37 "MetaData" 1 0 0) (mkPtok 3 "}" 6 21 20)) (mkPtok 37 "MetaData" 1 0 0) (mkPtok 42 "matchKey" 1 9 1) (mkPtok 2 "{" 2 4 2) [(MIRef (mkRefMetaDecl (mkSpan (mkPtok 42 "stringy" 2 6 3) (mkPtok 40 "," 2 17 5)) (mkPtok 42 "stringy" 2 6 3) (mkPtok 42 "len" 2 14 4) None (mkPtok 40 "," 2 17 5))); (MIDecl (mkMetaDecl (mkSpan (mkPtok 23 "u64" 2 19 6) (mkPtok 40 "," 2 28 8)) (TyBasic (mkSpan (mkPtok 23 "u64" 2 19 6) (mkPtok 23 "u64" 2 19 6)) (mkBasicType (mkSpan (mkPtok 23 "u64" 2 19 6) (mkPtok 23 "u64" 2 19 6)) (mkPtok 23 "u64" 2 19 6))) (mkPtok 42 "u128" 2 23 7) None (mkPtok 40 "," 2 28 8))); (MIDecl (mkMetaDecl (mkSpan (mkPtok 14 "zchar[" 2 29 9) (mkPtok 40 "," 6 6 16)) (TyFixed (mkSpan (mkPtok 14 "zchar[" 2 29 9) (mkPtok 13 "]" 5 11 13)) (mkFixedString (mkSpan (mkPtok 14 "zchar[" 2 29 9) (mkPtok 13 "]" 5 11 13)) (mkPtok 14 "zchar[" 2 29 9) (mkPtok 30 "0123456789" 5 0 12) (mkPtok 13 "]" 5 11 13))) (mkPtok 42 "Logon" 6 0 15) None (mkPtok 40 "," 6 6 16))); (MIDecl (mkMetaDecl (mkSpan (mkPtok 29 "f64" 6 8 17) (mkPtok 40 "," 6 20 19)) (TyBasic (mkSpan (mkPtok 29 "f64" 6 8 17) (mkPtok 29 "f64" 6 8 17)) (mkBasicType (mkSpan (mkPtok 29 "f64" 6 8 17) (mkPtok 29 "f64" 6 8 17)) (mkPtok 29 "f64" 6 8 17))) (mkPtok 42 "trueish" 6 12 18) None (mkPtok 40 "," 6 20 19)))] (mkPtok 3 "}" 6 21 20))); (DPacket (mkPacketDef (mkSpan (mkPtok 35 "packet" 6 23 21) (mkPtok 3 "}" 10 1 27)) None (mkPtok 35 "packet" 6 23 21) (mkPtok 42 "falsey" 7 0 23) (mkPtok 2 "{" 10 0 26) [] (mkPtok 3 "}" 10 1 27)))])).
Eval vm_compute in ("<<<M1823>>>" ++ check (runes_of_ascii "
MetaData
u8x
    { Z9_	msg_type
//	t
// 50% %s
`tab	here` , } packet	float
{@lengthOf( u8x ) u16 tag , } packet trueish {
    @calculatedFrom(""CRC32""//x
) repeat
string stringy
, }
")).
Eval vm_compute in ("<<<M1855>>>" ++ check (runes_of_ascii "MetaData MetaDataX { } MetaData// a // b
i8i8
{ float //
packetx , uint8 falsey ,
    char float
`100% of %d` , Header roots,
char[]	As
, }
")).
Eval vm_compute in ("<<<M1887>>>" ++ check (runes_of_ascii "// trailing space 
packet
    stringy { @lengthOf( crc) // " ++ [128512]%N ++ runes_of_ascii " emoji
string tag
    `" ++ [233]%N ++ runes_of_ascii "`,@lengthOf( uint8x )
@rightPad (
'\x00'
)//
zchar[ 1 ] matchKey
    @calculatedFrom(
    // " ++ [128512]%N ++ runes_of_ascii " emoji
    """ ++ [128512]%N ++ runes_of_ascii """ ) `100% of %d` ,
}
packet chars// 50% %s
{} packet T
{ @calculatedFrom( ""// no comment"" ) repeat //	t
uint32 // " ++ [128512]%N ++ runes_of_ascii " emoji
roots, uint16 float `a\`
    ,
    }

")).
Eval vm_compute in ("<<<M1919>>>" ++ check (runes_of_ascii "//	t
options{BodyLength =uint16 crc= char[ 00 ]
;	uint8x =
    char[] //x
Foo
=false
    ; // @lengthOf(
int =  '\x00'; }
    //x
    packet	matchKey{@lengthOf( repeatCount ) chars  @calculatedFrom( ""a	b""
    )
`{ , }` ,  } options {
    body =zchar[  7
] ; x_y_z=' ' A=	char[
10 ] matchKey =
""CRC32""Z9_=	'0'; }
    MetaData//	t
A { Foo a1	,char[ 42]metadata , char[] rootA	,char[]
    _x	`crlf
line`
,}
")).
Eval vm_compute in ("<<<M1951>>>" ++ check (runes_of_ascii "root
    packet// trailing space 
Logon{ repeat	char[ 65535
]  repeatCount `say ""hi""` , @calculatedFrom(""\n""// packet A { u8 x, }
)i8 string_  , @calculatedFrom(
""1""  ) a1 @calculatedFrom( ""a\""b"") , match
u8x
    as stringy { [7
] :
    Foo  [ 3 ,1 ] :crc
, 4294967296 :metadata, 007: metadata } , @rightPad () repeat T Logon	, // trailing space 
@tag(
    42
    )
    //x
    u8x@calculatedFrom(
    // c
    ""// no comment"") ``	,
    } options
{} packet repeatCount
    {
uint32 // packet A { u8 x, }
int
@lengthOf(crc ) `{ , }` ,match rootA	as f32a
{0123456789
:
u, """ ++ [233]%N ++ runes_of_ascii "t" ++ [233]%N ++ runes_of_ascii """
:
string_
, 0
: // c
len ,
[
""\" ++ [233]%N ++ runes_of_ascii """ // packet A { u8 x, }
, ""a	b""] :
leftPad ,	}
    ,
float32 _x // packet A { u8 x, }
@lengthOf(
    _x ) ,uint64 zchar
@calculatedFrom(""CRC32"" )
    ,// 50% %s
char // packet A { u8 x, }
asx @calculatedFrom( ""\" ++ [233]%N ++ runes_of_ascii """ ),
    }
MetaData
    Header  {u64 x``
, _x _x ,
    // c
    trueish options1,
u16 crc ,
string  stringy `u8 x,` ,
    // packet A { u8 x, }
    char[] tag`a\`
,	} root
packet roots
{ a1@calculatedFrom("""" ) ,	}
")).
Eval vm_compute in ("<<<M1983>>>" ++ check (runes_of_ascii "// trailing space 
options //x
{
// trailing space 
/// triple
charz= ""{,}""
; Logon =
    ""\n""// trailing space 
;}
")).
Eval vm_compute in ("<<<M2015>>>" ++ check (runes_of_ascii "MetaData repeatCount repeatCount { float64 packetx,
} root packet  metadata {
char _x @lengthOf( trueish ), @leftPad
( ' '// " ++ [27880; 37322]%N ++ runes_of_ascii "
)/// triple
char[] len`doc` , // packet A { u8 x, }
repeatCount , }
")).
Eval vm_compute in ("<<<M2047>>>" ++ check (runes_of_ascii "MetaData repeatCount { float64 packetx,
} true packet  metadata {
char _x @lengthOf( trueish ), @leftPad
( ' '// " ++ [27880; 37322]%N ++ runes_of_ascii "
)/// triple
char[] len`doc` , // packet A { u8 x, }
repeatCount , }
")).
Eval vm_compute in ("<<<M2079>>>" ++ check (runes_of_ascii "MetaData repeatCount { float64 packetx,
} root packet  metadata {
char _x @lengthOf(  ), @leftPad
( ' '// " ++ [27880; 37322]%N ++ runes_of_ascii "
)/// triple
char[] len`doc` , // packet A { u8 x, }
repeatCount , }
")).
Eval vm_compute in ("<<<M2111>>>" ++ check (runes_of_ascii "MetaData repeatCount { float64 packetx,
} root packet  metadata {
char _x @lengthOf( trueish ), @leftPad
( ' '// " ++ [27880; 37322]%N ++ runes_of_ascii "
char[]/// triple
) len`doc` , // packet A { u8 x, }
repeatCount , }
")).
Eval vm_compute in ("<<<M2143>>>" ++ check (runes_of_ascii "MetaData repeatCount { float64 packetx,
} root packet  metadata {
char _x @lengthOf( trueish ), @leftPad
( ' '// " ++ [27880; 37322]%N ++ runes_of_ascii "
)/// triple
char[] len`doc` , // packet A { u8 x, }
repeatCount")).
Eval vm_compute in ("<<<M2175>>>" ++ check (runes_of_ascii "options
leftPad
    =65535
;
a1 = true ; packetx=  '\x00' ; packetx
=  """ ++ [28040; 24687]%N ++ runes_of_ascii """MetaDataX= // " ++ [27880; 37322]%N ++ runes_of_ascii "
false }root // c
packet // packet A { u8 x, }
Pad { repeat
u8 Header
// packet A { u8 x, }
//	t
`{ , }`
// a // b
//x
, }
")).
Eval vm_compute in ("<<<M2207>>>" ++ check (runes_of_ascii "options{
leftPad
    =65535
;
a1 true = ; packetx=  '\x00' ; packetx
=  """ ++ [28040; 24687]%N ++ runes_of_ascii """MetaDataX= // " ++ [27880; 37322]%N ++ runes_of_ascii "
false }root // c
packet // packet A { u8 x, }
Pad { repeat
u8 Header
// packet A { u8 x, }
//	t
`{ , }`
// a // b
//x
, }
")).
Eval vm_compute in ("<<<M2239>>>" ++ check (runes_of_ascii "options{
leftPad
    =65535
;
a1 = true ; packetx=  '\x00'")).
Eval vm_compute in ("<<<M2271>>>" ++ check (runes_of_ascii "options{
leftPad
    =65535
;
a1 = true ; packetx=  '\x00' ; packetx
=  """ ++ [28040; 24687]%N ++ runes_of_ascii """MetaDataX= // " ++ [27880; 37322]%N ++ runes_of_ascii "
false } }root // c
packet // packet A { u8 x, }
Pad { repeat
u8 Header
// packet A { u8 x, }
//	t
`{ , }`
// a // b
//x
, }
")).
Eval vm_compute in ("<<<M2303>>>" ++ check (runes_of_ascii "options{
leftPad
    =65535
;
a1 = true ; packetx=  '\x00' ; packetx
=  """ ++ [28040; 24687]%N ++ runes_of_ascii """MetaDataX= // " ++ [27880; 37322]%N ++ runes_of_ascii "
false }root // c
packet // packet A { u8 x, }
Pad { repeat
f32 Header
// packet A { u8 x, }
//	t
`{ , }`
// a // b
//x
, }
")).
Eval vm_compute in ("<<<M2335>>>" ++ check (runes_of_ascii "options{
leftPad
    =65535
;
a1 = true ; packetx=  '\x00' ; packetx
=  """ ++ [28040; 24687]%N ++ runes_of_ascii """MetaDataX= // " ++ [27880; 37322]%N ++ runes_of_ascii "
false }root // c
packet // packet A { u8 x, }
Pad { repeat
u8 Header
// packet A { u8 x, }
//	t
#`{ , }`
// a // b
//x
, }
")).
Eval vm_compute in ("<<<M2367>>>" ++ check (runes_of_ascii "
packet float
{	@calculatedFrom( """ ++ [233]%N ++ runes_of_ascii "t" ++ [233]%N ++ runes_of_ascii """ """ ++ [233]%N ++ runes_of_ascii "t" ++ [233]%N ++ runes_of_ascii """ )
@rightPad ( '\x00' )
    @calculatedFrom( ""x y"" ) string chars  ,
    // a // b
    char[0 ]
    u	@lengthOf( i8i8 ) `{ , }` ,repeat char[] o //x
`// not a comment`, } // c")).
Eval vm_compute in ("<<<M2399>>>" ++ check (runes_of_ascii "
packet float
{	@calculatedFrom( """ ++ [233]%N ++ runes_of_ascii "t" ++ [233]%N ++ runes_of_ascii """ )
@rightPad ( '\x00' )
    ( ""x y"" ) string chars  ,
    // a // b
    char[0 ]
    u	@lengthOf( i8i8 ) `{ , }` ,repeat char[] o //x
`// not a comment`, } // c")).
Eval vm_compute in ("<<<M2431>>>" ++ check (runes_of_ascii "
packet float
{	@calculatedFrom( """ ++ [233]%N ++ runes_of_ascii "t" ++ [233]%N ++ runes_of_ascii """ )
@rightPad ( '\x00' )
    @calculatedFrom( ""x y"" ) string chars  ,
    // a // b
    char[ ]
    u	@lengthOf( i8i8 ) `{ , }` ,repeat char[] o //x
`// not a comment`, } // c")).
Eval vm_compute in ("<<<M2463>>>" ++ check (runes_of_ascii "
packet float
{	@calculatedFrom( """ ++ [233]%N ++ runes_of_ascii "t" ++ [233]%N ++ runes_of_ascii """ )
@rightPad ( '\x00' )
    @calculatedFrom( ""x y"" ) string chars  ,
    // a // b
    char[0 ]
    u	@lengthOf( i8i8 ) , `{ , }`repeat char[] o //x
`// not a comment`, } // c")).
Eval vm_compute in ("<<<M2495>>>" ++ check (runes_of_ascii "
packet float
{	@calculatedFrom( """ ++ [233]%N ++ runes_of_ascii "t" ++ [233]%N ++ runes_of_ascii """ )
@rightPad ( '\x00' )
    @calculatedFrom( ""x y"" ) string chars  ,
    // a // b
    char[0 ]
    u	@lengthOf( i8i8 ) `{ , }` ,repeat char[] o //x
`// not a comment`")).
Eval vm_compute in ("<<<M2527>>>" ++ check (runes_of_ascii "root  u128{
    repeat
    zchar[ 65535 ] u `" ++ [28040; 24687; 31867; 22411]%N ++ runes_of_ascii "` ,// `tick` ""quote"" 'q'
} packet i64_ {repeatCount
    `
` ,	} // " ++ [128512]%N ++ runes_of_ascii " emoji")).
Eval vm_compute in ("<<<M2559>>>" ++ check (runes_of_ascii "root packet u128{
    repeat
    zchar[ 65535 u ] `" ++ [28040; 24687; 31867; 22411]%N ++ runes_of_ascii "` ,// `tick` ""quote"" 'q'
} packet i64_ {repeatCount
    `
` ,	} // " ++ [128512]%N ++ runes_of_ascii " emoji")).
Eval vm_compute in ("<<<M2591>>>" ++ check (runes_of_ascii "root packet u128{
    repeat
    zchar[ 65535 ] u `" ++ [28040; 24687; 31867; 22411]%N ++ runes_of_ascii "` ,// `tick` ""quote"" 'q'
} packet")).
Eval vm_compute in ("<<<M2623>>>" ++ check (runes_of_ascii "root ? packet u128{
    repeat
    zchar[ 65535 ] u `" ++ [28040; 24687; 31867; 22411]%N ++ runes_of_ascii "` ,// `tick` ""quote"" 'q'
} packet i64_ {repeatCount
    `
` ,	} // " ++ [128512]%N ++ runes_of_ascii " emoji")).
Eval vm_compute in ("<<<M2655>>>" ++ check (runes_of_ascii "
MetaData
roots { BodyLength
    int8 ,//	t
}
")).
Eval vm_compute in ("<<<M2687>>>" ++ check (runes_of_ascii "
MetaData
roots { int8
    " ++ [0]%N ++ runes_of_ascii " BodyLength ,//	t
}
")).
Eval vm_compute in ("<<<M2719>>>" ++ check (runes_of_ascii "options {Packet = ""CRC32"" = false; leftPad =
    '\x00'
    // `tick` ""quote"" 'q'
    ; o=255  ;
    // packet A { u8 x, }
    }")).
Eval vm_compute in ("<<<M2751>>>" ++ check (runes_of_ascii "options {Packet = ""CRC32""i8i8 = false; leftPad =
    ;
    // `tick` ""quote"" 'q'
    '\x00' o=255  ;
    // packet A { u8 x, }
    }")).
Eval vm_compute in ("<<<M2783>>>" ++ check (runes_of_ascii "options {Packet")).
Eval vm_compute in ("<<<M2815>>>" ++ check (runes_of_ascii "
packet metadata  @rightPad (
    // packet A { u8 x, }
    ' ' ) repeat u32	A
,matchKey ,
    @lengthOf( string_ ) @lengthOf( body )
    // a // b
    @lengthOf(float  )	repeat
int32 u8x
    // c
    `tab	here`
, } // a // b")).
Eval vm_compute in ("<<<M2847>>>" ++ check (runes_of_ascii "
packet metadata { @rightPad (
    // packet A { u8 x, }
    ' ' ) repeat A	u32
,matchKey ,
    @lengthOf( string_ ) @lengthOf( body )
    // a // b
    @lengthOf(float  )	repeat
int32 u8x
    // c
    `tab	here`
, } // a // b")).
Eval vm_compute in ("<<<M2879>>>" ++ check (runes_of_ascii "
packet metadata { @rightPad (
    // packet A { u8 x, }
    ' ' ) repeat u32	A
,matchKey ,
    @lengthOf(")).
Eval vm_compute in ("<<<M2911>>>" ++ check (runes_of_ascii "
packet metadata { @rightPad (
    // packet A { u8 x, }
    ' ' ) repeat u32	A
,matchKey ,
    @lengthOf( string_ ) @lengthOf( body )
    // a // b
    @lengthOf(float  ) )	repeat
int32 u8x
    // c
    `tab	here`
, } // a // b")).
Eval vm_compute in ("<<<M2943>>>" ++ check (runes_of_ascii "
packet metadata { @rightPad (
    // packet A { u8 x, }
    ' ' ) repeat u32	A
,matchKey ,
    @lengthOf( string_ ) @lengthOf( body )
    // a // b
    @lengthOf(float  )	repeat
int32 u8x
    // c
    `tab	here`
,")).
Eval vm_compute in ("<<<M2975>>>" ++ check (runes_of_ascii "packet")).
Eval vm_compute in ("<<<M3007>>>" ++ check (runes_of_ascii "packet x{
string
zchar ', //	t
}
")).
Eval vm_compute in ("<<<M3039>>>" ++ check (runes_of_ascii "
MetaData Logon
{ // c
root} packet
    Pad {
    } options
{
u
    =
    ""CRC32""
    // " ++ [128512]%N ++ runes_of_ascii " emoji
    i64_ = u16;
T =65535 x = ' '
    ; u128
= true ; }")).
Eval vm_compute in ("<<<M3071>>>" ++ check (runes_of_ascii "
MetaData Logon
{ // c
}root packet
    Pad {
    }")).
Eval vm_compute in ("<<<M3103>>>" ++ check (runes_of_ascii "
MetaData Logon
{ // c
}root packet
    Pad {
    } options
{
u
    =
    ""CRC32""
    // " ++ [128512]%N ++ runes_of_ascii " emoji
    i64_ = u16 u16;
T =65535 x = ' '
    ; u128
= true ; }")).
Eval vm_compute in ("<<<M3135>>>" ++ check (runes_of_ascii "
MetaData Logon
{ // c
}root packet
    Pad {
    } options
{
u
    =
    ""CRC32""
    // " ++ [128512]%N ++ runes_of_ascii " emoji
    i64_ = u16;
T =65535 x ""a\""b"" ' '
    ; u128
= true ; }")).
Eval vm_compute in ("<<<M3167>>>" ++ check (runes_of_ascii "
MetaData Logon
{ // c
}root packet
    Pad {
    } options
{
u
    =
    ""CRC32""
    // " ++ [128512]%N ++ runes_of_ascii " emoji
    i64_ = u16;
T =65535 x = ' '
    ; u128
= true ; ")).
Eval vm_compute in ("<<<M3199>>>" ++ check (runes_of_ascii "MetaData body body{}
packet	Packet { x_y_z @calculatedFrom(  ""a\\"")// `tick` ""quote"" 'q'
, }
")).
Eval vm_compute in ("<<<M3231>>>" ++ check (runes_of_ascii "MetaData body{}
packet	Packet { uint64 @calculatedFrom(  ""a\\"")// `tick` ""quote"" 'q'
, }
")).
Eval vm_compute in ("<<<M3263>>>" ++ check (runes_of_ascii "MetaData body{}
packet	Packet { x_y_z# @calculatedFrom(  ""a\\"")// `tick` ""quote"" 'q'
, }
")).
Eval vm_compute in ("<<<M3295>>>" ++ check (runes_of_ascii "packet f32a {} } root packet len {repeat u // " ++ [128512]%N ++ runes_of_ascii " emoji
`{ , }` , }
")).
Eval vm_compute in ("<<<M3327>>>" ++ check (runes_of_ascii "packet f32a {} root packet len {repeat u16 // " ++ [128512]%N ++ runes_of_ascii " emoji
`{ , }` , }
")).
Eval vm_compute in ("<<<M3359>>>" ++ check (runes_of_ascii "packet f32a {} root packet " ++ [233]%N ++ runes_of_ascii "len {repeat u // " ++ [128512]%N ++ runes_of_ascii " emoji
`{ , }` , }
")).
Eval vm_compute in ("<<<M3391>>>" ++ check (runes_of_ascii "options{ _x=""\" ++ [233]%N ++ runes_of_ascii """;
    Logon = 10	; Foo= 7;
i64_= char[]} options {
matchKey = ""// no comment"" // a // b
falsey = string
; trueish =
    4294967296
options1=
    ""it's"" string_	 true } options {
    /// triple
    }")).
Eval vm_compute in ("<<<M3423>>>" ++ check (runes_of_ascii "options{ _x=""\" ++ [233]%N ++ runes_of_ascii """;
    Logon = 10	; Foo= 7;
i64_= char[]} options 
matchKey = ""// no comment"" // a // b
falsey = string
; trueish =
    4294967296
options1=
    ""it's"" string_	= true } options {
    /// triple
    }")).
Eval vm_compute in ("<<<M3455>>>" ++ check (runes_of_ascii "options{ _x=""\" ++ [233]%N ++ runes_of_ascii """;
    Logon = 10	; Foo= 7;
i64_= char[]} |options {
matchKey = ""// no comment"" // a // b
falsey = string
; trueish =
    4294967296
options1=
    ""it's"" string_	= true } options {
    /// triple
    }")).
Eval vm_compute in ("<<<M3487>>>" ++ check (runes_of_ascii "options{ _x=""\" ++ [233]%N ++ runes_of_ascii """;
    Logon = 10	; Foo= 7;
i64_= char[]} options options {
matchKey = ""// no comment"" // a // b
falsey = string
; trueish =
    4294967296
options1=
    ""it's"" string_	= true } options {
    /// triple
    }")).
Eval vm_compute in ("<<<M3519>>>" ++ check (runes_of_ascii "options")).
Eval vm_compute in ("<<<M3551>>>" ++ check (runes_of_ascii "@left")).
Eval vm_compute in ("<<<M3583>>>" ++ check (runes_of_ascii """//""")).
Eval vm_compute in ("<<<M3615>>>" ++ check (runes_of_ascii "a" ++ [11]%N ++ runes_of_ascii "b")).
Eval vm_compute in ("<<<M3647>>>" ++ check (runes_of_ascii "packet A { char[ 3 ] , }")).
Eval vm_compute in ("<<<M3679>>>" ++ check (runes_of_ascii "packet A { match k n { 1 : B }, }")).
Eval vm_compute in ("<<<M3711>>>" ++ check (runes_of_ascii "packet A { } x packet B { }")).
Eval vm_compute in ("<<<M3743>>>" ++ check (runes_of_ascii "}")).
Eval vm_compute in ("<<<M3775>>>" ++ check (runes_of_ascii "; } uint64 i32 uint8 ( '0' = , string true } , int8")).
Eval vm_compute in ("<<<M3807>>>" ++ check (runes_of_ascii "char[ = { packet '\x00' int16 zchar[ : ) As int64 u16 `// not a comment`")).
Eval vm_compute in ("<<<M3839>>>" ++ check (runes_of_ascii "f32 string = root")).
Eval vm_compute in ("<<<M3871>>>" ++ check (runes_of_ascii "as u32 ) , @tag( u16 float32 = = uint16 asx {")).
Eval vm_compute in ("<<<M3903>>>" ++ check (runes_of_ascii "as match i64 '0' @calculatedFrom( int8 [ false")).
Eval vm_compute in ("<<<M3935>>>" ++ check (runes_of_ascii "options true { ; f64 as ) u32 f64 i16 string @leftPad")).
Eval vm_compute in ("<<<M3967>>>" ++ check (runes_of_ascii "true uint16 false { char[ root i64 } @tag( i32 0123456789")).
Eval vm_compute in ("<<<M3999>>>" ++ check (runes_of_ascii "uint8 , ] @lengthOf( match 42 [")).
