From FP Require Import Lexer Parser ShowPT Digest Formatter.
From Coq Require Import String List NArith.
Import ListNotations.
Open Scope string_scope.
Set Printing Width 100000000.
Set Printing Depth 100000000.
Definition show_fres (r : fres) : string :=
  match r with
  | FOk s => "OK:" ++ sh_escaped s ""
  | FErr s => "ERR:" ++ sh_escaped s ""
  | FPanic p => "PANIC:" ++ p
  end.
Definition check (rs : list rune) : string := digest (show_fres (format_res rs)).
Definition full (rs : list rune) : string := show_fres (format_res rs).
Eval vm_compute in ("<<<M1232>>>" ++ check (runes_of_ascii "packet u {
    @leftPad
( '\x00' ) match
    // @lengthOf(
    pack
as	Logon {""" ++ [28040; 24687]%N ++ runes_of_ascii """  : As ,""`tick`""
    : asx// " ++ [27880; 37322]%N ++ runes_of_ascii "
, 0 : float} ,
// @lengthOf(
// " ++ [128512]%N ++ runes_of_ascii " emoji
string trueish@calculatedFrom(""a	b"") , // " ++ [27880; 37322]%N ++ runes_of_ascii "
match matchKey as
// @lengthOf(
//	t
options1{
//x
/// triple
00 :
lengthOf
// @lengthOf(
//x
} , match
roots as Header
{
    42
    :
    string_
,
[ 10 ,
""a\""b"" ,
    ""\" ++ [233]%N ++ runes_of_ascii """ ,""\" ++ [233]%N ++ runes_of_ascii """  ,
""CRC32"" ,""1"" , ""it's""
// " ++ [27880; 37322]%N ++ runes_of_ascii "
// trailing space 
, ""abc"" ]
    :
lengthOf , ""CRC32"" :  As }, char[] falsey , //	t
chars
@lengthOf( a1
)
    //
    , @tag( 255 )
@lengthOf(x )	match metadata as // " ++ [128512]%N ++ runes_of_ascii " emoji
rootA {007:
trueish ,	00 :
metadata , [ 0123456789] : x_y_z ,0 : Logon }
    ,@leftPad ('\x00' )
    zchar[ 1 ]pack `" ++ [233]%N ++ runes_of_ascii "`
, @leftPad
( )
    match x_y_z	as	Z9_ {
// a // b
//x
""" ++ [128512]%N ++ runes_of_ascii """ :leftPad } // packet A { u8 x, }
,  repeat	Z9_	`tab	here` , // trailing space 
} options
// `tick` ""quote"" 'q'
// " ++ [128512]%N ++ runes_of_ascii " emoji
{ uint8x
    = string	;
}MetaData
    // packet A { u8 x, }
    MetaDataX
    {
    i64_ uint8x ,
    zchar[
0 ]float
,char[] packetx // c
`it's`,
    }
root
packet
crc {
@tag(
1 ) i64_ // @lengthOf(
@calculatedFrom(
    """ ++ [233]%N ++ runes_of_ascii "t" ++ [233]%N ++ runes_of_ascii """
),//x
@calculatedFrom( ""\n"" ) @calculatedFrom( ""it's"")@calculatedFrom( ""a\\""
    ) chars
uint8x , @tag(7)match Logon as
    string_ { 3 : a1 , // " ++ [128512]%N ++ runes_of_ascii " emoji
}// trailing space 
, int16 i64_`
`
    , @tag(
1 )
falsey T
, } root packet Foo { // trailing space 
repeat // `tick` ""quote"" 'q'
zchar{ i64_
@calculatedFrom( //x
""" ++ [233]%N ++ runes_of_ascii "t" ++ [233]%N ++ runes_of_ascii """ ) `line1
line2`, match matchKey as
zchar {
    ""1"": As	[
0 ]
// a // b
//
: f32a
    , [ ""x y"" ] // packet A { u8 x, }
: body , ""it's""
: _x , [ """ ++ [28040; 24687]%N ++ runes_of_ascii """ ,007
]
    :matchKey
    ""x y"" : x_y_z
, }
,
    zchar[ 7 ] metadata @lengthOf(_x )`// not a comment`	, float  @lengthOf(
    matchKey /// triple
) ,	}
, packetx
@calculatedFrom( ""// no comment""	)  , roots @lengthOf(falsey ), // " ++ [128512]%N ++ runes_of_ascii " emoji
u8
calculatedFrom
    `{ , }` ,
char[ 10 ]repeatCount // `tick` ""quote"" 'q'
`crlf
line` , @lengthOf(
float//x
)
int16 int `two words` , repeat
u64 x
, i8i8
@lengthOf(Packet )
`" ++ [28040; 24687; 31867; 22411]%N ++ runes_of_ascii "`
, }")).
Eval vm_compute in ("<<<M95>>>" ++ check (runes_of_ascii "MetaData chars {} packet lengthOf
{ @lengthOf(_x )uint16 /// triple
Z9_`" ++ [28040; 24687; 31867; 22411]%N ++ runes_of_ascii "`, repeat BodyLength{ repeat
    u8x zchar  , } ,a1	,
    // " ++ [27880; 37322]%N ++ runes_of_ascii "
    T @calculatedFrom( ""\" ++ [233]%N ++ runes_of_ascii """)
, match //	t
calculatedFrom
    as string_
    // " ++ [27880; 37322]%N ++ runes_of_ascii "
    { """ ++ [233]%N ++ runes_of_ascii "t" ++ [233]%N ++ runes_of_ascii """
    :// `tick` ""quote"" 'q'
_x // " ++ [128512]%N ++ runes_of_ascii " emoji
, ""a	b""
    : zchar [ ""x y"",
    10
    ,	""abc""
,
""packet""
, // c
""{,}"" //
,00] :  u128 ,""abc"":x_y_z
    ,  """ ++ [233]%N ++ runes_of_ascii "t" ++ [233]%N ++ runes_of_ascii """
    : // packet A { u8 x, }
packetx
} // a // b
, zchar[
    1 ]// " ++ [128512]%N ++ runes_of_ascii " emoji
A
    // " ++ [27880; 37322]%N ++ runes_of_ascii "
    @lengthOf( float
    // `tick` ""quote"" 'q'
    ) `say ""hi""`
    // trailing space 
    , repeat f32 asx
// " ++ [27880; 37322]%N ++ runes_of_ascii "
// " ++ [128512]%N ++ runes_of_ascii " emoji
,
    // " ++ [128512]%N ++ runes_of_ascii " emoji
    @rightPad
    ( ' ' // a // b
)	char[] msg_type `say ""hi""`,
} packet Pad
// " ++ [27880; 37322]%N ++ runes_of_ascii "
// " ++ [27880; 37322]%N ++ runes_of_ascii "
{ As @lengthOf( rootA )
`say ""hi""` , repeat
    _x // trailing space 
{
    Logon
Foo, // `tick` ""quote"" 'q'
falsey
MetaDataX ,
    }  ,msg_type
    // trailing space 
    roots `line1
line2`,pack pack , chars	`crlf
line` ,@lengthOf(lengthOf) match lengthOf
    as o { 3
    : falsey
    , } ,}packet // trailing space 
o {// packet A { u8 x, }
i64_`{ , }` ,
match MetaDataX as Foo { """ ++ [233]%N ++ runes_of_ascii "t" ++ [233]%N ++ runes_of_ascii """ :
    leftPad ,
[	00 ] : f32a
[ ""`tick`"",
    0123456789
]
: float ,
""it's"" : pack
, ""`tick`"" :
charz } ,
options1
    leftPad ,// packet A { u8 x, }
string body //
, @calculatedFrom(
""{,}""  )As
    //	t
    , // " ++ [128512]%N ++ runes_of_ascii " emoji
match u as
    Packet
    {
    ""it's"" :
_x	, 10 : BodyLength , ""\n"" :
float 4294967296 :falsey , 007 :	charz
,00 :stringy , },  repeat string_ ,
}root packet
Foo	{ repeat
    // " ++ [27880; 37322]%N ++ runes_of_ascii "
    char[	7 ] lengthOf `
`
    ,
//	t
//x
@lengthOf( Packet ) repeat // `tick` ""quote"" 'q'
i32 float , options1 _x	`{ , }`
, }
")).
Eval vm_compute in ("<<<M89>>>" ++ check (runes_of_ascii "packet
x
    // `tick` ""quote"" 'q'
    { len// c
{// " ++ [27880; 37322]%N ++ runes_of_ascii "
repeat
i32	crc `say ""hi""` , match
    chars as Packet
{ 0123456789//	t
: Pad 0123456789 :
falsey
    // " ++ [27880; 37322]%N ++ runes_of_ascii "
    [
4294967296
    , 3
    ,
4294967296 , 0, ""1"" ] :roots,
""a\\""
:
_x 3
    : packetx } , repeat string
    stringy `tab	here`
,  match roots as lengthOf{
""abc"" //	t
:
packetx , } // packet A { u8 x, }
, } ,@lengthOf( chars )match  rootA
    // trailing space 
    as roots{
""\n"" //
:
    Packet ,} , // `tick` ""quote"" 'q'
string As `" ++ [28040; 24687; 31867; 22411]%N ++ runes_of_ascii "` , @rightPad (
'\x00' ) int64 trueish @lengthOf( lengthOf )  `" ++ [233]%N ++ runes_of_ascii "` , } packet	len {	} options
    {a1
    // packet A { u8 x, }
    = false
    // a // b
    }packet Z9_{ repeat zchar[ 00
]  options1
    //x
    ,	@lengthOf( falsey ) repeat//	t
i8 options1 `two words`
, @rightPad//
() i8 msg_type, char[3]
lengthOf `{ , }`	,  string _x,@leftPad (
) // c
uint16	chars,
// @lengthOf(
//
@lengthOf(
crc
    )@leftPad
    (
    // " ++ [128512]%N ++ runes_of_ascii " emoji
    '0' ) repeat
stringy calculatedFrom , string
// " ++ [27880; 37322]%N ++ runes_of_ascii "
//
int `line1
line2`, @rightPad
( ' '
    ) match Foo as
    rootA //x
{ [ ""packet"", ""a\""b"", """ ++ [128512]%N ++ runes_of_ascii """
    ,""""	,
    42 ] : u
// a // b
// packet A { u8 x, }
,
0 // " ++ [27880; 37322]%N ++ runes_of_ascii "
:	A
    , // trailing space 
00
:
asx
//x
// trailing space 
0 :  x_y_z
    ,
""CRC32"" : i64_
, 42 : x
// c
// " ++ [128512]%N ++ runes_of_ascii " emoji
, } , roots{ repeat zchar[10 ] stringy `" ++ [28040; 24687; 31867; 22411]%N ++ runes_of_ascii "` ,	} , } MetaData
    // `tick` ""quote"" 'q'
    tag{ f32 tag
    ``, }
")).
Eval vm_compute in ("<<<M1404>>>" ++ check (runes_of_ascii "options {
    StringPrefixLenType = u16;
    ArrayPrefixLenType = u16;
}

packet SampleBinary {
    uint16 MsgType `" ++ [28040; 24687; 31867; 22411]%N ++ runes_of_ascii "`,
    u16 BodyLenght @lengthOf(Body) `" ++ [28040; 24687; 20307; 38271; 24230]%N ++ runes_of_ascii "`,
    match MsgType as Body {
        1 : Logon,
        2 : Logout,
        3 : Heartbeat,
        4 : RiskControlRequest,
        5 : RiskControlResponse,
    },
    @calculatedFrom(""CRC32"")
    u32 Ckecksum `" ++ [26657; 39564; 21644]%N ++ runes_of_ascii "`,
}

packet Logon {
    @leftPad('0')
    char[10] UserName `" ++ [29992; 25143; 21517]%N ++ runes_of_ascii "`,
    string Password `" ++ [23494; 30721]%N ++ runes_of_ascii "`,
    uint64 ClientId `" ++ [23458; 25143; 31471]%N ++ runes_of_ascii "ID`,
    u16 HeartbeatInterval `" ++ [24515; 36339; 38388; 38548]%N ++ runes_of_ascii "`,
}

packet Logout {
    @rightPad('0')
    char[10] UserName `" ++ [29992; 25143; 21517]%N ++ runes_of_ascii "`,
    uint64 ClientId `" ++ [23458; 25143; 31471]%N ++ runes_of_ascii "ID`,
}

packet Heartbeat {
}

packet RiskControlRequest {
    string UniqueOrderId `" ++ [21807; 19968; 35746; 21333; 21495]%N ++ runes_of_ascii "`,
    char[16] ClOrdID `" ++ [23458; 25143; 35746; 21333; 21495]%N ++ runes_of_ascii "`,
    char[3] MarketID `" ++ [24066; 22330]%N ++ runes_of_ascii "id`,
    char[12] SecurityID `" ++ [35777; 21048; 20195; 30721]%N ++ runes_of_ascii "`,
    char Side `" ++ [20080; 21334; 26041; 21521]%N ++ runes_of_ascii "`,
    char OrderType `" ++ [35746; 21333; 31867; 22411]%N ++ runes_of_ascii "`,
    u64 Price `" ++ [20215; 26684]%N ++ runes_of_ascii "`,
    u32 Qty `" ++ [25968; 37327]%N ++ runes_of_ascii "`,
    repeat string ExtraInfo `" ++ [38468; 21152; 20449; 24687]%N ++ runes_of_ascii "`,
    repeat SubOrder {
        char[16] ClOrdID `" ++ [23376; 35746; 21333; 21495]%N ++ runes_of_ascii "`,
        u64 Price `" ++ [23376; 35746; 21333; 20215; 26684]%N ++ runes_of_ascii "`,
        u32 Qty `" ++ [23376; 35746; 21333; 25968; 37327]%N ++ runes_of_ascii "`,
    },
}

packet RiskControlResponse {
    string UniqueOrderId `" ++ [21807; 19968; 35746; 21333; 21495]%N ++ runes_of_ascii "`,
    i32 Status `" ++ [29366; 24577]%N ++ runes_of_ascii "`,
    string Msg `" ++ [32467; 26524; 20449; 24687]%N ++ runes_of_ascii "`,
    repeat Detail,
}

packet Detail {
    string RuleName `" ++ [35268; 21017; 21517; 31216]%N ++ runes_of_ascii "`,
    u16 Code `" ++ [21407; 22240; 20195; 30721]%N ++ runes_of_ascii "`,
}")).
Eval vm_compute in ("<<<M4407>>>" ++ check (runes_of_ascii "packet Packet {
}

packet repeatCount {
    @tag(4294967296)
    @lengthOf(A)
    @lengthOf(float)
    rootA,
    @tag(0123456789)
    Header `// not a comment`,
    matchKey f32a,
    Pad,
    repeat float32 uint8x `" ++ [233]%N ++ runes_of_ascii "`,
    @leftPad('\x00')
    repeat char[3] tag `
    `,
    repeat pack {
        repeat x {
            repeat f64 len,
            i64_ len,
        },
        repeatCount @lengthOf(uint8x),
        match zchar as a1 {
            // a // b
            // packet A { u8 x, }
            3 : u,
        },// packet A { u8 x, }
        repeat rootA {
            options1 {
                repeat body u8x `crlf
                line`,
                match Z9_ as f32a {
                    007 : repeatCount,
                    ""packet"" : calculatedFrom,
                    // " ++ [128512]%N ++ runes_of_ascii " emoji
                    10 : calculatedFrom,
                    ""CRC32"" : _x,
                    [""x y""] : i64_,
                    ""packet"" : MetaDataX,
                },
            },
        },
    },
}

MetaData asx {
    u trueish,
    chars f32a `// not a comment`,
    float64 u128,
    string_ string_ `
    `,
}

packet crc {
}")).
Eval vm_compute in ("<<<M245>>>" ++ check (runes_of_ascii "packet As { @lengthOf( // c
u8x )
    repeat u32 T ,
string Foo@calculatedFrom(
""it's"" ) `doc`  , @tag(
// a // b
// " ++ [27880; 37322]%N ++ runes_of_ascii "
00) //
@tag( 42 )	repeatCount { packetx { repeat// @lengthOf(
f64 x_y_z
    `doc` //x
,
repeat
    char[65535
] crc ,} ,
    u16 A , o @lengthOf( MetaDataX)  `// not a comment`
    , repeat string  BodyLength `
`
    /// triple
    , }, repeatCount
@lengthOf( chars)
,  match //	t
uint8x
    as As  {007 :
Packet """"  : Header 3
:zchar 7
// packet A { u8 x, }
// " ++ [27880; 37322]%N ++ runes_of_ascii "
:
u128 , [ 4294967296 ,	""x y"" // " ++ [128512]%N ++ runes_of_ascii " emoji
]
:
crc
[ ""1"" ,
    00]:
//x
// @lengthOf(
int ,	}
,
@lengthOf( Foo ) repeat // " ++ [128512]%N ++ runes_of_ascii " emoji
u
{string float
// packet A { u8 x, }
/// triple
,  string matchKey
    @calculatedFrom( ""it's"" // " ++ [128512]%N ++ runes_of_ascii " emoji
)  `it's` ,
    repeat Packet repeatCount
    ,
    }, @lengthOf( T)
A
    //x
    @lengthOf( rootA // c
) `` ,
    repeatCount // " ++ [128512]%N ++ runes_of_ascii " emoji
@calculatedFrom( ""packet"" ) , char[] x
// `tick` ""quote"" 'q'
// packet A { u8 x, }
@calculatedFrom( ""abc"" ) `crlf
line` , }packet
i8i8
// c
// trailing space 
{} options{ MetaDataX=true ;//x
charz	=
    true ; }
")).
Eval vm_compute in ("<<<M4060>>>" ++ check (runes_of_ascii "packet
T
{
}
root packet
    BodyLength {
match falsey as  MetaDataX{
	[
    4294967296

    ]  :
    _x ,// @lengthOf(

  00
:  options1 [  007
,	// `tick` ""quote"" 'q'
65535	, 
""CRC32""	// " ++ [128512]%N ++ runes_of_ascii " emoji
    ]
    :
i64_
	,	}
    , @leftPad (	)
metadata `doc`  //x
,Z9_ 
{repeat
	float32
	lengthOf

, packetx  { 
uint16 zchar 
@calculatedFrom(

    """ ++ [28040; 24687]%N ++ runes_of_ascii """ ) 
, }
	,
}
,

    @tag(

    7
)

    uint32  metadata
@calculatedFrom( ""{,}"") ,
	char[ 65535  ] string_	`a\`,

    } packet

zchar
	{  trueish

`crlf
line`

,
	@tag( 
00)

    float
	Pad 	 // c
	  ,
	int16	//x

options1
@calculatedFrom(

    ""a\\"" 
) ,	@calculatedFrom(
	""x y"")
@lengthOf(

    string_ ) metadata

    @calculatedFrom(

    ""`tick`""

    )

`crlf
line`
,
crc
        // trailing space 
  	packetx`crlf
line` 
,
metadata 
// a // b
// a // b
  	packetx

`// not a comment`, i8 u128 
        //	t
    	@lengthOf(	int )
    ,  //	t

@rightPad(
' '
)  Header @lengthOf(
leftPad
)
    `doc`
    ,

    i8i8	Header ``
, }
")).
Eval vm_compute in ("<<<M3541>>>" ++ check (runes_of_ascii "

  options
{ 
StringPrefixLenType  =
u8 ; 
ArrayPrefixLenType 
= 
u32
	;
    FixedStringPadFromLeft

=
	false ;
FixedStringPadChar =' '
    ; } packet
    Party
    {repeat

i16 
Qty,	repeat
    string
    Tail  ,
    i8  OrderId ,i8	msgKind 
, }
    packet Ack
{ 
Party,	repeat
InRef20 
{Party
, int8  tag7	,	char[ 
5

    ]

    OrderId ,
	zchar[ 7 
]

    Tail , char[]
    count

,InPrice45{

    Party
,char[ 
1 ] Px	,

},
    }

    , 
char[12	]
price  ,
    int8  sym
, }
	packet

    Reject  {
repeat

    InPrice47  {
	Party, } , zchar[ 4] x,
repeat
Ack

, 
zchar[
2]Ref
,  repeat Party

,} packet	Cancel

    {
    Reject
,
repeat  string	f1
	,
	uint16
    OrderId
	,

    u8
	Acct

, int8	msgKind,
    }
root packet 
Fill { u8
    count

,  char[] tag7
    ,
    zchar[	7] Acct ,u32
OrderId ,u32
    Note
	@lengthOf(Body

    ),
match OrderId
as  Body
{106
:	Cancel
	,	196:	Reject ,74 :

    Party
,
    75  :  Ack

,
	}
,	}
")).
Eval vm_compute in ("<<<M1106>>>" ++ check (runes_of_ascii "options
    {Pad //x
= """" ;// trailing space 
zchar =char[ 65535 ] Foo // c
= 1; } packet asx {
repeat char u128
// " ++ [27880; 37322]%N ++ runes_of_ascii "
//x
, i16 Pad ,x @lengthOf( Packet )`
`, @tag( 10 ) repeat float32	i64_
`// not a comment`,
@calculatedFrom("""") @calculatedFrom( """")
@calculatedFrom(
    ""it's"") repeat  BodyLength Foo ``, /// triple
matchKey
    As `say ""hi""` ,
@rightPad
( ' ' ) i8i8 BodyLength `" ++ [233]%N ++ runes_of_ascii "`, } packet Pad
{@tag( 10 ) match
o // a // b
as zchar {[  ""abc""
    ] : i8i8
,
""// no comment"" : T ,
} ,
u128  f32a`{ , }`,  @rightPad	( ) float64 Packet @lengthOf(	chars )  `it's`, @rightPad (
'0' /// triple
) repeat
    zchar
Packet `" ++ [28040; 24687; 31867; 22411]%N ++ runes_of_ascii "`
, @tag( 00
// a // b
/// triple
)@rightPad( '0' ) match u as	pack {""" ++ [28040; 24687]%N ++ runes_of_ascii """ : repeatCount ""abc"" : Foo  7:A ,
""\" ++ [233]%N ++ runes_of_ascii """// packet A { u8 x, }
:_x , } ,	As @lengthOf( int
    )
//
// " ++ [128512]%N ++ runes_of_ascii " emoji
, char[ 7 ] rootA
    @lengthOf( leftPad)
    `{ , }` , repeat f64 x , @calculatedFrom( """ ++ [128512]%N ++ runes_of_ascii """ )
char[] u128
,  }")).
Eval vm_compute in ("<<<M881>>>" ++ check (runes_of_ascii "
packet
matchKey { @tag( // `tick` ""quote"" 'q'
00	) x // " ++ [128512]%N ++ runes_of_ascii " emoji
@calculatedFrom( ""a\\"" )
    ,
    } packet metadata{ @tag(	0
) zchar[ 3] // " ++ [27880; 37322]%N ++ runes_of_ascii "
asx @lengthOf( msg_type )
, @tag( 65535 )zchar[ 1
    ] Header ,@calculatedFrom(""`tick`"") @calculatedFrom( ""it's"" ) @lengthOf( i8i8
    // trailing space 
    ) f32a { repeat A{
    repeat repeatCount
// @lengthOf(
// " ++ [128512]%N ++ runes_of_ascii " emoji
T ,
    },
    uint8x { //	t
int64 As`line1
line2` ,	zchar[
007 ]
    //x
    Pad // a // b
`u8 x,`, repeat  trueish
    // trailing space 
    { repeat  char[ 1
    ]
i8i8 `crlf
line` ,string_ metadata
    `` , // a // b
zchar ,	i8i8
    int
    `" ++ [28040; 24687; 31867; 22411]%N ++ runes_of_ascii "` ,} // " ++ [128512]%N ++ runes_of_ascii " emoji
,
} , },
    @calculatedFrom( """"
    // `tick` ""quote"" 'q'
    ) zchar[
007 ]o , } // trailing space 
packet
a1
{
i16 A @calculatedFrom( ""\" ++ [233]%N ++ runes_of_ascii """
    // trailing space 
    ) `line1
line2` ,@leftPad( ) @tag( 7	) pack
{ repeat As ,
} , // c
}")).
Eval vm_compute in ("<<<M619>>>" ++ check (runes_of_ascii "  root packet repeatCount { @tag(10 )char[]
options1 @calculatedFrom(// a // b
""abc"" ) ,
    repeat float32 trueish, int16 x`{ , }`  , }  packet o { char[ 007
/// triple
// packet A { u8 x, }
] falsey `a\`, repeat float crc , match i64_ as roots // packet A { u8 x, }
{ [ 4294967296 ,
""// no comment""  ] : u8x ,	}
    //x
    , @rightPad(
    '0' ) @leftPad ( ) char[] msg_type @calculatedFrom(
""" ++ [233]%N ++ runes_of_ascii "t" ++ [233]%N ++ runes_of_ascii """
    )
// packet A { u8 x, }
// " ++ [128512]%N ++ runes_of_ascii " emoji
, match
// a // b
// " ++ [27880; 37322]%N ++ runes_of_ascii "
tag	as x_y_z { """" :As}, f32 int
    @calculatedFrom(""\" ++ [233]%N ++ runes_of_ascii """
) , match u8x // trailing space 
as repeatCount// c
{ 42  : // packet A { u8 x, }
calculatedFrom , [ 1 , 007
    ] : T  } ,
@lengthOf(
Foo )u128
{ pack
    @lengthOf(zchar)  `u8 x,` ,}
,
i8 u , @lengthOf( Pad) match Header as As { [	00
    ,
"""",0123456789 , ""\n"" , 42 ]
    // " ++ [128512]%N ++ runes_of_ascii " emoji
    :repeatCount }, }
")).
Eval vm_compute in ("<<<M3520>>>" ++ check (runes_of_ascii "options {
    LittleEndian = false;
    StringPrefixLenType = u16;
    ArrayPrefixLenType = u64;
    FixedStringPadFromLeft = true;
    FixedStringPadChar = ' ';
}
packet Logon {
    u16 Tail,
    repeat string x,
    i16 count,
    @leftPad('0') char[3] Note,
}
packet Fill {
}
packet Heartbeat {
}
packet Reject {
    string msgKind,
    repeat Logon,
    InFlags25 {
        repeat InPrice29 {
            u8 price,
            Logon,
            repeat char[1] Note,
        },
        char[] x,
        Fill,
    },
    repeat Heartbeat,
}
root packet Order {
    InNote88 {
        repeat i32 Acct,
        repeat i16 clOrdID,
        repeat Logon,
    },
    u16 tag7,
    match tag7 as Body {
        [14, 22] : Logon,
        55 : Heartbeat,
        93 : Reject,
        13 : Fill,
    },
}
")).
Eval vm_compute in ("<<<M1244>>>" ++ check (runes_of_ascii "// packet A { u8 x, }
options {
As = ""// no comment"";
    } options //x
{
    string_ = float32
int =
'\x00' body
=// " ++ [27880; 37322]%N ++ runes_of_ascii "
zchar[ 1//
]
    }
    MetaData
    trueish {char A , tag falsey `line1
line2` ,
    float32
crc `{ , }` ,	float32 rootA `
` , char[ 1	] As  ,
body
    asx ,} root
packet u8x { zchar[
0123456789 ] Packet @calculatedFrom(
    ""it's"" ) ,@leftPad
    (
// c
//	t
)
    // `tick` ""quote"" 'q'
    Logon `" ++ [233]%N ++ runes_of_ascii "`
    ,	string metadata	`" ++ [28040; 24687; 31867; 22411]%N ++ runes_of_ascii "` ,// trailing space 
u8x // a // b
x
`{ , }` , match string_
as metadata {	10 : float
    // c
    }
    ,
    options1
    @calculatedFrom(""" ++ [28040; 24687]%N ++ runes_of_ascii """
    )
,@rightPad ('0' )
string
packetx// " ++ [27880; 37322]%N ++ runes_of_ascii "
,
char[
007]
x_y_z
    `a\` ,@rightPad ( ' ' ) chars { int32 o// c
,float @calculatedFrom( ""packet"" )`line1
line2`, }
,
}
")).
Eval vm_compute in ("<<<M508>>>" ++ check (runes_of_ascii "packet Header {
    @rightPad(  '0' // `tick` ""quote"" 'q'
)
uint8x @calculatedFrom( ""a	b""
)  , char[]u128
    // @lengthOf(
    @calculatedFrom( ""// no comment"" ) , @tag(//
0123456789
) char[ 255
]	lengthOf@calculatedFrom(
"""" )
    `" ++ [28040; 24687; 31867; 22411]%N ++ runes_of_ascii "` ,x_y_z
, i32
    x_y_z ``
    ,repeat  char[007] rootA , float32 msg_type @calculatedFrom(""a	b"" )`{ , }`
,// " ++ [27880; 37322]%N ++ runes_of_ascii "
@calculatedFrom(""x y"" ) @tag(255
    // @lengthOf(
    )
    match i8i8 as A {"""" : f32a
,
} , matchKey {MetaDataX Header , repeatCount `say ""hi""`
    ,	char[ 0] MetaDataX
@lengthOf( len
    )`" ++ [233]%N ++ runes_of_ascii "`// @lengthOf(
,
}
    // `tick` ""quote"" 'q'
    , zchar[7]pack @calculatedFrom( ""\n"" ) , }packet // packet A { u8 x, }
uint8x {
uint64 uint8x @calculatedFrom( ""abc""
    )
, }
")).
Eval vm_compute in ("<<<M1353>>>" ++ check (runes_of_ascii "root  packet uint8x
    { }options {
    o	=
//x
//
' '
; x_y_z= 0123456789 stringy= ""packet"" }
packet
    A
    { match falsey as string_ {
""" ++ [28040; 24687]%N ++ runes_of_ascii """	: packetx , 0 :BodyLength , } // @lengthOf(
,
float32// " ++ [27880; 37322]%N ++ runes_of_ascii "
string_ @lengthOf(
    a1) ,
trueish @calculatedFrom( ""abc"" ),
@leftPad //	t
(  '0' )string matchKey
    @lengthOf( x_y_z )  ``
,
leftPad {trueish @calculatedFrom(""a\""b"" ) // c
,}, // `tick` ""quote"" 'q'
@tag( 1
    // trailing space 
    )repeat float64 calculatedFrom`{ , }` , @leftPad
    // @lengthOf(
    (
'\x00' )match Z9_ //	t
as
crc
    { [0]  : a1 , //
} , _x @lengthOf( T )// trailing space 
, x_y_z `" ++ [28040; 24687; 31867; 22411]%N ++ runes_of_ascii "`
// c
// `tick` ""quote"" 'q'
,
repeat char[] Z9_  , }
// " ++ [27880; 37322]%N ++ runes_of_ascii "
")).
Eval vm_compute in ("<<<M42>>>" ++ check (runes_of_ascii "packet Header { @lengthOf( BodyLength)string body	@lengthOf(	zchar	)  `two words` , @lengthOf( rootA )i32 metadata `it's` ,
    @tag( 00 ) // trailing space 
msg_type@lengthOf( // " ++ [27880; 37322]%N ++ runes_of_ascii "
As )  ,
int { repeat string
//
//	t
u128 `" ++ [233]%N ++ runes_of_ascii "`,
    match MetaDataX as packetx {[ 1	,0] : MetaDataX
    , ""{,}"" :calculatedFrom ,} ,
    // trailing space 
    match asx as Logon  {
7 :uint8x  , 00 : x_y_z
,
    ""\" ++ [233]%N ++ runes_of_ascii """
    : o ,""" ++ [233]%N ++ runes_of_ascii "t" ++ [233]%N ++ runes_of_ascii """
:chars /// triple
, } , body
// `tick` ""quote"" 'q'
// a // b
i64_ `crlf
line` , },	a1
    `line1
line2`  ,
// `tick` ""quote"" 'q'
// a // b
chars `// not a comment`	,@tag( 7
    )
leftPad charz	, int64 a1 @calculatedFrom(
""\n""
)  ,
}")).
Eval vm_compute in ("<<<M789>>>" ++ check (runes_of_ascii "packet roots { //	t
@calculatedFrom( ""packet"" )
f32 roots
    @lengthOf( // " ++ [27880; 37322]%N ++ runes_of_ascii "
options1 ) `tab	here`,	@lengthOf( Foo )
    match BodyLength
    as u128
//
// `tick` ""quote"" 'q'
{""" ++ [233]%N ++ runes_of_ascii "t" ++ [233]%N ++ runes_of_ascii """
:x_y_z
, 1
:leftPad /// triple
,
[ ""packet"" ] :	crc 007 : uint8x [ ""\n"" , 00
,
// @lengthOf(
// " ++ [128512]%N ++ runes_of_ascii " emoji
10
    // `tick` ""quote"" 'q'
    , // @lengthOf(
65535 ,
    42 ,""a\\"" ,00 ]	:
leftPad ,
    }	,
} options { f32a = 4294967296
;
// " ++ [27880; 37322]%N ++ runes_of_ascii "
//	t
Header	= '0'	} // @lengthOf(
options { Logon= zchar[ 255] ; // `tick` ""quote"" 'q'
metadata =
""it's""; leftPad
// trailing space 
// a // b
=
""CRC32""// `tick` ""quote"" 'q'
;
Pad =
""""
; }")).
Eval vm_compute in ("<<<M4419>>>" ++ check (runes_of_ascii "// packet A { u8 x, }
MetaData f32a {
    int64 i8i8,
    u64 Packet ``,
    falsey _x,
    tag roots ``,
    uint32 Foo `two words`,
    char[] asx,
}

packet options1 {
    char[00] u128,
    @calculatedFrom(""`tick`"")
    Header @calculatedFrom(""1""),
    @leftPad()
    match u as o {
        [""a\\""] : stringy,
        ""abc"" : f32a,
    },
    f64 x_y_z @lengthOf(o),
    repeat char[00] int `
    `,
    char[] options1 `{ , }`,// `tick` ""quote"" 'q'
    zchar[00] charz,
    char[] MetaDataX `a\`,
    match packetx as zchar {
        [10, 1] : i8i8,
        ""CRC32"" : Logon,
    },
}")).
Eval vm_compute in ("<<<M4203>>>" ++ check (runes_of_ascii "packet zchar {
    i32 zchar @calculatedFrom(""abc"") `a\`,
    Pad Logon `tab	here`,
    @tag(0)
    Packet {
        x_y_z matchKey,
        float64 Logon @lengthOf(uint8x),
    },
    packetx i64_ `" ++ [28040; 24687; 31867; 22411]%N ++ runes_of_ascii "`,
    repeat char[] As `two words`,
}

MetaData packetx {
    options1 Z9_ `crlf
        line`,
    char[] pack,
    string charz `// not a comment`,
    char[] string_,
    asx int `u8 x,`,
}

options {
    rootA = ""a\\""
    leftPad = ' ';
    leftPad = '\x00';
}

MetaData i8i8 {
    charz zchar,
    string chars,
    int8 repeatCount `it's`,
}")).
Eval vm_compute in ("<<<M208>>>" ++ check (runes_of_ascii "packet i64_
    {} packet
    crc {
} options
{ }root packet
charz {} packet //
trueish{ repeat char[
    255] lengthOf `" ++ [28040; 24687; 31867; 22411]%N ++ runes_of_ascii "` , zchar[
//	t
/// triple
00 // a // b
]x`it's` ,/// triple
repeat	char[]
    // `tick` ""quote"" 'q'
    Packet `say ""hi""` , @calculatedFrom(
""x y"" // " ++ [27880; 37322]%N ++ runes_of_ascii "
) char[ 1] lengthOf, lengthOf`crlf
line` ,	match charz as MetaDataX { ""a	b""
// " ++ [27880; 37322]%N ++ runes_of_ascii "
// `tick` ""quote"" 'q'
: uint8x
    ""\n"" : calculatedFrom } , @tag(	10
) float64 i8i8 @calculatedFrom( """ ++ [128512]%N ++ runes_of_ascii """ ) `say ""hi""` ,
@rightPad(
'\x00' )
i32
Foo`it's`	,
}
")).
Eval vm_compute in ("<<<M440>>>" ++ check (runes_of_ascii "packet chars	{
@calculatedFrom(
""abc"" ) repeat uint64
Pad`" ++ [233]%N ++ runes_of_ascii "` ,
    uint8  len , asx@lengthOf( _x) ,
    options1 `tab	here` ,
@lengthOf(  i64_
) zchar`it's`
, @tag( 007  )metadata
,	char[]Foo ,
    // packet A { u8 x, }
    } // @lengthOf(
options { charz = ""\" ++ [233]%N ++ runes_of_ascii """ ; metadata = string;Z9_ = ""it's""
zchar = u8 }options{
string_ =  """ ++ [28040; 24687]%N ++ runes_of_ascii """
;msg_type // packet A { u8 x, }
=42
    ;Foo /// triple
= 0123456789;
o = int64 ;}	options{i8i8
= zchar[ 1 ] Foo = 00;
leftPad = // c
uint64 Foo =  int64 }")).
Eval vm_compute in ("<<<M187>>>" ++ check (runes_of_ascii "root packet A
{  match
u8x as body {
7:
    BodyLength // trailing space 
, 007 : _x , 10 :
    Header},// `tick` ""quote"" 'q'
@lengthOf( pack ) tag @lengthOf( rootA  )
,match a1 as  calculatedFrom
{ 1 :
string_
, } ,  @lengthOf( x_y_z
) a1,
    @lengthOf(	MetaDataX
) int ,} packet
repeatCount { uint64 string_ `two words` , } options	{chars
    = false; float
//	t
// " ++ [27880; 37322]%N ++ runes_of_ascii "
= """ ++ [28040; 24687]%N ++ runes_of_ascii """ crc=u8 a1 = 1;
} MetaData // a // b
leftPad {
    u128 Header , } options {
    }

")).
Eval vm_compute in ("<<<M970>>>" ++ check (runes_of_ascii "packet
    x_y_z
{ @tag(7
)
    u128 u8x	, char[
1 ]
x_y_z
    `{ , }`, @lengthOf( T ) @calculatedFrom(""" ++ [28040; 24687]%N ++ runes_of_ascii """
    )
    @lengthOf( BodyLength )
//x
// packet A { u8 x, }
match body as// " ++ [27880; 37322]%N ++ runes_of_ascii "
u {
0123456789 // a // b
: rootA
    ,
    } , }
root packet
Logon {} MetaData
    // trailing space 
    lengthOf{ repeatCount As , u16 MetaDataX
`crlf
line`
    ,
//	t
// " ++ [27880; 37322]%N ++ runes_of_ascii "
Packet
BodyLength,
falsey _x
`u8 x,` , zchar[
    3 ]// `tick` ""quote"" 'q'
Z9_ , }
")).
Eval vm_compute in ("<<<M3791>>>" ++ check (runes_of_ascii "MetaData rootA {
    char[42] body `tab	here`,
    string pack,
    zchar[65535] A `it's`,
    i64_ Pad,
}

MetaData leftPad {
    int16 u,
}

packet trueish {
    @tag(00)
    char[42] MetaDataX `crlf
        line`,
    @lengthOf(asx)
    chars charz,
    @rightPad('0')
    @lengthOf(a1)
    char[] Packet @calculatedFrom(""x y"") `crlf
        line`,
    len i8i8,
    @rightPad('\x00')
    options1 {
        x @lengthOf(Z9_),
    },
}")).
Eval vm_compute in ("<<<M3612>>>" ++ check (runes_of_ascii "options {
    LittleEndian = false;
    StringPrefixLenType = u8;
    ArrayPrefixLenType = u16;
    FixedStringPadFromLeft = false;
}

packet Heartbeat {
    u8 seqNo,
    @rightPad('\x00')
    char[8] x,
}

root packet Trade {
    repeat Heartbeat,
    float32 OrderId,
    i64 Acct,
    u16 Qty,
    u16 clOrdID,
    match clOrdID as Body {
        131 : Heartbeat,
    },
    u16 sym @calculatedFrom(""CR\
        C32""),
}")).
Eval vm_compute in ("<<<M220>>>" ++ check (runes_of_ascii "
packet	float // a // b
{ // c
}
packet u128 { @calculatedFrom(	""1"") asx x_y_z `" ++ [28040; 24687; 31867; 22411]%N ++ runes_of_ascii "` ,}
    root packet
    u8x { repeat uint8x	T
, }
packet leftPad
    {
i64_,@leftPad ( '0' )
repeat	tag
,repeat  uint8x  {	matchKey @calculatedFrom( ""abc""
    ) , string charz ,
    }// trailing space 
,@rightPad
( )zchar[ 10] charz
    @calculatedFrom( """ ++ [128512]%N ++ runes_of_ascii """ )	`// not a comment` , // trailing space 
}
// @lengthOf(
")).
Eval vm_compute in ("<<<M3900>>>" ++ check (runes_of_ascii "  packet	// a // b

  zchar {
    char[]
    trueish @calculatedFrom(""CRC32""  // `tick` ""quote"" 'q'
  	) ,char[]

    /// triple
      MetaDataX , u8x 
@lengthOf( 
leftPad
    )
	`
` 
  /// triple
	// c
	,
@leftPad (

    '\x00'
)

u32  u8x
	,
}	root  packet

    metadata{	repeat
As

,// c
  uint64

    trueish
, 
x `two words`
    ,
}options

    {metadata	= 
'0'
;

}")).
Eval vm_compute in ("<<<M4003>>>" ++ check (runes_of_ascii "packet Foo {
    repeat u {
        char[0123456789] string_ @calculatedFrom(""it's"") `" ++ [233]%N ++ runes_of_ascii "`,
    },
}

options {
    Foo = ""a\\"";
    msg_type = 4294967296
    o = ""CRC32"";
    options1 = char[7];
}

root packet u {
    match _x as rootA {
        007 : f32a,
        [007] : u8x,
        [007, ""packet""] : _x,
        [007, 10] : i64_,
    },
    int8 charz `two words`,
}")).
Eval vm_compute in ("<<<M3656>>>" ++ check (runes_of_ascii "options {
    len = 255
    tag = """ ++ [233]%N ++ runes_of_ascii "t" ++ [233]%N ++ runes_of_ascii """
}

packet packetx {
}

options {
    repeatCount = '\x00';
    x = 4294967296
    len = false;
    A = false;
    Packet = """";
}

MetaData x {
    uint32 roots,
    lengthOf o `
    `,
    u32 x_y_z `line1
    line2`,
    int64 msg_type `crlf
    line`,
    string repeatCount `line1
    line2`,
    u128 stringy,
}")).
Eval vm_compute in ("<<<M836>>>" ++ check (runes_of_ascii "packet trueish {
    // trailing space 
    zchar[
0
] o
@lengthOf( float	), @tag(
    10
    )stringy {
zchar[ 65535  ]
matchKey
    ,	}
    ,
    @lengthOf(
//
//	t
asx )zchar[
    10 ] string_
@calculatedFrom("""" ) `it's`	,
}options {	rootA //x
=
// a // b
// trailing space 
""1""
; }
    options
    { body = u32 repeatCount= '\x00' }
")).
Eval vm_compute in ("<<<M123>>>" ++ check (runes_of_ascii "MetaData len /// triple
{ //
f64 T
`u8 x,` , rootA	stringy ,  zchar repeatCount`say ""hi""` ,
    MetaDataX As ,i8i8 string_, x_y_z f32a , } options // c
{ Logon
    //
    =
    string float =  string
    A =
""abc""/// triple
;
    //
    A =
""\" ++ [233]%N ++ runes_of_ascii """Logon =7	}
    options{ }  options {
    packetx = ""abc""// c
; x =
    true
}
")).
Eval vm_compute in ("<<<M1550>>>" ++ check (runes_of_ascii "root packet Foo // " ++ [128512]%N ++ runes_of_ascii " emoji
{ } options {
    // a // b
    tag // `tick` ""quote"" 'q'
= //	t
""""
    ; u8x = zchar[0  ] }
MetaData
    int {zchar[ 10]
lengthOf	`` , i64 u8x`// not a comment` `// not a comment` ,MetaDataX pack// `tick` ""quote"" 'q'
`crlf
line`
, Logon charz `crlf
line`
    ,
    // a // b
    }
")).
Eval vm_compute in ("<<<M4441>>>" ++ check (runes_of_ascii "root packet Foo {
    uint8x @lengthOf(zchar),
    body {
        repeat zchar[4294967296] tag,
    },
    int8 _x `u8 x,`,
    char[] T,
    Foo,
    @rightPad(' ')
    repeat uint8 stringy,
    zchar[255] calculatedFrom @calculatedFrom(""x y"") `" ++ [28040; 24687; 31867; 22411]%N ++ runes_of_ascii "`,
    float32 len @lengthOf(i8i8),
    uint32 Pad,
}")).
Eval vm_compute in ("<<<M1445>>>" ++ check (runes_of_ascii "root packet Foo // " ++ [128512]%N ++ runes_of_ascii " emoji
{ } options {
    // a // b
    tag tag // `tick` ""quote"" 'q'
= //	t
""""
    ; u8x = zchar[0  ] }
MetaData
    int {zchar[ 10]
lengthOf	`` , i64 u8x`// not a comment` ,MetaDataX pack// `tick` ""quote"" 'q'
`crlf
line`
, Logon charz `crlf
line`
    ,
    // a // b
    }
")).
Eval vm_compute in ("<<<M1450>>>" ++ check (runes_of_ascii "root packet Foo // " ++ [128512]%N ++ runes_of_ascii " emoji
{ } options {
    // a // b
    tag // `tick` ""quote"" 'q'
= = //	t
""""
    ; u8x = zchar[0  ] }
MetaData
    int {zchar[ 10]
lengthOf	`` , i64 u8x`// not a comment` ,MetaDataX pack// `tick` ""quote"" 'q'
`crlf
line`
, Logon charz `crlf
line`
    ,
    // a // b
    }
")).
Eval vm_compute in ("<<<M1622>>>" ++ check (runes_of_ascii "root packet Foo // " ++ [128512]%N ++ runes_of_ascii " emoji
{ } options {
    // a // b
    tag // `tick` ""quote"" 'q'
= //	t
""""
    ; u8x = zchar[0  ] }
MetaData
    int {zchar[ 10]
lengthOf	`` , i64 u8x`// not a comment` ,MetaDataX pack// `tick` ""quote"" 'q'
`crlf
line`
, Logon caf" ++ [233]%N ++ runes_of_ascii "_1 `crlf
line`
    ,
    // a // b
    }
")).
Eval vm_compute in ("<<<M1556>>>" ++ check (runes_of_ascii "root packet Foo // " ++ [128512]%N ++ runes_of_ascii " emoji
{ } options {
    // a // b
    tag // `tick` ""quote"" 'q'
= //	t
""""
    ; u8x = zchar[0  ] }
MetaData
    int {zchar[ 10]
lengthOf	`` , i64 u8x`// not a comment` MetaDataX, pack// `tick` ""quote"" 'q'
`crlf
line`
, Logon charz `crlf
line`
    ,
    // a // b
    }
")).
Eval vm_compute in ("<<<M3336>>>" ++ check (runes_of_ascii "packet calculatedFrom // c1
{ @tag( // c3a
  // c3b
4294967296 // c4
) // c5
u // c6a
  // c6b
msg_type
    // c7
,
    // c8
char[ // c9
3
    // c10
]
    // c11
crc
    // c12
@lengthOf( // c13a
  // c13b
len // c14a
  // c14b
) // c15a
  // c15b
`u8 x,`
    // c16
, // c17
}
    // c18
")).
Eval vm_compute in ("<<<M469>>>" ++ check (runes_of_ascii "packet calculatedFrom{
Logon o , }// packet A { u8 x, }
MetaData As
// a // b
// " ++ [27880; 37322]%N ++ runes_of_ascii "
{ uint32 repeatCount`{ , }` ,zchar[
    /// triple
    00 ]
    T `say ""hi""` , zchar[
    1 ]  float`two words` , char[	42 ] stringy`// not a comment` ,
zchar[ 007  ]chars`tab	here` , int16 stringy  ,}")).
Eval vm_compute in ("<<<M1152>>>" ++ check (runes_of_ascii "MetaData x_y_z{
} packet Foo{  repeat i64_{
int32 f32a
    , } , i8i8
    @lengthOf( lengthOf ) , @lengthOf( matchKey ) @leftPad
(
    '0'	) repeat uint8x { u{ zchar[
7]
    i64_ @calculatedFrom( ""\" ++ [233]%N ++ runes_of_ascii """ ) `two words` , repeat char[] Z9_ `doc`,	} , }
, f32 calculatedFrom `doc`	,}
")).
Eval vm_compute in ("<<<M408>>>" ++ check (runes_of_ascii "root packet x  {
u64 stringy
`it's` , @tag( 1 )
    body, @tag(0 ) string string_ , repeat/// triple
As
// a // b
//x
{ string pack `line1
line2` , options1 @calculatedFrom(""// no comment"" )`say ""hi""`
,
} , repeat leftPad `line1
line2` // " ++ [27880; 37322]%N ++ runes_of_ascii "
, char[] msg_type , }
")).
Eval vm_compute in ("<<<M3654>>>" ++ check (runes_of_ascii "root packet
i64_ {
	@calculatedFrom(  ""\n"" 
)
    repeat  // packet A { u8 x, }

uint32 BodyLength , @leftPad  /// triple
(	' '// @lengthOf(

) i32 
falsey @lengthOf(
	i64_
    ) 	 //x
	`line1
line2`	, @rightPad ( )repeat
	int64 
int`" ++ [233]%N ++ runes_of_ascii "`	, 
} 
    // " ++ [27880; 37322]%N)).
Eval vm_compute in ("<<<M59>>>" ++ check (runes_of_ascii "packet _x { Packet { chars
    Logon
,int8 float , i64 rootA `" ++ [233]%N ++ runes_of_ascii "` ,} /// triple
,@calculatedFrom(
""abc"" )
    x_y_z
{ leftPad // trailing space 
charz
`a\` ,i32 metadata `say ""hi""` ,} , charz rootA `u8 x,`, }  root// " ++ [128512]%N ++ runes_of_ascii " emoji
packet f32a//
{ }
")).
Eval vm_compute in ("<<<M4404>>>" ++ check (runes_of_ascii "root packet Foo {
}

options {
    // a //# b
    tag = """";
    u8x = zchar[0]
}

MetaData int {
    zchar[10] lengthOf ``,
    i64 u8x `// not a comment`,
    MetaDataX pack `crlf
        line`,
    Logon charz `crlf
        line`,
}")).
Eval vm_compute in ("<<<M3542>>>" ++ check (runes_of_ascii "packet Sub {
    u8 a,
    u32 SubSum @calculatedFrom(""CRC16""),
}
root packet Frame {
    u16 MsgType,
    u16 BodyLen @lengthOf(Body),
    Sub Body,
    string note,
    u32 Checksum @calculatedFrom(""CRC16""),
    u8 tail,
}
")).
Eval vm_compute in ("<<<M3940>>>" ++ check (runes_of_ascii "options {
    len = false// " ++ [128512]%N ++ runes_of_ascii " emoji
}

options {
    leftPad = ""`tick`"";
    repeatCount = char[4294967296]
    chars = ""`tick`""
}

packet trueish {
    u16 crc,
    @tag(0123456789)
    string trueish `crlf
    line`,
}")).
Eval vm_compute in ("<<<M2226>>>" ++ check (runes_of_ascii "MetaData Packet { } }packet	asx  { @lengthOf( asx) falsey`crlf
line`
,
    }
    packet x	{uint32// @lengthOf(
rootA	,u32 options1 `say ""hi""` , @tag( 7
    )// packet A { u8 x, }
msg_type @lengthOf(
stringy	)	, }

")).
Eval vm_compute in ("<<<M2387>>>" ++ check (runes_of_ascii "MetaData Packet { }packet	asx  { @lengthOf( asx) falsey`crlf
line`
,
    }
    packet x	{uint32// @lengthOf(
rootA	,u32 options1 `say ""hi""` , ?@tag( 7
    )// packet A { u8 x, }
msg_type @lengthOf(
stringy	)	, }

")).
Eval vm_compute in ("<<<M2347>>>" ++ check (runes_of_ascii "MetaData Packet { }packet	asx  { @lengthOf( asx) falsey`crlf
line`
,
    }
    packet x	{uint32// @lengthOf(
rootA	,u32 options1 `say ""hi""` , @tag( 7
    )// packet A { u8 x, }
@lengthOf( msg_type
stringy	)	, }

")).
Eval vm_compute in ("<<<M686>>>" ++ check (runes_of_ascii "// " ++ [27880; 37322]%N ++ runes_of_ascii "
MetaData T{char[// @lengthOf(
3 ] stringy`a\`
,
char[
/// triple
//x
007 ] u // trailing space 
`u8 x,` ,  char[]
    int //x
`" ++ [28040; 24687; 31867; 22411]%N ++ runes_of_ascii "`,	zchar[
// " ++ [128512]%N ++ runes_of_ascii " emoji
// a // b
4294967296 ] leftPad
, char[]
uint8x , }

")).
Eval vm_compute in ("<<<M4040>>>" ++ check (runes_of_ascii "

  root packet

leftPad

    { 
//	t
// c

	char[]	chars

    ,}
    root

packet 
        // a // b
    	// `tick` ""quote"" 'q'
stringy
{ 	 // " ++ [27880; 37322]%N ++ runes_of_ascii "

char[ 42 ] A	, }

    packet

    Foo
	{u128 A, }
")).
Eval vm_compute in ("<<<M728>>>" ++ check (runes_of_ascii "// `tick` ""quote"" 'q'
options { }	options {Foo =// trailing space 
'\x00' ; stringy = 65535 ; u= '\x00' Foo = true
// packet A { u8 x, }
//
Foo = // " ++ [27880; 37322]%N ++ runes_of_ascii "
""abc"" ; } packet MetaDataX
    { float32 asx , } 	 ")).
Eval vm_compute in ("<<<M3716>>>" ++ check (runes_of_ascii "

  root packet
	msg_type  
  // " ++ [27880; 37322]%N ++ runes_of_ascii "

//	t
		{ string
    lengthOf
`a\`, @tag(
    65535  )
	rootA

    calculatedFrom,char[]
	crc  `{ , }`,

zchar[ 

    // c
//	t
65535

]
    msg_type
,

} ")).
Eval vm_compute in ("<<<M394>>>" ++ check (runes_of_ascii "MetaData  tag
    {i8 body ,char[]tag , int16 metadata ,
    // c
    f64 body`" ++ [28040; 24687; 31867; 22411]%N ++ runes_of_ascii "`
// a // b
/// triple
,
    char[ // `tick` ""quote"" 'q'
42 ] rootA, // a // b
T metadata `say ""hi""`
, }")).
Eval vm_compute in ("<<<M494>>>" ++ check (runes_of_ascii "packet u128
{
} MetaData
    int {int16 crc//	t
,
    uint32 Pad,}packet string_ {} packet// @lengthOf(
BodyLength {	msg_type	leftPad `a\` , }
options{ tag = false charz = 3
; }
")).
Eval vm_compute in ("<<<M743>>>" ++ check (runes_of_ascii "MetaData roots { } MetaData
stringy {
Logon leftPad// " ++ [27880; 37322]%N ++ runes_of_ascii "
`crlf
line`
,	char[] metadata`{ , }`
,
falsey  pack `" ++ [233]%N ++ runes_of_ascii "`,
    i8 repeatCount// " ++ [27880; 37322]%N ++ runes_of_ascii "
,} options{
matchKey =' ' }

")).
Eval vm_compute in ("<<<M1183>>>" ++ check (runes_of_ascii "packet Z9_
{@calculatedFrom( ""{,}"" ) roots //x
{ len {
    msg_type //x
,uint8x `{ , }`  , zchar[
// trailing space 
// " ++ [128512]%N ++ runes_of_ascii " emoji
0
] //	t
matchKey ,
    } , } , }
")).
Eval vm_compute in ("<<<M1088>>>" ++ check (runes_of_ascii "packet u // c
{
    //x
    char[42 ]
roots
// " ++ [27880; 37322]%N ++ runes_of_ascii "
// `tick` ""quote"" 'q'
, @lengthOf( u128)
uint8 tag,repeat uint16
int `{ , }`
,
    }
// trailing space 
")).
Eval vm_compute in ("<<<M3466>>>" ++ check (runes_of_ascii "root packet
    // c1
P // c2
{ u8 // c4
s_u8 // c5
, // c6
repeat // c7
u8 // c8
r_u8 , u16 // c11
b_len
    // c12
, // c13a
  // c13b
}
    // c14
")).
Eval vm_compute in ("<<<M215>>>" ++ check (runes_of_ascii "MetaData tag { zchar[ // a // b
007 ]BodyLength ``
    // packet A { u8 x, }
    , } root packet MetaDataX {
string_
    @lengthOf(
Header) ,}
")).
Eval vm_compute in ("<<<M4235>>>" ++ check (runes_of_ascii "packet A {
    Inner {
        u8 x `
                x`,
        Deep {
            u8 y `
                        x`,
        },
    },
}")).
Eval vm_compute in ("<<<M1230>>>" ++ check (runes_of_ascii "packet Z9_ { match leftPad as options1{
65535
    : //	t
matchKey ,
    // packet A { u8 x, }
    } , T
//x
// `tick` ""quote"" 'q'
,}

")).
Eval vm_compute in ("<<<M652>>>" ++ check (runes_of_ascii "packet metadata {@calculatedFrom(""" ++ [233]%N ++ runes_of_ascii "t" ++ [233]%N ++ runes_of_ascii """
// `tick` ""quote"" 'q'
// " ++ [128512]%N ++ runes_of_ascii " emoji
) @calculatedFrom(
""1""
)
    repeat
char
i64_
`a\` ,
    }
")).
Eval vm_compute in ("<<<M1733>>>" ++ check (runes_of_ascii "root packet /// triple
rootA {	i32
MetaDataX@calculatedFrom( ""CRC32"" ) `line1
line2` , } MetaData BodyLength {
u8
rootA? , } // c")).
Eval vm_compute in ("<<<M1694>>>" ++ check (runes_of_ascii "root packet /// triple
rootA {	i32
MetaDataX@calculatedFrom( ""CRC32"" ) `line1
line2` , } MetaData BodyLength u8
{
rootA, } // c")).
Eval vm_compute in ("<<<M3668>>>" ++ check (runes_of_ascii "

  packet  Logon
    {
    @tag(	42 	 // c
  )
    @rightPad
(' '	)  @leftPad

(  )  repeat trueish

{

string
	T,
    } ,}")).
Eval vm_compute in ("<<<M4074>>>" ++ check (runes_of_ascii "
packet Logon // c
	{
	@tag(42
	)

    @rightPad
(' '

    )	@leftPad

    (

) repeat trueish	{	string
	T,
	}
,}
")).
Eval vm_compute in ("<<<M1786>>>" ++ check (runes_of_ascii "packet
    Pad Pad // a // b
{ i8i8 @calculatedFrom( ""a	b"") `u8 x,` ,
} options{ float// " ++ [128512]%N ++ runes_of_ascii " emoji
= f64 i64_
=//	t
00 }
")).
Eval vm_compute in ("<<<M1846>>>" ++ check (runes_of_ascii "packet
    Pad // a // b
{ i8i8 @calculatedFrom( ""a	b"") `u8 x,` ,
} options{ float// " ++ [128512]%N ++ runes_of_ascii " emoji
= = f64 i64_
=//	t
00 }
")).
Eval vm_compute in ("<<<M24>>>" ++ check (runes_of_ascii "packet _x { int32 u , @tag(3)char[ 255]
    // @lengthOf(
    A
    @calculatedFrom( ""x y""
    )
`crlf
line`,
    }")).
Eval vm_compute in ("<<<M1670>>>" ++ check (runes_of_ascii "root packet /// triple
rootA {	i32
MetaDataX@calculatedFrom( ""CRC32"" ) : , } MetaData BodyLength {
u8
rootA, } // c")).
Eval vm_compute in ("<<<M144>>>" ++ check (runes_of_ascii "  packet rootA	{ int @lengthOf(
    Packet // packet A { u8 x, }
) // `tick` ""quote"" 'q'
`// not a comment` , }
")).
Eval vm_compute in ("<<<M334>>>" ++ check (runes_of_ascii "// @lengthOf(
options{ } packet pack  {//
} options
    {
    }MetaData msg_type
{} root packet repeatCount  {}")).
Eval vm_compute in ("<<<M3463>>>" ++ check (runes_of_ascii "root packet
    // c1
P {
    // c3
repeat string ss , // c7
repeat // c8
u16 // c9
ns
    // c10
, } // c12
")).
Eval vm_compute in ("<<<M3034>>>" ++ check (runes_of_ascii "packet A {
    u16 len @lengthOf(body) `x
`,
    u32 crc @calculatedFrom(""CRC32"") `x
`,
    string body,
}")).
Eval vm_compute in ("<<<M3339>>>" ++ check (runes_of_ascii "packet // c
calculatedFrom { @tag( 4294967296 ) u msg_type , char[ 3 ] crc @lengthOf( len ) `u8 x,` , }")).
Eval vm_compute in ("<<<M3371>>>" ++ check (runes_of_ascii "packet calculatedFrom { @tag( 4294967296 ) u msg_type , char[ 3 ] crc @lengthOf( len ) `u8 x,` // c
, }")).
Eval vm_compute in ("<<<M4110>>>" ++ check (runes_of_ascii "//x
options {
    x_y_z = i16// " ++ [128512]%N ++ runes_of_ascii " emoji
    charz = ""a	b"";
    // @lengthOf(
    //
    len = ' ';
}")).
Eval vm_compute in ("<<<M3638>>>" ++ check (runes_of_ascii "
packet A{
match k
as

n

    { [

1,
22

    , 007
	,	4	,
	5	]	:
B
2 
:

    C
}
, }
")).
Eval vm_compute in ("<<<M3221>>>" ++ check (runes_of_ascii "packet Logon {
// c
@tag( 42 ) @rightPad ( ' ' ) @leftPad ( ) repeat trueish { string T , } , }")).
Eval vm_compute in ("<<<M3253>>>" ++ check (runes_of_ascii "packet Logon { @tag( 42 ) @rightPad ( ' ' ) @leftPad ( ) repeat trueish { string T ,
// c
} , }")).
Eval vm_compute in ("<<<M267>>>" ++ check (runes_of_ascii "root packet repeatCount
{ @lengthOf( Foo  ) @tag( 4294967296 )
repeat f32	u8x
    , }
// c
")).
Eval vm_compute in ("<<<M519>>>" ++ check (runes_of_ascii "packet x{ //
Header ,repeat float32 i8i8
,
// `tick` ""quote"" 'q'
// packet A { u8 x, }
}
")).
Eval vm_compute in ("<<<M1994>>>" ++ check (runes_of_ascii "root
packet crc
    { f32a @calculatedFrom( """ ++ [233]%N ++ runes_of_ascii "t" ++ [233]%N ++ runes_of_ascii """ i64
    `say ""hi""`, lengthOf `` ,  }")).
Eval vm_compute in ("<<<M1371>>>" ++ check (runes_of_ascii "
options { repeatCount =	""CRC32""x =true //x
u  = ""\" ++ [233]%N ++ runes_of_ascii """
    ; stringy = //
'\x00'; }
")).
Eval vm_compute in ("<<<M2021>>>" ++ check (runes_of_ascii "root
packet crc
    { f32a @calculatedFrom( """ ++ [233]%N ++ runes_of_ascii "t" ++ [233]%N ++ runes_of_ascii """ )
    `say ""hi""`, lengthOf `` ,  ")).
Eval vm_compute in ("<<<M4072>>>" ++ check (runes_of_ascii "  root 
    // `tick` ""quote"" 'q'
      packet

As {

    Packet trueish	,
}
")).
Eval vm_compute in ("<<<M3312>>>" ++ check (runes_of_ascii "packet o { @tag( 42 ) repeat x { char[ // c
0123456789 ] i64_ , } , } options { }")).
Eval vm_compute in ("<<<M2908>>>" ++ check (runes_of_ascii "packet A {
  match k as n {
    [""a"", ""bb"", 007, ""d"", ""e""] : B,
    2 : C
  },
}")).
Eval vm_compute in ("<<<M2925>>>" ++ check (runes_of_ascii "packet A {
  match k as n {
    [1, 22, 007, 4, 5, 66, 7] : B
    2 : C
  },
}")).
Eval vm_compute in ("<<<M2895>>>" ++ check (runes_of_ascii "packet A {
  match k as n {
    [""a"", ""bb"", 007, ""d""] : B,
    2 : C
  },
}")).
Eval vm_compute in ("<<<M2975>>>" ++ check (runes_of_ascii "packet A { Inner { match k as n { [1,22,007,4,5,66,7,8,9,10] : B, }, }, }")).
Eval vm_compute in ("<<<M1277>>>" ++ check (runes_of_ascii "options{
    lengthOf = zchar[//	t
0 ]
Logon =42
roots = ""CRC32""
    }")).
Eval vm_compute in ("<<<M471>>>" ++ check (runes_of_ascii "MetaData charz {  int8 _x `tab	here` ,u64 Pad
`say ""hi""`
    ,
    }
")).
Eval vm_compute in ("<<<M2207>>>" ++ check (runes_of_ascii "\ root
    // `tick` ""quote"" 'q'
    packet As { trueish Packet , }
")).
Eval vm_compute in ("<<<M1829>>>" ++ check (runes_of_ascii "packet
    Pad // a // b
{ i8i8 @calculatedFrom( ""a	b"") `u8 x,` ,")).
Eval vm_compute in ("<<<M2873>>>" ++ check (runes_of_ascii "packet A {
  match k as n {
    [1, 22, 007] : B
    2 : C
  },
}")).
Eval vm_compute in ("<<<M4446>>>" ++ check (runes_of_ascii "options {
    i64_ = ""x y""
    _x = int32
    i64_ = '0'
}// " ++ [27880; 37322]%N)).
Eval vm_compute in ("<<<M1763>>>" ++ check (runes_of_ascii "options { }options {  @calculatedFrom( // `tick` ""quote"" 'q'")).
Eval vm_compute in ("<<<M676>>>" ++ check (runes_of_ascii "//x
packet zchar { @calculatedFrom(
""CRC32"") lengthOf , }")).
Eval vm_compute in ("<<<M3182>>>" ++ check (runes_of_ascii "packet A {
    match k as n {
        1 : B,// c
    },
}")).
Eval vm_compute in ("<<<M1927>>>" ++ check (runes_of_ascii "
packet	As { @calculatedFrom(//x
""{,}""	), lengthOf } 	 ")).
Eval vm_compute in ("<<<M138>>>" ++ check (runes_of_ascii "MetaData
    /// triple
    falsey { uint16 Z9_ ,
}")).
Eval vm_compute in ("<<<M1995>>>" ++ check (runes_of_ascii "root
packet crc
    { f32a @calculatedFrom( """ ++ [233]%N ++ runes_of_ascii "t" ++ [233]%N ++ runes_of_ascii """")).
Eval vm_compute in ("<<<M4282>>>" ++ check (runes_of_ascii "packet A {
    u8 x,
}// a

// b
packet B {
}// c")).
Eval vm_compute in ("<<<M1773>>>" ++ check (runes_of_ascii "options { }options {  } // `tick` ""quote"" 'q'\ ")).
Eval vm_compute in ("<<<M4185>>>" ++ check (runes_of_ascii "packet o 
	//	t
  // `tick` ""quote"" 'q'
{
}
")).
Eval vm_compute in ("<<<M2831>>>" ++ check (runes_of_ascii "char[ ( true f32 packet u64 255 string false")).
Eval vm_compute in ("<<<M1719>>>" ++ check (runes_of_ascii "root packet /// triple
rootA {	i32
MetaDa")).
Eval vm_compute in ("<<<M3724>>>" ++ check (runes_of_ascii "// c
MetaData zchar {
    zchar[3] Pad,
}")).
Eval vm_compute in ("<<<M3190>>>" ++ check (runes_of_ascii "MetaData // c
zchar { zchar[ 3 ] Pad , }")).
Eval vm_compute in ("<<<M2147>>>" ++ check (runes_of_ascii "MetaData x
{// " ++ [128512]%N ++ runes_of_ascii " emoji
i16 s'tringy , }")).
Eval vm_compute in ("<<<M2779>>>" ++ check (runes_of_ascii "PCH{:;a*+BX,D;fDx(|3g)Qf5i123k>6$5!tGz")).
Eval vm_compute in ("<<<M2122>>>" ++ check (runes_of_ascii "MetaData x
{// " ++ [128512]%N ++ runes_of_ascii " emoji
i16 ""x y"" , }")).
Eval vm_compute in ("<<<M3762>>>" ++ check (runes_of_ascii "root packet

repeatCount
	{
A ,
	}")).
Eval vm_compute in ("<<<M2690>>>" ++ check (runes_of_ascii "[ : : @lengthOf( root true as 255")).
Eval vm_compute in ("<<<M4330>>>" ++ check (runes_of_ascii "packet A {
    u8 x `d" ++ [8233]%N ++ runes_of_ascii "`,// c" ++ [8233]%N ++ runes_of_ascii "
}")).
Eval vm_compute in ("<<<M3068>>>" ++ check (runes_of_ascii "packet A {
 u8 x `d" ++ [12288]%N ++ runes_of_ascii "`, // c" ++ [12288]%N ++ runes_of_ascii "
}")).
Eval vm_compute in ("<<<M3026>>>" ++ check (runes_of_ascii "packet A {
    u8 x `a

b`,
}")).
Eval vm_compute in ("<<<M1300>>>" ++ check (runes_of_ascii "//
options {	int
=
true; }")).
Eval vm_compute in ("<<<M2094>>>" ++ check (runes_of_ascii "MetaData \ A { u64 pack, }")).
Eval vm_compute in ("<<<M2619>>>" ++ check (runes_of_ascii "packet A { @tag() u8 x, }")).
Eval vm_compute in ("<<<M2661>>>" ++ check (runes_of_ascii "options { a = char[x]; }")).
Eval vm_compute in ("<<<M2574>>>" ++ check (runes_of_ascii "packet A { x `d` `e`, }")).
Eval vm_compute in ("<<<M2766>>>" ++ check ([28; 31; 65533; 22; 1; 65533]%N ++ runes_of_ascii "W" ++ [65533]%N ++ runes_of_ascii "??=" ++ [65533]%N ++ runes_of_ascii "Bq" ++ [65533]%N ++ runes_of_ascii "[" ++ [65533; 65533; 15]%N ++ runes_of_ascii "\)$")).
Eval vm_compute in ("<<<M4238>>>" ++ check (runes_of_ascii "packet u {
}// a // b")).
Eval vm_compute in ("<<<M2570>>>" ++ check (runes_of_ascii "packet A { x y z, }")).
Eval vm_compute in ("<<<M2747>>>" ++ check ([65533; 65533; 1; 65533; 65533; 65533; 65533]%N ++ runes_of_ascii "@" ++ [65533; 767]%N ++ runes_of_ascii "<x2" ++ [65533; 65533]%N ++ runes_of_ascii "Xq" ++ [65533]%N)).
Eval vm_compute in ("<<<M3124>>>" ++ check (runes_of_ascii "packet A {
}// c 	")).
Eval vm_compute in ("<<<M3059>>>" ++ check (runes_of_ascii "packet A {
}// c ")).
Eval vm_compute in ("<<<M3632>>>" ++ check (runes_of_ascii "packet A {
}// c")).
Eval vm_compute in ("<<<M2631>>>" ++ check (runes_of_ascii "packet A { } 1")).
Eval vm_compute in ("<<<M532>>>" ++ check (runes_of_ascii " /// triple")).
Eval vm_compute in ("<<<M2480>>>" ++ check (runes_of_ascii "@leftPadx")).
Eval vm_compute in ("<<<M2489>>>" ++ check (runes_of_ascii "@tag(1)")).
Eval vm_compute in ("<<<M191>>>" ++ check (runes_of_ascii "//


")).
Eval vm_compute in ("<<<M3085>>>" ++ check (runes_of_ascii "// c" ++ [8192]%N)).
Eval vm_compute in ("<<<M2539>>>" ++ check (runes_of_ascii "{}{}")).
Eval vm_compute in ("<<<M2542>>>" ++ check (runes_of_ascii "ab")).
Eval vm_compute in ("<<<M2704>>>" ++ check (runes_of_ascii ",X")).
