From FP Require Import Lexer Parser ShowPT Digest Formatter.
From Coq Require Import String List NArith.
Import ListNotations.
Open Scope string_scope.
Set Printing Width 100000000.
Set Printing Depth 100000000.
Definition show_fres (r : fres) : string :=
  match r with
  | FOk s => "OK:" ++ sh_escaped s ""
  | FErr s => "ERR:" ++ sh_escaped s ""
  | FPanic p => "PANIC:" ++ p
  end.
Definition check (rs : list rune) : string := digest (show_fres (format_res rs)).
Definition full (rs : list rune) : string := show_fres (format_res rs).
Eval vm_compute in ("<<<M138>>>" ++ check (runes_of_ascii "// @lengthOf(
packet
    // " ++ [128512]%N ++ runes_of_ascii " emoji
    charz { BodyLength@lengthOf( o
    ) ,
    @calculatedFrom( // @lengthOf(
""a\\"") match i64_ as a1 {
    // a // b
    [
// trailing space 
// 50% %s
7
// a // b
// c
,4294967296
] : Header
, [ 0 ,4294967296
,10 , 007 , //	t
007, 1 , ""1""
,
""`tick`""	]:	Packet
    3 :
    MetaDataX 3 :
T } ,
    @calculatedFrom( """"  ) @calculatedFrom(""CRC32"" ) int16 lengthOf@calculatedFrom(""x y""),
    float64
    // packet A { u8 x, }
    stringy
@calculatedFrom( ""// no comment"" ) `line1
line2`, falsey repeatCount`
`	,
    //	t
    repeat float64 trueish ,/// triple
_x
    @lengthOf(
stringy
    ) `tab	here` , @lengthOf(
    matchKey
)
@leftPad
( '0'
    ) @calculatedFrom( ""it's"") u8 metadata , uint8 //
chars
, }packet MetaDataX
    { // packet A { u8 x, }
@tag(
65535)	repeat
    // " ++ [27880; 37322]%N ++ runes_of_ascii "
    string_
    a1 `{ , }` // " ++ [27880; 37322]%N ++ runes_of_ascii "
,@leftPad (  ) @calculatedFrom(""\n"" ) @leftPad
(
    ) match T as packetx { ""1""
: options1 ,} ,uint8 MetaDataX
@lengthOf( roots )
, @tag( 0123456789 ) body @calculatedFrom( ""packet""  )
`u8 x,` ,
    /// triple
    } packet
    zchar  {match len as calculatedFrom
{ 4294967296: charz,[ 4294967296 //
,""\" ++ [233]%N ++ runes_of_ascii """ ,10	,  1] : pack //	t
, [// 50% %s
0
, 42 // @lengthOf(
]
// c
// trailing space 
: matchKey,	""{,}"" :
i64_ , }
,
    @tag( 42 ) uint64 trueish @calculatedFrom( ""`tick`""
    ) ,@calculatedFrom( """ ++ [28040; 24687]%N ++ runes_of_ascii """ ) @rightPad( '0' ) u8 Foo
    `line1
line2` , match
    /// triple
    charz as
    packetx{	4294967296 :// trailing space 
float [007
, ""a\""b"" // @lengthOf(
]: u8x , 42
    : options1 }	, // 50% %s
stringy len ,
    }
    packet f32a { Packet
@lengthOf(
    u) ,
@tag(3) body uint8x ,@lengthOf(metadata ) char[4294967296 ] zchar  ,
    // packet A { u8 x, }
    @tag(
    007 )@tag( // 50% %s
10 )  @tag( // trailing space 
4294967296  )
i32 asx
, int16 x @calculatedFrom(
""CRC32""	)
    ,
} packet u128{@calculatedFrom(""a\\"" )
    @tag(
1 ) @lengthOf( x)
int64
BodyLength @lengthOf(charz ) , @rightPad
(
'\x00' ) float
    Pad
    , @leftPad
( '\x00' ) repeat i64 _x , } 	 ")).
Eval vm_compute in ("<<<M4056>>>" ++ check (runes_of_ascii "  // `tick` ""quote"" 'q'
    	options  {options1 =10  }	packet	packetx

    {

    @leftPad
( ' '	) 
match
x	as // trailing space 

  body

//	t
  // trailing space 
	{[65535 ]
:

Pad 
    // a // b

//x
	, } 
,@calculatedFrom(	""abc"" 
    // trailing space 
	) repeat

    string
    u

    ,@lengthOf(

tag
) 
trueish	As	,
@lengthOf(  falsey )
zchar[
    1
	]
a1	,repeat 
char[]packetx 
  // " ++ [27880; 37322]%N ++ runes_of_ascii "
      // trailing space 
`a\`, uint64 rootA  @calculatedFrom(

""a	b"")	`crlf
line` ,

string Packet
`" ++ [28040; 24687; 31867; 22411]%N ++ runes_of_ascii "`,	uint8 tag 
@lengthOf( o )
,
}

packet Foo

    {
u64  u128

@lengthOf(
u	)
,@tag(00)	@lengthOf(  
      //	t
i8i8
)@leftPad 
( '0'

) char[  1

    ] calculatedFrom 
@lengthOf( i64_) ,repeat u { matchKey 
    //	t
	//
	,repeat
Packet 
  // trailing space 
// " ++ [27880; 37322]%N ++ runes_of_ascii "
    ,char[	10]
    Z9_ // c
@lengthOf(  
      // trailing space 
  	// @lengthOf(
	MetaDataX

    )
    `" ++ [233]%N ++ runes_of_ascii "`

    , 
repeat	falsey
{	zchar[ 0 ]  u8x	@lengthOf(
    f32a)

,
    string falsey `" ++ [28040; 24687; 31867; 22411]%N ++ runes_of_ascii "`,

},  }
    , charz

`doc`

    ,
	@tag(10 )
char[]u128@lengthOf(  rootA  ) 
`doc`,

}
packet chars {
uint8	Z9_
    , //x
	} packet len	// a // b
  { @lengthOf(
	tag)@tag( 0123456789

    )	@lengthOf( repeatCount
) _x
{ x

    Packet
`line1
line2` ,
	match 

// a // b
    	// 50% %s
  crc
as

    packetx {1

    :
body
	,
255 
:  As	,	// " ++ [128512]%N ++ runes_of_ascii " emoji
    ""a\""b""
    :	As
[
007,
	007

]
    : 
  // a // b
  // c
    repeatCount
	""" ++ [233]%N ++ runes_of_ascii "t" ++ [233]%N ++ runes_of_ascii """ :u8x // `tick` ""quote"" 'q'

} 
        // 50% %s
    ,  // 50% %s
uint64 leftPad
@lengthOf(

asx
	) `` 
, 
zchar[
007

]string_

    , }
,
    chars @lengthOf(
    int	)  //	t
  	`" ++ [28040; 24687; 31867; 22411]%N ++ runes_of_ascii "`	,
}
")).
Eval vm_compute in ("<<<M526>>>" ++ check (runes_of_ascii "  root packet uint8x { match trueish
    as body {  [ 007
,
    ""packet""
] :
    metadata 42 : metadata ,
},}	MetaData
roots { i64 // a // b
MetaDataX `tab	here`
, uint8 float ,char[ 42 ] u8x, i64
a1, o
//
// @lengthOf(
Pad
`say ""hi""`,
/// triple
//x
}  options{ Foo= true // @lengthOf(
; f32a = // 50% %s
""a	b""
    //x
    ;falsey// trailing space 
= true
    ;} packet float //x
{ @calculatedFrom( // " ++ [128512]%N ++ runes_of_ascii " emoji
""packet"" ) repeat len ,
    lengthOf
    BodyLength , @lengthOf(
charz)
@calculatedFrom(
""{,}""  ) A ,
//
// packet A { u8 x, }
@tag( 0123456789//	t
)
    crc//	t
, zchar[1 ] leftPad `a\` , repeat
    string i8i8	`100% of %d`
    ,	char[] o`a\` // a // b
, } packet // " ++ [128512]%N ++ runes_of_ascii " emoji
Logon { @tag(  4294967296
)
@lengthOf( chars
    )
    repeat tag `100% of %d`,
@leftPad
( // @lengthOf(
' ' )
uint16 // " ++ [27880; 37322]%N ++ runes_of_ascii "
falsey
    `" ++ [233]%N ++ runes_of_ascii "` ,
@tag( 10 ) leftPad {  int8 len`100% of %d` ,
    Foo {
char[] i8i8@lengthOf(
    lengthOf), // " ++ [27880; 37322]%N ++ runes_of_ascii "
uint8 options1// " ++ [128512]%N ++ runes_of_ascii " emoji
,match matchKey
as msg_type{ [ 10 , ""\n"" ]
:
    roots ,
    [ 10 // 50% %s
] :falsey
, ""`tick`""
:// c
pack ,  0123456789 :
tag
,}
    , //	t
chars //	t
@calculatedFrom( ""`tick`"" ) `line1
line2`
,}  , a1 `100% of %d`  ,	matchKey {
x@calculatedFrom(
""" ++ [233]%N ++ runes_of_ascii "t" ++ [233]%N ++ runes_of_ascii """ )	`{ , }`
, match packetx as body {  65535:
pack
,},} // a // b
,
    } ,
    @tag(1 )
    msg_type @lengthOf( _x )
    `u8 x,` , Logon `" ++ [28040; 24687; 31867; 22411]%N ++ runes_of_ascii "` , zchar[
    42 ] f32a , @rightPad (	'\x00' ) u8 zchar
,// a // b
}
")).
Eval vm_compute in ("<<<M4427>>>" ++ check (runes_of_ascii "
options
{

    charz

    =  f64
;}

packet
	int	{
match

    x_y_z  as  int{[
""a\""b""	, // 50% %s
	3, """ ++ [128512]%N ++ runes_of_ascii """
    ]
:  Foo,""\" ++ [233]%N ++ runes_of_ascii """: //x
pack	, ""a	b"" :
body
    255

: 
pack ,65535:float  
      // packet A { u8 x, }
// 50% %s
[""" ++ [128512]%N ++ runes_of_ascii """  ,	""""
    ]
	:leftPad}

    ,u16 
T
@calculatedFrom(

""\n""
)
	, @tag( 
42

    )
repeat  int {
repeat  u8	len

, 
char[ 00 // trailing space 
	  ]
options1
`crlf
line`  ,  } 
, repeat i64
charz
    , @leftPad('0'
    ) 
@lengthOf(
Header	) repeat	pack  MetaDataX  , @leftPad

( ' ' )@lengthOf(

float
)
	@tag( 65535 )
repeat 
      //
	// c
      int16
    a1 ,
repeat

int
    { match
	repeatCount as	zchar	{ """ ++ [233]%N ++ runes_of_ascii "t" ++ [233]%N ++ runes_of_ascii """:  u8x
    ,0
	:charz	,[ 
7 
]

:
    chars

    ,
	[ ""a\""b""

,
3,
3

    ,  """",""a\""b""
        // trailing space 
    // 50% %s
    ,

""it's"",
	7

    ,007

]:
    msg_type

    ,  
      //	t
} 
	// a // b
    	,
	char[
	255

    ]

    As	@calculatedFrom( 
""1"" )	,}

    ,}

packet
pack 
{  falsey

    x

,@tag(
10
)
    string	i8i8
@lengthOf(
pack
    )

    ,
	@leftPad	(
    '0' )
	repeat pack  `crlf
line`	,

    @calculatedFrom(  """ ++ [128512]%N ++ runes_of_ascii """ )  @rightPad (  )
    i8i8
@calculatedFrom(  ""`tick`""

) , }  options 	 // `tick` ""quote"" 'q'
  { 
charz 
=
'\x00'	uint8x
	=

    '\x00';
	As
	='0' }")).
Eval vm_compute in ("<<<M1150>>>" ++ check (runes_of_ascii "root packet
// packet A { u8 x, }
// trailing space 
T
    { u64
int , match rootA  as BodyLength{ ""it's"" :o
// c
// packet A { u8 x, }
, 10
: int
    ,
""packet"":  string_ , [// `tick` ""quote"" 'q'
""abc""
,  3  ,
    0123456789
    // packet A { u8 x, }
    , // " ++ [27880; 37322]%N ++ runes_of_ascii "
007
,
    7 ,  3  , 007 ]
// 50% %s
// `tick` ""quote"" 'q'
: int ,} , match	i64_ as options1
{ 0123456789 :// packet A { u8 x, }
zchar , 00
    :
pack ,}
,  match zchar as
options1 {""it's""
    : matchKey , ""1""// " ++ [128512]%N ++ runes_of_ascii " emoji
:u128 // packet A { u8 x, }
, // `tick` ""quote"" 'q'
""`tick`"" :trueish 255
//x
// " ++ [128512]%N ++ runes_of_ascii " emoji
: crc
,
// `tick` ""quote"" 'q'
// @lengthOf(
},
    // trailing space 
    } packet
//
//	t
Z9_{@leftPad ('\x00' ) repeat
    float32 Packet , @lengthOf( x )
string u
,@calculatedFrom( ""\" ++ [233]%N ++ runes_of_ascii """ )
    zchar[65535 ] As @lengthOf( BodyLength
/// triple
// " ++ [128512]%N ++ runes_of_ascii " emoji
)
, string
leftPad @calculatedFrom(	""a\\"" )	, @rightPad('\x00') // c
rootA
{ repeat
Packet// trailing space 
{
char[10 ]	matchKey `crlf
line`
    ,
    // a // b
    } ,
} ,match Packet as uint8x{255: roots, [ 42
, 3, ""\" ++ [233]%N ++ runes_of_ascii """
    ] :repeatCount
}
, repeat _x`two words`
, } MetaData tag
// " ++ [128512]%N ++ runes_of_ascii " emoji
// " ++ [27880; 37322]%N ++ runes_of_ascii "
{
Pad Header // packet A { u8 x, }
,
}
")).
Eval vm_compute in ("<<<M4529>>>" ++ check (runes_of_ascii "packet	//

	u {
	i8i8
@lengthOf(  rootA

    ) `// not a comment` , @calculatedFrom(
""" ++ [28040; 24687]%N ++ runes_of_ascii """  )
    @tag( 
0123456789 )@tag(  7

    )tag @calculatedFrom( ""`tick`"" 
) `u8 x,`  // packet A { u8 x, }
  	, match string_
	as

    Pad
    {
    ""\" ++ [233]%N ++ runes_of_ascii """
    :	u 
    // 50% %s
	  // a // b

""`tick`"" :
leftPad
, 255	:  metadata
,
    //x
	// `tick` ""quote"" 'q'
  10 :  Header  ,	10 : 
msg_type // " ++ [27880; 37322]%N ++ runes_of_ascii "
    	,
    [""// no comment""
	,

""""
,	""x y"" ,	0,
	""// no comment""
]: float

    ,
	}	, @calculatedFrom(
""""

)

    @calculatedFrom(	""{,}"" )
Header { 
uint64
pack`" ++ [28040; 24687; 31867; 22411]%N ++ runes_of_ascii "` ,
	leftPad { zchar[  007]
	trueish
    @lengthOf(
BodyLength	)
, repeat

lengthOf `
`  , // trailing space 
match Foo
	as	Pad
{
	""\n""
:
lengthOf 
[
""abc""
,
	""1"" 
]

:
	metadata
	, // packet A { u8 x, }
  65535
:
    zchar
[ 
""abc"" 
,42  ] : 
string_ // c
    ""1"": falsey
,} ,

char[ 65535]

o ,
}

, }

,	}options
	    //	t
{	// a // b
lengthOf
    =

    true // @lengthOf(

;rootA
	=true	repeatCount  =  '\x00' 
A

    =false
	}
    options
	{u=

    ""packet""	// " ++ [27880; 37322]%N ++ runes_of_ascii "
    }options
    { repeatCount=

    ""// no comment"" ;}
")).
Eval vm_compute in ("<<<M55>>>" ++ check (runes_of_ascii "root
packet matchKey {zchar[
    007 ] u8x, @lengthOf( u8x )@tag(
255 )repeat u
    a1
,  char[ 42]
    string_`line1
line2` ,@calculatedFrom(	""x y""
)repeat crc {	match metadata as crc
    { 0: chars , """ ++ [233]%N ++ runes_of_ascii "t" ++ [233]%N ++ runes_of_ascii """ : As , 10
: matchKey , ""CRC32"":asx // `tick` ""quote"" 'q'
,	[  ""CRC32"" ]	:charz ,4294967296 // " ++ [27880; 37322]%N ++ runes_of_ascii "
:rootA
,
}
, } , repeat MetaDataX i64_
/// triple
// packet A { u8 x, }
, matchKey@calculatedFrom( ""`tick`"") `100% of %d`, @tag(
    65535 )match charz as // a // b
T { 0123456789:
i8i8
3 : a1  7
:a1
    // @lengthOf(
    , [ ""x y"" , ""x y"" ] :
    a1
    ,""CRC32"" :
    crc }//
, i32 BodyLength `// not a comment` , @calculatedFrom( ""{,}"") @lengthOf( chars )
@tag(7 )
asx o
, @tag( 4294967296 ) Packet ,
}
    root  packet x_y_z{ @calculatedFrom(
    ""a\\"" )
    @tag( 42 ) // `tick` ""quote"" 'q'
u8x @calculatedFrom(""it's"" ), match x
    as  matchKey
    // trailing space 
    { // a // b
4294967296 :uint8x	,
3 :u8x
    // @lengthOf(
    ,""CRC32"" :x , /// triple
1
    : Z9_ , 1 : options1 ,
""it's"": int },u  ,
char[]
BodyLength, }")).
Eval vm_compute in ("<<<M4392>>>" ++ check (runes_of_ascii "packet Z9_ {
    repeatCount {
        match Packet as pack {
            [""" ++ [128512]%N ++ runes_of_ascii """] : Header,
            65535 : trueish,
        },
        len,//	t
        pack @calculatedFrom(""x y""),
    },
    char[0123456789] x,
    // a // b
    // " ++ [27880; 37322]%N ++ runes_of_ascii "
}

packet Packet {
    uint16 msg_type @calculatedFrom(""" ++ [128512]%N ++ runes_of_ascii """),
    f32 crc @lengthOf(repeatCount) `// not a comment`,
    u32 i64_,
    @tag(0123456789)
    asx {
        asx {
            repeat zchar repeatCount `a\`,
            // " ++ [27880; 37322]%N ++ runes_of_ascii "
            // @lengthOf(
            Logon,
            match calculatedFrom as crc {
                // packet A { u8 x, }
                // a // b
                """ ++ [28040; 24687]%N ++ runes_of_ascii """ : MetaDataX,
                3 : len,
                [""1""] : zchar,
                0 : f32a,
                // `tick` ""quote"" 'q'
            },
        },
        char[1] pack,
        string uint8x @calculatedFrom(""it's"") `line1
                line2`,
    },
}// " ++ [128512]%N ++ runes_of_ascii " emoji

MetaData Foo {
    // " ++ [27880; 37322]%N ++ runes_of_ascii "
    //	t
}// 50% %s")).
Eval vm_compute in ("<<<M3553>>>" ++ check (runes_of_ascii "// top
options // c0a
  // c0b
{
    // c1
LittleEndian = false // c4
; StringPrefixLenType // c6
= u16 ; ArrayPrefixLenType
    // c10
= // c11
u32 // c12a
  // c12b
; // c13
FixedStringPadFromLeft // c14a
  // c14b
= true ; // c17a
  // c17b
FixedStringPadChar // c18a
  // c18b
= // c19a
  // c19b
'0' ; // c21
} // c22a
  // c22b
packet Quote
    // c24
{ // c25
repeat
    // c26
InSide284 {
    // c28
repeat // c29a
  // c29b
string Acct
    // c31
, // c32a
  // c32b
int64 OrderId , // c35
} // c36
,
    // c37
uint8
    // c38
Px // c39a
  // c39b
, // c40
int32 // c41a
  // c41b
lastPx
    // c42
, uint8 Flags
    // c45
, // c46a
  // c46b
} packet Fill { // c50a
  // c50b
f32 // c51a
  // c51b
clOrdID // c52
,
    // c53
uint32 // c54
msgKind
    // c55
, // c56a
  // c56b
repeat Quote // c58
, } // c60
root
    // c61
packet Trade // c63a
  // c63b
{ // c64a
  // c64b
string
    // c65
Acct // c66
, } ")).
Eval vm_compute in ("<<<M4293>>>" ++ check (runes_of_ascii "root packet int {
    uint64 BodyLength `{ , }`,
}

packet uint8x {
    repeat stringy,
}

root packet zchar {
    string Pad @calculatedFrom(""it's"") `crlf
    line`,
}

/// triple
// packet A { u8 x, }
options {
}

root packet Packet {
    repeat a1 `{ , }`,
    @calculatedFrom(""" ++ [28040; 24687]%N ++ runes_of_ascii """)
    char calculatedFrom,
    zchar[00] string_,
    @calculatedFrom(""CRC32"")
    repeat char[3] o `// not a comment`,
    i64 u128,
    i16 packetx @lengthOf(falsey) ``,
    @leftPad('\x00')
    // @lengthOf(
    float64 stringy `" ++ [28040; 24687; 31867; 22411]%N ++ runes_of_ascii "`,
    @tag(10)
    // c
    // @lengthOf(
    @calculatedFrom(""\" ++ [233]%N ++ runes_of_ascii """)
    @leftPad(' ')
    i32 MetaDataX `" ++ [28040; 24687; 31867; 22411]%N ++ runes_of_ascii "`,
    a1 {
        match stringy as Logon {
            ""\" ++ [233]%N ++ runes_of_ascii """ : T,
            42 : int,
            [""\" ++ [233]%N ++ runes_of_ascii """] : Foo,
            00 : pack,
            // @lengthOf(
            3 : float,
            // c
            """ ++ [128512]%N ++ runes_of_ascii """ : float,
        },
    },
}")).
Eval vm_compute in ("<<<M336>>>" ++ check (runes_of_ascii "
root packet chars
    {match
i64_
    as	MetaDataX{ 007
: float
, // trailing space 
""a\\"" : leftPad[ 255,
    ""x y""
    ,
// `tick` ""quote"" 'q'
// @lengthOf(
4294967296,0
, 3 ] :Packet, [""" ++ [128512]%N ++ runes_of_ascii """ //	t
]	:
body ,	""" ++ [28040; 24687]%N ++ runes_of_ascii """ :
    // " ++ [128512]%N ++ runes_of_ascii " emoji
    Z9_ , }  , @calculatedFrom( ""abc""  )@rightPad ('0'  )
match
Z9_ as u128
{
    255 :
Header } , repeat zchar[ 255 ] leftPad ,
@tag( 255 )u8 zchar`a\` , }packet	As { @tag( 00 ) MetaDataX BodyLength  ,
    i64 trueish	,repeat o {
    i8
// packet A { u8 x, }
// trailing space 
options1 @lengthOf( BodyLength ) ,
    } // " ++ [27880; 37322]%N ++ runes_of_ascii "
, @lengthOf( Z9_ )
    @rightPad// 50% %s
() @calculatedFrom( ""packet"" )float @lengthOf( x ) `line1
line2` ,
    }
    /// triple
    root packet T //x
{
    crc`" ++ [233]%N ++ runes_of_ascii "` ,
    match	options1 as x{ 7 :  int , """" : calculatedFrom ,	[
""it's""]	: packetx 7 : u128 , } ,repeat crc
    , }
")).
Eval vm_compute in ("<<<M1186>>>" ++ check (runes_of_ascii "//x
packet
float { uint8 calculatedFrom `tab	here`
    , }
root packet Packet { /// triple
match calculatedFrom as leftPad { """ ++ [28040; 24687]%N ++ runes_of_ascii """ :
u ,
} , match chars//	t
as
int {
""x y"": trueish
,
    // @lengthOf(
    65535
// `tick` ""quote"" 'q'
//	t
: asx[ 1 ,
    3
    , 007 ,7
    , ""it's"" ] :
// trailing space 
//
calculatedFrom ,
},
    uint16 options1 @lengthOf( a1
    ) ,
    u64
    asx/// triple
@calculatedFrom( ""abc"" ) , }
packet leftPad{float32
packetx
    //x
    @lengthOf( Packet
),
// @lengthOf(
/// triple
@tag( 00 )@leftPad
//x
// packet A { u8 x, }
( '\x00'
    ) @calculatedFrom(
""" ++ [128512]%N ++ runes_of_ascii """ )  Packet
{ // `tick` ""quote"" 'q'
uint16 x_y_z@calculatedFrom(  ""{,}"" ) , } , repeat rootA { zchar[ 0] i64_ , i8	Logon
@lengthOf( asx ) , } ,
    match	msg_type
as leftPad {
[
    """ ++ [28040; 24687]%N ++ runes_of_ascii """
]
    : Z9_ , },	}")).
Eval vm_compute in ("<<<M917>>>" ++ check (runes_of_ascii "
options // " ++ [128512]%N ++ runes_of_ascii " emoji
{	} root packet Header
{
    i64
    crc	`" ++ [28040; 24687; 31867; 22411]%N ++ runes_of_ascii "`  , zchar[ 3 ]
chars,	}
packet
tag
{ match
leftPad as	_x {
    // c
    255 :  BodyLength ,
    } // 50% %s
,tag , // " ++ [128512]%N ++ runes_of_ascii " emoji
i32 trueish `
`, }
packet rootA {
    repeat
i64 Packet
`u8 x,`, @lengthOf( BodyLength  )
    char[ 42 ] int @lengthOf( // " ++ [27880; 37322]%N ++ runes_of_ascii "
lengthOf) `" ++ [233]%N ++ runes_of_ascii "` ,
@tag( 1
    )calculatedFrom
,zchar[255 ] packetx , chars{ char[]trueish
    ,
    // 50% %s
    }
// " ++ [128512]%N ++ runes_of_ascii " emoji
// packet A { u8 x, }
, zchar f32a ,
    roots x_y_z,	match body as	f32a // trailing space 
{ [255,10 // a // b
] :
BodyLength
, ""// no comment"" /// triple
: packetx ,
[ ""{,}"",65535
    ,4294967296
    , 255 // a // b
, 7, ""{,}""
    , //x
"""" , 0
] : uint8x 255  : trueish , 7:
u128 //x
,0123456789 :
    asx ,
} , }")).
Eval vm_compute in ("<<<M3544>>>" ++ check (runes_of_ascii "options { 
StringPrefixLenType
=
u16 
; ArrayPrefixLenType= u32; FixedStringPadChar

=
    '0';
}
packet
Ack

{
zchar[ 9
]
Ref ,	repeat
u64
Flags
,
char[
9
    ]
	lastPx,char[]

Tail 
, }

packet

Logon 
{ Ack ,
    repeat
	InSide298 {repeat  Ack ,

    u8 clOrdID  ,  repeat InNote61	{
zchar[
4
]  tag7 ,
    float32
    clOrdID 
,
int16
	Note
, char[]  Acct ,
	uint16
Side2 ,	string
    OrderId
,
    },
	} , u16 price
,

uint8	Acct
,
	i32 
tag7	,@rightPad( '0'
	) char[5
    ]lastPx  , } packet Cancel	{ u16 
seqNo
	,  } packet Leg	{repeat Ack
	, 
repeat
InNote13

{

int32

seqNo	,
Ack  ,	}  ,} packet 
Quote 
{string
OrderId
, }
	root 
packet
	Trade{repeat

InAcct24 
{
float64 msgKind ,	} ,

    }
")).
Eval vm_compute in ("<<<M952>>>" ++ check (runes_of_ascii "packet o {
}
    options
{
    }root packet matchKey{ // trailing space 
uint32 stringy , int64 msg_type @calculatedFrom(""" ++ [233]%N ++ runes_of_ascii "t" ++ [233]%N ++ runes_of_ascii """ ) `{ , }`
    , repeat Logon {repeat roots Header`two words` , u16 falsey`// not a comment`
    ,
} ,tag@calculatedFrom( ""CRC32""
    // a // b
    ) `crlf
line` //x
, char[] Pad `100% of %d`// @lengthOf(
,
    match Header as falsey
{""" ++ [28040; 24687]%N ++ runes_of_ascii """: string_ ,// a // b
7  : x_y_z
/// triple
// a // b
, [""`tick`"" ,""`tick`"",  0123456789 // `tick` ""quote"" 'q'
,
    65535 ,7
    , 65535
    , ""abc"" ]
    // trailing space 
    :
    MetaDataX } , i64_ crc ,	}  options
    {
zchar =
char[ 4294967296 ] //
; leftPad
=
0123456789
;trueish =""""
//x
//	t
Logon= '\x00'; }")).
Eval vm_compute in ("<<<M1178>>>" ++ check (runes_of_ascii "packet MetaDataX// trailing space 
{ o , @lengthOf( packetx ) o @lengthOf(packetx ) `
`	,
repeat
options1{ // `tick` ""quote"" 'q'
float64// @lengthOf(
o `doc`
    , }
, char[] //x
MetaDataX
    `a\` ,
u8
charz`line1
line2` , tag {
string metadata
`tab	here` , zchar[1 ] charz `two words`	,
    }, repeat
u
    `two words` , repeat MetaDataX { trueish i64_`// not a comment`
    // trailing space 
    ,
repeat
    //	t
    len ,
repeat Packet
// packet A { u8 x, }
// @lengthOf(
, }
    // 50% %s
    ,
    match uint8x as T	{ [ ""1""	,	""x y"" , 65535 ] :
    uint8x , 00
: Packet
    //
    , """" :calculatedFrom , """"
: chars  ,
0	:
lengthOf} , } // @lengthOf(")).
Eval vm_compute in ("<<<M4440>>>" ++ check (runes_of_ascii "MetaData Packet {
}

packet stringy {
    zchar[00] tag @lengthOf(u) `it's`,
    repeat char[255] Foo `line1
    line2`,
    @tag(0123456789)
    a1 @lengthOf(Header),
    @rightPad('\x00')
    match MetaDataX as u128 {
        // 50% %s
        [""" ++ [28040; 24687]%N ++ runes_of_ascii """] : calculatedFrom,
        0123456789 : _x,
        ""1"" : u,
        [""" ++ [28040; 24687]%N ++ runes_of_ascii """, ""`tick`""] : int,
        ""\n"" : x,
        7 : asx,
    },
    As crc `doc`,
    @lengthOf(charz)
    uint8x chars,
    /// triple
}

options {
    i64_ = zchar[007];
    pack = 42;// 50% %s
    tag = 42;
}

options {
    metadata = zchar[65535];
    a1 = '0';
    roots = 00
    o = 42
    Pad = false;
}")).
Eval vm_compute in ("<<<M1268>>>" ++ check (runes_of_ascii "packet i8i8
{chars{ repeat tag, zchar[ 00 ] options1
, repeat charz , char[] float
,
}
,@tag(
    10 )	@leftPad ( '\x00' )  @rightPad
(
)calculatedFrom @calculatedFrom(  ""{,}"" ) `100% of %d` , // a // b
uint16 repeatCount@lengthOf(
    x_y_z
    // trailing space 
    )
    ,
// trailing space 
// c
stringy , uint8	Pad @lengthOf(Packet
)  , u8 matchKey //x
, }
options { tag
=
    zchar[ 42 ]}
    packet  x_y_z// packet A { u8 x, }
{
}  packet Packet {
u
    @calculatedFrom(
""it's"" )
`
`, i32 float// " ++ [128512]%N ++ runes_of_ascii " emoji
@calculatedFrom( """ ++ [128512]%N ++ runes_of_ascii """ // `tick` ""quote"" 'q'
), u128 `two words` ,
} // `tick` ""quote"" 'q'")).
Eval vm_compute in ("<<<M705>>>" ++ check (runes_of_ascii "
packet
asx// trailing space 
{ int64 rootA , }options
    { Packet= true; uint8x = //	t
zchar[00
    ] ; //x
int
/// triple
//x
=
true
    Pad =
    1 ; }root packet T
//x
// packet A { u8 x, }
{ @lengthOf(  Logon )@rightPad	(
'\x00' )
@lengthOf( a1// a // b
) match  crc as// trailing space 
T{ [ """ ++ [128512]%N ++ runes_of_ascii """ ]
: charz
,""x y"" :
// @lengthOf(
// @lengthOf(
crc ,
0123456789 : BodyLength  [ 0123456789
    ,
""x y""	]
: // packet A { u8 x, }
f32a // trailing space 
, [ 0, 65535
// a // b
// " ++ [27880; 37322]%N ++ runes_of_ascii "
]
:
    a1
    // " ++ [128512]%N ++ runes_of_ascii " emoji
    ,
    ""{,}"" :	A
    // packet A { u8 x, }
    } , }
")).
Eval vm_compute in ("<<<M3886>>>" ++ check (runes_of_ascii "packet Z9_ {
    roots @lengthOf(x_y_z) `tab	here`,
    match u as i64_ {
        007 : a1,
        1 : asx,
        [
            ""`tick`"", ""abc"", ""it's"", 42, """ ++ [233]%N ++ runes_of_ascii "t" ++ [233]%N ++ runes_of_ascii """,
            ""it's"", """"
        ] : u128,
        // packet A { u8 x, }
        1 : Logon,
    },
}

packet Pad {
    //x
    @calculatedFrom(""`tick`"")
    u32 A @calculatedFrom(""x y"") `two words`,
    @tag(007)
    @lengthOf(Pad)
    repeat asx,
    @lengthOf(Logon)
    @calculatedFrom(""{,}"")
    @calculatedFrom(""abc"")
    u128,
    zchar[0] options1 `" ++ [28040; 24687; 31867; 22411]%N ++ runes_of_ascii "`,
}

packet MetaDataX {
}")).
Eval vm_compute in ("<<<M969>>>" ++ check (runes_of_ascii "
root packet Foo
    { options1,
match
BodyLength as float {
7 : MetaDataX ,007 : int
    ,
    } , @calculatedFrom( ""abc"" ) repeat int16 A`say ""hi""` , @tag(
    3
    )
    uint8 u128 @lengthOf( len
)`100% of %d` ,@rightPad
    // 50% %s
    ( ' ' )
    T { //
match string_
as As
{ ""x y"" : Header
,
}, x_y_z	{uint32
// " ++ [27880; 37322]%N ++ runes_of_ascii "
// c
int
``  , },
    } , _x
    x_y_z `line1
line2` ,  @rightPad ()  repeat string
// 50% %s
// c
pack
// a // b
// trailing space 
`it's` ,  string // a // b
o @calculatedFrom( """")`tab	here`
    , } // " ++ [27880; 37322]%N)).
Eval vm_compute in ("<<<M357>>>" ++ check (runes_of_ascii "packet  rootA {repeat matchKey {
    A
calculatedFrom
    `" ++ [233]%N ++ runes_of_ascii "` ,
} //	t
,
f32 int, @calculatedFrom( ""\" ++ [233]%N ++ runes_of_ascii """ )match // a // b
options1 as
// " ++ [27880; 37322]%N ++ runes_of_ascii "
// trailing space 
i8i8 {	""// no comment"" :float, 0123456789 :
    // trailing space 
    calculatedFrom , // packet A { u8 x, }
4294967296 :
calculatedFrom
}, @calculatedFrom(""a\\"") charz {	repeat
lengthOf,
char[ 42 ] Header
    , } , } root
// packet A { u8 x, }
// trailing space 
packet
// a // b
//	t
packetx {
char[//	t
65535
]zchar@lengthOf( x_y_z)`two words`  ,}")).
Eval vm_compute in ("<<<M1088>>>" ++ check (runes_of_ascii "packet body
{
repeat
msg_type{ len //x
`" ++ [233]%N ++ runes_of_ascii "`, roots
@calculatedFrom(
    // a // b
    ""// no comment"" )
`it's`,match o as u
    {
3: int}, u32 msg_type `doc`, // `tick` ""quote"" 'q'
} , repeat zchar[ 4294967296] asx `u8 x,` ,
// " ++ [27880; 37322]%N ++ runes_of_ascii "
//x
char[]	As
    @calculatedFrom( """ ++ [28040; 24687]%N ++ runes_of_ascii """ )
, // a // b
zchar[007 ]
    metadata `tab	here` , int16 As,	} packet Pad  { A{
    zchar[ 10
]As	@calculatedFrom(
    ""a\""b""
    ), // 50% %s
repeat u8 o
,
    } , } packet	rootA
    {repeat _x	msg_type	, }

")).
Eval vm_compute in ("<<<M967>>>" ++ check (runes_of_ascii "packet u	{ zchar[ 255 ] //
Header
    // 50% %s
    @lengthOf( //
matchKey
    ) `doc` , repeat i8 leftPad `a\` ,
    Packet
    @lengthOf(
    u128 ) `u8 x,`, options1// " ++ [128512]%N ++ runes_of_ascii " emoji
i8i8 ,u16
    zchar
// trailing space 
/// triple
`u8 x,` , @rightPad
(
    ) // trailing space 
x_y_z asx
    , float32
charz , } MetaData
    int {i16 string_ // c
,
i8 uint8x/// triple
`it's`,
    trueish u128 , a1 i64_ `tab	here`
, uint32 A	`" ++ [233]%N ++ runes_of_ascii "` , }
// packet A { u8 x, }
")).
Eval vm_compute in ("<<<M3903>>>" ++ check (runes_of_ascii "MetaData uint8x {
    uint8 u,
    int16 packetx,
    char[7] metadata `line1
        line2`,
    char[] i8i8 `crlf
        line`,
}

packet u {
    string x_y_z,
    repeat Foo asx,
    trueish {
        u @lengthOf(calculatedFrom),
        i8i8 {
            repeat char[65535] Logon,
        },
        char[] o,
        f64 repeatCount `
                `,
    },
    packetx u128,
}

options {
    roots = false;
    trueish = char[1];
}")).
Eval vm_compute in ("<<<M858>>>" ++ check (runes_of_ascii "MetaData
Logon { x MetaDataX `u8 x,`
    , //	t
}// `tick` ""quote"" 'q'
options { msg_type
    //	t
    =""it's"";matchKey = f64  ; _x
=
255
    ;}	MetaData body  {BodyLength //
rootA ,char a1
    , zchar[
0  ]
_x`100% of %d` , zchar[ // a // b
00
] A `u8 x,` // " ++ [27880; 37322]%N ++ runes_of_ascii "
, } options
// a // b
// c
{
Foo
// c
// 50% %s
=
    0123456789;
    Foo  =// `tick` ""quote"" 'q'
true
; trueish = ' '; //x
options1
    = ""a\\"" } // @lengthOf(")).
Eval vm_compute in ("<<<M4001>>>" ++ check (runes_of_ascii "packet o {
    match matchKey as chars {
        10 : MetaDataX,
        """ ++ [233]%N ++ runes_of_ascii "t" ++ [233]%N ++ runes_of_ascii """ : x,
        ""it's"" : trueish,
        4294967296 : i64_,
    },
    i16 u8x @lengthOf(zchar),
    @lengthOf(len)
    //	t
    @tag(4294967296)
    // a // b
    _x @calculatedFrom(""abc""),
}

root packet matchKey {
    // packet A { u8 x, }
    /// triple
    repeat stringy u8x,
}

packet BodyLength {
    metadata @lengthOf(rootA),
}")).
Eval vm_compute in ("<<<M3932>>>" ++ check (runes_of_ascii "options {
    packetx = 0
    metadata = char[0123456789]
    As = 42;
    msg_type = '0';
}

options {
    body = ""packet"";
    metadata = false;
    chars = 42
    falsey = 42
}

packet body {
    @leftPad('\x00')
    leftPad @lengthOf(repeatCount),
}

MetaData _x {
    uint16 lengthOf `100% of %d`,
    crc T,
    uint32 Pad `
    `,
    u64 msg_type,
    string_ u128,
    zchar[4294967296] _x,
}")).
Eval vm_compute in ("<<<M4128>>>" ++ check (runes_of_ascii "MetaData asx	{
	trueish
	charz ,	}
    packet

rootA {
    @tag(
007 
) @rightPad (  '\x00'	) asx	tag
	`// not a comment`
,@calculatedFrom(
    ""\" ++ [233]%N ++ runes_of_ascii """//
) 
@leftPad
('\x00')  int64 _x
	`100% of %d`

    ,
	@tag(4294967296 )

@tag(  
      // " ++ [128512]%N ++ runes_of_ascii " emoji
	/// triple

3
	)
    Packet @calculatedFrom(

    """ ++ [128512]%N ++ runes_of_ascii """
)
    `" ++ [233]%N ++ runes_of_ascii "`
    //x
	// @lengthOf(
,repeat u32  o 
`crlf
line`

,
}
")).
Eval vm_compute in ("<<<M1117>>>" ++ check (runes_of_ascii "root packet repeatCount { // @lengthOf(
int32 u ,@tag( 0 )@leftPad( '\x00')
//
//x
@leftPad (
' ' )float packetx `u8 x,`, }
    // c
    packet u { match leftPad as int  {[
""abc"" ] // `tick` ""quote"" 'q'
:
    // packet A { u8 x, }
    trueish ,}
    ,
zchar[ 007 ]msg_type	`doc` ,
    int ,// 50% %s
@lengthOf(	chars
    )repeat
char[65535 ] // 50% %s
stringy,
}
")).
Eval vm_compute in ("<<<M1213>>>" ++ check (runes_of_ascii "root packet len{repeat zchar[
    65535] // a // b
pack
`" ++ [28040; 24687; 31867; 22411]%N ++ runes_of_ascii "` ,
} MetaData u8x{	uint32 metadata `// not a comment`
    // c
    , // c
} root
    packet x_y_z
{
    repeat char[] A ,char chars
    ,} packet	repeatCount { @tag(
007)//	t
f32a { repeat uint8
uint8x ,}
// " ++ [27880; 37322]%N ++ runes_of_ascii "
//	t
, i64 i64_  @calculatedFrom( ""abc"" ) `say ""hi""` , }MetaData
Logon { } 	 ")).
Eval vm_compute in ("<<<M63>>>" ++ check (runes_of_ascii "// c
packet	a1 { @leftPad ( ' ' ) _x // " ++ [27880; 37322]%N ++ runes_of_ascii "
string_ , @lengthOf(u8x) lengthOf `two words` ,
//	t
// " ++ [128512]%N ++ runes_of_ascii " emoji
zchar{ // c
match
Packet as Packet {
    """" :	asx }	, repeat char[] o`{ , }`,
    // " ++ [27880; 37322]%N ++ runes_of_ascii "
    As	@calculatedFrom( ""it's""
), } , @calculatedFrom(
""// no comment""
) @rightPad ( ) uint16 packetx , float @calculatedFrom( """ ++ [28040; 24687]%N ++ runes_of_ascii """)
,
}
")).
Eval vm_compute in ("<<<M3785>>>" ++ check (runes_of_ascii "packet // `tick` ""quote"" 'q'
		calculatedFrom  
  // 50% %s
	//x
    {

@tag(
    4294967296
	// " ++ [27880; 37322]%N ++ runes_of_ascii "

	/// triple
)
	@tag(
//	t
      65535
    // 50% %s
  // 50% %s
) 
@calculatedFrom(""" ++ [28040; 24687]%N ++ runes_of_ascii """  )u8

    u128

`tab	here` // `tick` ""quote"" 'q'
,

}
    packet stringy {

    @rightPad  (
    )

    chars ,  } options{  }")).
Eval vm_compute in ("<<<M888>>>" ++ check (runes_of_ascii "packet  As // `tick` ""quote"" 'q'
{	@tag(
255 ) u8 Z9_`doc`,
}
packet u128  { } options
{_x =  char[ 7 ];
    string_
//	t
// a // b
= 4294967296 ; falsey =
    '0' ;  u	=
    // c
    i16}  root
    packet calculatedFrom { u8x  { _x,int32 repeatCount ,	i64_ body , },o
    trueish
    //x
    `{ , }`,}
//	t
")).
Eval vm_compute in ("<<<M4463>>>" ++ check (runes_of_ascii "MetaData stringy {
    zchar[7] x_y_z,
    zchar[007] A,
    string As `
        `,
}

root packet tag {
    @leftPad()
    match _x as _x {
        255 : chars,
        10 : roots,
        3 : Foo,
        [""{,}"", ""packet""] : u,
        //x
        //
        00 : x_y_z,
        1 : i64_,
    },
}")).
Eval vm_compute in ("<<<M317>>>" ++ check (runes_of_ascii "packet charz
    { @tag( 10 )	calculatedFrom// 50% %s
@lengthOf(charz )
`100% of %d`
,  A@calculatedFrom(// a // b
""\n"" )
, zchar[7 ] Header ,
repeat calculatedFrom`it's` , repeat options1 chars	`" ++ [233]%N ++ runes_of_ascii "`
    ,T
    calculatedFrom `tab	here` ,repeat uint8 x_y_z
    `crlf
line`  , crc float ,}")).
Eval vm_compute in ("<<<M1917>>>" ++ check (runes_of_ascii "packet	packetx { // trailing space 
x_y_z
{
string
charz ,
string x// @lengthOf(
`two words`
    ,  u8x { // `tick` ""quote"" 'q'
charz charz `100% of %d` // packet A { u8 x, }
,}// " ++ [27880; 37322]%N ++ runes_of_ascii "
,} , }
    // a // b
    packet metadata {  @leftPad ( '0') repeat i32 options1 ,u64 uint8x , }
")).
Eval vm_compute in ("<<<M1882>>>" ++ check (runes_of_ascii "packet	packetx { // trailing space 
x_y_z
{
string
charz , ,
string x// @lengthOf(
`two words`
    ,  u8x { // `tick` ""quote"" 'q'
charz `100% of %d` // packet A { u8 x, }
,}// " ++ [27880; 37322]%N ++ runes_of_ascii "
,} , }
    // a // b
    packet metadata {  @leftPad ( '0') repeat i32 options1 ,u64 uint8x , }
")).
Eval vm_compute in ("<<<M1850>>>" ++ check (runes_of_ascii "packetx	packet { // trailing space 
x_y_z
{
string
charz ,
string x// @lengthOf(
`two words`
    ,  u8x { // `tick` ""quote"" 'q'
charz `100% of %d` // packet A { u8 x, }
,}// " ++ [27880; 37322]%N ++ runes_of_ascii "
,} , }
    // a // b
    packet metadata {  @leftPad ( '0') repeat i32 options1 ,u64 uint8x , }
")).
Eval vm_compute in ("<<<M1989>>>" ++ check (runes_of_ascii "packet	packetx { // trailing space 
x_y_z
{
string
charz ,
string x// @lengthOf(
`two words`
    ,  u8x { // `tick` ""quote"" 'q'
charz `100% of %d` // packet A { u8 x, }
,}// " ++ [27880; 37322]%N ++ runes_of_ascii "
,} , }
    // a // b
    packet metadata {  @leftPad ( '0'( repeat i32 options1 ,u64 uint8x , }
")).
Eval vm_compute in ("<<<M3806>>>" ++ check (runes_of_ascii "options {
    LittleEndian = false;
    StringPrefixLenType = u32;
    ArrayPrefixLenType = u64;
    FixedStringPadFromLeft = false;
    FixedStringPadChar = '0';
}

packet Fill {
    zchar[6] price,
}

root packet Quote {
    Fill,
    float32 count,
    repeat f64 OrderId,
}")).
Eval vm_compute in ("<<<M1899>>>" ++ check (runes_of_ascii "packet	packetx { // trailing space 
x_y_z
{
string
charz ,
string x// @lengthOf(
zchar[
    ,  u8x { // `tick` ""quote"" 'q'
charz `100% of %d` // packet A { u8 x, }
,}// " ++ [27880; 37322]%N ++ runes_of_ascii "
,} , }
    // a // b
    packet metadata {  @leftPad ( '0') repeat i32 options1 ,u64 uint8x , }
")).
Eval vm_compute in ("<<<M2170>>>" ++ check (runes_of_ascii "packet// packet A { u8 x, }
repeatCount	{// packet A { u8 x, }
@leftPad ( '\x00'
) repeat u8x MetaDataX `crlf
line`,
    repeat
    char[] MetaDataX
    ,
u64	uint8x@calculatedFrom(""a\""b""
// c
// packet A { u8 x, }
) `tab	here`
,//
}MetaData MetaData pack
    {
    }
")).
Eval vm_compute in ("<<<M3842>>>" ++ check (runes_of_ascii "packet calculatedFrom {
    @calculatedFrom(""a\\"")
    zchar[4294967296] calculatedFrom @lengthOf(pack) `100% of %d`,
    char[] body @calculatedFrom(""// no comment""),
    @tag(007)
    //x
    leftPad `it's`,
    repeat pack {
        repeat char[3] body,
    },
}")).
Eval vm_compute in ("<<<M2150>>>" ++ check (runes_of_ascii "packet// packet A { u8 x, }
repeatCount	{// packet A { u8 x, }
@leftPad ( '\x00'
) repeat u8x MetaDataX `crlf
line`,
    repeat
    char[] MetaDataX
    ,
u64	uint8x@calculatedFrom(""a\""b""
// c
// packet A { u8 x, }
) ) `tab	here`
,//
}MetaData pack
    {
    }
")).
Eval vm_compute in ("<<<M2062>>>" ++ check (runes_of_ascii "packet// packet A { u8 x, }
repeatCount	T// packet A { u8 x, }
@leftPad ( '\x00'
) repeat u8x MetaDataX `crlf
line`,
    repeat
    char[] MetaDataX
    ,
u64	uint8x@calculatedFrom(""a\""b""
// c
// packet A { u8 x, }
) `tab	here`
,//
}MetaData pack
    {
    }
")).
Eval vm_compute in ("<<<M2059>>>" ++ check (runes_of_ascii "packet// packet A { u8 x, }
repeatCount	// packet A { u8 x, }
@leftPad ( '\x00'
) repeat u8x MetaDataX `crlf
line`,
    repeat
    char[] MetaDataX
    ,
u64	uint8x@calculatedFrom(""a\""b""
// c
// packet A { u8 x, }
) `tab	here`
,//
}MetaData pack
    {
    }
")).
Eval vm_compute in ("<<<M791>>>" ++ check (runes_of_ascii "// a // b
MetaData int{ u8 string_ `two words`
,
    //	t
    i32
    A `
` , }
    root
packet rootA {
@leftPad ( ) match x
as falsey
    { [	10	] : string_ 0123456789 :
    //
    uint8x  ,}, @tag(
    // c
    0)
    x_y_z u , }root packet
zchar {	}
")).
Eval vm_compute in ("<<<M1469>>>" ++ check (runes_of_ascii "packet calculatedFrom
{ @calculatedFrom( ""a\\"" ) zchar[ 4294967296 ]
calculatedFrom@lengthOf( pack pack )	`100% of %d` ,char[]body@calculatedFrom( ""// no comment"" )  ,
@tag( 007) //x
int8
leftPad`it's` , repeat pack
    { repeat char[ 3] body
,},
}")).
Eval vm_compute in ("<<<M859>>>" ++ check (runes_of_ascii "MetaData asx{ BodyLength
// a // b
// trailing space 
u8x
`crlf
line`, }	options
{ u
=
'0'
    /// triple
    ;a1= uint8; T =""1""
    } packet
    //x
    zchar
{ u32 u128 `line1
line2` , // c
u16 o
//x
//
@lengthOf( Z9_ )`line1
line2`, }
// " ++ [27880; 37322]%N ++ runes_of_ascii "
")).
Eval vm_compute in ("<<<M1506>>>" ++ check (runes_of_ascii "packet calculatedFrom
{ @calculatedFrom( ""a\\"" ) zchar[ 4294967296 ]
calculatedFrom@lengthOf( pack )	`100% of %d` ,char[]body@calculatedFrom( @calculatedFrom( )  ,
@tag( 007) //x
int8
leftPad`it's` , repeat pack
    { repeat char[ 3] body
,},
}")).
Eval vm_compute in ("<<<M1475>>>" ++ check (runes_of_ascii "packet calculatedFrom
{ @calculatedFrom( ""a\\"" ) zchar[ 4294967296 ]
calculatedFrom@lengthOf( pack `100% of %d`	) ,char[]body@calculatedFrom( ""// no comment"" )  ,
@tag( 007) //x
int8
leftPad`it's` , repeat pack
    { repeat char[ 3] body
,},
}")).
Eval vm_compute in ("<<<M1423>>>" ++ check (runes_of_ascii "packet calculatedFrom
 @calculatedFrom( ""a\\"" ) zchar[ 4294967296 ]
calculatedFrom@lengthOf( pack )	`100% of %d` ,char[]body@calculatedFrom( ""// no comment"" )  ,
@tag( 007) //x
int8
leftPad`it's` , repeat pack
    { repeat char[ 3] body
,},
}")).
Eval vm_compute in ("<<<M1493>>>" ++ check (runes_of_ascii "packet calculatedFrom
{ @calculatedFrom( ""a\\"" ) zchar[ 4294967296 ]
calculatedFrom@lengthOf( pack )	`100% of %d` ,char[]@calculatedFrom( ""// no comment"" )  ,
@tag( 007) //x
int8
leftPad`it's` , repeat pack
    { repeat char[ 3] body
,},
}")).
Eval vm_compute in ("<<<M546>>>" ++ check (runes_of_ascii "//	t
options{charz
= '0'falsey
= '0' ;
zchar = false
    //
    msg_type = zchar[00];} root
    packet
leftPad
{ repeat f32a
    `100% of %d`
// `tick` ""quote"" 'q'
// a // b
, falsey ,f32 T @lengthOf(_x
) , zchar[ 1 ]
    Pad `" ++ [28040; 24687; 31867; 22411]%N ++ runes_of_ascii "`, }
")).
Eval vm_compute in ("<<<M904>>>" ++ check (runes_of_ascii "packet Pad //
{
    string_
@lengthOf( charz ) `100% of %d` , crc	, match asx as i64_{ 3
    : u128/// triple
007 : u
    , 0 :len[ 255// a // b
, ""1""
    // c
    ] :
BodyLength  , [ 65535 , 1 ]
:MetaDataX
,""a\""b"" : tag  , } , }
")).
Eval vm_compute in ("<<<M3689>>>" ++ check (runes_of_ascii "root packet len {
    /// triple
    @calculatedFrom(""`tick`"")
    options1 repeatCount `crlf
        line`,
    @lengthOf(MetaDataX)
    repeat _x u128,
}

packet uint8x {
    @tag(1)
    rootA,
}// packet A { u8 x, }")).
Eval vm_compute in ("<<<M3754>>>" ++ check (runes_of_ascii "MetaData asx {
    BodyLength u8x `crlf
    line`,
}

options {
    u = '0';
    a1 = uint8;
    T = ""1""
}

packet zchar {
    u32 u128 `line1
    line2`,// c
    u16 o @lengthOf(Z9_) `line1
    line2`,
}
// " ++ [27880; 37322]%N)).
Eval vm_compute in ("<<<M760>>>" ++ check (runes_of_ascii "MetaData Packet
{}
    packet
    tag
{ int16 u
// c
//	t
`// not a comment`, } root// a // b
packet Logon {	metadata
    /// triple
    stringy
`" ++ [233]%N ++ runes_of_ascii "` ,rootA Pad,// c
len @calculatedFrom(
    """" ) , }

")).
Eval vm_compute in ("<<<M16>>>" ++ check (runes_of_ascii "  MetaData
    f32a { string u128 ,  rootA chars
`100% of %d` ,	len asx
`// not a comment`
    ,pack Header, packetx // trailing space 
f32a , packetx i64_// 50% %s
`" ++ [233]%N ++ runes_of_ascii "` // c
, } options{ }
")).
Eval vm_compute in ("<<<M4017>>>" ++ check (runes_of_ascii "root packet Frame {
    u8 K,
    Logon first,
    match K as Body {
        1 : Logon,
        2 : Logout,
    },
}

packet Logon {
    string user,
}

packet Logout {
    u16 reason,
}")).
Eval vm_compute in ("<<<M918>>>" ++ check (runes_of_ascii "
packet
o  {lengthOf
`two words`,
f64 asx @lengthOf( float
    // 50% %s
    ), } MetaData trueish
    {
    string_
    // packet A { u8 x, }
    MetaDataX, }
    packet A
{ }
")).
Eval vm_compute in ("<<<M3482>>>" ++ check (runes_of_ascii "// top
root // c0a
  // c0b
packet // c1a
  // c1b
P // c2
{ // c3a
  // c3b
repeat string // c5a
  // c5b
ss ,
    // c7
repeat u16 // c9
ns // c10
,
    // c11
} // c12
")).
Eval vm_compute in ("<<<M820>>>" ++ check (runes_of_ascii "// 50% %s
packet _x
    {@leftPad ( ) zchar[ 3 // @lengthOf(
] uint8x @lengthOf( Packet
    // 50% %s
    ) , float32 calculatedFrom @calculatedFrom(  ""packet"") , }
")).
Eval vm_compute in ("<<<M693>>>" ++ check (runes_of_ascii "MetaData
As
    // 50% %s
    { zchar[ 00 ]
charz // c
`" ++ [28040; 24687; 31867; 22411]%N ++ runes_of_ascii "` , }options
    {i8i8=
    '\x00'  ;	a1
= string int ='0' ; }MetaData float // " ++ [27880; 37322]%N ++ runes_of_ascii "
{ int64 _x , }
")).
Eval vm_compute in ("<<<M1740>>>" ++ check (runes_of_ascii "options { } packet Packet{char[] i64_ ,
@tag(
    255) match
crc as i8i8{""{,}"" : trueish """" char[] Pad , ""a\\"" :
Foo ,
    1 :packetx
, """ ++ [128512]%N ++ runes_of_ascii """ : trueish , } , }")).
Eval vm_compute in ("<<<M1793>>>" ++ check (runes_of_ascii "options { } packet Packet{char[] i64_ ,
@tag(
    255) match
crc as i8i8{""{,}"" : trueish """" : Pad , ""a\\"" :
Foo ,
    1 :packetx
, """ ++ [128512]%N ++ runes_of_ascii """ """ ++ [128512]%N ++ runes_of_ascii """ : trueish , } , }")).
Eval vm_compute in ("<<<M2416>>>" ++ check (runes_of_ascii "
packet MetaDataX
{
    @leftPad
( // a // b
'0'
) i8 u @lengthOf(
MetaDataX
    ) `say ""hi""` ,	} MetaData BodyLength {
    asx
x_y_z ,
`" ++ [233]%N ++ runes_of_ascii "` uint64 u128 , }
")).
Eval vm_compute in ("<<<M1841>>>" ++ check (runes_of_ascii "options { } packet Packet{char[] i64_ ,
@tag(
    255@ ) match
crc as i8i8{""{,}"" : trueish """" : Pad , ""a\\"" :
Foo ,
    1 :packetx
, """ ++ [128512]%N ++ runes_of_ascii """ : trueish , } , }")).
Eval vm_compute in ("<<<M1842>>>" ++ check (runes_of_ascii "options { } packet Packet{char[] i64_ ,
@tag(
    255) match
crc as i8i8{""{,}"" : trueish """" : Pad , ""a\\"" :
Foo ,
    1 :packetx
, """ ++ [128512]%N ++ runes_of_ascii """ : trueish , } , '}")).
Eval vm_compute in ("<<<M1754>>>" ++ check (runes_of_ascii "options { } packet Packet{char[] i64_ ,
@tag(
    255) match
crc as i8i8{""{,}"" : trueish """" : Pad , : ""a\\""
Foo ,
    1 :packetx
, """ ++ [128512]%N ++ runes_of_ascii """ : trueish , } , }")).
Eval vm_compute in ("<<<M1722>>>" ++ check (runes_of_ascii "options { } packet Packet{char[] i64_ ,
@tag(
    255) match
crc as i8i8{""{,}""  trueish """" : Pad , ""a\\"" :
Foo ,
    1 :packetx
, """ ++ [128512]%N ++ runes_of_ascii """ : trueish , } , }")).
Eval vm_compute in ("<<<M2425>>>" ++ check (runes_of_ascii "
packet MetaDataX
{
    @leftPad
( // a // b
'0'
) i8 u @lengthOf(
MetaDataX
    ) `say ""hi""` ,	} MetaData BodyLength {
    asx
x_y_z `" ++ [233]%N ++ runes_of_ascii "`
, : u128 , }
")).
Eval vm_compute in ("<<<M2349>>>" ++ check (runes_of_ascii "
packet MetaDataX
{
    @leftPad
( // a // b
'0'
) i8 u @lengthOf(
MetaDataX
    ) u32 ,	} MetaData BodyLength {
    asx
x_y_z `" ++ [233]%N ++ runes_of_ascii "`
, uint64 u128 , }
")).
Eval vm_compute in ("<<<M2368>>>" ++ check (runes_of_ascii "
packet MetaDataX
{
    @leftPad
( // a // b
'0'
) i8 u @lengthOf(
MetaDataX
    ) `say ""hi""` ,	} MetaData  {
    asx
x_y_z `" ++ [233]%N ++ runes_of_ascii "`
, uint64 u128 , }
")).
Eval vm_compute in ("<<<M1507>>>" ++ check (runes_of_ascii "packet calculatedFrom
{ @calculatedFrom( ""a\\"" ) zchar[ 4294967296 ]
calculatedFrom@lengthOf( pack )	`100% of %d` ,char[]body@calculatedFrom(")).
Eval vm_compute in ("<<<M865>>>" ++ check (runes_of_ascii "packet
leftPad //
{ }
MetaData Packet {//x
char[ 0 //
]_x
    , char[ // packet A { u8 x, }
1 ]
    float	,
char[ 0123456789  ] int , }")).
Eval vm_compute in ("<<<M3887>>>" ++ check (runes_of_ascii "options {
    zchar = int16;
    Z9_ = """";
    rootA = 007;
    i64_ = ""abc"";
    msg_type = true
}

packet Logon {
    string_ `" ++ [233]%N ++ runes_of_ascii "`,
}")).
Eval vm_compute in ("<<<M752>>>" ++ check (runes_of_ascii "  MetaData asx {u16 lengthOf , Z9_ float `two words`, i32
    // " ++ [128512]%N ++ runes_of_ascii " emoji
    chars
`// not a comment` ,i8
    o `tab	here` ,
}

")).
Eval vm_compute in ("<<<M3260>>>" ++ check (runes_of_ascii "// c
MetaData metadata { } MetaData rootA { i8 i64_ , roots options1 `a\` , lengthOf Header , Z9_ Foo , int16 BodyLength , }")).
Eval vm_compute in ("<<<M3293>>>" ++ check (runes_of_ascii "MetaData metadata { } MetaData rootA { i8 i64_ , roots options1 `a\` , lengthOf Header
// c
, Z9_ Foo , int16 BodyLength , }")).
Eval vm_compute in ("<<<M3611>>>" ++ check (runes_of_ascii "  packet

int{ char[
1

]metadata

    @lengthOf(// c
	MetaDataX
    ) `tab	here`

,

repeat body	msg_type

    ,
} ")).
Eval vm_compute in ("<<<M347>>>" ++ check (runes_of_ascii "options
{ chars= false
MetaDataX =42
; BodyLength=	zchar[3 ]
    ; } MetaData Foo {
    stringy int
    `doc` , }
")).
Eval vm_compute in ("<<<M1011>>>" ++ check (runes_of_ascii "packet  matchKey{} packet int // " ++ [27880; 37322]%N ++ runes_of_ascii "
{
    } MetaData As  {int16 metadata `100% of %d`,
    } // trailing space ")).
Eval vm_compute in ("<<<M3332>>>" ++ check (runes_of_ascii "MetaData float { uint8 BodyLength , } MetaData // c
charz { float32 trueish `a\` , i16 metadata `say ""hi""` , }")).
Eval vm_compute in ("<<<M1766>>>" ++ check (runes_of_ascii "options { } packet Packet{char[] i64_ ,
@tag(
    255) match
crc as i8i8{""{,}"" : trueish """" : Pad , ""a\\"" :")).
Eval vm_compute in ("<<<M3473>>>" ++ check (runes_of_ascii "options {
    LittleEndian = true;
}
root packet P {
    u16 a,
    u32 Sum @calculatedFrom(""CR\
C32""),
}
")).
Eval vm_compute in ("<<<M3073>>>" ++ check (runes_of_ascii "packet A {
    B b `100% of %s %d %v`,
    B `100% of %s %d %v`,
    repeat B bs `100% of %s %d %v`,
}")).
Eval vm_compute in ("<<<M1477>>>" ++ check (runes_of_ascii "packet calculatedFrom
{ @calculatedFrom( ""a\\"" ) zchar[ 4294967296 ]
calculatedFrom@lengthOf( pack")).
Eval vm_compute in ("<<<M605>>>" ++ check (runes_of_ascii "
root packet uint8x { } root
packet float
// trailing space 
// c
{ char[]_x
    , } /// triple")).
Eval vm_compute in ("<<<M1472>>>" ++ check (runes_of_ascii "packet calculatedFrom
{ @calculatedFrom( ""a\\"" ) zchar[ 4294967296 ]
calculatedFrom@lengthOf(")).
Eval vm_compute in ("<<<M4277>>>" ++ check (runes_of_ascii "

  //	t

options

{  chars	=
    ' '

    a1 =false  x

    =	i32 ;
msg_type =  ""1"" } ")).
Eval vm_compute in ("<<<M3673>>>" ++ check (runes_of_ascii "
MetaData  u128
    { f64 Foo

,
	}  MetaData calculatedFrom{
i32
	len 

// " ++ [27880; 37322]%N ++ runes_of_ascii "

	,
    }
")).
Eval vm_compute in ("<<<M2222>>>" ++ check (runes_of_ascii "MetaData _x )string x `// not a comment` , string
i64_ // trailing space 
`a\` ,
    }
")).
Eval vm_compute in ("<<<M4067>>>" ++ check (runes_of_ascii "MetaData _x {
    f64 charz `tab	here`,
}

options {
    // c
    BodyLength = """ ++ [233]%N ++ runes_of_ascii "t" ++ [233]%N ++ runes_of_ascii """;
}")).
Eval vm_compute in ("<<<M2213>>>" ++ check (runes_of_ascii "pack _x {string x `// not a comment` , string
i64_ // trailing space 
`a\` ,
    }
")).
Eval vm_compute in ("<<<M2959>>>" ++ check (runes_of_ascii "packet A {
  match k as n {
    [1, 22, 007, 4, 5, 66, 7, 8] : B,
    2 : C
  },
}")).
Eval vm_compute in ("<<<M2930>>>" ++ check (runes_of_ascii "packet A {
  match k as n {
    [""a"", ""bb"", 007, ""d"", ""e""] : B,
    2 : C
  },
}")).
Eval vm_compute in ("<<<M3649>>>" ++ check (runes_of_ascii "packet A {
    B b `a
    b`,
    B `a
    b`,
    repeat B bs `a
    b`,
}")).
Eval vm_compute in ("<<<M3365>>>" ++ check (runes_of_ascii "MetaData
// c
_x { f64 charz `tab	here` , } options { BodyLength = """ ++ [233]%N ++ runes_of_ascii "t" ++ [233]%N ++ runes_of_ascii """ ; }")).
Eval vm_compute in ("<<<M905>>>" ++ check (runes_of_ascii "MetaData MetaDataX {
zchar[ 0
]
T `tab	here` ,
    Foo options1 `it's` , }")).
Eval vm_compute in ("<<<M2914>>>" ++ check (runes_of_ascii "packet A {
  match k as n {
    [""a"", 22, ""c c"", 4] : B
    2 : C
  },
}")).
Eval vm_compute in ("<<<M387>>>" ++ check (runes_of_ascii "packet msg_type { }packet
/// triple
// packet A { u8 x, }
u
    { }
")).
Eval vm_compute in ("<<<M3411>>>" ++ check (runes_of_ascii "packet o { @tag( 4294967296
// c
) options1 @lengthOf( u8x ) `" ++ [233]%N ++ runes_of_ascii "` , }")).
Eval vm_compute in ("<<<M3929>>>" ++ check (runes_of_ascii "//	t
MetaData

    charz 
{Packet BodyLength 
`line1
line2` , } ")).
Eval vm_compute in ("<<<M3971>>>" ++ check (runes_of_ascii "root packet P {
    repeat char cs,
    u8 x,
    // c10
}
// c11")).
Eval vm_compute in ("<<<M76>>>" ++ check (runes_of_ascii "  MetaData u{ i64 pack//
`{ , }` ,T tag `" ++ [28040; 24687; 31867; 22411]%N ++ runes_of_ascii "`
,  crc int,
}")).
Eval vm_compute in ("<<<M2684>>>" ++ check (runes_of_ascii "options { a = true; b = false; c = '0'; d = ""s""; e = 007; }")).
Eval vm_compute in ("<<<M3225>>>" ++ check (runes_of_ascii "packet A {
    match k as n {
        1 : B,// c
    },
}")).
Eval vm_compute in ("<<<M1691>>>" ++ check (runes_of_ascii "options { } packet Packet{char[] i64_ ,
@tag(
    255")).
Eval vm_compute in ("<<<M2774>>>" ++ check (runes_of_ascii "[ ; ] `a\` rootA false MetaData ( string uint64 as [")).
Eval vm_compute in ("<<<M3207>>>" ++ check (runes_of_ascii "packet A { u8 x, } // a
// b
packet B {} // c
// d")).
Eval vm_compute in ("<<<M983>>>" ++ check (runes_of_ascii "//
packet
    metadata {
} // packet A { u8 x, }")).
Eval vm_compute in ("<<<M2306>>>" ++ check (runes_of_ascii "
MetaData Pad{
= rootA `line1
line2` ,
    }
")).
Eval vm_compute in ("<<<M2750>>>" ++ check (runes_of_ascii "@calculatedFrom( ; u64 @tag( @tag( 1 u32 i32")).
Eval vm_compute in ("<<<M3436>>>" ++ check (runes_of_ascii "root
    packet
P
{

char c ,u8 x

, 
} ")).
Eval vm_compute in ("<<<M3233>>>" ++ check (runes_of_ascii "MetaData // c
zchar { zchar[ 3 ] Pad , }")).
Eval vm_compute in ("<<<M2772>>>" ++ check ([26; 1914; 65533]%N ++ runes_of_ascii "a" ++ [65533; 65533; 0; 65533; 65533]%N ++ runes_of_ascii "gf" ++ [65533]%N ++ runes_of_ascii "6Q" ++ [65533]%N ++ runes_of_ascii "(O" ++ [65533; 65533; 65533]%N ++ runes_of_ascii "o" ++ [661; 65533]%N ++ runes_of_ascii "g" ++ [65533]%N ++ runes_of_ascii "!?*x" ++ [65533]%N ++ runes_of_ascii "/e" ++ [65533; 65533; 65533; 65533]%N ++ runes_of_ascii "sI")).
Eval vm_compute in ("<<<M2624>>>" ++ check (runes_of_ascii "packet A { match k as n { 1 : B }, }")).
Eval vm_compute in ("<<<M2784>>>" ++ check (runes_of_ascii "6" ++ [65533; 65533]%N ++ runes_of_ascii "m" ++ [65533; 65533]%N ++ runes_of_ascii "j" ++ [65533]%N ++ runes_of_ascii "O" ++ [65533; 65533; 65533; 65533]%N ++ runes_of_ascii "88" ++ [16; 65533; 29]%N ++ runes_of_ascii "]" ++ [65533; 65533; 65533]%N ++ runes_of_ascii "A" ++ [65533; 3]%N ++ runes_of_ascii "-" ++ [65533]%N ++ runes_of_ascii "mGQ2p" ++ [26; 65533]%N ++ runes_of_ascii "b")).
Eval vm_compute in ("<<<M615>>>" ++ check (runes_of_ascii "options
    { trueish= ' '
    }
")).
Eval vm_compute in ("<<<M3171>>>" ++ check (runes_of_ascii "packet A {
 u8 x `d 	`, // c 	
}")).
Eval vm_compute in ("<<<M3161>>>" ++ check (runes_of_ascii "packet A {
 u8 x `d" ++ [11]%N ++ runes_of_ascii "`, // c" ++ [11]%N ++ runes_of_ascii "
}")).
Eval vm_compute in ("<<<M3930>>>" ++ check (runes_of_ascii "options	{ Z9_

='\x00'

;
}")).
Eval vm_compute in ("<<<M1666>>>" ++ check (runes_of_ascii "options { } packet Packet{")).
Eval vm_compute in ("<<<M3618>>>" ++ check (runes_of_ascii "options {
    asx = u8;
}")).
Eval vm_compute in ("<<<M2612>>>" ++ check (runes_of_ascii "packet A { x @tag(1), }")).
Eval vm_compute in ("<<<M4466>>>" ++ check (runes_of_ascii "packet A {
    x y,
}")).
Eval vm_compute in ("<<<M2593>>>" ++ check (runes_of_ascii "packet A { x `d`, }")).
Eval vm_compute in ("<<<M3125>>>" ++ check (runes_of_ascii "// c" ++ [5760]%N ++ runes_of_ascii "
packet A {
}")).
Eval vm_compute in ("<<<M4404>>>" ++ check (runes_of_ascii "// trailing space ")).
Eval vm_compute in ("<<<M3182>>>" ++ check (runes_of_ascii "packet A {
}// c" ++ [6158]%N)).
Eval vm_compute in ("<<<M3199>>>" ++ check (runes_of_ascii "packet A {
}


")).
Eval vm_compute in ("<<<M460>>>" ++ check (runes_of_ascii "
 // 50% %s")).
Eval vm_compute in ("<<<M2506>>>" ++ check (runes_of_ascii "@lengthOf(")).
Eval vm_compute in ("<<<M2769>>>" ++ check (runes_of_ascii ".(UGDrbX")).
Eval vm_compute in ("<<<M2271>>>" ++ check (runes_of_ascii "MetaDa")).
Eval vm_compute in ("<<<M2504>>>" ++ check (runes_of_ascii "@left")).
Eval vm_compute in ("<<<M2467>>>" ++ check (runes_of_ascii "true")).
Eval vm_compute in ("<<<M2490>>>" ++ check (runes_of_ascii "'0'")).
Eval vm_compute in ("<<<M2495>>>" ++ check (runes_of_ascii "''")).
Eval vm_compute in ("<<<M2693>>>" ++ check (runes_of_ascii "}")).
