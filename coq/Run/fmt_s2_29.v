From FP Require Import Lexer Parser ShowPT Digest Formatter.
From Coq Require Import String List NArith.
Import ListNotations.
Open Scope string_scope.
Set Printing Width 100000000.
Set Printing Depth 100000000.
Definition show_fres (r : fres) : string :=
  match r with
  | FOk s => "OK:" ++ sh_escaped s ""
  | FErr s => "ERR:" ++ sh_escaped s ""
  | FPanic p => "PANIC:" ++ p
  end.
Definition check (rs : list rune) : string := digest (show_fres (format_res rs)).
Definition full (rs : list rune) : string := show_fres (format_res rs).
Eval vm_compute in ("<<<M3626>>>" ++ check (runes_of_ascii "root packet charz {
    repeat o Packet,
}

packet float {
    match crc as body {
        ""\" ++ [233]%N ++ runes_of_ascii """ : f32a,
        4294967296 : len,
        [""// no comment""] : lengthOf,
        65535 : i64_,
        //x
        //
        4294967296 : Pad,
    },
    Logon,
    float64 body @lengthOf(leftPad) `say ""hi""`,
    match u8x as repeatCount {
        // @lengthOf(
        """ ++ [128512]%N ++ runes_of_ascii """ : i8i8,
        ""\n"" : tag,
        7 : pack,
        """ ++ [28040; 24687]%N ++ runes_of_ascii """ : calculatedFrom,
        /// triple
        [0, ""it's""] : int,
    },
    char[0] stringy,
    repeat float32 trueish `u8 x,`,
    char[] T,
}

packet calculatedFrom {
    matchKey matchKey,
    @leftPad()
    msg_type,
    int16 BodyLength `" ++ [233]%N ++ runes_of_ascii "`,
    char[255] packetx,
    @calculatedFrom(""x y"")
    match Packet as uint8x {
        ""\n"" : repeatCount,
        [65535] : leftPad,
        ""\n"" : trueish,
        [""" ++ [233]%N ++ runes_of_ascii "t" ++ [233]%N ++ runes_of_ascii """, 1, ""abc"", 10] : f32a,
        // " ++ [27880; 37322]%N ++ runes_of_ascii "
        [""// no comment""] : u,
        // @lengthOf(
        65535 : matchKey,
    },
    match _x as float {
        ""x y"" : len,
    },
    char a1 @lengthOf(i64_),
    _x @calculatedFrom(""\n"") `// not a comment`,
    repeat calculatedFrom {
        zchar[1] Foo,
        char[7] options1 `tab	here`,//
        match chars as A {
            4294967296 : string_,
        },
        u8x @calculatedFrom(""`tick`""),
    },
}

packet calculatedFrom {
    @lengthOf(tag)
    @leftPad('\x00')
    @rightPad('0')
    char[0123456789] u128,
    rootA {
        zchar[4294967296] _x @lengthOf(metadata),
    },
    Header u,
    @calculatedFrom(""it's"")
    // @lengthOf(
    // trailing space 
    Pad @calculatedFrom(""abc""),
    @lengthOf(u)
    @lengthOf(len)
    @rightPad()
    // trailing space 
    int64 uint8x `// not a comment`,
}

root packet roots {
    u @lengthOf(i8i8),
    @calculatedFrom(""\" ++ [233]%N ++ runes_of_ascii """)
    BodyLength Logon,
    uint16 body @lengthOf(f32a) `a\`,
    int16 zchar,
    @calculatedFrom(""a	b"")
    u32 u128 `
        `,
    Pad T `
        `,
}")).
Eval vm_compute in ("<<<M3883>>>" ++ check (runes_of_ascii "// @lengthOf(
MetaData zchar {
    string o `crlf
    line`,
    char[] pack `crlf
    line`,
    char[] Foo,
}

options {
    stringy = ""`tick`""
}

packet leftPad {
    packetx @lengthOf(roots),
    @lengthOf(int)
    @calculatedFrom(""a\""b"")
    @calculatedFrom(""" ++ [28040; 24687]%N ++ runes_of_ascii """)
    int32 MetaDataX `" ++ [233]%N ++ runes_of_ascii "`,
    u8 int,
    @lengthOf(options1)
    repeat u8 BodyLength,
    @tag(1)
    Logon,
    repeat int32 u8x `say ""hi""`,
    match int as charz {
        ""abc"" : roots,
    },
    string_ {
        zchar @lengthOf(calculatedFrom) ``,
    },
}

root packet lengthOf {
    @tag(4294967296)
    A @lengthOf(i64_) `doc`,
    body @lengthOf(lengthOf) `it's`,
    zchar[10] i8i8,
    @calculatedFrom(""" ++ [233]%N ++ runes_of_ascii "t" ++ [233]%N ++ runes_of_ascii """)
    i64 int `u8 x,`,
    repeat trueish {
        string options1,
        zchar[0123456789] _x `tab	here`,
        Pad {
            repeat string repeatCount,
            repeat string _x,
            Packet @lengthOf(roots) `
            `,
            string crc @calculatedFrom(""abc""),
        },
        match i8i8 as string_ {
            // c
            [""it's""] : options1,
            //
            // @lengthOf(
            ""a	b"" : string_,
            [""a	b"", 00] : metadata,
            0 : o,
            ""\" ++ [233]%N ++ runes_of_ascii """ : Pad,
        },
    },
    char[7] i8i8 `tab	here`,
    roots {
        repeat uint8 _x `tab	here`,
    },
    repeat int64 f32a,
    match asx as calculatedFrom {
        65535 : asx,
        [1] : uint8x,
        42 : x,
        [
            ""x y"", ""1"", ""`tick`"", ""1"", ""1"",
            ""a	b""
        ] : MetaDataX,
    },
}

MetaData chars {
}")).
Eval vm_compute in ("<<<M3795>>>" ++ check (runes_of_ascii "

  /// triple
    MetaData	Logon

    {  i16
body ,

} /// triple
  root

packet
    Z9_ {
    _x
    // packet A { u8 x, }
  // " ++ [128512]%N ++ runes_of_ascii " emoji
		{ Foo{
matchKey  { 
repeat leftPad
    body
, u128
    MetaDataX  ,match
uint8x as
	BodyLength{ ""abc""
	:

    int ,

[
    42, 10 ]
	:Z9_

,

    1 
: 	 // a // b
		i64_ 
0123456789

: u
	,
""a\""b"":chars 
, } 
,

    repeat  //	t
int32 

    //x

	//	t
packetx

, 
}
,
match zchar as
	u128 
// @lengthOf(
	{007  //x
  :
msg_type
""a\\""
    :	asx ,
""""  :	T ,007 
:charz
,  ""abc"" 
: 
/// triple
		matchKey,
""x y"" :

string_
, } ,

    repeat

    zchar[  0123456789]// trailing space 
msg_type
`doc` 
,} ,
    match
Z9_

as
    MetaDataX{[
0 
,

    ""1""
]

: 

    // packet A { u8 x, }
  uint8x [	65535
, 
    //
  //	t
  """"
]	: x_y_z, ""x y""	:
falsey ,
65535 :packetx	, ""// no comment""

    :

    falsey[ 4294967296 ,
	""a\""b""

    ,	""\n"" , 
""a\""b""
,

    255	]
:charz

,  }  // @lengthOf(
,
} 
,

chars
    int `u8 x,`,

    @tag(	65535 ) char[]Header `{ , }`
,
@tag(
255
)match
repeatCount
as

    A
{[

4294967296 ,	""\" ++ [233]%N ++ runes_of_ascii """	,
    ""packet""
,  // packet A { u8 x, }
	42

    , 007  ,""" ++ [128512]%N ++ runes_of_ascii """,
	""a\""b"" 
] // c
  : lengthOf ,""// no comment""	:
a1
    ,""\n""  :	MetaDataX  //x
    	3// a // b
: 
        // @lengthOf(

// packet A { u8 x, }

body  , }
,
}")).
Eval vm_compute in ("<<<M681>>>" ++ check (runes_of_ascii "options {	charz ='\x00'
string_ = true
    ; Z9_ = false ; repeatCount	= 7
; stringy =true }
MetaData
lengthOf{ zchar[10
    ] //x
uint8x , string u`line1
line2` , int8
matchKey
`two words`
    ,falsey //
Z9_
, packetx pack , u8x x_y_z`line1
line2` , } packet len //	t
{ char[] Z9_
    @calculatedFrom(""""
    ), zchar[
    4294967296 ]len `{ , }`,
// @lengthOf(
// c
i32 msg_type `two words`
    ,@lengthOf( A
    )	roots `two words` , match Foo as T
{0 : //x
rootA
,255 : packetx 0123456789 :  body /// triple
, ""abc""
:
_x 007:
As ,""abc""
    :
    A, // `tick` ""quote"" 'q'
} ,body { Pad
,
char[]
    body
@lengthOf( rootA
    ),	}
,	match packetx as i64_{ ""x y"" : options1 // " ++ [27880; 37322]%N ++ runes_of_ascii "
,
    ""x y"" : _x , } ,
@calculatedFrom( ""CRC32"") match options1 // @lengthOf(
as
a1{	1 : Z9_ , [
7 ] :
// " ++ [27880; 37322]%N ++ runes_of_ascii "
// trailing space 
crc,	0 : u
    //x
    ,
    [ ""\n""
    , ""abc""] :
    repeatCount [
    ""\n"" , 0 , 42, ""{,}""
]:
x_y_z ,
    } ,@rightPad ( '\x00'
    ) repeat i32 MetaDataX `" ++ [233]%N ++ runes_of_ascii "`  , @rightPad
    (
    '0' ) matchKey MetaDataX `` , } // " ++ [128512]%N ++ runes_of_ascii " emoji
packet
    string_
{	rootA
{ repeat
    lengthOf MetaDataX
    , string_ @calculatedFrom( ""it's"" ),repeat	float32 msg_type `say ""hi""`
    // @lengthOf(
    , f32 metadata ,
    } , repeat uint32 u `a\` ,	}
")).
Eval vm_compute in ("<<<M478>>>" ++ check (runes_of_ascii "packet	leftPad {
    } root	packet u128 { char[0 ] body @lengthOf(int)//	t
`two words` , @lengthOf(
// c
// `tick` ""quote"" 'q'
body )// @lengthOf(
Pad { float
    @lengthOf( crc), zchar[ 255 ]roots `tab	here`/// triple
,
    }
,float64 stringy `tab	here` ,
    u x ,
float32 _x	``,x_y_z// c
@lengthOf(matchKey
)
    `it's` , @leftPad
    // trailing space 
    ( '0' ) char[ 65535
    ]
pack `// not a comment`,
char
repeatCount , u8x , charz `" ++ [233]%N ++ runes_of_ascii "` ,
}packet
metadata { zchar[
3 ] As
    @calculatedFrom(
/// triple
// @lengthOf(
""x y"" )
, @leftPad (
' ') // trailing space 
matchKey`two words` , // packet A { u8 x, }
@tag(  3 // packet A { u8 x, }
) BodyLength
    { match zchar as int {
    ""a	b"" :int } // `tick` ""quote"" 'q'
, } , @tag( 7 ) // packet A { u8 x, }
match	x
as
    A	{ //
10 : metadata ,
} , zchar[ //x
3 ] chars ,}
    root
// `tick` ""quote"" 'q'
// a // b
packet u128{ char[]
    Z9_
    @calculatedFrom( ""a\\""// a // b
)
, repeat string lengthOf , string tag, u32 a1 /// triple
`it's`
    , }
packet charz//
{repeat
chars
, @leftPad ( '\x00')
    u16//
u
`two words` , match
    BodyLength as
_x {
7 :
    zchar ,}  ,
}")).
Eval vm_compute in ("<<<M3695>>>" ++ check (runes_of_ascii "
packet  int  // " ++ [128512]%N ++ runes_of_ascii " emoji
  {@tag(

    7) BodyLength {// @lengthOf(
    	float32
    f32a

, char[	255 ] u8x@lengthOf(

Z9_)`line1
line2` 
,

repeat 
char[  65535] 

// `tick` ""quote"" 'q'
  // a // b
  	tag
    `" ++ [233]%N ++ runes_of_ascii "` 
,
match

    Header//x
		as
    int

{

""" ++ [128512]%N ++ runes_of_ascii """
	// trailing space 
	//	t
	: //	t
  	body
,
    [ 
""" ++ [233]%N ++ runes_of_ascii "t" ++ [233]%N ++ runes_of_ascii """ ,
""" ++ [128512]%N ++ runes_of_ascii """, ""packet"" ,
	00, 4294967296 ,

    255 ]

    :int  [ 0  , ""a	b""
	]

    :
Z9_, [  65535 	 // " ++ [128512]%N ++ runes_of_ascii " emoji
      ] : tag 
,  /// triple
	""" ++ [233]%N ++ runes_of_ascii "t" ++ [233]%N ++ runes_of_ascii """  :  
  // `tick` ""quote"" 'q'
	options1 
      //

//x

  }
,
}
    , zchar[255
	] 
MetaDataX

    @lengthOf( Z9_ )	`crlf
line`
, stringy 
    /// triple
    // @lengthOf(
  	{

    repeat
    string 
A , 	 // packet A { u8 x, }

  crc

    {
	zchar[
	1
	]

// c
	uint8x

, }

,  uint16	Packet @calculatedFrom(	""a	b"" )
,	len

    @calculatedFrom(
""a	b"" ) 
`two words`,

} ,zchar[ 
255 ]
As `` , i16// `tick` ""quote"" 'q'
    	calculatedFrom ,
@tag(
	42  // `tick` ""quote"" 'q'
	)
    repeat

    x_y_z
	`two words`

// " ++ [128512]%N ++ runes_of_ascii " emoji

  ,

    uint8
lengthOf
    ,
@tag(
0) u128,
} ")).
Eval vm_compute in ("<<<M3727>>>" ++ check (runes_of_ascii "//	t
MetaData i8i8 {
    char packetx `
        `,// c
    char[] Header `" ++ [233]%N ++ runes_of_ascii "`,
    u32 options1,
    Header i8i8 `two words`,
}

root packet Header {
    match falsey as pack {
        // c
        ""CRC32"" : crc,
    },
    o rootA,
    match rootA as u {
        [255, ""\n""] : metadata,
        42 : uint8x,
        [""" ++ [128512]%N ++ runes_of_ascii """] : float,
        // " ++ [128512]%N ++ runes_of_ascii " emoji
        ""\n"" : u,
        3 : MetaDataX,
    },
    @leftPad('\x00')
    float64 Packet @calculatedFrom(""abc"") `say ""hi""`,
    repeat u8x,
    @lengthOf(msg_type)
    uint8x {
        packetx repeatCount,
        asx @calculatedFrom(""x y""),
        zchar[007] u `say ""hi""`,
    },
    repeat i16 calculatedFrom `
        `,
    int16 T @calculatedFrom(""a	b""),
    @rightPad()
    char[00] Foo @lengthOf(pack) `tab	here`,
    uint8x `" ++ [28040; 24687; 31867; 22411]%N ++ runes_of_ascii "`,
}

options {
    x_y_z = 255;
    metadata = ""CRC32"";
    leftPad = ""{,}"";
    u128 = true
    tag = string;
    // " ++ [128512]%N ++ runes_of_ascii " emoji
    // a // b
}

root packet x_y_z {
    @lengthOf(body)
    int32 Z9_ @calculatedFrom(""{,}"") `" ++ [28040; 24687; 31867; 22411]%N ++ runes_of_ascii "`,
}")).
Eval vm_compute in ("<<<M4388>>>" ++ check (runes_of_ascii "packet a1 {
    chars {
        len {
            Logon len,
            string string_,
            u8x @calculatedFrom(""a\\""),
            repeat float {
                body int `" ++ [233]%N ++ runes_of_ascii "`,
            },
        },
        repeat As {
            repeat i64_ f32a `{ , }`,
            A @calculatedFrom(""\" ++ [233]%N ++ runes_of_ascii """),
            int64 float,
        },
        match x as chars {
            [
                """ ++ [128512]%N ++ runes_of_ascii """, 007, ""x y"", 00, ""x y"",
                10
            ] : string_,
            10 : float,
            4294967296 : x_y_z,
            [
                """ ++ [233]%N ++ runes_of_ascii "t" ++ [233]%N ++ runes_of_ascii """, 10, 42, """ ++ [28040; 24687]%N ++ runes_of_ascii """, 0123456789,
                42, 10
            ] : T,
            00 : leftPad,
        },
        crc @lengthOf(u128),
    },
    char[] packetx @calculatedFrom(""abc"") `line1
    line2`,
    int32 repeatCount @lengthOf(Foo) `it's`,
    match Packet as string_ {
        42 : f32a,
        255 : MetaDataX,
        1 : i8i8,
        """" : a1,
        //	t
    },
    _x @lengthOf(chars),
}")).
Eval vm_compute in ("<<<M810>>>" ++ check (runes_of_ascii "root
    packet
    asx // trailing space 
{
    trueish lengthOf
`line1
line2`
,	@rightPad (	)
@rightPad(  '0') char[] a1 , } packet metadata {
stringy `say ""hi""` , @lengthOf(
int ) match u8x as
    zchar {
""" ++ [128512]%N ++ runes_of_ascii """ : repeatCount ,00
: Header
, 4294967296 : As ,
    //	t
    255
:
    //x
    u8x
,
[ //	t
0123456789 ]
    :
    // packet A { u8 x, }
    pack// `tick` ""quote"" 'q'
, } ,
@calculatedFrom( """ ++ [233]%N ++ runes_of_ascii "t" ++ [233]%N ++ runes_of_ascii """ ) repeat x_y_z{ u16 len `say ""hi""`,} , @tag( 007 )@leftPad (
    '0' // @lengthOf(
)
    match
options1 as float {
[""CRC32"" , ""CRC32""	]: x_y_z
,0:
    tag 255:
    Logon , //	t
42 : string_
    } // c
,	repeat zchar[ 007 ]u
    ,  T {//x
char[] asx ,
    match trueish
as A{ ""1""
: tag , [  ""{,}""  , 7 ]:
    Logon
    , 4294967296 :
    calculatedFrom ,""it's"" : uint8x, }, }	,@leftPad
    ( )
match x_y_z as
Packet { [ """ ++ [28040; 24687]%N ++ runes_of_ascii """	,
4294967296
] :int	,
    } , char[]
int  @calculatedFrom( ""\" ++ [233]%N ++ runes_of_ascii """	) //	t
`" ++ [233]%N ++ runes_of_ascii "`, }")).
Eval vm_compute in ("<<<M1029>>>" ++ check (runes_of_ascii "packet
T  { }
    root packet BodyLength{ match falsey
as MetaDataX {
[ 4294967296 ]	: _x ,// @lengthOf(
00: options1 [
    007  , // `tick` ""quote"" 'q'
65535 , ""CRC32"" // " ++ [128512]%N ++ runes_of_ascii " emoji
] : i64_ ,
} , @leftPad
()
    metadata `doc` //x
,
Z9_ { repeat  float32	lengthOf
, packetx { uint16  zchar@calculatedFrom(""" ++ [28040; 24687]%N ++ runes_of_ascii """) ,
}
,
} , @tag(
7) uint32
    metadata@calculatedFrom( ""{,}""
) , char[  65535 ]string_ `a\`
,	}packet zchar
{trueish
    `crlf
line`
    ,	@tag(00 ) float Pad// c
, int16 //x
options1 @calculatedFrom( ""a\\"" )	, @calculatedFrom( ""x y""
)  @lengthOf(string_ )metadata @calculatedFrom( ""`tick`""
)`crlf
line` , crc
    // trailing space 
    packetx `crlf
line` ,	metadata
// a // b
// a // b
packetx`// not a comment`
, i8 u128
    //	t
    @lengthOf(	int ) , //	t
@rightPad
    (' '
)Header @lengthOf( leftPad ) `doc` ,i8i8 Header``
    , }")).
Eval vm_compute in ("<<<M164>>>" ++ check (runes_of_ascii "packet
    Logon
{
    repeat	char
MetaDataX `say ""hi""`,
@lengthOf(
packetx) char[] repeatCount// `tick` ""quote"" 'q'
`doc` , @leftPad (
    '0' )@tag(
7 ) Header@calculatedFrom(
    """" // " ++ [128512]%N ++ runes_of_ascii " emoji
)	,
@lengthOf(
    /// triple
    MetaDataX
) match // trailing space 
x
//
// trailing space 
as Header
// trailing space 
//	t
{ ""x y"" : u8x // trailing space 
,
""" ++ [128512]%N ++ runes_of_ascii """
: /// triple
charz , """ ++ [233]%N ++ runes_of_ascii "t" ++ [233]%N ++ runes_of_ascii """
:// packet A { u8 x, }
_x,[ 3 , // " ++ [27880; 37322]%N ++ runes_of_ascii "
00
    ] :  uint8x , ""it's"" //	t
:// `tick` ""quote"" 'q'
rootA[
    00
    ,  65535//x
] :
    zchar }
    ,@calculatedFrom( ""// no comment"" )int32 i64_,
repeat// " ++ [128512]%N ++ runes_of_ascii " emoji
body {zchar[
    10  ]
BodyLength `line1
line2` , lengthOf Logon
, // @lengthOf(
repeat
    float64	i8i8 ,char[0123456789]leftPad // `tick` ""quote"" 'q'
`
` ,	}
    ,  repeat char[ 255
    //
    ] a1`" ++ [28040; 24687; 31867; 22411]%N ++ runes_of_ascii "`, } 	 ")).
Eval vm_compute in ("<<<M130>>>" ++ check (runes_of_ascii "
packet
    o {// trailing space 
body {
string options1@lengthOf(int ) ,
    // " ++ [27880; 37322]%N ++ runes_of_ascii "
    repeat u
{ match  tag
    as
BodyLength { [	""" ++ [128512]%N ++ runes_of_ascii """
, /// triple
""`tick`"" ,
    // @lengthOf(
    ""packet"" ,
""a\\"" ,65535
, 0123456789 // trailing space 
]: u
// `tick` ""quote"" 'q'
// c
""a\\"" : rootA ,
    """ ++ [128512]%N ++ runes_of_ascii """: Foo 3
:  uint8x ,	} , match leftPad as // `tick` ""quote"" 'q'
a1
    {1 : //	t
Header
,
}
, },
    }
,
    chars , repeatCount body
//	t
// " ++ [128512]%N ++ runes_of_ascii " emoji
`a\` ,}	packet metadata {
@rightPad ('0' // " ++ [27880; 37322]%N ++ runes_of_ascii "
)
@leftPad
( //x
'0' ) @calculatedFrom( ""packet"") match o as	Logon{ """"
: A, [
    007// c
, 7  , 1
, """"// trailing space 
,  42, ""a	b""]  :	A	""it's"" :
    _x,  },@lengthOf(//x
Header
)char[  3 ] i8i8@lengthOf( int )	,char[]Packet @calculatedFrom( ""a	b"")
, leftPad ,
    }packet charz { }")).
Eval vm_compute in ("<<<M886>>>" ++ check (runes_of_ascii "// `tick` ""quote"" 'q'
root
packet // " ++ [27880; 37322]%N ++ runes_of_ascii "
MetaDataX {	zchar[ 10 ] len`// not a comment`
, // " ++ [128512]%N ++ runes_of_ascii " emoji
repeat matchKey
    // " ++ [128512]%N ++ runes_of_ascii " emoji
    { u // a // b
falsey `tab	here`  ,	}, @tag(0123456789 ) string u8x ,
zchar[ 3 ]
    msg_type @lengthOf(
As ) , @rightPad // `tick` ""quote"" 'q'
( ) char	Packet , @rightPad (	)f64 u
    // `tick` ""quote"" 'q'
    , @lengthOf( uint8x ) @lengthOf(
    x_y_z )
@lengthOf(float ) Logon@lengthOf(pack	)
`a\`  ,@lengthOf( Logon ) char[]
    // a // b
    rootA
@calculatedFrom( // " ++ [128512]%N ++ runes_of_ascii " emoji
""1"" ) ,
int64
    stringy @lengthOf( zchar)`{ , }`,
match
// a // b
// " ++ [27880; 37322]%N ++ runes_of_ascii "
string_ as As { 7 :
metadata
""x y""// " ++ [128512]%N ++ runes_of_ascii " emoji
: packetx ,""" ++ [233]%N ++ runes_of_ascii "t" ++ [233]%N ++ runes_of_ascii """  : repeatCount ,
} ,
    // @lengthOf(
    }	root packet matchKey { } packet charz
{  }
")).
Eval vm_compute in ("<<<M97>>>" ++ check (runes_of_ascii "options
// trailing space 
// " ++ [27880; 37322]%N ++ runes_of_ascii "
{Foo=
""it's"" lengthOf = int8 falsey /// triple
= 7 ;a1
= false
; } MetaData repeatCount
//x
//x
{ T
    repeatCount,
    u8x msg_type `// not a comment`
    ,
    repeatCount T	, } packet repeatCount{  @tag( 007 ) i64_ As	,
}
root packet	packetx{
    string
//	t
// " ++ [128512]%N ++ runes_of_ascii " emoji
T @calculatedFrom(""{,}""//
)
    , repeat zchar[
    4294967296
    ] x  , @tag(
42 ) @lengthOf( lengthOf
)/// triple
@calculatedFrom( ""`tick`""	)repeat u16 u128 `say ""hi""` // trailing space 
, // trailing space 
@rightPad ( ) @tag( 255 )
repeat uint8x Logon
    // packet A { u8 x, }
    ,
    repeat zchar[ 007 ]Logon`a\`
    ,@rightPad(
    // `tick` ""quote"" 'q'
    '0' ) // @lengthOf(
string
falsey ,
}
")).
Eval vm_compute in ("<<<M3648>>>" ++ check (runes_of_ascii "// " ++ [128512]%N ++ runes_of_ascii " emoji
packet u128 {
    repeat MetaDataX,
    int64 leftPad,//	t
    @lengthOf(matchKey)
    //
    @calculatedFrom(""" ++ [28040; 24687]%N ++ runes_of_ascii """)
    match T as Header {
        255 : repeatCount,
        ""it's"" : roots,
    },
}

//
//	t
packet MetaDataX {
    repeat chars asx `tab	here`,
    repeat o {
        repeat _x {
            repeat uint32 charz `u8 x,`,
            zchar[42] leftPad @calculatedFrom(""" ++ [28040; 24687]%N ++ runes_of_ascii """) `doc`,/// triple
        },
    },
    int16 u @lengthOf(f32a) `tab	here`,
    match f32a as i64_ {
        00 : len,
    },
}

MetaData pack {
    f32a packetx,
    zchar[10] Header `tab	here`,
    zchar[007] string_ `crlf
        line`,
    char[] matchKey,
    float64 float,
}")).
Eval vm_compute in ("<<<M3263>>>" ++ check (runes_of_ascii "// top
options // c0
{ // c1
chars // c2
= // c3
""a\\"" // c4
} // c5
packet // c6
Z9_ // c7
{ // c8
match // c9
BodyLength // c10
as // c11
roots // c12
{ // c13
""" ++ [28040; 24687]%N ++ runes_of_ascii """ // c14
: // c15
falsey // c16
, // c17
00 // c18
: // c19
u128 // c20
0 // c21
: // c22
len // c23
, // c24
007 // c25
: // c26
f32a // c27
} // c28
, // c29
@tag( // c30
3 // c31
) // c32
@calculatedFrom( // c33
""`tick`"" // c34
) // c35
@leftPad // c36
( // c37
' ' // c38
) // c39
string // c40
asx // c41
, // c42
string // c43
u // c44
@lengthOf( // c45
options1 // c46
) // c47
, // c48
float32 // c49
i64_ // c50
@calculatedFrom( // c51
""a\""b"" // c52
) // c53
, // c54
} // c55
")).
Eval vm_compute in ("<<<M3490>>>" ++ check (runes_of_ascii "// top
packet // c0
MDSnapshotZZ { // c2a
  // c2b
u8 a
    // c4
, } // c6
packet // c7a
  // c7b
OrderACK // c8a
  // c8b
{ u16 b
    // c11
, // c12a
  // c12b
} // c13
packet
    // c14
HTTPServerInfo {
    // c16
string s
    // c18
, } root // c21a
  // c21b
packet // c22
FIXMsg // c23
{ // c24
u8 // c25
KType , MDSnapshotZZ , repeat // c30a
  // c30b
OrderACK
    // c31
, // c32a
  // c32b
match
    // c33
KType // c34a
  // c34b
as
    // c35
Body // c36
{ 1 : // c39
HTTPServerInfo // c40
, // c41
2 // c42
: // c43
OrderACK // c44a
  // c44b
, // c45
} // c46a
  // c46b
, // c47a
  // c47b
} // c48a
  // c48b
")).
Eval vm_compute in ("<<<M4108>>>" ++ check (runes_of_ascii "packet crc {
    @rightPad('0')
    char[7] matchKey @calculatedFrom(""{,}""),
}

packet x_y_z {
    @calculatedFrom(""a\""b"")
    T {
        Header {
            // packet A { u8 x, }
            lengthOf packetx `// not a comment`,
            A i8i8 `crlf
            line`,
            string o `line1
            line2`,
            string_ @lengthOf(tag) `line1
            line2`,
        },
    },
    match lengthOf as Z9_ {
        ""\" ++ [233]%N ++ runes_of_ascii """ : A,
    },
    match rootA as matchKey {
        [""`tick`"", ""x y""] : Packet,
    },//x
    repeat zchar[1] _x,
    char[] msg_type,
    A rootA,
}//")).
Eval vm_compute in ("<<<M20>>>" ++ check (runes_of_ascii "// " ++ [128512]%N ++ runes_of_ascii " emoji
MetaData o
    { } packet uint8x { uint8
    // c
    u128  @lengthOf(
body  )  `// not a comment` , @calculatedFrom( ""1"" ) options1{
    repeat Foo crc , zchar[ 255] MetaDataX
    /// triple
    @calculatedFrom( ""\" ++ [233]%N ++ runes_of_ascii """ ) , Foo { char[ 1 ] msg_type ,
    } ,
    },
float64
    falsey @lengthOf(
f32a )
,
    match
// packet A { u8 x, }
//
BodyLength
    as f32a
{ """ ++ [128512]%N ++ runes_of_ascii """
: x_y_z ,	""" ++ [128512]%N ++ runes_of_ascii """ :
    BodyLength ,""" ++ [28040; 24687]%N ++ runes_of_ascii """ : Foo
,
    } , @lengthOf( lengthOf ) repeat len , // " ++ [128512]%N ++ runes_of_ascii " emoji
crc float`line1
line2`
    , }MetaData repeatCount {
tag x, //	t
}
")).
Eval vm_compute in ("<<<M1347>>>" ++ check (runes_of_ascii "packet Packet{
    //x
    int64 u128 @calculatedFrom(	""it's"" )
,
// trailing space 
// @lengthOf(
@lengthOf( _x )
@leftPad (
) match rootA  as
calculatedFrom{	""1"" :leftPad ,[
    42 , """ ++ [128512]%N ++ runes_of_ascii """ ] :pack[ ""it's"",
3
//x
// `tick` ""quote"" 'q'
, """", """ ++ [128512]%N ++ runes_of_ascii """
] : As
, } , char[
0
    //
    ] matchKey `" ++ [233]%N ++ runes_of_ascii "` , u64 lengthOf ,
@lengthOf( zchar ) // c
char[ 7
// " ++ [27880; 37322]%N ++ runes_of_ascii "
//
]
rootA
@lengthOf( u ),  }MetaData int { u16 // @lengthOf(
Pad , }	packet stringy {zchar[// `tick` ""quote"" 'q'
1 ] msg_type`tab	here` , //	t
} options { x = 00
    }")).
Eval vm_compute in ("<<<M675>>>" ++ check (runes_of_ascii "packet charz{
@rightPad
    // a // b
    (
// trailing space 
//x
'0'
)  repeat float32 options1 , @tag(
00
) zchar[007
    // a // b
    ]
lengthOf , @calculatedFrom(
"""" )
    i8 MetaDataX
, repeat
char[] string_ ,// packet A { u8 x, }
match u	as
// a // b
// `tick` ""quote"" 'q'
string_ {
    [ ""\n"" , 0123456789
,	""it's"" , 0123456789,3
    , ""a\""b"" ]
    : packetx,""" ++ [28040; 24687]%N ++ runes_of_ascii """ : _x ,""a\""b""// " ++ [128512]%N ++ runes_of_ascii " emoji
: // " ++ [128512]%N ++ runes_of_ascii " emoji
roots 65535 :crc , },@tag( 7
)
uint8x
u8x
    // " ++ [27880; 37322]%N ++ runes_of_ascii "
    ,
Logon charz  `{ , }` , }
")).
Eval vm_compute in ("<<<M1262>>>" ++ check (runes_of_ascii "packet MetaDataX {@tag( // @lengthOf(
3  ) int16//	t
Pad `line1
line2`  ,
    @lengthOf( i8i8 ) match u8x
as Packet { 1: u128
    , ""`tick`""
:
matchKey, },@lengthOf(
packetx ) zchar[ 4294967296 ] Z9_// @lengthOf(
@calculatedFrom(
    // a // b
    ""abc""	)  , //	t
@tag( 255)
    int64
i64_ @lengthOf( Packet )  , repeat uint8 u128
    ,As metadata // @lengthOf(
, @lengthOf(
    asx	)
@lengthOf(  A ) //	t
@calculatedFrom( ""CRC32"") //
u8 options1 `say ""hi""`
    , }
")).
Eval vm_compute in ("<<<M970>>>" ++ check (runes_of_ascii "packet
    x_y_z
{ @tag(7
)
    u128 u8x	, char[
1 ]
x_y_z
    `{ , }`, @lengthOf( T ) @calculatedFrom(""" ++ [28040; 24687]%N ++ runes_of_ascii """
    )
    @lengthOf( BodyLength )
//x
// packet A { u8 x, }
match body as// " ++ [27880; 37322]%N ++ runes_of_ascii "
u {
0123456789 // a // b
: rootA
    ,
    } , }
root packet
Logon {} MetaData
    // trailing space 
    lengthOf{ repeatCount As , u16 MetaDataX
`crlf
line`
    ,
//	t
// " ++ [27880; 37322]%N ++ runes_of_ascii "
Packet
BodyLength,
falsey _x
`u8 x,` , zchar[
    3 ]// `tick` ""quote"" 'q'
Z9_ , }
")).
Eval vm_compute in ("<<<M3888>>>" ++ check (runes_of_ascii "packet i64_ {
    @lengthOf(Foo)
    // `tick` ""quote"" 'q'
    @lengthOf(calculatedFrom)
    o @calculatedFrom(""{,}""),
    uint16 lengthOf @calculatedFrom(""" ++ [128512]%N ++ runes_of_ascii """),
    char[007] trueish,
    @tag(00)
    @tag(007)
    // a // b
    // " ++ [128512]%N ++ runes_of_ascii " emoji
    float @calculatedFrom(""\n""),
    charz A,
    Logon @calculatedFrom(""// no comment"") `
        `,
    @lengthOf(msg_type)
    BodyLength As `a\`,
    zchar[10] zchar @calculatedFrom("""") `doc`,
}")).
Eval vm_compute in ("<<<M621>>>" ++ check (runes_of_ascii "packet As {@calculatedFrom( """ ++ [28040; 24687]%N ++ runes_of_ascii """
    ) repeat float { BodyLength chars `doc`
,
    }
, repeat char[ 255 ]packetx , string
    rootA `line1
line2` , uint8 i64_ `line1
line2` ,
@lengthOf(_x )// trailing space 
BodyLength
, stringy{
    /// triple
    repeat zchar[  0123456789
] i8i8 , //
} ,
match
f32a
as
u128
    { [
    ""// no comment"" // trailing space 
, ""a\""b"" ] :o ,
""" ++ [128512]%N ++ runes_of_ascii """:	a1 , }
, repeat
    charz zchar
    , }
")).
Eval vm_compute in ("<<<M1209>>>" ++ check (runes_of_ascii "root
packet Packet{// " ++ [27880; 37322]%N ++ runes_of_ascii "
@tag( 255 ) @tag( 4294967296 ) match options1 as matchKey { ""CRC32"" :	crc
, } , @tag( 00 )
    trueish	,
repeat lengthOf ,
@tag(
    42
)
    zchar[ 4294967296 ] Logon@lengthOf(	i64_ )`doc`
,
} packet string_// trailing space 
{ @tag( 4294967296
    // a // b
    )
    repeat zchar[65535
    ] options1
`// not a comment`, float32 Packet	@lengthOf(u ) ,
    int8	Foo
, }
")).
Eval vm_compute in ("<<<M117>>>" ++ check (runes_of_ascii "
packet x { @leftPad ( )	i32 float
,}
    options{  chars =
'0'
    ;Header // c
=
""`tick`""  x =
// `tick` ""quote"" 'q'
//
'\x00' ; rootA = char[	65535  ] ;
}options	{
x =
""it's"" asx
    // " ++ [27880; 37322]%N ++ runes_of_ascii "
    = char[ 007] ;  zchar= int8 ;
//	t
// a // b
zchar =true ; chars= char[]
/// triple
// `tick` ""quote"" 'q'
}
    options {  o  = 7 Logon
=	10 /// triple
body =
    false a1 // c
= ""x y"" }
")).
Eval vm_compute in ("<<<M4355>>>" ++ check (runes_of_ascii "

  options{}options {
    x
=true }	MetaData

uint8x
    { i8i8
u8x
`tab	here`
	,

    char[
0123456789 
]calculatedFrom	``

    ,
float64 uint8x

    ,charz options1 , }options { i8i8 = char[
007 ]
	// " ++ [27880; 37322]%N ++ runes_of_ascii "

	// " ++ [27880; 37322]%N ++ runes_of_ascii "
  ;

}
options	{ options1 =
    '\x00';  // packet A { u8 x, }
    	zchar =

    '\x00' //
	  string_//x

= //
  """ ++ [128512]%N ++ runes_of_ascii """
	; body
=
    '0'

}

")).
Eval vm_compute in ("<<<M3966>>>" ++ check (runes_of_ascii "options {
    Foo = ' ';//
    calculatedFrom = '\x00';
    Logon = 0//
    x = '\x00';// packet A { u8 x, }
}

packet _x {
    @calculatedFrom(""" ++ [28040; 24687]%N ++ runes_of_ascii """)
    repeat int32 Z9_,
    Pad packetx,
    @lengthOf(u128)
    @tag(1)
    match msg_type as x {
        // @lengthOf(
        [""" ++ [233]%N ++ runes_of_ascii "t" ++ [233]%N ++ runes_of_ascii """] : x,
    },
    @lengthOf(a1)
    leftPad As,
    i8i8 _x,
}// " ++ [128512]%N ++ runes_of_ascii " emoji")).
Eval vm_compute in ("<<<M864>>>" ++ check (runes_of_ascii "options{
    msg_type =false len= 4294967296  ; asx= false
// a // b
// `tick` ""quote"" 'q'
A = '\x00' float= zchar[
    007 ] }
packet u128
{ float32 msg_type `a\`// c
, } MetaData T{
int64 o `" ++ [28040; 24687; 31867; 22411]%N ++ runes_of_ascii "`// @lengthOf(
, char[]
    Foo  , }options	{packetx =uint32	;	roots
    = false ; falsey=zchar[
    00 ]
}options {
    Logon = float32 }

")).
Eval vm_compute in ("<<<M52>>>" ++ check (runes_of_ascii "// `tick` ""quote"" 'q'
root packet u128{Z9_ { match trueish // c
as rootA { [	""abc"" , ""{,}""
,// c
0 ]
: MetaDataX [
""a\""b""
]
: tag ,
""CRC32"" :
//	t
/// triple
options1 ,
    [
    """ ++ [28040; 24687]%N ++ runes_of_ascii """,
""a\\"" ] :
lengthOf
    , ""a\""b""
: chars ,
    } , }
,
    @rightPad( '0'	) @calculatedFrom( ""CRC32"" ) char[00 ] packetx,
} // a // b")).
Eval vm_compute in ("<<<M842>>>" ++ check (runes_of_ascii "// @lengthOf(
packet
    _x {  @calculatedFrom( ""a	b"" )
T rootA ``, u64 body	@calculatedFrom(""a	b""  )
    //x
    `two words` ,	zchar[
7 ] MetaDataX @calculatedFrom( ""it's"")`say ""hi""` /// triple
,
// trailing space 
// `tick` ""quote"" 'q'
f32a {repeat zchar[
    00
    ]
roots`" ++ [233]%N ++ runes_of_ascii "` ,}	, } // `tick` ""quote"" 'q'")).
Eval vm_compute in ("<<<M314>>>" ++ check (runes_of_ascii "options
{roots =3 leftPad
/// triple
// c
= string	; packetx =	false ; zchar
= true options1 = false ;
    } MetaData
    string_ {i32 x_y_z
    ,char[ 4294967296
] zchar`two words`
, // c
char[ 42 ] metadata
, }packet _x {
    int8 rootA`doc` ,
    } options
{ lengthOf =
    ""// no comment"" } 	 ")).
Eval vm_compute in ("<<<M1422>>>" ++ check (runes_of_ascii "root packet char[] // " ++ [128512]%N ++ runes_of_ascii " emoji
{ } options {
    // a // b
    tag // `tick` ""quote"" 'q'
= //	t
""""
    ; u8x = zchar[0  ] }
MetaData
    int {zchar[ 10]
lengthOf	`` , i64 u8x`// not a comment` ,MetaDataX pack// `tick` ""quote"" 'q'
`crlf
line`
, Logon charz `crlf
line`
    ,
    // a // b
    }
")).
Eval vm_compute in ("<<<M1595>>>" ++ check (runes_of_ascii "root packet Foo // " ++ [128512]%N ++ runes_of_ascii " emoji
{ } options {
    // a // b
    tag // `tick` ""quote"" 'q'
= //	t
""""
    ; u8x = zchar[0  ] }
MetaData
    int {zchar[ 10]
lengthOf	`` , i64 u8x`// not a comment` ,MetaDataX pack// `tick` ""quote"" 'q'
`crlf
line`
, Logon charz `crlf
line`
    , ,
    // a // b
    }
")).
Eval vm_compute in ("<<<M1446>>>" ++ check (runes_of_ascii "root packet Foo // " ++ [128512]%N ++ runes_of_ascii " emoji
{ } options {
    // a // b
    = // `tick` ""quote"" 'q'
tag //	t
""""
    ; u8x = zchar[0  ] }
MetaData
    int {zchar[ 10]
lengthOf	`` , i64 u8x`// not a comment` ,MetaDataX pack// `tick` ""quote"" 'q'
`crlf
line`
, Logon charz `crlf
line`
    ,
    // a // b
    }
")).
Eval vm_compute in ("<<<M4119>>>" ++ check (runes_of_ascii "
MetaData
charz{

}	// " ++ [27880; 37322]%N ++ runes_of_ascii "
  	root  packet

    matchKey {  o	@calculatedFrom( ""a\""b""  )
,zchar[10

    ]
i8i8

    @calculatedFrom(
""1""
) 
`tab	here` , match	crc as

rootA{ 255 :
	Z9_ , 42 :// c
	lengthOf , 
[ 0 ,

007

    ]:Logon  ""\n""
	:
    T
    0123456789 : float  ,

} , 
}
")).
Eval vm_compute in ("<<<M1582>>>" ++ check (runes_of_ascii "root packet Foo // " ++ [128512]%N ++ runes_of_ascii " emoji
{ } options {
    // a // b
    tag // `tick` ""quote"" 'q'
= //	t
""""
    ; u8x = zchar[0  ] }
MetaData
    int {zchar[ 10]
lengthOf	`` , i64 u8x`// not a comment` ,MetaDataX pack// `tick` ""quote"" 'q'
`crlf
line`
, f32 charz `crlf
line`
    ,
    // a // b
    }
")).
Eval vm_compute in ("<<<M879>>>" ++ check (runes_of_ascii "packet
calculatedFrom {
repeat charz , Logon @calculatedFrom( ""packet"")
    , @tag(
1 )
    repeat zchar[	255
] rootA
    , string
calculatedFrom `two words`, @rightPad ( ' ' )
@calculatedFrom(""\n"" )@tag(4294967296 )
chars @calculatedFrom( """ ++ [233]%N ++ runes_of_ascii "t" ++ [233]%N ++ runes_of_ascii """ ) `
` // c
,  repeat u128//x
int
,
}")).
Eval vm_compute in ("<<<M1005>>>" ++ check (runes_of_ascii "packet o {
@lengthOf(matchKey	) Logon ,
@lengthOf( u128 ) Header metadata `u8 x,` ,
// " ++ [27880; 37322]%N ++ runes_of_ascii "
// `tick` ""quote"" 'q'
@leftPad	(' '
    //
    )
@lengthOf( Header ) @calculatedFrom( ""\" ++ [233]%N ++ runes_of_ascii """ )f32a
@lengthOf( asx)	, } MetaData leftPad{ i32
    // `tick` ""quote"" 'q'
    charz `
` ,
}
")).
Eval vm_compute in ("<<<M560>>>" ++ check (runes_of_ascii "options { lengthOf
    = 7 u8x // " ++ [27880; 37322]%N ++ runes_of_ascii "
= true  ;
matchKey =
65535 ;// trailing space 
As // " ++ [27880; 37322]%N ++ runes_of_ascii "
=
    4294967296
    ;
    packetx
=
    true
    ;}packet
Foo {@lengthOf( u8x /// triple
) float32 trueish , repeat
char[] crc// " ++ [128512]%N ++ runes_of_ascii " emoji
, repeat int,} packet As { }
")).
Eval vm_compute in ("<<<M4349>>>" ++ check (runes_of_ascii "options {
    falsey = ""a	b"";
    leftPad = '0';
    o = float64
}

packet x {
    match f32a as uint8x {
        [
            255, 7, 42, 7, ""abc"",
            255, ""1"", 0
        ] : matchKey,
        // trailing space 
    },
}// packet A { u8 x, }")).
Eval vm_compute in ("<<<M3756>>>" ++ check (runes_of_ascii "root packet Foo {
}

options {
    // a //# b
    tag = """";
    u8x = zchar[0]
}

MetaData int {
    zchar[10] lengthOf ``,
    i64 u8x `// not a comment`,
    MetaDataX pack `crlf
    line`,
    Logon charz `crlf
    line`,
    // a // b
}")).
Eval vm_compute in ("<<<M3867>>>" ++ check (runes_of_ascii "  options
{	a1

= char[1 ] 	 // " ++ [27880; 37322]%N ++ runes_of_ascii "
	;  x=
f64 ;

Z9_
    = 
    //x
	//
	char[  3
    ] ;
Z9_

    = '\x00' 
x_y_z  = zchar[ 
10
    ]

    ;
}

    packet x_y_z  { chars

trueish `it's`
        // " ++ [128512]%N ++ runes_of_ascii " emoji
  	//x
      ,
}")).
Eval vm_compute in ("<<<M257>>>" ++ check (runes_of_ascii "packet
float { f64 float `u8 x,` ,
// " ++ [27880; 37322]%N ++ runes_of_ascii "
//	t
@tag(
1 )len tag `crlf
line`
, } root packet u	{ o x `it's` , @rightPad
    ( ) repeat zchar[
00]	Foo ,
    // trailing space 
    }root
packet// `tick` ""quote"" 'q'
string_{}

")).
Eval vm_compute in ("<<<M2273>>>" ++ check (runes_of_ascii "MetaData Packet { }packet	asx  { @lengthOf( asx) falsey`crlf
line`
'\x00'
    }
    packet x	{uint32// @lengthOf(
rootA	,u32 options1 `say ""hi""` , @tag( 7
    )// packet A { u8 x, }
msg_type @lengthOf(
stringy	)	, }

")).
Eval vm_compute in ("<<<M2341>>>" ++ check (runes_of_ascii "MetaData Packet { }packet	asx  { @lengthOf( asx) falsey`crlf
line`
,
    }
    packet x	{uint32// @lengthOf(
rootA	,u32 options1 `say ""hi""` , @tag( 7
    ) )// packet A { u8 x, }
msg_type @lengthOf(
stringy	)	, }

")).
Eval vm_compute in ("<<<M2242>>>" ++ check (runes_of_ascii "MetaData Packet { }packet	asx  @lengthOf( { asx) falsey`crlf
line`
,
    }
    packet x	{uint32// @lengthOf(
rootA	,u32 options1 `say ""hi""` , @tag( 7
    )// packet A { u8 x, }
msg_type @lengthOf(
stringy	)	, }

")).
Eval vm_compute in ("<<<M2240>>>" ++ check (runes_of_ascii "MetaData Packet { }packet	asx   @lengthOf( asx) falsey`crlf
line`
,
    }
    packet x	{uint32// @lengthOf(
rootA	,u32 options1 `say ""hi""` , @tag( 7
    )// packet A { u8 x, }
msg_type @lengthOf(
stringy	)	, }

")).
Eval vm_compute in ("<<<M2373>>>" ++ check (runes_of_ascii "MetaData Packet { }packet	asx  { @lengthOf( asx) falsey`crlf
line`
,
    }
    packet x	{uint32// @lengthOf(
rootA	,u32 options1 `say ""hi""` , @tag( 7
    )// packet A { u8 x, }
msg_type @lengthOf(
stringy	)	,")).
Eval vm_compute in ("<<<M4025>>>" ++ check (runes_of_ascii "packet x_y_z {
    @tag(0123456789)
    match T as roots {
        255 : asx,
        [1, 3, ""`tick`""] : Header,
        3 : pack,
        // " ++ [128512]%N ++ runes_of_ascii " emoji
    },
    u64 a1 `tab	here`,
    _x options1 `{ , }`,
}")).
Eval vm_compute in ("<<<M1568>>>" ++ check (runes_of_ascii "root packet Foo // " ++ [128512]%N ++ runes_of_ascii " emoji
{ } options {
    // a // b
    tag // `tick` ""quote"" 'q'
= //	t
""""
    ; u8x = zchar[0  ] }
MetaData
    int {zchar[ 10]
lengthOf	`` , i64 u8x`// not a comment` ,MetaDataX")).
Eval vm_compute in ("<<<M49>>>" ++ check (runes_of_ascii "// a // b
root
    packet string_ { i32 options1 `say ""hi""`
, } packet stringy
// " ++ [128512]%N ++ runes_of_ascii " emoji
/// triple
{
    } MetaData
len  {i8i8
charz
    `u8 x,`,
// `tick` ""quote"" 'q'
// trailing space 
}")).
Eval vm_compute in ("<<<M932>>>" ++ check (runes_of_ascii "packet //x
roots
    { @rightPad(
    '\x00'// a // b
)
o Z9_ ,
@tag( 00 )  @tag(1
    // trailing space 
    ) @lengthOf( MetaDataX ) Z9_@calculatedFrom( // @lengthOf(
""x y"" )	,}
")).
Eval vm_compute in ("<<<M147>>>" ++ check (runes_of_ascii "root packet stringy { @tag( 7 ) @tag( 1
    ) @rightPad (
'\x00'
    )Foo // `tick` ""quote"" 'q'
x`crlf
line` ,@calculatedFrom(  ""a	b"" ) roots //x
`it's`// @lengthOf(
,
    }")).
Eval vm_compute in ("<<<M77>>>" ++ check (runes_of_ascii "MetaData o
    { char[] i64_
`{ , }`	, u16 tag  ,
char[]
lengthOf	`u8 x,` , Z9_  rootA`
`,
zchar[	3 // trailing space 
] u, // " ++ [27880; 37322]%N ++ runes_of_ascii "
float T
//	t
//	t
`{ , }`
    , }
")).
Eval vm_compute in ("<<<M1243>>>" ++ check (runes_of_ascii "
packet string_{metadata
// a // b
/// triple
@lengthOf(	T), @lengthOf( x ) Logon @calculatedFrom( """"
)
, @calculatedFrom( ""a	b""
) x_y_z
    `say ""hi""` ,
    }
")).
Eval vm_compute in ("<<<M584>>>" ++ check (runes_of_ascii "
root packet leftPad {
//	t
// c
char[] chars , }root
    packet
// a // b
// `tick` ""quote"" 'q'
stringy
{// " ++ [27880; 37322]%N ++ runes_of_ascii "
char[  42 ] A , } packet Foo{
u128
A ,
}
")).
Eval vm_compute in ("<<<M3438>>>" ++ check (runes_of_ascii "packet
    B
{u8 a
    ,  }	root packet

    P{ u8

    K

    ,
	u64

    L@lengthOf(	Body
)  ,  match 
K
	as
    Body {	1 
:
B 
, 
},}
")).
Eval vm_compute in ("<<<M996>>>" ++ check (runes_of_ascii "root// " ++ [27880; 37322]%N ++ runes_of_ascii "
packet  MetaDataX { //	t
@calculatedFrom(""it's""
    // packet A { u8 x, }
    )string // " ++ [27880; 37322]%N ++ runes_of_ascii "
msg_type @calculatedFrom("""" )
`{ , }` ,}")).
Eval vm_compute in ("<<<M825>>>" ++ check (runes_of_ascii "
packet string_ { @calculatedFrom( ""abc"" ) @calculatedFrom(""" ++ [28040; 24687]%N ++ runes_of_ascii """ ) @rightPad (
//	t
// packet A { u8 x, }
'0'
    )crc len `tab	here`
,
}
")).
Eval vm_compute in ("<<<M1703>>>" ++ check (runes_of_ascii "root packet /// triple
rootA {	i32
MetaDataX@calculatedFrom( ""CRC32"" ) `line1
line2` , } MetaData BodyLength {
u8
rootA rootA, } // c")).
Eval vm_compute in ("<<<M4249>>>" ++ check (runes_of_ascii "packet A {
    match k as n {
        [
            1, ""bb"", 007, ""d"", 5,
            ""f"", 7
        ] : B,
        2 : C,
    },
}")).
Eval vm_compute in ("<<<M1627>>>" ++ check (runes_of_ascii "packet root /// triple
rootA {	i32
MetaDataX@calculatedFrom( ""CRC32"" ) `line1
line2` , } MetaData BodyLength {
u8
rootA, } // c")).
Eval vm_compute in ("<<<M53>>>" ++ check (runes_of_ascii "  options{ u= ""a	b"" ; charz = true ;
    matchKey =//x
0123456789 u8x =
char[]
    // trailing space 
    Packet
=
false ; }
")).
Eval vm_compute in ("<<<M385>>>" ++ check (runes_of_ascii "// @lengthOf(
packet
    // " ++ [27880; 37322]%N ++ runes_of_ascii "
    float{
    @calculatedFrom(
    ""abc"" )
char chars
    @calculatedFrom(""CRC32"" )`" ++ [233]%N ++ runes_of_ascii "`
, }
")).
Eval vm_compute in ("<<<M1323>>>" ++ check (runes_of_ascii "options {
tag = ""// no comment""/// triple
calculatedFrom= 10
    Packet
    // `tick` ""quote"" 'q'
    ='0' ; }
// a // b
")).
Eval vm_compute in ("<<<M1823>>>" ++ check (runes_of_ascii "packet
    Pad // a // b
{ i8i8 @calculatedFrom( ""a	b"") `u8 x,` int8
} options{ float// " ++ [128512]%N ++ runes_of_ascii " emoji
= f64 i64_
=//	t
00 }
")).
Eval vm_compute in ("<<<M1687>>>" ++ check (runes_of_ascii "root packet /// triple
rootA {	i32
MetaDataX@calculatedFrom( ""CRC32"" ) `line1
line2` , } MetaData  {
u8
rootA, } // c")).
Eval vm_compute in ("<<<M1807>>>" ++ check (runes_of_ascii "packet
    Pad // a // b
{ i8i8 @calculatedFrom( )""a	b"" `u8 x,` ,
} options{ float// " ++ [128512]%N ++ runes_of_ascii " emoji
= f64 i64_
=//	t
00 }
")).
Eval vm_compute in ("<<<M1894>>>" ++ check (runes_of_ascii "packet
    Pad // a // b
{ i8i8 @calculatedFrom( ""a	b"") `u8 x,` ,
} options{ " ++ [252]%N ++ runes_of_ascii "ber// " ++ [128512]%N ++ runes_of_ascii " emoji
= f64 i64_
=//	t
00 }
")).
Eval vm_compute in ("<<<M4403>>>" ++ check (runes_of_ascii "packet  Logon	// c
	{ @tag(42
    ) @rightPad	( ' ' 
)  @leftPad ( ) repeat	trueish
	{ string

    T , 
}, 
}
")).
Eval vm_compute in ("<<<M2999>>>" ++ check (runes_of_ascii "packet A {
  match k as n {
    [""a"", ""bb"", 007, ""d"", ""e"", 66, ""g"", ""h"", 9, ""j"", ""k"", 12] : B,
    2 : C
  },
}")).
Eval vm_compute in ("<<<M3004>>>" ++ check (runes_of_ascii "packet A {
    u16 len @lengthOf(body) `a
b`,
    u32 crc @calculatedFrom(""CRC32"") `a
b`,
    string body,
}")).
Eval vm_compute in ("<<<M4174>>>" ++ check (runes_of_ascii "packet leftPad {
    char[] MetaDataX `crlf
        line`,
    f32 pack @calculatedFrom(""a\\"") `" ++ [28040; 24687; 31867; 22411]%N ++ runes_of_ascii "`,
}")).
Eval vm_compute in ("<<<M3346>>>" ++ check (runes_of_ascii "packet calculatedFrom { @tag(
// c
4294967296 ) u msg_type , char[ 3 ] crc @lengthOf( len ) `u8 x,` , }")).
Eval vm_compute in ("<<<M4132>>>" ++ check (runes_of_ascii "MetaData float {
    tag body `" ++ [233]%N ++ runes_of_ascii "`,
    f64 i8i8 `{ , }`,
    f32 chars `two words`,
    Pad i64_,
}//	t")).
Eval vm_compute in ("<<<M3900>>>" ++ check (runes_of_ascii "packet A {
    u32 crc @calculatedFrom(""\
        ""),
    @calculatedFrom(""\
        "")
    u8 y,
}")).
Eval vm_compute in ("<<<M1997>>>" ++ check (runes_of_ascii "root
packet crc
    { f32a @calculatedFrom( """ ++ [233]%N ++ runes_of_ascii "t" ++ [233]%N ++ runes_of_ascii """ )
    `say ""hi""` `say ""hi""`, lengthOf `` ,  }")).
Eval vm_compute in ("<<<M3222>>>" ++ check (runes_of_ascii "packet Logon { @tag( // c
42 ) @rightPad ( ' ' ) @leftPad ( ) repeat trueish { string T , } , }")).
Eval vm_compute in ("<<<M3254>>>" ++ check (runes_of_ascii "packet Logon { @tag( 42 ) @rightPad ( ' ' ) @leftPad ( ) repeat trueish { string T , } // c
, }")).
Eval vm_compute in ("<<<M267>>>" ++ check (runes_of_ascii "root packet repeatCount
{ @lengthOf( Foo  ) @tag( 4294967296 )
repeat f32	u8x
    , }
// c
")).
Eval vm_compute in ("<<<M3898>>>" ++ check (runes_of_ascii "packet
    A 
{ match 
k 
as n  {[ 
""a""	,
    ""bb"" ,

    ""c c"" ]:

B 2
    : C
	}
	,
}
")).
Eval vm_compute in ("<<<M812>>>" ++ check (runes_of_ascii "packet int {}
    // packet A { u8 x, }
    packet Pad { repeat zchar[
7 ] body`" ++ [233]%N ++ runes_of_ascii "` , }
")).
Eval vm_compute in ("<<<M2030>>>" ++ check (runes_of_ascii "root
packet crc
    `{ f32a @calculatedFrom( """ ++ [233]%N ++ runes_of_ascii "t" ++ [233]%N ++ runes_of_ascii """ )
    `say ""hi""`, lengthOf `` ,  }")).
Eval vm_compute in ("<<<M2004>>>" ++ check (runes_of_ascii "root
packet crc
    { f32a @calculatedFrom( """ ++ [233]%N ++ runes_of_ascii "t" ++ [233]%N ++ runes_of_ascii """ )
    `say ""hi""`] lengthOf `` ,  }")).
Eval vm_compute in ("<<<M1079>>>" ++ check (runes_of_ascii "MetaData packetx { zchar[
42 //	t
] uint8x `doc`
    , uint16
string_`two words`,}")).
Eval vm_compute in ("<<<M2915>>>" ++ check (runes_of_ascii "packet A {
  match k as n {
    [1, ""bb"", 007, ""d"", 5, ""f""] : B,
    2 : C
  },
}")).
Eval vm_compute in ("<<<M3321>>>" ++ check (runes_of_ascii "packet o { @tag( 42 ) repeat x { char[ 0123456789 ] i64_ ,
// c
} , } options { }")).
Eval vm_compute in ("<<<M278>>>" ++ check (runes_of_ascii "options  {Packet= zchar[ 3
] u128 = zchar[
42 ] a1=
'\x00'	;
crc=	0	; //	t
}
")).
Eval vm_compute in ("<<<M1844>>>" ++ check (runes_of_ascii "packet
    Pad // a // b
{ i8i8 @calculatedFrom( ""a	b"") `u8 x,` ,
} options{")).
Eval vm_compute in ("<<<M909>>>" ++ check (runes_of_ascii "options {
T =' '	asx ='\x00' ; falsey /// triple
=  ' '
// " ++ [128512]%N ++ runes_of_ascii " emoji
// c
}
")).
Eval vm_compute in ("<<<M2889>>>" ++ check (runes_of_ascii "packet A {
  match k as n {
    [1, ""bb"", 007, ""d""] : B,
    2 : C
  },
}")).
Eval vm_compute in ("<<<M321>>>" ++ check (runes_of_ascii "MetaData As { } MetaData asx
{
    char[ 007 ] Logon
`two words` , }
")).
Eval vm_compute in ("<<<M3739>>>" ++ check (runes_of_ascii "  packet
A
    {
    B
{ match

k
as
	n {
1
:
	C
    }
	,
    }

, }")).
Eval vm_compute in ("<<<M2197>>>" ++ check (runes_of_ascii "# root
    // `tick` ""quote"" 'q'
    packet As { trueish Packet , }
")).
Eval vm_compute in ("<<<M1018>>>" ++ check (runes_of_ascii "// @lengthOf(
MetaData chars { Header BodyLength , char[] int ,
}
")).
Eval vm_compute in ("<<<M2181>>>" ++ check (runes_of_ascii "root
    // `tick` ""quote"" 'q'
    packet As { trueish Packet  }
")).
Eval vm_compute in ("<<<M3838>>>" ++ check (runes_of_ascii "MetaData

    trueish
{char[]  chars,
    char[]
	int
	,
}
")).
Eval vm_compute in ("<<<M1227>>>" ++ check (runes_of_ascii "
MetaData metadata { uint8 metadata
`a\` ,
    char len	, }")).
Eval vm_compute in ("<<<M676>>>" ++ check (runes_of_ascii "//x
packet zchar { @calculatedFrom(
""CRC32"") lengthOf , }")).
Eval vm_compute in ("<<<M3182>>>" ++ check (runes_of_ascii "packet A {
    match k as n {
        1 : B,// c
    },
}")).
Eval vm_compute in ("<<<M1917>>>" ++ check (runes_of_ascii "
packet	As { @calculatedFrom(//x
)	""{,}""lengthOf , } 	 ")).
Eval vm_compute in ("<<<M2000>>>" ++ check (runes_of_ascii "root
packet crc
    { f32a @calculatedFrom( """ ++ [233]%N ++ runes_of_ascii "t" ++ [233]%N ++ runes_of_ascii """ )")).
Eval vm_compute in ("<<<M2411>>>" ++ check (runes_of_ascii "\ MetaData A
{
i64
chars	, } // `tick` ""quote"" 'q'")).
Eval vm_compute in ("<<<M150>>>" ++ check (runes_of_ascii "options {float
    = 4294967296 ;} options
{ }
")).
Eval vm_compute in ("<<<M2102>>>" ++ check (runes_of_ascii "MetaData MetaData x
{// " ++ [128512]%N ++ runes_of_ascii " emoji
i16 stringy , }")).
Eval vm_compute in ("<<<M4017>>>" ++ check (runes_of_ascii "options {
}

options {
}// `tick` ""quote"" " ++ [65279]%N ++ runes_of_ascii "'q'")).
Eval vm_compute in ("<<<M1990>>>" ++ check (runes_of_ascii "root
packet crc
    { f32a @calculatedFrom(")).
Eval vm_compute in ("<<<M397>>>" ++ check (runes_of_ascii "
options { string_
=
    zchar[ 007
] ; }")).
Eval vm_compute in ("<<<M3189>>>" ++ check (runes_of_ascii "
// c
MetaData zchar { zchar[ 3 ] Pad , }")).
Eval vm_compute in ("<<<M3188>>>" ++ check (runes_of_ascii "// c
MetaData zchar { zchar[ 3 ] Pad , }")).
Eval vm_compute in ("<<<M2142>>>" ++ check (runes_of_ascii "MetaData x
{// " ++ [128512]%N ++ runes_of_ascii " emoji
i16 @stringy , }")).
Eval vm_compute in ("<<<M2779>>>" ++ check (runes_of_ascii "PCH{:;a*+BX,D;fDx(|3g)Qf5i123k>6$5!tGz")).
Eval vm_compute in ("<<<M2104>>>" ++ check (runes_of_ascii "uint64 x
{// " ++ [128512]%N ++ runes_of_ascii " emoji
i16 stringy , }")).
Eval vm_compute in ("<<<M2029>>>" ++ check (runes_of_ascii "root
packet crc
    { f32a @calcu")).
Eval vm_compute in ("<<<M4166>>>" ++ check (runes_of_ascii "
root	packet

    o
    {  }
")).
Eval vm_compute in ("<<<M3019>>>" ++ check (runes_of_ascii "root packet A {
    u8 x `
`,
}")).
Eval vm_compute in ("<<<M3098>>>" ++ check (runes_of_ascii "packet A {
 u8 x `d" ++ [8232]%N ++ runes_of_ascii "`, // c" ++ [8232]%N ++ runes_of_ascii "
}")).
Eval vm_compute in ("<<<M462>>>" ++ check (runes_of_ascii "packet
    // " ++ [27880; 37322]%N ++ runes_of_ascii "
    tag
{}
")).
Eval vm_compute in ("<<<M2621>>>" ++ check (runes_of_ascii "packet A { @leftPad u8 x, }")).
Eval vm_compute in ("<<<M2575>>>" ++ check (runes_of_ascii "packet A { u8 x `d` `e`, }")).
Eval vm_compute in ("<<<M2782>>>" ++ check ([65533]%N ++ runes_of_ascii "`js" ++ [65533; 18; 65533; 65533; 0]%N ++ runes_of_ascii "}P" ++ [65533; 31; 1653]%N ++ runes_of_ascii "m" ++ [65533; 65533; 65533; 65533]%N ++ runes_of_ascii "E,T" ++ [65533]%N ++ runes_of_ascii "b" ++ [65533]%N)).
Eval vm_compute in ("<<<M3269>>>" ++ check (runes_of_ascii "// c
options { u8x = 3 }")).
Eval vm_compute in ("<<<M2574>>>" ++ check (runes_of_ascii "packet A { x `d` `e`, }")).
Eval vm_compute in ("<<<M2700>>>" ++ check (runes_of_ascii "K gGV$myFaQIVqDT=DBdbG")).
Eval vm_compute in ("<<<M94>>>" ++ check (runes_of_ascii "  options //x
{} 	 ")).
Eval vm_compute in ("<<<M2593>>>" ++ check (runes_of_ascii "packet A { B { }, }")).
Eval vm_compute in ("<<<M2656>>>" ++ check (runes_of_ascii "options { a = b; }")).
Eval vm_compute in ("<<<M3116>>>" ++ check (runes_of_ascii "packet A {
}
// c" ++ [11]%N)).
Eval vm_compute in ("<<<M2815>>>" ++ check (runes_of_ascii "^oT&]t,1C?E|)]Q{2")).
Eval vm_compute in ("<<<M2793>>>" ++ check (runes_of_ascii ", ] = ""`tick`"" {")).
Eval vm_compute in ("<<<M2727>>>" ++ check (runes_of_ascii "A" ++ [65533; 65533; 65533; 65533]%N ++ runes_of_ascii "}" ++ [65533; 8; 20; 65533; 65533; 65533]%N ++ runes_of_ascii "J")).
Eval vm_compute in ("<<<M915>>>" ++ check (runes_of_ascii "options{ }
")).
Eval vm_compute in ("<<<M2750>>>" ++ check (runes_of_ascii "} } i64 ]")).
Eval vm_compute in ("<<<M848>>>" ++ check (runes_of_ascii "
//	t
")).
Eval vm_compute in ("<<<M2434>>>" ++ check (runes_of_ascii "zchar")).
Eval vm_compute in ("<<<M3130>>>" ++ check (runes_of_ascii "// c" ++ [8203]%N)).
Eval vm_compute in ("<<<M73>>>" ++ check (runes_of_ascii " 	 ")).
Eval vm_compute in ("<<<M2677>>>" ++ check (runes_of_ascii "`d`")).
Eval vm_compute in ("<<<M2492>>>" ++ check (runes_of_ascii "@")).
