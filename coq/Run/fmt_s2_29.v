From FP Require Import Lexer Parser ShowPT Digest Formatter.
From Coq Require Import String List NArith.
Import ListNotations.
Open Scope string_scope.
Set Printing Width 100000000.
Set Printing Depth 100000000.
Definition show_fres (r : fres) : string :=
  match r with
  | FOk s => "OK:" ++ sh_escaped s ""
  | FErr s => "ERR:" ++ sh_escaped s ""
  | FPanic p => "PANIC:" ++ p
  end.
Definition check (rs : list rune) : string := digest (show_fres (format_res rs)).
Definition full (rs : list rune) : string := show_fres (format_res rs).
Eval vm_compute in ("<<<M89>>>" ++ check (runes_of_ascii "packet
x
    // `tick` ""quote"" 'q'
    { len// c
{// " ++ [27880; 37322]%N ++ runes_of_ascii "
repeat
i32	crc `say ""hi""` , match
    chars as Packet
{ 0123456789//	t
: Pad 0123456789 :
falsey
    // " ++ [27880; 37322]%N ++ runes_of_ascii "
    [
4294967296
    , 3
    ,
4294967296 , 0, ""1"" ] :roots,
""a\\""
:
_x 3
    : packetx } , repeat string
    stringy `tab	here`
,  match roots as lengthOf{
""abc"" //	t
:
packetx , } // packet A { u8 x, }
, } ,@lengthOf( chars )match  rootA
    // trailing space 
    as roots{
""\n"" //
:
    Packet ,} , // `tick` ""quote"" 'q'
string As `" ++ [28040; 24687; 31867; 22411]%N ++ runes_of_ascii "` , @rightPad (
'\x00' ) int64 trueish @lengthOf( lengthOf )  `" ++ [233]%N ++ runes_of_ascii "` , } packet	len {	} options
    {a1
    // packet A { u8 x, }
    = false
    // a // b
    }packet Z9_{ repeat zchar[ 00
]  options1
    //x
    ,	@lengthOf( falsey ) repeat//	t
i8 options1 `two words`
, @rightPad//
() i8 msg_type, char[3]
lengthOf `{ , }`	,  string _x,@leftPad (
) // c
uint16	chars,
// @lengthOf(
//
@lengthOf(
crc
    )@leftPad
    (
    // " ++ [128512]%N ++ runes_of_ascii " emoji
    '0' ) repeat
stringy calculatedFrom , string
// " ++ [27880; 37322]%N ++ runes_of_ascii "
//
int `line1
line2`, @rightPad
( ' '
    ) match Foo as
    rootA //x
{ [ ""packet"", ""a\""b"", """ ++ [128512]%N ++ runes_of_ascii """
    ,""""	,
    42 ] : u
// a // b
// packet A { u8 x, }
,
0 // " ++ [27880; 37322]%N ++ runes_of_ascii "
:	A
    , // trailing space 
00
:
asx
//x
// trailing space 
0 :  x_y_z
    ,
""CRC32"" : i64_
, 42 : x
// c
// " ++ [128512]%N ++ runes_of_ascii " emoji
, } , roots{ repeat zchar[10 ] stringy `" ++ [28040; 24687; 31867; 22411]%N ++ runes_of_ascii "` ,	} , } MetaData
    // `tick` ""quote"" 'q'
    tag{ f32 tag
    ``, }
")).
Eval vm_compute in ("<<<M118>>>" ++ check (runes_of_ascii "
packet // c
zchar { i8 uint8x//
`a\`,
    match
leftPad as matchKey
// a // b
// @lengthOf(
{  007
    :f32a  ,
7// " ++ [27880; 37322]%N ++ runes_of_ascii "
: // " ++ [128512]%N ++ runes_of_ascii " emoji
falsey ,3
:_x	, [ ""1"" ] : u8x ,
    //	t
    ""it's""
: i8i8 ,
    10 :pack , } , repeat string
rootA`say ""hi""`, repeat
int32 repeatCount `" ++ [233]%N ++ runes_of_ascii "` , @lengthOf( calculatedFrom)
zchar[// @lengthOf(
4294967296 ]
// @lengthOf(
// packet A { u8 x, }
T ,
    @tag(
4294967296 )
crc @calculatedFrom( // packet A { u8 x, }
"""" )
, @calculatedFrom(""abc"")u8x	@lengthOf( o) `crlf
line`, }packet
//
// c
T { i64 repeatCount ,
    calculatedFrom pack
,
@calculatedFrom( ""`tick`"" // packet A { u8 x, }
)
    f32a Foo
, match body as string_ {  ""packet"":	uint8x // " ++ [128512]%N ++ runes_of_ascii " emoji
,// @lengthOf(
""" ++ [128512]%N ++ runes_of_ascii """ /// triple
: body, 007	:
Logon, ""it's"" // a // b
:leftPad
    ,
[ ""x y"" ,
255 , ""\" ++ [233]%N ++ runes_of_ascii """,
1 //
, 0123456789]: options1 ,} , @rightPad ( '\x00'	)
    // packet A { u8 x, }
    match
//	t
// @lengthOf(
As as
    roots { 4294967296 :len """ ++ [28040; 24687]%N ++ runes_of_ascii """ :msg_type
, } ,
    f32 chars ,
// `tick` ""quote"" 'q'
// @lengthOf(
repeat calculatedFrom , @calculatedFrom( ""x y"" ) f32
roots
// `tick` ""quote"" 'q'
//x
`{ , }` , } root packet calculatedFrom{ }
")).
Eval vm_compute in ("<<<M1123>>>" ++ check (runes_of_ascii "// top
root
    // c0
packet
    // c1
msg_type
    // c2
{
    // c3
i64
    // c4
options1
    // c5
,
    // c6
@lengthOf(
    // c7
f32a
    // c8
)
    // c9
repeat
    // c10
uint16
    // c11
Foo
    // c12
,
    // c13
@calculatedFrom(
    // c14
""x y""
    // c15
)
    // c16
repeat
    // c17
int64
    // c18
pack
    // c19
,
    // c20
@leftPad
    // c21
(
    // c22
' '
    // c23
)
    // c24
uint8
    // c25
Foo
    // c26
,
    // c27
}
    // c28
packet
    // c29
rootA
    // c30
{
    // c31
f32a
    // c32
x
    // c33
`two words`
    // c34
,
    // c35
char
    // c36
asx
    // c37
@lengthOf(
    // c38
falsey
    // c39
)
    // c40
`u8 x,`
    // c41
,
    // c42
@lengthOf(
    // c43
i64_
    // c44
)
    // c45
uint16
    // c46
chars
    // c47
,
    // c48
@tag(
    // c49
0
    // c50
)
    // c51
string
    // c52
_x
    // c53
@calculatedFrom(
    // c54
""abc""
    // c55
)
    // c56
`// not a comment`
    // c57
,
    // c58
}
    // c59
")).
Eval vm_compute in ("<<<M1178>>>" ++ check (runes_of_ascii "// top
options
    // c0
{
    // c1
chars
    // c2
=
    // c3
""a\\""
    // c4
}
    // c5
packet
    // c6
Z9_
    // c7
{
    // c8
match
    // c9
BodyLength
    // c10
as
    // c11
roots
    // c12
{
    // c13
""" ++ [28040; 24687]%N ++ runes_of_ascii """
    // c14
:
    // c15
falsey
    // c16
,
    // c17
00
    // c18
:
    // c19
u128
    // c20
0
    // c21
:
    // c22
len
    // c23
,
    // c24
007
    // c25
:
    // c26
f32a
    // c27
}
    // c28
,
    // c29
@tag(
    // c30
3
    // c31
)
    // c32
@calculatedFrom(
    // c33
""`tick`""
    // c34
)
    // c35
@leftPad
    // c36
(
    // c37
' '
    // c38
)
    // c39
string
    // c40
asx
    // c41
,
    // c42
string
    // c43
u
    // c44
@lengthOf(
    // c45
options1
    // c46
)
    // c47
,
    // c48
float32
    // c49
i64_
    // c50
@calculatedFrom(
    // c51
""a\""b""
    // c52
)
    // c53
,
    // c54
}
    // c55
")).
Eval vm_compute in ("<<<M1881>>>" ++ check (runes_of_ascii "  packet

    A 
{ repeat o	Z9_,@calculatedFrom( """ ++ [233]%N ++ runes_of_ascii "t" ++ [233]%N ++ runes_of_ascii """  )
    @calculatedFrom(	""a\\"" 
)
@tag( 42
	)

match

    Header

    as  
      // packet A { u8 x, }

  tag
	{	""`tick`"" 
:	As
    ,
	[
""\" ++ [233]%N ++ runes_of_ascii """
    ]	:asx [  3,

""1"" ,  ""\n""	,

    007,
	""\n""  ] 
:  options1	""abc""
    : 
    //	t
	/// triple
  falsey
    ,
    4294967296

    : metadata 
,	}

    , @tag(  4294967296

    )
tag
    @calculatedFrom(  """ ++ [128512]%N ++ runes_of_ascii """
),  }
        // `tick` ""quote"" 'q'
    	packet stringy

    { 
char[]packetx	`
`
,string
	leftPad  @lengthOf( float
)
, @tag(	//	t
65535) @lengthOf(
packetx	)

@lengthOf(	Pad
)
        // trailing space 
// " ++ [27880; 37322]%N ++ runes_of_ascii "
  repeatCount  BodyLength ,	// a // b
	char[] 
A

@lengthOf(	// packet A { u8 x, }
	a1  )  `two words`, }

packet  falsey// " ++ [27880; 37322]%N ++ runes_of_ascii "
  { } ")).
Eval vm_compute in ("<<<M97>>>" ++ check (runes_of_ascii "options
// trailing space 
// " ++ [27880; 37322]%N ++ runes_of_ascii "
{Foo=
""it's"" lengthOf = int8 falsey /// triple
= 7 ;a1
= false
; } MetaData repeatCount
//x
//x
{ T
    repeatCount,
    u8x msg_type `// not a comment`
    ,
    repeatCount T	, } packet repeatCount{  @tag( 007 ) i64_ As	,
}
root packet	packetx{
    string
//	t
// " ++ [128512]%N ++ runes_of_ascii " emoji
T @calculatedFrom(""{,}""//
)
    , repeat zchar[
    4294967296
    ] x  , @tag(
42 ) @lengthOf( lengthOf
)/// triple
@calculatedFrom( ""`tick`""	)repeat u16 u128 `say ""hi""` // trailing space 
, // trailing space 
@rightPad ( ) @tag( 255 )
repeat uint8x Logon
    // packet A { u8 x, }
    ,
    repeat zchar[ 007 ]Logon`a\`
    ,@rightPad(
    // `tick` ""quote"" 'q'
    '0' ) // @lengthOf(
string
falsey ,
}
")).
Eval vm_compute in ("<<<M1912>>>" ++ check (runes_of_ascii "packet A {
    repeat o Z9_,
    @calculatedFrom(""" ++ [233]%N ++ runes_of_ascii "t" ++ [233]%N ++ runes_of_ascii """)
    @calculatedFrom(""a\\"")
    @tag(42)
    match Header as tag {
        ""`tick`"" : As,
        [""\" ++ [233]%N ++ runes_of_ascii """] : asx,
        [3, ""1"", ""\n"", 007, ""\n""] : options1,
        ""abc"" : falsey,
        4294967296 : metadata,
    },
    @tag(4294967296)
    tag @calculatedFrom(""" ++ [128512]%N ++ runes_of_ascii """),
}

// `tick` ""quote"" 'q'
packet stringy {
    char[] packetx `
        `,
    string leftPad @lengthOf(float),
    @tag(65535)
    @lengthOf(packetx)
    @lengthOf(Pad)
    // trailing space 
    // " ++ [27880; 37322]%N ++ runes_of_ascii "
    repeatCount BodyLength,// a // b
    char[] A @lengthOf(a1) `two words`,
}

packet falsey {
}")).
Eval vm_compute in ("<<<M1999>>>" ++ check (runes_of_ascii "packet uint8x {
    string_ {
        repeat zchar {
            // `tick` ""quote"" 'q'
            //x
            match u128 as A {
                42 : pack,
            },// " ++ [27880; 37322]%N ++ runes_of_ascii "
            int64 u128,
            repeatCount `it's`,
            string asx @calculatedFrom(""a\""b""),
        },
        matchKey @calculatedFrom(""1""),
    },
    match o as Z9_ {
        // a // b
        [7] : uint8x,
        [00, """ ++ [233]%N ++ runes_of_ascii "t" ++ [233]%N ++ runes_of_ascii """, ""\" ++ [233]%N ++ runes_of_ascii """] : Packet,
        // a // b
    },
    f32 A,
}

root packet Foo {
    repeat float32 msg_type,
}")).
Eval vm_compute in ("<<<M1463>>>" ++ check (runes_of_ascii "options

{
	LittleEndian
=	false
    ;

    StringPrefixLenType=
	u8; 
ArrayPrefixLenType
=
u16

;
    FixedStringPadFromLeft  = false ;
} packet	Heartbeat {
u8

seqNo

    ,
    @rightPad  (
'\x00'

    )

char[

    8
] x ,
    }

    root
packet 
Trade	{ 
repeat	Heartbeat

    ,

    float32  OrderId
,
i64 Acct  , 
u16	Qty ,u16  clOrdID
	,

match
	clOrdID	as
	Body
	{
131	: Heartbeat ,
},u16	sym@calculatedFrom(  ""CRC32""	)  , }")).
Eval vm_compute in ("<<<M1386>>>" ++ check (runes_of_ascii "// top
packet // c0a
  // c0b
A { // c2
u8 // c3a
  // c3b
a
    // c4
, // c5
} // c6a
  // c6b
packet B // c8a
  // c8b
{
    // c9
u16 b // c11
, // c12a
  // c12b
} root // c14
packet // c15
P { // c17
u8 // c18a
  // c18b
K , // c20
match // c21
K
    // c22
as // c23
M { // c25
1
    // c26
: // c27a
  // c27b
A // c28
, 1 // c30
: B // c32a
  // c32b
, // c33a
  // c33b
} // c34
, // c35
} ")).
Eval vm_compute in ("<<<M1659>>>" ++ check (runes_of_ascii "packet u128 {
    // c2
    u8 a,// c5a
    // c5b
}// c6

root packet Msg {
    // c10
    u8 k,// c13
    u24 {
        // c15
        u8 Hi,// c18a
        // c18b
        u16 Lo,// c21
    },// c23a
    // c23b
    repeat i24 {
        // c26
        u32 q,
        // c29
    },
    u128,
    // c33
    u16 float32x,
    string s,// c39a
    // c39b
}")).
Eval vm_compute in ("<<<M199>>>" ++ check (runes_of_ascii "packet
    body {
@rightPad(	'0'	) Packet a1 ,asx ,repeatCount
// trailing space 
// packet A { u8 x, }
{// trailing space 
repeat int64 falsey , },	@rightPad
// c
// a // b
( '0'
)	match int
    // " ++ [27880; 37322]%N ++ runes_of_ascii "
    as T { 4294967296
: _x, 00 :  string_// c
,
    [""x y""  ] :  stringy, } ,// packet A { u8 x, }
uint32 x_y_z
,
}")).
Eval vm_compute in ("<<<M1677>>>" ++ check (runes_of_ascii "  packet

    P1{  u8 a, } packet
    P2 { P1 ,
}  packet P3
    {

P2

    ,
P1	,	} 
packet P4 
{
repeat
P3
    ,P2
    ,
	}
root

    packet
P5 {

P4
, P3 , P1,

    u8
    K 
,
match
	K as
Body
	{
    4
	: 
P4
	, 3  :
    P3
,
2 :	P2	,  1
    :  P1,

    } 
,  }
")).
Eval vm_compute in ("<<<M344>>>" ++ check (runes_of_ascii "packet
chars {repeat float32  x_y_z
    , @tag( 0123456789
    )	char[
255	] rootA `{ , }` , } options  { x= zchar[
    00
] ;
Packet= '\x00' ; }
    options{Z9_ =// packet A { u8 x, }
""CRC32"" ;
    As = // `tick` ""quote"" 'q'
uint32 ; } // a // b")).
Eval vm_compute in ("<<<M1533>>>" ++ check (runes_of_ascii "MetaData packetx {
    packetx i64_ `say ""hi""`,
}

options {
}

packet string_ {
    @lengthOf(repeatCount)
    len {
        zchar[10] u128,
        f32 falsey `say ""hi""`,
        uint16 f32a `crlf
        line`,
    },
}
// " ++ [27880; 37322]%N)).
Eval vm_compute in ("<<<M422>>>" ++ check (runes_of_ascii "options
{
matchKey = 42/// triple
x='0' '0' ;
// packet A { u8 x, }
//
charz
=
// packet A { u8 x, }
// trailing space 
true  ; } MetaData BodyLength
{
uint8
pack,zchar[ 1]float ,  float32 x_y_z `` ,u32
_x,i16 body  , }
")).
Eval vm_compute in ("<<<M542>>>" ++ check (runes_of_ascii "options
{
matchKey = 42/// triple
x='0' ;
// packet A { u8 x, }
//
charz
=
// packet A { u8 x, }
// trailing space 
true  ; } MetaData BodyLength
{
uint8
pack,zchar[ 1]float ,  float32 x_y_z `` ,u32
_x, ,i16 body  , }
")).
Eval vm_compute in ("<<<M408>>>" ++ check (runes_of_ascii "options
{
matchKey = x/// triple
42='0' ;
// packet A { u8 x, }
//
charz
=
// packet A { u8 x, }
// trailing space 
true  ; } MetaData BodyLength
{
uint8
pack,zchar[ 1]float ,  float32 x_y_z `` ,u32
_x,i16 body  , }
")).
Eval vm_compute in ("<<<M558>>>" ++ check (runes_of_ascii "options
{
matchKey = 42/// triple
x='0' ;
// packet A { u8 x, }
//
charz
=
// packet A { u8 x, }
// trailing space 
true  ; } MetaData BodyLength
{
uint8
pack,zchar[ 1]float ,  float32 x_y_z `` ,u32
_x,i16 body  } ,
")).
Eval vm_compute in ("<<<M441>>>" ++ check (runes_of_ascii "options
{
matchKey = 42/// triple
x='0' ;
// packet A { u8 x, }
//
charz
=
// packet A { u8 x, }
// trailing space 
  ; } MetaData BodyLength
{
uint8
pack,zchar[ 1]float ,  float32 x_y_z `` ,u32
_x,i16 body  , }
")).
Eval vm_compute in ("<<<M550>>>" ++ check (runes_of_ascii "options
{
matchKey = 42/// triple
x='0' ;
// packet A { u8 x, }
//
charz
=
// packet A { u8 x, }
// trailing space 
true  ; } MetaData BodyLength
{
uint8
pack,zchar[ 1]float ,  float32 x_y_z `` ,u32
_x,")).
Eval vm_compute in ("<<<M696>>>" ++ check (runes_of_ascii "// c
packet packet i64_ {	char[] calculatedFrom , } packet
trueish  {@calculatedFrom(
""a\\"" ) o { i32 falsey@lengthOf( uint8x ),
} , } // `tick` ""quote"" 'q'
options {// c
Z9_ = ' '//
}
")).
Eval vm_compute in ("<<<M719>>>" ++ check (runes_of_ascii "// c
packet i64_ {	char[] calculatedFrom , } packet
trueish  {@calculatedFrom(
""a\\"" ) o { i32 falsey@lengthOf( uint8x ) ),
} , } // `tick` ""quote"" 'q'
options {// c
Z9_ = ' '//
}
")).
Eval vm_compute in ("<<<M708>>>" ++ check (runes_of_ascii "// c
packet i64_ {	char[] calculatedFrom , } packet
trueish  {@calculatedFrom(
""a\\"" ) o { i32 falsey@lengthOf( uint8x ),
} , } // `tick` ""quote"" 'q'
options {// c
 = ' '//
}
")).
Eval vm_compute in ("<<<M206>>>" ++ check (runes_of_ascii "options
    {As
=false	;
}root packet calculatedFrom // a // b
{ zchar[
255 ] Z9_
,  }  MetaData metadata{ int8 chars
, char[]
charz `two words` , char[ 0]
rootA, }")).
Eval vm_compute in ("<<<M567>>>" ++ check (runes_of_ascii "options
{
matchKey = 42/// triple
x='0' ;
// packet A { u8 x, }
//
charz
=
// packet A { u8 x, }
// trailing space 
true  ; } MetaData BodyLength
{
uin")).
Eval vm_compute in ("<<<M1687>>>" ++ check (runes_of_ascii "root packet stringy {
    @tag(7)
    @tag(1)
    @rightPad('\x00')
    Foo x `crlf
    line`,
    @calculatedFrom(""a	b"")
    roots `it's`,
}")).
Eval vm_compute in ("<<<M1930>>>" ++ check (runes_of_ascii "

  packet
calculatedFrom  { 
@tag(4294967296

    )

u 
// c
    msg_type
,
char[
	3
    ]

crc @lengthOf(
	len ) `u8 x,`
	, }

")).
Eval vm_compute in ("<<<M1627>>>" ++ check (runes_of_ascii "packet A {
    match k as n {
        [
            1, 22, 007, 4, 5,
            66, 7
        ] : B,
        2 : C,
    },
}")).
Eval vm_compute in ("<<<M657>>>" ++ check (runes_of_ascii "MetaData
    // trailing space 
    matchKey
{ u64 chars // a //'1' b
,char[] lengthOf `// not a comment`
    , //	t
}")).
Eval vm_compute in ("<<<M969>>>" ++ check (runes_of_ascii "packet A {
    match k as n {
        ""x\
y"" : B,
        [""x\
y"", 1] : C,
        [1,2,3,4,5,""x\
y""] : D,
    },
}")).
Eval vm_compute in ("<<<M636>>>" ++ check (runes_of_ascii "MetaData
    // trailing space 
    matchKey
{ u64 chars // a // b
,char[] lengthOf `// not a comment`
    , //	t
")).
Eval vm_compute in ("<<<M1727>>>" ++ check (runes_of_ascii "packet Pad {
}

packet options1 {
    // trailing space 
}

// @lengthOf(
root packet crc {
    repeat crc len,
}")).
Eval vm_compute in ("<<<M222>>>" ++ check (runes_of_ascii "MetaData float { }  options {
msg_type=""a	b""
    i8i8	= true stringy = ""CRC32""
    } options { len
= ""\" ++ [233]%N ++ runes_of_ascii """ }")).
Eval vm_compute in ("<<<M1530>>>" ++ check (runes_of_ascii "MetaData Pad {
    int64 roots,
    body u128,
    float64 x,
    int32 chars,
    A options1 `
    `,
}")).
Eval vm_compute in ("<<<M1277>>>" ++ check (runes_of_ascii "packet calculatedFrom { @tag( 4294967296 ) u msg_type , char[ 3 ] crc // c
@lengthOf( len ) `u8 x,` , }")).
Eval vm_compute in ("<<<M1877>>>" ++ check (runes_of_ascii "packet o {
    @tag(42)
    repeat x {
        char[0123456789] i64_,
    },
    // c
}

options {
}")).
Eval vm_compute in ("<<<M1356>>>" ++ check (runes_of_ascii "packet B {
    u8 a,
    string s,
}
root packet P {
    u16 L @lengthOf(B),
    B,
    u8 t,
}
")).
Eval vm_compute in ("<<<M1155>>>" ++ check (runes_of_ascii "packet Logon { @tag( 42 ) @rightPad ( ' ' ) @leftPad ( )
// c
repeat trueish { string T , } , }")).
Eval vm_compute in ("<<<M267>>>" ++ check (runes_of_ascii "root packet repeatCount
{ @lengthOf( Foo  ) @tag( 4294967296 )
repeat f32	u8x
    , }
// c
")).
Eval vm_compute in ("<<<M1661>>>" ++ check (runes_of_ascii "
packet Inner

{

u8	a
	,
} root  packet	P

{

    Inner
    ref_obj ,  u8 x
    ,	}
")).
Eval vm_compute in ("<<<M1604>>>" ++ check (runes_of_ascii "packet A {
    match k as n {
        [1, 22, 007, 4, 5] : B,
        2 : C,
    },
}")).
Eval vm_compute in ("<<<M852>>>" ++ check (runes_of_ascii "packet A {
  match k as n {
    [1, 22, 007, 4, 5, 66, 7, 8] : B
    2 : C
  },
}")).
Eval vm_compute in ("<<<M1238>>>" ++ check (runes_of_ascii "packet o { @tag( 42 ) repeat x { char[ 0123456789 ] i64_ , } , // c
} options { }")).
Eval vm_compute in ("<<<M1341>>>" ++ check (runes_of_ascii "packet Inner {
    u8 a,
}
root packet P {
    repeat Inner items,
    u8 x,
}
")).
Eval vm_compute in ("<<<M332>>>" ++ check (runes_of_ascii "options
    { packetx =
    ' ' ;}options {	falsey =
// " ++ [128512]%N ++ runes_of_ascii " emoji
// c
00 ; }")).
Eval vm_compute in ("<<<M146>>>" ++ check (runes_of_ascii "// `tick` ""quote"" 'q'
options { leftPad =float32
} root
packet o
{ }
")).
Eval vm_compute in ("<<<M1320>>>" ++ check (runes_of_ascii "MetaData _x { zchar[ 4294967296 ]
// c
lengthOf `// not a comment` , }")).
Eval vm_compute in ("<<<M941>>>" ++ check (runes_of_ascii "packet A {
    B b `a

b`,
    B `a

b`,
    repeat B bs `a

b`,
}")).
Eval vm_compute in ("<<<M938>>>" ++ check (runes_of_ascii "MetaData M {
    u8 x `a
    b
  c`,
    T t `a
    b
  c`,
}")).
Eval vm_compute in ("<<<M1096>>>" ++ check (runes_of_ascii "packet A {
    match k as n {
        1 : B,// c
    },
}")).
Eval vm_compute in ("<<<M195>>>" ++ check (runes_of_ascii "root
packet
// packet A { u8 x, }
//	t
Z9_ {
}
")).
Eval vm_compute in ("<<<M1121>>>" ++ check (runes_of_ascii "MetaData zchar { zchar[ 3 ] Pad , }
// c
")).
Eval vm_compute in ("<<<M1066>>>" ++ check (runes_of_ascii "packet A {    u8 x, // c    u8 y,}")).
Eval vm_compute in ("<<<M1576>>>" ++ check (runes_of_ascii "packet A {
    u8 x `d x`,// c x
}")).
Eval vm_compute in ("<<<M268>>>" ++ check (runes_of_ascii "options { // " ++ [27880; 37322]%N ++ runes_of_ascii "
T
=int64  }
")).
Eval vm_compute in ("<<<M1765>>>" ++ check (runes_of_ascii "options
{u8x

= // c
  3	} ")).
Eval vm_compute in ("<<<M1186>>>" ++ check (runes_of_ascii "options
// c
{ u8x = 3 }")).
Eval vm_compute in ("<<<M1068>>>" ++ check (runes_of_ascii "// a// bpacket A {}")).
Eval vm_compute in ("<<<M995>>>" ++ check (runes_of_ascii "packet A {
}
// c" ++ [5760]%N)).
Eval vm_compute in ("<<<M759>>>" ++ check (runes_of_ascii "root 007 ; repeat")).
Eval vm_compute in ("<<<M748>>>" ++ check ([28; 65533; 65533]%N ++ runes_of_ascii "`" ++ [65533; 65533; 65533; 65533; 31; 65533]%N ++ runes_of_ascii "1" ++ [65533; 65533]%N)).
Eval vm_compute in ("<<<M994>>>" ++ check (runes_of_ascii "// c" ++ [5760]%N)).
