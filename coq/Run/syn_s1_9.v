From FP Require Import Lexer Parser ShowPT Digest.
From Coq Require Import String List NArith.
Import ListNotations.
Open Scope string_scope.
Set Printing Width 100000000.
Set Printing Depth 100000000.
Definition nl : string := String (Ascii.ascii_of_nat 10) EmptyString.
Definition model_lex (rs : list rune) : string := show_toks (lex rs).
Definition model_parse (rs : list rune) : string :=
  show_pt (match lex rs with Some ts => parse ts | None => None end).
(* coqc is slow at printing long strings: digests first (Digest.v), full texts on demand *)
Definition check (rs : list rune) : string :=
  digest (model_lex rs) ++ " " ++ digest (model_parse rs).
Definition full (rs : list rune) : string := model_lex rs ++ nl ++ model_parse rs.
Definition terms (ts : list tok) (t : pt) : string :=
  digest (show_toks (Some ts)) ++ " " ++ digest (show_pt (Some t)) ++ " " ++ digest (show_pt (parse ts)).
Definition terms_full (ts : list tok) (t : pt) : string :=
  show_toks (Some ts) ++ nl ++ show_pt (Some t) ++ nl ++ show_pt (parse ts).
Eval vm_compute in ("<<<M9>>>" ++ check (runes_of_ascii "options
    {
As= ""1"" ; matchKey = 0123456789 options1
    =
0123456789 ;// a // b
asx// c
=
    ""CRC32"" ;
    tag =00;
}// trailing space 
packet
matchKey { @calculatedFrom(
    ""abc""	) int32 repeatCount ,
}
")).
Eval vm_compute in ("<<<M19>>>" ++ check (runes_of_ascii "// packet A { u8 x, }
options{lengthOf= 255 // " ++ [27880; 37322]%N ++ runes_of_ascii "
; /// triple
}packet MetaDataX {int32  body
, }")).
Eval vm_compute in ("<<<M29>>>" ++ check (runes_of_ascii "packet
tag { repeat
    //
    T MetaDataX
    , @calculatedFrom(
//
/// triple
""`tick`""  ) @tag( 007 ) leftPad `tab	here` , @tag( 0123456789  )
char x , @tag(0 ) u64 tag
    ,
i8 roots
    // a // b
    ,
    @lengthOf(
float ) @tag( 10 )
// c
// `tick` ""quote"" 'q'
body { chars
{repeat int8  body , }  , repeat Header {char[]
    leftPad	, },	match  Logon as zchar  { 4294967296 :
    len , ""a\""b"":A //
00
: x_y_z,
} , repeat i16	options1
, }
    , @calculatedFrom( """ ++ [128512]%N ++ runes_of_ascii """)@rightPad ( '0'
) i16 Pad , //
int64
    As @lengthOf(
crc ) , } MetaData x_y_z {u crc
, } root packet
Z9_{ @calculatedFrom( ""{,}"" ) tag, @lengthOf( lengthOf ) zchar[  42 ] crc //x
`" ++ [233]%N ++ runes_of_ascii "`
// a // b
// @lengthOf(
, char[ 007 ] options1 ,
}packet
    // `tick` ""quote"" 'q'
    x {char	trueish
    ,	char[] packetx @calculatedFrom(""" ++ [28040; 24687]%N ++ runes_of_ascii """)
    `line1
line2` ,  zchar[
1
    ]
    Foo // " ++ [128512]%N ++ runes_of_ascii " emoji
, zchar[ 00 ]
A , match msg_type as tag { """" : leftPad , [ """ ++ [128512]%N ++ runes_of_ascii """ ,
    0 ,10
    ,  3//	t
] :
Z9_,  ""it's"":	float , 10 : calculatedFrom ""x y"" // @lengthOf(
:
    f32a
    007	: roots
    , } // `tick` ""quote"" 'q'
,} packet
    u{ // trailing space 
@calculatedFrom( ""\n"" ) @calculatedFrom( ""a\""b"" )	i64_
rootA , match // @lengthOf(
x as Logon {
    1
:
    body,
""a\\"" /// triple
: _x ""packet"" : BodyLength,
},
    //x
    @rightPad ( '\x00'//x
) @calculatedFrom( """ ++ [128512]%N ++ runes_of_ascii """ )	repeat stringy { match
//x
// packet A { u8 x, }
T as float { ""a\\"" : len
    0:
BodyLength , [ ""it's""
, ""{,}"" , 255 // a // b
, 0123456789, ""a\\"" ] :
    Logon, 3:rootA
    // " ++ [27880; 37322]%N ++ runes_of_ascii "
    ,
    }
//
// packet A { u8 x, }
,
} ,//
u16 uint8x `{ , }`,
// trailing space 
//x
@leftPad
    // a // b
    (
'0' )  string i64_@lengthOf(  stringy  ),
// `tick` ""quote"" 'q'
// @lengthOf(
u64 leftPad@calculatedFrom( // " ++ [27880; 37322]%N ++ runes_of_ascii "
""a	b"" ) , repeat // @lengthOf(
Header MetaDataX `a\`
, @lengthOf(stringy
    )	Packet
leftPad , @tag( 00 ) repeat zchar _x `tab	here` , i32	matchKey , }
")).
Eval vm_compute in ("<<<M39>>>" ++ check (runes_of_ascii "  packet
    i64_
    {
    Z9_ @lengthOf(
charz)	`doc`
    , Pad {  body @lengthOf( string_ ) //
`say ""hi""`	, uint64 metadata@lengthOf(Logon )`say ""hi""` ,
    zchar[ 3
    ] f32a`{ , }` ,repeat uint8	leftPad
/// triple
/// triple
,  }
,char[] _x @lengthOf( As)
    `
` ,  char[ 65535
    ]matchKey  `// not a comment`
,}")).
Eval vm_compute in ("<<<M49>>>" ++ check (runes_of_ascii "options
{ options1= uint64 ;	}
root packet /// triple
T {MetaDataX//x
`// not a comment` , } packet crc {}
")).
Eval vm_compute in ("<<<M59>>>" ++ check (runes_of_ascii "root
packet string_{ i32 uint8x @calculatedFrom( ""\" ++ [233]%N ++ runes_of_ascii """ ) , body ,@tag(// a // b
0  ) Z9_
    @calculatedFrom(
""" ++ [28040; 24687]%N ++ runes_of_ascii """),
@lengthOf( stringy	)  falsey
    { repeat trueish { u64 i8i8 , }
,  } ,
char[] leftPad
@lengthOf( falsey
    // c
    ),	@calculatedFrom(	""a	b""
    )
//x
// " ++ [27880; 37322]%N ++ runes_of_ascii "
char[]  BodyLength,//x
match
falsey as crc{255 :falsey ,[
//x
// @lengthOf(
7,7] // @lengthOf(
:
//
//x
crc, ""a	b""// `tick` ""quote"" 'q'
: i8i8,255  : a1
, } ,Logon@lengthOf( _x // `tick` ""quote"" 'q'
)
, match	lengthOf as  o{ ""packet"" :	x_y_z ,} , } options
{
//	t
// `tick` ""quote"" 'q'
calculatedFrom
=
""// no comment""  ;
    x
    ='\x00' a1
= ""abc"" ; x_y_z=
65535 ; } packet Foo
{ } packet o { }")).
Eval vm_compute in ("<<<M69>>>" ++ check (runes_of_ascii "packet lengthOf {// c
} root packet
asx { u32 Z9_
`say ""hi""` ,
@tag( 007
    )match
    u8x as Logon {
    [ ""abc""	]: tag,0123456789 : tag,  """ ++ [233]%N ++ runes_of_ascii "t" ++ [233]%N ++ runes_of_ascii """ : int
    ,
""`tick`"" : options1 , } ,@leftPad
( )  repeat
string  tag
    ,falsey `// not a comment` ,
}
")).
Eval vm_compute in ("<<<T69>>>" ++ terms [mkTok 35 "packet" 1 0 false; mkTok 42 "lengthOf" 1 7 false; mkTok 2 "{" 1 16 false; mkTok 44 "// c" 1 17 true; mkTok 3 "}" 2 0 false; mkTok 34 "root" 2 2 false; mkTok 35 "packet" 2 7 false; mkTok 42 "asx" 3 0 false; mkTok 2 "{" 3 4 false; mkTok 22 "u32" 3 6 false; mkTok 42 "Z9_" 3 10 false; mkTok 43 "`say ""hi""`" 4 0 false; mkTok 40 "," 4 11 false; mkTok 9 "@tag(" 5 0 false; mkTok 30 "007" 5 6 false; mkTok 6 ")" 6 4 false; mkTok 38 "match" 6 5 false; mkTok 42 "u8x" 7 4 false; mkTok 17 "as" 7 8 false; mkTok 42 "Logon" 7 11 false; mkTok 2 "{" 7 17 false; mkTok 18 "[" 8 4 false; mkTok 31 """abc""" 8 6 false; mkTok 13 "]" 8 12 false; mkTok 39 ":" 8 13 false; mkTok 42 "tag" 8 15 false; mkTok 40 "," 8 18 false; mkTok 30 "0123456789" 8 19 false; mkTok 39 ":" 8 30 false; mkTok 42 "tag" 8 32 false; mkTok 40 "," 8 35 false; mkTok 31 (string_of_bytes [34; 195; 169; 116; 195; 169; 34]%N) 8 38 false; mkTok 39 ":" 8 44 false; mkTok 42 "int" 8 46 false; mkTok 40 "," 9 4 false; mkTok 31 """`tick`""" 10 0 false; mkTok 39 ":" 10 9 false; mkTok 42 "options1" 10 11 false; mkTok 40 "," 10 20 false; mkTok 3 "}" 10 22 false; mkTok 40 "," 10 24 false; mkTok 32 "@leftPad" 10 25 false; mkTok 8 "(" 11 0 false; mkTok 6 ")" 11 2 false; mkTok 36 "repeat" 11 5 false; mkTok 15 "string" 12 0 false; mkTok 42 "tag" 12 8 false; mkTok 40 "," 13 4 false; mkTok 42 "falsey" 13 5 false; mkTok 43 "`// not a comment`" 13 12 false; mkTok 40 "," 13 31 false; mkTok 3 "}" 14 0 false; mkTok 0 "<EOF>" 15 0 false] (mkPacket (mkPtok 35 "packet" 1 0 0) (Some (mkPtok 3 "}" 14 0 51)) [(DPacket (mkPacketDef (mkSpan (mkPtok 35 "packet" 1 0 0) (mkPtok 3 "}" 2 0 4)) None (mkPtok 35 "packet" 1 0 0) (mkPtok 42 "lengthOf" 1 7 1) (mkPtok 2 "{" 1 16 2) [] (mkPtok 3 "}" 2 0 4))); (DPacket (mkPacketDef (mkSpan (mkPtok 34 "root" 2 2 5) (mkPtok 3 "}" 14 0 51)) (Some (mkPtok 34 "root" 2 2 5)) (mkPtok 35 "packet" 2 7 6) (mkPtok 42 "asx" 3 0 7) (mkPtok 2 "{" 3 4 8) [(mkFieldWithAttr (mkSpan (mkPtok 22 "u32" 3 6 9) (mkPtok 40 "," 4 11 12)) [] (MetaField (mkSpan (mkPtok 22 "u32" 3 6 9) (mkPtok 40 "," 4 11 12)) None (mkMetaDecl (mkSpan (mkPtok 22 "u32" 3 6 9) (mkPtok 40 "," 4 11 12)) (TyBasic (mkSpan (mkPtok 22 "u32" 3 6 9) (mkPtok 22 "u32" 3 6 9)) (mkBasicType (mkSpan (mkPtok 22 "u32" 3 6 9) (mkPtok 22 "u32" 3 6 9)) (mkPtok 22 "u32" 3 6 9))) (mkPtok 42 "Z9_" 3 10 10) (Some (mkPtok 43 "`say ""hi""`" 4 0 11)) (mkPtok 40 "," 4 11 12)))); (mkFieldWithAttr (mkSpan (mkPtok 9 "@tag(" 5 0 13) (mkPtok 40 "," 10 24 40)) [(FATag (mkSpan (mkPtok 9 "@tag(" 5 0 13) (mkPtok 6 ")" 6 4 15)) (mkTagAttr (mkSpan (mkPtok 9 "@tag(" 5 0 13) (mkPtok 6 ")" 6 4 15)) (mkPtok 9 "@tag(" 5 0 13) (mkPtok 30 "007" 5 6 14) (mkPtok 6 ")" 6 4 15)))] (MatchField (mkSpan (mkPtok 38 "match" 6 5 16) (mkPtok 40 "," 10 24 40)) (mkMatchFieldDecl (mkSpan (mkPtok 38 "match" 6 5 16) (mkPtok 3 "}" 10 22 39)) (mkPtok 38 "match" 6 5 16) (mkPtok 42 "u8x" 7 4 17) (mkPtok 17 "as" 7 8 18) (mkPtok 42 "Logon" 7 11 19) (mkPtok 2 "{" 7 17 20) [(mkMatchPair (mkSpan (mkPtok 18 "[" 8 4 21) (mkPtok 40 "," 8 18 26)) (MKList (mkKeyList (mkSpan (mkPtok 18 "[" 8 4 21) (mkPtok 13 "]" 8 12 23)) (mkPtok 18 "[" 8 4 21) (mkPtok 31 """abc""" 8 6 22) [] (mkPtok 13 "]" 8 12 23))) (mkPtok 39 ":" 8 13 24) (mkPtok 42 "tag" 8 15 25) (Some (mkPtok 40 "," 8 18 26))); (mkMatchPair (mkSpan (mkPtok 30 "0123456789" 8 19 27) (mkPtok 40 "," 8 35 30)) (MKDigits (mkPtok 30 "0123456789" 8 19 27)) (mkPtok 39 ":" 8 30 28) (mkPtok 42 "tag" 8 32 29) (Some (mkPtok 40 "," 8 35 30))); (mkMatchPair (mkSpan (mkPtok 31 (string_of_bytes [34; 195; 169; 116; 195; 169; 34]%N) 8 38 31) (mkPtok 40 "," 9 4 34)) (MKString (mkPtok 31 (string_of_bytes [34; 195; 169; 116; 195; 169; 34]%N) 8 38 31)) (mkPtok 39 ":" 8 44 32) (mkPtok 42 "int" 8 46 33) (Some (mkPtok 40 "," 9 4 34))); (mkMatchPair (mkSpan (mkPtok 31 """`tick`""" 10 0 35) (mkPtok 40 "," 10 20 38)) (MKString (mkPtok 31 """`tick`""" 10 0 35)) (mkPtok 39 ":" 10 9 36) (mkPtok 42 "options1" 10 11 37) (Some (mkPtok 40 "," 10 20 38)))] (mkPtok 3 "}" 10 22 39)) (mkPtok 40 "," 10 24 40))); (mkFieldWithAttr (mkSpan (mkPtok 32 "@leftPad" 10 25 41) (mkPtok 40 "," 13 4 47)) [(FAPadding (mkSpan (mkPtok 32 "@leftPad" 10 25 41) (mkPtok 6 ")" 11 2 43)) (mkPaddingAttr (mkSpan (mkPtok 32 "@leftPad" 10 25 41) (mkPtok 6 ")" 11 2 43)) (mkPtok 32 "@leftPad" 10 25 41) (mkPtok 8 "(" 11 0 42) None (mkPtok 6 ")" 11 2 43)))] (MetaField (mkSpan (mkPtok 36 "repeat" 11 5 44) (mkPtok 40 "," 13 4 47)) (Some (mkPtok 36 "repeat" 11 5 44)) (mkMetaDecl (mkSpan (mkPtok 15 "string" 12 0 45) (mkPtok 40 "," 13 4 47)) (TyDynamic (mkSpan (mkPtok 15 "string" 12 0 45) (mkPtok 15 "string" 12 0 45)) (mkDynamicString (mkSpan (mkPtok 15 "string" 12 0 45) (mkPtok 15 "string" 12 0 45)) (mkPtok 15 "string" 12 0 45))) (mkPtok 42 "tag" 12 8 46) None (mkPtok 40 "," 13 4 47)))); (mkFieldWithAttr (mkSpan (mkPtok 42 "falsey" 13 5 48) (mkPtok 40 "," 13 31 50)) [] (ObjectField (mkSpan (mkPtok 42 "falsey" 13 5 48) (mkPtok 40 "," 13 31 50)) None (mkPtok 42 "falsey" 13 5 48) None (Some (mkPtok 43 "`// not a comment`" 13 12 49)) (mkPtok 40 "," 13 31 50)))] (mkPtok 3 "}" 14 0 51)))])).
Eval vm_compute in ("<<<M79>>>" ++ check (runes_of_ascii "  options
{  T
= ' ' }
MetaData Pad
    //x
    {
string_ u128  , u64 // @lengthOf(
uint8x `two words` , int8 repeatCount
, }
    packet
len{
    Packet
    `
`
,@calculatedFrom( ""a\""b""
) zchar[
    42 ]
rootA ,
    @calculatedFrom(
""packet"" )
@calculatedFrom( ""\n"" ) Packet @calculatedFrom( ""\" ++ [233]%N ++ runes_of_ascii """  )
    `" ++ [28040; 24687; 31867; 22411]%N ++ runes_of_ascii "`, @leftPad
    (
    '\x00' )
@leftPad (	)
@rightPad (
)
repeat string_
    {match asx // c
as rootA {[
""`tick`"",65535	]:
falsey ,} , trueish
, char Z9_`// not a comment` ,
    Packet Logon `{ , }`, } ,@tag( 1 )
    match x as pack//	t
{
1 :stringy // `tick` ""quote"" 'q'
, [	42 ]:  x }  ,
repeat//x
i8 u8x , @calculatedFrom(""packet"") string_ // c
@lengthOf( rootA ),	falsey
@lengthOf( x )
,} options
{}
root packet u { @lengthOf(x_y_z )	u
    @calculatedFrom( """"
)
`two words`, }")).
Eval vm_compute in ("<<<M89>>>" ++ check (runes_of_ascii "
MetaData f32a { char[ 42
    ] zchar
, //x
}")).
Eval vm_compute in ("<<<M99>>>" ++ check (runes_of_ascii "packet len {
@tag( 255  ) repeat // packet A { u8 x, }
zchar[ 007] roots
, leftPad { //	t
f32 calculatedFrom , f32
    lengthOf , u32 calculatedFrom , } ,
x//	t
x
    ,} MetaData u128 {
A i8i8 `two words` ,}
")).
Eval vm_compute in ("<<<M109>>>" ++ check (runes_of_ascii "packet
uint8x {match Pad as// " ++ [128512]%N ++ runes_of_ascii " emoji
repeatCount{ [0 ] :
lengthOf ,[""// no comment"" ] :
metadata ,} , metadata
// trailing space 
//
, zchar[/// triple
1
] trueish//	t
, @calculatedFrom(""a\""b"" ) match//x
roots as f32a { 4294967296
: i64_ , ""it's""
: a1 , [
    // trailing space 
    00	,
    0123456789 ] : As ,
255 : Packet , ""{,}"" :
T/// triple
0
    :
falsey } ,
    body @calculatedFrom( ""\n""
    // trailing space 
    ) , @calculatedFrom( """ ++ [128512]%N ++ runes_of_ascii """ )	@tag(
10 ) char[ 10 ]
    trueish `doc` ,	@tag( 255 ) repeat
    Z9_ { asx chars`// not a comment` , } , @lengthOf(Packet ) u16
    crc , }
    // `tick` ""quote"" 'q'
    options
{ BodyLength =
    i32 ; x// " ++ [128512]%N ++ runes_of_ascii " emoji
=
255
    ; u= 3 } options
{ }
packet
    calculatedFrom {	}
    //x
    root
packet Header {
    Pad {
repeatCount ,  uint16 zchar , match msg_type
as
pack
    /// triple
    {	""abc"" : repeatCount , ""{,}"" : repeatCount""a	b""	: calculatedFrom},
repeat string
Logon `a\` , }
,@lengthOf( x_y_z
    ) match
tag as repeatCount { 007 :  BodyLength , [
    //	t
    """ ++ [28040; 24687]%N ++ runes_of_ascii """ ] :
BodyLength 42: string_ ""// no comment""
// trailing space 
/// triple
: //
Z9_ , 4294967296:
    // " ++ [128512]%N ++ runes_of_ascii " emoji
    _x
    } , f64 u `it's` , zchar[ 00] f32a `doc` ,match
    i64_
    as Logon
    { 4294967296// a // b
:
metadata ,
}
, char[1 ]Pad
, zchar[  0123456789 ] float // @lengthOf(
`` , }

")).
Eval vm_compute in ("<<<M119>>>" ++ check (runes_of_ascii "packet BodyLength {  @tag(
0 )
    char[
4294967296 ]
    options1 , }
    root packet asx{ repeat string //x
zchar //	t
,
    repeat char string_ `" ++ [28040; 24687; 31867; 22411]%N ++ runes_of_ascii "` ,
    } options{ rootA = zchar[ 00
] ;len = ""a\""b"" ; float =7;uint8x= f64 ;// `tick` ""quote"" 'q'
}root packet
    stringy{trueish Foo , } packet
pack{ u64
// @lengthOf(
// c
repeatCount @lengthOf( Header
    ) ,
}

")).
Eval vm_compute in ("<<<M129>>>" ++ check (runes_of_ascii "
root packet crc{ u16	Z9_ `tab	here`,
repeat rootA,
    // trailing space 
    }
packet leftPad	{ @rightPad( )
    @tag(  0 // a // b
)repeat	i16 As `doc` , } MetaData  body // a // b
{x f32a,  }
// c
")).
Eval vm_compute in ("<<<M139>>>" ++ check (runes_of_ascii "root packet x_y_z { match Z9_ as  u{ 255:pack , 255 : u128
, 007 : float ""\n"" :options1 , [	""" ++ [28040; 24687]%N ++ runes_of_ascii """ , 1 ]
: Z9_""" ++ [28040; 24687]%N ++ runes_of_ascii """:	chars
, }, u8 _x @calculatedFrom(
    // a // b
    """ ++ [28040; 24687]%N ++ runes_of_ascii """ )`say ""hi""` ,@tag( 3 ) match a1 as msg_type { [ ""\n"" // a // b
, 255//x
, 0 ] :crc	,} , }
root packet o
{  match tag as _x
    { 007 :
    x ,	10 :charz,
""{,}""
:body	,""" ++ [233]%N ++ runes_of_ascii "t" ++ [233]%N ++ runes_of_ascii """ : len
""" ++ [128512]%N ++ runes_of_ascii """
    :
    u , }
    ,
    u64 u @calculatedFrom( ""x y""
// c
// " ++ [27880; 37322]%N ++ runes_of_ascii "
)
`it's`, @lengthOf( trueish ) repeat // packet A { u8 x, }
uint8 u8x
`" ++ [28040; 24687; 31867; 22411]%N ++ runes_of_ascii "` // a // b
, @calculatedFrom(	""\n"" )
    @rightPad() @leftPad (
    '\x00')
    repeat uint32 float, @lengthOf(	A )
    @tag(//	t
0123456789 ) @rightPad ( ' '
    ) zchar[ 10	]
    // " ++ [128512]%N ++ runes_of_ascii " emoji
    o// packet A { u8 x, }
,
    uint8x
    @calculatedFrom( ""a\\"" // " ++ [27880; 37322]%N ++ runes_of_ascii "
) `
`
,body
, repeat //	t
char[10 ]
    string_ `tab	here`
    , } root packet
    roots {  } packet u {@calculatedFrom(	""" ++ [128512]%N ++ runes_of_ascii """ )	f64 Logon// `tick` ""quote"" 'q'
@calculatedFrom( ""1""
)
    `a\` ,  int16 trueish `line1
line2`
,//
zchar[  0123456789 ]
    // a // b
    BodyLength `two words`, float32 i8i8 @lengthOf( metadata ) `// not a comment`
, i32 leftPad,	}

")).
Eval vm_compute in ("<<<T139>>>" ++ terms [mkTok 34 "root" 1 0 false; mkTok 35 "packet" 1 5 false; mkTok 42 "x_y_z" 1 12 false; mkTok 2 "{" 1 18 false; mkTok 38 "match" 1 20 false; mkTok 42 "Z9_" 1 26 false; mkTok 17 "as" 1 30 false; mkTok 42 "u" 1 34 false; mkTok 2 "{" 1 35 false; mkTok 30 "255" 1 37 false; mkTok 39 ":" 1 40 false; mkTok 42 "pack" 1 41 false; mkTok 40 "," 1 46 false; mkTok 30 "255" 1 48 false; mkTok 39 ":" 1 52 false; mkTok 42 "u128" 1 54 false; mkTok 40 "," 2 0 false; mkTok 30 "007" 2 2 false; mkTok 39 ":" 2 6 false; mkTok 42 "float" 2 8 false; mkTok 31 """\n""" 2 14 false; mkTok 39 ":" 2 19 false; mkTok 42 "options1" 2 20 false; mkTok 40 "," 2 29 false; mkTok 18 "[" 2 31 false; mkTok 31 (string_of_bytes [34; 230; 182; 136; 230; 129; 175; 34]%N) 2 33 false; mkTok 40 "," 2 38 false; mkTok 30 "1" 2 40 false; mkTok 13 "]" 2 42 false; mkTok 39 ":" 3 0 false; mkTok 42 "Z9_" 3 2 false; mkTok 31 (string_of_bytes [34; 230; 182; 136; 230; 129; 175; 34]%N) 3 5 false; mkTok 39 ":" 3 9 false; mkTok 42 "chars" 3 11 false; mkTok 40 "," 4 0 false; mkTok 3 "}" 4 2 false; mkTok 40 "," 4 3 false; mkTok 20 "u8" 4 5 false; mkTok 42 "_x" 4 8 false; mkTok 5 "@calculatedFrom(" 4 11 false; mkTok 44 "// a // b" 5 4 true; mkTok 31 (string_of_bytes [34; 230; 182; 136; 230; 129; 175; 34]%N) 6 4 false; mkTok 6 ")" 6 9 false; mkTok 43 "`say ""hi""`" 6 10 false; mkTok 40 "," 6 21 false; mkTok 9 "@tag(" 6 22 false; mkTok 30 "3" 6 28 false; mkTok 6 ")" 6 30 false; mkTok 38 "match" 6 32 false; mkTok 42 "a1" 6 38 false; mkTok 17 "as" 6 41 false; mkTok 42 "msg_type" 6 44 false; mkTok 2 "{" 6 53 false; mkTok 18 "[" 6 55 false; mkTok 31 """\n""" 6 57 false; mkTok 44 "// a // b" 6 62 true; mkTok 40 "," 7 0 false; mkTok 30 "255" 7 2 false; mkTok 44 "//x" 7 5 true; mkTok 40 "," 8 0 false; mkTok 30 "0" 8 2 false; mkTok 13 "]" 8 4 false; mkTok 39 ":" 8 6 false; mkTok 42 "crc" 8 7 false; mkTok 40 "," 8 11 false; mkTok 3 "}" 8 12 false; mkTok 40 "," 8 14 false; mkTok 3 "}" 8 16 false; mkTok 34 "root" 9 0 false; mkTok 35 "packet" 9 5 false; mkTok 42 "o" 9 12 false; mkTok 2 "{" 10 0 false; mkTok 38 "match" 10 3 false; mkTok 42 "tag" 10 9 false; mkTok 17 "as" 10 13 false; mkTok 42 "_x" 10 16 false; mkTok 2 "{" 11 4 false; mkTok 30 "007" 11 6 false; mkTok 39 ":" 11 10 false; mkTok 42 "x" 12 4 false; mkTok 40 "," 12 6 false; mkTok 30 "10" 12 8 false; mkTok 39 ":" 12 11 false; mkTok 42 "charz" 12 12 false; mkTok 40 "," 12 17 false; mkTok 31 """{,}""" 13 0 false; mkTok 39 ":" 14 0 false; mkTok 42 "body" 14 1 false; mkTok 40 "," 14 6 false; mkTok 31 (string_of_bytes [34; 195; 169; 116; 195; 169; 34]%N) 14 7 false; mkTok 39 ":" 14 13 false; mkTok 42 "len" 14 15 false; mkTok 31 (string_of_bytes [34; 240; 159; 152; 128; 34]%N) 15 0 false; mkTok 39 ":" 16 4 false; mkTok 42 "u" 17 4 false; mkTok 40 "," 17 6 false; mkTok 3 "}" 17 8 false; mkTok 40 "," 18 4 false; mkTok 23 "u64" 19 4 false; mkTok 42 "u" 19 8 false; mkTok 5 "@calculatedFrom(" 19 10 false; mkTok 31 """x y""" 19 27 false; mkTok 44 "// c" 20 0 true; mkTok 44 (string_of_bytes [47; 47; 32; 230; 179; 168; 233; 135; 138]%N) 21 0 true; mkTok 6 ")" 22 0 false; mkTok 43 "`it's`" 23 0 false; mkTok 40 "," 23 6 false; mkTok 7 "@lengthOf(" 23 8 false; mkTok 42 "trueish" 23 19 false; mkTok 6 ")" 23 27 false; mkTok 36 "repeat" 23 29 false; mkTok 44 "// packet A { u8 x, }" 23 36 true; mkTok 20 "uint8" 24 0 false; mkTok 42 "u8x" 24 6 false; mkTok 43 (string_of_bytes [96; 230; 182; 136; 230; 129; 175; 231; 177; 187; 229; 158; 139; 96]%N) 25 0 false; mkTok 44 "// a // b" 25 7 true; mkTok 40 "," 26 0 false; mkTok 5 "@calculatedFrom(" 26 2 false; mkTok 31 """\n""" 26 19 false; mkTok 6 ")" 26 24 false; mkTok 32 "@rightPad" 27 4 false; mkTok 8 "(" 27 13 false; mkTok 6 ")" 27 14 false; mkTok 32 "@leftPad" 27 16 false; mkTok 8 "(" 27 25 false; mkTok 33 "'\x00'" 28 4 false; mkTok 6 ")" 28 10 false; mkTok 36 "repeat" 29 4 false; mkTok 22 "uint32" 29 11 false; mkTok 42 "float" 29 18 false; mkTok 40 "," 29 23 false; mkTok 7 "@lengthOf(" 29 25 false; mkTok 42 "A" 29 36 false; mkTok 6 ")" 29 38 false; mkTok 9 "@tag(" 30 4 false; mkTok 44 (string_of_bytes [47; 47; 9; 116]%N) 30 9 true; mkTok 30 "0123456789" 31 0 false; mkTok 6 ")" 31 11 false; mkTok 32 "@rightPad" 31 13 false; mkTok 8 "(" 31 23 false; mkTok 33 "' '" 31 25 false; mkTok 6 ")" 32 4 false; mkTok 14 "zchar[" 32 6 false; mkTok 30 "10" 32 13 false; mkTok 13 "]" 32 16 false; mkTok 44 (string_of_bytes [47; 47; 32; 240; 159; 152; 128; 32; 101; 109; 111; 106; 105]%N) 33 4 true; mkTok 42 "o" 34 4 false; mkTok 44 "// packet A { u8 x, }" 34 5 true; mkTok 40 "," 35 0 false; mkTok 42 "uint8x" 36 4 false; mkTok 5 "@calculatedFrom(" 37 4 false; mkTok 31 """a\\""" 37 21 false; mkTok 44 (string_of_bytes [47; 47; 32; 230; 179; 168; 233; 135; 138]%N) 37 27 true; mkTok 6 ")" 38 0 false; mkTok 43 (string_of_bytes [96; 10; 96]%N) 38 2 false; mkTok 40 "," 40 0 false; mkTok 42 "body" 40 1 false; mkTok 40 "," 41 0 false; mkTok 36 "repeat" 41 2 false; mkTok 44 (string_of_bytes [47; 47; 9; 116]%N) 41 9 true; mkTok 12 "char[" 42 0 false; mkTok 30 "10" 42 5 false; mkTok 13 "]" 42 8 false; mkTok 42 "string_" 43 4 false; mkTok 43 (string_of_bytes [96; 116; 97; 98; 9; 104; 101; 114; 101; 96]%N) 43 12 false; mkTok 40 "," 44 4 false; mkTok 3 "}" 44 6 false; mkTok 34 "root" 44 8 false; mkTok 35 "packet" 44 13 false; mkTok 42 "roots" 45 4 false; mkTok 2 "{" 45 10 false; mkTok 3 "}" 45 13 false; mkTok 35 "packet" 45 15 false; mkTok 42 "u" 45 22 false; mkTok 2 "{" 45 24 false; mkTok 5 "@calculatedFrom(" 45 25 false; mkTok 31 (string_of_bytes [34; 240; 159; 152; 128; 34]%N) 45 42 false; mkTok 6 ")" 45 46 false; mkTok 29 "f64" 45 48 false; mkTok 42 "Logon" 45 52 false; mkTok 44 "// `tick` ""quote"" 'q'" 45 57 true; mkTok 5 "@calculatedFrom(" 46 0 false; mkTok 31 """1""" 46 17 false; mkTok 6 ")" 47 0 false; mkTok 43 "`a\`" 48 4 false; mkTok 40 "," 48 9 false; mkTok 25 "int16" 48 12 false; mkTok 42 "trueish" 48 18 false; mkTok 43 (string_of_bytes [96; 108; 105; 110; 101; 49; 10; 108; 105; 110; 101; 50; 96]%N) 48 26 false; mkTok 40 "," 50 0 false; mkTok 44 "//" 50 1 true; mkTok 14 "zchar[" 51 0 false; mkTok 30 "0123456789" 51 8 false; mkTok 13 "]" 51 19 false; mkTok 44 "// a // b" 52 4 true; mkTok 42 "BodyLength" 53 4 false; mkTok 43 "`two words`" 53 15 false; mkTok 40 "," 53 26 false; mkTok 28 "float32" 53 28 false; mkTok 42 "i8i8" 53 36 false; mkTok 7 "@lengthOf(" 53 41 false; mkTok 42 "metadata" 53 52 false; mkTok 6 ")" 53 61 false; mkTok 43 "`// not a comment`" 53 63 false; mkTok 40 "," 54 0 false; mkTok 26 "i32" 54 2 false; mkTok 42 "leftPad" 54 6 false; mkTok 40 "," 54 13 false; mkTok 3 "}" 54 15 false; mkTok 0 "<EOF>" 56 0 false] (mkPacket (mkPtok 34 "root" 1 0 0) (Some (mkPtok 3 "}" 54 15 208)) [(DPacket (mkPacketDef (mkSpan (mkPtok 34 "root" 1 0 0) (mkPtok 3 "}" 8 16 67)) (Some (mkPtok 34 "root" 1 0 0)) (mkPtok 35 "packet" 1 5 1) (mkPtok 42 "x_y_z" 1 12 2) (mkPtok 2 "{" 1 18 3) [(mkFieldWithAttr (mkSpan (mkPtok 38 "match" 1 20 4) (mkPtok 40 "," 4 3 36)) [] (MatchField (mkSpan (mkPtok 38 "match" 1 20 4) (mkPtok 40 "," 4 3 36)) (mkMatchFieldDecl (mkSpan (mkPtok 38 "match" 1 20 4) (mkPtok 3 "}" 4 2 35)) (mkPtok 38 "match" 1 20 4) (mkPtok 42 "Z9_" 1 26 5) (mkPtok 17 "as" 1 30 6) (mkPtok 42 "u" 1 34 7) (mkPtok 2 "{" 1 35 8) [(mkMatchPair (mkSpan (mkPtok 30 "255" 1 37 9) (mkPtok 40 "," 1 46 12)) (MKDigits (mkPtok 30 "255" 1 37 9)) (mkPtok 39 ":" 1 40 10) (mkPtok 42 "pack" 1 41 11) (Some (mkPtok 40 "," 1 46 12))); (mkMatchPair (mkSpan (mkPtok 30 "255" 1 48 13) (mkPtok 40 "," 2 0 16)) (MKDigits (mkPtok 30 "255" 1 48 13)) (mkPtok 39 ":" 1 52 14) (mkPtok 42 "u128" 1 54 15) (Some (mkPtok 40 "," 2 0 16))); (mkMatchPair (mkSpan (mkPtok 30 "007" 2 2 17) (mkPtok 42 "float" 2 8 19)) (MKDigits (mkPtok 30 "007" 2 2 17)) (mkPtok 39 ":" 2 6 18) (mkPtok 42 "float" 2 8 19) None); (mkMatchPair (mkSpan (mkPtok 31 """\n""" 2 14 20) (mkPtok 40 "," 2 29 23)) (MKString (mkPtok 31 """\n""" 2 14 20)) (mkPtok 39 ":" 2 19 21) (mkPtok 42 "options1" 2 20 22) (Some (mkPtok 40 "," 2 29 23))); (mkMatchPair (mkSpan (mkPtok 18 "[" 2 31 24) (mkPtok 42 "Z9_" 3 2 30)) (MKList (mkKeyList (mkSpan (mkPtok 18 "[" 2 31 24) (mkPtok 13 "]" 2 42 28)) (mkPtok 18 "[" 2 31 24) (mkPtok 31 (string_of_bytes [34; 230; 182; 136; 230; 129; 175; 34]%N) 2 33 25) [((mkPtok 40 "," 2 38 26), (mkPtok 30 "1" 2 40 27))] (mkPtok 13 "]" 2 42 28))) (mkPtok 39 ":" 3 0 29) (mkPtok 42 "Z9_" 3 2 30) None); (mkMatchPair (mkSpan (mkPtok 31 (string_of_bytes [34; 230; 182; 136; 230; 129; 175; 34]%N) 3 5 31) (mkPtok 40 "," 4 0 34)) (MKString (mkPtok 31 (string_of_bytes [34; 230; 182; 136; 230; 129; 175; 34]%N) 3 5 31)) (mkPtok 39 ":" 3 9 32) (mkPtok 42 "chars" 3 11 33) (Some (mkPtok 40 "," 4 0 34)))] (mkPtok 3 "}" 4 2 35)) (mkPtok 40 "," 4 3 36))); (mkFieldWithAttr (mkSpan (mkPtok 20 "u8" 4 5 37) (mkPtok 40 "," 6 21 44)) [] (CheckSumField (mkSpan (mkPtok 20 "u8" 4 5 37) (mkPtok 40 "," 6 21 44)) (mkChecksumFieldDecl (mkSpan (mkPtok 20 "u8" 4 5 37) (mkPtok 40 "," 6 21 44)) (Some (TyBasic (mkSpan (mkPtok 20 "u8" 4 5 37) (mkPtok 20 "u8" 4 5 37)) (mkBasicType (mkSpan (mkPtok 20 "u8" 4 5 37) (mkPtok 20 "u8" 4 5 37)) (mkPtok 20 "u8" 4 5 37)))) (mkPtok 42 "_x" 4 8 38) (mkCalculatedFrom (mkSpan (mkPtok 5 "@calculatedFrom(" 4 11 39) (mkPtok 6 ")" 6 9 42)) (mkPtok 5 "@calculatedFrom(" 4 11 39) (mkPtok 31 (string_of_bytes [34; 230; 182; 136; 230; 129; 175; 34]%N) 6 4 41) (mkPtok 6 ")" 6 9 42)) (Some (mkPtok 43 "`say ""hi""`" 6 10 43)) (mkPtok 40 "," 6 21 44)))); (mkFieldWithAttr (mkSpan (mkPtok 9 "@tag(" 6 22 45) (mkPtok 40 "," 8 14 66)) [(FATag (mkSpan (mkPtok 9 "@tag(" 6 22 45) (mkPtok 6 ")" 6 30 47)) (mkTagAttr (mkSpan (mkPtok 9 "@tag(" 6 22 45) (mkPtok 6 ")" 6 30 47)) (mkPtok 9 "@tag(" 6 22 45) (mkPtok 30 "3" 6 28 46) (mkPtok 6 ")" 6 30 47)))] (MatchField (mkSpan (mkPtok 38 "match" 6 32 48) (mkPtok 40 "," 8 14 66)) (mkMatchFieldDecl (mkSpan (mkPtok 38 "match" 6 32 48) (mkPtok 3 "}" 8 12 65)) (mkPtok 38 "match" 6 32 48) (mkPtok 42 "a1" 6 38 49) (mkPtok 17 "as" 6 41 50) (mkPtok 42 "msg_type" 6 44 51) (mkPtok 2 "{" 6 53 52) [(mkMatchPair (mkSpan (mkPtok 18 "[" 6 55 53) (mkPtok 40 "," 8 11 64)) (MKList (mkKeyList (mkSpan (mkPtok 18 "[" 6 55 53) (mkPtok 13 "]" 8 4 61)) (mkPtok 18 "[" 6 55 53) (mkPtok 31 """\n""" 6 57 54) [((mkPtok 40 "," 7 0 56), (mkPtok 30 "255" 7 2 57)); ((mkPtok 40 "," 8 0 59), (mkPtok 30 "0" 8 2 60))] (mkPtok 13 "]" 8 4 61))) (mkPtok 39 ":" 8 6 62) (mkPtok 42 "crc" 8 7 63) (Some (mkPtok 40 "," 8 11 64)))] (mkPtok 3 "}" 8 12 65)) (mkPtok 40 "," 8 14 66)))] (mkPtok 3 "}" 8 16 67))); (DPacket (mkPacketDef (mkSpan (mkPtok 34 "root" 9 0 68) (mkPtok 3 "}" 44 6 166)) (Some (mkPtok 34 "root" 9 0 68)) (mkPtok 35 "packet" 9 5 69) (mkPtok 42 "o" 9 12 70) (mkPtok 2 "{" 10 0 71) [(mkFieldWithAttr (mkSpan (mkPtok 38 "match" 10 3 72) (mkPtok 40 "," 18 4 97)) [] (MatchField (mkSpan (mkPtok 38 "match" 10 3 72) (mkPtok 40 "," 18 4 97)) (mkMatchFieldDecl (mkSpan (mkPtok 38 "match" 10 3 72) (mkPtok 3 "}" 17 8 96)) (mkPtok 38 "match" 10 3 72) (mkPtok 42 "tag" 10 9 73) (mkPtok 17 "as" 10 13 74) (mkPtok 42 "_x" 10 16 75) (mkPtok 2 "{" 11 4 76) [(mkMatchPair (mkSpan (mkPtok 30 "007" 11 6 77) (mkPtok 40 "," 12 6 80)) (MKDigits (mkPtok 30 "007" 11 6 77)) (mkPtok 39 ":" 11 10 78) (mkPtok 42 "x" 12 4 79) (Some (mkPtok 40 "," 12 6 80))); (mkMatchPair (mkSpan (mkPtok 30 "10" 12 8 81) (mkPtok 40 "," 12 17 84)) (MKDigits (mkPtok 30 "10" 12 8 81)) (mkPtok 39 ":" 12 11 82) (mkPtok 42 "charz" 12 12 83) (Some (mkPtok 40 "," 12 17 84))); (mkMatchPair (mkSpan (mkPtok 31 """{,}""" 13 0 85) (mkPtok 40 "," 14 6 88)) (MKString (mkPtok 31 """{,}""" 13 0 85)) (mkPtok 39 ":" 14 0 86) (mkPtok 42 "body" 14 1 87) (Some (mkPtok 40 "," 14 6 88))); (mkMatchPair (mkSpan (mkPtok 31 (string_of_bytes [34; 195; 169; 116; 195; 169; 34]%N) 14 7 89) (mkPtok 42 "len" 14 15 91)) (MKString (mkPtok 31 (string_of_bytes [34; 195; 169; 116; 195; 169; 34]%N) 14 7 89)) (mkPtok 39 ":" 14 13 90) (mkPtok 42 "len" 14 15 91) None); (mkMatchPair (mkSpan (mkPtok 31 (string_of_bytes [34; 240; 159; 152; 128; 34]%N) 15 0 92) (mkPtok 40 "," 17 6 95)) (MKString (mkPtok 31 (string_of_bytes [34; 240; 159; 152; 128; 34]%N) 15 0 92)) (mkPtok 39 ":" 16 4 93) (mkPtok 42 "u" 17 4 94) (Some (mkPtok 40 "," 17 6 95)))] (mkPtok 3 "}" 17 8 96)) (mkPtok 40 "," 18 4 97))); (mkFieldWithAttr (mkSpan (mkPtok 23 "u64" 19 4 98) (mkPtok 40 "," 23 6 106)) [] (CheckSumField (mkSpan (mkPtok 23 "u64" 19 4 98) (mkPtok 40 "," 23 6 106)) (mkChecksumFieldDecl (mkSpan (mkPtok 23 "u64" 19 4 98) (mkPtok 40 "," 23 6 106)) (Some (TyBasic (mkSpan (mkPtok 23 "u64" 19 4 98) (mkPtok 23 "u64" 19 4 98)) (mkBasicType (mkSpan (mkPtok 23 "u64" 19 4 98) (mkPtok 23 "u64" 19 4 98)) (mkPtok 23 "u64" 19 4 98)))) (mkPtok 42 "u" 19 8 99) (mkCalculatedFrom (mkSpan (mkPtok 5 "@calculatedFrom(" 19 10 100) (mkPtok 6 ")" 22 0 104)) (mkPtok 5 "@calculatedFrom(" 19 10 100) (mkPtok 31 """x y""" 19 27 101) (mkPtok 6 ")" 22 0 104)) (Some (mkPtok 43 "`it's`" 23 0 105)) (mkPtok 40 "," 23 6 106)))); (mkFieldWithAttr (mkSpan (mkPtok 7 "@lengthOf(" 23 8 107) (mkPtok 40 "," 26 0 116)) [(FALengthOf (mkSpan (mkPtok 7 "@lengthOf(" 23 8 107) (mkPtok 6 ")" 23 27 109)) (mkLengthOf (mkSpan (mkPtok 7 "@lengthOf(" 23 8 107) (mkPtok 6 ")" 23 27 109)) (mkPtok 7 "@lengthOf(" 23 8 107) (mkPtok 42 "trueish" 23 19 108) (mkPtok 6 ")" 23 27 109)))] (MetaField (mkSpan (mkPtok 36 "repeat" 23 29 110) (mkPtok 40 "," 26 0 116)) (Some (mkPtok 36 "repeat" 23 29 110)) (mkMetaDecl (mkSpan (mkPtok 20 "uint8" 24 0 112) (mkPtok 40 "," 26 0 116)) (TyBasic (mkSpan (mkPtok 20 "uint8" 24 0 112) (mkPtok 20 "uint8" 24 0 112)) (mkBasicType (mkSpan (mkPtok 20 "uint8" 24 0 112) (mkPtok 20 "uint8" 24 0 112)) (mkPtok 20 "uint8" 24 0 112))) (mkPtok 42 "u8x" 24 6 113) (Some (mkPtok 43 (string_of_bytes [96; 230; 182; 136; 230; 129; 175; 231; 177; 187; 229; 158; 139; 96]%N) 25 0 114)) (mkPtok 40 "," 26 0 116)))); (mkFieldWithAttr (mkSpan (mkPtok 5 "@calculatedFrom(" 26 2 117) (mkPtok 40 "," 29 23 130)) [(FACalculatedFrom (mkSpan (mkPtok 5 "@calculatedFrom(" 26 2 117) (mkPtok 6 ")" 26 24 119)) (mkCalculatedFrom (mkSpan (mkPtok 5 "@calculatedFrom(" 26 2 117) (mkPtok 6 ")" 26 24 119)) (mkPtok 5 "@calculatedFrom(" 26 2 117) (mkPtok 31 """\n""" 26 19 118) (mkPtok 6 ")" 26 24 119))); (FAPadding (mkSpan (mkPtok 32 "@rightPad" 27 4 120) (mkPtok 6 ")" 27 14 122)) (mkPaddingAttr (mkSpan (mkPtok 32 "@rightPad" 27 4 120) (mkPtok 6 ")" 27 14 122)) (mkPtok 32 "@rightPad" 27 4 120) (mkPtok 8 "(" 27 13 121) None (mkPtok 6 ")" 27 14 122))); (FAPadding (mkSpan (mkPtok 32 "@leftPad" 27 16 123) (mkPtok 6 ")" 28 10 126)) (mkPaddingAttr (mkSpan (mkPtok 32 "@leftPad" 27 16 123) (mkPtok 6 ")" 28 10 126)) (mkPtok 32 "@leftPad" 27 16 123) (mkPtok 8 "(" 27 25 124) (Some (mkPtok 33 "'\x00'" 28 4 125)) (mkPtok 6 ")" 28 10 126)))] (MetaField (mkSpan (mkPtok 36 "repeat" 29 4 127) (mkPtok 40 "," 29 23 130)) (Some (mkPtok 36 "repeat" 29 4 127)) (mkMetaDecl (mkSpan (mkPtok 22 "uint32" 29 11 128) (mkPtok 40 "," 29 23 130)) (TyBasic (mkSpan (mkPtok 22 "uint32" 29 11 128) (mkPtok 22 "uint32" 29 11 128)) (mkBasicType (mkSpan (mkPtok 22 "uint32" 29 11 128) (mkPtok 22 "uint32" 29 11 128)) (mkPtok 22 "uint32" 29 11 128))) (mkPtok 42 "float" 29 18 129) None (mkPtok 40 "," 29 23 130)))); (mkFieldWithAttr (mkSpan (mkPtok 7 "@lengthOf(" 29 25 131) (mkPtok 40 "," 35 0 148)) [(FALengthOf (mkSpan (mkPtok 7 "@lengthOf(" 29 25 131) (mkPtok 6 ")" 29 38 133)) (mkLengthOf (mkSpan (mkPtok 7 "@lengthOf(" 29 25 131) (mkPtok 6 ")" 29 38 133)) (mkPtok 7 "@lengthOf(" 29 25 131) (mkPtok 42 "A" 29 36 132) (mkPtok 6 ")" 29 38 133))); (FATag (mkSpan (mkPtok 9 "@tag(" 30 4 134) (mkPtok 6 ")" 31 11 137)) (mkTagAttr (mkSpan (mkPtok 9 "@tag(" 30 4 134) (mkPtok 6 ")" 31 11 137)) (mkPtok 9 "@tag(" 30 4 134) (mkPtok 30 "0123456789" 31 0 136) (mkPtok 6 ")" 31 11 137))); (FAPadding (mkSpan (mkPtok 32 "@rightPad" 31 13 138) (mkPtok 6 ")" 32 4 141)) (mkPaddingAttr (mkSpan (mkPtok 32 "@rightPad" 31 13 138) (mkPtok 6 ")" 32 4 141)) (mkPtok 32 "@rightPad" 31 13 138) (mkPtok 8 "(" 31 23 139) (Some (mkPtok 33 "' '" 31 25 140)) (mkPtok 6 ")" 32 4 141)))] (MetaField (mkSpan (mkPtok 14 "zchar[" 32 6 142) (mkPtok 40 "," 35 0 148)) None (mkMetaDecl (mkSpan (mkPtok 14 "zchar[" 32 6 142) (mkPtok 40 "," 35 0 148)) (TyFixed (mkSpan (mkPtok 14 "zchar[" 32 6 142) (mkPtok 13 "]" 32 16 144)) (mkFixedString (mkSpan (mkPtok 14 "zchar[" 32 6 142) (mkPtok 13 "]" 32 16 144)) (mkPtok 14 "zchar[" 32 6 142) (mkPtok 30 "10" 32 13 143) (mkPtok 13 "]" 32 16 144))) (mkPtok 42 "o" 34 4 146) None (mkPtok 40 "," 35 0 148)))); (mkFieldWithAttr (mkSpan (mkPtok 42 "uint8x" 36 4 149) (mkPtok 40 "," 40 0 155)) [] (CheckSumField (mkSpan (mkPtok 42 "uint8x" 36 4 149) (mkPtok 40 "," 40 0 155)) (mkChecksumFieldDecl (mkSpan (mkPtok 42 "uint8x" 36 4 149) (mkPtok 40 "," 40 0 155)) None (mkPtok 42 "uint8x" 36 4 149) (mkCalculatedFrom (mkSpan (mkPtok 5 "@calculatedFrom(" 37 4 150) (mkPtok 6 ")" 38 0 153)) (mkPtok 5 "@calculatedFrom(" 37 4 150) (mkPtok 31 """a\\""" 37 21 151) (mkPtok 6 ")" 38 0 153)) (Some (mkPtok 43 (string_of_bytes [96; 10; 96]%N) 38 2 154)) (mkPtok 40 "," 40 0 155)))); (mkFieldWithAttr (mkSpan (mkPtok 42 "body" 40 1 156) (mkPtok 40 "," 41 0 157)) [] (ObjectField (mkSpan (mkPtok 42 "body" 40 1 156) (mkPtok 40 "," 41 0 157)) None (mkPtok 42 "body" 40 1 156) None None (mkPtok 40 "," 41 0 157))); (mkFieldWithAttr (mkSpan (mkPtok 36 "repeat" 41 2 158) (mkPtok 40 "," 44 4 165)) [] (MetaField (mkSpan (mkPtok 36 "repeat" 41 2 158) (mkPtok 40 "," 44 4 165)) (Some (mkPtok 36 "repeat" 41 2 158)) (mkMetaDecl (mkSpan (mkPtok 12 "char[" 42 0 160) (mkPtok 40 "," 44 4 165)) (TyFixed (mkSpan (mkPtok 12 "char[" 42 0 160) (mkPtok 13 "]" 42 8 162)) (mkFixedString (mkSpan (mkPtok 12 "char[" 42 0 160) (mkPtok 13 "]" 42 8 162)) (mkPtok 12 "char[" 42 0 160) (mkPtok 30 "10" 42 5 161) (mkPtok 13 "]" 42 8 162))) (mkPtok 42 "string_" 43 4 163) (Some (mkPtok 43 (string_of_bytes [96; 116; 97; 98; 9; 104; 101; 114; 101; 96]%N) 43 12 164)) (mkPtok 40 "," 44 4 165))))] (mkPtok 3 "}" 44 6 166))); (DPacket (mkPacketDef (mkSpan (mkPtok 34 "root" 44 8 167) (mkPtok 3 "}" 45 13 171)) (Some (mkPtok 34 "root" 44 8 167)) (mkPtok 35 "packet" 44 13 168) (mkPtok 42 "roots" 45 4 169) (mkPtok 2 "{" 45 10 170) [] (mkPtok 3 "}" 45 13 171))); (DPacket (mkPacketDef (mkSpan (mkPtok 35 "packet" 45 15 172) (mkPtok 3 "}" 54 15 208)) None (mkPtok 35 "packet" 45 15 172) (mkPtok 42 "u" 45 22 173) (mkPtok 2 "{" 45 24 174) [(mkFieldWithAttr (mkSpan (mkPtok 5 "@calculatedFrom(" 45 25 175) (mkPtok 40 "," 48 9 185)) [(FACalculatedFrom (mkSpan (mkPtok 5 "@calculatedFrom(" 45 25 175) (mkPtok 6 ")" 45 46 177)) (mkCalculatedFrom (mkSpan (mkPtok 5 "@calculatedFrom(" 45 25 175) (mkPtok 6 ")" 45 46 177)) (mkPtok 5 "@calculatedFrom(" 45 25 175) (mkPtok 31 (string_of_bytes [34; 240; 159; 152; 128; 34]%N) 45 42 176) (mkPtok 6 ")" 45 46 177)))] (CheckSumField (mkSpan (mkPtok 29 "f64" 45 48 178) (mkPtok 40 "," 48 9 185)) (mkChecksumFieldDecl (mkSpan (mkPtok 29 "f64" 45 48 178) (mkPtok 40 "," 48 9 185)) (Some (TyBasic (mkSpan (mkPtok 29 "f64" 45 48 178) (mkPtok 29 "f64" 45 48 178)) (mkBasicType (mkSpan (mkPtok 29 "f64" 45 48 178) (mkPtok 29 "f64" 45 48 178)) (mkPtok 29 "f64" 45 48 178)))) (mkPtok 42 "Logon" 45 52 179) (mkCalculatedFrom (mkSpan (mkPtok 5 "@calculatedFrom(" 46 0 181) (mkPtok 6 ")" 47 0 183)) (mkPtok 5 "@calculatedFrom(" 46 0 181) (mkPtok 31 """1""" 46 17 182) (mkPtok 6 ")" 47 0 183)) (Some (mkPtok 43 "`a\`" 48 4 184)) (mkPtok 40 "," 48 9 185)))); (mkFieldWithAttr (mkSpan (mkPtok 25 "int16" 48 12 186) (mkPtok 40 "," 50 0 189)) [] (MetaField (mkSpan (mkPtok 25 "int16" 48 12 186) (mkPtok 40 "," 50 0 189)) None (mkMetaDecl (mkSpan (mkPtok 25 "int16" 48 12 186) (mkPtok 40 "," 50 0 189)) (TyBasic (mkSpan (mkPtok 25 "int16" 48 12 186) (mkPtok 25 "int16" 48 12 186)) (mkBasicType (mkSpan (mkPtok 25 "int16" 48 12 186) (mkPtok 25 "int16" 48 12 186)) (mkPtok 25 "int16" 48 12 186))) (mkPtok 42 "trueish" 48 18 187) (Some (mkPtok 43 (string_of_bytes [96; 108; 105; 110; 101; 49; 10; 108; 105; 110; 101; 50; 96]%N) 48 26 188)) (mkPtok 40 "," 50 0 189)))); (mkFieldWithAttr (mkSpan (mkPtok 14 "zchar[" 51 0 191) (mkPtok 40 "," 53 26 197)) [] (MetaField (mkSpan (mkPtok 14 "zchar[" 51 0 191) (mkPtok 40 "," 53 26 197)) None (mkMetaDecl (mkSpan (mkPtok 14 "zchar[" 51 0 191) (mkPtok 40 "," 53 26 197)) (TyFixed (mkSpan (mkPtok 14 "zchar[" 51 0 191) (mkPtok 13 "]" 51 19 193)) (mkFixedString (mkSpan (mkPtok 14 "zchar[" 51 0 191) (mkPtok 13 "]" 51 19 193)) (mkPtok 14 "zchar[" 51 0 191) (mkPtok 30 "0123456789" 51 8 192) (mkPtok 13 "]" 51 19 193))) (mkPtok 42 "BodyLength" 53 4 195) (Some (mkPtok 43 "`two words`" 53 15 196)) (mkPtok 40 "," 53 26 197)))); (mkFieldWithAttr (mkSpan (mkPtok 28 "float32" 53 28 198) (mkPtok 40 "," 54 0 204)) [] (LengthField (mkSpan (mkPtok 28 "float32" 53 28 198) (mkPtok 40 "," 54 0 204)) (mkLengthFieldDecl (mkSpan (mkPtok 28 "float32" 53 28 198) (mkPtok 40 "," 54 0 204)) (Some (TyBasic (mkSpan (mkPtok 28 "float32" 53 28 198) (mkPtok 28 "float32" 53 28 198)) (mkBasicType (mkSpan (mkPtok 28 "float32" 53 28 198) (mkPtok 28 "float32" 53 28 198)) (mkPtok 28 "float32" 53 28 198)))) (mkPtok 42 "i8i8" 53 36 199) (mkLengthOf (mkSpan (mkPtok 7 "@lengthOf(" 53 41 200) (mkPtok 6 ")" 53 61 202)) (mkPtok 7 "@lengthOf(" 53 41 200) (mkPtok 42 "metadata" 53 52 201) (mkPtok 6 ")" 53 61 202)) (Some (mkPtok 43 "`// not a comment`" 53 63 203)) (mkPtok 40 "," 54 0 204)))); (mkFieldWithAttr (mkSpan (mkPtok 26 "i32" 54 2 205) (mkPtok 40 "," 54 13 207)) [] (MetaField (mkSpan (mkPtok 26 "i32" 54 2 205) (mkPtok 40 "," 54 13 207)) None (mkMetaDecl (mkSpan (mkPtok 26 "i32" 54 2 205) (mkPtok 40 "," 54 13 207)) (TyBasic (mkSpan (mkPtok 26 "i32" 54 2 205) (mkPtok 26 "i32" 54 2 205)) (mkBasicType (mkSpan (mkPtok 26 "i32" 54 2 205) (mkPtok 26 "i32" 54 2 205)) (mkPtok 26 "i32" 54 2 205))) (mkPtok 42 "leftPad" 54 6 206) None (mkPtok 40 "," 54 13 207))))] (mkPtok 3 "}" 54 15 208)))])).
Eval vm_compute in ("<<<M149>>>" ++ check (runes_of_ascii "root packet crc {@calculatedFrom(
""" ++ [128512]%N ++ runes_of_ascii """)
BodyLength{x_y_z i8i8
//
//
, int32 uint8x
`two words` ,	rootA tag , zchar[
7] matchKey
    `" ++ [233]%N ++ runes_of_ascii "` ,} , T { x@calculatedFrom( ""a	b"" )
`// not a comment` ,zchar[ // " ++ [128512]%N ++ runes_of_ascii " emoji
42 ] /// triple
A
, match chars
as
    //x
    len {""packet"" :crc 3//x
:
chars [
0123456789 , ""packet"" ]
    : pack	[""packet""
,
00// " ++ [27880; 37322]%N ++ runes_of_ascii "
,
    7 ,""" ++ [28040; 24687]%N ++ runes_of_ascii """, 3
,  ""packet"",
    42, 0123456789
    ] :
repeatCount	""{,}"" :
chars
    ,/// triple
} ,
} ,
}")).
Eval vm_compute in ("<<<M159>>>" ++ check (runes_of_ascii "
options{	roots ='\x00' lengthOf
=
    true
; Packet = // `tick` ""quote"" 'q'
""packet"" ; o = // packet A { u8 x, }
""packet"" ; A// " ++ [27880; 37322]%N ++ runes_of_ascii "
=
    //
    true ; // trailing space 
} packet body
{ _x ,	zchar[
65535
]
Header @calculatedFrom( // trailing space 
""""  ) `u8 x,` , }
root packet
    //	t
    T // trailing space 
{ @tag(// trailing space 
7) @tag( 0
    )
@leftPad( '0' )// a // b
int64
x @lengthOf( Packet )
    , msg_type stringy
`" ++ [28040; 24687; 31867; 22411]%N ++ runes_of_ascii "`/// triple
, } /// triple")).
Eval vm_compute in ("<<<M169>>>" ++ check (runes_of_ascii "MetaData
    lengthOf
{
char[0123456789] calculatedFrom ,
char[ 0
]
options1
    ,
    } MetaData  repeatCount
{ // packet A { u8 x, }
u64 len ,
    stringy x_y_z `it's` // a // b
, f32 As ,	}
")).
Eval vm_compute in ("<<<M179>>>" ++ check (runes_of_ascii "
options
    // " ++ [128512]%N ++ runes_of_ascii " emoji
    {  roots= false ; f32a = ""// no comment""
// " ++ [128512]%N ++ runes_of_ascii " emoji
// a // b
;
}
")).
Eval vm_compute in ("<<<M189>>>" ++ check (runes_of_ascii "packet
// @lengthOf(
// " ++ [128512]%N ++ runes_of_ascii " emoji
Foo { @calculatedFrom( """" )
@calculatedFrom(""1""
) @rightPad () int32 As
@calculatedFrom( """"// a // b
)
    `say ""hi""` // c
, @calculatedFrom( ""\n""
)
// trailing space 
/// triple
char[// trailing space 
65535 ] asx ,
    repeat	int8 trueish `{ , }` ,
} root packet lengthOf{  }")).
Eval vm_compute in ("<<<M199>>>" ++ check (runes_of_ascii "//x
packet	u8x { @lengthOf(  As
    )
repeat char[ // c
4294967296
]
    int `{ , }` ,repeat
    // " ++ [128512]%N ++ runes_of_ascii " emoji
    int8 len
`two words` , }root packet tag// a // b
{} root packet rootA { o@calculatedFrom(""""
    ) ,leftPad i64_ `it's`
// a // b
// packet A { u8 x, }
, // " ++ [27880; 37322]%N ++ runes_of_ascii "
@tag( 7 )
    float ,	int32 x_y_z, repeat roots { zchar[ 10 ]
    a1 ,
    f32a
    options1
    `crlf
line` , match _x
    // @lengthOf(
    as
zchar {	1 : u8x ,""// no comment"" : float,	[4294967296, 10 ,""" ++ [233]%N ++ runes_of_ascii "t" ++ [233]%N ++ runes_of_ascii """ , """ ++ [28040; 24687]%N ++ runes_of_ascii """
, 1 ] :u128 // trailing space 
,
    [ ""\" ++ [233]%N ++ runes_of_ascii """ ,//x
42 // " ++ [128512]%N ++ runes_of_ascii " emoji
] :	stringy
    ,
[ 1 // " ++ [27880; 37322]%N ++ runes_of_ascii "
,""\n""
]:falsey
    // a // b
    , } ,  string  charz  @calculatedFrom( """" ) ,
    }
,	char[]	options1
    `
`
,
//	t
/// triple
u8x{ repeat msg_type	matchKey `u8 x,` , } , A
@lengthOf( //x
pack
    ) //	t
, i64
stringy ,
}
packet i8i8{ i64_
u128
,@lengthOf( u8x//
) repeat
float64 f32a ,@calculatedFrom(
    ""`tick`"" ) pack
`" ++ [233]%N ++ runes_of_ascii "` ,
uint64 Z9_ @calculatedFrom("""" ) `tab	here` , }
")).
Eval vm_compute in ("<<<M209>>>" ++ check (runes_of_ascii "root packet body{
@tag(
4294967296
    )
As @calculatedFrom(""" ++ [128512]%N ++ runes_of_ascii """ )
    `a\` , /// triple
} root packet
    uint8x
{ MetaDataX{ repeat
matchKey lengthOf , repeat u32 uint8x
// packet A { u8 x, }
// a // b
`doc`
    /// triple
    ,
} ,  } options { int // a // b
=
    ""abc"" } packet
    // trailing space 
    u8x {
} root
packet // " ++ [128512]%N ++ runes_of_ascii " emoji
falsey {repeat float32	u , repeat	char[]
// " ++ [128512]%N ++ runes_of_ascii " emoji
// packet A { u8 x, }
msg_type
    `
` , @leftPad ( ' ')
    @tag(255
)match Header as msg_type
    { 3 :uint8x
    ,
    255 :
x , // trailing space 
7 // " ++ [27880; 37322]%N ++ runes_of_ascii "
: leftPad
// c
// `tick` ""quote"" 'q'
""" ++ [28040; 24687]%N ++ runes_of_ascii """
// packet A { u8 x, }
// c
: Packet ,[ 4294967296
    ,""1"" ] :
    T , } ,
    //	t
    Logon @calculatedFrom( ""x y"")  `it's`
, string charz @calculatedFrom(
// " ++ [128512]%N ++ runes_of_ascii " emoji
//	t
""abc""
) ,
string options1	,
/// triple
/// triple
@lengthOf(
//
//x
As
    ) repeat zchar[ // `tick` ""quote"" 'q'
7 ]zchar , @lengthOf(
    crc)x_y_z
    @calculatedFrom(
""" ++ [28040; 24687]%N ++ runes_of_ascii """ ) ,
}
")).
Eval vm_compute in ("<<<T209>>>" ++ terms [mkTok 34 "root" 1 0 false; mkTok 35 "packet" 1 5 false; mkTok 42 "body" 1 12 false; mkTok 2 "{" 1 16 false; mkTok 9 "@tag(" 2 0 false; mkTok 30 "4294967296" 3 0 false; mkTok 6 ")" 4 4 false; mkTok 42 "As" 5 0 false; mkTok 5 "@calculatedFrom(" 5 3 false; mkTok 31 (string_of_bytes [34; 240; 159; 152; 128; 34]%N) 5 19 false; mkTok 6 ")" 5 23 false; mkTok 43 "`a\`" 6 4 false; mkTok 40 "," 6 9 false; mkTok 44 "/// triple" 6 11 true; mkTok 3 "}" 7 0 false; mkTok 34 "root" 7 2 false; mkTok 35 "packet" 7 7 false; mkTok 42 "uint8x" 8 4 false; mkTok 2 "{" 9 0 false; mkTok 42 "MetaDataX" 9 2 false; mkTok 2 "{" 9 11 false; mkTok 36 "repeat" 9 13 false; mkTok 42 "matchKey" 10 0 false; mkTok 42 "lengthOf" 10 9 false; mkTok 40 "," 10 18 false; mkTok 36 "repeat" 10 20 false; mkTok 22 "u32" 10 27 false; mkTok 42 "uint8x" 10 31 false; mkTok 44 "// packet A { u8 x, }" 11 0 true; mkTok 44 "// a // b" 12 0 true; mkTok 43 "`doc`" 13 0 false; mkTok 44 "/// triple" 14 4 true; mkTok 40 "," 15 4 false; mkTok 3 "}" 16 0 false; mkTok 40 "," 16 2 false; mkTok 3 "}" 16 5 false; mkTok 1 "options" 16 7 false; mkTok 2 "{" 16 15 false; mkTok 42 "int" 16 17 false; mkTok 44 "// a // b" 16 21 true; mkTok 4 "=" 17 0 false; mkTok 31 """abc""" 18 4 false; mkTok 3 "}" 18 10 false; mkTok 35 "packet" 18 12 false; mkTok 44 "// trailing space " 19 4 true; mkTok 42 "u8x" 20 4 false; mkTok 2 "{" 20 8 false; mkTok 3 "}" 21 0 false; mkTok 34 "root" 21 2 false; mkTok 35 "packet" 22 0 false; mkTok 44 (string_of_bytes [47; 47; 32; 240; 159; 152; 128; 32; 101; 109; 111; 106; 105]%N) 22 7 true; mkTok 42 "falsey" 23 0 false; mkTok 2 "{" 23 7 false; mkTok 36 "repeat" 23 8 false; mkTok 28 "float32" 23 15 false; mkTok 42 "u" 23 23 false; mkTok 40 "," 23 25 false; mkTok 36 "repeat" 23 27 false; mkTok 16 "char[]" 23 34 false; mkTok 44 (string_of_bytes [47; 47; 32; 240; 159; 152; 128; 32; 101; 109; 111; 106; 105]%N) 24 0 true; mkTok 44 "// packet A { u8 x, }" 25 0 true; mkTok 42 "msg_type" 26 0 false; mkTok 43 (string_of_bytes [96; 10; 96]%N) 27 4 false; mkTok 40 "," 28 2 false; mkTok 32 "@leftPad" 28 4 false; mkTok 8 "(" 28 13 false; mkTok 33 "' '" 28 15 false; mkTok 6 ")" 28 18 false; mkTok 9 "@tag(" 29 4 false; mkTok 30 "255" 29 9 false; mkTok 6 ")" 30 0 false; mkTok 38 "match" 30 1 false; mkTok 42 "Header" 30 7 false; mkTok 17 "as" 30 14 false; mkTok 42 "msg_type" 30 17 false; mkTok 2 "{" 31 4 false; mkTok 30 "3" 31 6 false; mkTok 39 ":" 31 8 false; mkTok 42 "uint8x" 31 9 false; mkTok 40 "," 32 4 false; mkTok 30 "255" 33 4 false; mkTok 39 ":" 33 8 false; mkTok 42 "x" 34 0 false; mkTok 40 "," 34 2 false; mkTok 44 "// trailing space " 34 4 true; mkTok 30 "7" 35 0 false; mkTok 44 (string_of_bytes [47; 47; 32; 230; 179; 168; 233; 135; 138]%N) 35 2 true; mkTok 39 ":" 36 0 false; mkTok 42 "leftPad" 36 2 false; mkTok 44 "// c" 37 0 true; mkTok 44 "// `tick` ""quote"" 'q'" 38 0 true; mkTok 31 (string_of_bytes [34; 230; 182; 136; 230; 129; 175; 34]%N) 39 0 false; mkTok 44 "// packet A { u8 x, }" 40 0 true; mkTok 44 "// c" 41 0 true; mkTok 39 ":" 42 0 false; mkTok 42 "Packet" 42 2 false; mkTok 40 "," 42 9 false; mkTok 18 "[" 42 10 false; mkTok 30 "4294967296" 42 12 false; mkTok 40 "," 43 4 false; mkTok 31 """1""" 43 5 false; mkTok 13 "]" 43 9 false; mkTok 39 ":" 43 11 false; mkTok 42 "T" 44 4 false; mkTok 40 "," 44 6 false; mkTok 3 "}" 44 8 false; mkTok 40 "," 44 10 false; mkTok 44 (string_of_bytes [47; 47; 9; 116]%N) 45 4 true; mkTok 42 "Logon" 46 4 false; mkTok 5 "@calculatedFrom(" 46 10 false; mkTok 31 """x y""" 46 27 false; mkTok 6 ")" 46 32 false; mkTok 43 "`it's`" 46 35 false; mkTok 40 "," 47 0 false; mkTok 15 "string" 47 2 false; mkTok 42 "charz" 47 9 false; mkTok 5 "@calculatedFrom(" 47 15 false; mkTok 44 (string_of_bytes [47; 47; 32; 240; 159; 152; 128; 32; 101; 109; 111; 106; 105]%N) 48 0 true; mkTok 44 (string_of_bytes [47; 47; 9; 116]%N) 49 0 true; mkTok 31 """abc""" 50 0 false; mkTok 6 ")" 51 0 false; mkTok 40 "," 51 2 false; mkTok 15 "string" 52 0 false; mkTok 42 "options1" 52 7 false; mkTok 40 "," 52 16 false; mkTok 44 "/// triple" 53 0 true; mkTok 44 "/// triple" 54 0 true; mkTok 7 "@lengthOf(" 55 0 false; mkTok 44 "//" 56 0 true; mkTok 44 "//x" 57 0 true; mkTok 42 "As" 58 0 false; mkTok 6 ")" 59 4 false; mkTok 36 "repeat" 59 6 false; mkTok 14 "zchar[" 59 13 false; mkTok 44 "// `tick` ""quote"" 'q'" 59 20 true; mkTok 30 "7" 60 0 false; mkTok 13 "]" 60 2 false; mkTok 42 "zchar" 60 3 false; mkTok 40 "," 60 9 false; mkTok 7 "@lengthOf(" 60 11 false; mkTok 42 "crc" 61 4 false; mkTok 6 ")" 61 7 false; mkTok 42 "x_y_z" 61 8 false; mkTok 5 "@calculatedFrom(" 62 4 false; mkTok 31 (string_of_bytes [34; 230; 182; 136; 230; 129; 175; 34]%N) 63 0 false; mkTok 6 ")" 63 5 false; mkTok 40 "," 63 7 false; mkTok 3 "}" 64 0 false; mkTok 0 "<EOF>" 65 0 false] (mkPacket (mkPtok 34 "root" 1 0 0) (Some (mkPtok 3 "}" 64 0 147)) [(DPacket (mkPacketDef (mkSpan (mkPtok 34 "root" 1 0 0) (mkPtok 3 "}" 7 0 14)) (Some (mkPtok 34 "root" 1 0 0)) (mkPtok 35 "packet" 1 5 1) (mkPtok 42 "body" 1 12 2) (mkPtok 2 "{" 1 16 3) [(mkFieldWithAttr (mkSpan (mkPtok 9 "@tag(" 2 0 4) (mkPtok 40 "," 6 9 12)) [(FATag (mkSpan (mkPtok 9 "@tag(" 2 0 4) (mkPtok 6 ")" 4 4 6)) (mkTagAttr (mkSpan (mkPtok 9 "@tag(" 2 0 4) (mkPtok 6 ")" 4 4 6)) (mkPtok 9 "@tag(" 2 0 4) (mkPtok 30 "4294967296" 3 0 5) (mkPtok 6 ")" 4 4 6)))] (CheckSumField (mkSpan (mkPtok 42 "As" 5 0 7) (mkPtok 40 "," 6 9 12)) (mkChecksumFieldDecl (mkSpan (mkPtok 42 "As" 5 0 7) (mkPtok 40 "," 6 9 12)) None (mkPtok 42 "As" 5 0 7) (mkCalculatedFrom (mkSpan (mkPtok 5 "@calculatedFrom(" 5 3 8) (mkPtok 6 ")" 5 23 10)) (mkPtok 5 "@calculatedFrom(" 5 3 8) (mkPtok 31 (string_of_bytes [34; 240; 159; 152; 128; 34]%N) 5 19 9) (mkPtok 6 ")" 5 23 10)) (Some (mkPtok 43 "`a\`" 6 4 11)) (mkPtok 40 "," 6 9 12))))] (mkPtok 3 "}" 7 0 14))); (DPacket (mkPacketDef (mkSpan (mkPtok 34 "root" 7 2 15) (mkPtok 3 "}" 16 5 35)) (Some (mkPtok 34 "root" 7 2 15)) (mkPtok 35 "packet" 7 7 16) (mkPtok 42 "uint8x" 8 4 17) (mkPtok 2 "{" 9 0 18) [(mkFieldWithAttr (mkSpan (mkPtok 42 "MetaDataX" 9 2 19) (mkPtok 40 "," 16 2 34)) [] (InerObjectField (mkSpan (mkPtok 42 "MetaDataX" 9 2 19) (mkPtok 40 "," 16 2 34)) None (InerObjectDecl (mkSpan (mkPtok 42 "MetaDataX" 9 2 19) (mkPtok 3 "}" 16 0 33)) (mkPtok 42 "MetaDataX" 9 2 19) (mkPtok 2 "{" 9 11 20) [(ObjectField (mkSpan (mkPtok 36 "repeat" 9 13 21) (mkPtok 40 "," 10 18 24)) (Some (mkPtok 36 "repeat" 9 13 21)) (mkPtok 42 "matchKey" 10 0 22) (Some (mkPtok 42 "lengthOf" 10 9 23)) None (mkPtok 40 "," 10 18 24)); (MetaField (mkSpan (mkPtok 36 "repeat" 10 20 25) (mkPtok 40 "," 15 4 32)) (Some (mkPtok 36 "repeat" 10 20 25)) (mkMetaDecl (mkSpan (mkPtok 22 "u32" 10 27 26) (mkPtok 40 "," 15 4 32)) (TyBasic (mkSpan (mkPtok 22 "u32" 10 27 26) (mkPtok 22 "u32" 10 27 26)) (mkBasicType (mkSpan (mkPtok 22 "u32" 10 27 26) (mkPtok 22 "u32" 10 27 26)) (mkPtok 22 "u32" 10 27 26))) (mkPtok 42 "uint8x" 10 31 27) (Some (mkPtok 43 "`doc`" 13 0 30)) (mkPtok 40 "," 15 4 32)))] (mkPtok 3 "}" 16 0 33)) (mkPtok 40 "," 16 2 34)))] (mkPtok 3 "}" 16 5 35))); (DOption (mkOptionDef (mkSpan (mkPtok 1 "options" 16 7 36) (mkPtok 3 "}" 18 10 42)) (mkPtok 1 "options" 16 7 36) (mkPtok 2 "{" 16 15 37) [(mkOptionDecl (mkSpan (mkPtok 42 "int" 16 17 38) (mkPtok 31 """abc""" 18 4 41)) (mkPtok 42 "int" 16 17 38) (mkPtok 4 "=" 17 0 40) (VString (mkSpan (mkPtok 31 """abc""" 18 4 41) (mkPtok 31 """abc""" 18 4 41)) (mkPtok 31 """abc""" 18 4 41)) None)] (mkPtok 3 "}" 18 10 42))); (DPacket (mkPacketDef (mkSpan (mkPtok 35 "packet" 18 12 43) (mkPtok 3 "}" 21 0 47)) None (mkPtok 35 "packet" 18 12 43) (mkPtok 42 "u8x" 20 4 45) (mkPtok 2 "{" 20 8 46) [] (mkPtok 3 "}" 21 0 47))); (DPacket (mkPacketDef (mkSpan (mkPtok 34 "root" 21 2 48) (mkPtok 3 "}" 64 0 147)) (Some (mkPtok 34 "root" 21 2 48)) (mkPtok 35 "packet" 22 0 49) (mkPtok 42 "falsey" 23 0 51) (mkPtok 2 "{" 23 7 52) [(mkFieldWithAttr (mkSpan (mkPtok 36 "repeat" 23 8 53) (mkPtok 40 "," 23 25 56)) [] (MetaField (mkSpan (mkPtok 36 "repeat" 23 8 53) (mkPtok 40 "," 23 25 56)) (Some (mkPtok 36 "repeat" 23 8 53)) (mkMetaDecl (mkSpan (mkPtok 28 "float32" 23 15 54) (mkPtok 40 "," 23 25 56)) (TyBasic (mkSpan (mkPtok 28 "float32" 23 15 54) (mkPtok 28 "float32" 23 15 54)) (mkBasicType (mkSpan (mkPtok 28 "float32" 23 15 54) (mkPtok 28 "float32" 23 15 54)) (mkPtok 28 "float32" 23 15 54))) (mkPtok 42 "u" 23 23 55) None (mkPtok 40 "," 23 25 56)))); (mkFieldWithAttr (mkSpan (mkPtok 36 "repeat" 23 27 57) (mkPtok 40 "," 28 2 63)) [] (MetaField (mkSpan (mkPtok 36 "repeat" 23 27 57) (mkPtok 40 "," 28 2 63)) (Some (mkPtok 36 "repeat" 23 27 57)) (mkMetaDecl (mkSpan (mkPtok 16 "char[]" 23 34 58) (mkPtok 40 "," 28 2 63)) (TyDynamic (mkSpan (mkPtok 16 "char[]" 23 34 58) (mkPtok 16 "char[]" 23 34 58)) (mkDynamicString (mkSpan (mkPtok 16 "char[]" 23 34 58) (mkPtok 16 "char[]" 23 34 58)) (mkPtok 16 "char[]" 23 34 58))) (mkPtok 42 "msg_type" 26 0 61) (Some (mkPtok 43 (string_of_bytes [96; 10; 96]%N) 27 4 62)) (mkPtok 40 "," 28 2 63)))); (mkFieldWithAttr (mkSpan (mkPtok 32 "@leftPad" 28 4 64) (mkPtok 40 "," 44 10 106)) [(FAPadding (mkSpan (mkPtok 32 "@leftPad" 28 4 64) (mkPtok 6 ")" 28 18 67)) (mkPaddingAttr (mkSpan (mkPtok 32 "@leftPad" 28 4 64) (mkPtok 6 ")" 28 18 67)) (mkPtok 32 "@leftPad" 28 4 64) (mkPtok 8 "(" 28 13 65) (Some (mkPtok 33 "' '" 28 15 66)) (mkPtok 6 ")" 28 18 67))); (FATag (mkSpan (mkPtok 9 "@tag(" 29 4 68) (mkPtok 6 ")" 30 0 70)) (mkTagAttr (mkSpan (mkPtok 9 "@tag(" 29 4 68) (mkPtok 6 ")" 30 0 70)) (mkPtok 9 "@tag(" 29 4 68) (mkPtok 30 "255" 29 9 69) (mkPtok 6 ")" 30 0 70)))] (MatchField (mkSpan (mkPtok 38 "match" 30 1 71) (mkPtok 40 "," 44 10 106)) (mkMatchFieldDecl (mkSpan (mkPtok 38 "match" 30 1 71) (mkPtok 3 "}" 44 8 105)) (mkPtok 38 "match" 30 1 71) (mkPtok 42 "Header" 30 7 72) (mkPtok 17 "as" 30 14 73) (mkPtok 42 "msg_type" 30 17 74) (mkPtok 2 "{" 31 4 75) [(mkMatchPair (mkSpan (mkPtok 30 "3" 31 6 76) (mkPtok 40 "," 32 4 79)) (MKDigits (mkPtok 30 "3" 31 6 76)) (mkPtok 39 ":" 31 8 77) (mkPtok 42 "uint8x" 31 9 78) (Some (mkPtok 40 "," 32 4 79))); (mkMatchPair (mkSpan (mkPtok 30 "255" 33 4 80) (mkPtok 40 "," 34 2 83)) (MKDigits (mkPtok 30 "255" 33 4 80)) (mkPtok 39 ":" 33 8 81) (mkPtok 42 "x" 34 0 82) (Some (mkPtok 40 "," 34 2 83))); (mkMatchPair (mkSpan (mkPtok 30 "7" 35 0 85) (mkPtok 42 "leftPad" 36 2 88)) (MKDigits (mkPtok 30 "7" 35 0 85)) (mkPtok 39 ":" 36 0 87) (mkPtok 42 "leftPad" 36 2 88) None); (mkMatchPair (mkSpan (mkPtok 31 (string_of_bytes [34; 230; 182; 136; 230; 129; 175; 34]%N) 39 0 91) (mkPtok 40 "," 42 9 96)) (MKString (mkPtok 31 (string_of_bytes [34; 230; 182; 136; 230; 129; 175; 34]%N) 39 0 91)) (mkPtok 39 ":" 42 0 94) (mkPtok 42 "Packet" 42 2 95) (Some (mkPtok 40 "," 42 9 96))); (mkMatchPair (mkSpan (mkPtok 18 "[" 42 10 97) (mkPtok 40 "," 44 6 104)) (MKList (mkKeyList (mkSpan (mkPtok 18 "[" 42 10 97) (mkPtok 13 "]" 43 9 101)) (mkPtok 18 "[" 42 10 97) (mkPtok 30 "4294967296" 42 12 98) [((mkPtok 40 "," 43 4 99), (mkPtok 31 """1""" 43 5 100))] (mkPtok 13 "]" 43 9 101))) (mkPtok 39 ":" 43 11 102) (mkPtok 42 "T" 44 4 103) (Some (mkPtok 40 "," 44 6 104)))] (mkPtok 3 "}" 44 8 105)) (mkPtok 40 "," 44 10 106))); (mkFieldWithAttr (mkSpan (mkPtok 42 "Logon" 46 4 108) (mkPtok 40 "," 47 0 113)) [] (CheckSumField (mkSpan (mkPtok 42 "Logon" 46 4 108) (mkPtok 40 "," 47 0 113)) (mkChecksumFieldDecl (mkSpan (mkPtok 42 "Logon" 46 4 108) (mkPtok 40 "," 47 0 113)) None (mkPtok 42 "Logon" 46 4 108) (mkCalculatedFrom (mkSpan (mkPtok 5 "@calculatedFrom(" 46 10 109) (mkPtok 6 ")" 46 32 111)) (mkPtok 5 "@calculatedFrom(" 46 10 109) (mkPtok 31 """x y""" 46 27 110) (mkPtok 6 ")" 46 32 111)) (Some (mkPtok 43 "`it's`" 46 35 112)) (mkPtok 40 "," 47 0 113)))); (mkFieldWithAttr (mkSpan (mkPtok 15 "string" 47 2 114) (mkPtok 40 "," 51 2 121)) [] (CheckSumField (mkSpan (mkPtok 15 "string" 47 2 114) (mkPtok 40 "," 51 2 121)) (mkChecksumFieldDecl (mkSpan (mkPtok 15 "string" 47 2 114) (mkPtok 40 "," 51 2 121)) (Some (TyDynamic (mkSpan (mkPtok 15 "string" 47 2 114) (mkPtok 15 "string" 47 2 114)) (mkDynamicString (mkSpan (mkPtok 15 "string" 47 2 114) (mkPtok 15 "string" 47 2 114)) (mkPtok 15 "string" 47 2 114)))) (mkPtok 42 "charz" 47 9 115) (mkCalculatedFrom (mkSpan (mkPtok 5 "@calculatedFrom(" 47 15 116) (mkPtok 6 ")" 51 0 120)) (mkPtok 5 "@calculatedFrom(" 47 15 116) (mkPtok 31 """abc""" 50 0 119) (mkPtok 6 ")" 51 0 120)) None (mkPtok 40 "," 51 2 121)))); (mkFieldWithAttr (mkSpan (mkPtok 15 "string" 52 0 122) (mkPtok 40 "," 52 16 124)) [] (MetaField (mkSpan (mkPtok 15 "string" 52 0 122) (mkPtok 40 "," 52 16 124)) None (mkMetaDecl (mkSpan (mkPtok 15 "string" 52 0 122) (mkPtok 40 "," 52 16 124)) (TyDynamic (mkSpan (mkPtok 15 "string" 52 0 122) (mkPtok 15 "string" 52 0 122)) (mkDynamicString (mkSpan (mkPtok 15 "string" 52 0 122) (mkPtok 15 "string" 52 0 122)) (mkPtok 15 "string" 52 0 122))) (mkPtok 42 "options1" 52 7 123) None (mkPtok 40 "," 52 16 124)))); (mkFieldWithAttr (mkSpan (mkPtok 7 "@lengthOf(" 55 0 127) (mkPtok 40 "," 60 9 138)) [(FALengthOf (mkSpan (mkPtok 7 "@lengthOf(" 55 0 127) (mkPtok 6 ")" 59 4 131)) (mkLengthOf (mkSpan (mkPtok 7 "@lengthOf(" 55 0 127) (mkPtok 6 ")" 59 4 131)) (mkPtok 7 "@lengthOf(" 55 0 127) (mkPtok 42 "As" 58 0 130) (mkPtok 6 ")" 59 4 131)))] (MetaField (mkSpan (mkPtok 36 "repeat" 59 6 132) (mkPtok 40 "," 60 9 138)) (Some (mkPtok 36 "repeat" 59 6 132)) (mkMetaDecl (mkSpan (mkPtok 14 "zchar[" 59 13 133) (mkPtok 40 "," 60 9 138)) (TyFixed (mkSpan (mkPtok 14 "zchar[" 59 13 133) (mkPtok 13 "]" 60 2 136)) (mkFixedString (mkSpan (mkPtok 14 "zchar[" 59 13 133) (mkPtok 13 "]" 60 2 136)) (mkPtok 14 "zchar[" 59 13 133) (mkPtok 30 "7" 60 0 135) (mkPtok 13 "]" 60 2 136))) (mkPtok 42 "zchar" 60 3 137) None (mkPtok 40 "," 60 9 138)))); (mkFieldWithAttr (mkSpan (mkPtok 7 "@lengthOf(" 60 11 139) (mkPtok 40 "," 63 7 146)) [(FALengthOf (mkSpan (mkPtok 7 "@lengthOf(" 60 11 139) (mkPtok 6 ")" 61 7 141)) (mkLengthOf (mkSpan (mkPtok 7 "@lengthOf(" 60 11 139) (mkPtok 6 ")" 61 7 141)) (mkPtok 7 "@lengthOf(" 60 11 139) (mkPtok 42 "crc" 61 4 140) (mkPtok 6 ")" 61 7 141)))] (CheckSumField (mkSpan (mkPtok 42 "x_y_z" 61 8 142) (mkPtok 40 "," 63 7 146)) (mkChecksumFieldDecl (mkSpan (mkPtok 42 "x_y_z" 61 8 142) (mkPtok 40 "," 63 7 146)) None (mkPtok 42 "x_y_z" 61 8 142) (mkCalculatedFrom (mkSpan (mkPtok 5 "@calculatedFrom(" 62 4 143) (mkPtok 6 ")" 63 5 145)) (mkPtok 5 "@calculatedFrom(" 62 4 143) (mkPtok 31 (string_of_bytes [34; 230; 182; 136; 230; 129; 175; 34]%N) 63 0 144) (mkPtok 6 ")" 63 5 145)) None (mkPtok 40 "," 63 7 146))))] (mkPtok 3 "}" 64 0 147)))])).
Eval vm_compute in ("<<<M219>>>" ++ check (runes_of_ascii "packet
i64_
{ f64 float,@tag( 0 ) @lengthOf(u )
    float64 _x  @calculatedFrom(
    ""x y"" )
,}
MetaData matchKey {
} packet roots { }")).
Eval vm_compute in ("<<<M229>>>" ++ check (runes_of_ascii "
MetaData BodyLength
{  int32 chars
    `u8 x,` , char[
0123456789 ] // c
matchKey `a\` ,
char[]
    //
    A , } packet//x
u128
    {}
packet rootA
{float64// c
roots ,  @lengthOf(
    float// `tick` ""quote"" 'q'
)//	t
repeat BodyLength { BodyLength{
    repeat
f64 Packet, char[ 7
/// triple
//	t
] As `doc` ,
}
    ,
} , calculatedFrom
{i16  o@lengthOf(
    Logon ) `doc`, Foo u128 ,	char// @lengthOf(
u @lengthOf(  _x
) ,  },@tag( 1  )@rightPad // `tick` ""quote"" 'q'
(' '
) char[]msg_type
// trailing space 
// trailing space 
, } packet
calculatedFrom
{
    char[] rootA@calculatedFrom( ""a	b"" ) ,
}	options
//	t
// packet A { u8 x, }
{
    o =
""// no comment"" matchKey
    = '\x00' ;
    u
    = """"
leftPad = ""CRC32""; A= ""CRC32"" ; } // trailing space ")).
Eval vm_compute in ("<<<M239>>>" ++ check (runes_of_ascii "packet x { lengthOf rootA , @rightPad
( '0' )
i8 asx @lengthOf( calculatedFrom // a // b
),
@lengthOf( Pad ) repeat //x
int16 trueish // c
``// " ++ [27880; 37322]%N ++ runes_of_ascii "
, @calculatedFrom(
""" ++ [128512]%N ++ runes_of_ascii """) @tag(0
)
@lengthOf( // a // b
matchKey ) string MetaDataX`doc`
,
i16 // `tick` ""quote"" 'q'
options1 @lengthOf(
    // " ++ [27880; 37322]%N ++ runes_of_ascii "
    u8x
    // " ++ [128512]%N ++ runes_of_ascii " emoji
    ) `a\` ,
    u128
u128`line1
line2`,}")).
Eval vm_compute in ("<<<M249>>>" ++ check (runes_of_ascii "
packet Header{ char[] body
//x
//
, }
")).
Eval vm_compute in ("<<<M259>>>" ++ check (runes_of_ascii "
root packet /// triple
Foo { int32 tag
    `doc` , char[0
    ]
    u8x`u8 x,`
, charz charz
    , @rightPad(' ')@tag( 3 ) @rightPad	('0' )
repeat
int16	float ,}
")).
Eval vm_compute in ("<<<M269>>>" ++ check (runes_of_ascii "

")).
Eval vm_compute in ("<<<M279>>>" ++ check (runes_of_ascii "root packet
i8i8
    { _x@lengthOf(chars
),
    char[	7]
packetx
    /// triple
    `say ""hi""`
,
    // c
    }root packet string_ {
    //
    repeat// `tick` ""quote"" 'q'
options1// c
`u8 x,`	,
    }
options {	}")).
Eval vm_compute in ("<<<T279>>>" ++ terms [mkTok 34 "root" 1 0 false; mkTok 35 "packet" 1 5 false; mkTok 42 "i8i8" 2 0 false; mkTok 2 "{" 3 4 false; mkTok 42 "_x" 3 6 false; mkTok 7 "@lengthOf(" 3 8 false; mkTok 42 "chars" 3 18 false; mkTok 6 ")" 4 0 false; mkTok 40 "," 4 1 false; mkTok 12 "char[" 5 4 false; mkTok 30 "7" 5 10 false; mkTok 13 "]" 5 11 false; mkTok 42 "packetx" 6 0 false; mkTok 44 "/// triple" 7 4 true; mkTok 43 "`say ""hi""`" 8 4 false; mkTok 40 "," 9 0 false; mkTok 44 "// c" 10 4 true; mkTok 3 "}" 11 4 false; mkTok 34 "root" 11 5 false; mkTok 35 "packet" 11 10 false; mkTok 42 "string_" 11 17 false; mkTok 2 "{" 11 25 false; mkTok 44 "//" 12 4 true; mkTok 36 "repeat" 13 4 false; mkTok 44 "// `tick` ""quote"" 'q'" 13 10 true; mkTok 42 "options1" 14 0 false; mkTok 44 "// c" 14 8 true; mkTok 43 "`u8 x,`" 15 0 false; mkTok 40 "," 15 8 false; mkTok 3 "}" 16 4 false; mkTok 1 "options" 17 0 false; mkTok 2 "{" 17 8 false; mkTok 3 "}" 17 10 false; mkTok 0 "<EOF>" 17 11 false] (mkPacket (mkPtok 34 "root" 1 0 0) (Some (mkPtok 3 "}" 17 10 32)) [(DPacket (mkPacketDef (mkSpan (mkPtok 34 "root" 1 0 0) (mkPtok 3 "}" 11 4 17)) (Some (mkPtok 34 "root" 1 0 0)) (mkPtok 35 "packet" 1 5 1) (mkPtok 42 "i8i8" 2 0 2) (mkPtok 2 "{" 3 4 3) [(mkFieldWithAttr (mkSpan (mkPtok 42 "_x" 3 6 4) (mkPtok 40 "," 4 1 8)) [] (LengthField (mkSpan (mkPtok 42 "_x" 3 6 4) (mkPtok 40 "," 4 1 8)) (mkLengthFieldDecl (mkSpan (mkPtok 42 "_x" 3 6 4) (mkPtok 40 "," 4 1 8)) None (mkPtok 42 "_x" 3 6 4) (mkLengthOf (mkSpan (mkPtok 7 "@lengthOf(" 3 8 5) (mkPtok 6 ")" 4 0 7)) (mkPtok 7 "@lengthOf(" 3 8 5) (mkPtok 42 "chars" 3 18 6) (mkPtok 6 ")" 4 0 7)) None (mkPtok 40 "," 4 1 8)))); (mkFieldWithAttr (mkSpan (mkPtok 12 "char[" 5 4 9) (mkPtok 40 "," 9 0 15)) [] (MetaField (mkSpan (mkPtok 12 "char[" 5 4 9) (mkPtok 40 "," 9 0 15)) None (mkMetaDecl (mkSpan (mkPtok 12 "char[" 5 4 9) (mkPtok 40 "," 9 0 15)) (TyFixed (mkSpan (mkPtok 12 "char[" 5 4 9) (mkPtok 13 "]" 5 11 11)) (mkFixedString (mkSpan (mkPtok 12 "char[" 5 4 9) (mkPtok 13 "]" 5 11 11)) (mkPtok 12 "char[" 5 4 9) (mkPtok 30 "7" 5 10 10) (mkPtok 13 "]" 5 11 11))) (mkPtok 42 "packetx" 6 0 12) (Some (mkPtok 43 "`say ""hi""`" 8 4 14)) (mkPtok 40 "," 9 0 15))))] (mkPtok 3 "}" 11 4 17))); (DPacket (mkPacketDef (mkSpan (mkPtok 34 "root" 11 5 18) (mkPtok 3 "}" 16 4 29)) (Some (mkPtok 34 "root" 11 5 18)) (mkPtok 35 "packet" 11 10 19) (mkPtok 42 "string_" 11 17 20) (mkPtok 2 "{" 11 25 21) [(mkFieldWithAttr (mkSpan (mkPtok 36 "repeat" 13 4 23) (mkPtok 40 "," 15 8 28)) [] (ObjectField (mkSpan (mkPtok 36 "repeat" 13 4 23) (mkPtok 40 "," 15 8 28)) (Some (mkPtok 36 "repeat" 13 4 23)) (mkPtok 42 "options1" 14 0 25) None (Some (mkPtok 43 "`u8 x,`" 15 0 27)) (mkPtok 40 "," 15 8 28)))] (mkPtok 3 "}" 16 4 29))); (DOption (mkOptionDef (mkSpan (mkPtok 1 "options" 17 0 30) (mkPtok 3 "}" 17 10 32)) (mkPtok 1 "options" 17 0 30) (mkPtok 2 "{" 17 8 31) [] (mkPtok 3 "}" 17 10 32)))])).
Eval vm_compute in ("<<<M289>>>" ++ check (@nil rune)).
Eval vm_compute in ("<<<M299>>>" ++ check (runes_of_ascii "MetaData leftPad {
}
")).
Eval vm_compute in ("<<<M309>>>" ++ check (runes_of_ascii "
asx
{ Z9_ Header// " ++ [128512]%N ++ runes_of_ascii " emoji
,} packet pack
    { }
")).
Eval vm_compute in ("<<<M319>>>" ++ check (runes_of_ascii "packet
asx
 Z9_ Header// " ++ [128512]%N ++ runes_of_ascii " emoji
,} packet pack
    { }
")).
Eval vm_compute in ("<<<M329>>>" ++ check (runes_of_ascii "packet
asx
{ Z9_ // " ++ [128512]%N ++ runes_of_ascii " emoji
,} packet pack
    { }
")).
Eval vm_compute in ("<<<M339>>>" ++ check (runes_of_ascii "packet
asx
{ Z9_ Header// " ++ [128512]%N ++ runes_of_ascii " emoji
, packet pack
    { }
")).
Eval vm_compute in ("<<<M349>>>" ++ check (runes_of_ascii "packet
asx
{ Z9_ Header// " ++ [128512]%N ++ runes_of_ascii " emoji
,} packet 
    { }
")).
Eval vm_compute in ("<<<M359>>>" ++ check (runes_of_ascii "packet
asx
{ Z9_ Header// " ++ [128512]%N ++ runes_of_ascii " emoji
,} packet pack
    { 
")).
Eval vm_compute in ("<<<M369>>>" ++ check (runes_of_ascii "packet
asx
{ Z9_ Header// " ++ [128512]%N ++ runes_of_ascii " emoji
,} packet pack
   " ++ [65279]%N ++ runes_of_ascii " { }
")).
Eval vm_compute in ("<<<M379>>>" ++ check (runes_of_ascii "packet
asx
{ Z@x9_ Header// " ++ [128512]%N ++ runes_of_ascii " emoji
,} packet pack
    { }
")).
Eval vm_compute in ("<<<M389>>>" ++ check (@nil rune)).
Eval vm_compute in ("<<<M399>>>" ++ check (runes_of_ascii "MetaData o")).
Eval vm_compute in ("<<<M409>>>" ++ check (runes_of_ascii "MetaData o { char[")).
Eval vm_compute in ("<<<M419>>>" ++ check (runes_of_ascii "MetaData o { char[ // `tick` ""quote"" 'q'
3]")).
Eval vm_compute in ("<<<M429>>>" ++ check (runes_of_ascii "MetaData o { char[ // `tick` ""quote"" 'q'
3] body,")).
Eval vm_compute in ("<<<M439>>>" ++ check (runes_of_ascii "MetaData o { char[ // `tick` ""quote"" 'q'
3] body, } packet")).
Eval vm_compute in ("<<<M449>>>" ++ check (runes_of_ascii "MetaData o { char[ // `tick` ""quote"" 'q'
3] body, } packet o{")).
Eval vm_compute in ("<<<M459>>>" ++ check (runes_of_ascii "MetaData o { char[ // `tick` ""quote"" 'q'
3] body, } packet o{
u8
charz")).
Eval vm_compute in ("<<<M469>>>" ++ check (runes_of_ascii "MetaData o { char[ // `tick` ""quote"" 'q'
3] body, } packet o# {
u8
charz ,
    }")).
Eval vm_compute in ("<<<M479>>>" ++ check (runes_of_ascii "MetaData o { char[ // `tick` ""quote"" 'q'
3] body, } packet /o{
u8
charz ,
    }")).
Eval vm_compute in ("<<<M489>>>" ++ check (runes_of_ascii "= {calculatedFrom =	int8 ;}

")).
Eval vm_compute in ("<<<M499>>>" ++ check (runes_of_ascii "options {i64 =	int8 ;}

")).
Eval vm_compute in ("<<<M509>>>" ++ check (runes_of_ascii "options {calculatedFrom =	packet ;}

")).
Eval vm_compute in ("<<<M519>>>" ++ check (runes_of_ascii "options {calculatedFrom =	int8 ;")).
Eval vm_compute in ("<<<M529>>>" ++ check (runes_of_ascii "options {calculatedFrom =	int8 ;}

?")).
Eval vm_compute in ("<<<M539>>>" ++ check (runes_of_ascii "options {" ++ [21517; 23383]%N ++ runes_of_ascii " =	int8 ;}

")).
Eval vm_compute in ("<<<M549>>>" ++ check (runes_of_ascii "
MetaData chars {Logon packetx,
    float calculatedFrom
,  ")).
Eval vm_compute in ("<<<M559>>>" ++ check (runes_of_ascii "
MetaData chars {Logon packetx,
    float calculatedFrom
',  u32 i64_ ,	}")).
Eval vm_compute in ("<<<M569>>>" ++ check (runes_of_ascii "// only a comment")).
Eval vm_compute in ("<<<M579>>>" ++ check (runes_of_ascii "uint32 ]")).
Eval vm_compute in ("<<<M589>>>" ++ check ([65533; 65533; 1186]%N ++ runes_of_ascii "2s" ++ [18]%N ++ runes_of_ascii "nCd" ++ [65533]%N ++ runes_of_ascii ":" ++ [65533; 65533]%N ++ runes_of_ascii "0" ++ [65533; 65533]%N ++ runes_of_ascii """" ++ [65533]%N ++ runes_of_ascii "\%" ++ [65533; 65533]%N)).
Eval vm_compute in ("<<<M599>>>" ++ check (runes_of_ascii "`say ""hi""` { i16 = @tag(")).
