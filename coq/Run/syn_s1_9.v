From FP Require Import Lexer Parser ShowPT Digest.
From Coq Require Import String List NArith.
Import ListNotations.
Open Scope string_scope.
Set Printing Width 100000000.
Set Printing Depth 100000000.
Definition nl : string := String (Ascii.ascii_of_nat 10) EmptyString.
Definition model_lex (rs : list rune) : string := show_toks (lex rs).
Definition model_parse (rs : list rune) : string :=
  show_pt (match lex rs with Some ts => parse ts | None => None end).
(* coqc is slow at printing long strings: digests first (Digest.v), full texts on demand *)
Definition check (rs : list rune) : string :=
  digest (model_lex rs) ++ " " ++ digest (model_parse rs).
Definition full (rs : list rune) : string := model_lex rs ++ nl ++ model_parse rs.
Definition terms (ts : list tok) (t : pt) : string :=
  digest (show_toks (Some ts)) ++ " " ++ digest (show_pt (Some t)) ++ " " ++ digest (show_pt (parse ts)).
Definition terms_full (ts : list tok) (t : pt) : string :=
  show_toks (Some ts) ++ nl ++ show_pt (Some t) ++ nl ++ show_pt (parse ts).
Eval vm_compute in ("<<<M9>>>" ++ check (runes_of_ascii "MetaData len{
    zchar
    // " ++ [128512]%N ++ runes_of_ascii " emoji
    Header `line1
line2` ,	}
")).
Eval vm_compute in ("<<<M19>>>" ++ check (runes_of_ascii "packet string_	{ }packet
    matchKey
    { }
")).
Eval vm_compute in ("<<<M29>>>" ++ check (runes_of_ascii " 	 ")).
Eval vm_compute in ("<<<M39>>>" ++ check (runes_of_ascii "// `tick` ""quote"" 'q'
MetaData
    pack {
string MetaDataX , //
zchar[ 65535
] i8i8, pack rootA	`a\` ,
    string_ Header `it's` ,
int64
string_ ,
/// triple
//	t
char[]
packetx
,	} options
    { trueish
= ' '
; i64_ =
i16 pack = u16
;
len =false }	MetaData i64_{ }")).
Eval vm_compute in ("<<<M49>>>" ++ check (runes_of_ascii "packet uint8x // 50% %s
{ char[]
crc`" ++ [233]%N ++ runes_of_ascii "`
,
u8 //x
BodyLength`crlf
line` , @tag(65535 )
@calculatedFrom( ""packet"" ) uint8x {
lengthOf
{ match
u8x as msg_type  {
    ""{,}"" : metadata
, 4294967296 : float ,10 :
a1 ,	65535 : len, """ ++ [128512]%N ++ runes_of_ascii """
: zchar ,[
""" ++ [128512]%N ++ runes_of_ascii """ ]
    :
Pad	,} , zchar[ 42 ] leftPad , f64/// triple
crc ,
    u64
A@calculatedFrom( ""CRC32"" ) , }
    , }
, @lengthOf(
crc) repeat
u128 Pad
    , stringy
    trueish`say ""hi""`
,
As matchKey  ,@tag( 10 )
    charz @calculatedFrom( ""it's"") // trailing space 
, // " ++ [128512]%N ++ runes_of_ascii " emoji
@rightPad (
' ' ) a1 float	,
}
")).
Eval vm_compute in ("<<<M59>>>" ++ check (runes_of_ascii "packet Header { repeat int32 options1
, } //x")).
Eval vm_compute in ("<<<M69>>>" ++ check (runes_of_ascii "// packet A { u8 x, }
MetaData len { uint16 stringy	`tab	here` , char  msg_type ,}packet Header{leftPad{ trueish , u
, repeat crc asx ,
} , @calculatedFrom(""" ++ [128512]%N ++ runes_of_ascii """
) // packet A { u8 x, }
uint32
int ,calculatedFrom @calculatedFrom( ""\n"") , @leftPad (
    ' ' )@calculatedFrom( """ ++ [233]%N ++ runes_of_ascii "t" ++ [233]%N ++ runes_of_ascii """ )@tag( 007 )
    // packet A { u8 x, }
    char[ 00] As , } packet _x { /// triple
@calculatedFrom( """ ++ [128512]%N ++ runes_of_ascii """	) repeat calculatedFrom
`" ++ [28040; 24687; 31867; 22411]%N ++ runes_of_ascii "`,@tag( 10
)
// a // b
// c
repeat
    Foo, @calculatedFrom(
    // @lengthOf(
    ""abc"") @calculatedFrom(""x y"") @lengthOf( i64_) repeat Z9_
    int
    `u8 x,` ,
}")).
Eval vm_compute in ("<<<T69>>>" ++ terms [mkTok 44 "// packet A { u8 x, }" 1 0 true; mkTok 37 "MetaData" 2 0 false; mkTok 42 "len" 2 9 false; mkTok 2 "{" 2 13 false; mkTok 21 "uint16" 2 15 false; mkTok 42 "stringy" 2 22 false; mkTok 43 (string_of_bytes [96; 116; 97; 98; 9; 104; 101; 114; 101; 96]%N) 2 30 false; mkTok 40 "," 2 41 false; mkTok 19 "char" 2 43 false; mkTok 42 "msg_type" 2 49 false; mkTok 40 "," 2 58 false; mkTok 3 "}" 2 59 false; mkTok 35 "packet" 2 60 false; mkTok 42 "Header" 2 67 false; mkTok 2 "{" 2 73 false; mkTok 42 "leftPad" 2 74 false; mkTok 2 "{" 2 81 false; mkTok 42 "trueish" 2 83 false; mkTok 40 "," 2 91 false; mkTok 42 "u" 2 93 false; mkTok 40 "," 3 0 false; mkTok 36 "repeat" 3 2 false; mkTok 42 "crc" 3 9 false; mkTok 42 "asx" 3 13 false; mkTok 40 "," 3 17 false; mkTok 3 "}" 4 0 false; mkTok 40 "," 4 2 false; mkTok 5 "@calculatedFrom(" 4 4 false; mkTok 31 (string_of_bytes [34; 240; 159; 152; 128; 34]%N) 4 20 false; mkTok 6 ")" 5 0 false; mkTok 44 "// packet A { u8 x, }" 5 2 true; mkTok 22 "uint32" 6 0 false; mkTok 42 "int" 7 0 false; mkTok 40 "," 7 4 false; mkTok 42 "calculatedFrom" 7 5 false; mkTok 5 "@calculatedFrom(" 7 20 false; mkTok 31 """\n""" 7 37 false; mkTok 6 ")" 7 41 false; mkTok 40 "," 7 43 false; mkTok 32 "@leftPad" 7 45 false; mkTok 8 "(" 7 54 false; mkTok 33 "' '" 8 4 false; mkTok 6 ")" 8 8 false; mkTok 5 "@calculatedFrom(" 8 9 false; mkTok 31 (string_of_bytes [34; 195; 169; 116; 195; 169; 34]%N) 8 26 false; mkTok 6 ")" 8 32 false; mkTok 9 "@tag(" 8 33 false; mkTok 30 "007" 8 39 false; mkTok 6 ")" 8 43 false; mkTok 44 "// packet A { u8 x, }" 9 4 true; mkTok 12 "char[" 10 4 false; mkTok 30 "00" 10 10 false; mkTok 13 "]" 10 12 false; mkTok 42 "As" 10 14 false; mkTok 40 "," 10 17 false; mkTok 3 "}" 10 19 false; mkTok 35 "packet" 10 21 false; mkTok 42 "_x" 10 28 false; mkTok 2 "{" 10 31 false; mkTok 44 "/// triple" 10 33 true; mkTok 5 "@calculatedFrom(" 11 0 false; mkTok 31 (string_of_bytes [34; 240; 159; 152; 128; 34]%N) 11 17 false; mkTok 6 ")" 11 21 false; mkTok 36 "repeat" 11 23 false; mkTok 42 "calculatedFrom" 11 30 false; mkTok 43 (string_of_bytes [96; 230; 182; 136; 230; 129; 175; 231; 177; 187; 229; 158; 139; 96]%N) 12 0 false; mkTok 40 "," 12 6 false; mkTok 9 "@tag(" 12 7 false; mkTok 30 "10" 12 13 false; mkTok 6 ")" 13 0 false; mkTok 44 "// a // b" 14 0 true; mkTok 44 "// c" 15 0 true; mkTok 36 "repeat" 16 0 false; mkTok 42 "Foo" 17 4 false; mkTok 40 "," 17 7 false; mkTok 5 "@calculatedFrom(" 17 9 false; mkTok 44 "// @lengthOf(" 18 4 true; mkTok 31 """abc""" 19 4 false; mkTok 6 ")" 19 9 false; mkTok 5 "@calculatedFrom(" 19 11 false; mkTok 31 """x y""" 19 27 false; mkTok 6 ")" 19 32 false; mkTok 7 "@lengthOf(" 19 34 false; mkTok 42 "i64_" 19 45 false; mkTok 6 ")" 19 49 false; mkTok 36 "repeat" 19 51 false; mkTok 42 "Z9_" 19 58 false; mkTok 42 "int" 20 4 false; mkTok 43 "`u8 x,`" 21 4 false; mkTok 40 "," 21 12 false; mkTok 3 "}" 22 0 false; mkTok 0 "<EOF>" 22 1 false] (mkPacket (mkPtok 37 "MetaData" 2 0 1) (Some (mkPtok 3 "}" 22 0 90)) [(DMeta (mkMetaDef (mkSpan (mkPtok 37 "MetaData" 2 0 1) (mkPtok 3 "}" 2 59 11)) (mkPtok 37 "MetaData" 2 0 1) (mkPtok 42 "len" 2 9 2) (mkPtok 2 "{" 2 13 3) [(MIDecl (mkMetaDecl (mkSpan (mkPtok 21 "uint16" 2 15 4) (mkPtok 40 "," 2 41 7)) (TyBasic (mkSpan (mkPtok 21 "uint16" 2 15 4) (mkPtok 21 "uint16" 2 15 4)) (mkBasicType (mkSpan (mkPtok 21 "uint16" 2 15 4) (mkPtok 21 "uint16" 2 15 4)) (mkPtok 21 "uint16" 2 15 4))) (mkPtok 42 "stringy" 2 22 5) (Some (mkPtok 43 (string_of_bytes [96; 116; 97; 98; 9; 104; 101; 114; 101; 96]%N) 2 30 6)) (mkPtok 40 "," 2 41 7))); (MIDecl (mkMetaDecl (mkSpan (mkPtok 19 "char" 2 43 8) (mkPtok 40 "," 2 58 10)) (TyBasic (mkSpan (mkPtok 19 "char" 2 43 8) (mkPtok 19 "char" 2 43 8)) (mkBasicType (mkSpan (mkPtok 19 "char" 2 43 8) (mkPtok 19 "char" 2 43 8)) (mkPtok 19 "char" 2 43 8))) (mkPtok 42 "msg_type" 2 49 9) None (mkPtok 40 "," 2 58 10)))] (mkPtok 3 "}" 2 59 11))); (DPacket (mkPacketDef (mkSpan (mkPtok 35 "packet" 2 60 12) (mkPtok 3 "}" 10 19 55)) None (mkPtok 35 "packet" 2 60 12) (mkPtok 42 "Header" 2 67 13) (mkPtok 2 "{" 2 73 14) [(mkFieldWithAttr (mkSpan (mkPtok 42 "leftPad" 2 74 15) (mkPtok 40 "," 4 2 26)) [] (InerObjectField (mkSpan (mkPtok 42 "leftPad" 2 74 15) (mkPtok 40 "," 4 2 26)) None (InerObjectDecl (mkSpan (mkPtok 42 "leftPad" 2 74 15) (mkPtok 3 "}" 4 0 25)) (mkPtok 42 "leftPad" 2 74 15) (mkPtok 2 "{" 2 81 16) [(ObjectField (mkSpan (mkPtok 42 "trueish" 2 83 17) (mkPtok 40 "," 2 91 18)) None (mkPtok 42 "trueish" 2 83 17) None None (mkPtok 40 "," 2 91 18)); (ObjectField (mkSpan (mkPtok 42 "u" 2 93 19) (mkPtok 40 "," 3 0 20)) None (mkPtok 42 "u" 2 93 19) None None (mkPtok 40 "," 3 0 20)); (ObjectField (mkSpan (mkPtok 36 "repeat" 3 2 21) (mkPtok 40 "," 3 17 24)) (Some (mkPtok 36 "repeat" 3 2 21)) (mkPtok 42 "crc" 3 9 22) (Some (mkPtok 42 "asx" 3 13 23)) None (mkPtok 40 "," 3 17 24))] (mkPtok 3 "}" 4 0 25)) (mkPtok 40 "," 4 2 26))); (mkFieldWithAttr (mkSpan (mkPtok 5 "@calculatedFrom(" 4 4 27) (mkPtok 40 "," 7 4 33)) [(FACalculatedFrom (mkSpan (mkPtok 5 "@calculatedFrom(" 4 4 27) (mkPtok 6 ")" 5 0 29)) (mkCalculatedFrom (mkSpan (mkPtok 5 "@calculatedFrom(" 4 4 27) (mkPtok 6 ")" 5 0 29)) (mkPtok 5 "@calculatedFrom(" 4 4 27) (mkPtok 31 (string_of_bytes [34; 240; 159; 152; 128; 34]%N) 4 20 28) (mkPtok 6 ")" 5 0 29)))] (MetaField (mkSpan (mkPtok 22 "uint32" 6 0 31) (mkPtok 40 "," 7 4 33)) None (mkMetaDecl (mkSpan (mkPtok 22 "uint32" 6 0 31) (mkPtok 40 "," 7 4 33)) (TyBasic (mkSpan (mkPtok 22 "uint32" 6 0 31) (mkPtok 22 "uint32" 6 0 31)) (mkBasicType (mkSpan (mkPtok 22 "uint32" 6 0 31) (mkPtok 22 "uint32" 6 0 31)) (mkPtok 22 "uint32" 6 0 31))) (mkPtok 42 "int" 7 0 32) None (mkPtok 40 "," 7 4 33)))); (mkFieldWithAttr (mkSpan (mkPtok 42 "calculatedFrom" 7 5 34) (mkPtok 40 "," 7 43 38)) [] (CheckSumField (mkSpan (mkPtok 42 "calculatedFrom" 7 5 34) (mkPtok 40 "," 7 43 38)) (mkChecksumFieldDecl (mkSpan (mkPtok 42 "calculatedFrom" 7 5 34) (mkPtok 40 "," 7 43 38)) None (mkPtok 42 "calculatedFrom" 7 5 34) (mkCalculatedFrom (mkSpan (mkPtok 5 "@calculatedFrom(" 7 20 35) (mkPtok 6 ")" 7 41 37)) (mkPtok 5 "@calculatedFrom(" 7 20 35) (mkPtok 31 """\n""" 7 37 36) (mkPtok 6 ")" 7 41 37)) None (mkPtok 40 "," 7 43 38)))); (mkFieldWithAttr (mkSpan (mkPtok 32 "@leftPad" 7 45 39) (mkPtok 40 "," 10 17 54)) [(FAPadding (mkSpan (mkPtok 32 "@leftPad" 7 45 39) (mkPtok 6 ")" 8 8 42)) (mkPaddingAttr (mkSpan (mkPtok 32 "@leftPad" 7 45 39) (mkPtok 6 ")" 8 8 42)) (mkPtok 32 "@leftPad" 7 45 39) (mkPtok 8 "(" 7 54 40) (Some (mkPtok 33 "' '" 8 4 41)) (mkPtok 6 ")" 8 8 42))); (FACalculatedFrom (mkSpan (mkPtok 5 "@calculatedFrom(" 8 9 43) (mkPtok 6 ")" 8 32 45)) (mkCalculatedFrom (mkSpan (mkPtok 5 "@calculatedFrom(" 8 9 43) (mkPtok 6 ")" 8 32 45)) (mkPtok 5 "@calculatedFrom(" 8 9 43) (mkPtok 31 (string_of_bytes [34; 195; 169; 116; 195; 169; 34]%N) 8 26 44) (mkPtok 6 ")" 8 32 45))); (FATag (mkSpan (mkPtok 9 "@tag(" 8 33 46) (mkPtok 6 ")" 8 43 48)) (mkTagAttr (mkSpan (mkPtok 9 "@tag(" 8 33 46) (mkPtok 6 ")" 8 43 48)) (mkPtok 9 "@tag(" 8 33 46) (mkPtok 30 "007" 8 39 47) (mkPtok 6 ")" 8 43 48)))] (MetaField (mkSpan (mkPtok 12 "char[" 10 4 50) (mkPtok 40 "," 10 17 54)) None (mkMetaDecl (mkSpan (mkPtok 12 "char[" 10 4 50) (mkPtok 40 "," 10 17 54)) (TyFixed (mkSpan (mkPtok 12 "char[" 10 4 50) (mkPtok 13 "]" 10 12 52)) (mkFixedString (mkSpan (mkPtok 12 "char[" 10 4 50) (mkPtok 13 "]" 10 12 52)) (mkPtok 12 "char[" 10 4 50) (mkPtok 30 "00" 10 10 51) (mkPtok 13 "]" 10 12 52))) (mkPtok 42 "As" 10 14 53) None (mkPtok 40 "," 10 17 54))))] (mkPtok 3 "}" 10 19 55))); (DPacket (mkPacketDef (mkSpan (mkPtok 35 "packet" 10 21 56) (mkPtok 3 "}" 22 0 90)) None (mkPtok 35 "packet" 10 21 56) (mkPtok 42 "_x" 10 28 57) (mkPtok 2 "{" 10 31 58) [(mkFieldWithAttr (mkSpan (mkPtok 5 "@calculatedFrom(" 11 0 60) (mkPtok 40 "," 12 6 66)) [(FACalculatedFrom (mkSpan (mkPtok 5 "@calculatedFrom(" 11 0 60) (mkPtok 6 ")" 11 21 62)) (mkCalculatedFrom (mkSpan (mkPtok 5 "@calculatedFrom(" 11 0 60) (mkPtok 6 ")" 11 21 62)) (mkPtok 5 "@calculatedFrom(" 11 0 60) (mkPtok 31 (string_of_bytes [34; 240; 159; 152; 128; 34]%N) 11 17 61) (mkPtok 6 ")" 11 21 62)))] (ObjectField (mkSpan (mkPtok 36 "repeat" 11 23 63) (mkPtok 40 "," 12 6 66)) (Some (mkPtok 36 "repeat" 11 23 63)) (mkPtok 42 "calculatedFrom" 11 30 64) None (Some (mkPtok 43 (string_of_bytes [96; 230; 182; 136; 230; 129; 175; 231; 177; 187; 229; 158; 139; 96]%N) 12 0 65)) (mkPtok 40 "," 12 6 66))); (mkFieldWithAttr (mkSpan (mkPtok 9 "@tag(" 12 7 67) (mkPtok 40 "," 17 7 74)) [(FATag (mkSpan (mkPtok 9 "@tag(" 12 7 67) (mkPtok 6 ")" 13 0 69)) (mkTagAttr (mkSpan (mkPtok 9 "@tag(" 12 7 67) (mkPtok 6 ")" 13 0 69)) (mkPtok 9 "@tag(" 12 7 67) (mkPtok 30 "10" 12 13 68) (mkPtok 6 ")" 13 0 69)))] (ObjectField (mkSpan (mkPtok 36 "repeat" 16 0 72) (mkPtok 40 "," 17 7 74)) (Some (mkPtok 36 "repeat" 16 0 72)) (mkPtok 42 "Foo" 17 4 73) None None (mkPtok 40 "," 17 7 74))); (mkFieldWithAttr (mkSpan (mkPtok 5 "@calculatedFrom(" 17 9 75) (mkPtok 40 "," 21 12 89)) [(FACalculatedFrom (mkSpan (mkPtok 5 "@calculatedFrom(" 17 9 75) (mkPtok 6 ")" 19 9 78)) (mkCalculatedFrom (mkSpan (mkPtok 5 "@calculatedFrom(" 17 9 75) (mkPtok 6 ")" 19 9 78)) (mkPtok 5 "@calculatedFrom(" 17 9 75) (mkPtok 31 """abc""" 19 4 77) (mkPtok 6 ")" 19 9 78))); (FACalculatedFrom (mkSpan (mkPtok 5 "@calculatedFrom(" 19 11 79) (mkPtok 6 ")" 19 32 81)) (mkCalculatedFrom (mkSpan (mkPtok 5 "@calculatedFrom(" 19 11 79) (mkPtok 6 ")" 19 32 81)) (mkPtok 5 "@calculatedFrom(" 19 11 79) (mkPtok 31 """x y""" 19 27 80) (mkPtok 6 ")" 19 32 81))); (FALengthOf (mkSpan (mkPtok 7 "@lengthOf(" 19 34 82) (mkPtok 6 ")" 19 49 84)) (mkLengthOf (mkSpan (mkPtok 7 "@lengthOf(" 19 34 82) (mkPtok 6 ")" 19 49 84)) (mkPtok 7 "@lengthOf(" 19 34 82) (mkPtok 42 "i64_" 19 45 83) (mkPtok 6 ")" 19 49 84)))] (ObjectField (mkSpan (mkPtok 36 "repeat" 19 51 85) (mkPtok 40 "," 21 12 89)) (Some (mkPtok 36 "repeat" 19 51 85)) (mkPtok 42 "Z9_" 19 58 86) (Some (mkPtok 42 "int" 20 4 87)) (Some (mkPtok 43 "`u8 x,`" 21 4 88)) (mkPtok 40 "," 21 12 89)))] (mkPtok 3 "}" 22 0 90)))])).
Eval vm_compute in ("<<<M79>>>" ++ check (runes_of_ascii "options
{ }")).
Eval vm_compute in ("<<<M89>>>" ++ check (runes_of_ascii "packet	i64_ { }
")).
Eval vm_compute in ("<<<M99>>>" ++ check (runes_of_ascii "packet calculatedFrom
{
    @tag( 00)
    @calculatedFrom(
""`tick`"" ) trueish@calculatedFrom(""x y"" )	,
i8 // 50% %s
u8x , @lengthOf( body ) uint8x
x ,  msg_type { // packet A { u8 x, }
char[] Pad`two words` ,
} , } //	t
options { charz =
    7 ; u8x = zchar[ 255 ]
;//	t
u128
    =""`tick`"" calculatedFrom = false
;} options {}
")).
Eval vm_compute in ("<<<M109>>>" ++ check (runes_of_ascii "MetaData Foo{ uint64
uint8x
`` ,int16
Z9_
    ,
    uint8x i8i8,
}
packet Header { @lengthOf(o  ) @rightPad
    ( '0'  )
zchar[ 0123456789 ] Z9_,
} packet	Foo { repeat	uint8 T , }packet packetx
    // @lengthOf(
    { }")).
Eval vm_compute in ("<<<M119>>>" ++ check (runes_of_ascii "options
{Packet =char[ 7
/// triple
//
] ;
a1
=""it's"" ;}MetaData charz {
    As calculatedFrom , uint8 float
    `{ , }`
, charz msg_type
    , }
    MetaData i8i8
{char[]// " ++ [128512]%N ++ runes_of_ascii " emoji
x_y_z
`say ""hi""`,
}
packet i64_	{ @tag(
0123456789 )
x_y_z@calculatedFrom( ""it's""	) ,@rightPad
(  ' '	) @tag(007 ) leftPad {
    // @lengthOf(
    zchar[ 00 ] Pad, }	,int32
    _x @lengthOf(BodyLength )
,@calculatedFrom(""{,}"" )
    float32 Foo ,rootA
@lengthOf( charz) , f64 _x@calculatedFrom( ""{,}""  )	`a\`
    , }")).
Eval vm_compute in ("<<<M129>>>" ++ check (runes_of_ascii "options {	string_ =u32 ;
//x
// `tick` ""quote"" 'q'
options1 = ""`tick`"" ;
} 	 ")).
Eval vm_compute in ("<<<M139>>>" ++ check (runes_of_ascii "packet As{ trueish @lengthOf( roots ) , }
packet charz{}	options  { charz
= ""a	b"" uint8x=
    // a // b
    4294967296 ; uint8x
= '\x00' tag = string }
")).
Eval vm_compute in ("<<<T139>>>" ++ terms [mkTok 35 "packet" 1 0 false; mkTok 42 "As" 1 7 false; mkTok 2 "{" 1 9 false; mkTok 42 "trueish" 1 11 false; mkTok 7 "@lengthOf(" 1 19 false; mkTok 42 "roots" 1 30 false; mkTok 6 ")" 1 36 false; mkTok 40 "," 1 38 false; mkTok 3 "}" 1 40 false; mkTok 35 "packet" 2 0 false; mkTok 42 "charz" 2 7 false; mkTok 2 "{" 2 12 false; mkTok 3 "}" 2 13 false; mkTok 1 "options" 2 15 false; mkTok 2 "{" 2 24 false; mkTok 42 "charz" 2 26 false; mkTok 4 "=" 3 0 false; mkTok 31 (string_of_bytes [34; 97; 9; 98; 34]%N) 3 2 false; mkTok 42 "uint8x" 3 8 false; mkTok 4 "=" 3 14 false; mkTok 44 "// a // b" 4 4 true; mkTok 30 "4294967296" 5 4 false; mkTok 41 ";" 5 15 false; mkTok 42 "uint8x" 5 17 false; mkTok 4 "=" 6 0 false; mkTok 33 "'\x00'" 6 2 false; mkTok 42 "tag" 6 9 false; mkTok 4 "=" 6 13 false; mkTok 15 "string" 6 15 false; mkTok 3 "}" 6 22 false; mkTok 0 "<EOF>" 7 0 false] (mkPacket (mkPtok 35 "packet" 1 0 0) (Some (mkPtok 3 "}" 6 22 29)) [(DPacket (mkPacketDef (mkSpan (mkPtok 35 "packet" 1 0 0) (mkPtok 3 "}" 1 40 8)) None (mkPtok 35 "packet" 1 0 0) (mkPtok 42 "As" 1 7 1) (mkPtok 2 "{" 1 9 2) [(mkFieldWithAttr (mkSpan (mkPtok 42 "trueish" 1 11 3) (mkPtok 40 "," 1 38 7)) [] (LengthField (mkSpan (mkPtok 42 "trueish" 1 11 3) (mkPtok 40 "," 1 38 7)) (mkLengthFieldDecl (mkSpan (mkPtok 42 "trueish" 1 11 3) (mkPtok 40 "," 1 38 7)) None (mkPtok 42 "trueish" 1 11 3) (mkLengthOf (mkSpan (mkPtok 7 "@lengthOf(" 1 19 4) (mkPtok 6 ")" 1 36 6)) (mkPtok 7 "@lengthOf(" 1 19 4) (mkPtok 42 "roots" 1 30 5) (mkPtok 6 ")" 1 36 6)) None (mkPtok 40 "," 1 38 7))))] (mkPtok 3 "}" 1 40 8))); (DPacket (mkPacketDef (mkSpan (mkPtok 35 "packet" 2 0 9) (mkPtok 3 "}" 2 13 12)) None (mkPtok 35 "packet" 2 0 9) (mkPtok 42 "charz" 2 7 10) (mkPtok 2 "{" 2 12 11) [] (mkPtok 3 "}" 2 13 12))); (DOption (mkOptionDef (mkSpan (mkPtok 1 "options" 2 15 13) (mkPtok 3 "}" 6 22 29)) (mkPtok 1 "options" 2 15 13) (mkPtok 2 "{" 2 24 14) [(mkOptionDecl (mkSpan (mkPtok 42 "charz" 2 26 15) (mkPtok 31 (string_of_bytes [34; 97; 9; 98; 34]%N) 3 2 17)) (mkPtok 42 "charz" 2 26 15) (mkPtok 4 "=" 3 0 16) (VString (mkSpan (mkPtok 31 (string_of_bytes [34; 97; 9; 98; 34]%N) 3 2 17) (mkPtok 31 (string_of_bytes [34; 97; 9; 98; 34]%N) 3 2 17)) (mkPtok 31 (string_of_bytes [34; 97; 9; 98; 34]%N) 3 2 17)) None); (mkOptionDecl (mkSpan (mkPtok 42 "uint8x" 3 8 18) (mkPtok 41 ";" 5 15 22)) (mkPtok 42 "uint8x" 3 8 18) (mkPtok 4 "=" 3 14 19) (VDigits (mkSpan (mkPtok 30 "4294967296" 5 4 21) (mkPtok 30 "4294967296" 5 4 21)) (mkPtok 30 "4294967296" 5 4 21)) (Some (mkPtok 41 ";" 5 15 22))); (mkOptionDecl (mkSpan (mkPtok 42 "uint8x" 5 17 23) (mkPtok 33 "'\x00'" 6 2 25)) (mkPtok 42 "uint8x" 5 17 23) (mkPtok 4 "=" 6 0 24) (VPaddingChar (mkSpan (mkPtok 33 "'\x00'" 6 2 25) (mkPtok 33 "'\x00'" 6 2 25)) (mkPtok 33 "'\x00'" 6 2 25)) None); (mkOptionDecl (mkSpan (mkPtok 42 "tag" 6 9 26) (mkPtok 15 "string" 6 15 28)) (mkPtok 42 "tag" 6 9 26) (mkPtok 4 "=" 6 13 27) (VType (mkSpan (mkPtok 15 "string" 6 15 28) (mkPtok 15 "string" 6 15 28)) (TyDynamic (mkSpan (mkPtok 15 "string" 6 15 28) (mkPtok 15 "string" 6 15 28)) (mkDynamicString (mkSpan (mkPtok 15 "string" 6 15 28) (mkPtok 15 "string" 6 15 28)) (mkPtok 15 "string" 6 15 28)))) None)] (mkPtok 3 "}" 6 22 29)))])).
Eval vm_compute in ("<<<M149>>>" ++ check (runes_of_ascii "
root
packet
crc {u32 metadata
, As  falsey//x
`crlf
line` , repeatCount { repeat x_y_z //	t
{
repeat zchar
    crc `u8 x,`
/// triple
// @lengthOf(
,
    // trailing space 
    } ,	char[] MetaDataX @lengthOf( Foo )
    `" ++ [28040; 24687; 31867; 22411]%N ++ runes_of_ascii "`
    , } , } root packet len
    { }
packet//x
roots  { @tag(
    007 )rootA
{
    u32
Z9_ `doc` ,  } , repeat rootA, @tag( 1
) @lengthOf(
//	t
// 50% %s
rootA	)  u64 packetx // trailing space 
,
repeat f64
    u8x ,f32 string_ `two words` , char[ 4294967296// @lengthOf(
]  charz @calculatedFrom(
""CRC32""	), char[]options1 , char[ 42 //
] // a // b
Logon @calculatedFrom(
// c
// @lengthOf(
""" ++ [233]%N ++ runes_of_ascii "t" ++ [233]%N ++ runes_of_ascii """)
    `tab	here`,@rightPad
    ( // @lengthOf(
' '  )match matchKey as packetx	{ 007 // trailing space 
: len , }	,
}
")).
Eval vm_compute in ("<<<M159>>>" ++ check (runes_of_ascii "MetaData matchKey { calculatedFrom A `
` ,  }
    options { tag=
""\" ++ [233]%N ++ runes_of_ascii """ ; Logon = ' '
    Header
= true ; } options { packetx = zchar[
    // " ++ [128512]%N ++ runes_of_ascii " emoji
    3  ]}
")).
Eval vm_compute in ("<<<M169>>>" ++ check (runes_of_ascii "options { charz= ""x y""
    ;
}MetaData Pad
{
    }
packet As
{
    } packet
body { match matchKey as f32a{""a\\"" : tag ,007
:
    tag , 3 : //	t
Packet ,
[ // c
""{,}"" // packet A { u8 x, }
, ""a\\"" , ""{,}"" ]
:
// @lengthOf(
//x
MetaDataX  ,
// c
// " ++ [128512]%N ++ runes_of_ascii " emoji
} , repeat zchar[1 ]
    x_y_z `doc` ,
} packet BodyLength {
}")).
Eval vm_compute in ("<<<M179>>>" ++ check (runes_of_ascii "
")).
Eval vm_compute in ("<<<M189>>>" ++ check (runes_of_ascii "options {As	= 007 x
    // a // b
    =
    false ; x_y_z // trailing space 
= ""a\\""
//
// 50% %s
; }
packet BodyLength{
    @tag(  255
)// " ++ [128512]%N ++ runes_of_ascii " emoji
match trueish
    // c
    as Pad {
""a\\"" : calculatedFrom	, ""a	b""//
:leftPad
    } , }
MetaData calculatedFrom{
    char[ 3 ]matchKey , char[ 4294967296  ] matchKey	, o x_y_z
, lengthOf packetx
    `crlf
line`,
// packet A { u8 x, }
//	t
}
")).
Eval vm_compute in ("<<<M199>>>" ++ check (runes_of_ascii "packet chars {repeat crc	int , falsey
string_ `say ""hi""` ,@leftPad
// `tick` ""quote"" 'q'
// trailing space 
(
) repeat trueish `" ++ [28040; 24687; 31867; 22411]%N ++ runes_of_ascii "`, @calculatedFrom( ""1"" ) // a // b
repeatCount  ,
string chars // " ++ [27880; 37322]%N ++ runes_of_ascii "
@lengthOf(// 50% %s
calculatedFrom
// c
// trailing space 
)	,
    }root  packet//x
uint8x { u64
rootA  `{ , }` ,  string_ ,
    char[]
// c
//
matchKey
    ,	char[ 255
]
_x
// " ++ [27880; 37322]%N ++ runes_of_ascii "
// 50% %s
@calculatedFrom(
    ""1"" ) ,rootA
@calculatedFrom(
""a	b"") `line1
line2`,
    @lengthOf( // @lengthOf(
int
) MetaDataX @lengthOf( msg_type ) ,
    char[] lengthOf
@calculatedFrom( ""a\""b"" ) `a\` , int64 A `" ++ [28040; 24687; 31867; 22411]%N ++ runes_of_ascii "` , Logon{ char[ 7 ]calculatedFrom
,
leftPad ,
_x @calculatedFrom(
""" ++ [128512]%N ++ runes_of_ascii """ )
    ,
repeatCount matchKey
,  } ,
@lengthOf( Logon )
    zchar[ 0
] len `a\` , } // packet A { u8 x, }")).
Eval vm_compute in ("<<<M209>>>" ++ check (runes_of_ascii "MetaData i64_
    { lengthOf tag ,
char[] falsey `a\`
/// triple
//	t
,}
")).
Eval vm_compute in ("<<<T209>>>" ++ terms [mkTok 37 "MetaData" 1 0 false; mkTok 42 "i64_" 1 9 false; mkTok 2 "{" 2 4 false; mkTok 42 "lengthOf" 2 6 false; mkTok 42 "tag" 2 15 false; mkTok 40 "," 2 19 false; mkTok 16 "char[]" 3 0 false; mkTok 42 "falsey" 3 7 false; mkTok 43 "`a\`" 3 14 false; mkTok 44 "/// triple" 4 0 true; mkTok 44 (string_of_bytes [47; 47; 9; 116]%N) 5 0 true; mkTok 40 "," 6 0 false; mkTok 3 "}" 6 1 false; mkTok 0 "<EOF>" 7 0 false] (mkPacket (mkPtok 37 "MetaData" 1 0 0) (Some (mkPtok 3 "}" 6 1 12)) [(DMeta (mkMetaDef (mkSpan (mkPtok 37 "MetaData" 1 0 0) (mkPtok 3 "}" 6 1 12)) (mkPtok 37 "MetaData" 1 0 0) (mkPtok 42 "i64_" 1 9 1) (mkPtok 2 "{" 2 4 2) [(MIRef (mkRefMetaDecl (mkSpan (mkPtok 42 "lengthOf" 2 6 3) (mkPtok 40 "," 2 19 5)) (mkPtok 42 "lengthOf" 2 6 3) (mkPtok 42 "tag" 2 15 4) None (mkPtok 40 "," 2 19 5))); (MIDecl (mkMetaDecl (mkSpan (mkPtok 16 "char[]" 3 0 6) (mkPtok 40 "," 6 0 11)) (TyDynamic (mkSpan (mkPtok 16 "char[]" 3 0 6) (mkPtok 16 "char[]" 3 0 6)) (mkDynamicString (mkSpan (mkPtok 16 "char[]" 3 0 6) (mkPtok 16 "char[]" 3 0 6)) (mkPtok 16 "char[]" 3 0 6))) (mkPtok 42 "falsey" 3 7 7) (Some (mkPtok 43 "`a\`" 3 14 8)) (mkPtok 40 "," 6 0 11)))] (mkPtok 3 "}" 6 1 12)))])).
Eval vm_compute in ("<<<M219>>>" ++ check (runes_of_ascii "  packet  matchKey {@lengthOf( Pad ) repeat int16  trueish `two words` , }")).
Eval vm_compute in ("<<<M229>>>" ++ check (runes_of_ascii "packet
uint8x
    // a // b
    {body
,
i64 uint8x
@calculatedFrom(""`tick`""
// @lengthOf(
//
)
`u8 x,`
, match
    _x
as Z9_{ [  10	, 00 ,42
//
// " ++ [128512]%N ++ runes_of_ascii " emoji
,	""\n"" ,42
, ""`tick`"" ]:x  } ,@lengthOf( metadata
)  zchar[  00 ]	charz @calculatedFrom( ""packet"" )	`` , A
{repeat pack {a1 @lengthOf( i64_) `" ++ [28040; 24687; 31867; 22411]%N ++ runes_of_ascii "`, packetx @lengthOf(
body) `100% of %d`
, repeat char[
255// c
] a1
    , // trailing space 
o rootA`line1
line2` , }
    , }	, uint8x{
crc @calculatedFrom(
    ""x y""  ) , } ,  u16 MetaDataX // " ++ [128512]%N ++ runes_of_ascii " emoji
@lengthOf( f32a ) ,@lengthOf(
// @lengthOf(
// 50% %s
i64_ ) int8// 50% %s
f32a , @calculatedFrom(""CRC32"") string f32a
    , } //x")).
Eval vm_compute in ("<<<M239>>>" ++ check (runes_of_ascii "packet metadata
    { } MetaData trueish
// 50% %s
//
{ metadata Logon
    `a\` , } packet
rootA {	@tag( 255
)
len
    @calculatedFrom( /// triple
""a	b"") ,	repeat f32a ,
    repeat
    body
// " ++ [128512]%N ++ runes_of_ascii " emoji
// `tick` ""quote"" 'q'
{ char[]repeatCount ,
}
    , string u@lengthOf(
    _x
) ,
@tag(255 ) Packet @lengthOf(// c
packetx)	,
metadata
@lengthOf(
    float ) , MetaDataX @calculatedFrom(""" ++ [233]%N ++ runes_of_ascii "t" ++ [233]%N ++ runes_of_ascii """
    )
    ,
repeat
    zchar[0 ] u8x , repeat float64 calculatedFrom
    ,	}
")).
Eval vm_compute in ("<<<M249>>>" ++ check (runes_of_ascii "packet pack{ repeat charz , @leftPad ()  roots @lengthOf( Packet
)
    `it's`  , //	t
}
")).
Eval vm_compute in ("<<<M259>>>" ++ check (runes_of_ascii "//	t
packet repeatCount {
    @tag( 10 //
) int32 BodyLength @lengthOf( x_y_z ) , a1 calculatedFrom //x
,/// triple
}
")).
Eval vm_compute in ("<<<M269>>>" ++ check (runes_of_ascii "options
    {Header// trailing space 
= """ ++ [233]%N ++ runes_of_ascii "t" ++ [233]%N ++ runes_of_ascii """ ; Z9_= true //x
; options1= int8
    ; //	t
}")).
Eval vm_compute in ("<<<M279>>>" ++ check (runes_of_ascii "  packet
stringy
    {	@tag(  0 ) @calculatedFrom(
    // 50% %s
    ""1"") @calculatedFrom(
"""")string chars
    `a\` , @calculatedFrom(
    """ ++ [28040; 24687]%N ++ runes_of_ascii """
) asx metadata
    `" ++ [233]%N ++ runes_of_ascii "`
    , }")).
Eval vm_compute in ("<<<T279>>>" ++ terms [mkTok 35 "packet" 1 2 false; mkTok 42 "stringy" 2 0 false; mkTok 2 "{" 3 4 false; mkTok 9 "@tag(" 3 6 false; mkTok 30 "0" 3 13 false; mkTok 6 ")" 3 15 false; mkTok 5 "@calculatedFrom(" 3 17 false; mkTok 44 "// 50% %s" 4 4 true; mkTok 31 """1""" 5 4 false; mkTok 6 ")" 5 7 false; mkTok 5 "@calculatedFrom(" 5 9 false; mkTok 31 """""" 6 0 false; mkTok 6 ")" 6 2 false; mkTok 15 "string" 6 3 false; mkTok 42 "chars" 6 10 false; mkTok 43 "`a\`" 7 4 false; mkTok 40 "," 7 9 false; mkTok 5 "@calculatedFrom(" 7 11 false; mkTok 31 (string_of_bytes [34; 230; 182; 136; 230; 129; 175; 34]%N) 8 4 false; mkTok 6 ")" 9 0 false; mkTok 42 "asx" 9 2 false; mkTok 42 "metadata" 9 6 false; mkTok 43 (string_of_bytes [96; 195; 169; 96]%N) 10 4 false; mkTok 40 "," 11 4 false; mkTok 3 "}" 11 6 false; mkTok 0 "<EOF>" 11 7 false] (mkPacket (mkPtok 35 "packet" 1 2 0) (Some (mkPtok 3 "}" 11 6 24)) [(DPacket (mkPacketDef (mkSpan (mkPtok 35 "packet" 1 2 0) (mkPtok 3 "}" 11 6 24)) None (mkPtok 35 "packet" 1 2 0) (mkPtok 42 "stringy" 2 0 1) (mkPtok 2 "{" 3 4 2) [(mkFieldWithAttr (mkSpan (mkPtok 9 "@tag(" 3 6 3) (mkPtok 40 "," 7 9 16)) [(FATag (mkSpan (mkPtok 9 "@tag(" 3 6 3) (mkPtok 6 ")" 3 15 5)) (mkTagAttr (mkSpan (mkPtok 9 "@tag(" 3 6 3) (mkPtok 6 ")" 3 15 5)) (mkPtok 9 "@tag(" 3 6 3) (mkPtok 30 "0" 3 13 4) (mkPtok 6 ")" 3 15 5))); (FACalculatedFrom (mkSpan (mkPtok 5 "@calculatedFrom(" 3 17 6) (mkPtok 6 ")" 5 7 9)) (mkCalculatedFrom (mkSpan (mkPtok 5 "@calculatedFrom(" 3 17 6) (mkPtok 6 ")" 5 7 9)) (mkPtok 5 "@calculatedFrom(" 3 17 6) (mkPtok 31 """1""" 5 4 8) (mkPtok 6 ")" 5 7 9))); (FACalculatedFrom (mkSpan (mkPtok 5 "@calculatedFrom(" 5 9 10) (mkPtok 6 ")" 6 2 12)) (mkCalculatedFrom (mkSpan (mkPtok 5 "@calculatedFrom(" 5 9 10) (mkPtok 6 ")" 6 2 12)) (mkPtok 5 "@calculatedFrom(" 5 9 10) (mkPtok 31 """""" 6 0 11) (mkPtok 6 ")" 6 2 12)))] (MetaField (mkSpan (mkPtok 15 "string" 6 3 13) (mkPtok 40 "," 7 9 16)) None (mkMetaDecl (mkSpan (mkPtok 15 "string" 6 3 13) (mkPtok 40 "," 7 9 16)) (TyDynamic (mkSpan (mkPtok 15 "string" 6 3 13) (mkPtok 15 "string" 6 3 13)) (mkDynamicString (mkSpan (mkPtok 15 "string" 6 3 13) (mkPtok 15 "string" 6 3 13)) (mkPtok 15 "string" 6 3 13))) (mkPtok 42 "chars" 6 10 14) (Some (mkPtok 43 "`a\`" 7 4 15)) (mkPtok 40 "," 7 9 16)))); (mkFieldWithAttr (mkSpan (mkPtok 5 "@calculatedFrom(" 7 11 17) (mkPtok 40 "," 11 4 23)) [(FACalculatedFrom (mkSpan (mkPtok 5 "@calculatedFrom(" 7 11 17) (mkPtok 6 ")" 9 0 19)) (mkCalculatedFrom (mkSpan (mkPtok 5 "@calculatedFrom(" 7 11 17) (mkPtok 6 ")" 9 0 19)) (mkPtok 5 "@calculatedFrom(" 7 11 17) (mkPtok 31 (string_of_bytes [34; 230; 182; 136; 230; 129; 175; 34]%N) 8 4 18) (mkPtok 6 ")" 9 0 19)))] (ObjectField (mkSpan (mkPtok 42 "asx" 9 2 20) (mkPtok 40 "," 11 4 23)) None (mkPtok 42 "asx" 9 2 20) (Some (mkPtok 42 "metadata" 9 6 21)) (Some (mkPtok 43 (string_of_bytes [96; 195; 169; 96]%N) 10 4 22)) (mkPtok 40 "," 11 4 23)))] (mkPtok 3 "}" 11 6 24)))])).
Eval vm_compute in ("<<<M289>>>" ++ check (runes_of_ascii "MetaData charz{	char[ 42 ]metadata ,  uint32  options1 // c
,} MetaData stringy { char[
0123456789] Logon // packet A { u8 x, }
`crlf
line` ,}packet
f32a { falsey @lengthOf( Packet ) ,string //
trueish ,zchar[ 255
    ]
msg_type @lengthOf(  Packet
    ) ,float32 MetaDataX
@calculatedFrom( ""abc"" ), string rootA
@lengthOf(
tag ) `` ,@lengthOf(BodyLength // a // b
) Packet { u32 chars
`" ++ [28040; 24687; 31867; 22411]%N ++ runes_of_ascii "`
, falsey,
} , @lengthOf( _x ) @tag( 255
) @calculatedFrom( ""abc"" )chars	`
`
    , repeat _x metadata // c
, repeat char[ 0123456789 ] pack , @lengthOf( f32a	)
    //	t
    @calculatedFrom(
""" ++ [28040; 24687]%N ++ runes_of_ascii """ ) @lengthOf(
// a // b
// " ++ [128512]%N ++ runes_of_ascii " emoji
Logon ) // " ++ [27880; 37322]%N ++ runes_of_ascii "
repeat lengthOf {
    i8i8 { zchar @calculatedFrom( """ ++ [28040; 24687]%N ++ runes_of_ascii """ ) `crlf
line` , } ,char[
65535  ] u8x , int32
chars@lengthOf( leftPad	) `100% of %d`//x
, repeat x , }
    //
    ,
}")).
Eval vm_compute in ("<<<M299>>>" ++ check (runes_of_ascii "MetaData Packet
{ }")).
Eval vm_compute in ("<<<M309>>>" ++ check (runes_of_ascii "
crc	{ char[] Z9_`{ , }`,} options { tag =
    false } packet
// a // b
// @lengthOf(
Pad {Foo @calculatedFrom( // `tick` ""quote"" 'q'
""a\\"" ) ,
    trueish ,
    char[ 00]
    // " ++ [128512]%N ++ runes_of_ascii " emoji
    packetx , }
")).
Eval vm_compute in ("<<<M319>>>" ++ check (runes_of_ascii "MetaData
crc	 char[] Z9_`{ , }`,} options { tag =
    false } packet
// a // b
// @lengthOf(
Pad {Foo @calculatedFrom( // `tick` ""quote"" 'q'
""a\\"" ) ,
    trueish ,
    char[ 00]
    // " ++ [128512]%N ++ runes_of_ascii " emoji
    packetx , }
")).
Eval vm_compute in ("<<<M329>>>" ++ check (runes_of_ascii "MetaData
crc	{ char[] `{ , }`,} options { tag =
    false } packet
// a // b
// @lengthOf(
Pad {Foo @calculatedFrom( // `tick` ""quote"" 'q'
""a\\"" ) ,
    trueish ,
    char[ 00]
    // " ++ [128512]%N ++ runes_of_ascii " emoji
    packetx , }
")).
Eval vm_compute in ("<<<M339>>>" ++ check (runes_of_ascii "MetaData
crc	{ char[] Z9_`{ , }`} options { tag =
    false } packet
// a // b
// @lengthOf(
Pad {Foo @calculatedFrom( // `tick` ""quote"" 'q'
""a\\"" ) ,
    trueish ,
    char[ 00]
    // " ++ [128512]%N ++ runes_of_ascii " emoji
    packetx , }
")).
Eval vm_compute in ("<<<M349>>>" ++ check (runes_of_ascii "MetaData
crc	{ char[] Z9_`{ , }`,}  { tag =
    false } packet
// a // b
// @lengthOf(
Pad {Foo @calculatedFrom( // `tick` ""quote"" 'q'
""a\\"" ) ,
    trueish ,
    char[ 00]
    // " ++ [128512]%N ++ runes_of_ascii " emoji
    packetx , }
")).
Eval vm_compute in ("<<<M359>>>" ++ check (runes_of_ascii "MetaData
crc	{ char[] Z9_`{ , }`,} options {  =
    false } packet
// a // b
// @lengthOf(
Pad {Foo @calculatedFrom( // `tick` ""quote"" 'q'
""a\\"" ) ,
    trueish ,
    char[ 00]
    // " ++ [128512]%N ++ runes_of_ascii " emoji
    packetx , }
")).
Eval vm_compute in ("<<<M369>>>" ++ check (runes_of_ascii "MetaData
crc	{ char[] Z9_`{ , }`,} options { tag =
     } packet
// a // b
// @lengthOf(
Pad {Foo @calculatedFrom( // `tick` ""quote"" 'q'
""a\\"" ) ,
    trueish ,
    char[ 00]
    // " ++ [128512]%N ++ runes_of_ascii " emoji
    packetx , }
")).
Eval vm_compute in ("<<<M379>>>" ++ check (runes_of_ascii "MetaData
crc	{ char[] Z9_`{ , }`,} options { tag =
    false } 
// a // b
// @lengthOf(
Pad {Foo @calculatedFrom( // `tick` ""quote"" 'q'
""a\\"" ) ,
    trueish ,
    char[ 00]
    // " ++ [128512]%N ++ runes_of_ascii " emoji
    packetx , }
")).
Eval vm_compute in ("<<<M389>>>" ++ check (runes_of_ascii "MetaData
crc	{ char[] Z9_`{ , }`,} options { tag =
    false } packet
// a // b
// @lengthOf(
Pad Foo @calculatedFrom( // `tick` ""quote"" 'q'
""a\\"" ) ,
    trueish ,
    char[ 00]
    // " ++ [128512]%N ++ runes_of_ascii " emoji
    packetx , }
")).
Eval vm_compute in ("<<<M399>>>" ++ check (runes_of_ascii "MetaData
crc	{ char[] Z9_`{ , }`,} options { tag =
    false } packet
// a // b
// @lengthOf(
Pad {Foo  // `tick` ""quote"" 'q'
""a\\"" ) ,
    trueish ,
    char[ 00]
    // " ++ [128512]%N ++ runes_of_ascii " emoji
    packetx , }
")).
Eval vm_compute in ("<<<M409>>>" ++ check (runes_of_ascii "MetaData
crc	{ char[] Z9_`{ , }`,} options { tag =
    false } packet
// a // b
// @lengthOf(
Pad {Foo @calculatedFrom( // `tick` ""quote"" 'q'
""a\\""  ,
    trueish ,
    char[ 00]
    // " ++ [128512]%N ++ runes_of_ascii " emoji
    packetx , }
")).
Eval vm_compute in ("<<<M419>>>" ++ check (runes_of_ascii "MetaData
crc	{ char[] Z9_`{ , }`,} options { tag =
    false } packet
// a // b
// @lengthOf(
Pad {Foo @calculatedFrom( // `tick` ""quote"" 'q'
""a\\"" ) ,
     ,
    char[ 00]
    // " ++ [128512]%N ++ runes_of_ascii " emoji
    packetx , }
")).
Eval vm_compute in ("<<<M429>>>" ++ check (runes_of_ascii "MetaData
crc	{ char[] Z9_`{ , }`,} options { tag =
    false } packet
// a // b
// @lengthOf(
Pad {Foo @calculatedFrom( // `tick` ""quote"" 'q'
""a\\"" ) ,
    trueish ,
     00]
    // " ++ [128512]%N ++ runes_of_ascii " emoji
    packetx , }
")).
Eval vm_compute in ("<<<M439>>>" ++ check (runes_of_ascii "MetaData
crc	{ char[] Z9_`{ , }`,} options { tag =
    false } packet
// a // b
// @lengthOf(
Pad {Foo @calculatedFrom( // `tick` ""quote"" 'q'
""a\\"" ) ,
    trueish ,
    char[ 00
    // " ++ [128512]%N ++ runes_of_ascii " emoji
    packetx , }
")).
Eval vm_compute in ("<<<M449>>>" ++ check (runes_of_ascii "MetaData
crc	{ char[] Z9_`{ , }`,} options { tag =
    false } packet
// a // b
// @lengthOf(
Pad {Foo @calculatedFrom( // `tick` ""quote"" 'q'
""a\\"" ) ,
    trueish ,
    char[ 00]
    // " ++ [128512]%N ++ runes_of_ascii " emoji
    packetx  }
")).
Eval vm_compute in ("<<<M459>>>" ++ check (runes_of_ascii "MetaData
crc	{ char[] Z9_`{ , }`,} options { tag =
    false } packet
// a // b
// @lengthOf(
Pad {Foo @calculate")).
Eval vm_compute in ("<<<M469>>>" ++ check (runes_of_ascii "MetaData
crc	{ char[] Z9_`{ , }`,} options { tag =
    false } packet
// a // b
// @lengthOf(
Pad {Foo @calculatedFrom( // `tick` ""quote"" 'q'
""a\\"" ) ,
    trueish ,
    "" char[ 00]
    // " ++ [128512]%N ++ runes_of_ascii " emoji
    packetx , }
")).
Eval vm_compute in ("<<<M479>>>" ++ check (runes_of_ascii "MetaData
crc	{ char[] Z9_`{ , }`,} options { caf" ++ [233]%N ++ runes_of_ascii "_1 =
    false } packet
// a // b
// @lengthOf(
Pad {Foo @calculatedFrom( // `tick` ""quote"" 'q'
""a\\"" ) ,
    trueish ,
    char[ 00]
    // " ++ [128512]%N ++ runes_of_ascii " emoji
    packetx , }
")).
Eval vm_compute in ("<<<M489>>>" ++ check (runes_of_ascii "root packet _x	{ @rightPad (
' ' ) string u8x @lengthOf(
    _x
) , repeat Pad  { // " ++ [128512]%N ++ runes_of_ascii " emoji
As
// `tick` ""quote"" 'q'
//x
{matchKey chars, ,
} , }, }")).
Eval vm_compute in ("<<<M499>>>" ++ check (runes_of_ascii "root packet _x	{ @rightPad @rightPad (
' ' ) string u8x @lengthOf(
    _x
) , repeat Pad  { // " ++ [128512]%N ++ runes_of_ascii " emoji
As
// `tick` ""quote"" 'q'
//x
{matchKey chars,
} , }, }")).
Eval vm_compute in ("<<<M509>>>" ++ check (runes_of_ascii "root packet _x	{ @rightPad (
' ' ) string u8x @lengthOf(
    _x
) , repeat [  { // " ++ [128512]%N ++ runes_of_ascii " emoji
As
// `tick` ""quote"" 'q'
//x
{matchKey chars,
} , }, }")).
Eval vm_compute in ("<<<M519>>>" ++ check (runes_of_ascii "root packet _x	{ @rightPad (
' '  string u8x @lengthOf(
    _x
) , repeat Pad  { // " ++ [128512]%N ++ runes_of_ascii " emoji
As
// `tick` ""quote"" 'q'
//x
{matchKey chars,
} , }, }")).
Eval vm_compute in ("<<<M529>>>" ++ check (runes_of_ascii "root packet _x	{ @rightPad (
' ' ) string u8x @lengthOf(
    _x
) , repeat Pad  { // " ++ [128512]%N ++ runes_of_ascii " emoji
" ++ [21517; 23383]%N ++ runes_of_ascii "
// `tick` ""quote"" 'q'
//x
{matchKey chars,
} , }, }")).
Eval vm_compute in ("<<<M539>>>" ++ check (runes_of_ascii "root packet _x	{ { @rightPad (
' ' ) string u8x @lengthOf(
    _x
) , repeat Pad  { // " ++ [128512]%N ++ runes_of_ascii " emoji
As
// `tick` ""quote"" 'q'
//x
{matchKey chars,
} , }, }")).
Eval vm_compute in ("<<<M549>>>" ++ check (runes_of_ascii "root packet _x	{ @rightPad")).
Eval vm_compute in ("<<<M559>>>" ++ check (runes_of_ascii "root packet _x	{ @rightPad (
' ' ) string u8x @lengthOf(
    _x
) , repeat Pad  { // " ++ [128512]%N ++ runes_of_ascii " emoji
As
// `tick` ""quote"" 'q'
//x
{matchKey chars,
} , } }, }")).
Eval vm_compute in ("<<<M569>>>" ++ check (runes_of_ascii "// only a comment")).
Eval vm_compute in ("<<<T569>>>" ++ terms [mkTok 44 "// only a comment" 1 0 true; mkTok 0 "<EOF>" 1 17 false] (mkPacket (mkPtok 0 "<EOF>" 1 17 1) None [])).
Eval vm_compute in ("<<<M579>>>" ++ check (runes_of_ascii "char as ( i32 @lengthOf( uint64 '0' true char true {")).
Eval vm_compute in ("<<<M589>>>" ++ check ([65533; 65533; 65533]%N ++ runes_of_ascii "E" ++ [0; 65533; 65533]%N ++ runes_of_ascii "^k" ++ [65533]%N ++ runes_of_ascii "(" ++ [65533]%N ++ runes_of_ascii "f" ++ [65533; 1901; 24; 65533; 7]%N ++ runes_of_ascii "-" ++ [22; 1669; 65533; 21]%N ++ runes_of_ascii "E*" ++ [6; 65533]%N ++ runes_of_ascii "=" ++ [65533; 65533]%N ++ runes_of_ascii "5" ++ [65533]%N ++ runes_of_ascii "e")).
Eval vm_compute in ("<<<M599>>>" ++ check (runes_of_ascii "char[ u64 ""packet"" MetaData _x u64 packet string u8 0 @lengthOf( repeat")).
