From FP Require Import Lexer Parser ShowPT Digest.
From Coq Require Import String List NArith.
Import ListNotations.
Open Scope string_scope.
Set Printing Width 100000000.
Set Printing Depth 100000000.
Definition nl : string := String (Ascii.ascii_of_nat 10) EmptyString.
Definition model_lex (rs : list rune) : string := show_toks (lex rs).
Definition model_parse (rs : list rune) : string :=
  show_pt (match lex rs with Some ts => parse ts | None => None end).
(* coqc is slow at printing long strings: digests first (Digest.v), full texts on demand *)
Definition check (rs : list rune) : string :=
  digest (model_lex rs) ++ " " ++ digest (model_parse rs).
Definition full (rs : list rune) : string := model_lex rs ++ nl ++ model_parse rs.
Definition terms (ts : list tok) (t : pt) : string :=
  digest (show_toks (Some ts)) ++ " " ++ digest (show_pt (Some t)) ++ " " ++ digest (show_pt (parse ts)).
Definition terms_full (ts : list tok) (t : pt) : string :=
  show_toks (Some ts) ++ nl ++ show_pt (Some t) ++ nl ++ show_pt (parse ts).
Eval vm_compute in ("<<<M21>>>" ++ check (runes_of_ascii "options { x_y_z =  """ ++ [128512]%N ++ runes_of_ascii """
/// triple
// @lengthOf(
options1 =
""a\\""  ;
    x_y_z  = 255 ; } //x
packet
    charz {
    } // trailing space ")).
Eval vm_compute in ("<<<M53>>>" ++ check (runes_of_ascii "packet BodyLength {}
")).
Eval vm_compute in ("<<<M85>>>" ++ check (runes_of_ascii "
")).
Eval vm_compute in ("<<<M117>>>" ++ check (@nil rune)).
Eval vm_compute in ("<<<M149>>>" ++ check (runes_of_ascii "root packet crc {@calculatedFrom(
""" ++ [128512]%N ++ runes_of_ascii """)
BodyLength{x_y_z i8i8
//
//
, int32 uint8x
`two words` ,	rootA tag , zchar[
7] matchKey
    `" ++ [233]%N ++ runes_of_ascii "` ,} , T { x@calculatedFrom( ""a	b"" )
`// not a comment` ,zchar[ // " ++ [128512]%N ++ runes_of_ascii " emoji
42 ] /// triple
A
, match chars
as
    //x
    len {""packet"" :crc 3//x
:
chars [
0123456789 , ""packet"" ]
    : pack	[""packet""
,
00// " ++ [27880; 37322]%N ++ runes_of_ascii "
,
    7 ,""" ++ [28040; 24687]%N ++ runes_of_ascii """, 3
,  ""packet"",
    42, 0123456789
    ] :
repeatCount	""{,}"" :
chars
    ,/// triple
} ,
} ,
}")).
Eval vm_compute in ("<<<M181>>>" ++ check (runes_of_ascii "root
packet charz {// a // b
@rightPad
    //	t
    (
) @lengthOf(
    Pad ) @rightPad ( ' '
) MetaDataX @lengthOf( BodyLength
) `" ++ [28040; 24687; 31867; 22411]%N ++ runes_of_ascii "`
,
    repeatCount /// triple
A
`
`,	@tag(
    4294967296) // trailing space 
metadata u8x ,
    @calculatedFrom( ""packet"" ) repeat Pad // @lengthOf(
`say ""hi""`
,  } root packet// trailing space 
rootA {// " ++ [27880; 37322]%N ++ runes_of_ascii "
rootA	{ string trueish ,
}
    ,
} MetaData
lengthOf {
    } packet _x { repeat msg_type { char[ 65535 ]
crc ,	lengthOf
    {
    Packet ,
    // c
    string_
    @calculatedFrom(""a\""b""),
f32 rootA//
,
}	,
// " ++ [27880; 37322]%N ++ runes_of_ascii "
// `tick` ""quote"" 'q'
} ,i16 int  , @lengthOf( matchKey) //	t
i8i8 int `two words` ,
// packet A { u8 x, }
// @lengthOf(
repeat Logon{
repeat
    //	t
    uint8	f32a ,
    a1
    //
    { repeat char[1
] Foo , }  , uint8x
// @lengthOf(
// packet A { u8 x, }
{ char[ 4294967296 ]
T `{ , }`
, u32
    repeatCount `" ++ [28040; 24687; 31867; 22411]%N ++ runes_of_ascii "`
    // c
    ,} , }
    ,
repeat MetaDataX
, char[ 4294967296 ] i8i8//
@lengthOf( _x ) ,}
packet falsey {
    tag
{ char[ // " ++ [27880; 37322]%N ++ runes_of_ascii "
00
    // `tick` ""quote"" 'q'
    ] int@lengthOf( u128
    ) ,
}
,roots body ,u16 stringy
// trailing space 
// @lengthOf(
@lengthOf( Pad ) `line1
line2` ,
stringy
@lengthOf(  chars ) ,uint8 lengthOf
`" ++ [233]%N ++ runes_of_ascii "` ,
    // " ++ [128512]%N ++ runes_of_ascii " emoji
    }")).
Eval vm_compute in ("<<<T181>>>" ++ terms [mkTok 34 "root" 1 0 false; mkTok 35 "packet" 2 0 false; mkTok 42 "charz" 2 7 false; mkTok 2 "{" 2 13 false; mkTok 44 "// a // b" 2 14 true; mkTok 32 "@rightPad" 3 0 false; mkTok 44 (string_of_bytes [47; 47; 9; 116]%N) 4 4 true; mkTok 8 "(" 5 4 false; mkTok 6 ")" 6 0 false; mkTok 7 "@lengthOf(" 6 2 false; mkTok 42 "Pad" 7 4 false; mkTok 6 ")" 7 8 false; mkTok 32 "@rightPad" 7 10 false; mkTok 8 "(" 7 20 false; mkTok 33 "' '" 7 22 false; mkTok 6 ")" 8 0 false; mkTok 42 "MetaDataX" 8 2 false; mkTok 7 "@lengthOf(" 8 12 false; mkTok 42 "BodyLength" 8 23 false; mkTok 6 ")" 9 0 false; mkTok 43 (string_of_bytes [96; 230; 182; 136; 230; 129; 175; 231; 177; 187; 229; 158; 139; 96]%N) 9 2 false; mkTok 40 "," 10 0 false; mkTok 42 "repeatCount" 11 4 false; mkTok 44 "/// triple" 11 16 true; mkTok 42 "A" 12 0 false; mkTok 43 (string_of_bytes [96; 10; 96]%N) 13 0 false; mkTok 40 "," 14 1 false; mkTok 9 "@tag(" 14 3 false; mkTok 30 "4294967296" 15 4 false; mkTok 6 ")" 15 14 false; mkTok 44 "// trailing space " 15 16 true; mkTok 42 "metadata" 16 0 false; mkTok 42 "u8x" 16 9 false; mkTok 40 "," 16 13 false; mkTok 5 "@calculatedFrom(" 17 4 false; mkTok 31 """packet""" 17 21 false; mkTok 6 ")" 17 30 false; mkTok 36 "repeat" 17 32 false; mkTok 42 "Pad" 17 39 false; mkTok 44 "// @lengthOf(" 17 43 true; mkTok 43 "`say ""hi""`" 18 0 false; mkTok 40 "," 19 0 false; mkTok 3 "}" 19 3 false; mkTok 34 "root" 19 5 false; mkTok 35 "packet" 19 10 false; mkTok 44 "// trailing space " 19 16 true; mkTok 42 "rootA" 20 0 false; mkTok 2 "{" 20 6 false; mkTok 44 (string_of_bytes [47; 47; 32; 230; 179; 168; 233; 135; 138]%N) 20 7 true; mkTok 42 "rootA" 21 0 false; mkTok 2 "{" 21 6 false; mkTok 15 "string" 21 8 false; mkTok 42 "trueish" 21 15 false; mkTok 40 "," 21 23 false; mkTok 3 "}" 22 0 false; mkTok 40 "," 23 4 false; mkTok 3 "}" 24 0 false; mkTok 37 "MetaData" 24 2 false; mkTok 42 "lengthOf" 25 0 false; mkTok 2 "{" 25 9 false; mkTok 3 "}" 26 4 false; mkTok 35 "packet" 26 6 false; mkTok 42 "_x" 26 13 false; mkTok 2 "{" 26 16 false; mkTok 36 "repeat" 26 18 false; mkTok 42 "msg_type" 26 25 false; mkTok 2 "{" 26 34 false; mkTok 12 "char[" 26 36 false; mkTok 30 "65535" 26 42 false; mkTok 13 "]" 26 48 false; mkTok 42 "crc" 27 0 false; mkTok 40 "," 27 4 false; mkTok 42 "lengthOf" 27 6 false; mkTok 2 "{" 28 4 false; mkTok 42 "Packet" 29 4 false; mkTok 40 "," 29 11 false; mkTok 44 "// c" 30 4 true; mkTok 42 "string_" 31 4 false; mkTok 5 "@calculatedFrom(" 32 4 false; mkTok 31 """a\""b""" 32 20 false; mkTok 6 ")" 32 26 false; mkTok 40 "," 32 27 false; mkTok 28 "f32" 33 0 false; mkTok 42 "rootA" 33 4 false; mkTok 44 "//" 33 9 true; mkTok 40 "," 34 0 false; mkTok 3 "}" 35 0 false; mkTok 40 "," 35 2 false; mkTok 44 (string_of_bytes [47; 47; 32; 230; 179; 168; 233; 135; 138]%N) 36 0 true; mkTok 44 "// `tick` ""quote"" 'q'" 37 0 true; mkTok 3 "}" 38 0 false; mkTok 40 "," 38 2 false; mkTok 25 "i16" 38 3 false; mkTok 42 "int" 38 7 false; mkTok 40 "," 38 12 false; mkTok 7 "@lengthOf(" 38 14 false; mkTok 42 "matchKey" 38 25 false; mkTok 6 ")" 38 33 false; mkTok 44 (string_of_bytes [47; 47; 9; 116]%N) 38 35 true; mkTok 42 "i8i8" 39 0 false; mkTok 42 "int" 39 5 false; mkTok 43 "`two words`" 39 9 false; mkTok 40 "," 39 21 false; mkTok 44 "// packet A { u8 x, }" 40 0 true; mkTok 44 "// @lengthOf(" 41 0 true; mkTok 36 "repeat" 42 0 false; mkTok 42 "Logon" 42 7 false; mkTok 2 "{" 42 12 false; mkTok 36 "repeat" 43 0 false; mkTok 44 (string_of_bytes [47; 47; 9; 116]%N) 44 4 true; mkTok 20 "uint8" 45 4 false; mkTok 42 "f32a" 45 10 false; mkTok 40 "," 45 15 false; mkTok 42 "a1" 46 4 false; mkTok 44 "//" 47 4 true; mkTok 2 "{" 48 4 false; mkTok 36 "repeat" 48 6 false; mkTok 12 "char[" 48 13 false; mkTok 30 "1" 48 18 false; mkTok 13 "]" 49 0 false; mkTok 42 "Foo" 49 2 false; mkTok 40 "," 49 6 false; mkTok 3 "}" 49 8 false; mkTok 40 "," 49 11 false; mkTok 42 "uint8x" 49 13 false; mkTok 44 "// @lengthOf(" 50 0 true; mkTok 44 "// packet A { u8 x, }" 51 0 true; mkTok 2 "{" 52 0 false; mkTok 12 "char[" 52 2 false; mkTok 30 "4294967296" 52 8 false; mkTok 13 "]" 52 19 false; mkTok 42 "T" 53 0 false; mkTok 43 "`{ , }`" 53 2 false; mkTok 40 "," 54 0 false; mkTok 22 "u32" 54 2 false; mkTok 42 "repeatCount" 55 4 false; mkTok 43 (string_of_bytes [96; 230; 182; 136; 230; 129; 175; 231; 177; 187; 229; 158; 139; 96]%N) 55 16 false; mkTok 44 "// c" 56 4 true; mkTok 40 "," 57 4 false; mkTok 3 "}" 57 5 false; mkTok 40 "," 57 7 false; mkTok 3 "}" 57 9 false; mkTok 40 "," 58 4 false; mkTok 36 "repeat" 59 0 false; mkTok 42 "MetaDataX" 59 7 false; mkTok 40 "," 60 0 false; mkTok 12 "char[" 60 2 false; mkTok 30 "4294967296" 60 8 false; mkTok 13 "]" 60 19 false; mkTok 42 "i8i8" 60 21 false; mkTok 44 "//" 60 25 true; mkTok 7 "@lengthOf(" 61 0 false; mkTok 42 "_x" 61 11 false; mkTok 6 ")" 61 14 false; mkTok 40 "," 61 16 false; mkTok 3 "}" 61 17 false; mkTok 35 "packet" 62 0 false; mkTok 42 "falsey" 62 7 false; mkTok 2 "{" 62 14 false; mkTok 42 "tag" 63 4 false; mkTok 2 "{" 64 0 false; mkTok 12 "char[" 64 2 false; mkTok 44 (string_of_bytes [47; 47; 32; 230; 179; 168; 233; 135; 138]%N) 64 8 true; mkTok 30 "00" 65 0 false; mkTok 44 "// `tick` ""quote"" 'q'" 66 4 true; mkTok 13 "]" 67 4 false; mkTok 42 "int" 67 6 false; mkTok 7 "@lengthOf(" 67 9 false; mkTok 42 "u128" 67 20 false; mkTok 6 ")" 68 4 false; mkTok 40 "," 68 6 false; mkTok 3 "}" 69 0 false; mkTok 40 "," 70 0 false; mkTok 42 "roots" 70 1 false; mkTok 42 "body" 70 7 false; mkTok 40 "," 70 12 false; mkTok 21 "u16" 70 13 false; mkTok 42 "stringy" 70 17 false; mkTok 44 "// trailing space " 71 0 true; mkTok 44 "// @lengthOf(" 72 0 true; mkTok 7 "@lengthOf(" 73 0 false; mkTok 42 "Pad" 73 11 false; mkTok 6 ")" 73 15 false; mkTok 43 (string_of_bytes [96; 108; 105; 110; 101; 49; 10; 108; 105; 110; 101; 50; 96]%N) 73 17 false; mkTok 40 "," 74 7 false; mkTok 42 "stringy" 75 0 false; mkTok 7 "@lengthOf(" 76 0 false; mkTok 42 "chars" 76 12 false; mkTok 6 ")" 76 18 false; mkTok 40 "," 76 20 false; mkTok 20 "uint8" 76 21 false; mkTok 42 "lengthOf" 76 27 false; mkTok 43 (string_of_bytes [96; 195; 169; 96]%N) 77 0 false; mkTok 40 "," 77 4 false; mkTok 44 (string_of_bytes [47; 47; 32; 240; 159; 152; 128; 32; 101; 109; 111; 106; 105]%N) 78 4 true; mkTok 3 "}" 79 4 false; mkTok 0 "<EOF>" 79 5 false] (mkPacket (mkPtok 34 "root" 1 0 0) (Some (mkPtok 3 "}" 79 4 195)) [(DPacket (mkPacketDef (mkSpan (mkPtok 34 "root" 1 0 0) (mkPtok 3 "}" 19 3 42)) (Some (mkPtok 34 "root" 1 0 0)) (mkPtok 35 "packet" 2 0 1) (mkPtok 42 "charz" 2 7 2) (mkPtok 2 "{" 2 13 3) [(mkFieldWithAttr (mkSpan (mkPtok 32 "@rightPad" 3 0 5) (mkPtok 40 "," 10 0 21)) [(FAPadding (mkSpan (mkPtok 32 "@rightPad" 3 0 5) (mkPtok 6 ")" 6 0 8)) (mkPaddingAttr (mkSpan (mkPtok 32 "@rightPad" 3 0 5) (mkPtok 6 ")" 6 0 8)) (mkPtok 32 "@rightPad" 3 0 5) (mkPtok 8 "(" 5 4 7) None (mkPtok 6 ")" 6 0 8))); (FALengthOf (mkSpan (mkPtok 7 "@lengthOf(" 6 2 9) (mkPtok 6 ")" 7 8 11)) (mkLengthOf (mkSpan (mkPtok 7 "@lengthOf(" 6 2 9) (mkPtok 6 ")" 7 8 11)) (mkPtok 7 "@lengthOf(" 6 2 9) (mkPtok 42 "Pad" 7 4 10) (mkPtok 6 ")" 7 8 11))); (FAPadding (mkSpan (mkPtok 32 "@rightPad" 7 10 12) (mkPtok 6 ")" 8 0 15)) (mkPaddingAttr (mkSpan (mkPtok 32 "@rightPad" 7 10 12) (mkPtok 6 ")" 8 0 15)) (mkPtok 32 "@rightPad" 7 10 12) (mkPtok 8 "(" 7 20 13) (Some (mkPtok 33 "' '" 7 22 14)) (mkPtok 6 ")" 8 0 15)))] (LengthField (mkSpan (mkPtok 42 "MetaDataX" 8 2 16) (mkPtok 40 "," 10 0 21)) (mkLengthFieldDecl (mkSpan (mkPtok 42 "MetaDataX" 8 2 16) (mkPtok 40 "," 10 0 21)) None (mkPtok 42 "MetaDataX" 8 2 16) (mkLengthOf (mkSpan (mkPtok 7 "@lengthOf(" 8 12 17) (mkPtok 6 ")" 9 0 19)) (mkPtok 7 "@lengthOf(" 8 12 17) (mkPtok 42 "BodyLength" 8 23 18) (mkPtok 6 ")" 9 0 19)) (Some (mkPtok 43 (string_of_bytes [96; 230; 182; 136; 230; 129; 175; 231; 177; 187; 229; 158; 139; 96]%N) 9 2 20)) (mkPtok 40 "," 10 0 21)))); (mkFieldWithAttr (mkSpan (mkPtok 42 "repeatCount" 11 4 22) (mkPtok 40 "," 14 1 26)) [] (ObjectField (mkSpan (mkPtok 42 "repeatCount" 11 4 22) (mkPtok 40 "," 14 1 26)) None (mkPtok 42 "repeatCount" 11 4 22) (Some (mkPtok 42 "A" 12 0 24)) (Some (mkPtok 43 (string_of_bytes [96; 10; 96]%N) 13 0 25)) (mkPtok 40 "," 14 1 26))); (mkFieldWithAttr (mkSpan (mkPtok 9 "@tag(" 14 3 27) (mkPtok 40 "," 16 13 33)) [(FATag (mkSpan (mkPtok 9 "@tag(" 14 3 27) (mkPtok 6 ")" 15 14 29)) (mkTagAttr (mkSpan (mkPtok 9 "@tag(" 14 3 27) (mkPtok 6 ")" 15 14 29)) (mkPtok 9 "@tag(" 14 3 27) (mkPtok 30 "4294967296" 15 4 28) (mkPtok 6 ")" 15 14 29)))] (ObjectField (mkSpan (mkPtok 42 "metadata" 16 0 31) (mkPtok 40 "," 16 13 33)) None (mkPtok 42 "metadata" 16 0 31) (Some (mkPtok 42 "u8x" 16 9 32)) None (mkPtok 40 "," 16 13 33))); (mkFieldWithAttr (mkSpan (mkPtok 5 "@calculatedFrom(" 17 4 34) (mkPtok 40 "," 19 0 41)) [(FACalculatedFrom (mkSpan (mkPtok 5 "@calculatedFrom(" 17 4 34) (mkPtok 6 ")" 17 30 36)) (mkCalculatedFrom (mkSpan (mkPtok 5 "@calculatedFrom(" 17 4 34) (mkPtok 6 ")" 17 30 36)) (mkPtok 5 "@calculatedFrom(" 17 4 34) (mkPtok 31 """packet""" 17 21 35) (mkPtok 6 ")" 17 30 36)))] (ObjectField (mkSpan (mkPtok 36 "repeat" 17 32 37) (mkPtok 40 "," 19 0 41)) (Some (mkPtok 36 "repeat" 17 32 37)) (mkPtok 42 "Pad" 17 39 38) None (Some (mkPtok 43 "`say ""hi""`" 18 0 40)) (mkPtok 40 "," 19 0 41)))] (mkPtok 3 "}" 19 3 42))); (DPacket (mkPacketDef (mkSpan (mkPtok 34 "root" 19 5 43) (mkPtok 3 "}" 24 0 56)) (Some (mkPtok 34 "root" 19 5 43)) (mkPtok 35 "packet" 19 10 44) (mkPtok 42 "rootA" 20 0 46) (mkPtok 2 "{" 20 6 47) [(mkFieldWithAttr (mkSpan (mkPtok 42 "rootA" 21 0 49) (mkPtok 40 "," 23 4 55)) [] (InerObjectField (mkSpan (mkPtok 42 "rootA" 21 0 49) (mkPtok 40 "," 23 4 55)) None (InerObjectDecl (mkSpan (mkPtok 42 "rootA" 21 0 49) (mkPtok 3 "}" 22 0 54)) (mkPtok 42 "rootA" 21 0 49) (mkPtok 2 "{" 21 6 50) [(MetaField (mkSpan (mkPtok 15 "string" 21 8 51) (mkPtok 40 "," 21 23 53)) None (mkMetaDecl (mkSpan (mkPtok 15 "string" 21 8 51) (mkPtok 40 "," 21 23 53)) (TyDynamic (mkSpan (mkPtok 15 "string" 21 8 51) (mkPtok 15 "string" 21 8 51)) (mkDynamicString (mkSpan (mkPtok 15 "string" 21 8 51) (mkPtok 15 "string" 21 8 51)) (mkPtok 15 "string" 21 8 51))) (mkPtok 42 "trueish" 21 15 52) None (mkPtok 40 "," 21 23 53)))] (mkPtok 3 "}" 22 0 54)) (mkPtok 40 "," 23 4 55)))] (mkPtok 3 "}" 24 0 56))); (DMeta (mkMetaDef (mkSpan (mkPtok 37 "MetaData" 24 2 57) (mkPtok 3 "}" 26 4 60)) (mkPtok 37 "MetaData" 24 2 57) (mkPtok 42 "lengthOf" 25 0 58) (mkPtok 2 "{" 25 9 59) [] (mkPtok 3 "}" 26 4 60))); (DPacket (mkPacketDef (mkSpan (mkPtok 35 "packet" 26 6 61) (mkPtok 3 "}" 61 17 155)) None (mkPtok 35 "packet" 26 6 61) (mkPtok 42 "_x" 26 13 62) (mkPtok 2 "{" 26 16 63) [(mkFieldWithAttr (mkSpan (mkPtok 36 "repeat" 26 18 64) (mkPtok 40 "," 38 2 91)) [] (InerObjectField (mkSpan (mkPtok 36 "repeat" 26 18 64) (mkPtok 40 "," 38 2 91)) (Some (mkPtok 36 "repeat" 26 18 64)) (InerObjectDecl (mkSpan (mkPtok 42 "msg_type" 26 25 65) (mkPtok 3 "}" 38 0 90)) (mkPtok 42 "msg_type" 26 25 65) (mkPtok 2 "{" 26 34 66) [(MetaField (mkSpan (mkPtok 12 "char[" 26 36 67) (mkPtok 40 "," 27 4 71)) None (mkMetaDecl (mkSpan (mkPtok 12 "char[" 26 36 67) (mkPtok 40 "," 27 4 71)) (TyFixed (mkSpan (mkPtok 12 "char[" 26 36 67) (mkPtok 13 "]" 26 48 69)) (mkFixedString (mkSpan (mkPtok 12 "char[" 26 36 67) (mkPtok 13 "]" 26 48 69)) (mkPtok 12 "char[" 26 36 67) (mkPtok 30 "65535" 26 42 68) (mkPtok 13 "]" 26 48 69))) (mkPtok 42 "crc" 27 0 70) None (mkPtok 40 "," 27 4 71))); (InerObjectField (mkSpan (mkPtok 42 "lengthOf" 27 6 72) (mkPtok 40 "," 35 2 87)) None (InerObjectDecl (mkSpan (mkPtok 42 "lengthOf" 27 6 72) (mkPtok 3 "}" 35 0 86)) (mkPtok 42 "lengthOf" 27 6 72) (mkPtok 2 "{" 28 4 73) [(ObjectField (mkSpan (mkPtok 42 "Packet" 29 4 74) (mkPtok 40 "," 29 11 75)) None (mkPtok 42 "Packet" 29 4 74) None None (mkPtok 40 "," 29 11 75)); (CheckSumField (mkSpan (mkPtok 42 "string_" 31 4 77) (mkPtok 40 "," 32 27 81)) (mkChecksumFieldDecl (mkSpan (mkPtok 42 "string_" 31 4 77) (mkPtok 40 "," 32 27 81)) None (mkPtok 42 "string_" 31 4 77) (mkCalculatedFrom (mkSpan (mkPtok 5 "@calculatedFrom(" 32 4 78) (mkPtok 6 ")" 32 26 80)) (mkPtok 5 "@calculatedFrom(" 32 4 78) (mkPtok 31 """a\""b""" 32 20 79) (mkPtok 6 ")" 32 26 80)) None (mkPtok 40 "," 32 27 81))); (MetaField (mkSpan (mkPtok 28 "f32" 33 0 82) (mkPtok 40 "," 34 0 85)) None (mkMetaDecl (mkSpan (mkPtok 28 "f32" 33 0 82) (mkPtok 40 "," 34 0 85)) (TyBasic (mkSpan (mkPtok 28 "f32" 33 0 82) (mkPtok 28 "f32" 33 0 82)) (mkBasicType (mkSpan (mkPtok 28 "f32" 33 0 82) (mkPtok 28 "f32" 33 0 82)) (mkPtok 28 "f32" 33 0 82))) (mkPtok 42 "rootA" 33 4 83) None (mkPtok 40 "," 34 0 85)))] (mkPtok 3 "}" 35 0 86)) (mkPtok 40 "," 35 2 87))] (mkPtok 3 "}" 38 0 90)) (mkPtok 40 "," 38 2 91))); (mkFieldWithAttr (mkSpan (mkPtok 25 "i16" 38 3 92) (mkPtok 40 "," 38 12 94)) [] (MetaField (mkSpan (mkPtok 25 "i16" 38 3 92) (mkPtok 40 "," 38 12 94)) None (mkMetaDecl (mkSpan (mkPtok 25 "i16" 38 3 92) (mkPtok 40 "," 38 12 94)) (TyBasic (mkSpan (mkPtok 25 "i16" 38 3 92) (mkPtok 25 "i16" 38 3 92)) (mkBasicType (mkSpan (mkPtok 25 "i16" 38 3 92) (mkPtok 25 "i16" 38 3 92)) (mkPtok 25 "i16" 38 3 92))) (mkPtok 42 "int" 38 7 93) None (mkPtok 40 "," 38 12 94)))); (mkFieldWithAttr (mkSpan (mkPtok 7 "@lengthOf(" 38 14 95) (mkPtok 40 "," 39 21 102)) [(FALengthOf (mkSpan (mkPtok 7 "@lengthOf(" 38 14 95) (mkPtok 6 ")" 38 33 97)) (mkLengthOf (mkSpan (mkPtok 7 "@lengthOf(" 38 14 95) (mkPtok 6 ")" 38 33 97)) (mkPtok 7 "@lengthOf(" 38 14 95) (mkPtok 42 "matchKey" 38 25 96) (mkPtok 6 ")" 38 33 97)))] (ObjectField (mkSpan (mkPtok 42 "i8i8" 39 0 99) (mkPtok 40 "," 39 21 102)) None (mkPtok 42 "i8i8" 39 0 99) (Some (mkPtok 42 "int" 39 5 100)) (Some (mkPtok 43 "`two words`" 39 9 101)) (mkPtok 40 "," 39 21 102))); (mkFieldWithAttr (mkSpan (mkPtok 36 "repeat" 42 0 105) (mkPtok 40 "," 58 4 142)) [] (InerObjectField (mkSpan (mkPtok 36 "repeat" 42 0 105) (mkPtok 40 "," 58 4 142)) (Some (mkPtok 36 "repeat" 42 0 105)) (InerObjectDecl (mkSpan (mkPtok 42 "Logon" 42 7 106) (mkPtok 3 "}" 57 9 141)) (mkPtok 42 "Logon" 42 7 106) (mkPtok 2 "{" 42 12 107) [(MetaField (mkSpan (mkPtok 36 "repeat" 43 0 108) (mkPtok 40 "," 45 15 112)) (Some (mkPtok 36 "repeat" 43 0 108)) (mkMetaDecl (mkSpan (mkPtok 20 "uint8" 45 4 110) (mkPtok 40 "," 45 15 112)) (TyBasic (mkSpan (mkPtok 20 "uint8" 45 4 110) (mkPtok 20 "uint8" 45 4 110)) (mkBasicType (mkSpan (mkPtok 20 "uint8" 45 4 110) (mkPtok 20 "uint8" 45 4 110)) (mkPtok 20 "uint8" 45 4 110))) (mkPtok 42 "f32a" 45 10 111) None (mkPtok 40 "," 45 15 112))); (InerObjectField (mkSpan (mkPtok 42 "a1" 46 4 113) (mkPtok 40 "," 49 11 123)) None (InerObjectDecl (mkSpan (mkPtok 42 "a1" 46 4 113) (mkPtok 3 "}" 49 8 122)) (mkPtok 42 "a1" 46 4 113) (mkPtok 2 "{" 48 4 115) [(MetaField (mkSpan (mkPtok 36 "repeat" 48 6 116) (mkPtok 40 "," 49 6 121)) (Some (mkPtok 36 "repeat" 48 6 116)) (mkMetaDecl (mkSpan (mkPtok 12 "char[" 48 13 117) (mkPtok 40 "," 49 6 121)) (TyFixed (mkSpan (mkPtok 12 "char[" 48 13 117) (mkPtok 13 "]" 49 0 119)) (mkFixedString (mkSpan (mkPtok 12 "char[" 48 13 117) (mkPtok 13 "]" 49 0 119)) (mkPtok 12 "char[" 48 13 117) (mkPtok 30 "1" 48 18 118) (mkPtok 13 "]" 49 0 119))) (mkPtok 42 "Foo" 49 2 120) None (mkPtok 40 "," 49 6 121)))] (mkPtok 3 "}" 49 8 122)) (mkPtok 40 "," 49 11 123)); (InerObjectField (mkSpan (mkPtok 42 "uint8x" 49 13 124) (mkPtok 40 "," 57 7 140)) None (InerObjectDecl (mkSpan (mkPtok 42 "uint8x" 49 13 124) (mkPtok 3 "}" 57 5 139)) (mkPtok 42 "uint8x" 49 13 124) (mkPtok 2 "{" 52 0 127) [(MetaField (mkSpan (mkPtok 12 "char[" 52 2 128) (mkPtok 40 "," 54 0 133)) None (mkMetaDecl (mkSpan (mkPtok 12 "char[" 52 2 128) (mkPtok 40 "," 54 0 133)) (TyFixed (mkSpan (mkPtok 12 "char[" 52 2 128) (mkPtok 13 "]" 52 19 130)) (mkFixedString (mkSpan (mkPtok 12 "char[" 52 2 128) (mkPtok 13 "]" 52 19 130)) (mkPtok 12 "char[" 52 2 128) (mkPtok 30 "4294967296" 52 8 129) (mkPtok 13 "]" 52 19 130))) (mkPtok 42 "T" 53 0 131) (Some (mkPtok 43 "`{ , }`" 53 2 132)) (mkPtok 40 "," 54 0 133))); (MetaField (mkSpan (mkPtok 22 "u32" 54 2 134) (mkPtok 40 "," 57 4 138)) None (mkMetaDecl (mkSpan (mkPtok 22 "u32" 54 2 134) (mkPtok 40 "," 57 4 138)) (TyBasic (mkSpan (mkPtok 22 "u32" 54 2 134) (mkPtok 22 "u32" 54 2 134)) (mkBasicType (mkSpan (mkPtok 22 "u32" 54 2 134) (mkPtok 22 "u32" 54 2 134)) (mkPtok 22 "u32" 54 2 134))) (mkPtok 42 "repeatCount" 55 4 135) (Some (mkPtok 43 (string_of_bytes [96; 230; 182; 136; 230; 129; 175; 231; 177; 187; 229; 158; 139; 96]%N) 55 16 136)) (mkPtok 40 "," 57 4 138)))] (mkPtok 3 "}" 57 5 139)) (mkPtok 40 "," 57 7 140))] (mkPtok 3 "}" 57 9 141)) (mkPtok 40 "," 58 4 142))); (mkFieldWithAttr (mkSpan (mkPtok 36 "repeat" 59 0 143) (mkPtok 40 "," 60 0 145)) [] (ObjectField (mkSpan (mkPtok 36 "repeat" 59 0 143) (mkPtok 40 "," 60 0 145)) (Some (mkPtok 36 "repeat" 59 0 143)) (mkPtok 42 "MetaDataX" 59 7 144) None None (mkPtok 40 "," 60 0 145))); (mkFieldWithAttr (mkSpan (mkPtok 12 "char[" 60 2 146) (mkPtok 40 "," 61 16 154)) [] (LengthField (mkSpan (mkPtok 12 "char[" 60 2 146) (mkPtok 40 "," 61 16 154)) (mkLengthFieldDecl (mkSpan (mkPtok 12 "char[" 60 2 146) (mkPtok 40 "," 61 16 154)) (Some (TyFixed (mkSpan (mkPtok 12 "char[" 60 2 146) (mkPtok 13 "]" 60 19 148)) (mkFixedString (mkSpan (mkPtok 12 "char[" 60 2 146) (mkPtok 13 "]" 60 19 148)) (mkPtok 12 "char[" 60 2 146) (mkPtok 30 "4294967296" 60 8 147) (mkPtok 13 "]" 60 19 148)))) (mkPtok 42 "i8i8" 60 21 149) (mkLengthOf (mkSpan (mkPtok 7 "@lengthOf(" 61 0 151) (mkPtok 6 ")" 61 14 153)) (mkPtok 7 "@lengthOf(" 61 0 151) (mkPtok 42 "_x" 61 11 152) (mkPtok 6 ")" 61 14 153)) None (mkPtok 40 "," 61 16 154))))] (mkPtok 3 "}" 61 17 155))); (DPacket (mkPacketDef (mkSpan (mkPtok 35 "packet" 62 0 156) (mkPtok 3 "}" 79 4 195)) None (mkPtok 35 "packet" 62 0 156) (mkPtok 42 "falsey" 62 7 157) (mkPtok 2 "{" 62 14 158) [(mkFieldWithAttr (mkSpan (mkPtok 42 "tag" 63 4 159) (mkPtok 40 "," 70 0 172)) [] (InerObjectField (mkSpan (mkPtok 42 "tag" 63 4 159) (mkPtok 40 "," 70 0 172)) None (InerObjectDecl (mkSpan (mkPtok 42 "tag" 63 4 159) (mkPtok 3 "}" 69 0 171)) (mkPtok 42 "tag" 63 4 159) (mkPtok 2 "{" 64 0 160) [(LengthField (mkSpan (mkPtok 12 "char[" 64 2 161) (mkPtok 40 "," 68 6 170)) (mkLengthFieldDecl (mkSpan (mkPtok 12 "char[" 64 2 161) (mkPtok 40 "," 68 6 170)) (Some (TyFixed (mkSpan (mkPtok 12 "char[" 64 2 161) (mkPtok 13 "]" 67 4 165)) (mkFixedString (mkSpan (mkPtok 12 "char[" 64 2 161) (mkPtok 13 "]" 67 4 165)) (mkPtok 12 "char[" 64 2 161) (mkPtok 30 "00" 65 0 163) (mkPtok 13 "]" 67 4 165)))) (mkPtok 42 "int" 67 6 166) (mkLengthOf (mkSpan (mkPtok 7 "@lengthOf(" 67 9 167) (mkPtok 6 ")" 68 4 169)) (mkPtok 7 "@lengthOf(" 67 9 167) (mkPtok 42 "u128" 67 20 168) (mkPtok 6 ")" 68 4 169)) None (mkPtok 40 "," 68 6 170)))] (mkPtok 3 "}" 69 0 171)) (mkPtok 40 "," 70 0 172))); (mkFieldWithAttr (mkSpan (mkPtok 42 "roots" 70 1 173) (mkPtok 40 "," 70 12 175)) [] (ObjectField (mkSpan (mkPtok 42 "roots" 70 1 173) (mkPtok 40 "," 70 12 175)) None (mkPtok 42 "roots" 70 1 173) (Some (mkPtok 42 "body" 70 7 174)) None (mkPtok 40 "," 70 12 175))); (mkFieldWithAttr (mkSpan (mkPtok 21 "u16" 70 13 176) (mkPtok 40 "," 74 7 184)) [] (LengthField (mkSpan (mkPtok 21 "u16" 70 13 176) (mkPtok 40 "," 74 7 184)) (mkLengthFieldDecl (mkSpan (mkPtok 21 "u16" 70 13 176) (mkPtok 40 "," 74 7 184)) (Some (TyBasic (mkSpan (mkPtok 21 "u16" 70 13 176) (mkPtok 21 "u16" 70 13 176)) (mkBasicType (mkSpan (mkPtok 21 "u16" 70 13 176) (mkPtok 21 "u16" 70 13 176)) (mkPtok 21 "u16" 70 13 176)))) (mkPtok 42 "stringy" 70 17 177) (mkLengthOf (mkSpan (mkPtok 7 "@lengthOf(" 73 0 180) (mkPtok 6 ")" 73 15 182)) (mkPtok 7 "@lengthOf(" 73 0 180) (mkPtok 42 "Pad" 73 11 181) (mkPtok 6 ")" 73 15 182)) (Some (mkPtok 43 (string_of_bytes [96; 108; 105; 110; 101; 49; 10; 108; 105; 110; 101; 50; 96]%N) 73 17 183)) (mkPtok 40 "," 74 7 184)))); (mkFieldWithAttr (mkSpan (mkPtok 42 "stringy" 75 0 185) (mkPtok 40 "," 76 20 189)) [] (LengthField (mkSpan (mkPtok 42 "stringy" 75 0 185) (mkPtok 40 "," 76 20 189)) (mkLengthFieldDecl (mkSpan (mkPtok 42 "stringy" 75 0 185) (mkPtok 40 "," 76 20 189)) None (mkPtok 42 "stringy" 75 0 185) (mkLengthOf (mkSpan (mkPtok 7 "@lengthOf(" 76 0 186) (mkPtok 6 ")" 76 18 188)) (mkPtok 7 "@lengthOf(" 76 0 186) (mkPtok 42 "chars" 76 12 187) (mkPtok 6 ")" 76 18 188)) None (mkPtok 40 "," 76 20 189)))); (mkFieldWithAttr (mkSpan (mkPtok 20 "uint8" 76 21 190) (mkPtok 40 "," 77 4 193)) [] (MetaField (mkSpan (mkPtok 20 "uint8" 76 21 190) (mkPtok 40 "," 77 4 193)) None (mkMetaDecl (mkSpan (mkPtok 20 "uint8" 76 21 190) (mkPtok 40 "," 77 4 193)) (TyBasic (mkSpan (mkPtok 20 "uint8" 76 21 190) (mkPtok 20 "uint8" 76 21 190)) (mkBasicType (mkSpan (mkPtok 20 "uint8" 76 21 190) (mkPtok 20 "uint8" 76 21 190)) (mkPtok 20 "uint8" 76 21 190))) (mkPtok 42 "lengthOf" 76 27 191) (Some (mkPtok 43 (string_of_bytes [96; 195; 169; 96]%N) 77 0 192)) (mkPtok 40 "," 77 4 193))))] (mkPtok 3 "}" 79 4 195)))])).
Eval vm_compute in ("<<<M213>>>" ++ check (runes_of_ascii "  root packet// " ++ [128512]%N ++ runes_of_ascii " emoji
o
    {
    @calculatedFrom( ""a\""b"" //x
) repeat crc ,	@tag( 10  )
x_y_z, }
")).
Eval vm_compute in ("<<<M245>>>" ++ check (runes_of_ascii "MetaData As {  } packet float { // @lengthOf(
options1  Pad `// not a comment` ,
uint16 As `line1
line2` ,float32 stringy@calculatedFrom(
""`tick`""
) `" ++ [233]%N ++ runes_of_ascii "` ,
repeat Packet { zchar[ 3 ] T
    @calculatedFrom(
""x y""),  char[ 7 ]  asx @lengthOf( tag) ,
    //
    int64 charz `u8 x,`
, } , uint32
len , @tag(	0123456789
) Foo packetx `// not a comment`,char[] trueish @lengthOf(
rootA
    ) , @leftPad (//
'0'  ) repeat  x_y_z `{ , }` , i64 u128 ,
    }
    packet msg_type//x
{
char[]
i8i8
    `doc` //	t
,string trueish @calculatedFrom(
    """" ), char[ 7 ]/// triple
string_// packet A { u8 x, }
`say ""hi""`
/// triple
//
,	}
")).
Eval vm_compute in ("<<<M277>>>" ++ check (runes_of_ascii "MetaData MetaDataX
{
    Foo BodyLength // packet A { u8 x, }
, As T , }options { calculatedFrom = true  ;// " ++ [27880; 37322]%N ++ runes_of_ascii "
Header
= true}
// trailing space 
// c
packet tag {	@leftPad (
    '\x00') @lengthOf( Foo)// a // b
@tag(
    42)string body
    ,
@calculatedFrom(""abc"")
char[ 00
]	len,@calculatedFrom( """ ++ [128512]%N ++ runes_of_ascii """
)	repeat tag ,match msg_type as // @lengthOf(
Header {	65535
//
// @lengthOf(
: roots , ""abc"" //
: string_ , [ 007 , 0
    // `tick` ""quote"" 'q'
    ,	007 ]:
// " ++ [128512]%N ++ runes_of_ascii " emoji
// a // b
zchar 255
    //
    : Packet [ ""packet"" , 0 ,
    ""\" ++ [233]%N ++ runes_of_ascii """ , ""x y"" , 65535 , """ ++ [233]%N ++ runes_of_ascii "t" ++ [233]%N ++ runes_of_ascii """ , 0123456789
,
7]
: //
matchKey} ,repeat
int64
metadata`
`
,
i64_
`` //
, char[42 ] MetaDataX
// `tick` ""quote"" 'q'
// c
@calculatedFrom( ""CRC32"" ) , zchar[ 255 ]
    //
    roots	@lengthOf(
    options1
    ) `two words` , msg_type @calculatedFrom(
    //x
    ""\n""  ) ,
    u len , } packet x {
} packet falsey
{  @calculatedFrom(
""a	b""
)
    int64 falsey
    `{ , }`,
    repeat f64 crc// trailing space 
,
    @tag(	255) uint32 // a // b
chars `" ++ [28040; 24687; 31867; 22411]%N ++ runes_of_ascii "` , @leftPad ( '\x00'	)@lengthOf( falsey )
@calculatedFrom(	""a	b"" )  stringy { zchar[ // " ++ [27880; 37322]%N ++ runes_of_ascii "
7	] Pad `line1
line2` , string
    pack,
    // @lengthOf(
    float64 string_ ,	},	repeat rootA{	match Logon as
    /// triple
    o // " ++ [27880; 37322]%N ++ runes_of_ascii "
{ 007 //x
:leftPad
    , 0	: T , ""CRC32"" :
T
[ ""a	b"" ]: Logon , } ,
    match // @lengthOf(
x_y_z as
_x
{ 10
:
metadata , """ ++ [233]%N ++ runes_of_ascii "t" ++ [233]%N ++ runes_of_ascii """
    : string_,  } ,} ,
// c
/// triple
o{ options1
    @calculatedFrom("""" ) ,	repeat i32
body, } , @tag(1 /// triple
) match packetx// " ++ [27880; 37322]%N ++ runes_of_ascii "
as rootA
{
""" ++ [128512]%N ++ runes_of_ascii """:
// `tick` ""quote"" 'q'
//x
zchar  ,
    7 :
    zchar  ,
[ 0 , 42,
""a\\"" , 0123456789	, ""it's""
,3 //	t
,
""abc""	, 0123456789	]: lengthOf,
// " ++ [27880; 37322]%N ++ runes_of_ascii "
//x
0
// trailing space 
// " ++ [27880; 37322]%N ++ runes_of_ascii "
: _x, ""1"":
    Header , }
    , @rightPad
    // c
    ( ) repeat pack {
match MetaDataX
    as o { ""a\""b"" : Pad
[ ""a\""b"" ]:A , 1
: rootA  , }
    , match	calculatedFrom as T/// triple
{ 65535  : stringy , // " ++ [27880; 37322]%N ++ runes_of_ascii "
65535 :  Packet ,
    [
007 , ""CRC32""
    , 00 , 3 ,
    65535
,	""x y"" ,65535 ]: matchKey/// triple
, 007
: rootA
,// @lengthOf(
}, },char[] u128
,// a // b
}")).
Eval vm_compute in ("<<<M309>>>" ++ check (runes_of_ascii "  MetaData x_y_z { string msg_type`" ++ [233]%N ++ runes_of_ascii "`, } packet chars{ repeat i32 metadata`say ""hi""` ,@leftPad ( ) @tag( 0123456789
)repeat zchar[
    // a // b
    007]
    //x
    lengthOf , }
")).
Eval vm_compute in ("<<<M341>>>" ++ check (runes_of_ascii "// @lengthOf(
root packet
MetaDataX{
    repeat
i16
packetx, @tag( 007 )
x
    @lengthOf(
_x
)
,
@calculatedFrom(  """ ++ [28040; 24687]%N ++ runes_of_ascii """ ) repeat
Pad ,	@lengthOf(
falsey) @tag( 00 ) @tag( 3
    )string i8i8,}")).
Eval vm_compute in ("<<<M373>>>" ++ check (runes_of_ascii "options { leftPad= int32 // packet A { u8 x, }
}
// packet A { u8 x, }
")).
Eval vm_compute in ("<<<M405>>>" ++ check (runes_of_ascii "/// triple
MetaData zchar // " ++ [128512]%N ++ runes_of_ascii " emoji
{ int32 pack
// trailing space 
//	t
,
    }
")).
Eval vm_compute in ("<<<T405>>>" ++ terms [mkTok 44 "/// triple" 1 0 true; mkTok 37 "MetaData" 2 0 false; mkTok 42 "zchar" 2 9 false; mkTok 44 (string_of_bytes [47; 47; 32; 240; 159; 152; 128; 32; 101; 109; 111; 106; 105]%N) 2 15 true; mkTok 2 "{" 3 0 false; mkTok 26 "int32" 3 2 false; mkTok 42 "pack" 3 8 false; mkTok 44 "// trailing space " 4 0 true; mkTok 44 (string_of_bytes [47; 47; 9; 116]%N) 5 0 true; mkTok 40 "," 6 0 false; mkTok 3 "}" 7 4 false; mkTok 0 "<EOF>" 8 0 false] (mkPacket (mkPtok 37 "MetaData" 2 0 1) (Some (mkPtok 3 "}" 7 4 10)) [(DMeta (mkMetaDef (mkSpan (mkPtok 37 "MetaData" 2 0 1) (mkPtok 3 "}" 7 4 10)) (mkPtok 37 "MetaData" 2 0 1) (mkPtok 42 "zchar" 2 9 2) (mkPtok 2 "{" 3 0 4) [(MIDecl (mkMetaDecl (mkSpan (mkPtok 26 "int32" 3 2 5) (mkPtok 40 "," 6 0 9)) (TyBasic (mkSpan (mkPtok 26 "int32" 3 2 5) (mkPtok 26 "int32" 3 2 5)) (mkBasicType (mkSpan (mkPtok 26 "int32" 3 2 5) (mkPtok 26 "int32" 3 2 5)) (mkPtok 26 "int32" 3 2 5))) (mkPtok 42 "pack" 3 8 6) None (mkPtok 40 "," 6 0 9)))] (mkPtok 3 "}" 7 4 10)))])).
Eval vm_compute in ("<<<M437>>>" ++ check (runes_of_ascii "  root packet packetx { char[]  pack @lengthOf(
    string_
    // " ++ [128512]%N ++ runes_of_ascii " emoji
    ) `doc`,
    u32  float @lengthOf( a1) // `tick` ""quote"" 'q'
`two words` , match  a1 as
    // " ++ [27880; 37322]%N ++ runes_of_ascii "
    o {7 : _x
    ,
} , repeat msg_type { o uint8x
`crlf
line` , }
,char[] // `tick` ""quote"" 'q'
u8x @lengthOf(msg_type
)
// " ++ [128512]%N ++ runes_of_ascii " emoji
//
,@calculatedFrom( ""CRC32"" )
    i16 repeatCount
@calculatedFrom(""a\""b""  ) , zchar[
10 ]_x
`line1
line2` ,	zchar[
10 ]
    x `u8 x,` ,char[  0123456789
]
    uint8x , @calculatedFrom( ""x y"" ) int32
//	t
// c
i8i8
, }	options// " ++ [27880; 37322]%N ++ runes_of_ascii "
{
matchKey =""it's"" } packet
    msg_type // packet A { u8 x, }
{
// trailing space 
//
match lengthOf as Logon { [ ""x y"" , ""a	b"", ""{,}"" ,  """ ++ [28040; 24687]%N ++ runes_of_ascii """,
    ""{,}"" ,""{,}""
    ]
    // packet A { u8 x, }
    : asx, [ """ ++ [233]%N ++ runes_of_ascii "t" ++ [233]%N ++ runes_of_ascii """
] :
trueish , 255
    : Pad ,
[""`tick`""
, ""{,}"" ,// " ++ [128512]%N ++ runes_of_ascii " emoji
4294967296
, 4294967296, ""a\""b"" , ""\" ++ [233]%N ++ runes_of_ascii """
, 0123456789 ] : u128 ,
    ""it's"" // c
: pack	, ""abc"":o,
    }
    , f32 zchar `it's`,@calculatedFrom( ""a	b"" )zchar[
1
]
    msg_type // trailing space 
@calculatedFrom( ""it's""
) , @calculatedFrom( ""packet"" ) BodyLength{ i16 // trailing space 
_x`{ , }`
    //x
    , i8
    body `crlf
line` ,  }
    // packet A { u8 x, }
    , repeat i64 uint8x
    `say ""hi""`, // c
} packet// a // b
chars{ match x as options1 { 3 : //
tag
10
    //x
    :
// a // b
// a // b
repeatCount[
    65535 ] :
len ,255 : tag  00 :
    BodyLength }, @calculatedFrom( ""{,}"" ) MetaDataX,
@tag(
0
// trailing space 
//	t
)repeat
stringy	len , //	t
@calculatedFrom( ""a	b"" )/// triple
zchar[ 0123456789] lengthOf @lengthOf(
A
    )
    `u8 x,` , @lengthOf(falsey
    ) T
    `// not a comment`
,i8i8,Logon  { match
crc as BodyLength { ""1"" : // trailing space 
trueish ,
    // " ++ [27880; 37322]%N ++ runes_of_ascii "
    ""a\""b""
    :
matchKey , [ ""x y""] : tag
    ,
// trailing space 
// " ++ [128512]%N ++ runes_of_ascii " emoji
}
, float @calculatedFrom(
    """ ++ [233]%N ++ runes_of_ascii "t" ++ [233]%N ++ runes_of_ascii """ ) `line1
line2` , msg_type@lengthOf(  i8i8)
, calculatedFrom uint8x`tab	here`,
// a // b
//	t
}
    ,
    }")).
Eval vm_compute in ("<<<M469>>>" ++ check (runes_of_ascii "
options { options1 =
1// packet A { u8 x, }
; } options
{ A =00}MetaData
repeatCount {
char[]
u8x	, char[] u128
, body roots
`" ++ [28040; 24687; 31867; 22411]%N ++ runes_of_ascii "`, msg_type As  ,
} MetaData
string_ {
}
")).
Eval vm_compute in ("<<<M501>>>" ++ check (runes_of_ascii "packet Header { int@lengthOf( lengthOf
    ) , }
    packet	Z9_ { @lengthOf( Z9_ ) repeat
i8 lengthOf, } options {
    rootA =  ' ' u8x= 65535 As = int8 matchKey = '\x00'
; msg_type  =
' ';
    }")).
Eval vm_compute in ("<<<M533>>>" ++ check (runes_of_ascii "root
packet u8x {// @lengthOf(
i16
    metadata @lengthOf(
metadata
) `u8 x,`
    ,zchar[ 7 ] stringy@calculatedFrom( ""abc""  )
    `" ++ [233]%N ++ runes_of_ascii "` // trailing space 
, @rightPad
( // a // b
'0' )
match Header as
f32a { //	t
""" ++ [28040; 24687]%N ++ runes_of_ascii """// c
:calculatedFrom
,[ 10
]
:o , ""// no comment"" :As ""\" ++ [233]%N ++ runes_of_ascii """
: rootA ,},
}")).
Eval vm_compute in ("<<<M565>>>" ++ check (@nil rune)).
Eval vm_compute in ("<<<M597>>>" ++ check (runes_of_ascii "packet trueish { match
    falsey as
    leftPad { // " ++ [128512]%N ++ runes_of_ascii " emoji
""// no comment"":
// " ++ [128512]%N ++ runes_of_ascii " emoji
//
leftPad } , repeatCount
string_ `{ , }`
,}")).
Eval vm_compute in ("<<<M629>>>" ++ check (runes_of_ascii "
packet _x{ metadata
    @lengthOf( i64_ ) , match trueish as
int {
    ["""" ,  255
    ] :
//
// packet A { u8 x, }
T , 65535:zchar ,// c
} , @calculatedFrom(
    ""a\""b"")	match leftPad as// a // b
len{ ""x y""
: Z9_ ,[ 0 ,
007 , ""x y"" ] :
    falsey
    //	t
    , } , }
    root packet
As{
string int , @tag(
    255 )@lengthOf( roots )
@calculatedFrom( """ ++ [128512]%N ++ runes_of_ascii """
    // @lengthOf(
    ) repeat crc
{ repeat char trueish , // " ++ [128512]%N ++ runes_of_ascii " emoji
}
,
    zchar[4294967296 ] options1@calculatedFrom( ""CRC32"" )
,match packetx as
lengthOf
{ ""a\""b"" :
options1 ,
0123456789  : Foo, ""a\\"" : trueish
,3  : string_,""\n"" : zchar
, [	65535 ] : u128
    } ,  @tag( 42) @leftPad
    //x
    (
// `tick` ""quote"" 'q'
// `tick` ""quote"" 'q'
'\x00' ) i16
crc , }packet lengthOf // trailing space 
{ }")).
Eval vm_compute in ("<<<T629>>>" ++ terms [mkTok 35 "packet" 2 0 false; mkTok 42 "_x" 2 7 false; mkTok 2 "{" 2 9 false; mkTok 42 "metadata" 2 11 false; mkTok 7 "@lengthOf(" 3 4 false; mkTok 42 "i64_" 3 15 false; mkTok 6 ")" 3 20 false; mkTok 40 "," 3 22 false; mkTok 38 "match" 3 24 false; mkTok 42 "trueish" 3 30 false; mkTok 17 "as" 3 38 false; mkTok 42 "int" 4 0 false; mkTok 2 "{" 4 4 false; mkTok 18 "[" 5 4 false; mkTok 31 """""" 5 5 false; mkTok 40 "," 5 8 false; mkTok 30 "255" 5 11 false; mkTok 13 "]" 6 4 false; mkTok 39 ":" 6 6 false; mkTok 44 "//" 7 0 true; mkTok 44 "// packet A { u8 x, }" 8 0 true; mkTok 42 "T" 9 0 false; mkTok 40 "," 9 2 false; mkTok 30 "65535" 9 4 false; mkTok 39 ":" 9 9 false; mkTok 42 "zchar" 9 10 false; mkTok 40 "," 9 16 false; mkTok 44 "// c" 9 17 true; mkTok 3 "}" 10 0 false; mkTok 40 "," 10 2 false; mkTok 5 "@calculatedFrom(" 10 4 false; mkTok 31 """a\""b""" 11 4 false; mkTok 6 ")" 11 10 false; mkTok 38 "match" 11 12 false; mkTok 42 "leftPad" 11 18 false; mkTok 17 "as" 11 26 false; mkTok 44 "// a // b" 11 28 true; mkTok 42 "len" 12 0 false; mkTok 2 "{" 12 3 false; mkTok 31 """x y""" 12 5 false; mkTok 39 ":" 13 0 false; mkTok 42 "Z9_" 13 2 false; mkTok 40 "," 13 6 false; mkTok 18 "[" 13 7 false; mkTok 30 "0" 13 9 false; mkTok 40 "," 13 11 false; mkTok 30 "007" 14 0 false; mkTok 40 "," 14 4 false; mkTok 31 """x y""" 14 6 false; mkTok 13 "]" 14 12 false; mkTok 39 ":" 14 14 false; mkTok 42 "falsey" 15 4 false; mkTok 44 (string_of_bytes [47; 47; 9; 116]%N) 16 4 true; mkTok 40 "," 17 4 false; mkTok 3 "}" 17 6 false; mkTok 40 "," 17 8 false; mkTok 3 "}" 17 10 false; mkTok 34 "root" 18 4 false; mkTok 35 "packet" 18 9 false; mkTok 42 "As" 19 0 false; mkTok 2 "{" 19 2 false; mkTok 15 "string" 20 0 false; mkTok 42 "int" 20 7 false; mkTok 40 "," 20 11 false; mkTok 9 "@tag(" 20 13 false; mkTok 30 "255" 21 4 false; mkTok 6 ")" 21 8 false; mkTok 7 "@lengthOf(" 21 9 false; mkTok 42 "roots" 21 20 false; mkTok 6 ")" 21 26 false; mkTok 5 "@calculatedFrom(" 22 0 false; mkTok 31 (string_of_bytes [34; 240; 159; 152; 128; 34]%N) 22 17 false; mkTok 44 "// @lengthOf(" 23 4 true; mkTok 6 ")" 24 4 false; mkTok 36 "repeat" 24 6 false; mkTok 42 "crc" 24 13 false; mkTok 2 "{" 25 0 false; mkTok 36 "repeat" 25 2 false; mkTok 19 "char" 25 9 false; mkTok 42 "trueish" 25 14 false; mkTok 40 "," 25 22 false; mkTok 44 (string_of_bytes [47; 47; 32; 240; 159; 152; 128; 32; 101; 109; 111; 106; 105]%N) 25 24 true; mkTok 3 "}" 26 0 false; mkTok 40 "," 27 0 false; mkTok 14 "zchar[" 28 4 false; mkTok 30 "4294967296" 28 10 false; mkTok 13 "]" 28 21 false; mkTok 42 "options1" 28 23 false; mkTok 5 "@calculatedFrom(" 28 31 false; mkTok 31 """CRC32""" 28 48 false; mkTok 6 ")" 28 56 false; mkTok 40 "," 29 0 false; mkTok 38 "match" 29 1 false; mkTok 42 "packetx" 29 7 false; mkTok 17 "as" 29 15 false; mkTok 42 "lengthOf" 30 0 false; mkTok 2 "{" 31 0 false; mkTok 31 """a\""b""" 31 2 false; mkTok 39 ":" 31 9 false; mkTok 42 "options1" 32 0 false; mkTok 40 "," 32 9 false; mkTok 30 "0123456789" 33 0 false; mkTok 39 ":" 33 12 false; mkTok 42 "Foo" 33 14 false; mkTok 40 "," 33 17 false; mkTok 31 """a\\""" 33 19 false; mkTok 39 ":" 33 25 false; mkTok 42 "trueish" 33 27 false; mkTok 40 "," 34 0 false; mkTok 30 "3" 34 1 false; mkTok 39 ":" 34 4 false; mkTok 42 "string_" 34 6 false; mkTok 40 "," 34 13 false; mkTok 31 """\n""" 34 14 false; mkTok 39 ":" 34 19 false; mkTok 42 "zchar" 34 21 false; mkTok 40 "," 35 0 false; mkTok 18 "[" 35 2 false; mkTok 30 "65535" 35 4 false; mkTok 13 "]" 35 10 false; mkTok 39 ":" 35 12 false; mkTok 42 "u128" 35 14 false; mkTok 3 "}" 36 4 false; mkTok 40 "," 36 6 false; mkTok 9 "@tag(" 36 9 false; mkTok 30 "42" 36 15 false; mkTok 6 ")" 36 17 false; mkTok 32 "@leftPad" 36 19 false; mkTok 44 "//x" 37 4 true; mkTok 8 "(" 38 4 false; mkTok 44 "// `tick` ""quote"" 'q'" 39 0 true; mkTok 44 "// `tick` ""quote"" 'q'" 40 0 true; mkTok 33 "'\x00'" 41 0 false; mkTok 6 ")" 41 7 false; mkTok 25 "i16" 41 9 false; mkTok 42 "crc" 42 0 false; mkTok 40 "," 42 4 false; mkTok 3 "}" 42 6 false; mkTok 35 "packet" 42 7 false; mkTok 42 "lengthOf" 42 14 false; mkTok 44 "// trailing space " 42 23 true; mkTok 2 "{" 43 0 false; mkTok 3 "}" 43 2 false; mkTok 0 "<EOF>" 43 3 false] (mkPacket (mkPtok 35 "packet" 2 0 0) (Some (mkPtok 3 "}" 43 2 142)) [(DPacket (mkPacketDef (mkSpan (mkPtok 35 "packet" 2 0 0) (mkPtok 3 "}" 17 10 56)) None (mkPtok 35 "packet" 2 0 0) (mkPtok 42 "_x" 2 7 1) (mkPtok 2 "{" 2 9 2) [(mkFieldWithAttr (mkSpan (mkPtok 42 "metadata" 2 11 3) (mkPtok 40 "," 3 22 7)) [] (LengthField (mkSpan (mkPtok 42 "metadata" 2 11 3) (mkPtok 40 "," 3 22 7)) (mkLengthFieldDecl (mkSpan (mkPtok 42 "metadata" 2 11 3) (mkPtok 40 "," 3 22 7)) None (mkPtok 42 "metadata" 2 11 3) (mkLengthOf (mkSpan (mkPtok 7 "@lengthOf(" 3 4 4) (mkPtok 6 ")" 3 20 6)) (mkPtok 7 "@lengthOf(" 3 4 4) (mkPtok 42 "i64_" 3 15 5) (mkPtok 6 ")" 3 20 6)) None (mkPtok 40 "," 3 22 7)))); (mkFieldWithAttr (mkSpan (mkPtok 38 "match" 3 24 8) (mkPtok 40 "," 10 2 29)) [] (MatchField (mkSpan (mkPtok 38 "match" 3 24 8) (mkPtok 40 "," 10 2 29)) (mkMatchFieldDecl (mkSpan (mkPtok 38 "match" 3 24 8) (mkPtok 3 "}" 10 0 28)) (mkPtok 38 "match" 3 24 8) (mkPtok 42 "trueish" 3 30 9) (mkPtok 17 "as" 3 38 10) (mkPtok 42 "int" 4 0 11) (mkPtok 2 "{" 4 4 12) [(mkMatchPair (mkSpan (mkPtok 18 "[" 5 4 13) (mkPtok 40 "," 9 2 22)) (MKList (mkKeyList (mkSpan (mkPtok 18 "[" 5 4 13) (mkPtok 13 "]" 6 4 17)) (mkPtok 18 "[" 5 4 13) (mkPtok 31 """""" 5 5 14) [((mkPtok 40 "," 5 8 15), (mkPtok 30 "255" 5 11 16))] (mkPtok 13 "]" 6 4 17))) (mkPtok 39 ":" 6 6 18) (mkPtok 42 "T" 9 0 21) (Some (mkPtok 40 "," 9 2 22))); (mkMatchPair (mkSpan (mkPtok 30 "65535" 9 4 23) (mkPtok 40 "," 9 16 26)) (MKDigits (mkPtok 30 "65535" 9 4 23)) (mkPtok 39 ":" 9 9 24) (mkPtok 42 "zchar" 9 10 25) (Some (mkPtok 40 "," 9 16 26)))] (mkPtok 3 "}" 10 0 28)) (mkPtok 40 "," 10 2 29))); (mkFieldWithAttr (mkSpan (mkPtok 5 "@calculatedFrom(" 10 4 30) (mkPtok 40 "," 17 8 55)) [(FACalculatedFrom (mkSpan (mkPtok 5 "@calculatedFrom(" 10 4 30) (mkPtok 6 ")" 11 10 32)) (mkCalculatedFrom (mkSpan (mkPtok 5 "@calculatedFrom(" 10 4 30) (mkPtok 6 ")" 11 10 32)) (mkPtok 5 "@calculatedFrom(" 10 4 30) (mkPtok 31 """a\""b""" 11 4 31) (mkPtok 6 ")" 11 10 32)))] (MatchField (mkSpan (mkPtok 38 "match" 11 12 33) (mkPtok 40 "," 17 8 55)) (mkMatchFieldDecl (mkSpan (mkPtok 38 "match" 11 12 33) (mkPtok 3 "}" 17 6 54)) (mkPtok 38 "match" 11 12 33) (mkPtok 42 "leftPad" 11 18 34) (mkPtok 17 "as" 11 26 35) (mkPtok 42 "len" 12 0 37) (mkPtok 2 "{" 12 3 38) [(mkMatchPair (mkSpan (mkPtok 31 """x y""" 12 5 39) (mkPtok 40 "," 13 6 42)) (MKString (mkPtok 31 """x y""" 12 5 39)) (mkPtok 39 ":" 13 0 40) (mkPtok 42 "Z9_" 13 2 41) (Some (mkPtok 40 "," 13 6 42))); (mkMatchPair (mkSpan (mkPtok 18 "[" 13 7 43) (mkPtok 40 "," 17 4 53)) (MKList (mkKeyList (mkSpan (mkPtok 18 "[" 13 7 43) (mkPtok 13 "]" 14 12 49)) (mkPtok 18 "[" 13 7 43) (mkPtok 30 "0" 13 9 44) [((mkPtok 40 "," 13 11 45), (mkPtok 30 "007" 14 0 46)); ((mkPtok 40 "," 14 4 47), (mkPtok 31 """x y""" 14 6 48))] (mkPtok 13 "]" 14 12 49))) (mkPtok 39 ":" 14 14 50) (mkPtok 42 "falsey" 15 4 51) (Some (mkPtok 40 "," 17 4 53)))] (mkPtok 3 "}" 17 6 54)) (mkPtok 40 "," 17 8 55)))] (mkPtok 3 "}" 17 10 56))); (DPacket (mkPacketDef (mkSpan (mkPtok 34 "root" 18 4 57) (mkPtok 3 "}" 42 6 137)) (Some (mkPtok 34 "root" 18 4 57)) (mkPtok 35 "packet" 18 9 58) (mkPtok 42 "As" 19 0 59) (mkPtok 2 "{" 19 2 60) [(mkFieldWithAttr (mkSpan (mkPtok 15 "string" 20 0 61) (mkPtok 40 "," 20 11 63)) [] (MetaField (mkSpan (mkPtok 15 "string" 20 0 61) (mkPtok 40 "," 20 11 63)) None (mkMetaDecl (mkSpan (mkPtok 15 "string" 20 0 61) (mkPtok 40 "," 20 11 63)) (TyDynamic (mkSpan (mkPtok 15 "string" 20 0 61) (mkPtok 15 "string" 20 0 61)) (mkDynamicString (mkSpan (mkPtok 15 "string" 20 0 61) (mkPtok 15 "string" 20 0 61)) (mkPtok 15 "string" 20 0 61))) (mkPtok 42 "int" 20 7 62) None (mkPtok 40 "," 20 11 63)))); (mkFieldWithAttr (mkSpan (mkPtok 9 "@tag(" 20 13 64) (mkPtok 40 "," 27 0 83)) [(FATag (mkSpan (mkPtok 9 "@tag(" 20 13 64) (mkPtok 6 ")" 21 8 66)) (mkTagAttr (mkSpan (mkPtok 9 "@tag(" 20 13 64) (mkPtok 6 ")" 21 8 66)) (mkPtok 9 "@tag(" 20 13 64) (mkPtok 30 "255" 21 4 65) (mkPtok 6 ")" 21 8 66))); (FALengthOf (mkSpan (mkPtok 7 "@lengthOf(" 21 9 67) (mkPtok 6 ")" 21 26 69)) (mkLengthOf (mkSpan (mkPtok 7 "@lengthOf(" 21 9 67) (mkPtok 6 ")" 21 26 69)) (mkPtok 7 "@lengthOf(" 21 9 67) (mkPtok 42 "roots" 21 20 68) (mkPtok 6 ")" 21 26 69))); (FACalculatedFrom (mkSpan (mkPtok 5 "@calculatedFrom(" 22 0 70) (mkPtok 6 ")" 24 4 73)) (mkCalculatedFrom (mkSpan (mkPtok 5 "@calculatedFrom(" 22 0 70) (mkPtok 6 ")" 24 4 73)) (mkPtok 5 "@calculatedFrom(" 22 0 70) (mkPtok 31 (string_of_bytes [34; 240; 159; 152; 128; 34]%N) 22 17 71) (mkPtok 6 ")" 24 4 73)))] (InerObjectField (mkSpan (mkPtok 36 "repeat" 24 6 74) (mkPtok 40 "," 27 0 83)) (Some (mkPtok 36 "repeat" 24 6 74)) (InerObjectDecl (mkSpan (mkPtok 42 "crc" 24 13 75) (mkPtok 3 "}" 26 0 82)) (mkPtok 42 "crc" 24 13 75) (mkPtok 2 "{" 25 0 76) [(MetaField (mkSpan (mkPtok 36 "repeat" 25 2 77) (mkPtok 40 "," 25 22 80)) (Some (mkPtok 36 "repeat" 25 2 77)) (mkMetaDecl (mkSpan (mkPtok 19 "char" 25 9 78) (mkPtok 40 "," 25 22 80)) (TyBasic (mkSpan (mkPtok 19 "char" 25 9 78) (mkPtok 19 "char" 25 9 78)) (mkBasicType (mkSpan (mkPtok 19 "char" 25 9 78) (mkPtok 19 "char" 25 9 78)) (mkPtok 19 "char" 25 9 78))) (mkPtok 42 "trueish" 25 14 79) None (mkPtok 40 "," 25 22 80)))] (mkPtok 3 "}" 26 0 82)) (mkPtok 40 "," 27 0 83))); (mkFieldWithAttr (mkSpan (mkPtok 14 "zchar[" 28 4 84) (mkPtok 40 "," 29 0 91)) [] (CheckSumField (mkSpan (mkPtok 14 "zchar[" 28 4 84) (mkPtok 40 "," 29 0 91)) (mkChecksumFieldDecl (mkSpan (mkPtok 14 "zchar[" 28 4 84) (mkPtok 40 "," 29 0 91)) (Some (TyFixed (mkSpan (mkPtok 14 "zchar[" 28 4 84) (mkPtok 13 "]" 28 21 86)) (mkFixedString (mkSpan (mkPtok 14 "zchar[" 28 4 84) (mkPtok 13 "]" 28 21 86)) (mkPtok 14 "zchar[" 28 4 84) (mkPtok 30 "4294967296" 28 10 85) (mkPtok 13 "]" 28 21 86)))) (mkPtok 42 "options1" 28 23 87) (mkCalculatedFrom (mkSpan (mkPtok 5 "@calculatedFrom(" 28 31 88) (mkPtok 6 ")" 28 56 90)) (mkPtok 5 "@calculatedFrom(" 28 31 88) (mkPtok 31 """CRC32""" 28 48 89) (mkPtok 6 ")" 28 56 90)) None (mkPtok 40 "," 29 0 91)))); (mkFieldWithAttr (mkSpan (mkPtok 38 "match" 29 1 92) (mkPtok 40 "," 36 6 123)) [] (MatchField (mkSpan (mkPtok 38 "match" 29 1 92) (mkPtok 40 "," 36 6 123)) (mkMatchFieldDecl (mkSpan (mkPtok 38 "match" 29 1 92) (mkPtok 3 "}" 36 4 122)) (mkPtok 38 "match" 29 1 92) (mkPtok 42 "packetx" 29 7 93) (mkPtok 17 "as" 29 15 94) (mkPtok 42 "lengthOf" 30 0 95) (mkPtok 2 "{" 31 0 96) [(mkMatchPair (mkSpan (mkPtok 31 """a\""b""" 31 2 97) (mkPtok 40 "," 32 9 100)) (MKString (mkPtok 31 """a\""b""" 31 2 97)) (mkPtok 39 ":" 31 9 98) (mkPtok 42 "options1" 32 0 99) (Some (mkPtok 40 "," 32 9 100))); (mkMatchPair (mkSpan (mkPtok 30 "0123456789" 33 0 101) (mkPtok 40 "," 33 17 104)) (MKDigits (mkPtok 30 "0123456789" 33 0 101)) (mkPtok 39 ":" 33 12 102) (mkPtok 42 "Foo" 33 14 103) (Some (mkPtok 40 "," 33 17 104))); (mkMatchPair (mkSpan (mkPtok 31 """a\\""" 33 19 105) (mkPtok 40 "," 34 0 108)) (MKString (mkPtok 31 """a\\""" 33 19 105)) (mkPtok 39 ":" 33 25 106) (mkPtok 42 "trueish" 33 27 107) (Some (mkPtok 40 "," 34 0 108))); (mkMatchPair (mkSpan (mkPtok 30 "3" 34 1 109) (mkPtok 40 "," 34 13 112)) (MKDigits (mkPtok 30 "3" 34 1 109)) (mkPtok 39 ":" 34 4 110) (mkPtok 42 "string_" 34 6 111) (Some (mkPtok 40 "," 34 13 112))); (mkMatchPair (mkSpan (mkPtok 31 """\n""" 34 14 113) (mkPtok 40 "," 35 0 116)) (MKString (mkPtok 31 """\n""" 34 14 113)) (mkPtok 39 ":" 34 19 114) (mkPtok 42 "zchar" 34 21 115) (Some (mkPtok 40 "," 35 0 116))); (mkMatchPair (mkSpan (mkPtok 18 "[" 35 2 117) (mkPtok 42 "u128" 35 14 121)) (MKList (mkKeyList (mkSpan (mkPtok 18 "[" 35 2 117) (mkPtok 13 "]" 35 10 119)) (mkPtok 18 "[" 35 2 117) (mkPtok 30 "65535" 35 4 118) [] (mkPtok 13 "]" 35 10 119))) (mkPtok 39 ":" 35 12 120) (mkPtok 42 "u128" 35 14 121) None)] (mkPtok 3 "}" 36 4 122)) (mkPtok 40 "," 36 6 123))); (mkFieldWithAttr (mkSpan (mkPtok 9 "@tag(" 36 9 124) (mkPtok 40 "," 42 4 136)) [(FATag (mkSpan (mkPtok 9 "@tag(" 36 9 124) (mkPtok 6 ")" 36 17 126)) (mkTagAttr (mkSpan (mkPtok 9 "@tag(" 36 9 124) (mkPtok 6 ")" 36 17 126)) (mkPtok 9 "@tag(" 36 9 124) (mkPtok 30 "42" 36 15 125) (mkPtok 6 ")" 36 17 126))); (FAPadding (mkSpan (mkPtok 32 "@leftPad" 36 19 127) (mkPtok 6 ")" 41 7 133)) (mkPaddingAttr (mkSpan (mkPtok 32 "@leftPad" 36 19 127) (mkPtok 6 ")" 41 7 133)) (mkPtok 32 "@leftPad" 36 19 127) (mkPtok 8 "(" 38 4 129) (Some (mkPtok 33 "'\x00'" 41 0 132)) (mkPtok 6 ")" 41 7 133)))] (MetaField (mkSpan (mkPtok 25 "i16" 41 9 134) (mkPtok 40 "," 42 4 136)) None (mkMetaDecl (mkSpan (mkPtok 25 "i16" 41 9 134) (mkPtok 40 "," 42 4 136)) (TyBasic (mkSpan (mkPtok 25 "i16" 41 9 134) (mkPtok 25 "i16" 41 9 134)) (mkBasicType (mkSpan (mkPtok 25 "i16" 41 9 134) (mkPtok 25 "i16" 41 9 134)) (mkPtok 25 "i16" 41 9 134))) (mkPtok 42 "crc" 42 0 135) None (mkPtok 40 "," 42 4 136))))] (mkPtok 3 "}" 42 6 137))); (DPacket (mkPacketDef (mkSpan (mkPtok 35 "packet" 42 7 138) (mkPtok 3 "}" 43 2 142)) None (mkPtok 35 "packet" 42 7 138) (mkPtok 42 "lengthOf" 42 14 139) (mkPtok 2 "{" 43 0 141) [] (mkPtok 3 "}" 43 2 142)))])).
Eval vm_compute in ("<<<M661>>>" ++ check (runes_of_ascii "root packet BodyLength { int8 asx ``
    , match stringy  as falsey
    { 7
:stringy } , Header `u8 x,` ,match string_  as falsey{ 007 :
    BodyLength 65535:	roots [
//
//x
10,
00, ""a\""b""  , 0123456789 ,	3
    , /// triple
""" ++ [233]%N ++ runes_of_ascii "t" ++ [233]%N ++ runes_of_ascii """, ""x y"" , ""abc""
] :
crc , 0123456789
    : f32a
, 1
    :
    Logon,  [""CRC32"" // a // b
,
""a	b"" ,
    65535 , ""1"" ,// trailing space 
""1""	,
65535 ] :
zchar //	t
,  } , i64_ , } //	t")).
Eval vm_compute in ("<<<M693>>>" ++ check (runes_of_ascii "MetaData i8i8 { char[0123456789
    ]
    body `doc`, // c
} packet uint8x{pack { char u `crlf
line`
, float , zchar[ 007] //	t
A ,} , char[]
    /// triple
    calculatedFrom `
` , char[
    42 ] matchKey @calculatedFrom(
//
// " ++ [27880; 37322]%N ++ runes_of_ascii "
""a\\"")`` , }  root  packet int { @rightPad (
'0'// packet A { u8 x, }
) Pad  { match zchar as asx {
    [""a	b"" , 42 ] :Logon//
} ,
Packet
    {
    zchar[ 4294967296 ]
    A ,}
//	t
//
, match x as float {  ""x y""	: o
    // a // b
    ,
    1	: calculatedFrom}, } ,}
//
")).
Eval vm_compute in ("<<<M725>>>" ++ check (runes_of_ascii "MetaData BodyLength { falsey
    // packet A { u8 x, }
    Logon  `{ , }` ,u8 int`" ++ [28040; 24687; 31867; 22411]%N ++ runes_of_ascii "`, zchar[7 ]// packet A { u8 x, }
len/// triple
,  }  MetaData// @lengthOf(
u
    {
Logon matchKey
`{ , }`	,	char[42 ]
// packet A { u8 x, }
/// triple
int
`line1
line2`,
    char[ 7
    ] x_y_z
    `doc` , }")).
Eval vm_compute in ("<<<M757>>>" ++ check (runes_of_ascii "packet  As
{ char[] metadata
`doc`
, } root packet	int
{ // packet A { u8 x, }
zchar[ // @lengthOf(
007 ] leftPad ,
} // `tick` ""quote"" 'q'")).
Eval vm_compute in ("<<<M789>>>" ++ check (runes_of_ascii "
packet
    Pad{// `tick` ""quote"" 'q'
@tag( 42)
body
u8x , char[ 3 ]
u128
`it's`
,
char[ 4294967296 ]uint8x`two words`  ,@lengthOf(	f32a ) body {repeat string roots ,Pad @calculatedFrom( ""\" ++ [233]%N ++ runes_of_ascii """ // trailing space 
)
,
// trailing space 
// " ++ [27880; 37322]%N ++ runes_of_ascii "
metadata  crc`tab	here`, lengthOf
    {zchar[  0 ] x_y_z
    // packet A { u8 x, }
    @lengthOf( crc )
    `u8 x,` ,char[] roots ,
    //x
    } ,
    } ,	}
    // c
    options {rootA =""packet""
    }")).
Eval vm_compute in ("<<<M821>>>" ++ check (runes_of_ascii "MetaData x
    /// triple
    {
int32 // " ++ [27880; 37322]%N ++ runes_of_ascii "
a1`say ""hi""`	, }
")).
Eval vm_compute in ("<<<M853>>>" ++ check (runes_of_ascii "options {  }packet Packet
    { repeat
zchar[ 0123456789 ]
    crc , repeat zchar[	4294967296
]Z9_ ,// packet A { u8 x, }
rootA ,repeat Packet
    { lengthOf{
u8x `{ , }` , zchar[ 0123456789 ] lengthOf
`{ , }` , // " ++ [27880; 37322]%N ++ runes_of_ascii "
Header { repeat
// c
//x
f32 As `line1
line2`	,
    charz
    @calculatedFrom( ""1""
) , } , },},
i8//	t
float
@lengthOf( T// packet A { u8 x, }
) ,@lengthOf(
    metadata )
@calculatedFrom( ""packet""
    // a // b
    ) @lengthOf( repeatCount ) repeat
f32 Foo	, } 	 ")).
Eval vm_compute in ("<<<T853>>>" ++ terms [mkTok 1 "options" 1 0 false; mkTok 2 "{" 1 8 false; mkTok 3 "}" 1 11 false; mkTok 35 "packet" 1 12 false; mkTok 42 "Packet" 1 19 false; mkTok 2 "{" 2 4 false; mkTok 36 "repeat" 2 6 false; mkTok 14 "zchar[" 3 0 false; mkTok 30 "0123456789" 3 7 false; mkTok 13 "]" 3 18 false; mkTok 42 "crc" 4 4 false; mkTok 40 "," 4 8 false; mkTok 36 "repeat" 4 10 false; mkTok 14 "zchar[" 4 17 false; mkTok 30 "4294967296" 4 24 false; mkTok 13 "]" 5 0 false; mkTok 42 "Z9_" 5 1 false; mkTok 40 "," 5 5 false; mkTok 44 "// packet A { u8 x, }" 5 6 true; mkTok 42 "rootA" 6 0 false; mkTok 40 "," 6 6 false; mkTok 36 "repeat" 6 7 false; mkTok 42 "Packet" 6 14 false; mkTok 2 "{" 7 4 false; mkTok 42 "lengthOf" 7 6 false; mkTok 2 "{" 7 14 false; mkTok 42 "u8x" 8 0 false; mkTok 43 "`{ , }`" 8 4 false; mkTok 40 "," 8 12 false; mkTok 14 "zchar[" 8 14 false; mkTok 30 "0123456789" 8 21 false; mkTok 13 "]" 8 32 false; mkTok 42 "lengthOf" 8 34 false; mkTok 43 "`{ , }`" 9 0 false; mkTok 40 "," 9 8 false; mkTok 44 (string_of_bytes [47; 47; 32; 230; 179; 168; 233; 135; 138]%N) 9 10 true; mkTok 42 "Header" 10 0 false; mkTok 2 "{" 10 7 false; mkTok 36 "repeat" 10 9 false; mkTok 44 "// c" 11 0 true; mkTok 44 "//x" 12 0 true; mkTok 28 "f32" 13 0 false; mkTok 42 "As" 13 4 false; mkTok 43 (string_of_bytes [96; 108; 105; 110; 101; 49; 10; 108; 105; 110; 101; 50; 96]%N) 13 7 false; mkTok 40 "," 14 7 false; mkTok 42 "charz" 15 4 false; mkTok 5 "@calculatedFrom(" 16 4 false; mkTok 31 """1""" 16 21 false; mkTok 6 ")" 17 0 false; mkTok 40 "," 17 2 false; mkTok 3 "}" 17 4 false; mkTok 40 "," 17 6 false; mkTok 3 "}" 17 8 false; mkTok 40 "," 17 9 false; mkTok 3 "}" 17 10 false; mkTok 40 "," 17 11 false; mkTok 24 "i8" 18 0 false; mkTok 44 (string_of_bytes [47; 47; 9; 116]%N) 18 2 true; mkTok 42 "float" 19 0 false; mkTok 7 "@lengthOf(" 20 0 false; mkTok 42 "T" 20 11 false; mkTok 44 "// packet A { u8 x, }" 20 12 true; mkTok 6 ")" 21 0 false; mkTok 40 "," 21 2 false; mkTok 7 "@lengthOf(" 21 3 false; mkTok 42 "metadata" 22 4 false; mkTok 6 ")" 22 13 false; mkTok 5 "@calculatedFrom(" 23 0 false; mkTok 31 """packet""" 23 17 false; mkTok 44 "// a // b" 24 4 true; mkTok 6 ")" 25 4 false; mkTok 7 "@lengthOf(" 25 6 false; mkTok 42 "repeatCount" 25 17 false; mkTok 6 ")" 25 29 false; mkTok 36 "repeat" 25 31 false; mkTok 28 "f32" 26 0 false; mkTok 42 "Foo" 26 4 false; mkTok 40 "," 26 8 false; mkTok 3 "}" 26 10 false; mkTok 0 "<EOF>" 26 14 false] (mkPacket (mkPtok 1 "options" 1 0 0) (Some (mkPtok 3 "}" 26 10 78)) [(DOption (mkOptionDef (mkSpan (mkPtok 1 "options" 1 0 0) (mkPtok 3 "}" 1 11 2)) (mkPtok 1 "options" 1 0 0) (mkPtok 2 "{" 1 8 1) [] (mkPtok 3 "}" 1 11 2))); (DPacket (mkPacketDef (mkSpan (mkPtok 35 "packet" 1 12 3) (mkPtok 3 "}" 26 10 78)) None (mkPtok 35 "packet" 1 12 3) (mkPtok 42 "Packet" 1 19 4) (mkPtok 2 "{" 2 4 5) [(mkFieldWithAttr (mkSpan (mkPtok 36 "repeat" 2 6 6) (mkPtok 40 "," 4 8 11)) [] (MetaField (mkSpan (mkPtok 36 "repeat" 2 6 6) (mkPtok 40 "," 4 8 11)) (Some (mkPtok 36 "repeat" 2 6 6)) (mkMetaDecl (mkSpan (mkPtok 14 "zchar[" 3 0 7) (mkPtok 40 "," 4 8 11)) (TyFixed (mkSpan (mkPtok 14 "zchar[" 3 0 7) (mkPtok 13 "]" 3 18 9)) (mkFixedString (mkSpan (mkPtok 14 "zchar[" 3 0 7) (mkPtok 13 "]" 3 18 9)) (mkPtok 14 "zchar[" 3 0 7) (mkPtok 30 "0123456789" 3 7 8) (mkPtok 13 "]" 3 18 9))) (mkPtok 42 "crc" 4 4 10) None (mkPtok 40 "," 4 8 11)))); (mkFieldWithAttr (mkSpan (mkPtok 36 "repeat" 4 10 12) (mkPtok 40 "," 5 5 17)) [] (MetaField (mkSpan (mkPtok 36 "repeat" 4 10 12) (mkPtok 40 "," 5 5 17)) (Some (mkPtok 36 "repeat" 4 10 12)) (mkMetaDecl (mkSpan (mkPtok 14 "zchar[" 4 17 13) (mkPtok 40 "," 5 5 17)) (TyFixed (mkSpan (mkPtok 14 "zchar[" 4 17 13) (mkPtok 13 "]" 5 0 15)) (mkFixedString (mkSpan (mkPtok 14 "zchar[" 4 17 13) (mkPtok 13 "]" 5 0 15)) (mkPtok 14 "zchar[" 4 17 13) (mkPtok 30 "4294967296" 4 24 14) (mkPtok 13 "]" 5 0 15))) (mkPtok 42 "Z9_" 5 1 16) None (mkPtok 40 "," 5 5 17)))); (mkFieldWithAttr (mkSpan (mkPtok 42 "rootA" 6 0 19) (mkPtok 40 "," 6 6 20)) [] (ObjectField (mkSpan (mkPtok 42 "rootA" 6 0 19) (mkPtok 40 "," 6 6 20)) None (mkPtok 42 "rootA" 6 0 19) None None (mkPtok 40 "," 6 6 20))); (mkFieldWithAttr (mkSpan (mkPtok 36 "repeat" 6 7 21) (mkPtok 40 "," 17 11 55)) [] (InerObjectField (mkSpan (mkPtok 36 "repeat" 6 7 21) (mkPtok 40 "," 17 11 55)) (Some (mkPtok 36 "repeat" 6 7 21)) (InerObjectDecl (mkSpan (mkPtok 42 "Packet" 6 14 22) (mkPtok 3 "}" 17 10 54)) (mkPtok 42 "Packet" 6 14 22) (mkPtok 2 "{" 7 4 23) [(InerObjectField (mkSpan (mkPtok 42 "lengthOf" 7 6 24) (mkPtok 40 "," 17 9 53)) None (InerObjectDecl (mkSpan (mkPtok 42 "lengthOf" 7 6 24) (mkPtok 3 "}" 17 8 52)) (mkPtok 42 "lengthOf" 7 6 24) (mkPtok 2 "{" 7 14 25) [(ObjectField (mkSpan (mkPtok 42 "u8x" 8 0 26) (mkPtok 40 "," 8 12 28)) None (mkPtok 42 "u8x" 8 0 26) None (Some (mkPtok 43 "`{ , }`" 8 4 27)) (mkPtok 40 "," 8 12 28)); (MetaField (mkSpan (mkPtok 14 "zchar[" 8 14 29) (mkPtok 40 "," 9 8 34)) None (mkMetaDecl (mkSpan (mkPtok 14 "zchar[" 8 14 29) (mkPtok 40 "," 9 8 34)) (TyFixed (mkSpan (mkPtok 14 "zchar[" 8 14 29) (mkPtok 13 "]" 8 32 31)) (mkFixedString (mkSpan (mkPtok 14 "zchar[" 8 14 29) (mkPtok 13 "]" 8 32 31)) (mkPtok 14 "zchar[" 8 14 29) (mkPtok 30 "0123456789" 8 21 30) (mkPtok 13 "]" 8 32 31))) (mkPtok 42 "lengthOf" 8 34 32) (Some (mkPtok 43 "`{ , }`" 9 0 33)) (mkPtok 40 "," 9 8 34))); (InerObjectField (mkSpan (mkPtok 42 "Header" 10 0 36) (mkPtok 40 "," 17 6 51)) None (InerObjectDecl (mkSpan (mkPtok 42 "Header" 10 0 36) (mkPtok 3 "}" 17 4 50)) (mkPtok 42 "Header" 10 0 36) (mkPtok 2 "{" 10 7 37) [(MetaField (mkSpan (mkPtok 36 "repeat" 10 9 38) (mkPtok 40 "," 14 7 44)) (Some (mkPtok 36 "repeat" 10 9 38)) (mkMetaDecl (mkSpan (mkPtok 28 "f32" 13 0 41) (mkPtok 40 "," 14 7 44)) (TyBasic (mkSpan (mkPtok 28 "f32" 13 0 41) (mkPtok 28 "f32" 13 0 41)) (mkBasicType (mkSpan (mkPtok 28 "f32" 13 0 41) (mkPtok 28 "f32" 13 0 41)) (mkPtok 28 "f32" 13 0 41))) (mkPtok 42 "As" 13 4 42) (Some (mkPtok 43 (string_of_bytes [96; 108; 105; 110; 101; 49; 10; 108; 105; 110; 101; 50; 96]%N) 13 7 43)) (mkPtok 40 "," 14 7 44))); (CheckSumField (mkSpan (mkPtok 42 "charz" 15 4 45) (mkPtok 40 "," 17 2 49)) (mkChecksumFieldDecl (mkSpan (mkPtok 42 "charz" 15 4 45) (mkPtok 40 "," 17 2 49)) None (mkPtok 42 "charz" 15 4 45) (mkCalculatedFrom (mkSpan (mkPtok 5 "@calculatedFrom(" 16 4 46) (mkPtok 6 ")" 17 0 48)) (mkPtok 5 "@calculatedFrom(" 16 4 46) (mkPtok 31 """1""" 16 21 47) (mkPtok 6 ")" 17 0 48)) None (mkPtok 40 "," 17 2 49)))] (mkPtok 3 "}" 17 4 50)) (mkPtok 40 "," 17 6 51))] (mkPtok 3 "}" 17 8 52)) (mkPtok 40 "," 17 9 53))] (mkPtok 3 "}" 17 10 54)) (mkPtok 40 "," 17 11 55))); (mkFieldWithAttr (mkSpan (mkPtok 24 "i8" 18 0 56) (mkPtok 40 "," 21 2 63)) [] (LengthField (mkSpan (mkPtok 24 "i8" 18 0 56) (mkPtok 40 "," 21 2 63)) (mkLengthFieldDecl (mkSpan (mkPtok 24 "i8" 18 0 56) (mkPtok 40 "," 21 2 63)) (Some (TyBasic (mkSpan (mkPtok 24 "i8" 18 0 56) (mkPtok 24 "i8" 18 0 56)) (mkBasicType (mkSpan (mkPtok 24 "i8" 18 0 56) (mkPtok 24 "i8" 18 0 56)) (mkPtok 24 "i8" 18 0 56)))) (mkPtok 42 "float" 19 0 58) (mkLengthOf (mkSpan (mkPtok 7 "@lengthOf(" 20 0 59) (mkPtok 6 ")" 21 0 62)) (mkPtok 7 "@lengthOf(" 20 0 59) (mkPtok 42 "T" 20 11 60) (mkPtok 6 ")" 21 0 62)) None (mkPtok 40 "," 21 2 63)))); (mkFieldWithAttr (mkSpan (mkPtok 7 "@lengthOf(" 21 3 64) (mkPtok 40 "," 26 8 77)) [(FALengthOf (mkSpan (mkPtok 7 "@lengthOf(" 21 3 64) (mkPtok 6 ")" 22 13 66)) (mkLengthOf (mkSpan (mkPtok 7 "@lengthOf(" 21 3 64) (mkPtok 6 ")" 22 13 66)) (mkPtok 7 "@lengthOf(" 21 3 64) (mkPtok 42 "metadata" 22 4 65) (mkPtok 6 ")" 22 13 66))); (FACalculatedFrom (mkSpan (mkPtok 5 "@calculatedFrom(" 23 0 67) (mkPtok 6 ")" 25 4 70)) (mkCalculatedFrom (mkSpan (mkPtok 5 "@calculatedFrom(" 23 0 67) (mkPtok 6 ")" 25 4 70)) (mkPtok 5 "@calculatedFrom(" 23 0 67) (mkPtok 31 """packet""" 23 17 68) (mkPtok 6 ")" 25 4 70))); (FALengthOf (mkSpan (mkPtok 7 "@lengthOf(" 25 6 71) (mkPtok 6 ")" 25 29 73)) (mkLengthOf (mkSpan (mkPtok 7 "@lengthOf(" 25 6 71) (mkPtok 6 ")" 25 29 73)) (mkPtok 7 "@lengthOf(" 25 6 71) (mkPtok 42 "repeatCount" 25 17 72) (mkPtok 6 ")" 25 29 73)))] (MetaField (mkSpan (mkPtok 36 "repeat" 25 31 74) (mkPtok 40 "," 26 8 77)) (Some (mkPtok 36 "repeat" 25 31 74)) (mkMetaDecl (mkSpan (mkPtok 28 "f32" 26 0 75) (mkPtok 40 "," 26 8 77)) (TyBasic (mkSpan (mkPtok 28 "f32" 26 0 75) (mkPtok 28 "f32" 26 0 75)) (mkBasicType (mkSpan (mkPtok 28 "f32" 26 0 75) (mkPtok 28 "f32" 26 0 75)) (mkPtok 28 "f32" 26 0 75))) (mkPtok 42 "Foo" 26 4 76) None (mkPtok 40 "," 26 8 77))))] (mkPtok 3 "}" 26 10 78)))])).
Eval vm_compute in ("<<<M885>>>" ++ check (runes_of_ascii "options {	msg_type = 007 ; //
u8x =""`tick`""}// @lengthOf(
packet body { match o as
    /// triple
    options1
    {
//
//x
""{,}"" :// trailing space 
x_y_z 7
:
Foo,4294967296
: len
, ""// no comment""
: i64_,	} , @lengthOf(
matchKey
)repeat
u32 x_y_z `say ""hi""` , } MetaData a1 {// a // b
options1 options1	`doc` , }
// " ++ [128512]%N ++ runes_of_ascii " emoji
")).
Eval vm_compute in ("<<<M917>>>" ++ check (runes_of_ascii "root packet Header
{ match leftPad as Foo
    {// c
7 : o
// @lengthOf(
//x
,
0 : u8x 65535: leftPad  ,
    00:
asx  , ""it's"" : //
o , },
    }
")).
Eval vm_compute in ("<<<M949>>>" ++ check (runes_of_ascii "packet tag	{ BodyLength
    // @lengthOf(
    @lengthOf( options1
    )
,} options
{trueish
    = ""a\\""	matchKey
= 0123456789 // trailing space 
;
    BodyLength = '\x00' charz = """ ++ [233]%N ++ runes_of_ascii "t" ++ [233]%N ++ runes_of_ascii """
; }
")).
Eval vm_compute in ("<<<M981>>>" ++ check (runes_of_ascii "packet body { }")).
Eval vm_compute in ("<<<M1013>>>" ++ check (runes_of_ascii "//
packet
// " ++ [128512]%N ++ runes_of_ascii " emoji
//	t
falsey{ x_y_z @calculatedFrom( ""CRC32"" ) `{ , }` , repeat int8
i64_ , char[]f32a
    ,@lengthOf(calculatedFrom ) repeat string f32a `{ , }` , match pack as u128 { [ 10
//	t
// trailing space 
, 7 ] : calculatedFrom ,
""" ++ [128512]%N ++ runes_of_ascii """ : options1
    // c
    , 1 : calculatedFrom , ""\" ++ [233]%N ++ runes_of_ascii """
    :body
    ,
}, @leftPad(' ' ) o packetx ``
,  @calculatedFrom( ""{,}""
    ) char[ 7  ] u , repeat u	_x , Z9_
    , @leftPad
(  ' ' ) string asx ,} packet
zchar { zchar[1 ] As `two words`
, zchar[
    7
] charz @calculatedFrom(""" ++ [128512]%N ++ runes_of_ascii """ ) , // c
@tag( 4294967296
)  char[]
uint8x @calculatedFrom(
    ""`tick`""
)//x
, repeat char
    metadata, zchar[ 65535 /// triple
] metadata , stringy i64_ ,
    @leftPad	('\x00' ) string_ @lengthOf( //
options1 ) ,@tag(// packet A { u8 x, }
65535)  float64 Foo @calculatedFrom(  ""abc""
    ) `{ , }` , }options {
// packet A { u8 x, }
//	t
}
")).
Eval vm_compute in ("<<<M1045>>>" ++ check (runes_of_ascii "packet A { tag T
`u8 x,`
//
// `tick` ""quote"" 'q'
, @calculatedFrom( ""a\\"" )match Header as charz
    {
    1 : Z9_ , 65535 :  falsey ,
    // " ++ [128512]%N ++ runes_of_ascii " emoji
    ""it's"" :
trueish ,
    ""x y"": stringy ,
""x y"" :
falsey ,  } ,
float uint8x  , } options {trueish =
    char[] ;}
    MetaData
i64_ { stringy
roots
`a\` ,	zchar[ 4294967296 ] repeatCount , }
MetaData body {  u8x
    int
, a1 f32a , }
")).
Eval vm_compute in ("<<<M1077>>>" ++ check (runes_of_ascii "MetaData metadata
    {
    // c
    i32
x , }
")).
Eval vm_compute in ("<<<T1077>>>" ++ terms [mkTok 37 "MetaData" 1 0 false; mkTok 42 "metadata" 1 9 false; mkTok 2 "{" 2 4 false; mkTok 44 "// c" 3 4 true; mkTok 26 "i32" 4 4 false; mkTok 42 "x" 5 0 false; mkTok 40 "," 5 2 false; mkTok 3 "}" 5 4 false; mkTok 0 "<EOF>" 6 0 false] (mkPacket (mkPtok 37 "MetaData" 1 0 0) (Some (mkPtok 3 "}" 5 4 7)) [(DMeta (mkMetaDef (mkSpan (mkPtok 37 "MetaData" 1 0 0) (mkPtok 3 "}" 5 4 7)) (mkPtok 37 "MetaData" 1 0 0) (mkPtok 42 "metadata" 1 9 1) (mkPtok 2 "{" 2 4 2) [(MIDecl (mkMetaDecl (mkSpan (mkPtok 26 "i32" 4 4 4) (mkPtok 40 "," 5 2 6)) (TyBasic (mkSpan (mkPtok 26 "i32" 4 4 4) (mkPtok 26 "i32" 4 4 4)) (mkBasicType (mkSpan (mkPtok 26 "i32" 4 4 4) (mkPtok 26 "i32" 4 4 4)) (mkPtok 26 "i32" 4 4 4))) (mkPtok 42 "x" 5 0 5) None (mkPtok 40 "," 5 2 6)))] (mkPtok 3 "}" 5 4 7)))])).
Eval vm_compute in ("<<<M1109>>>" ++ check (runes_of_ascii "
options { Packet=' ' BodyLength=
65535 zchar	=
'0'// @lengthOf(
; lengthOf //x
=
    false ;}options {
o
= true ;
Foo
    = ""a\\"";} MetaData chars{
    zchar[
00
// " ++ [128512]%N ++ runes_of_ascii " emoji
//
] // packet A { u8 x, }
A ,
Packet calculatedFrom
    , falsey
options1, int32 x_y_z, char[]
    zchar
// " ++ [128512]%N ++ runes_of_ascii " emoji
// " ++ [128512]%N ++ runes_of_ascii " emoji
, }
    MetaData // " ++ [27880; 37322]%N ++ runes_of_ascii "
_x { stringy f32a
`u8 x,`  ,
} packet f32a
//
// " ++ [27880; 37322]%N ++ runes_of_ascii "
{
    @calculatedFrom(""a\\"" )// " ++ [128512]%N ++ runes_of_ascii " emoji
match a1
as x_y_z
{
    [ """ ++ [233]%N ++ runes_of_ascii "t" ++ [233]%N ++ runes_of_ascii """ , """" ,""" ++ [128512]%N ++ runes_of_ascii """ , ""`tick`"" ,
""x y"" , //	t
""abc""
// `tick` ""quote"" 'q'
// " ++ [27880; 37322]%N ++ runes_of_ascii "
,
    ""\" ++ [233]%N ++ runes_of_ascii """ ,""packet""]	: int
,
    }	,
//
// c
repeat uint16	f32a `crlf
line` , }")).
Eval vm_compute in ("<<<M1141>>>" ++ check (runes_of_ascii "options {o= 007 Z9_ =
"""" Logon // a // b
= 4294967296 //	t
; }
packet stringy {}
")).
Eval vm_compute in ("<<<M1173>>>" ++ check (runes_of_ascii "  packet
    falsey { float64	calculatedFrom`
`, /// triple
@tag(
42 )
repeatCount {
match repeatCount as  A	{
    0 : f32a
    ,
    } ,
uint16 f32a @calculatedFrom(
""a\\"" )  `// not a comment`  , crc {
    char[ 3 ]
Logon // `tick` ""quote"" 'q'
@calculatedFrom(
""packet"" ), repeat
u128
    {zchar[
    42 ]lengthOf `crlf
line` ,Pad roots `line1
line2`
,
}
// packet A { u8 x, }
// trailing space 
,
// packet A { u8 x, }
// `tick` ""quote"" 'q'
}
,}	,
} packet uint8x	{repeat u8
body , }packet
asx	{
zchar[ 255]
// " ++ [128512]%N ++ runes_of_ascii " emoji
// trailing space 
asx ,}
")).
Eval vm_compute in ("<<<M1205>>>" ++ check (runes_of_ascii "//x
options {
    pack = ""{,}"" ; asx = 65535 ; u
= zchar[ 007 ] ;
    // trailing space 
    i8i8
=char[]
As //x
=' ' } // packet A { u8 x, }")).
Eval vm_compute in ("<<<M1237>>>" ++ check (runes_of_ascii "
root packet  u128	{	char[ 007 ]MetaDataX
,}")).
Eval vm_compute in ("<<<M1269>>>" ++ check (runes_of_ascii "packet  charz { // packet A { u8 x, }
repeat len packetx  , }
options{string_=false
    ;crc=007
; _x = ""a	b""
// " ++ [128512]%N ++ runes_of_ascii " emoji
// trailing space 
;Z9_ = int16 }
")).
Eval vm_compute in ("<<<M1301>>>" ++ check (runes_of_ascii "
")).
Eval vm_compute in ("<<<T1301>>>" ++ terms [mkTok 0 "<EOF>" 2 0 false] (mkPacket (mkPtok 0 "<EOF>" 2 0 0) None [])).
Eval vm_compute in ("<<<M1333>>>" ++ check (runes_of_ascii "// " ++ [128512]%N ++ runes_of_ascii " emoji
packet u8x {	char[] Z9_ , @leftPad
    (
'0'
)
    //x
    u64 int@lengthOf(
//x
//	t
A ) `crlf
line`	,	repeat
u8x
`" ++ [28040; 24687; 31867; 22411]%N ++ runes_of_ascii "`, int64 leftPad @lengthOf(
T), i8i8 i64_  , // " ++ [128512]%N ++ runes_of_ascii " emoji
repeat msg_type ,@rightPad
    // a // b
    (	'\x00'  ) @lengthOf( zchar )
matchKey ,
    // packet A { u8 x, }
    } MetaData u { } MetaData x_y_z {int16
rootA,char[]
o `it's`
// packet A { u8 x, }
// @lengthOf(
, }
options {}
")).
Eval vm_compute in ("<<<M1365>>>" ++ check (runes_of_ascii "
packet As { repeat string
    Logon `two words` , @calculatedFrom( """" ) zchar[ 7 ]chars`crlf
line` ,@rightPad (
    '\x00' ) repeat len
u , uint16 // " ++ [27880; 37322]%N ++ runes_of_ascii "
options1
    , } packet
u
    { @leftPad
    ( ' ' ) repeat a1 packetx, u32 a1 @calculatedFrom( """ ++ [128512]%N ++ runes_of_ascii """
    ) , }packet As { repeat float32 options1
    `doc`, repeat float32
// trailing space 
// trailing space 
x_y_z
,@calculatedFrom( """ ++ [28040; 24687]%N ++ runes_of_ascii """
)u16
    int`a\` , }")).
Eval vm_compute in ("<<<M1397>>>" ++ check (runes_of_ascii "packet string_
    {A { // trailing space 
zchar[1 ] // a // b
len	,match leftPad	as metadata {
    // " ++ [27880; 37322]%N ++ runes_of_ascii "
    [
    4294967296 ,
    4294967296 , 00 , 1, ""{,}"" ,
    007 /// triple
, 7 ]
: chars
    /// triple
    , 0
: i64_
    ,}, }
    //	t
    ,	uint8 charz`" ++ [233]%N ++ runes_of_ascii "`
    // trailing space 
    ,
charz msg_type , @rightPad	(
    ' '
    )
    @calculatedFrom( ""it's"" ) repeat a1
`it's`
, //x
repeat Logon
{ int o , metadata , zchar[
    0] msg_type@calculatedFrom( """" ) , pack
,} ,	@calculatedFrom(""it's"" )  char[
    00 ] int `u8 x,`
, i32
charz
`{ , }`,
repeat f64 As `" ++ [28040; 24687; 31867; 22411]%N ++ runes_of_ascii "`
/// triple
// @lengthOf(
,} MetaData //
metadata
{ string
    falsey , }
    packet o	{	float64 roots @lengthOf( body ) ,
    //
    }")).
Eval vm_compute in ("<<<M1429>>>" ++ check (runes_of_ascii "options { } root
    packet Packet { Packet
i8i8
// `tick` ""quote"" 'q'
/// triple
`
`,}
    options { asx  ='\x00'; //
} MetaData Packet
{ }
")).
Eval vm_compute in ("<<<M1461>>>" ++ check (runes_of_ascii "
")).
Eval vm_compute in ("<<<M1493>>>" ++ check (runes_of_ascii "options
{	trueish = f64
    ;
i8i8  =
int16 ;rootA = ""`tick`"" ;} 	 ")).
Eval vm_compute in ("<<<M1525>>>" ++ check (runes_of_ascii "packet metadata
    { repeat /// triple
MetaDataX Z9_ ,
repeat float{ o
@lengthOf( u ) ,} , zchar[
00]
x_y_z ,@rightPad // packet A { u8 x, }
(
' ') char[] x ,
    // @lengthOf(
    @calculatedFrom(	""`tick`"" )
uint8x { char[
    255] float /// triple
,}
,
repeat T
    calculatedFrom , repeat
int8 Header , /// triple
@tag(
4294967296) match crc as
    Foo { ""CRC32"" : Packet
,[  0
    , ""a\""b"" ,1 ] : pack , 0
:
    As //x
}// `tick` ""quote"" 'q'
,repeat zchar msg_type ,
    } options {i8i8
=	65535 ;  }
    MetaData  charz { leftPad float`
`
,float64 rootA`
` ,} MetaData int  { char[
3
]Logon `doc`, int64
    o `" ++ [233]%N ++ runes_of_ascii "`
, zchar[
    42 ]  Pad`// not a comment`
, zchar[007 //
] packetx `a\`
    , packetx // a // b
a1`
` , }  packet // c
lengthOf {/// triple
match
stringy as int {	007 : stringy
    }
    , uint32 chars
`u8 x,` // " ++ [128512]%N ++ runes_of_ascii " emoji
, @calculatedFrom(
// a // b
// " ++ [128512]%N ++ runes_of_ascii " emoji
""it's""
)@leftPad (  '0'
    ) match roots as // c
Header {[ ""\n"" , 7 ,
    ""// no comment"" ]	:
msg_type ,}
    ,
    }
")).
Eval vm_compute in ("<<<T1525>>>" ++ terms [mkTok 35 "packet" 1 0 false; mkTok 42 "metadata" 1 7 false; mkTok 2 "{" 2 4 false; mkTok 36 "repeat" 2 6 false; mkTok 44 "/// triple" 2 13 true; mkTok 42 "MetaDataX" 3 0 false; mkTok 42 "Z9_" 3 10 false; mkTok 40 "," 3 14 false; mkTok 36 "repeat" 4 0 false; mkTok 42 "float" 4 7 false; mkTok 2 "{" 4 12 false; mkTok 42 "o" 4 14 false; mkTok 7 "@lengthOf(" 5 0 false; mkTok 42 "u" 5 11 false; mkTok 6 ")" 5 13 false; mkTok 40 "," 5 15 false; mkTok 3 "}" 5 16 false; mkTok 40 "," 5 18 false; mkTok 14 "zchar[" 5 20 false; mkTok 30 "00" 6 0 false; mkTok 13 "]" 6 2 false; mkTok 42 "x_y_z" 7 0 false; mkTok 40 "," 7 6 false; mkTok 32 "@rightPad" 7 7 false; mkTok 44 "// packet A { u8 x, }" 7 17 true; mkTok 8 "(" 8 0 false; mkTok 33 "' '" 9 0 false; mkTok 6 ")" 9 3 false; mkTok 16 "char[]" 9 5 false; mkTok 42 "x" 9 12 false; mkTok 40 "," 9 14 false; mkTok 44 "// @lengthOf(" 10 4 true; mkTok 5 "@calculatedFrom(" 11 4 false; mkTok 31 """`tick`""" 11 21 false; mkTok 6 ")" 11 30 false; mkTok 42 "uint8x" 12 0 false; mkTok 2 "{" 12 7 false; mkTok 12 "char[" 12 9 false; mkTok 30 "255" 13 4 false; mkTok 13 "]" 13 7 false; mkTok 42 "float" 13 9 false; mkTok 44 "/// triple" 13 15 true; mkTok 40 "," 14 0 false; mkTok 3 "}" 14 1 false; mkTok 40 "," 15 0 false; mkTok 36 "repeat" 16 0 false; mkTok 42 "T" 16 7 false; mkTok 42 "calculatedFrom" 17 4 false; mkTok 40 "," 17 19 false; mkTok 36 "repeat" 17 21 false; mkTok 24 "int8" 18 0 false; mkTok 42 "Header" 18 5 false; mkTok 40 "," 18 12 false; mkTok 44 "/// triple" 18 14 true; mkTok 9 "@tag(" 19 0 false; mkTok 30 "4294967296" 20 0 false; mkTok 6 ")" 20 10 false; mkTok 38 "match" 20 12 false; mkTok 42 "crc" 20 18 false; mkTok 17 "as" 20 22 false; mkTok 42 "Foo" 21 4 false; mkTok 2 "{" 21 8 false; mkTok 31 """CRC32""" 21 10 false; mkTok 39 ":" 21 18 false; mkTok 42 "Packet" 21 20 false; mkTok 40 "," 22 0 false; mkTok 18 "[" 22 1 false; mkTok 30 "0" 22 4 false; mkTok 40 "," 23 4 false; mkTok 31 """a\""b""" 23 6 false; mkTok 40 "," 23 13 false; mkTok 30 "1" 23 14 false; mkTok 13 "]" 23 16 false; mkTok 39 ":" 23 18 false; mkTok 42 "pack" 23 20 false; mkTok 40 "," 23 25 false; mkTok 30 "0" 23 27 false; mkTok 39 ":" 24 0 false; mkTok 42 "As" 25 4 false; mkTok 44 "//x" 25 7 true; mkTok 3 "}" 26 0 false; mkTok 44 "// `tick` ""quote"" 'q'" 26 1 true; mkTok 40 "," 27 0 false; mkTok 36 "repeat" 27 1 false; mkTok 42 "zchar" 27 8 false; mkTok 42 "msg_type" 27 14 false; mkTok 40 "," 27 23 false; mkTok 3 "}" 28 4 false; mkTok 1 "options" 28 6 false; mkTok 2 "{" 28 14 false; mkTok 42 "i8i8" 28 15 false; mkTok 4 "=" 29 0 false; mkTok 30 "65535" 29 2 false; mkTok 41 ";" 29 8 false; mkTok 3 "}" 29 11 false; mkTok 37 "MetaData" 30 4 false; mkTok 42 "charz" 30 14 false; mkTok 2 "{" 30 20 false; mkTok 42 "leftPad" 30 22 false; mkTok 42 "float" 30 30 false; mkTok 43 (string_of_bytes [96; 10; 96]%N) 30 35 false; mkTok 40 "," 32 0 false; mkTok 29 "float64" 32 1 false; mkTok 42 "rootA" 32 9 false; mkTok 43 (string_of_bytes [96; 10; 96]%N) 32 14 false; mkTok 40 "," 33 2 false; mkTok 3 "}" 33 3 false; mkTok 37 "MetaData" 33 5 false; mkTok 42 "int" 33 14 false; mkTok 2 "{" 33 19 false; mkTok 12 "char[" 33 21 false; mkTok 30 "3" 34 0 false; mkTok 13 "]" 35 0 false; mkTok 42 "Logon" 35 1 false; mkTok 43 "`doc`" 35 7 false; mkTok 40 "," 35 12 false; mkTok 27 "int64" 35 14 false; mkTok 42 "o" 36 4 false; mkTok 43 (string_of_bytes [96; 195; 169; 96]%N) 36 6 false; mkTok 40 "," 37 0 false; mkTok 14 "zchar[" 37 2 false; mkTok 30 "42" 38 4 false; mkTok 13 "]" 38 7 false; mkTok 42 "Pad" 38 10 false; mkTok 43 "`// not a comment`" 38 13 false; mkTok 40 "," 39 0 false; mkTok 14 "zchar[" 39 2 false; mkTok 30 "007" 39 8 false; mkTok 44 "//" 39 12 true; mkTok 13 "]" 40 0 false; mkTok 42 "packetx" 40 2 false; mkTok 43 "`a\`" 40 10 false; mkTok 40 "," 41 4 false; mkTok 42 "packetx" 41 6 false; mkTok 44 "// a // b" 41 14 true; mkTok 42 "a1" 42 0 false; mkTok 43 (string_of_bytes [96; 10; 96]%N) 42 2 false; mkTok 40 "," 43 2 false; mkTok 3 "}" 43 4 false; mkTok 35 "packet" 43 7 false; mkTok 44 "// c" 43 14 true; mkTok 42 "lengthOf" 44 0 false; mkTok 2 "{" 44 9 false; mkTok 44 "/// triple" 44 10 true; mkTok 38 "match" 45 0 false; mkTok 42 "stringy" 46 0 false; mkTok 17 "as" 46 8 false; mkTok 42 "int" 46 11 false; mkTok 2 "{" 46 15 false; mkTok 30 "007" 46 17 false; mkTok 39 ":" 46 21 false; mkTok 42 "stringy" 46 23 false; mkTok 3 "}" 47 4 false; mkTok 40 "," 48 4 false; mkTok 22 "uint32" 48 6 false; mkTok 42 "chars" 48 13 false; mkTok 43 "`u8 x,`" 49 0 false; mkTok 44 (string_of_bytes [47; 47; 32; 240; 159; 152; 128; 32; 101; 109; 111; 106; 105]%N) 49 8 true; mkTok 40 "," 50 0 false; mkTok 5 "@calculatedFrom(" 50 2 false; mkTok 44 "// a // b" 51 0 true; mkTok 44 (string_of_bytes [47; 47; 32; 240; 159; 152; 128; 32; 101; 109; 111; 106; 105]%N) 52 0 true; mkTok 31 """it's""" 53 0 false; mkTok 6 ")" 54 0 false; mkTok 32 "@leftPad" 54 1 false; mkTok 8 "(" 54 10 false; mkTok 33 "'0'" 54 13 false; mkTok 6 ")" 55 4 false; mkTok 38 "match" 55 6 false; mkTok 42 "roots" 55 12 false; mkTok 17 "as" 55 18 false; mkTok 44 "// c" 55 21 true; mkTok 42 "Header" 56 0 false; mkTok 2 "{" 56 7 false; mkTok 18 "[" 56 8 false; mkTok 31 """\n""" 56 10 false; mkTok 40 "," 56 15 false; mkTok 30 "7" 56 17 false; mkTok 40 "," 56 19 false; mkTok 31 """// no comment""" 57 4 false; mkTok 13 "]" 57 20 false; mkTok 39 ":" 57 22 false; mkTok 42 "msg_type" 58 0 false; mkTok 40 "," 58 9 false; mkTok 3 "}" 58 10 false; mkTok 40 "," 59 4 false; mkTok 3 "}" 60 4 false; mkTok 0 "<EOF>" 61 0 false] (mkPacket (mkPtok 35 "packet" 1 0 0) (Some (mkPtok 3 "}" 60 4 186)) [(DPacket (mkPacketDef (mkSpan (mkPtok 35 "packet" 1 0 0) (mkPtok 3 "}" 28 4 87)) None (mkPtok 35 "packet" 1 0 0) (mkPtok 42 "metadata" 1 7 1) (mkPtok 2 "{" 2 4 2) [(mkFieldWithAttr (mkSpan (mkPtok 36 "repeat" 2 6 3) (mkPtok 40 "," 3 14 7)) [] (ObjectField (mkSpan (mkPtok 36 "repeat" 2 6 3) (mkPtok 40 "," 3 14 7)) (Some (mkPtok 36 "repeat" 2 6 3)) (mkPtok 42 "MetaDataX" 3 0 5) (Some (mkPtok 42 "Z9_" 3 10 6)) None (mkPtok 40 "," 3 14 7))); (mkFieldWithAttr (mkSpan (mkPtok 36 "repeat" 4 0 8) (mkPtok 40 "," 5 18 17)) [] (InerObjectField (mkSpan (mkPtok 36 "repeat" 4 0 8) (mkPtok 40 "," 5 18 17)) (Some (mkPtok 36 "repeat" 4 0 8)) (InerObjectDecl (mkSpan (mkPtok 42 "float" 4 7 9) (mkPtok 3 "}" 5 16 16)) (mkPtok 42 "float" 4 7 9) (mkPtok 2 "{" 4 12 10) [(LengthField (mkSpan (mkPtok 42 "o" 4 14 11) (mkPtok 40 "," 5 15 15)) (mkLengthFieldDecl (mkSpan (mkPtok 42 "o" 4 14 11) (mkPtok 40 "," 5 15 15)) None (mkPtok 42 "o" 4 14 11) (mkLengthOf (mkSpan (mkPtok 7 "@lengthOf(" 5 0 12) (mkPtok 6 ")" 5 13 14)) (mkPtok 7 "@lengthOf(" 5 0 12) (mkPtok 42 "u" 5 11 13) (mkPtok 6 ")" 5 13 14)) None (mkPtok 40 "," 5 15 15)))] (mkPtok 3 "}" 5 16 16)) (mkPtok 40 "," 5 18 17))); (mkFieldWithAttr (mkSpan (mkPtok 14 "zchar[" 5 20 18) (mkPtok 40 "," 7 6 22)) [] (MetaField (mkSpan (mkPtok 14 "zchar[" 5 20 18) (mkPtok 40 "," 7 6 22)) None (mkMetaDecl (mkSpan (mkPtok 14 "zchar[" 5 20 18) (mkPtok 40 "," 7 6 22)) (TyFixed (mkSpan (mkPtok 14 "zchar[" 5 20 18) (mkPtok 13 "]" 6 2 20)) (mkFixedString (mkSpan (mkPtok 14 "zchar[" 5 20 18) (mkPtok 13 "]" 6 2 20)) (mkPtok 14 "zchar[" 5 20 18) (mkPtok 30 "00" 6 0 19) (mkPtok 13 "]" 6 2 20))) (mkPtok 42 "x_y_z" 7 0 21) None (mkPtok 40 "," 7 6 22)))); (mkFieldWithAttr (mkSpan (mkPtok 32 "@rightPad" 7 7 23) (mkPtok 40 "," 9 14 30)) [(FAPadding (mkSpan (mkPtok 32 "@rightPad" 7 7 23) (mkPtok 6 ")" 9 3 27)) (mkPaddingAttr (mkSpan (mkPtok 32 "@rightPad" 7 7 23) (mkPtok 6 ")" 9 3 27)) (mkPtok 32 "@rightPad" 7 7 23) (mkPtok 8 "(" 8 0 25) (Some (mkPtok 33 "' '" 9 0 26)) (mkPtok 6 ")" 9 3 27)))] (MetaField (mkSpan (mkPtok 16 "char[]" 9 5 28) (mkPtok 40 "," 9 14 30)) None (mkMetaDecl (mkSpan (mkPtok 16 "char[]" 9 5 28) (mkPtok 40 "," 9 14 30)) (TyDynamic (mkSpan (mkPtok 16 "char[]" 9 5 28) (mkPtok 16 "char[]" 9 5 28)) (mkDynamicString (mkSpan (mkPtok 16 "char[]" 9 5 28) (mkPtok 16 "char[]" 9 5 28)) (mkPtok 16 "char[]" 9 5 28))) (mkPtok 42 "x" 9 12 29) None (mkPtok 40 "," 9 14 30)))); (mkFieldWithAttr (mkSpan (mkPtok 5 "@calculatedFrom(" 11 4 32) (mkPtok 40 "," 15 0 44)) [(FACalculatedFrom (mkSpan (mkPtok 5 "@calculatedFrom(" 11 4 32) (mkPtok 6 ")" 11 30 34)) (mkCalculatedFrom (mkSpan (mkPtok 5 "@calculatedFrom(" 11 4 32) (mkPtok 6 ")" 11 30 34)) (mkPtok 5 "@calculatedFrom(" 11 4 32) (mkPtok 31 """`tick`""" 11 21 33) (mkPtok 6 ")" 11 30 34)))] (InerObjectField (mkSpan (mkPtok 42 "uint8x" 12 0 35) (mkPtok 40 "," 15 0 44)) None (InerObjectDecl (mkSpan (mkPtok 42 "uint8x" 12 0 35) (mkPtok 3 "}" 14 1 43)) (mkPtok 42 "uint8x" 12 0 35) (mkPtok 2 "{" 12 7 36) [(MetaField (mkSpan (mkPtok 12 "char[" 12 9 37) (mkPtok 40 "," 14 0 42)) None (mkMetaDecl (mkSpan (mkPtok 12 "char[" 12 9 37) (mkPtok 40 "," 14 0 42)) (TyFixed (mkSpan (mkPtok 12 "char[" 12 9 37) (mkPtok 13 "]" 13 7 39)) (mkFixedString (mkSpan (mkPtok 12 "char[" 12 9 37) (mkPtok 13 "]" 13 7 39)) (mkPtok 12 "char[" 12 9 37) (mkPtok 30 "255" 13 4 38) (mkPtok 13 "]" 13 7 39))) (mkPtok 42 "float" 13 9 40) None (mkPtok 40 "," 14 0 42)))] (mkPtok 3 "}" 14 1 43)) (mkPtok 40 "," 15 0 44))); (mkFieldWithAttr (mkSpan (mkPtok 36 "repeat" 16 0 45) (mkPtok 40 "," 17 19 48)) [] (ObjectField (mkSpan (mkPtok 36 "repeat" 16 0 45) (mkPtok 40 "," 17 19 48)) (Some (mkPtok 36 "repeat" 16 0 45)) (mkPtok 42 "T" 16 7 46) (Some (mkPtok 42 "calculatedFrom" 17 4 47)) None (mkPtok 40 "," 17 19 48))); (mkFieldWithAttr (mkSpan (mkPtok 36 "repeat" 17 21 49) (mkPtok 40 "," 18 12 52)) [] (MetaField (mkSpan (mkPtok 36 "repeat" 17 21 49) (mkPtok 40 "," 18 12 52)) (Some (mkPtok 36 "repeat" 17 21 49)) (mkMetaDecl (mkSpan (mkPtok 24 "int8" 18 0 50) (mkPtok 40 "," 18 12 52)) (TyBasic (mkSpan (mkPtok 24 "int8" 18 0 50) (mkPtok 24 "int8" 18 0 50)) (mkBasicType (mkSpan (mkPtok 24 "int8" 18 0 50) (mkPtok 24 "int8" 18 0 50)) (mkPtok 24 "int8" 18 0 50))) (mkPtok 42 "Header" 18 5 51) None (mkPtok 40 "," 18 12 52)))); (mkFieldWithAttr (mkSpan (mkPtok 9 "@tag(" 19 0 54) (mkPtok 40 "," 27 0 82)) [(FATag (mkSpan (mkPtok 9 "@tag(" 19 0 54) (mkPtok 6 ")" 20 10 56)) (mkTagAttr (mkSpan (mkPtok 9 "@tag(" 19 0 54) (mkPtok 6 ")" 20 10 56)) (mkPtok 9 "@tag(" 19 0 54) (mkPtok 30 "4294967296" 20 0 55) (mkPtok 6 ")" 20 10 56)))] (MatchField (mkSpan (mkPtok 38 "match" 20 12 57) (mkPtok 40 "," 27 0 82)) (mkMatchFieldDecl (mkSpan (mkPtok 38 "match" 20 12 57) (mkPtok 3 "}" 26 0 80)) (mkPtok 38 "match" 20 12 57) (mkPtok 42 "crc" 20 18 58) (mkPtok 17 "as" 20 22 59) (mkPtok 42 "Foo" 21 4 60) (mkPtok 2 "{" 21 8 61) [(mkMatchPair (mkSpan (mkPtok 31 """CRC32""" 21 10 62) (mkPtok 40 "," 22 0 65)) (MKString (mkPtok 31 """CRC32""" 21 10 62)) (mkPtok 39 ":" 21 18 63) (mkPtok 42 "Packet" 21 20 64) (Some (mkPtok 40 "," 22 0 65))); (mkMatchPair (mkSpan (mkPtok 18 "[" 22 1 66) (mkPtok 40 "," 23 25 75)) (MKList (mkKeyList (mkSpan (mkPtok 18 "[" 22 1 66) (mkPtok 13 "]" 23 16 72)) (mkPtok 18 "[" 22 1 66) (mkPtok 30 "0" 22 4 67) [((mkPtok 40 "," 23 4 68), (mkPtok 31 """a\""b""" 23 6 69)); ((mkPtok 40 "," 23 13 70), (mkPtok 30 "1" 23 14 71))] (mkPtok 13 "]" 23 16 72))) (mkPtok 39 ":" 23 18 73) (mkPtok 42 "pack" 23 20 74) (Some (mkPtok 40 "," 23 25 75))); (mkMatchPair (mkSpan (mkPtok 30 "0" 23 27 76) (mkPtok 42 "As" 25 4 78)) (MKDigits (mkPtok 30 "0" 23 27 76)) (mkPtok 39 ":" 24 0 77) (mkPtok 42 "As" 25 4 78) None)] (mkPtok 3 "}" 26 0 80)) (mkPtok 40 "," 27 0 82))); (mkFieldWithAttr (mkSpan (mkPtok 36 "repeat" 27 1 83) (mkPtok 40 "," 27 23 86)) [] (ObjectField (mkSpan (mkPtok 36 "repeat" 27 1 83) (mkPtok 40 "," 27 23 86)) (Some (mkPtok 36 "repeat" 27 1 83)) (mkPtok 42 "zchar" 27 8 84) (Some (mkPtok 42 "msg_type" 27 14 85)) None (mkPtok 40 "," 27 23 86)))] (mkPtok 3 "}" 28 4 87))); (DOption (mkOptionDef (mkSpan (mkPtok 1 "options" 28 6 88) (mkPtok 3 "}" 29 11 94)) (mkPtok 1 "options" 28 6 88) (mkPtok 2 "{" 28 14 89) [(mkOptionDecl (mkSpan (mkPtok 42 "i8i8" 28 15 90) (mkPtok 41 ";" 29 8 93)) (mkPtok 42 "i8i8" 28 15 90) (mkPtok 4 "=" 29 0 91) (VDigits (mkSpan (mkPtok 30 "65535" 29 2 92) (mkPtok 30 "65535" 29 2 92)) (mkPtok 30 "65535" 29 2 92)) (Some (mkPtok 41 ";" 29 8 93)))] (mkPtok 3 "}" 29 11 94))); (DMeta (mkMetaDef (mkSpan (mkPtok 37 "MetaData" 30 4 95) (mkPtok 3 "}" 33 3 106)) (mkPtok 37 "MetaData" 30 4 95) (mkPtok 42 "charz" 30 14 96) (mkPtok 2 "{" 30 20 97) [(MIRef (mkRefMetaDecl (mkSpan (mkPtok 42 "leftPad" 30 22 98) (mkPtok 40 "," 32 0 101)) (mkPtok 42 "leftPad" 30 22 98) (mkPtok 42 "float" 30 30 99) (Some (mkPtok 43 (string_of_bytes [96; 10; 96]%N) 30 35 100)) (mkPtok 40 "," 32 0 101))); (MIDecl (mkMetaDecl (mkSpan (mkPtok 29 "float64" 32 1 102) (mkPtok 40 "," 33 2 105)) (TyBasic (mkSpan (mkPtok 29 "float64" 32 1 102) (mkPtok 29 "float64" 32 1 102)) (mkBasicType (mkSpan (mkPtok 29 "float64" 32 1 102) (mkPtok 29 "float64" 32 1 102)) (mkPtok 29 "float64" 32 1 102))) (mkPtok 42 "rootA" 32 9 103) (Some (mkPtok 43 (string_of_bytes [96; 10; 96]%N) 32 14 104)) (mkPtok 40 "," 33 2 105)))] (mkPtok 3 "}" 33 3 106))); (DMeta (mkMetaDef (mkSpan (mkPtok 37 "MetaData" 33 5 107) (mkPtok 3 "}" 43 4 138)) (mkPtok 37 "MetaData" 33 5 107) (mkPtok 42 "int" 33 14 108) (mkPtok 2 "{" 33 19 109) [(MIDecl (mkMetaDecl (mkSpan (mkPtok 12 "char[" 33 21 110) (mkPtok 40 "," 35 12 115)) (TyFixed (mkSpan (mkPtok 12 "char[" 33 21 110) (mkPtok 13 "]" 35 0 112)) (mkFixedString (mkSpan (mkPtok 12 "char[" 33 21 110) (mkPtok 13 "]" 35 0 112)) (mkPtok 12 "char[" 33 21 110) (mkPtok 30 "3" 34 0 111) (mkPtok 13 "]" 35 0 112))) (mkPtok 42 "Logon" 35 1 113) (Some (mkPtok 43 "`doc`" 35 7 114)) (mkPtok 40 "," 35 12 115))); (MIDecl (mkMetaDecl (mkSpan (mkPtok 27 "int64" 35 14 116) (mkPtok 40 "," 37 0 119)) (TyBasic (mkSpan (mkPtok 27 "int64" 35 14 116) (mkPtok 27 "int64" 35 14 116)) (mkBasicType (mkSpan (mkPtok 27 "int64" 35 14 116) (mkPtok 27 "int64" 35 14 116)) (mkPtok 27 "int64" 35 14 116))) (mkPtok 42 "o" 36 4 117) (Some (mkPtok 43 (string_of_bytes [96; 195; 169; 96]%N) 36 6 118)) (mkPtok 40 "," 37 0 119))); (MIDecl (mkMetaDecl (mkSpan (mkPtok 14 "zchar[" 37 2 120) (mkPtok 40 "," 39 0 125)) (TyFixed (mkSpan (mkPtok 14 "zchar[" 37 2 120) (mkPtok 13 "]" 38 7 122)) (mkFixedString (mkSpan (mkPtok 14 "zchar[" 37 2 120) (mkPtok 13 "]" 38 7 122)) (mkPtok 14 "zchar[" 37 2 120) (mkPtok 30 "42" 38 4 121) (mkPtok 13 "]" 38 7 122))) (mkPtok 42 "Pad" 38 10 123) (Some (mkPtok 43 "`// not a comment`" 38 13 124)) (mkPtok 40 "," 39 0 125))); (MIDecl (mkMetaDecl (mkSpan (mkPtok 14 "zchar[" 39 2 126) (mkPtok 40 "," 41 4 132)) (TyFixed (mkSpan (mkPtok 14 "zchar[" 39 2 126) (mkPtok 13 "]" 40 0 129)) (mkFixedString (mkSpan (mkPtok 14 "zchar[" 39 2 126) (mkPtok 13 "]" 40 0 129)) (mkPtok 14 "zchar[" 39 2 126) (mkPtok 30 "007" 39 8 127) (mkPtok 13 "]" 40 0 129))) (mkPtok 42 "packetx" 40 2 130) (Some (mkPtok 43 "`a\`" 40 10 131)) (mkPtok 40 "," 41 4 132))); (MIRef (mkRefMetaDecl (mkSpan (mkPtok 42 "packetx" 41 6 133) (mkPtok 40 "," 43 2 137)) (mkPtok 42 "packetx" 41 6 133) (mkPtok 42 "a1" 42 0 135) (Some (mkPtok 43 (string_of_bytes [96; 10; 96]%N) 42 2 136)) (mkPtok 40 "," 43 2 137)))] (mkPtok 3 "}" 43 4 138))); (DPacket (mkPacketDef (mkSpan (mkPtok 35 "packet" 43 7 139) (mkPtok 3 "}" 60 4 186)) None (mkPtok 35 "packet" 43 7 139) (mkPtok 42 "lengthOf" 44 0 141) (mkPtok 2 "{" 44 9 142) [(mkFieldWithAttr (mkSpan (mkPtok 38 "match" 45 0 144) (mkPtok 40 "," 48 4 153)) [] (MatchField (mkSpan (mkPtok 38 "match" 45 0 144) (mkPtok 40 "," 48 4 153)) (mkMatchFieldDecl (mkSpan (mkPtok 38 "match" 45 0 144) (mkPtok 3 "}" 47 4 152)) (mkPtok 38 "match" 45 0 144) (mkPtok 42 "stringy" 46 0 145) (mkPtok 17 "as" 46 8 146) (mkPtok 42 "int" 46 11 147) (mkPtok 2 "{" 46 15 148) [(mkMatchPair (mkSpan (mkPtok 30 "007" 46 17 149) (mkPtok 42 "stringy" 46 23 151)) (MKDigits (mkPtok 30 "007" 46 17 149)) (mkPtok 39 ":" 46 21 150) (mkPtok 42 "stringy" 46 23 151) None)] (mkPtok 3 "}" 47 4 152)) (mkPtok 40 "," 48 4 153))); (mkFieldWithAttr (mkSpan (mkPtok 22 "uint32" 48 6 154) (mkPtok 40 "," 50 0 158)) [] (MetaField (mkSpan (mkPtok 22 "uint32" 48 6 154) (mkPtok 40 "," 50 0 158)) None (mkMetaDecl (mkSpan (mkPtok 22 "uint32" 48 6 154) (mkPtok 40 "," 50 0 158)) (TyBasic (mkSpan (mkPtok 22 "uint32" 48 6 154) (mkPtok 22 "uint32" 48 6 154)) (mkBasicType (mkSpan (mkPtok 22 "uint32" 48 6 154) (mkPtok 22 "uint32" 48 6 154)) (mkPtok 22 "uint32" 48 6 154))) (mkPtok 42 "chars" 48 13 155) (Some (mkPtok 43 "`u8 x,`" 49 0 156)) (mkPtok 40 "," 50 0 158)))); (mkFieldWithAttr (mkSpan (mkPtok 5 "@calculatedFrom(" 50 2 159) (mkPtok 40 "," 59 4 185)) [(FACalculatedFrom (mkSpan (mkPtok 5 "@calculatedFrom(" 50 2 159) (mkPtok 6 ")" 54 0 163)) (mkCalculatedFrom (mkSpan (mkPtok 5 "@calculatedFrom(" 50 2 159) (mkPtok 6 ")" 54 0 163)) (mkPtok 5 "@calculatedFrom(" 50 2 159) (mkPtok 31 """it's""" 53 0 162) (mkPtok 6 ")" 54 0 163))); (FAPadding (mkSpan (mkPtok 32 "@leftPad" 54 1 164) (mkPtok 6 ")" 55 4 167)) (mkPaddingAttr (mkSpan (mkPtok 32 "@leftPad" 54 1 164) (mkPtok 6 ")" 55 4 167)) (mkPtok 32 "@leftPad" 54 1 164) (mkPtok 8 "(" 54 10 165) (Some (mkPtok 33 "'0'" 54 13 166)) (mkPtok 6 ")" 55 4 167)))] (MatchField (mkSpan (mkPtok 38 "match" 55 6 168) (mkPtok 40 "," 59 4 185)) (mkMatchFieldDecl (mkSpan (mkPtok 38 "match" 55 6 168) (mkPtok 3 "}" 58 10 184)) (mkPtok 38 "match" 55 6 168) (mkPtok 42 "roots" 55 12 169) (mkPtok 17 "as" 55 18 170) (mkPtok 42 "Header" 56 0 172) (mkPtok 2 "{" 56 7 173) [(mkMatchPair (mkSpan (mkPtok 18 "[" 56 8 174) (mkPtok 40 "," 58 9 183)) (MKList (mkKeyList (mkSpan (mkPtok 18 "[" 56 8 174) (mkPtok 13 "]" 57 20 180)) (mkPtok 18 "[" 56 8 174) (mkPtok 31 """\n""" 56 10 175) [((mkPtok 40 "," 56 15 176), (mkPtok 30 "7" 56 17 177)); ((mkPtok 40 "," 56 19 178), (mkPtok 31 """// no comment""" 57 4 179))] (mkPtok 13 "]" 57 20 180))) (mkPtok 39 ":" 57 22 181) (mkPtok 42 "msg_type" 58 0 182) (Some (mkPtok 40 "," 58 9 183)))] (mkPtok 3 "}" 58 10 184)) (mkPtok 40 "," 59 4 185)))] (mkPtok 3 "}" 60 4 186)))])).
Eval vm_compute in ("<<<M1557>>>" ++ check (runes_of_ascii "packet
u { repeat options1 , }
")).
Eval vm_compute in ("<<<M1589>>>" ++ check (runes_of_ascii "packet Foo { @rightPad ( '\x00' )
int16 x
,} // c")).
Eval vm_compute in ("<<<M1621>>>" ++ check (runes_of_ascii "
")).
Eval vm_compute in ("<<<M1653>>>" ++ check (runes_of_ascii "options{
    } 	 ")).
Eval vm_compute in ("<<<M1685>>>" ++ check (runes_of_ascii "options{ stringy = u32 ; T = i64 MetaDataX = """ ++ [28040; 24687]%N ++ runes_of_ascii """ } /// triple")).
Eval vm_compute in ("<<<M1717>>>" ++ check (runes_of_ascii "root packet
    body{
    repeat// " ++ [128512]%N ++ runes_of_ascii " emoji
u128 Pad , @lengthOf(
f32a )
@tag( 10 ) repeat	u8 Header
, //
T // " ++ [27880; 37322]%N ++ runes_of_ascii "
@lengthOf( Foo
)	,	zchar[  0123456789]
    crc
// c
//
@calculatedFrom(
""it's"" ) ,char[ 4294967296	] lengthOf // a // b
@calculatedFrom(""a\\""
)`line1
line2` ,// " ++ [128512]%N ++ runes_of_ascii " emoji
uint8 stringy `// not a comment`,	char[ 0123456789 ] float // packet A { u8 x, }
, @lengthOf(	crc
)
repeat f32 a1 ,@calculatedFrom( ""\n""	)  @calculatedFrom( ""it's""
    //	t
    ) // packet A { u8 x, }
@rightPad
( ) int8 MetaDataX @lengthOf(
    stringy) `` , u128 @lengthOf( u8x) , } options {
    a1
= false
chars =	""CRC32""
    ;string_ = f64
pack =0123456789
    ;
}
")).
Eval vm_compute in ("<<<M1749>>>" ++ check (runes_of_ascii "options {tag
    //x
    = ""a	b""
; f32a
    =
' '
_x
= // c
char[4294967296 ]	;} /// triple
options  { }")).
Eval vm_compute in ("<<<T1749>>>" ++ terms [mkTok 1 "options" 1 0 false; mkTok 2 "{" 1 8 false; mkTok 42 "tag" 1 9 false; mkTok 44 "//x" 2 4 true; mkTok 4 "=" 3 4 false; mkTok 31 (string_of_bytes [34; 97; 9; 98; 34]%N) 3 6 false; mkTok 41 ";" 4 0 false; mkTok 42 "f32a" 4 2 false; mkTok 4 "=" 5 4 false; mkTok 33 "' '" 6 0 false; mkTok 42 "_x" 7 0 false; mkTok 4 "=" 8 0 false; mkTok 44 "// c" 8 2 true; mkTok 12 "char[" 9 0 false; mkTok 30 "4294967296" 9 5 false; mkTok 13 "]" 9 16 false; mkTok 41 ";" 9 18 false; mkTok 3 "}" 9 19 false; mkTok 44 "/// triple" 9 21 true; mkTok 1 "options" 10 0 false; mkTok 2 "{" 10 9 false; mkTok 3 "}" 10 11 false; mkTok 0 "<EOF>" 10 12 false] (mkPacket (mkPtok 1 "options" 1 0 0) (Some (mkPtok 3 "}" 10 11 21)) [(DOption (mkOptionDef (mkSpan (mkPtok 1 "options" 1 0 0) (mkPtok 3 "}" 9 19 17)) (mkPtok 1 "options" 1 0 0) (mkPtok 2 "{" 1 8 1) [(mkOptionDecl (mkSpan (mkPtok 42 "tag" 1 9 2) (mkPtok 41 ";" 4 0 6)) (mkPtok 42 "tag" 1 9 2) (mkPtok 4 "=" 3 4 4) (VString (mkSpan (mkPtok 31 (string_of_bytes [34; 97; 9; 98; 34]%N) 3 6 5) (mkPtok 31 (string_of_bytes [34; 97; 9; 98; 34]%N) 3 6 5)) (mkPtok 31 (string_of_bytes [34; 97; 9; 98; 34]%N) 3 6 5)) (Some (mkPtok 41 ";" 4 0 6))); (mkOptionDecl (mkSpan (mkPtok 42 "f32a" 4 2 7) (mkPtok 33 "' '" 6 0 9)) (mkPtok 42 "f32a" 4 2 7) (mkPtok 4 "=" 5 4 8) (VPaddingChar (mkSpan (mkPtok 33 "' '" 6 0 9) (mkPtok 33 "' '" 6 0 9)) (mkPtok 33 "' '" 6 0 9)) None); (mkOptionDecl (mkSpan (mkPtok 42 "_x" 7 0 10) (mkPtok 41 ";" 9 18 16)) (mkPtok 42 "_x" 7 0 10) (mkPtok 4 "=" 8 0 11) (VType (mkSpan (mkPtok 12 "char[" 9 0 13) (mkPtok 13 "]" 9 16 15)) (TyFixed (mkSpan (mkPtok 12 "char[" 9 0 13) (mkPtok 13 "]" 9 16 15)) (mkFixedString (mkSpan (mkPtok 12 "char[" 9 0 13) (mkPtok 13 "]" 9 16 15)) (mkPtok 12 "char[" 9 0 13) (mkPtok 30 "4294967296" 9 5 14) (mkPtok 13 "]" 9 16 15)))) (Some (mkPtok 41 ";" 9 18 16)))] (mkPtok 3 "}" 9 19 17))); (DOption (mkOptionDef (mkSpan (mkPtok 1 "options" 10 0 19) (mkPtok 3 "}" 10 11 21)) (mkPtok 1 "options" 10 0 19) (mkPtok 2 "{" 10 9 20) [] (mkPtok 3 "}" 10 11 21)))])).
Eval vm_compute in ("<<<M1781>>>" ++ check (runes_of_ascii "// `tick` ""quote"" 'q'
packet i64_{ }

")).
Eval vm_compute in ("<<<M1813>>>" ++ check (runes_of_ascii "
root packet
    zchar {float options1 ,
    /// triple
    }packet Packet
{
repeat zchar ,} MetaData
    // " ++ [27880; 37322]%N ++ runes_of_ascii "
    zchar{
}MetaData u
    { len rootA, //x
}
")).
Eval vm_compute in ("<<<M1845>>>" ++ check (runes_of_ascii "packet T
    { @calculatedFrom( ""// no comment""	) // " ++ [128512]%N ++ runes_of_ascii " emoji
repeat uint32
    roots,uint16 float `a\`
, }
")).
Eval vm_compute in ("<<<M1877>>>" ++ check (runes_of_ascii "
packet
MetaDataX {u128 @calculatedFrom(
    """ ++ [28040; 24687]%N ++ runes_of_ascii """ ) ,
uint16 u , match asx as
_x//x
{ ""{,}""// a // b
:Header
    // " ++ [27880; 37322]%N ++ runes_of_ascii "
    , }
,
msg_type BodyLength `it's` , }
    options {
    } options { zchar	=""\" ++ [233]%N ++ runes_of_ascii """
charz =zchar[	3
]
    }")).
Eval vm_compute in ("<<<M1909>>>" ++ check (runes_of_ascii "options
    { Foo =
    '0' ; } packet zchar{ int16
string_ ,@rightPad
( '\x00'
) int options1 `a\` ,@calculatedFrom(
    ""// no comment"" ) @lengthOf( Pad
)	repeat char[7 ]
i8i8 `
` ,
@tag( 7)match trueish as chars
    { ""\" ++ [233]%N ++ runes_of_ascii """// " ++ [27880; 37322]%N ++ runes_of_ascii "
:
string_  , 7	:f32a , [ ""\n"" ] :asx , [ 007 ]  : repeatCount }
    // packet A { u8 x, }
    , repeat
body
T , } root packet Z9_{
calculatedFrom @lengthOf(Pad ) `a\` , @lengthOf(
    // `tick` ""quote"" 'q'
    falsey )
    string
    len @calculatedFrom( // trailing space 
""a\\""  )
`tab	here` ,
@rightPad
( )//
Foo string_
    `doc` ,}
    packet u8x {
    float32
_x
    //
    @calculatedFrom(
""1""	)
// c
//x
, }
    packet asx{ i16
// " ++ [27880; 37322]%N ++ runes_of_ascii "
//x
Header ,match x as BodyLength {  [007
, 65535, ""`tick`""	, ""abc"" , 42 , """ ++ [28040; 24687]%N ++ runes_of_ascii """, ""{,}"" , 42
] : x_y_z ,  0123456789 :MetaDataX 1
    :
len } ,string x,  float ,  }
")).
Eval vm_compute in ("<<<M1941>>>" ++ check (runes_of_ascii "root// `tick` ""quote"" 'q'
packet int{ u8 i8i8
, // " ++ [128512]%N ++ runes_of_ascii " emoji
}packet float {
    @calculatedFrom(	""" ++ [233]%N ++ runes_of_ascii "t" ++ [233]%N ++ runes_of_ascii """ ) @rightPad ( '\x00') @calculatedFrom( ""x y"" //x
)string chars ,
    char[
0 ] u @lengthOf(i8i8 ) `it's`,
    repeat char[	4294967296
// " ++ [27880; 37322]%N ++ runes_of_ascii "
// " ++ [128512]%N ++ runes_of_ascii " emoji
]  stringy `doc`
, }
// " ++ [128512]%N ++ runes_of_ascii " emoji
// `tick` ""quote"" 'q'
MetaData
    // trailing space 
    u8x { //	t
char[]asx `{ , }` //	t
,
}
")).
Eval vm_compute in ("<<<M1973>>>" ++ check (runes_of_ascii "
packet
//
// a // b
asx
{ @rightPad
(
'\x00' )repeat
//
// `tick` ""quote"" 'q'
falsey ,
    }
// `tick` ""quote"" 'q'
")).
Eval vm_compute in ("<<<T1973>>>" ++ terms [mkTok 35 "packet" 2 0 false; mkTok 44 "//" 3 0 true; mkTok 44 "// a // b" 4 0 true; mkTok 42 "asx" 5 0 false; mkTok 2 "{" 6 0 false; mkTok 32 "@rightPad" 6 2 false; mkTok 8 "(" 7 0 false; mkTok 33 "'\x00'" 8 0 false; mkTok 6 ")" 8 7 false; mkTok 36 "repeat" 8 8 false; mkTok 44 "//" 9 0 true; mkTok 44 "// `tick` ""quote"" 'q'" 10 0 true; mkTok 42 "falsey" 11 0 false; mkTok 40 "," 11 7 false; mkTok 3 "}" 12 4 false; mkTok 44 "// `tick` ""quote"" 'q'" 13 0 true; mkTok 0 "<EOF>" 14 0 false] (mkPacket (mkPtok 35 "packet" 2 0 0) (Some (mkPtok 3 "}" 12 4 14)) [(DPacket (mkPacketDef (mkSpan (mkPtok 35 "packet" 2 0 0) (mkPtok 3 "}" 12 4 14)) None (mkPtok 35 "packet" 2 0 0) (mkPtok 42 "asx" 5 0 3) (mkPtok 2 "{" 6 0 4) [(mkFieldWithAttr (mkSpan (mkPtok 32 "@rightPad" 6 2 5) (mkPtok 40 "," 11 7 13)) [(FAPadding (mkSpan (mkPtok 32 "@rightPad" 6 2 5) (mkPtok 6 ")" 8 7 8)) (mkPaddingAttr (mkSpan (mkPtok 32 "@rightPad" 6 2 5) (mkPtok 6 ")" 8 7 8)) (mkPtok 32 "@rightPad" 6 2 5) (mkPtok 8 "(" 7 0 6) (Some (mkPtok 33 "'\x00'" 8 0 7)) (mkPtok 6 ")" 8 7 8)))] (ObjectField (mkSpan (mkPtok 36 "repeat" 8 8 9) (mkPtok 40 "," 11 7 13)) (Some (mkPtok 36 "repeat" 8 8 9)) (mkPtok 42 "falsey" 11 0 12) None None (mkPtok 40 "," 11 7 13)))] (mkPtok 3 "}" 12 4 14)))])).
Eval vm_compute in ("<<<M2005>>>" ++ check (runes_of_ascii "options {
	StringPrefixLenType = u16;
	ArrayPrefixLenType = u16;
}

packet SampleBinary {
	uint16 MsgType `" ++ [28040; 24687; 31867; 22411]%N ++ runes_of_ascii "`,
	u16 BodyLenght @lengthOf(Body) `" ++ [28040; 24687; 20307; 38271; 24230]%N ++ runes_of_ascii "`,
	match MsgType as Body {
		1 : Logon,
		2 : Logout,
		3 : Heartbeat,
		4 : RiskControlRequest,
		5 : RiskControlResponse,
	},
	@calculatedFrom(""CRC32"")
	u32 Ckecksum `" ++ [26657; 39564; 21644]%N ++ runes_of_ascii "`,
}

packet Logon {
	@leftPad('0')
	char[10] UserName `" ++ [29992; 25143; 21517]%N ++ runes_of_ascii "`,
	string Password `" ++ [23494; 30721]%N ++ runes_of_ascii "`,
	uint64 ClientId `" ++ [23458; 25143; 31471]%N ++ runes_of_ascii "ID`,
	u16 HeartbeatInterval `" ++ [24515; 36339; 38388; 38548]%N ++ runes_of_ascii "`,
}

packet Logout {
	@rightPad('0')
	char[10] UserName `" ++ [29992; 25143; 21517]%N ++ runes_of_ascii "`,
	uint64 ClientId `" ++ [23458; 25143; 31471]%N ++ runes_of_ascii "ID`,
}

packet Heartbeat {
}

packet RiskControlRequest {
	string UniqueOrderId `" ++ [21807; 19968; 35746; 21333; 21495]%N ++ runes_of_ascii "`,
	char[16] ClOrdID `" ++ [23458; 25143; 35746; 21333; 21495]%N ++ runes_of_ascii "`,
	char[3] MarketID `" ++ [24066; 22330]%N ++ runes_of_ascii "id`,
	char[12] SecurityID `" ++ [35777; 21048; 20195; 30721]%N ++ runes_of_ascii "`,
	char Side `" ++ [20080; 21334; 26041; 21521]%N ++ runes_of_ascii "`,
	char OrderType `" ++ [35746; 21333; 31867; 22411]%N ++ runes_of_ascii "`,
	u64 Price `" ++ [20215; 26684]%N ++ runes_of_ascii "`,
	u32 Qty `" ++ [25968; 37327]%N ++ runes_of_ascii "`,
	repeat string ExtraInfo `" ++ [38468; 21152; 20449; 24687]%N ++ runes_of_ascii "`,
	repeat SubOrder {
		char[16] ClOrdID `" ++ [23376; 35746; 21333; 21495]%N ++ runes_of_ascii "`,
		u64 Price `" ++ [23376; 35746; 21333; 20215; 26684]%N ++ runes_of_ascii "`,
		u32 Qty `" ++ [23376; 35746; 21333; 25968; 37327]%N ++ runes_of_ascii "`,
	},
}

packet RiskControlResponse {
	string UniqueOrderId `" ++ [21807; 19968; 35746; 21333; 21495]%N ++ runes_of_ascii "`,
	i32 Status `" ++ [29366; 24577]%N ++ runes_of_ascii "`,
	string Msg `" ++ [32467; 26524; 20449; 24687]%N ++ runes_of_ascii "`,
	repeat Detail,
}

packet Detail {
	string RuleName `" ++ [35268; 21017; 21517; 31216]%N ++ runes_of_ascii "`,
	u16 Code `" ++ [21407; 22240; 20195; 30721]%N ++ runes_of_ascii "`,
}")).
Eval vm_compute in ("<<<M2037>>>" ++ check (runes_of_ascii "options{ i64_ = string 7 trueish =
    '\x00'
    leftPad = ""a\\"" /// triple
; crc
    = 255; uint8x
=
""abc""
    ;}")).
Eval vm_compute in ("<<<M2069>>>" ++ check (runes_of_ascii "options{ i64_ = string ; trueish =
    '\x00'
    leftPad = ""a\\"" /// triple
 crc
    = 255; uint8x
=
""abc""
    ;}")).
Eval vm_compute in ("<<<M2101>>>" ++ check (runes_of_ascii "options{ i64_ = string ; trueish =
    '\x00'
    leftPad = ""a\\"" /// triple
; crc
    = 255; uint8x
""abc""
=
    ;}")).
Eval vm_compute in ("<<<M2133>>>" ++ check (runes_of_ascii "options{ i64_ = string ; trueish =
    '\x00'
    leftPad = ""a\\"" /// triple
@lengthOf; crc
    = 255; uint8x
=
""abc""
    ;}")).
Eval vm_compute in ("<<<M2165>>>" ++ check (runes_of_ascii "  packet
asx
{
/// triple
// @lengthOf(
u32 stringy
 ,} MetaData
    A {string  _x, zchar Header `a\`
// @lengthOf(
// packet A { u8 x, }
, char[] MetaDataX
,zchar[ 1 ]
    matchKey
    , char[] //
u,	char[0123456789 ]
    matchKey
    `{ , }`, }
")).
Eval vm_compute in ("<<<M2197>>>" ++ check (runes_of_ascii "  packet
asx
{
/// triple
// @lengthOf(
u32 stringy
`" ++ [28040; 24687; 31867; 22411]%N ++ runes_of_ascii "` ,} MetaData
    A {_x  string, zchar Header `a\`
// @lengthOf(
// packet A { u8 x, }
, char[] MetaDataX
,zchar[ 1 ]
    matchKey
    , char[] //
u,	char[0123456789 ]
    matchKey
    `{ , }`, }
")).
Eval vm_compute in ("<<<M2229>>>" ++ check (runes_of_ascii "  packet
asx
{
/// triple
// @lengthOf(
u32 stringy
`" ++ [28040; 24687; 31867; 22411]%N ++ runes_of_ascii "` ,} MetaData
    A {string  _x, zchar Header `a\`")).
Eval vm_compute in ("<<<M2261>>>" ++ check (runes_of_ascii "  packet
asx
{
/// triple
// @lengthOf(
u32 stringy
`" ++ [28040; 24687; 31867; 22411]%N ++ runes_of_ascii "` ,} MetaData
    A {string  _x, zchar Header `a\`
// @lengthOf(
// packet A { u8 x, }
, char[] MetaDataX
,zchar[ 1 ]
    matchKey matchKey
    , char[] //
u,	char[0123456789 ]
    matchKey
    `{ , }`, }
")).
Eval vm_compute in ("<<<M2293>>>" ++ check (runes_of_ascii "  packet
asx
{
/// triple
// @lengthOf(
u32 stringy
`" ++ [28040; 24687; 31867; 22411]%N ++ runes_of_ascii "` ,} MetaData
    A {string  _x, zchar Header `a\`
// @lengthOf(
// packet A { u8 x, }
, char[] MetaDataX
,zchar[ 1 ]
    matchKey
    , char[] //
u,	char[As ]
    matchKey
    `{ , }`, }
")).
Eval vm_compute in ("<<<M2325>>>" ++ check (runes_of_ascii "  packet
asx
{
/// triple
// @lengthOf(
u32 stringy
`" ++ [28040; 24687; 31867; 22411]%N ++ runes_of_ascii "` ,} MetaData
    A {string  _x, zchar He\ader `a\`
// @lengthOf(
// packet A { u8 x, }
, char[] MetaDataX
,zchar[ 1 ]
    matchKey
    , char[] //
u,	char[0123456789 ]
    matchKey
    `{ , }`, }
")).
Eval vm_compute in ("<<<M2357>>>" ++ check (runes_of_ascii "root
    packet
Packet
{ { // trailing space 
matchKey `tab	here` ,}")).
Eval vm_compute in ("<<<M2389>>>" ++ check (runes_of_ascii "root
    packet
Packet
{ // trailing space 
matchKey `tab	here` ,'\x01' }")).
Eval vm_compute in ("<<<M2421>>>" ++ check (runes_of_ascii "options{ falsey")).
Eval vm_compute in ("<<<M2453>>>" ++ check (runes_of_ascii "options{ falsey // a // b
=
    '0' } options { repeatCount =
true true ; string_// a // b
=
// c
// " ++ [27880; 37322]%N ++ runes_of_ascii "
int64
// trailing space 
/// triple
; } // @lengthOf(")).
Eval vm_compute in ("<<<M2485>>>" ++ check (runes_of_ascii "options{ falsey // a // b
=
    '0' } options { repeatCount =
true ; string_// a // b
=
// c
// " ++ [27880; 37322]%N ++ runes_of_ascii "
int64
// trailing space 
/// triple
;")).
Eval vm_compute in ("<<<M2517>>>" ++ check (runes_of_ascii "options")).
Eval vm_compute in ("<<<M2549>>>" ++ check (runes_of_ascii "options{}root packet
metadata {
@lengthOf(x x ) float32
body ``, }
    MetaData
Z9_
    {
    string string_ , Logon x
,
uint32
    // packet A { u8 x, }
    Z9_,asx
_x
    `tab	here` , }
")).
Eval vm_compute in ("<<<M2581>>>" ++ check (runes_of_ascii "options{}root packet
metadata {
@lengthOf(x ) float32
body ``, (
    MetaData
Z9_
    {
    string string_ , Logon x
,
uint32
    // packet A { u8 x, }
    Z9_,asx
_x
    `tab	here` , }
")).
Eval vm_compute in ("<<<M2613>>>" ++ check (runes_of_ascii "options{}root packet
metadata {
@lengthOf(x ) float32
body ``, }
    MetaData
Z9_
    {
    string string_ ,  x
,
uint32
    // packet A { u8 x, }
    Z9_,asx
_x
    `tab	here` , }
")).
Eval vm_compute in ("<<<M2645>>>" ++ check (runes_of_ascii "options{}root packet
metadata {
@lengthOf(x ) float32
body ``, }
    MetaData
Z9_
    {
    string string_ , Logon x
,
uint32
    // packet A { u8 x, }
    Z9_,_x
asx
    `tab	here` , }
")).
Eval vm_compute in ("<<<M2677>>>" ++ check (runes_of_ascii "options{}root packet
metadata {
@lengthOf(x ) float32
body ``, }
    MetaData
Z9_
    {
    string stri%ng_ , Logon x
,
uint32
    // packet A { u8 x, }
    Z9_,asx
_x
    `tab	here` , }
")).
Eval vm_compute in ("<<<M2709>>>" ++ check (runes_of_ascii "options {
    falsey=
 ; }")).
Eval vm_compute in ("<<<M2741>>>" ++ check (runes_of_ascii "options {
    fals\ey=
""a\\"" ; }")).
Eval vm_compute in ("<<<M2773>>>" ++ check (runes_of_ascii "MetaData f32a
{
    //	t
    }root
    i8 tag  {
}
")).
Eval vm_compute in ("<<<M2805>>>" ++ check (runes_of_ascii "Me@lengthOftaData f32a
{
    //	t
    }root
    packet tag  {
}
")).
Eval vm_compute in ("<<<M2837>>>" ++ check (runes_of_ascii "
options
    {msg_type =
    float32  } }root
packet Z9_{ char /// triple
crc @lengthOf(
options1 ) //
,} MetaData a1{}
")).
Eval vm_compute in ("<<<M2869>>>" ++ check (runes_of_ascii "
options
    {msg_type =
    float32  }root
packet Z9_{ char /// triple
MetaData @lengthOf(
options1 ) //
,} MetaData a1{}
")).
Eval vm_compute in ("<<<M2901>>>" ++ check (runes_of_ascii "
options
    {msg_type =
    float32  }root
packet Z9_{ char /// triple
crc @lengthOf(
options1 ) //
,} MetaData {}
")).
Eval vm_compute in ("<<<M2933>>>" ++ check (runes_of_ascii "
options
    {msg_type =
    float32  }root
packet Z9_{ char /// t" ++ [65279]%N ++ runes_of_ascii "riple
crc @lengthOf(
options1 ) //
,} MetaData a1{}
")).
Eval vm_compute in ("<<<M2965>>>" ++ check (runes_of_ascii "packet crc{ // " ++ [128512]%N ++ runes_of_ascii " emoji
repeat string ""// no comment""
`a\`, }
")).
Eval vm_compute in ("<<<M2997>>>" ++ check (runes_of_ascii "p@lengthOfacket crc{ // " ++ [128512]%N ++ runes_of_ascii " emoji
repeat string i8i8
`a\`, }
")).
Eval vm_compute in ("<<<M3029>>>" ++ check (runes_of_ascii "packet BodyLength {} MetaData zchar zchar{ zchar[// @lengthOf(
42 ]
    pack , string_
A , char[]crc , _x trueish ,
// " ++ [27880; 37322]%N ++ runes_of_ascii "
// " ++ [128512]%N ++ runes_of_ascii " emoji
zchar[
    3 ]	T // trailing space 
, } packet body
{
    }
")).
Eval vm_compute in ("<<<M3061>>>" ++ check (runes_of_ascii "packet BodyLength {} MetaData zchar{ zchar[// @lengthOf(
42 ]
    pack @calculatedFrom( string_
A , char[]crc , _x trueish ,
// " ++ [27880; 37322]%N ++ runes_of_ascii "
// " ++ [128512]%N ++ runes_of_ascii " emoji
zchar[
    3 ]	T // trailing space 
, } packet body
{
    }
")).
Eval vm_compute in ("<<<M3093>>>" ++ check (runes_of_ascii "packet BodyLength {} MetaData zchar{ zchar[// @lengthOf(
42 ]
    pack , string_
A , char[]crc ,  trueish ,
// " ++ [27880; 37322]%N ++ runes_of_ascii "
// " ++ [128512]%N ++ runes_of_ascii " emoji
zchar[
    3 ]	T // trailing space 
, } packet body
{
    }
")).
Eval vm_compute in ("<<<M3125>>>" ++ check (runes_of_ascii "packet BodyLength {} MetaData zchar{ zchar[// @lengthOf(
42 ]
    pack , string_
A , char[]crc , _x trueish ,
// " ++ [27880; 37322]%N ++ runes_of_ascii "
// " ++ [128512]%N ++ runes_of_ascii " emoji
zchar[
    3 ]	, // trailing space 
T } packet body
{
    }
")).
Eval vm_compute in ("<<<M3157>>>" ++ check (runes_of_ascii "packet BodyLength {} MetaData zchar{ zchar[// @lengthOf(
42 ]
    pack , string_
A , char[]crc , _x trueish ,
// " ++ [27880; 37322]%N ++ runes_of_ascii "
// " ++ [128512]%N ++ runes_of_ascii " emoji
zchar[
    3 ]	T ")).
Eval vm_compute in ("<<<M3189>>>" ++ check (runes_of_ascii "packet
string_ @lengthOf( int ) match packetx as f32a {
    1 :	calculatedFrom , }  ,
    } packet len
    //	t
    { @calculatedFrom( """ ++ [233]%N ++ runes_of_ascii "t" ++ [233]%N ++ runes_of_ascii """ ) body Header , char[] lengthOf  `two words` ,chars{repeat string_ matchKey ,
    } ,
    }
")).
Eval vm_compute in ("<<<M3221>>>" ++ check (runes_of_ascii "packet
string_ {@lengthOf( int ) match packetx f32a as {
    1 :	calculatedFrom , }  ,
    } packet len
    //	t
    { @calculatedFrom( """ ++ [233]%N ++ runes_of_ascii "t" ++ [233]%N ++ runes_of_ascii """ ) body Header , char[] lengthOf  `two words` ,chars{repeat string_ matchKey ,
    } ,
    }
")).
Eval vm_compute in ("<<<M3253>>>" ++ check (runes_of_ascii "packet
string_ {@lengthOf( int ) match packetx as f32a {
    1 :	calculatedFrom")).
Eval vm_compute in ("<<<M3285>>>" ++ check (runes_of_ascii "packet
string_ {@lengthOf( int ) match packetx as f32a {
    1 :	calculatedFrom , }  ,
    } packet len
    //	t
    { @calculatedFrom( @calculatedFrom( """ ++ [233]%N ++ runes_of_ascii "t" ++ [233]%N ++ runes_of_ascii """ ) body Header , char[] lengthOf  `two words` ,chars{repeat string_ matchKey ,
    } ,
    }
")).
Eval vm_compute in ("<<<M3317>>>" ++ check (runes_of_ascii "packet
string_ {@lengthOf( int ) match packetx as f32a {
    1 :	calculatedFrom , }  ,
    } packet len
    //	t
    { @calculatedFrom( """ ++ [233]%N ++ runes_of_ascii "t" ++ [233]%N ++ runes_of_ascii """ ) body Header , packet lengthOf  `two words` ,chars{repeat string_ matchKey ,
    } ,
    }
")).
Eval vm_compute in ("<<<M3349>>>" ++ check (runes_of_ascii "packet
string_ {@lengthOf( int ) match packetx as f32a {
    1 :	calculatedFrom , }  ,
    } packet len
    //	t
    { @calculatedFrom( """ ++ [233]%N ++ runes_of_ascii "t" ++ [233]%N ++ runes_of_ascii """ ) body Header , char[] lengthOf  `two words` ,chars{repeat  matchKey ,
    } ,
    }
")).
Eval vm_compute in ("<<<T3349>>>" ++ terms [mkTok 35 "packet" 1 0 false; mkTok 42 "string_" 2 0 false; mkTok 2 "{" 2 8 false; mkTok 7 "@lengthOf(" 2 9 false; mkTok 42 "int" 2 20 false; mkTok 6 ")" 2 24 false; mkTok 38 "match" 2 26 false; mkTok 42 "packetx" 2 32 false; mkTok 17 "as" 2 40 false; mkTok 42 "f32a" 2 43 false; mkTok 2 "{" 2 48 false; mkTok 30 "1" 3 4 false; mkTok 39 ":" 3 6 false; mkTok 42 "calculatedFrom" 3 8 false; mkTok 40 "," 3 23 false; mkTok 3 "}" 3 25 false; mkTok 40 "," 3 28 false; mkTok 3 "}" 4 4 false; mkTok 35 "packet" 4 6 false; mkTok 42 "len" 4 13 false; mkTok 44 (string_of_bytes [47; 47; 9; 116]%N) 5 4 true; mkTok 2 "{" 6 4 false; mkTok 5 "@calculatedFrom(" 6 6 false; mkTok 31 (string_of_bytes [34; 195; 169; 116; 195; 169; 34]%N) 6 23 false; mkTok 6 ")" 6 29 false; mkTok 42 "body" 6 31 false; mkTok 42 "Header" 6 36 false; mkTok 40 "," 6 43 false; mkTok 16 "char[]" 6 45 false; mkTok 42 "lengthOf" 6 52 false; mkTok 43 "`two words`" 6 62 false; mkTok 40 "," 6 74 false; mkTok 42 "chars" 6 75 false; mkTok 2 "{" 6 80 false; mkTok 36 "repeat" 6 81 false; mkTok 42 "matchKey" 6 89 false; mkTok 40 "," 6 98 false; mkTok 3 "}" 7 4 false; mkTok 40 "," 7 6 false; mkTok 3 "}" 8 4 false; mkTok 0 "<EOF>" 9 0 false] (mkPacket (mkPtok 35 "packet" 1 0 0) (Some (mkPtok 3 "}" 8 4 39)) [(DPacket (mkPacketDef (mkSpan (mkPtok 35 "packet" 1 0 0) (mkPtok 3 "}" 4 4 17)) None (mkPtok 35 "packet" 1 0 0) (mkPtok 42 "string_" 2 0 1) (mkPtok 2 "{" 2 8 2) [(mkFieldWithAttr (mkSpan (mkPtok 7 "@lengthOf(" 2 9 3) (mkPtok 40 "," 3 28 16)) [(FALengthOf (mkSpan (mkPtok 7 "@lengthOf(" 2 9 3) (mkPtok 6 ")" 2 24 5)) (mkLengthOf (mkSpan (mkPtok 7 "@lengthOf(" 2 9 3) (mkPtok 6 ")" 2 24 5)) (mkPtok 7 "@lengthOf(" 2 9 3) (mkPtok 42 "int" 2 20 4) (mkPtok 6 ")" 2 24 5)))] (MatchField (mkSpan (mkPtok 38 "match" 2 26 6) (mkPtok 40 "," 3 28 16)) (mkMatchFieldDecl (mkSpan (mkPtok 38 "match" 2 26 6) (mkPtok 3 "}" 3 25 15)) (mkPtok 38 "match" 2 26 6) (mkPtok 42 "packetx" 2 32 7) (mkPtok 17 "as" 2 40 8) (mkPtok 42 "f32a" 2 43 9) (mkPtok 2 "{" 2 48 10) [(mkMatchPair (mkSpan (mkPtok 30 "1" 3 4 11) (mkPtok 40 "," 3 23 14)) (MKDigits (mkPtok 30 "1" 3 4 11)) (mkPtok 39 ":" 3 6 12) (mkPtok 42 "calculatedFrom" 3 8 13) (Some (mkPtok 40 "," 3 23 14)))] (mkPtok 3 "}" 3 25 15)) (mkPtok 40 "," 3 28 16)))] (mkPtok 3 "}" 4 4 17))); (DPacket (mkPacketDef (mkSpan (mkPtok 35 "packet" 4 6 18) (mkPtok 3 "}" 8 4 39)) None (mkPtok 35 "packet" 4 6 18) (mkPtok 42 "len" 4 13 19) (mkPtok 2 "{" 6 4 21) [(mkFieldWithAttr (mkSpan (mkPtok 5 "@calculatedFrom(" 6 6 22) (mkPtok 40 "," 6 43 27)) [(FACalculatedFrom (mkSpan (mkPtok 5 "@calculatedFrom(" 6 6 22) (mkPtok 6 ")" 6 29 24)) (mkCalculatedFrom (mkSpan (mkPtok 5 "@calculatedFrom(" 6 6 22) (mkPtok 6 ")" 6 29 24)) (mkPtok 5 "@calculatedFrom(" 6 6 22) (mkPtok 31 (string_of_bytes [34; 195; 169; 116; 195; 169; 34]%N) 6 23 23) (mkPtok 6 ")" 6 29 24)))] (ObjectField (mkSpan (mkPtok 42 "body" 6 31 25) (mkPtok 40 "," 6 43 27)) None (mkPtok 42 "body" 6 31 25) (Some (mkPtok 42 "Header" 6 36 26)) None (mkPtok 40 "," 6 43 27))); (mkFieldWithAttr (mkSpan (mkPtok 16 "char[]" 6 45 28) (mkPtok 40 "," 6 74 31)) [] (MetaField (mkSpan (mkPtok 16 "char[]" 6 45 28) (mkPtok 40 "," 6 74 31)) None (mkMetaDecl (mkSpan (mkPtok 16 "char[]" 6 45 28) (mkPtok 40 "," 6 74 31)) (TyDynamic (mkSpan (mkPtok 16 "char[]" 6 45 28) (mkPtok 16 "char[]" 6 45 28)) (mkDynamicString (mkSpan (mkPtok 16 "char[]" 6 45 28) (mkPtok 16 "char[]" 6 45 28)) (mkPtok 16 "char[]" 6 45 28))) (mkPtok 42 "lengthOf" 6 52 29) (Some (mkPtok 43 "`two words`" 6 62 30)) (mkPtok 40 "," 6 74 31)))); (mkFieldWithAttr (mkSpan (mkPtok 42 "chars" 6 75 32) (mkPtok 40 "," 7 6 38)) [] (InerObjectField (mkSpan (mkPtok 42 "chars" 6 75 32) (mkPtok 40 "," 7 6 38)) None (InerObjectDecl (mkSpan (mkPtok 42 "chars" 6 75 32) (mkPtok 3 "}" 7 4 37)) (mkPtok 42 "chars" 6 75 32) (mkPtok 2 "{" 6 80 33) [(ObjectField (mkSpan (mkPtok 36 "repeat" 6 81 34) (mkPtok 40 "," 6 98 36)) (Some (mkPtok 36 "repeat" 6 81 34)) (mkPtok 42 "matchKey" 6 89 35) None None (mkPtok 40 "," 6 98 36))] (mkPtok 3 "}" 7 4 37)) (mkPtok 40 "," 7 6 38)))] (mkPtok 3 "}" 8 4 39)))])).
Eval vm_compute in ("<<<M3381>>>" ++ check (runes_of_ascii "packet
string_ {@lengthOf( int ) match packetx as f32a {
    1 :	calculatedFrom , }  ,
    } packet len
    //	t
    { @calculatedFrom( """ ++ [233]%N ++ runes_of_ascii "t" ++ [233]%N ++ runes_of_ascii """ ) bod")).
Eval vm_compute in ("<<<M3413>>>" ++ check (runes_of_ascii "/// triple
root
packet // packet A { u8 x, }
chars { @lengthOf(charz )
stringy,  @tag(  ) 0 // a // b
asx
    As
,
// trailing space 
// trailing space 
x_y_z {
repeat i16 charz , } ,	int16  crc ,}
")).
Eval vm_compute in ("<<<M3445>>>" ++ check (runes_of_ascii "/// triple
root
packet // packet A { u8 x, }
chars ; @lengthOf(charz )
stringy,  @tag(  0 ) // a // b
asx
    As
,
// trailing space 
// trailing space 
x_y_z {
repeat i16 charz , } ,	int16  crc ,}
")).
Eval vm_compute in ("<<<M3477>>>" ++ check (runes_of_ascii "/// triple
root
packet // packet A { u8 x, }
chars { @lengthOf(charz )
stringy,  @tag(  0 ) // a // b
asx
    As
,
// trailing space 
// trailing space 
x_y_z {
repeat repeat i16 charz , } ,	int16  crc ,}
")).
Eval vm_compute in ("<<<M3509>>>" ++ check (runes_of_ascii "f32 f64 float32 float64 float")).
Eval vm_compute in ("<<<M3541>>>" ++ check (runes_of_ascii "'1'")).
Eval vm_compute in ("<<<M3573>>>" ++ check (runes_of_ascii """""")).
Eval vm_compute in ("<<<M3605>>>" ++ check (runes_of_ascii "A1b2")).
Eval vm_compute in ("<<<M3637>>>" ++ check (runes_of_ascii "packet A { x, }")).
Eval vm_compute in ("<<<M3669>>>" ++ check (runes_of_ascii "packet A { match k as n { }, }")).
Eval vm_compute in ("<<<M3701>>>" ++ check (runes_of_ascii "packet A { } // c")).
Eval vm_compute in ("<<<M3733>>>" ++ check (runes_of_ascii "options { a = char[x]; }")).
Eval vm_compute in ("<<<M3765>>>" ++ check (runes_of_ascii "9!")).
Eval vm_compute in ("<<<M3797>>>" ++ check (runes_of_ascii "sLBR'v3Tujo .}<s2*~%A#;~]`c5xemkd<Zut3")).
Eval vm_compute in ("<<<M3829>>>" ++ check (runes_of_ascii "2.)9:+YZ=H`")).
Eval vm_compute in ("<<<M3861>>>" ++ check (runes_of_ascii ":Xu8xF)6#")).
Eval vm_compute in ("<<<M3893>>>" ++ check (runes_of_ascii "h=e3E!%XY")).
Eval vm_compute in ("<<<M3925>>>" ++ check (runes_of_ascii "l%>9&")).
Eval vm_compute in ("<<<M3957>>>" ++ check (runes_of_ascii ":b^voO[")).
Eval vm_compute in ("<<<M3989>>>" ++ check (runes_of_ascii "$_T.~(Bx]s`tO3QDIF?J\p1AJYIk-/_ks;")).
