From FP Require Import Lexer Parser ShowPT Digest.
From Coq Require Import String List NArith.
Import ListNotations.
Open Scope string_scope.
Set Printing Width 100000000.
Set Printing Depth 100000000.
Definition nl : string := String (Ascii.ascii_of_nat 10) EmptyString.
Definition model_lex (rs : list rune) : string := show_toks (lex rs).
Definition model_parse (rs : list rune) : string :=
  show_pt (match lex rs with Some ts => parse ts | None => None end).
(* coqc is slow at printing long strings: digests first (Digest.v), full texts on demand *)
Definition check (rs : list rune) : string :=
  digest (model_lex rs) ++ " " ++ digest (model_parse rs).
Definition full (rs : list rune) : string := model_lex rs ++ nl ++ model_parse rs.
Definition terms (ts : list tok) (t : pt) : string :=
  digest (show_toks (Some ts)) ++ " " ++ digest (show_pt (Some t)) ++ " " ++ digest (show_pt (parse ts)).
Definition terms_full (ts : list tok) (t : pt) : string :=
  show_toks (Some ts) ++ nl ++ show_pt (Some t) ++ nl ++ show_pt (parse ts).
Eval vm_compute in ("<<<M21>>>" ++ check (runes_of_ascii "MetaData MetaDataX { zchar[0  ] calculatedFrom
    // trailing space 
    , float32/// triple
matchKey
    , string_
//x
// " ++ [128512]%N ++ runes_of_ascii " emoji
calculatedFrom,	int lengthOf,
    } 	 ")).
Eval vm_compute in ("<<<M53>>>" ++ check (runes_of_ascii "root
packet
len { int16//	t
falsey @lengthOf( _x
)	, } // " ++ [128512]%N ++ runes_of_ascii " emoji")).
Eval vm_compute in ("<<<M85>>>" ++ check (runes_of_ascii "options{  }
options
    { o =
//x
//	t
false packetx=
    // @lengthOf(
    """ ++ [233]%N ++ runes_of_ascii "t" ++ [233]%N ++ runes_of_ascii """	asx = 0123456789 Foo = int8 a1
    = uint8
    ;
    } //	t")).
Eval vm_compute in ("<<<M117>>>" ++ check (runes_of_ascii "MetaData tag{
} MetaData tag
    { options1 metadata// " ++ [128512]%N ++ runes_of_ascii " emoji
,
}
    root packet Header { @lengthOf( body
) len
msg_type
    , repeat	string
    //x
    int
`{ , }`, u8
    rootA @lengthOf(
Z9_ )  `" ++ [233]%N ++ runes_of_ascii "` , }
")).
Eval vm_compute in ("<<<M149>>>" ++ check (runes_of_ascii "
root
packet
crc {u32 metadata
, As  falsey//x
`crlf
line` , repeatCount { repeat x_y_z //	t
{
repeat zchar
    crc `u8 x,`
/// triple
// @lengthOf(
,
    // trailing space 
    } ,	char[] MetaDataX @lengthOf( Foo )
    `" ++ [28040; 24687; 31867; 22411]%N ++ runes_of_ascii "`
    , } , } root packet len
    { }
packet//x
roots  { @tag(
    007 )rootA
{
    u32
Z9_ `doc` ,  } , repeat rootA, @tag( 1
) @lengthOf(
//	t
// 50% %s
rootA	)  u64 packetx // trailing space 
,
repeat f64
    u8x ,f32 string_ `two words` , char[ 4294967296// @lengthOf(
]  charz @calculatedFrom(
""CRC32""	), char[]options1 , char[ 42 //
] // a // b
Logon @calculatedFrom(
// c
// @lengthOf(
""" ++ [233]%N ++ runes_of_ascii "t" ++ [233]%N ++ runes_of_ascii """)
    `tab	here`,@rightPad
    ( // @lengthOf(
' '  )match matchKey as packetx	{ 007 // trailing space 
: len , }	,
}
")).
Eval vm_compute in ("<<<M181>>>" ++ check (runes_of_ascii "
packet// 50% %s
rootA// 50% %s
{ //
}")).
Eval vm_compute in ("<<<T181>>>" ++ terms [mkTok 35 "packet" 2 0 false; mkTok 44 "// 50% %s" 2 6 true; mkTok 42 "rootA" 3 0 false; mkTok 44 "// 50% %s" 3 5 true; mkTok 2 "{" 4 0 false; mkTok 44 "//" 4 2 true; mkTok 3 "}" 5 0 false; mkTok 0 "<EOF>" 5 1 false] (mkPacket (mkPtok 35 "packet" 2 0 0) (Some (mkPtok 3 "}" 5 0 6)) [(DPacket (mkPacketDef (mkSpan (mkPtok 35 "packet" 2 0 0) (mkPtok 3 "}" 5 0 6)) None (mkPtok 35 "packet" 2 0 0) (mkPtok 42 "rootA" 3 0 2) (mkPtok 2 "{" 4 0 4) [] (mkPtok 3 "}" 5 0 6)))])).
Eval vm_compute in ("<<<M213>>>" ++ check (runes_of_ascii "  MetaData
    int { }
options{	u8x = 10 }
")).
Eval vm_compute in ("<<<M245>>>" ++ check (runes_of_ascii "packet
    body { @tag( 42
    ) char[ 4294967296
] chars @calculatedFrom( ""{,}"")
`doc` // " ++ [27880; 37322]%N ++ runes_of_ascii "
,
repeat string lengthOf , @tag(
    3 /// triple
) string float @lengthOf( o
),
    u32 pack `100% of %d`, stringy
@lengthOf( repeatCount
    ) `say ""hi""`  , float32 crc `two words` , } packet zchar { @tag(
    0
    )
    @tag(  1 // a // b
)
@lengthOf(
    // `tick` ""quote"" 'q'
    Z9_) u32 Logon	@calculatedFrom(  ""x y""
)	, @tag( //	t
1 )  string
    packetx@lengthOf( u8x
//	t
// `tick` ""quote"" 'q'
)	, zchar[10 ] uint8x
    /// triple
    `// not a comment`
, repeat // a // b
stringy{ i16
    Z9_`// not a comment` ,repeat zchar[
    4294967296 ] u
,zchar @calculatedFrom(  ""{,}"" ) `a\` , }
,
rootA  u128 , } packet asx {
repeat i64_ ,@lengthOf( msg_type )repeat Z9_ rootA
    , }")).
Eval vm_compute in ("<<<M277>>>" ++ check (runes_of_ascii "
packet stringy
    { // c
u8 Header// 50% %s
@calculatedFrom(
""it's""), calculatedFrom f32a, zchar[
    /// triple
    7
] chars
@lengthOf( x ),repeat
As //x
{ u8x crc
`
` ,	} , @tag(7) //x
i16 rootA `it's`	, @calculatedFrom( """ ++ [128512]%N ++ runes_of_ascii """ ) i8 i8i8 `line1
line2` ,
repeat  char charz `say ""hi""` , } options
    { }")).
Eval vm_compute in ("<<<M309>>>" ++ check (runes_of_ascii "MetaData
    string_ // packet A { u8 x, }
{
u128 chars `u8 x,`
,
u8x // packet A { u8 x, }
leftPad
, } packet float {
    //	t
    trueish {
float { u16 stringy , }
    ,crc @calculatedFrom( ""// no comment""),// packet A { u8 x, }
zchar[
00 ] x_y_z @lengthOf( trueish )
    `crlf
line` ,}
, o{u8x
    { As @calculatedFrom(""a	b""
//x
// trailing space 
)
    , zchar[ 3]MetaDataX , } , char[ 255]  _x
,}
    // " ++ [128512]%N ++ runes_of_ascii " emoji
    , }
packet repeatCount { } 	 ")).
Eval vm_compute in ("<<<M341>>>" ++ check (runes_of_ascii "root// a // b
packet // " ++ [128512]%N ++ runes_of_ascii " emoji
metadata
{repeat float32 roots
    , repeat
    string //x
asx ,
    string
// " ++ [27880; 37322]%N ++ runes_of_ascii "
//	t
roots @lengthOf(
As ) , char[
    // `tick` ""quote"" 'q'
    10 ] crc @lengthOf( roots ) `{ , }`, i64 Logon  @calculatedFrom( ""{,}""
)  , i16 // trailing space 
options1
@calculatedFrom( ""CRC32""	),
@calculatedFrom( ""abc""
    )@calculatedFrom(
""" ++ [233]%N ++ runes_of_ascii "t" ++ [233]%N ++ runes_of_ascii """)
    zchar[ 65535 ] matchKey
, @rightPad
/// triple
// trailing space 
('0' )	repeat matchKey`u8 x,` , repeat  len ,
} options{ pack = ' '
; u8x  =char[7];
    i64_= true; calculatedFrom = true
// packet A { u8 x, }
// " ++ [128512]%N ++ runes_of_ascii " emoji
; } root
// packet A { u8 x, }
// `tick` ""quote"" 'q'
packet rootA{
    @calculatedFrom(
    // c
    ""a\""b"" )@rightPad //
( '\x00' ) @calculatedFrom(""a\""b""
) char[] Pad ,
    } MetaData  i64_ {u64
    matchKey
    ,int64 Foo ,
    char[
    0123456789]
    BodyLength
    `
` , tag crc ,
}")).
Eval vm_compute in ("<<<M373>>>" ++ check (runes_of_ascii " // trailing space ")).
Eval vm_compute in ("<<<M405>>>" ++ check (runes_of_ascii "  MetaData repeatCount { metadata Pad
//	t
// packet A { u8 x, }
`say ""hi""` ,
//
//	t
}
")).
Eval vm_compute in ("<<<T405>>>" ++ terms [mkTok 37 "MetaData" 1 2 false; mkTok 42 "repeatCount" 1 11 false; mkTok 2 "{" 1 23 false; mkTok 42 "metadata" 1 25 false; mkTok 42 "Pad" 1 34 false; mkTok 44 (string_of_bytes [47; 47; 9; 116]%N) 2 0 true; mkTok 44 "// packet A { u8 x, }" 3 0 true; mkTok 43 "`say ""hi""`" 4 0 false; mkTok 40 "," 4 11 false; mkTok 44 "//" 5 0 true; mkTok 44 (string_of_bytes [47; 47; 9; 116]%N) 6 0 true; mkTok 3 "}" 7 0 false; mkTok 0 "<EOF>" 8 0 false] (mkPacket (mkPtok 37 "MetaData" 1 2 0) (Some (mkPtok 3 "}" 7 0 11)) [(DMeta (mkMetaDef (mkSpan (mkPtok 37 "MetaData" 1 2 0) (mkPtok 3 "}" 7 0 11)) (mkPtok 37 "MetaData" 1 2 0) (mkPtok 42 "repeatCount" 1 11 1) (mkPtok 2 "{" 1 23 2) [(MIRef (mkRefMetaDecl (mkSpan (mkPtok 42 "metadata" 1 25 3) (mkPtok 40 "," 4 11 8)) (mkPtok 42 "metadata" 1 25 3) (mkPtok 42 "Pad" 1 34 4) (Some (mkPtok 43 "`say ""hi""`" 4 0 7)) (mkPtok 40 "," 4 11 8)))] (mkPtok 3 "}" 7 0 11)))])).
Eval vm_compute in ("<<<M437>>>" ++ check (runes_of_ascii "
MetaData lengthOf { calculatedFrom	BodyLength `" ++ [28040; 24687; 31867; 22411]%N ++ runes_of_ascii "` ,Packet x,
char[00 ] metadata
,
options1
BodyLength ,
f32 x  ,
// `tick` ""quote"" 'q'
//x
} MetaData pack{int64
u
`a\`
, int8 asx `tab	here` ,
    char[]
a1`u8 x,` ,repeatCount len `" ++ [233]%N ++ runes_of_ascii "` ,
    } packet charz{
@leftPad ( '\x00' ) float32 options1`two words` , } packet pack{ @tag( 10 )
repeat u
{ repeat i16 trueish`say ""hi""` ,repeat len calculatedFrom ,o Foo ,
}
,
i8 msg_type`crlf
line` , @calculatedFrom(
    ""\n""
) // c
zchar[
    10
]
chars
    @lengthOf(	trueish// 50% %s
) //	t
,
    uint8 o, @calculatedFrom( ""a	b""
) f64/// triple
string_ , a1 {string x
    `" ++ [28040; 24687; 31867; 22411]%N ++ runes_of_ascii "`
, // " ++ [128512]%N ++ runes_of_ascii " emoji
repeat i64_
,
    f64
i8i8 `it's`// 50% %s
,} ,  @calculatedFrom(""abc""	)
    string_ @calculatedFrom( ""`tick`"" )
`{ , }`
    ,match
uint8x as As
    {[
0,
""a\\"" ]
:
    metadata [ ""x y"" , ""a	b""
    ,""{,}"" //
, """ ++ [28040; 24687]%N ++ runes_of_ascii """  , ""{,}"" ,
""{,}"" ]  : asx ,},}")).
Eval vm_compute in ("<<<M469>>>" ++ check (runes_of_ascii "// packet A { u8 x, }

")).
Eval vm_compute in ("<<<M501>>>" ++ check (runes_of_ascii "packet x_y_z  {@lengthOf( leftPad)
float {	int32 Header , matchKey asx
,
    // " ++ [27880; 37322]%N ++ runes_of_ascii "
    match metadata as pack
    {""\" ++ [233]%N ++ runes_of_ascii """: packetx, ""CRC32"":	Packet  , 255
// " ++ [27880; 37322]%N ++ runes_of_ascii "
/// triple
:f32a""// no comment""
    :	len ""// no comment"" // " ++ [27880; 37322]%N ++ runes_of_ascii "
:	float, 007 :
Header , } ,} ,
    }
")).
Eval vm_compute in ("<<<M533>>>" ++ check (runes_of_ascii "packet i8i8
{match
Pad as u8x {
""CRC32""
    // @lengthOf(
    : metadata ,
[ 7 , 65535// c
] : matchKey/// triple
,
} , metadata
@calculatedFrom(
    //	t
    ""// no comment""// a // b
)	, uint32
f32a `
` // 50% %s
,
@tag(255)	@tag( 1 ) @leftPad ( //
' '
    )int32 Foo
    `100% of %d` ,
    string falsey @lengthOf(i64_) , @calculatedFrom( ""\n""
)i8i8
`{ , }`	, lengthOf u8x , @lengthOf(
    // @lengthOf(
    uint8x)
MetaDataX // " ++ [128512]%N ++ runes_of_ascii " emoji
{ repeat A i64_ `" ++ [233]%N ++ runes_of_ascii "` ,} , a1`u8 x,` , Z9_@calculatedFrom(
// c
/// triple
""\" ++ [233]%N ++ runes_of_ascii """ ) // a // b
, }
")).
Eval vm_compute in ("<<<M565>>>" ++ check (runes_of_ascii "
root  packet msg_type { packetx // " ++ [128512]%N ++ runes_of_ascii " emoji
, } root packet u8x { @calculatedFrom(
    ""CRC32""  ) repeat u128{ u32
asx, } , }

")).
Eval vm_compute in ("<<<M597>>>" ++ check (runes_of_ascii "
MetaData As { char
i64_
`tab	here`
    , char[ // packet A { u8 x, }
0
    ]
    charz `crlf
line` ,zchar[ 0123456789] metadata	, }")).
Eval vm_compute in ("<<<M629>>>" ++ check (runes_of_ascii "packet lengthOf { } root packet
    repeatCount { // 50% %s
@tag( 42 ) @tag(0 ) @calculatedFrom(
""it's""
)// `tick` ""quote"" 'q'
char[
    //x
    65535 ]
charz @lengthOf( falsey )
`" ++ [28040; 24687; 31867; 22411]%N ++ runes_of_ascii "` , } packet//	t
crc {@calculatedFrom( ""packet""
) @calculatedFrom( """ ++ [233]%N ++ runes_of_ascii "t" ++ [233]%N ++ runes_of_ascii """) @lengthOf( A
) match float as chars
    {
    //	t
    [ 65535 , """ ++ [233]%N ++ runes_of_ascii "t" ++ [233]%N ++ runes_of_ascii """
    , ""CRC32""
,0123456789
] : u ,
    } ,zchar[ 255 ]
chars @calculatedFrom(
    // @lengthOf(
    """ ++ [28040; 24687]%N ++ runes_of_ascii """ ),
@lengthOf( asx )@rightPad ( // 50% %s
'\x00'
) repeat
lengthOf `crlf
line`,// `tick` ""quote"" 'q'
repeat // trailing space 
string_ { match Z9_
//	t
// " ++ [27880; 37322]%N ++ runes_of_ascii "
as
roots {
3  : T, [ """" ,
10,  00 ]:packetx , }
, }	, i8 Header @lengthOf(
    charz )  `it's` ,repeat calculatedFrom
    //x
    {
// `tick` ""quote"" 'q'
// `tick` ""quote"" 'q'
match repeatCount as
len { 7: lengthOf // trailing space 
, [  """ ++ [233]%N ++ runes_of_ascii "t" ++ [233]%N ++ runes_of_ascii """ ] : MetaDataX
    , ""abc"": Packet
// c
// `tick` ""quote"" 'q'
,
65535 : i64_ ,
    007 : Packet },  stringy o  `
`//
,zchar[ /// triple
7
    ]
    u
// packet A { u8 x, }
// `tick` ""quote"" 'q'
,	}, @lengthOf(lengthOf
    )
match f32a as  Z9_	{ ""1"" : o  ,} , }
packet body { } //x
root packet
    Z9_
    {
match packetx as f32a	{ 0 // a // b
: metadata , }
    , char[] leftPad
    ``
    // @lengthOf(
    ,repeat
    uint8 x_y_z`100% of %d`  ,
string BodyLength@calculatedFrom(
""" ++ [128512]%N ++ runes_of_ascii """) ,	Pad	, @tag(
    255 )
    @lengthOf(
// @lengthOf(
// packet A { u8 x, }
roots ) @calculatedFrom(  """ ++ [128512]%N ++ runes_of_ascii """
)
    repeat crc { repeat char //	t
trueish
    , }	,
    zchar[
    4294967296 ]options1
@calculatedFrom(""CRC32"" ) , // 50% %s
match packetx as lengthOf { ""a\""b""  : options1	,
// trailing space 
// " ++ [128512]%N ++ runes_of_ascii " emoji
0123456789
: Foo
,  ""a\\"": trueish	, 3
    :
    string_ , ""\n"" :
    /// triple
    zchar , [ 65535 ]
: u128
} ,@tag( 42 ) @leftPad ( '\x00' ) i16 crc ,
    zchar[7]	_x  @lengthOf(falsey  )
,
}
")).
Eval vm_compute in ("<<<T629>>>" ++ terms [mkTok 35 "packet" 1 0 false; mkTok 42 "lengthOf" 1 7 false; mkTok 2 "{" 1 16 false; mkTok 3 "}" 1 18 false; mkTok 34 "root" 1 20 false; mkTok 35 "packet" 1 25 false; mkTok 42 "repeatCount" 2 4 false; mkTok 2 "{" 2 16 false; mkTok 44 "// 50% %s" 2 18 true; mkTok 9 "@tag(" 3 0 false; mkTok 30 "42" 3 6 false; mkTok 6 ")" 3 9 false; mkTok 9 "@tag(" 3 11 false; mkTok 30 "0" 3 16 false; mkTok 6 ")" 3 18 false; mkTok 5 "@calculatedFrom(" 3 20 false; mkTok 31 """it's""" 4 0 false; mkTok 6 ")" 5 0 false; mkTok 44 "// `tick` ""quote"" 'q'" 5 1 true; mkTok 12 "char[" 6 0 false; mkTok 44 "//x" 7 4 true; mkTok 30 "65535" 8 4 false; mkTok 13 "]" 8 10 false; mkTok 42 "charz" 9 0 false; mkTok 7 "@lengthOf(" 9 6 false; mkTok 42 "falsey" 9 17 false; mkTok 6 ")" 9 24 false; mkTok 43 (string_of_bytes [96; 230; 182; 136; 230; 129; 175; 231; 177; 187; 229; 158; 139; 96]%N) 10 0 false; mkTok 40 "," 10 7 false; mkTok 3 "}" 10 9 false; mkTok 35 "packet" 10 11 false; mkTok 44 (string_of_bytes [47; 47; 9; 116]%N) 10 17 true; mkTok 42 "crc" 11 0 false; mkTok 2 "{" 11 4 false; mkTok 5 "@calculatedFrom(" 11 5 false; mkTok 31 """packet""" 11 22 false; mkTok 6 ")" 12 0 false; mkTok 5 "@calculatedFrom(" 12 2 false; mkTok 31 (string_of_bytes [34; 195; 169; 116; 195; 169; 34]%N) 12 19 false; mkTok 6 ")" 12 24 false; mkTok 7 "@lengthOf(" 12 26 false; mkTok 42 "A" 12 37 false; mkTok 6 ")" 13 0 false; mkTok 38 "match" 13 2 false; mkTok 42 "float" 13 8 false; mkTok 17 "as" 13 14 false; mkTok 42 "chars" 13 17 false; mkTok 2 "{" 14 4 false; mkTok 44 (string_of_bytes [47; 47; 9; 116]%N) 15 4 true; mkTok 18 "[" 16 4 false; mkTok 30 "65535" 16 6 false; mkTok 40 "," 16 12 false; mkTok 31 (string_of_bytes [34; 195; 169; 116; 195; 169; 34]%N) 16 14 false; mkTok 40 "," 17 4 false; mkTok 31 """CRC32""" 17 6 false; mkTok 40 "," 18 0 false; mkTok 30 "0123456789" 18 1 false; mkTok 13 "]" 19 0 false; mkTok 39 ":" 19 2 false; mkTok 42 "u" 19 4 false; mkTok 40 "," 19 6 false; mkTok 3 "}" 20 4 false; mkTok 40 "," 20 6 false; mkTok 14 "zchar[" 20 7 false; mkTok 30 "255" 20 14 false; mkTok 13 "]" 20 18 false; mkTok 42 "chars" 21 0 false; mkTok 5 "@calculatedFrom(" 21 6 false; mkTok 44 "// @lengthOf(" 22 4 true; mkTok 31 (string_of_bytes [34; 230; 182; 136; 230; 129; 175; 34]%N) 23 4 false; mkTok 6 ")" 23 9 false; mkTok 40 "," 23 10 false; mkTok 7 "@lengthOf(" 24 0 false; mkTok 42 "asx" 24 11 false; mkTok 6 ")" 24 15 false; mkTok 32 "@rightPad" 24 16 false; mkTok 8 "(" 24 26 false; mkTok 44 "// 50% %s" 24 28 true; mkTok 33 "'\x00'" 25 0 false; mkTok 6 ")" 26 0 false; mkTok 36 "repeat" 26 2 false; mkTok 42 "lengthOf" 27 0 false; mkTok 43 (string_of_bytes [96; 99; 114; 108; 102; 13; 10; 108; 105; 110; 101; 96]%N) 27 9 false; mkTok 40 "," 28 5 false; mkTok 44 "// `tick` ""quote"" 'q'" 28 6 true; mkTok 36 "repeat" 29 0 false; mkTok 44 "// trailing space " 29 7 true; mkTok 42 "string_" 30 0 false; mkTok 2 "{" 30 8 false; mkTok 38 "match" 30 10 false; mkTok 42 "Z9_" 30 16 false; mkTok 44 (string_of_bytes [47; 47; 9; 116]%N) 31 0 true; mkTok 44 (string_of_bytes [47; 47; 32; 230; 179; 168; 233; 135; 138]%N) 32 0 true; mkTok 17 "as" 33 0 false; mkTok 42 "roots" 34 0 false; mkTok 2 "{" 34 6 false; mkTok 30 "3" 35 0 false; mkTok 39 ":" 35 3 false; mkTok 42 "T" 35 5 false; mkTok 40 "," 35 6 false; mkTok 18 "[" 35 8 false; mkTok 31 """""" 35 10 false; mkTok 40 "," 35 13 false; mkTok 30 "10" 36 0 false; mkTok 40 "," 36 2 false; mkTok 30 "00" 36 5 false; mkTok 13 "]" 36 8 false; mkTok 39 ":" 36 9 false; mkTok 42 "packetx" 36 10 false; mkTok 40 "," 36 18 false; mkTok 3 "}" 36 20 false; mkTok 40 "," 37 0 false; mkTok 3 "}" 37 2 false; mkTok 40 "," 37 4 false; mkTok 24 "i8" 37 6 false; mkTok 42 "Header" 37 9 false; mkTok 7 "@lengthOf(" 37 16 false; mkTok 42 "charz" 38 4 false; mkTok 6 ")" 38 10 false; mkTok 43 "`it's`" 38 13 false; mkTok 40 "," 38 20 false; mkTok 36 "repeat" 38 21 false; mkTok 42 "calculatedFrom" 38 28 false; mkTok 44 "//x" 39 4 true; mkTok 2 "{" 40 4 false; mkTok 44 "// `tick` ""quote"" 'q'" 41 0 true; mkTok 44 "// `tick` ""quote"" 'q'" 42 0 true; mkTok 38 "match" 43 0 false; mkTok 42 "repeatCount" 43 6 false; mkTok 17 "as" 43 18 false; mkTok 42 "len" 44 0 false; mkTok 2 "{" 44 4 false; mkTok 30 "7" 44 6 false; mkTok 39 ":" 44 7 false; mkTok 42 "lengthOf" 44 9 false; mkTok 44 "// trailing space " 44 18 true; mkTok 40 "," 45 0 false; mkTok 18 "[" 45 2 false; mkTok 31 (string_of_bytes [34; 195; 169; 116; 195; 169; 34]%N) 45 5 false; mkTok 13 "]" 45 11 false; mkTok 39 ":" 45 13 false; mkTok 42 "MetaDataX" 45 15 false; mkTok 40 "," 46 4 false; mkTok 31 """abc""" 46 6 false; mkTok 39 ":" 46 11 false; mkTok 42 "Packet" 46 13 false; mkTok 44 "// c" 47 0 true; mkTok 44 "// `tick` ""quote"" 'q'" 48 0 true; mkTok 40 "," 49 0 false; mkTok 30 "65535" 50 0 false; mkTok 39 ":" 50 6 false; mkTok 42 "i64_" 50 8 false; mkTok 40 "," 50 13 false; mkTok 30 "007" 51 4 false; mkTok 39 ":" 51 8 false; mkTok 42 "Packet" 51 10 false; mkTok 3 "}" 51 17 false; mkTok 40 "," 51 18 false; mkTok 42 "stringy" 51 21 false; mkTok 42 "o" 51 29 false; mkTok 43 (string_of_bytes [96; 10; 96]%N) 51 32 false; mkTok 44 "//" 52 1 true; mkTok 40 "," 53 0 false; mkTok 14 "zchar[" 53 1 false; mkTok 44 "/// triple" 53 8 true; mkTok 30 "7" 54 0 false; mkTok 13 "]" 55 4 false; mkTok 42 "u" 56 4 false; mkTok 44 "// packet A { u8 x, }" 57 0 true; mkTok 44 "// `tick` ""quote"" 'q'" 58 0 true; mkTok 40 "," 59 0 false; mkTok 3 "}" 59 2 false; mkTok 40 "," 59 3 false; mkTok 7 "@lengthOf(" 59 5 false; mkTok 42 "lengthOf" 59 15 false; mkTok 6 ")" 60 4 false; mkTok 38 "match" 61 0 false; mkTok 42 "f32a" 61 6 false; mkTok 17 "as" 61 11 false; mkTok 42 "Z9_" 61 15 false; mkTok 2 "{" 61 19 false; mkTok 31 """1""" 61 21 false; mkTok 39 ":" 61 25 false; mkTok 42 "o" 61 27 false; mkTok 40 "," 61 30 false; mkTok 3 "}" 61 31 false; mkTok 40 "," 61 33 false; mkTok 3 "}" 61 35 false; mkTok 35 "packet" 62 0 false; mkTok 42 "body" 62 7 false; mkTok 2 "{" 62 12 false; mkTok 3 "}" 62 14 false; mkTok 44 "//x" 62 16 true; mkTok 34 "root" 63 0 false; mkTok 35 "packet" 63 5 false; mkTok 42 "Z9_" 64 4 false; mkTok 2 "{" 65 4 false; mkTok 38 "match" 66 0 false; mkTok 42 "packetx" 66 6 false; mkTok 17 "as" 66 14 false; mkTok 42 "f32a" 66 17 false; mkTok 2 "{" 66 22 false; mkTok 30 "0" 66 24 false; mkTok 44 "// a // b" 66 26 true; mkTok 39 ":" 67 0 false; mkTok 42 "metadata" 67 2 false; mkTok 40 "," 67 11 false; mkTok 3 "}" 67 13 false; mkTok 40 "," 68 4 false; mkTok 16 "char[]" 68 6 false; mkTok 42 "leftPad" 68 13 false; mkTok 43 "``" 69 4 false; mkTok 44 "// @lengthOf(" 70 4 true; mkTok 40 "," 71 4 false; mkTok 36 "repeat" 71 5 false; mkTok 20 "uint8" 72 4 false; mkTok 42 "x_y_z" 72 10 false; mkTok 43 "`100% of %d`" 72 15 false; mkTok 40 "," 72 29 false; mkTok 15 "string" 73 0 false; mkTok 42 "BodyLength" 73 7 false; mkTok 5 "@calculatedFrom(" 73 17 false; mkTok 31 (string_of_bytes [34; 240; 159; 152; 128; 34]%N) 74 0 false; mkTok 6 ")" 74 3 false; mkTok 40 "," 74 5 false; mkTok 42 "Pad" 74 7 false; mkTok 40 "," 74 11 false; mkTok 9 "@tag(" 74 13 false; mkTok 30 "255" 75 4 false; mkTok 6 ")" 75 8 false; mkTok 7 "@lengthOf(" 76 4 false; mkTok 44 "// @lengthOf(" 77 0 true; mkTok 44 "// packet A { u8 x, }" 78 0 true; mkTok 42 "roots" 79 0 false; mkTok 6 ")" 79 6 false; mkTok 5 "@calculatedFrom(" 79 8 false; mkTok 31 (string_of_bytes [34; 240; 159; 152; 128; 34]%N) 79 26 false; mkTok 6 ")" 80 0 false; mkTok 36 "repeat" 81 4 false; mkTok 42 "crc" 81 11 false; mkTok 2 "{" 81 15 false; mkTok 36 "repeat" 81 17 false; mkTok 19 "char" 81 24 false; mkTok 44 (string_of_bytes [47; 47; 9; 116]%N) 81 29 true; mkTok 42 "trueish" 82 0 false; mkTok 40 "," 83 4 false; mkTok 3 "}" 83 6 false; mkTok 40 "," 83 8 false; mkTok 14 "zchar[" 84 4 false; mkTok 30 "4294967296" 85 4 false; mkTok 13 "]" 85 15 false; mkTok 42 "options1" 85 16 false; mkTok 5 "@calculatedFrom(" 86 0 false; mkTok 31 """CRC32""" 86 16 false; mkTok 6 ")" 86 24 false; mkTok 40 "," 86 26 false; mkTok 44 "// 50% %s" 86 28 true; mkTok 38 "match" 87 0 false; mkTok 42 "packetx" 87 6 false; mkTok 17 "as" 87 14 false; mkTok 42 "lengthOf" 87 17 false; mkTok 2 "{" 87 26 false; mkTok 31 """a\""b""" 87 28 false; mkTok 39 ":" 87 36 false; mkTok 42 "options1" 87 38 false; mkTok 40 "," 87 47 false; mkTok 44 "// trailing space " 88 0 true; mkTok 44 (string_of_bytes [47; 47; 32; 240; 159; 152; 128; 32; 101; 109; 111; 106; 105]%N) 89 0 true; mkTok 30 "0123456789" 90 0 false; mkTok 39 ":" 91 0 false; mkTok 42 "Foo" 91 2 false; mkTok 40 "," 92 0 false; mkTok 31 """a\\""" 92 3 false; mkTok 39 ":" 92 8 false; mkTok 42 "trueish" 92 10 false; mkTok 40 "," 92 18 false; mkTok 30 "3" 92 20 false; mkTok 39 ":" 93 4 false; mkTok 42 "string_" 94 4 false; mkTok 40 "," 94 12 false; mkTok 31 """\n""" 94 14 false; mkTok 39 ":" 94 19 false; mkTok 44 "/// triple" 95 4 true; mkTok 42 "zchar" 96 4 false; mkTok 40 "," 96 10 false; mkTok 18 "[" 96 12 false; mkTok 30 "65535" 96 14 false; mkTok 13 "]" 96 20 false; mkTok 39 ":" 97 0 false; mkTok 42 "u128" 97 2 false; mkTok 3 "}" 98 0 false; mkTok 40 "," 98 2 false; mkTok 9 "@tag(" 98 3 false; mkTok 30 "42" 98 9 false; mkTok 6 ")" 98 12 false; mkTok 32 "@leftPad" 98 14 false; mkTok 8 "(" 98 23 false; mkTok 33 "'\x00'" 98 25 false; mkTok 6 ")" 98 32 false; mkTok 25 "i16" 98 34 false; mkTok 42 "crc" 98 38 false; mkTok 40 "," 98 42 false; mkTok 14 "zchar[" 99 4 false; mkTok 30 "7" 99 10 false; mkTok 13 "]" 99 11 false; mkTok 42 "_x" 99 13 false; mkTok 7 "@lengthOf(" 99 17 false; mkTok 42 "falsey" 99 27 false; mkTok 6 ")" 99 35 false; mkTok 40 "," 100 0 false; mkTok 3 "}" 101 0 false; mkTok 0 "<EOF>" 102 0 false] (mkPacket (mkPtok 35 "packet" 1 0 0) (Some (mkPtok 3 "}" 101 0 310)) [(DPacket (mkPacketDef (mkSpan (mkPtok 35 "packet" 1 0 0) (mkPtok 3 "}" 1 18 3)) None (mkPtok 35 "packet" 1 0 0) (mkPtok 42 "lengthOf" 1 7 1) (mkPtok 2 "{" 1 16 2) [] (mkPtok 3 "}" 1 18 3))); (DPacket (mkPacketDef (mkSpan (mkPtok 34 "root" 1 20 4) (mkPtok 3 "}" 10 9 29)) (Some (mkPtok 34 "root" 1 20 4)) (mkPtok 35 "packet" 1 25 5) (mkPtok 42 "repeatCount" 2 4 6) (mkPtok 2 "{" 2 16 7) [(mkFieldWithAttr (mkSpan (mkPtok 9 "@tag(" 3 0 9) (mkPtok 40 "," 10 7 28)) [(FATag (mkSpan (mkPtok 9 "@tag(" 3 0 9) (mkPtok 6 ")" 3 9 11)) (mkTagAttr (mkSpan (mkPtok 9 "@tag(" 3 0 9) (mkPtok 6 ")" 3 9 11)) (mkPtok 9 "@tag(" 3 0 9) (mkPtok 30 "42" 3 6 10) (mkPtok 6 ")" 3 9 11))); (FATag (mkSpan (mkPtok 9 "@tag(" 3 11 12) (mkPtok 6 ")" 3 18 14)) (mkTagAttr (mkSpan (mkPtok 9 "@tag(" 3 11 12) (mkPtok 6 ")" 3 18 14)) (mkPtok 9 "@tag(" 3 11 12) (mkPtok 30 "0" 3 16 13) (mkPtok 6 ")" 3 18 14))); (FACalculatedFrom (mkSpan (mkPtok 5 "@calculatedFrom(" 3 20 15) (mkPtok 6 ")" 5 0 17)) (mkCalculatedFrom (mkSpan (mkPtok 5 "@calculatedFrom(" 3 20 15) (mkPtok 6 ")" 5 0 17)) (mkPtok 5 "@calculatedFrom(" 3 20 15) (mkPtok 31 """it's""" 4 0 16) (mkPtok 6 ")" 5 0 17)))] (LengthField (mkSpan (mkPtok 12 "char[" 6 0 19) (mkPtok 40 "," 10 7 28)) (mkLengthFieldDecl (mkSpan (mkPtok 12 "char[" 6 0 19) (mkPtok 40 "," 10 7 28)) (Some (TyFixed (mkSpan (mkPtok 12 "char[" 6 0 19) (mkPtok 13 "]" 8 10 22)) (mkFixedString (mkSpan (mkPtok 12 "char[" 6 0 19) (mkPtok 13 "]" 8 10 22)) (mkPtok 12 "char[" 6 0 19) (mkPtok 30 "65535" 8 4 21) (mkPtok 13 "]" 8 10 22)))) (mkPtok 42 "charz" 9 0 23) (mkLengthOf (mkSpan (mkPtok 7 "@lengthOf(" 9 6 24) (mkPtok 6 ")" 9 24 26)) (mkPtok 7 "@lengthOf(" 9 6 24) (mkPtok 42 "falsey" 9 17 25) (mkPtok 6 ")" 9 24 26)) (Some (mkPtok 43 (string_of_bytes [96; 230; 182; 136; 230; 129; 175; 231; 177; 187; 229; 158; 139; 96]%N) 10 0 27)) (mkPtok 40 "," 10 7 28))))] (mkPtok 3 "}" 10 9 29))); (DPacket (mkPacketDef (mkSpan (mkPtok 35 "packet" 10 11 30) (mkPtok 3 "}" 61 35 187)) None (mkPtok 35 "packet" 10 11 30) (mkPtok 42 "crc" 11 0 32) (mkPtok 2 "{" 11 4 33) [(mkFieldWithAttr (mkSpan (mkPtok 5 "@calculatedFrom(" 11 5 34) (mkPtok 40 "," 20 6 62)) [(FACalculatedFrom (mkSpan (mkPtok 5 "@calculatedFrom(" 11 5 34) (mkPtok 6 ")" 12 0 36)) (mkCalculatedFrom (mkSpan (mkPtok 5 "@calculatedFrom(" 11 5 34) (mkPtok 6 ")" 12 0 36)) (mkPtok 5 "@calculatedFrom(" 11 5 34) (mkPtok 31 """packet""" 11 22 35) (mkPtok 6 ")" 12 0 36))); (FACalculatedFrom (mkSpan (mkPtok 5 "@calculatedFrom(" 12 2 37) (mkPtok 6 ")" 12 24 39)) (mkCalculatedFrom (mkSpan (mkPtok 5 "@calculatedFrom(" 12 2 37) (mkPtok 6 ")" 12 24 39)) (mkPtok 5 "@calculatedFrom(" 12 2 37) (mkPtok 31 (string_of_bytes [34; 195; 169; 116; 195; 169; 34]%N) 12 19 38) (mkPtok 6 ")" 12 24 39))); (FALengthOf (mkSpan (mkPtok 7 "@lengthOf(" 12 26 40) (mkPtok 6 ")" 13 0 42)) (mkLengthOf (mkSpan (mkPtok 7 "@lengthOf(" 12 26 40) (mkPtok 6 ")" 13 0 42)) (mkPtok 7 "@lengthOf(" 12 26 40) (mkPtok 42 "A" 12 37 41) (mkPtok 6 ")" 13 0 42)))] (MatchField (mkSpan (mkPtok 38 "match" 13 2 43) (mkPtok 40 "," 20 6 62)) (mkMatchFieldDecl (mkSpan (mkPtok 38 "match" 13 2 43) (mkPtok 3 "}" 20 4 61)) (mkPtok 38 "match" 13 2 43) (mkPtok 42 "float" 13 8 44) (mkPtok 17 "as" 13 14 45) (mkPtok 42 "chars" 13 17 46) (mkPtok 2 "{" 14 4 47) [(mkMatchPair (mkSpan (mkPtok 18 "[" 16 4 49) (mkPtok 40 "," 19 6 60)) (MKList (mkKeyList (mkSpan (mkPtok 18 "[" 16 4 49) (mkPtok 13 "]" 19 0 57)) (mkPtok 18 "[" 16 4 49) (mkPtok 30 "65535" 16 6 50) [((mkPtok 40 "," 16 12 51), (mkPtok 31 (string_of_bytes [34; 195; 169; 116; 195; 169; 34]%N) 16 14 52)); ((mkPtok 40 "," 17 4 53), (mkPtok 31 """CRC32""" 17 6 54)); ((mkPtok 40 "," 18 0 55), (mkPtok 30 "0123456789" 18 1 56))] (mkPtok 13 "]" 19 0 57))) (mkPtok 39 ":" 19 2 58) (mkPtok 42 "u" 19 4 59) (Some (mkPtok 40 "," 19 6 60)))] (mkPtok 3 "}" 20 4 61)) (mkPtok 40 "," 20 6 62))); (mkFieldWithAttr (mkSpan (mkPtok 14 "zchar[" 20 7 63) (mkPtok 40 "," 23 10 71)) [] (CheckSumField (mkSpan (mkPtok 14 "zchar[" 20 7 63) (mkPtok 40 "," 23 10 71)) (mkChecksumFieldDecl (mkSpan (mkPtok 14 "zchar[" 20 7 63) (mkPtok 40 "," 23 10 71)) (Some (TyFixed (mkSpan (mkPtok 14 "zchar[" 20 7 63) (mkPtok 13 "]" 20 18 65)) (mkFixedString (mkSpan (mkPtok 14 "zchar[" 20 7 63) (mkPtok 13 "]" 20 18 65)) (mkPtok 14 "zchar[" 20 7 63) (mkPtok 30 "255" 20 14 64) (mkPtok 13 "]" 20 18 65)))) (mkPtok 42 "chars" 21 0 66) (mkCalculatedFrom (mkSpan (mkPtok 5 "@calculatedFrom(" 21 6 67) (mkPtok 6 ")" 23 9 70)) (mkPtok 5 "@calculatedFrom(" 21 6 67) (mkPtok 31 (string_of_bytes [34; 230; 182; 136; 230; 129; 175; 34]%N) 23 4 69) (mkPtok 6 ")" 23 9 70)) None (mkPtok 40 "," 23 10 71)))); (mkFieldWithAttr (mkSpan (mkPtok 7 "@lengthOf(" 24 0 72) (mkPtok 40 "," 28 5 83)) [(FALengthOf (mkSpan (mkPtok 7 "@lengthOf(" 24 0 72) (mkPtok 6 ")" 24 15 74)) (mkLengthOf (mkSpan (mkPtok 7 "@lengthOf(" 24 0 72) (mkPtok 6 ")" 24 15 74)) (mkPtok 7 "@lengthOf(" 24 0 72) (mkPtok 42 "asx" 24 11 73) (mkPtok 6 ")" 24 15 74))); (FAPadding (mkSpan (mkPtok 32 "@rightPad" 24 16 75) (mkPtok 6 ")" 26 0 79)) (mkPaddingAttr (mkSpan (mkPtok 32 "@rightPad" 24 16 75) (mkPtok 6 ")" 26 0 79)) (mkPtok 32 "@rightPad" 24 16 75) (mkPtok 8 "(" 24 26 76) (Some (mkPtok 33 "'\x00'" 25 0 78)) (mkPtok 6 ")" 26 0 79)))] (ObjectField (mkSpan (mkPtok 36 "repeat" 26 2 80) (mkPtok 40 "," 28 5 83)) (Some (mkPtok 36 "repeat" 26 2 80)) (mkPtok 42 "lengthOf" 27 0 81) None (Some (mkPtok 43 (string_of_bytes [96; 99; 114; 108; 102; 13; 10; 108; 105; 110; 101; 96]%N) 27 9 82)) (mkPtok 40 "," 28 5 83))); (mkFieldWithAttr (mkSpan (mkPtok 36 "repeat" 29 0 85) (mkPtok 40 "," 37 4 113)) [] (InerObjectField (mkSpan (mkPtok 36 "repeat" 29 0 85) (mkPtok 40 "," 37 4 113)) (Some (mkPtok 36 "repeat" 29 0 85)) (InerObjectDecl (mkSpan (mkPtok 42 "string_" 30 0 87) (mkPtok 3 "}" 37 2 112)) (mkPtok 42 "string_" 30 0 87) (mkPtok 2 "{" 30 8 88) [(MatchField (mkSpan (mkPtok 38 "match" 30 10 89) (mkPtok 40 "," 37 0 111)) (mkMatchFieldDecl (mkSpan (mkPtok 38 "match" 30 10 89) (mkPtok 3 "}" 36 20 110)) (mkPtok 38 "match" 30 10 89) (mkPtok 42 "Z9_" 30 16 90) (mkPtok 17 "as" 33 0 93) (mkPtok 42 "roots" 34 0 94) (mkPtok 2 "{" 34 6 95) [(mkMatchPair (mkSpan (mkPtok 30 "3" 35 0 96) (mkPtok 40 "," 35 6 99)) (MKDigits (mkPtok 30 "3" 35 0 96)) (mkPtok 39 ":" 35 3 97) (mkPtok 42 "T" 35 5 98) (Some (mkPtok 40 "," 35 6 99))); (mkMatchPair (mkSpan (mkPtok 18 "[" 35 8 100) (mkPtok 40 "," 36 18 109)) (MKList (mkKeyList (mkSpan (mkPtok 18 "[" 35 8 100) (mkPtok 13 "]" 36 8 106)) (mkPtok 18 "[" 35 8 100) (mkPtok 31 """""" 35 10 101) [((mkPtok 40 "," 35 13 102), (mkPtok 30 "10" 36 0 103)); ((mkPtok 40 "," 36 2 104), (mkPtok 30 "00" 36 5 105))] (mkPtok 13 "]" 36 8 106))) (mkPtok 39 ":" 36 9 107) (mkPtok 42 "packetx" 36 10 108) (Some (mkPtok 40 "," 36 18 109)))] (mkPtok 3 "}" 36 20 110)) (mkPtok 40 "," 37 0 111))] (mkPtok 3 "}" 37 2 112)) (mkPtok 40 "," 37 4 113))); (mkFieldWithAttr (mkSpan (mkPtok 24 "i8" 37 6 114) (mkPtok 40 "," 38 20 120)) [] (LengthField (mkSpan (mkPtok 24 "i8" 37 6 114) (mkPtok 40 "," 38 20 120)) (mkLengthFieldDecl (mkSpan (mkPtok 24 "i8" 37 6 114) (mkPtok 40 "," 38 20 120)) (Some (TyBasic (mkSpan (mkPtok 24 "i8" 37 6 114) (mkPtok 24 "i8" 37 6 114)) (mkBasicType (mkSpan (mkPtok 24 "i8" 37 6 114) (mkPtok 24 "i8" 37 6 114)) (mkPtok 24 "i8" 37 6 114)))) (mkPtok 42 "Header" 37 9 115) (mkLengthOf (mkSpan (mkPtok 7 "@lengthOf(" 37 16 116) (mkPtok 6 ")" 38 10 118)) (mkPtok 7 "@lengthOf(" 37 16 116) (mkPtok 42 "charz" 38 4 117) (mkPtok 6 ")" 38 10 118)) (Some (mkPtok 43 "`it's`" 38 13 119)) (mkPtok 40 "," 38 20 120)))); (mkFieldWithAttr (mkSpan (mkPtok 36 "repeat" 38 21 121) (mkPtok 40 "," 59 3 172)) [] (InerObjectField (mkSpan (mkPtok 36 "repeat" 38 21 121) (mkPtok 40 "," 59 3 172)) (Some (mkPtok 36 "repeat" 38 21 121)) (InerObjectDecl (mkSpan (mkPtok 42 "calculatedFrom" 38 28 122) (mkPtok 3 "}" 59 2 171)) (mkPtok 42 "calculatedFrom" 38 28 122) (mkPtok 2 "{" 40 4 124) [(MatchField (mkSpan (mkPtok 38 "match" 43 0 127) (mkPtok 40 "," 51 18 157)) (mkMatchFieldDecl (mkSpan (mkPtok 38 "match" 43 0 127) (mkPtok 3 "}" 51 17 156)) (mkPtok 38 "match" 43 0 127) (mkPtok 42 "repeatCount" 43 6 128) (mkPtok 17 "as" 43 18 129) (mkPtok 42 "len" 44 0 130) (mkPtok 2 "{" 44 4 131) [(mkMatchPair (mkSpan (mkPtok 30 "7" 44 6 132) (mkPtok 40 "," 45 0 136)) (MKDigits (mkPtok 30 "7" 44 6 132)) (mkPtok 39 ":" 44 7 133) (mkPtok 42 "lengthOf" 44 9 134) (Some (mkPtok 40 "," 45 0 136))); (mkMatchPair (mkSpan (mkPtok 18 "[" 45 2 137) (mkPtok 40 "," 46 4 142)) (MKList (mkKeyList (mkSpan (mkPtok 18 "[" 45 2 137) (mkPtok 13 "]" 45 11 139)) (mkPtok 18 "[" 45 2 137) (mkPtok 31 (string_of_bytes [34; 195; 169; 116; 195; 169; 34]%N) 45 5 138) [] (mkPtok 13 "]" 45 11 139))) (mkPtok 39 ":" 45 13 140) (mkPtok 42 "MetaDataX" 45 15 141) (Some (mkPtok 40 "," 46 4 142))); (mkMatchPair (mkSpan (mkPtok 31 """abc""" 46 6 143) (mkPtok 40 "," 49 0 148)) (MKString (mkPtok 31 """abc""" 46 6 143)) (mkPtok 39 ":" 46 11 144) (mkPtok 42 "Packet" 46 13 145) (Some (mkPtok 40 "," 49 0 148))); (mkMatchPair (mkSpan (mkPtok 30 "65535" 50 0 149) (mkPtok 40 "," 50 13 152)) (MKDigits (mkPtok 30 "65535" 50 0 149)) (mkPtok 39 ":" 50 6 150) (mkPtok 42 "i64_" 50 8 151) (Some (mkPtok 40 "," 50 13 152))); (mkMatchPair (mkSpan (mkPtok 30 "007" 51 4 153) (mkPtok 42 "Packet" 51 10 155)) (MKDigits (mkPtok 30 "007" 51 4 153)) (mkPtok 39 ":" 51 8 154) (mkPtok 42 "Packet" 51 10 155) None)] (mkPtok 3 "}" 51 17 156)) (mkPtok 40 "," 51 18 157)); (ObjectField (mkSpan (mkPtok 42 "stringy" 51 21 158) (mkPtok 40 "," 53 0 162)) None (mkPtok 42 "stringy" 51 21 158) (Some (mkPtok 42 "o" 51 29 159)) (Some (mkPtok 43 (string_of_bytes [96; 10; 96]%N) 51 32 160)) (mkPtok 40 "," 53 0 162)); (MetaField (mkSpan (mkPtok 14 "zchar[" 53 1 163) (mkPtok 40 "," 59 0 170)) None (mkMetaDecl (mkSpan (mkPtok 14 "zchar[" 53 1 163) (mkPtok 40 "," 59 0 170)) (TyFixed (mkSpan (mkPtok 14 "zchar[" 53 1 163) (mkPtok 13 "]" 55 4 166)) (mkFixedString (mkSpan (mkPtok 14 "zchar[" 53 1 163) (mkPtok 13 "]" 55 4 166)) (mkPtok 14 "zchar[" 53 1 163) (mkPtok 30 "7" 54 0 165) (mkPtok 13 "]" 55 4 166))) (mkPtok 42 "u" 56 4 167) None (mkPtok 40 "," 59 0 170)))] (mkPtok 3 "}" 59 2 171)) (mkPtok 40 "," 59 3 172))); (mkFieldWithAttr (mkSpan (mkPtok 7 "@lengthOf(" 59 5 173) (mkPtok 40 "," 61 33 186)) [(FALengthOf (mkSpan (mkPtok 7 "@lengthOf(" 59 5 173) (mkPtok 6 ")" 60 4 175)) (mkLengthOf (mkSpan (mkPtok 7 "@lengthOf(" 59 5 173) (mkPtok 6 ")" 60 4 175)) (mkPtok 7 "@lengthOf(" 59 5 173) (mkPtok 42 "lengthOf" 59 15 174) (mkPtok 6 ")" 60 4 175)))] (MatchField (mkSpan (mkPtok 38 "match" 61 0 176) (mkPtok 40 "," 61 33 186)) (mkMatchFieldDecl (mkSpan (mkPtok 38 "match" 61 0 176) (mkPtok 3 "}" 61 31 185)) (mkPtok 38 "match" 61 0 176) (mkPtok 42 "f32a" 61 6 177) (mkPtok 17 "as" 61 11 178) (mkPtok 42 "Z9_" 61 15 179) (mkPtok 2 "{" 61 19 180) [(mkMatchPair (mkSpan (mkPtok 31 """1""" 61 21 181) (mkPtok 40 "," 61 30 184)) (MKString (mkPtok 31 """1""" 61 21 181)) (mkPtok 39 ":" 61 25 182) (mkPtok 42 "o" 61 27 183) (Some (mkPtok 40 "," 61 30 184)))] (mkPtok 3 "}" 61 31 185)) (mkPtok 40 "," 61 33 186)))] (mkPtok 3 "}" 61 35 187))); (DPacket (mkPacketDef (mkSpan (mkPtok 35 "packet" 62 0 188) (mkPtok 3 "}" 62 14 191)) None (mkPtok 35 "packet" 62 0 188) (mkPtok 42 "body" 62 7 189) (mkPtok 2 "{" 62 12 190) [] (mkPtok 3 "}" 62 14 191))); (DPacket (mkPacketDef (mkSpan (mkPtok 34 "root" 63 0 193) (mkPtok 3 "}" 101 0 310)) (Some (mkPtok 34 "root" 63 0 193)) (mkPtok 35 "packet" 63 5 194) (mkPtok 42 "Z9_" 64 4 195) (mkPtok 2 "{" 65 4 196) [(mkFieldWithAttr (mkSpan (mkPtok 38 "match" 66 0 197) (mkPtok 40 "," 68 4 208)) [] (MatchField (mkSpan (mkPtok 38 "match" 66 0 197) (mkPtok 40 "," 68 4 208)) (mkMatchFieldDecl (mkSpan (mkPtok 38 "match" 66 0 197) (mkPtok 3 "}" 67 13 207)) (mkPtok 38 "match" 66 0 197) (mkPtok 42 "packetx" 66 6 198) (mkPtok 17 "as" 66 14 199) (mkPtok 42 "f32a" 66 17 200) (mkPtok 2 "{" 66 22 201) [(mkMatchPair (mkSpan (mkPtok 30 "0" 66 24 202) (mkPtok 40 "," 67 11 206)) (MKDigits (mkPtok 30 "0" 66 24 202)) (mkPtok 39 ":" 67 0 204) (mkPtok 42 "metadata" 67 2 205) (Some (mkPtok 40 "," 67 11 206)))] (mkPtok 3 "}" 67 13 207)) (mkPtok 40 "," 68 4 208))); (mkFieldWithAttr (mkSpan (mkPtok 16 "char[]" 68 6 209) (mkPtok 40 "," 71 4 213)) [] (MetaField (mkSpan (mkPtok 16 "char[]" 68 6 209) (mkPtok 40 "," 71 4 213)) None (mkMetaDecl (mkSpan (mkPtok 16 "char[]" 68 6 209) (mkPtok 40 "," 71 4 213)) (TyDynamic (mkSpan (mkPtok 16 "char[]" 68 6 209) (mkPtok 16 "char[]" 68 6 209)) (mkDynamicString (mkSpan (mkPtok 16 "char[]" 68 6 209) (mkPtok 16 "char[]" 68 6 209)) (mkPtok 16 "char[]" 68 6 209))) (mkPtok 42 "leftPad" 68 13 210) (Some (mkPtok 43 "``" 69 4 211)) (mkPtok 40 "," 71 4 213)))); (mkFieldWithAttr (mkSpan (mkPtok 36 "repeat" 71 5 214) (mkPtok 40 "," 72 29 218)) [] (MetaField (mkSpan (mkPtok 36 "repeat" 71 5 214) (mkPtok 40 "," 72 29 218)) (Some (mkPtok 36 "repeat" 71 5 214)) (mkMetaDecl (mkSpan (mkPtok 20 "uint8" 72 4 215) (mkPtok 40 "," 72 29 218)) (TyBasic (mkSpan (mkPtok 20 "uint8" 72 4 215) (mkPtok 20 "uint8" 72 4 215)) (mkBasicType (mkSpan (mkPtok 20 "uint8" 72 4 215) (mkPtok 20 "uint8" 72 4 215)) (mkPtok 20 "uint8" 72 4 215))) (mkPtok 42 "x_y_z" 72 10 216) (Some (mkPtok 43 "`100% of %d`" 72 15 217)) (mkPtok 40 "," 72 29 218)))); (mkFieldWithAttr (mkSpan (mkPtok 15 "string" 73 0 219) (mkPtok 40 "," 74 5 224)) [] (CheckSumField (mkSpan (mkPtok 15 "string" 73 0 219) (mkPtok 40 "," 74 5 224)) (mkChecksumFieldDecl (mkSpan (mkPtok 15 "string" 73 0 219) (mkPtok 40 "," 74 5 224)) (Some (TyDynamic (mkSpan (mkPtok 15 "string" 73 0 219) (mkPtok 15 "string" 73 0 219)) (mkDynamicString (mkSpan (mkPtok 15 "string" 73 0 219) (mkPtok 15 "string" 73 0 219)) (mkPtok 15 "string" 73 0 219)))) (mkPtok 42 "BodyLength" 73 7 220) (mkCalculatedFrom (mkSpan (mkPtok 5 "@calculatedFrom(" 73 17 221) (mkPtok 6 ")" 74 3 223)) (mkPtok 5 "@calculatedFrom(" 73 17 221) (mkPtok 31 (string_of_bytes [34; 240; 159; 152; 128; 34]%N) 74 0 222) (mkPtok 6 ")" 74 3 223)) None (mkPtok 40 "," 74 5 224)))); (mkFieldWithAttr (mkSpan (mkPtok 42 "Pad" 74 7 225) (mkPtok 40 "," 74 11 226)) [] (ObjectField (mkSpan (mkPtok 42 "Pad" 74 7 225) (mkPtok 40 "," 74 11 226)) None (mkPtok 42 "Pad" 74 7 225) None None (mkPtok 40 "," 74 11 226))); (mkFieldWithAttr (mkSpan (mkPtok 9 "@tag(" 74 13 227) (mkPtok 40 "," 83 8 247)) [(FATag (mkSpan (mkPtok 9 "@tag(" 74 13 227) (mkPtok 6 ")" 75 8 229)) (mkTagAttr (mkSpan (mkPtok 9 "@tag(" 74 13 227) (mkPtok 6 ")" 75 8 229)) (mkPtok 9 "@tag(" 74 13 227) (mkPtok 30 "255" 75 4 228) (mkPtok 6 ")" 75 8 229))); (FALengthOf (mkSpan (mkPtok 7 "@lengthOf(" 76 4 230) (mkPtok 6 ")" 79 6 234)) (mkLengthOf (mkSpan (mkPtok 7 "@lengthOf(" 76 4 230) (mkPtok 6 ")" 79 6 234)) (mkPtok 7 "@lengthOf(" 76 4 230) (mkPtok 42 "roots" 79 0 233) (mkPtok 6 ")" 79 6 234))); (FACalculatedFrom (mkSpan (mkPtok 5 "@calculatedFrom(" 79 8 235) (mkPtok 6 ")" 80 0 237)) (mkCalculatedFrom (mkSpan (mkPtok 5 "@calculatedFrom(" 79 8 235) (mkPtok 6 ")" 80 0 237)) (mkPtok 5 "@calculatedFrom(" 79 8 235) (mkPtok 31 (string_of_bytes [34; 240; 159; 152; 128; 34]%N) 79 26 236) (mkPtok 6 ")" 80 0 237)))] (InerObjectField (mkSpan (mkPtok 36 "repeat" 81 4 238) (mkPtok 40 "," 83 8 247)) (Some (mkPtok 36 "repeat" 81 4 238)) (InerObjectDecl (mkSpan (mkPtok 42 "crc" 81 11 239) (mkPtok 3 "}" 83 6 246)) (mkPtok 42 "crc" 81 11 239) (mkPtok 2 "{" 81 15 240) [(MetaField (mkSpan (mkPtok 36 "repeat" 81 17 241) (mkPtok 40 "," 83 4 245)) (Some (mkPtok 36 "repeat" 81 17 241)) (mkMetaDecl (mkSpan (mkPtok 19 "char" 81 24 242) (mkPtok 40 "," 83 4 245)) (TyBasic (mkSpan (mkPtok 19 "char" 81 24 242) (mkPtok 19 "char" 81 24 242)) (mkBasicType (mkSpan (mkPtok 19 "char" 81 24 242) (mkPtok 19 "char" 81 24 242)) (mkPtok 19 "char" 81 24 242))) (mkPtok 42 "trueish" 82 0 244) None (mkPtok 40 "," 83 4 245)))] (mkPtok 3 "}" 83 6 246)) (mkPtok 40 "," 83 8 247))); (mkFieldWithAttr (mkSpan (mkPtok 14 "zchar[" 84 4 248) (mkPtok 40 "," 86 26 255)) [] (CheckSumField (mkSpan (mkPtok 14 "zchar[" 84 4 248) (mkPtok 40 "," 86 26 255)) (mkChecksumFieldDecl (mkSpan (mkPtok 14 "zchar[" 84 4 248) (mkPtok 40 "," 86 26 255)) (Some (TyFixed (mkSpan (mkPtok 14 "zchar[" 84 4 248) (mkPtok 13 "]" 85 15 250)) (mkFixedString (mkSpan (mkPtok 14 "zchar[" 84 4 248) (mkPtok 13 "]" 85 15 250)) (mkPtok 14 "zchar[" 84 4 248) (mkPtok 30 "4294967296" 85 4 249) (mkPtok 13 "]" 85 15 250)))) (mkPtok 42 "options1" 85 16 251) (mkCalculatedFrom (mkSpan (mkPtok 5 "@calculatedFrom(" 86 0 252) (mkPtok 6 ")" 86 24 254)) (mkPtok 5 "@calculatedFrom(" 86 0 252) (mkPtok 31 """CRC32""" 86 16 253) (mkPtok 6 ")" 86 24 254)) None (mkPtok 40 "," 86 26 255)))); (mkFieldWithAttr (mkSpan (mkPtok 38 "match" 87 0 257) (mkPtok 40 "," 98 2 291)) [] (MatchField (mkSpan (mkPtok 38 "match" 87 0 257) (mkPtok 40 "," 98 2 291)) (mkMatchFieldDecl (mkSpan (mkPtok 38 "match" 87 0 257) (mkPtok 3 "}" 98 0 290)) (mkPtok 38 "match" 87 0 257) (mkPtok 42 "packetx" 87 6 258) (mkPtok 17 "as" 87 14 259) (mkPtok 42 "lengthOf" 87 17 260) (mkPtok 2 "{" 87 26 261) [(mkMatchPair (mkSpan (mkPtok 31 """a\""b""" 87 28 262) (mkPtok 40 "," 87 47 265)) (MKString (mkPtok 31 """a\""b""" 87 28 262)) (mkPtok 39 ":" 87 36 263) (mkPtok 42 "options1" 87 38 264) (Some (mkPtok 40 "," 87 47 265))); (mkMatchPair (mkSpan (mkPtok 30 "0123456789" 90 0 268) (mkPtok 40 "," 92 0 271)) (MKDigits (mkPtok 30 "0123456789" 90 0 268)) (mkPtok 39 ":" 91 0 269) (mkPtok 42 "Foo" 91 2 270) (Some (mkPtok 40 "," 92 0 271))); (mkMatchPair (mkSpan (mkPtok 31 """a\\""" 92 3 272) (mkPtok 40 "," 92 18 275)) (MKString (mkPtok 31 """a\\""" 92 3 272)) (mkPtok 39 ":" 92 8 273) (mkPtok 42 "trueish" 92 10 274) (Some (mkPtok 40 "," 92 18 275))); (mkMatchPair (mkSpan (mkPtok 30 "3" 92 20 276) (mkPtok 40 "," 94 12 279)) (MKDigits (mkPtok 30 "3" 92 20 276)) (mkPtok 39 ":" 93 4 277) (mkPtok 42 "string_" 94 4 278) (Some (mkPtok 40 "," 94 12 279))); (mkMatchPair (mkSpan (mkPtok 31 """\n""" 94 14 280) (mkPtok 40 "," 96 10 284)) (MKString (mkPtok 31 """\n""" 94 14 280)) (mkPtok 39 ":" 94 19 281) (mkPtok 42 "zchar" 96 4 283) (Some (mkPtok 40 "," 96 10 284))); (mkMatchPair (mkSpan (mkPtok 18 "[" 96 12 285) (mkPtok 42 "u128" 97 2 289)) (MKList (mkKeyList (mkSpan (mkPtok 18 "[" 96 12 285) (mkPtok 13 "]" 96 20 287)) (mkPtok 18 "[" 96 12 285) (mkPtok 30 "65535" 96 14 286) [] (mkPtok 13 "]" 96 20 287))) (mkPtok 39 ":" 97 0 288) (mkPtok 42 "u128" 97 2 289) None)] (mkPtok 3 "}" 98 0 290)) (mkPtok 40 "," 98 2 291))); (mkFieldWithAttr (mkSpan (mkPtok 9 "@tag(" 98 3 292) (mkPtok 40 "," 98 42 301)) [(FATag (mkSpan (mkPtok 9 "@tag(" 98 3 292) (mkPtok 6 ")" 98 12 294)) (mkTagAttr (mkSpan (mkPtok 9 "@tag(" 98 3 292) (mkPtok 6 ")" 98 12 294)) (mkPtok 9 "@tag(" 98 3 292) (mkPtok 30 "42" 98 9 293) (mkPtok 6 ")" 98 12 294))); (FAPadding (mkSpan (mkPtok 32 "@leftPad" 98 14 295) (mkPtok 6 ")" 98 32 298)) (mkPaddingAttr (mkSpan (mkPtok 32 "@leftPad" 98 14 295) (mkPtok 6 ")" 98 32 298)) (mkPtok 32 "@leftPad" 98 14 295) (mkPtok 8 "(" 98 23 296) (Some (mkPtok 33 "'\x00'" 98 25 297)) (mkPtok 6 ")" 98 32 298)))] (MetaField (mkSpan (mkPtok 25 "i16" 98 34 299) (mkPtok 40 "," 98 42 301)) None (mkMetaDecl (mkSpan (mkPtok 25 "i16" 98 34 299) (mkPtok 40 "," 98 42 301)) (TyBasic (mkSpan (mkPtok 25 "i16" 98 34 299) (mkPtok 25 "i16" 98 34 299)) (mkBasicType (mkSpan (mkPtok 25 "i16" 98 34 299) (mkPtok 25 "i16" 98 34 299)) (mkPtok 25 "i16" 98 34 299))) (mkPtok 42 "crc" 98 38 300) None (mkPtok 40 "," 98 42 301)))); (mkFieldWithAttr (mkSpan (mkPtok 14 "zchar[" 99 4 302) (mkPtok 40 "," 100 0 309)) [] (LengthField (mkSpan (mkPtok 14 "zchar[" 99 4 302) (mkPtok 40 "," 100 0 309)) (mkLengthFieldDecl (mkSpan (mkPtok 14 "zchar[" 99 4 302) (mkPtok 40 "," 100 0 309)) (Some (TyFixed (mkSpan (mkPtok 14 "zchar[" 99 4 302) (mkPtok 13 "]" 99 11 304)) (mkFixedString (mkSpan (mkPtok 14 "zchar[" 99 4 302) (mkPtok 13 "]" 99 11 304)) (mkPtok 14 "zchar[" 99 4 302) (mkPtok 30 "7" 99 10 303) (mkPtok 13 "]" 99 11 304)))) (mkPtok 42 "_x" 99 13 305) (mkLengthOf (mkSpan (mkPtok 7 "@lengthOf(" 99 17 306) (mkPtok 6 ")" 99 35 308)) (mkPtok 7 "@lengthOf(" 99 17 306) (mkPtok 42 "falsey" 99 27 307) (mkPtok 6 ")" 99 35 308)) None (mkPtok 40 "," 100 0 309))))] (mkPtok 3 "}" 101 0 310)))])).
Eval vm_compute in ("<<<M661>>>" ++ check (runes_of_ascii "options{ roots
=
    65535;
    }options { repeatCount =""" ++ [28040; 24687]%N ++ runes_of_ascii """ i64_
// " ++ [128512]%N ++ runes_of_ascii " emoji
// `tick` ""quote"" 'q'
=
    zchar[ 0123456789 ] i64_=""""pack
// packet A { u8 x, }
// " ++ [27880; 37322]%N ++ runes_of_ascii "
= true
    } packet rootA{
    // " ++ [128512]%N ++ runes_of_ascii " emoji
    msg_type { int32 trueish@lengthOf( asx ) `crlf
line` ,a1 @lengthOf(
    leftPad // a // b
)  ,	}// `tick` ""quote"" 'q'
, i64	repeatCount ,
u32	float
@lengthOf( float
    )
, pack  { leftPad	, } ,packetx As ,
}
// packet A { u8 x, }
// 50% %s
packet pack{
match
A as msg_type { 007  : Logon , // " ++ [27880; 37322]%N ++ runes_of_ascii "
[""CRC32"",007 , 10,
    // @lengthOf(
    7
    , ""CRC32""] : lengthOf
[
""packet""] : string_ ,""x y"": Z9_
    , }
/// triple
// @lengthOf(
,
tag ,chars @lengthOf( float ) , }")).
Eval vm_compute in ("<<<M693>>>" ++ check (runes_of_ascii "packet
    f32a
{
@lengthOf(stringy
    ) // trailing space 
char[42 ] // c
body , trueish o ,char[] rootA @calculatedFrom(
""// no comment""
)
``
    , calculatedFrom `crlf
line` ,}  MetaData	o {i8i8 i8i8 `100% of %d`, msg_type	Z9_ , // " ++ [27880; 37322]%N ++ runes_of_ascii "
uint32 matchKey
, // a // b
} options  { crc
    = char[]
    ; } // @lengthOf(")).
Eval vm_compute in ("<<<M725>>>" ++ check (runes_of_ascii "MetaData trueish {string //
f32a `` ,  char MetaDataX , stringy string_`100% of %d`,zchar[
7 ]
A , } // " ++ [128512]%N ++ runes_of_ascii " emoji")).
Eval vm_compute in ("<<<M757>>>" ++ check (runes_of_ascii "  packet asx
{  repeat lengthOf {f32 matchKey `" ++ [28040; 24687; 31867; 22411]%N ++ runes_of_ascii "`, } , @leftPad
( ) match
a1
    as asx { [ ""\" ++ [233]%N ++ runes_of_ascii """ ,10
    , ""it's""
, ""a\\""]
/// triple
// trailing space 
: metadata ,
[
42	]:
    crc , 42 :	metadata , 10 :
// c
/// triple
_x ,} , @lengthOf( options1 )
match pack as len { 7
:
    Z9_  ,
    // packet A { u8 x, }
    0
: i64_
, 65535: u8x ,  4294967296 :
    packetx,	[
""x y""  ,
/// triple
// @lengthOf(
""packet"" , ""CRC32"", 00  ,  1,
00
    // a // b
    , ""CRC32"" ]
    :T ,
}, @rightPad (' ' )
@leftPad
    ( '\x00' )
@tag( 00
    ) i32 pack, @leftPad ('0' )	lengthOf @calculatedFrom(""\n""
)
    , uint64 float `100% of %d` , }
    // trailing space 
    options { }")).
Eval vm_compute in ("<<<M789>>>" ++ check (runes_of_ascii "options
// " ++ [128512]%N ++ runes_of_ascii " emoji
//	t
{
//
// c
} MetaData
    /// triple
    float
{
zchar//	t
f32a
,
    } MetaData packetx { i64_
// @lengthOf(
//x
trueish`" ++ [233]%N ++ runes_of_ascii "` , }")).
Eval vm_compute in ("<<<M821>>>" ++ check (runes_of_ascii "options { } packet i8i8 {
    //x
    }	root packet crc {
@calculatedFrom( // 50% %s
""a\\"" )
    @calculatedFrom( ""// no comment"" )	@calculatedFrom( ""packet"") repeat As {
// a // b
// c
zchar[ 7] falsey // @lengthOf(
@lengthOf( // " ++ [128512]%N ++ runes_of_ascii " emoji
int ) ,
    repeat zchar[	007 ] i8i8
`line1
line2`
    ,  } , repeat
Logon { Foo @lengthOf(
//
// c
chars ) ,match matchKey as Pad{ 42:// 50% %s
i8i8 ,
} // `tick` ""quote"" 'q'
, }  , }
")).
Eval vm_compute in ("<<<M853>>>" ++ check (runes_of_ascii "root packet chars
// 50% %s
/// triple
{ // a // b
repeat u , asx // c
@lengthOf( chars
)	, i32 rootA , @leftPad ( )
    msg_type
,i64 u128, @lengthOf(Logon ) // `tick` ""quote"" 'q'
@rightPad // trailing space 
(
    //x
    ) char[ 1]
roots//	t
,
@tag(	1 ) int @calculatedFrom(  ""CRC32"") `tab	here` ,repeat
repeatCount float,char[ 65535 ] Packet
    `// not a comment` , @lengthOf(Header)//x
repeat string Pad`u8 x,`,} packet
    // packet A { u8 x, }
    metadata
// packet A { u8 x, }
// `tick` ""quote"" 'q'
{x Packet ,
    repeat
u64 /// triple
string_ `doc` // `tick` ""quote"" 'q'
,
repeat/// triple
Packet , @tag(
65535) zchar[  1
] pack@lengthOf( zchar
    ) `a\` //
,rootA matchKey`two words` , @rightPad(
    )stringy o
, }
")).
Eval vm_compute in ("<<<T853>>>" ++ terms [mkTok 34 "root" 1 0 false; mkTok 35 "packet" 1 5 false; mkTok 42 "chars" 1 12 false; mkTok 44 "// 50% %s" 2 0 true; mkTok 44 "/// triple" 3 0 true; mkTok 2 "{" 4 0 false; mkTok 44 "// a // b" 4 2 true; mkTok 36 "repeat" 5 0 false; mkTok 42 "u" 5 7 false; mkTok 40 "," 5 9 false; mkTok 42 "asx" 5 11 false; mkTok 44 "// c" 5 15 true; mkTok 7 "@lengthOf(" 6 0 false; mkTok 42 "chars" 6 11 false; mkTok 6 ")" 7 0 false; mkTok 40 "," 7 2 false; mkTok 26 "i32" 7 4 false; mkTok 42 "rootA" 7 8 false; mkTok 40 "," 7 14 false; mkTok 32 "@leftPad" 7 16 false; mkTok 8 "(" 7 25 false; mkTok 6 ")" 7 27 false; mkTok 42 "msg_type" 8 4 false; mkTok 40 "," 9 0 false; mkTok 27 "i64" 9 1 false; mkTok 42 "u128" 9 5 false; mkTok 40 "," 9 9 false; mkTok 7 "@lengthOf(" 9 11 false; mkTok 42 "Logon" 9 21 false; mkTok 6 ")" 9 27 false; mkTok 44 "// `tick` ""quote"" 'q'" 9 29 true; mkTok 32 "@rightPad" 10 0 false; mkTok 44 "// trailing space " 10 10 true; mkTok 8 "(" 11 0 false; mkTok 44 "//x" 12 4 true; mkTok 6 ")" 13 4 false; mkTok 12 "char[" 13 6 false; mkTok 30 "1" 13 12 false; mkTok 13 "]" 13 13 false; mkTok 42 "roots" 14 0 false; mkTok 44 (string_of_bytes [47; 47; 9; 116]%N) 14 5 true; mkTok 40 "," 15 0 false; mkTok 9 "@tag(" 16 0 false; mkTok 30 "1" 16 6 false; mkTok 6 ")" 16 8 false; mkTok 42 "int" 16 10 false; mkTok 5 "@calculatedFrom(" 16 14 false; mkTok 31 """CRC32""" 16 32 false; mkTok 6 ")" 16 39 false; mkTok 43 (string_of_bytes [96; 116; 97; 98; 9; 104; 101; 114; 101; 96]%N) 16 41 false; mkTok 40 "," 16 52 false; mkTok 36 "repeat" 16 53 false; mkTok 42 "repeatCount" 17 0 false; mkTok 42 "float" 17 12 false; mkTok 40 "," 17 17 false; mkTok 12 "char[" 17 18 false; mkTok 30 "65535" 17 24 false; mkTok 13 "]" 17 30 false; mkTok 42 "Packet" 17 32 false; mkTok 43 "`// not a comment`" 18 4 false; mkTok 40 "," 18 23 false; mkTok 7 "@lengthOf(" 18 25 false; mkTok 42 "Header" 18 35 false; mkTok 6 ")" 18 41 false; mkTok 44 "//x" 18 42 true; mkTok 36 "repeat" 19 0 false; mkTok 15 "string" 19 7 false; mkTok 42 "Pad" 19 14 false; mkTok 43 "`u8 x,`" 19 17 false; mkTok 40 "," 19 24 false; mkTok 3 "}" 19 25 false; mkTok 35 "packet" 19 27 false; mkTok 44 "// packet A { u8 x, }" 20 4 true; mkTok 42 "metadata" 21 4 false; mkTok 44 "// packet A { u8 x, }" 22 0 true; mkTok 44 "// `tick` ""quote"" 'q'" 23 0 true; mkTok 2 "{" 24 0 false; mkTok 42 "x" 24 1 false; mkTok 42 "Packet" 24 3 false; mkTok 40 "," 24 10 false; mkTok 36 "repeat" 25 4 false; mkTok 23 "u64" 26 0 false; mkTok 44 "/// triple" 26 4 true; mkTok 42 "string_" 27 0 false; mkTok 43 "`doc`" 27 8 false; mkTok 44 "// `tick` ""quote"" 'q'" 27 14 true; mkTok 40 "," 28 0 false; mkTok 36 "repeat" 29 0 false; mkTok 44 "/// triple" 29 6 true; mkTok 42 "Packet" 30 0 false; mkTok 40 "," 30 7 false; mkTok 9 "@tag(" 30 9 false; mkTok 30 "65535" 31 0 false; mkTok 6 ")" 31 5 false; mkTok 14 "zchar[" 31 7 false; mkTok 30 "1" 31 15 false; mkTok 13 "]" 32 0 false; mkTok 42 "pack" 32 2 false; mkTok 7 "@lengthOf(" 32 6 false; mkTok 42 "zchar" 32 17 false; mkTok 6 ")" 33 4 false; mkTok 43 "`a\`" 33 6 false; mkTok 44 "//" 33 11 true; mkTok 40 "," 34 0 false; mkTok 42 "rootA" 34 1 false; mkTok 42 "matchKey" 34 7 false; mkTok 43 "`two words`" 34 15 false; mkTok 40 "," 34 27 false; mkTok 32 "@rightPad" 34 29 false; mkTok 8 "(" 34 38 false; mkTok 6 ")" 35 4 false; mkTok 42 "stringy" 35 5 false; mkTok 42 "o" 35 13 false; mkTok 40 "," 36 0 false; mkTok 3 "}" 36 2 false; mkTok 0 "<EOF>" 37 0 false] (mkPacket (mkPtok 34 "root" 1 0 0) (Some (mkPtok 3 "}" 36 2 114)) [(DPacket (mkPacketDef (mkSpan (mkPtok 34 "root" 1 0 0) (mkPtok 3 "}" 19 25 70)) (Some (mkPtok 34 "root" 1 0 0)) (mkPtok 35 "packet" 1 5 1) (mkPtok 42 "chars" 1 12 2) (mkPtok 2 "{" 4 0 5) [(mkFieldWithAttr (mkSpan (mkPtok 36 "repeat" 5 0 7) (mkPtok 40 "," 5 9 9)) [] (ObjectField (mkSpan (mkPtok 36 "repeat" 5 0 7) (mkPtok 40 "," 5 9 9)) (Some (mkPtok 36 "repeat" 5 0 7)) (mkPtok 42 "u" 5 7 8) None None (mkPtok 40 "," 5 9 9))); (mkFieldWithAttr (mkSpan (mkPtok 42 "asx" 5 11 10) (mkPtok 40 "," 7 2 15)) [] (LengthField (mkSpan (mkPtok 42 "asx" 5 11 10) (mkPtok 40 "," 7 2 15)) (mkLengthFieldDecl (mkSpan (mkPtok 42 "asx" 5 11 10) (mkPtok 40 "," 7 2 15)) None (mkPtok 42 "asx" 5 11 10) (mkLengthOf (mkSpan (mkPtok 7 "@lengthOf(" 6 0 12) (mkPtok 6 ")" 7 0 14)) (mkPtok 7 "@lengthOf(" 6 0 12) (mkPtok 42 "chars" 6 11 13) (mkPtok 6 ")" 7 0 14)) None (mkPtok 40 "," 7 2 15)))); (mkFieldWithAttr (mkSpan (mkPtok 26 "i32" 7 4 16) (mkPtok 40 "," 7 14 18)) [] (MetaField (mkSpan (mkPtok 26 "i32" 7 4 16) (mkPtok 40 "," 7 14 18)) None (mkMetaDecl (mkSpan (mkPtok 26 "i32" 7 4 16) (mkPtok 40 "," 7 14 18)) (TyBasic (mkSpan (mkPtok 26 "i32" 7 4 16) (mkPtok 26 "i32" 7 4 16)) (mkBasicType (mkSpan (mkPtok 26 "i32" 7 4 16) (mkPtok 26 "i32" 7 4 16)) (mkPtok 26 "i32" 7 4 16))) (mkPtok 42 "rootA" 7 8 17) None (mkPtok 40 "," 7 14 18)))); (mkFieldWithAttr (mkSpan (mkPtok 32 "@leftPad" 7 16 19) (mkPtok 40 "," 9 0 23)) [(FAPadding (mkSpan (mkPtok 32 "@leftPad" 7 16 19) (mkPtok 6 ")" 7 27 21)) (mkPaddingAttr (mkSpan (mkPtok 32 "@leftPad" 7 16 19) (mkPtok 6 ")" 7 27 21)) (mkPtok 32 "@leftPad" 7 16 19) (mkPtok 8 "(" 7 25 20) None (mkPtok 6 ")" 7 27 21)))] (ObjectField (mkSpan (mkPtok 42 "msg_type" 8 4 22) (mkPtok 40 "," 9 0 23)) None (mkPtok 42 "msg_type" 8 4 22) None None (mkPtok 40 "," 9 0 23))); (mkFieldWithAttr (mkSpan (mkPtok 27 "i64" 9 1 24) (mkPtok 40 "," 9 9 26)) [] (MetaField (mkSpan (mkPtok 27 "i64" 9 1 24) (mkPtok 40 "," 9 9 26)) None (mkMetaDecl (mkSpan (mkPtok 27 "i64" 9 1 24) (mkPtok 40 "," 9 9 26)) (TyBasic (mkSpan (mkPtok 27 "i64" 9 1 24) (mkPtok 27 "i64" 9 1 24)) (mkBasicType (mkSpan (mkPtok 27 "i64" 9 1 24) (mkPtok 27 "i64" 9 1 24)) (mkPtok 27 "i64" 9 1 24))) (mkPtok 42 "u128" 9 5 25) None (mkPtok 40 "," 9 9 26)))); (mkFieldWithAttr (mkSpan (mkPtok 7 "@lengthOf(" 9 11 27) (mkPtok 40 "," 15 0 41)) [(FALengthOf (mkSpan (mkPtok 7 "@lengthOf(" 9 11 27) (mkPtok 6 ")" 9 27 29)) (mkLengthOf (mkSpan (mkPtok 7 "@lengthOf(" 9 11 27) (mkPtok 6 ")" 9 27 29)) (mkPtok 7 "@lengthOf(" 9 11 27) (mkPtok 42 "Logon" 9 21 28) (mkPtok 6 ")" 9 27 29))); (FAPadding (mkSpan (mkPtok 32 "@rightPad" 10 0 31) (mkPtok 6 ")" 13 4 35)) (mkPaddingAttr (mkSpan (mkPtok 32 "@rightPad" 10 0 31) (mkPtok 6 ")" 13 4 35)) (mkPtok 32 "@rightPad" 10 0 31) (mkPtok 8 "(" 11 0 33) None (mkPtok 6 ")" 13 4 35)))] (MetaField (mkSpan (mkPtok 12 "char[" 13 6 36) (mkPtok 40 "," 15 0 41)) None (mkMetaDecl (mkSpan (mkPtok 12 "char[" 13 6 36) (mkPtok 40 "," 15 0 41)) (TyFixed (mkSpan (mkPtok 12 "char[" 13 6 36) (mkPtok 13 "]" 13 13 38)) (mkFixedString (mkSpan (mkPtok 12 "char[" 13 6 36) (mkPtok 13 "]" 13 13 38)) (mkPtok 12 "char[" 13 6 36) (mkPtok 30 "1" 13 12 37) (mkPtok 13 "]" 13 13 38))) (mkPtok 42 "roots" 14 0 39) None (mkPtok 40 "," 15 0 41)))); (mkFieldWithAttr (mkSpan (mkPtok 9 "@tag(" 16 0 42) (mkPtok 40 "," 16 52 50)) [(FATag (mkSpan (mkPtok 9 "@tag(" 16 0 42) (mkPtok 6 ")" 16 8 44)) (mkTagAttr (mkSpan (mkPtok 9 "@tag(" 16 0 42) (mkPtok 6 ")" 16 8 44)) (mkPtok 9 "@tag(" 16 0 42) (mkPtok 30 "1" 16 6 43) (mkPtok 6 ")" 16 8 44)))] (CheckSumField (mkSpan (mkPtok 42 "int" 16 10 45) (mkPtok 40 "," 16 52 50)) (mkChecksumFieldDecl (mkSpan (mkPtok 42 "int" 16 10 45) (mkPtok 40 "," 16 52 50)) None (mkPtok 42 "int" 16 10 45) (mkCalculatedFrom (mkSpan (mkPtok 5 "@calculatedFrom(" 16 14 46) (mkPtok 6 ")" 16 39 48)) (mkPtok 5 "@calculatedFrom(" 16 14 46) (mkPtok 31 """CRC32""" 16 32 47) (mkPtok 6 ")" 16 39 48)) (Some (mkPtok 43 (string_of_bytes [96; 116; 97; 98; 9; 104; 101; 114; 101; 96]%N) 16 41 49)) (mkPtok 40 "," 16 52 50)))); (mkFieldWithAttr (mkSpan (mkPtok 36 "repeat" 16 53 51) (mkPtok 40 "," 17 17 54)) [] (ObjectField (mkSpan (mkPtok 36 "repeat" 16 53 51) (mkPtok 40 "," 17 17 54)) (Some (mkPtok 36 "repeat" 16 53 51)) (mkPtok 42 "repeatCount" 17 0 52) (Some (mkPtok 42 "float" 17 12 53)) None (mkPtok 40 "," 17 17 54))); (mkFieldWithAttr (mkSpan (mkPtok 12 "char[" 17 18 55) (mkPtok 40 "," 18 23 60)) [] (MetaField (mkSpan (mkPtok 12 "char[" 17 18 55) (mkPtok 40 "," 18 23 60)) None (mkMetaDecl (mkSpan (mkPtok 12 "char[" 17 18 55) (mkPtok 40 "," 18 23 60)) (TyFixed (mkSpan (mkPtok 12 "char[" 17 18 55) (mkPtok 13 "]" 17 30 57)) (mkFixedString (mkSpan (mkPtok 12 "char[" 17 18 55) (mkPtok 13 "]" 17 30 57)) (mkPtok 12 "char[" 17 18 55) (mkPtok 30 "65535" 17 24 56) (mkPtok 13 "]" 17 30 57))) (mkPtok 42 "Packet" 17 32 58) (Some (mkPtok 43 "`// not a comment`" 18 4 59)) (mkPtok 40 "," 18 23 60)))); (mkFieldWithAttr (mkSpan (mkPtok 7 "@lengthOf(" 18 25 61) (mkPtok 40 "," 19 24 69)) [(FALengthOf (mkSpan (mkPtok 7 "@lengthOf(" 18 25 61) (mkPtok 6 ")" 18 41 63)) (mkLengthOf (mkSpan (mkPtok 7 "@lengthOf(" 18 25 61) (mkPtok 6 ")" 18 41 63)) (mkPtok 7 "@lengthOf(" 18 25 61) (mkPtok 42 "Header" 18 35 62) (mkPtok 6 ")" 18 41 63)))] (MetaField (mkSpan (mkPtok 36 "repeat" 19 0 65) (mkPtok 40 "," 19 24 69)) (Some (mkPtok 36 "repeat" 19 0 65)) (mkMetaDecl (mkSpan (mkPtok 15 "string" 19 7 66) (mkPtok 40 "," 19 24 69)) (TyDynamic (mkSpan (mkPtok 15 "string" 19 7 66) (mkPtok 15 "string" 19 7 66)) (mkDynamicString (mkSpan (mkPtok 15 "string" 19 7 66) (mkPtok 15 "string" 19 7 66)) (mkPtok 15 "string" 19 7 66))) (mkPtok 42 "Pad" 19 14 67) (Some (mkPtok 43 "`u8 x,`" 19 17 68)) (mkPtok 40 "," 19 24 69))))] (mkPtok 3 "}" 19 25 70))); (DPacket (mkPacketDef (mkSpan (mkPtok 35 "packet" 19 27 71) (mkPtok 3 "}" 36 2 114)) None (mkPtok 35 "packet" 19 27 71) (mkPtok 42 "metadata" 21 4 73) (mkPtok 2 "{" 24 0 76) [(mkFieldWithAttr (mkSpan (mkPtok 42 "x" 24 1 77) (mkPtok 40 "," 24 10 79)) [] (ObjectField (mkSpan (mkPtok 42 "x" 24 1 77) (mkPtok 40 "," 24 10 79)) None (mkPtok 42 "x" 24 1 77) (Some (mkPtok 42 "Packet" 24 3 78)) None (mkPtok 40 "," 24 10 79))); (mkFieldWithAttr (mkSpan (mkPtok 36 "repeat" 25 4 80) (mkPtok 40 "," 28 0 86)) [] (MetaField (mkSpan (mkPtok 36 "repeat" 25 4 80) (mkPtok 40 "," 28 0 86)) (Some (mkPtok 36 "repeat" 25 4 80)) (mkMetaDecl (mkSpan (mkPtok 23 "u64" 26 0 81) (mkPtok 40 "," 28 0 86)) (TyBasic (mkSpan (mkPtok 23 "u64" 26 0 81) (mkPtok 23 "u64" 26 0 81)) (mkBasicType (mkSpan (mkPtok 23 "u64" 26 0 81) (mkPtok 23 "u64" 26 0 81)) (mkPtok 23 "u64" 26 0 81))) (mkPtok 42 "string_" 27 0 83) (Some (mkPtok 43 "`doc`" 27 8 84)) (mkPtok 40 "," 28 0 86)))); (mkFieldWithAttr (mkSpan (mkPtok 36 "repeat" 29 0 87) (mkPtok 40 "," 30 7 90)) [] (ObjectField (mkSpan (mkPtok 36 "repeat" 29 0 87) (mkPtok 40 "," 30 7 90)) (Some (mkPtok 36 "repeat" 29 0 87)) (mkPtok 42 "Packet" 30 0 89) None None (mkPtok 40 "," 30 7 90))); (mkFieldWithAttr (mkSpan (mkPtok 9 "@tag(" 30 9 91) (mkPtok 40 "," 34 0 103)) [(FATag (mkSpan (mkPtok 9 "@tag(" 30 9 91) (mkPtok 6 ")" 31 5 93)) (mkTagAttr (mkSpan (mkPtok 9 "@tag(" 30 9 91) (mkPtok 6 ")" 31 5 93)) (mkPtok 9 "@tag(" 30 9 91) (mkPtok 30 "65535" 31 0 92) (mkPtok 6 ")" 31 5 93)))] (LengthField (mkSpan (mkPtok 14 "zchar[" 31 7 94) (mkPtok 40 "," 34 0 103)) (mkLengthFieldDecl (mkSpan (mkPtok 14 "zchar[" 31 7 94) (mkPtok 40 "," 34 0 103)) (Some (TyFixed (mkSpan (mkPtok 14 "zchar[" 31 7 94) (mkPtok 13 "]" 32 0 96)) (mkFixedString (mkSpan (mkPtok 14 "zchar[" 31 7 94) (mkPtok 13 "]" 32 0 96)) (mkPtok 14 "zchar[" 31 7 94) (mkPtok 30 "1" 31 15 95) (mkPtok 13 "]" 32 0 96)))) (mkPtok 42 "pack" 32 2 97) (mkLengthOf (mkSpan (mkPtok 7 "@lengthOf(" 32 6 98) (mkPtok 6 ")" 33 4 100)) (mkPtok 7 "@lengthOf(" 32 6 98) (mkPtok 42 "zchar" 32 17 99) (mkPtok 6 ")" 33 4 100)) (Some (mkPtok 43 "`a\`" 33 6 101)) (mkPtok 40 "," 34 0 103)))); (mkFieldWithAttr (mkSpan (mkPtok 42 "rootA" 34 1 104) (mkPtok 40 "," 34 27 107)) [] (ObjectField (mkSpan (mkPtok 42 "rootA" 34 1 104) (mkPtok 40 "," 34 27 107)) None (mkPtok 42 "rootA" 34 1 104) (Some (mkPtok 42 "matchKey" 34 7 105)) (Some (mkPtok 43 "`two words`" 34 15 106)) (mkPtok 40 "," 34 27 107))); (mkFieldWithAttr (mkSpan (mkPtok 32 "@rightPad" 34 29 108) (mkPtok 40 "," 36 0 113)) [(FAPadding (mkSpan (mkPtok 32 "@rightPad" 34 29 108) (mkPtok 6 ")" 35 4 110)) (mkPaddingAttr (mkSpan (mkPtok 32 "@rightPad" 34 29 108) (mkPtok 6 ")" 35 4 110)) (mkPtok 32 "@rightPad" 34 29 108) (mkPtok 8 "(" 34 38 109) None (mkPtok 6 ")" 35 4 110)))] (ObjectField (mkSpan (mkPtok 42 "stringy" 35 5 111) (mkPtok 40 "," 36 0 113)) None (mkPtok 42 "stringy" 35 5 111) (Some (mkPtok 42 "o" 35 13 112)) None (mkPtok 40 "," 36 0 113)))] (mkPtok 3 "}" 36 2 114)))])).
Eval vm_compute in ("<<<M885>>>" ++ check (runes_of_ascii "  packet falsey
{zchar[  1 ]a1@calculatedFrom(//
""a\\"") ,
u8x _x , float64 rootA, Foo{ match stringy as calculatedFrom{ 3 :
o ,}, } ,  }")).
Eval vm_compute in ("<<<M917>>>" ++ check (runes_of_ascii "MetaData stringy{ char[	3 ]
T
    ,
char[
255
    ] Logon ,zchar[ 007 ]
packetx  ,	i8	pack`` , // 50% %s
} // 50% %s
packet// trailing space 
Logon { match u
    // `tick` ""quote"" 'q'
    as
roots {
[""// no comment"" , ""it's"" ]:
    lengthOf ,}
, uint64
u128 @calculatedFrom( // a // b
""\" ++ [233]%N ++ runes_of_ascii """
) , string metadata `say ""hi""` ,	} /// triple")).
Eval vm_compute in ("<<<M949>>>" ++ check (runes_of_ascii "
")).
Eval vm_compute in ("<<<M981>>>" ++ check (runes_of_ascii "root packet zchar	{ repeat lengthOf crc ,
trueish @lengthOf(crc
) , @rightPad( )
    @tag(0 ) char[ 7] tag	,  }
options  {
    leftPad
= ""abc"" Z9_ =
true ; Z9_
=
    '\x00' repeatCount=
    true MetaDataX
=""it's"" ;}")).
Eval vm_compute in ("<<<M1013>>>" ++ check (runes_of_ascii "MetaData body {
    // c
    zchar[ 0123456789
] MetaDataX,uint8 As  ,	u8x
Logon
`doc`
    , char[
// c
// " ++ [27880; 37322]%N ++ runes_of_ascii "
0123456789 ] msg_type , zchar[1
    ] x_y_z
    , }")).
Eval vm_compute in ("<<<M1045>>>" ++ check (runes_of_ascii "options {u128 //
= 4294967296 ; BodyLength
//	t
// c
=string
    Packet// " ++ [27880; 37322]%N ++ runes_of_ascii "
= // @lengthOf(
' ' u8x= ""x y"" ; asx= 255 ; }
")).
Eval vm_compute in ("<<<M1077>>>" ++ check (runes_of_ascii "packet msg_type { uint16 T// a // b
@lengthOf( i8i8 )
, repeat	i32  int
    ,
@lengthOf(x_y_z
    ) int64
    As
    ,
    }
")).
Eval vm_compute in ("<<<T1077>>>" ++ terms [mkTok 35 "packet" 1 0 false; mkTok 42 "msg_type" 1 7 false; mkTok 2 "{" 1 16 false; mkTok 21 "uint16" 1 18 false; mkTok 42 "T" 1 25 false; mkTok 44 "// a // b" 1 26 true; mkTok 7 "@lengthOf(" 2 0 false; mkTok 42 "i8i8" 2 11 false; mkTok 6 ")" 2 16 false; mkTok 40 "," 3 0 false; mkTok 36 "repeat" 3 2 false; mkTok 26 "i32" 3 9 false; mkTok 42 "int" 3 14 false; mkTok 40 "," 4 4 false; mkTok 7 "@lengthOf(" 5 0 false; mkTok 42 "x_y_z" 5 10 false; mkTok 6 ")" 6 4 false; mkTok 27 "int64" 6 6 false; mkTok 42 "As" 7 4 false; mkTok 40 "," 8 4 false; mkTok 3 "}" 9 4 false; mkTok 0 "<EOF>" 10 0 false] (mkPacket (mkPtok 35 "packet" 1 0 0) (Some (mkPtok 3 "}" 9 4 20)) [(DPacket (mkPacketDef (mkSpan (mkPtok 35 "packet" 1 0 0) (mkPtok 3 "}" 9 4 20)) None (mkPtok 35 "packet" 1 0 0) (mkPtok 42 "msg_type" 1 7 1) (mkPtok 2 "{" 1 16 2) [(mkFieldWithAttr (mkSpan (mkPtok 21 "uint16" 1 18 3) (mkPtok 40 "," 3 0 9)) [] (LengthField (mkSpan (mkPtok 21 "uint16" 1 18 3) (mkPtok 40 "," 3 0 9)) (mkLengthFieldDecl (mkSpan (mkPtok 21 "uint16" 1 18 3) (mkPtok 40 "," 3 0 9)) (Some (TyBasic (mkSpan (mkPtok 21 "uint16" 1 18 3) (mkPtok 21 "uint16" 1 18 3)) (mkBasicType (mkSpan (mkPtok 21 "uint16" 1 18 3) (mkPtok 21 "uint16" 1 18 3)) (mkPtok 21 "uint16" 1 18 3)))) (mkPtok 42 "T" 1 25 4) (mkLengthOf (mkSpan (mkPtok 7 "@lengthOf(" 2 0 6) (mkPtok 6 ")" 2 16 8)) (mkPtok 7 "@lengthOf(" 2 0 6) (mkPtok 42 "i8i8" 2 11 7) (mkPtok 6 ")" 2 16 8)) None (mkPtok 40 "," 3 0 9)))); (mkFieldWithAttr (mkSpan (mkPtok 36 "repeat" 3 2 10) (mkPtok 40 "," 4 4 13)) [] (MetaField (mkSpan (mkPtok 36 "repeat" 3 2 10) (mkPtok 40 "," 4 4 13)) (Some (mkPtok 36 "repeat" 3 2 10)) (mkMetaDecl (mkSpan (mkPtok 26 "i32" 3 9 11) (mkPtok 40 "," 4 4 13)) (TyBasic (mkSpan (mkPtok 26 "i32" 3 9 11) (mkPtok 26 "i32" 3 9 11)) (mkBasicType (mkSpan (mkPtok 26 "i32" 3 9 11) (mkPtok 26 "i32" 3 9 11)) (mkPtok 26 "i32" 3 9 11))) (mkPtok 42 "int" 3 14 12) None (mkPtok 40 "," 4 4 13)))); (mkFieldWithAttr (mkSpan (mkPtok 7 "@lengthOf(" 5 0 14) (mkPtok 40 "," 8 4 19)) [(FALengthOf (mkSpan (mkPtok 7 "@lengthOf(" 5 0 14) (mkPtok 6 ")" 6 4 16)) (mkLengthOf (mkSpan (mkPtok 7 "@lengthOf(" 5 0 14) (mkPtok 6 ")" 6 4 16)) (mkPtok 7 "@lengthOf(" 5 0 14) (mkPtok 42 "x_y_z" 5 10 15) (mkPtok 6 ")" 6 4 16)))] (MetaField (mkSpan (mkPtok 27 "int64" 6 6 17) (mkPtok 40 "," 8 4 19)) None (mkMetaDecl (mkSpan (mkPtok 27 "int64" 6 6 17) (mkPtok 40 "," 8 4 19)) (TyBasic (mkSpan (mkPtok 27 "int64" 6 6 17) (mkPtok 27 "int64" 6 6 17)) (mkBasicType (mkSpan (mkPtok 27 "int64" 6 6 17) (mkPtok 27 "int64" 6 6 17)) (mkPtok 27 "int64" 6 6 17))) (mkPtok 42 "As" 7 4 18) None (mkPtok 40 "," 8 4 19))))] (mkPtok 3 "}" 9 4 20)))])).
Eval vm_compute in ("<<<M1109>>>" ++ check (runes_of_ascii "  root  packet T { // " ++ [128512]%N ++ runes_of_ascii " emoji
}")).
Eval vm_compute in ("<<<M1141>>>" ++ check (runes_of_ascii "options { u128
// " ++ [128512]%N ++ runes_of_ascii " emoji
//x
= // 50% %s
int64
}
packet _x{ char[]crc @lengthOf(
i8i8
    )
, stringy
    ,
    //x
    char[ 255 ] x	, @lengthOf( Header)
repeat
i8 i64_ , @leftPad( '0'
) match msg_type as o {//	t
[
3, // `tick` ""quote"" 'q'
3
// packet A { u8 x, }
//	t
, 42, ""`tick`"" ]
: metadata
    ,1:
    uint8x  , } //	t
,	@lengthOf(
_x ) uint8// trailing space 
BodyLength
// 50% %s
// @lengthOf(
`tab	here`
,
// 50% %s
// a // b
}MetaData A {
    }
// @lengthOf(
// `tick` ""quote"" 'q'
root packet lengthOf	{ i8
MetaDataX
//
// " ++ [128512]%N ++ runes_of_ascii " emoji
, match crc as	f32a
{ ""\n""
    :
//
// c
leftPad	00: Pad
    , }, @tag( 0 )	i16 i64_ `doc` , char[
00 ] T
, lengthOf @calculatedFrom(
//
// c
""a\""b"" )
    , @tag(0 ) uint8
    u
// c
// @lengthOf(
,roots { //
match
    As as tag { ""\" ++ [233]%N ++ runes_of_ascii """ :
    body , 3 : Z9_ //	t
,
}
,// " ++ [128512]%N ++ runes_of_ascii " emoji
match f32a as f32a { [
    ""`tick`""  ,7]:
    i64_ , },
    zchar[
    // " ++ [27880; 37322]%N ++ runes_of_ascii "
    10] float `crlf
line`
, //x
}
, repeat  pack{ zchar[
255 ]Pad @lengthOf( stringy ) ,char[ 4294967296	]	x_y_z
    , }, }")).
Eval vm_compute in ("<<<M1173>>>" ++ check (runes_of_ascii "MetaData tag { MetaDataX i8i8
    ,
}	MetaData o { a1
    charz `two words`, }// packet A { u8 x, }
root// " ++ [27880; 37322]%N ++ runes_of_ascii "
packet	zchar {	@calculatedFrom( ""// no comment"" ) @lengthOf(
string_)
@calculatedFrom(
""a\""b"" )match Header
as options1 { 0123456789 : roots 00 :/// triple
asx//x
[65535 , /// triple
""\n""
]:u128
, """ ++ [233]%N ++ runes_of_ascii "t" ++ [233]%N ++ runes_of_ascii """ : zchar 255
:
Header
    , 65535: packetx ,  }	,// " ++ [128512]%N ++ runes_of_ascii " emoji
@calculatedFrom( ""1"" ) repeat u32 repeatCount ,
    }
")).
Eval vm_compute in ("<<<M1205>>>" ++ check (runes_of_ascii "
root packet stringy
{ @tag(10 )  string
len ``
    // @lengthOf(
    ,  float64 i64_ ,@calculatedFrom(""abc"" )@leftPad (
'\x00' )
repeat
    char[
    3 // @lengthOf(
]
Header, msg_type metadata`two words`
    , leftPad
    body `crlf
line`
,
string_ ,
    stringy
    { repeat metadata  {  repeat
    // trailing space 
    lengthOf ,}
, // packet A { u8 x, }
}
    ,
@lengthOf(	stringy ) u128@calculatedFrom( """ ++ [28040; 24687]%N ++ runes_of_ascii """  ), @calculatedFrom( ""a	b"") match crc
    as a1 { 42
    :
    Header , 3	: tag [ ""CRC32"" , ""packet""
]: f32a // packet A { u8 x, }
[ """ ++ [28040; 24687]%N ++ runes_of_ascii """, ""abc"" ,
65535 ,""" ++ [128512]%N ++ runes_of_ascii """ , 10
] :
pack, }
,zchar[ 10 ] calculatedFrom
    @calculatedFrom( ""\" ++ [233]%N ++ runes_of_ascii """
// " ++ [27880; 37322]%N ++ runes_of_ascii "
// " ++ [27880; 37322]%N ++ runes_of_ascii "
) `
` , } root packet falsey
    { @calculatedFrom( """ ++ [128512]%N ++ runes_of_ascii """ )
@lengthOf( falsey )
int @calculatedFrom( ""{,}"") ,
repeat matchKey f32a`{ , }` ,
    float64
    crc `doc`	, @calculatedFrom(""" ++ [128512]%N ++ runes_of_ascii """ )  matchKey  @calculatedFrom( """" )`u8 x,` ,	A , // c
string Z9_ @lengthOf(x //	t
) `u8 x,`	, zchar  @lengthOf(
rootA
)
`// not a comment` ,	options1 @lengthOf( packetx )  `a\`, // " ++ [128512]%N ++ runes_of_ascii " emoji
@lengthOf(leftPad) repeat u32 //
A,
} packet	Pad { @calculatedFrom( ""a\\"")
    // trailing space 
    @tag(
    65535)	@lengthOf(
u128
    ) f64 x
    `u8 x,`,@lengthOf( x_y_z )string	stringy @lengthOf(
    string_ )	,metadata
{match body  as rootA { 0  : o
,255 : uint8x // @lengthOf(
, [10 ]	: crc ,007
:msg_type
} //x
,} , msg_type
    @lengthOf(msg_type
    )	, @leftPad ( '0' )lengthOf @lengthOf( //	t
As ) `// not a comment` //
, /// triple
repeat
    zchar[1
    ] rootA  `// not a comment`
, @tag(	10  )
@leftPad( ) @lengthOf( stringy ) repeat body { // a // b
i8i8	@calculatedFrom( ""a	b""/// triple
)
    ,
    // " ++ [128512]%N ++ runes_of_ascii " emoji
    _x, repeat u8 Packet,
    } , i32 Logon , } packet// 50% %s
calculatedFrom { float32 rootA
`say ""hi""`
, } root packet packetx{ @tag( 3 )
    asx ,len { tag { repeat zchar[  0123456789]stringy`` , }
    /// triple
    ,Z9_ `
`
, Foo , repeat u8x
`// not a comment`
, } ,int64
body
    // 50% %s
    @calculatedFrom( ""a\\"" ) `it's` ,}")).
Eval vm_compute in ("<<<M1237>>>" ++ check (runes_of_ascii "  packet packetx{
    float64
string_ , o
{ Pad options1
`" ++ [233]%N ++ runes_of_ascii "`
,
    roots {float32 Z9_`a\` ,
uint32 Logon
,
match
asx as
rootA { ""`tick`""  : As
// trailing space 
// c
, 00 : int ,/// triple
} , repeat char[]
// 50% %s
// a // b
Logon , }	,f32// `tick` ""quote"" 'q'
u128`crlf
line`
    , } ,} packet float{	falsey, crc
    @calculatedFrom(""abc"" ) ,
@calculatedFrom(
""1"" ) repeat //	t
T , @rightPad(
'\x00') repeat Header `tab	here` , repeat //x
char[] uint8x , pack @calculatedFrom( """ ++ [233]%N ++ runes_of_ascii "t" ++ [233]%N ++ runes_of_ascii """ ) ,
@lengthOf( i8i8 )
    u16 a1 ``
,  int64 roots
// 50% %s
// 50% %s
@calculatedFrom(	""x y"" ) , rootA  , BodyLength
    // a // b
    @lengthOf(
zchar
    /// triple
    )
, // 50% %s
}MetaData calculatedFrom{  stringy crc //	t
,
    }
    MetaData Foo { Packet
    A , int8 Packet, As calculatedFrom ,calculatedFrom
    calculatedFrom `` , }
")).
Eval vm_compute in ("<<<M1269>>>" ++ check (runes_of_ascii "packet int {
    A { int
{
    zchar[// " ++ [128512]%N ++ runes_of_ascii " emoji
0 ] pack
@calculatedFrom( ""packet"" ) `100% of %d`
    ,
char[]
trueish // a // b
,repeat char[00
    /// triple
    ] crc`{ , }` , } , }
    // 50% %s
    , uint64 roots
@lengthOf( rootA ) , i8 uint8x
    //	t
    ,
    } packet uint8x {}
MetaData int
{  char[] i8i8 `two words` ,
}
")).
Eval vm_compute in ("<<<M1301>>>" ++ check (runes_of_ascii "packet Foo { match body as leftPad{ 4294967296  :/// triple
tag , } , }
")).
Eval vm_compute in ("<<<T1301>>>" ++ terms [mkTok 35 "packet" 1 0 false; mkTok 42 "Foo" 1 7 false; mkTok 2 "{" 1 11 false; mkTok 38 "match" 1 13 false; mkTok 42 "body" 1 19 false; mkTok 17 "as" 1 24 false; mkTok 42 "leftPad" 1 27 false; mkTok 2 "{" 1 34 false; mkTok 30 "4294967296" 1 36 false; mkTok 39 ":" 1 48 false; mkTok 44 "/// triple" 1 49 true; mkTok 42 "tag" 2 0 false; mkTok 40 "," 2 4 false; mkTok 3 "}" 2 6 false; mkTok 40 "," 2 8 false; mkTok 3 "}" 2 10 false; mkTok 0 "<EOF>" 3 0 false] (mkPacket (mkPtok 35 "packet" 1 0 0) (Some (mkPtok 3 "}" 2 10 15)) [(DPacket (mkPacketDef (mkSpan (mkPtok 35 "packet" 1 0 0) (mkPtok 3 "}" 2 10 15)) None (mkPtok 35 "packet" 1 0 0) (mkPtok 42 "Foo" 1 7 1) (mkPtok 2 "{" 1 11 2) [(mkFieldWithAttr (mkSpan (mkPtok 38 "match" 1 13 3) (mkPtok 40 "," 2 8 14)) [] (MatchField (mkSpan (mkPtok 38 "match" 1 13 3) (mkPtok 40 "," 2 8 14)) (mkMatchFieldDecl (mkSpan (mkPtok 38 "match" 1 13 3) (mkPtok 3 "}" 2 6 13)) (mkPtok 38 "match" 1 13 3) (mkPtok 42 "body" 1 19 4) (mkPtok 17 "as" 1 24 5) (mkPtok 42 "leftPad" 1 27 6) (mkPtok 2 "{" 1 34 7) [(mkMatchPair (mkSpan (mkPtok 30 "4294967296" 1 36 8) (mkPtok 40 "," 2 4 12)) (MKDigits (mkPtok 30 "4294967296" 1 36 8)) (mkPtok 39 ":" 1 48 9) (mkPtok 42 "tag" 2 0 11) (Some (mkPtok 40 "," 2 4 12)))] (mkPtok 3 "}" 2 6 13)) (mkPtok 40 "," 2 8 14)))] (mkPtok 3 "}" 2 10 15)))])).
Eval vm_compute in ("<<<M1333>>>" ++ check (runes_of_ascii "options	{x_y_z	= u8 ;
_x = 4294967296
asx =0123456789;
charz
=false ; x_y_z =
    // 50% %s
    10}
")).
Eval vm_compute in ("<<<M1365>>>" ++ check (runes_of_ascii "packet x_y_z { @calculatedFrom( ""{,}""
)	match pack // `tick` ""quote"" 'q'
as i8i8 { [
    //
    3	] :
    // " ++ [128512]%N ++ runes_of_ascii " emoji
    BodyLength  ,
42
: i8i8 , [ ""CRC32""
    // `tick` ""quote"" 'q'
    ,""a\""b""
]
    : Foo } , Pad {crc `crlf
line`
    // c
    ,u8// `tick` ""quote"" 'q'
x	@calculatedFrom(""abc"" )	`" ++ [28040; 24687; 31867; 22411]%N ++ runes_of_ascii "` , stringy `it's` , } ,
falsey `
` , }")).
Eval vm_compute in ("<<<M1397>>>" ++ check (runes_of_ascii "packet// c
u128
{ roots BodyLength , }

")).
Eval vm_compute in ("<<<M1429>>>" ++ check (runes_of_ascii "options {BodyLength // " ++ [27880; 37322]%N ++ runes_of_ascii "
=
    4294967296	}")).
Eval vm_compute in ("<<<M1461>>>" ++ check (runes_of_ascii "
root packet	u128 {repeat// 50% %s
metadata , } packet
trueish { zchar[ 0123456789 ] roots, }	packet leftPad {len  msg_type , MetaDataX
pack ,// trailing space 
}

")).
Eval vm_compute in ("<<<M1493>>>" ++ check (runes_of_ascii "
//x
")).
Eval vm_compute in ("<<<M1525>>>" ++ check (runes_of_ascii "options { Packet
= """ ++ [28040; 24687]%N ++ runes_of_ascii """ ;
    Foo=
    """" ; //	t
leftPad = ""// no comment"" ;
MetaDataX
=false // @lengthOf(
;
    }")).
Eval vm_compute in ("<<<T1525>>>" ++ terms [mkTok 1 "options" 1 0 false; mkTok 2 "{" 1 8 false; mkTok 42 "Packet" 1 10 false; mkTok 4 "=" 2 0 false; mkTok 31 (string_of_bytes [34; 230; 182; 136; 230; 129; 175; 34]%N) 2 2 false; mkTok 41 ";" 2 7 false; mkTok 42 "Foo" 3 4 false; mkTok 4 "=" 3 7 false; mkTok 31 """""" 4 4 false; mkTok 41 ";" 4 7 false; mkTok 44 (string_of_bytes [47; 47; 9; 116]%N) 4 9 true; mkTok 42 "leftPad" 5 0 false; mkTok 4 "=" 5 8 false; mkTok 31 """// no comment""" 5 10 false; mkTok 41 ";" 5 26 false; mkTok 42 "MetaDataX" 6 0 false; mkTok 4 "=" 7 0 false; mkTok 11 "false" 7 1 false; mkTok 44 "// @lengthOf(" 7 7 true; mkTok 41 ";" 8 0 false; mkTok 3 "}" 9 4 false; mkTok 0 "<EOF>" 9 5 false] (mkPacket (mkPtok 1 "options" 1 0 0) (Some (mkPtok 3 "}" 9 4 20)) [(DOption (mkOptionDef (mkSpan (mkPtok 1 "options" 1 0 0) (mkPtok 3 "}" 9 4 20)) (mkPtok 1 "options" 1 0 0) (mkPtok 2 "{" 1 8 1) [(mkOptionDecl (mkSpan (mkPtok 42 "Packet" 1 10 2) (mkPtok 41 ";" 2 7 5)) (mkPtok 42 "Packet" 1 10 2) (mkPtok 4 "=" 2 0 3) (VString (mkSpan (mkPtok 31 (string_of_bytes [34; 230; 182; 136; 230; 129; 175; 34]%N) 2 2 4) (mkPtok 31 (string_of_bytes [34; 230; 182; 136; 230; 129; 175; 34]%N) 2 2 4)) (mkPtok 31 (string_of_bytes [34; 230; 182; 136; 230; 129; 175; 34]%N) 2 2 4)) (Some (mkPtok 41 ";" 2 7 5))); (mkOptionDecl (mkSpan (mkPtok 42 "Foo" 3 4 6) (mkPtok 41 ";" 4 7 9)) (mkPtok 42 "Foo" 3 4 6) (mkPtok 4 "=" 3 7 7) (VString (mkSpan (mkPtok 31 """""" 4 4 8) (mkPtok 31 """""" 4 4 8)) (mkPtok 31 """""" 4 4 8)) (Some (mkPtok 41 ";" 4 7 9))); (mkOptionDecl (mkSpan (mkPtok 42 "leftPad" 5 0 11) (mkPtok 41 ";" 5 26 14)) (mkPtok 42 "leftPad" 5 0 11) (mkPtok 4 "=" 5 8 12) (VString (mkSpan (mkPtok 31 """// no comment""" 5 10 13) (mkPtok 31 """// no comment""" 5 10 13)) (mkPtok 31 """// no comment""" 5 10 13)) (Some (mkPtok 41 ";" 5 26 14))); (mkOptionDecl (mkSpan (mkPtok 42 "MetaDataX" 6 0 15) (mkPtok 41 ";" 8 0 19)) (mkPtok 42 "MetaDataX" 6 0 15) (mkPtok 4 "=" 7 0 16) (VFalse (mkSpan (mkPtok 11 "false" 7 1 17) (mkPtok 11 "false" 7 1 17)) (mkPtok 11 "false" 7 1 17)) (Some (mkPtok 41 ";" 8 0 19)))] (mkPtok 3 "}" 9 4 20)))])).
Eval vm_compute in ("<<<M1557>>>" ++ check (runes_of_ascii "packet body
    // @lengthOf(
    { @tag( 0123456789 ) match options1 as leftPad { 00
:body
[
7,
4294967296
,
//x
//	t
""1"" // trailing space 
, ""`tick`""  , 0 // 50% %s
,
255 , 10 , ""CRC32"" ] :
a1
    // trailing space 
    , [""it's"" , """ ++ [233]%N ++ runes_of_ascii "t" ++ [233]%N ++ runes_of_ascii """,""" ++ [233]%N ++ runes_of_ascii "t" ++ [233]%N ++ runes_of_ascii """
,	""CRC32""	, """ ++ [128512]%N ++ runes_of_ascii """ ,	65535
// c
// a // b
,
255 ,
    007
    // 50% %s
    ]:
x_y_z
, 0:
Logon , 65535
: metadata
    , [ """"  ]
: Packet , } // " ++ [128512]%N ++ runes_of_ascii " emoji
,f64
    // trailing space 
    calculatedFrom @lengthOf(chars) `{ , }`, @rightPad ( '0' )
    @lengthOf(  BodyLength	)string leftPad @lengthOf(	packetx
) , @tag(
42
) i8
    A ,	}
packet crc{
    match
crc as float { [ 0123456789
,""a\""b""
    ]
    :
u128 ,10 :MetaDataX , [
00 ,
""packet"" // `tick` ""quote"" 'q'
,
"""" , 4294967296
    // @lengthOf(
    ,	0 ,""" ++ [28040; 24687]%N ++ runes_of_ascii """ ]: Z9_
    , 4294967296 : Z9_ //
,
}, zchar[7] MetaDataX
    , }
")).
Eval vm_compute in ("<<<M1589>>>" ++ check (runes_of_ascii "packet Header { }
")).
Eval vm_compute in ("<<<M1621>>>" ++ check (runes_of_ascii "packet MetaDataX
    { @lengthOf( pack) T
{	zchar[ 0123456789 ] lengthOf `{ , }`
    // @lengthOf(
    ,} , }	packet crc
{	char uint8x
    `line1
line2`
    , } options {
zchar
=false ; }
")).
Eval vm_compute in ("<<<M1653>>>" ++ check (runes_of_ascii "packet As
{ repeat uint8
x_y_z ,  match leftPad as //x
T {[  4294967296 ] :
Foo , }, repeat // `tick` ""quote"" 'q'
len {uint32
    // " ++ [27880; 37322]%N ++ runes_of_ascii "
    asx
@calculatedFrom( ""{,}"") , } ,@tag(0 )repeat u64 crc
, } /// triple
packet BodyLength {
@leftPad( )match packetx as body// " ++ [27880; 37322]%N ++ runes_of_ascii "
{ ""`tick`""	:
// c
// trailing space 
u8x ,
""a\""b"": float , [ """ ++ [233]%N ++ runes_of_ascii "t" ++ [233]%N ++ runes_of_ascii """]	:	chars, """":
    repeatCount,// c
""a	b"": zchar // " ++ [128512]%N ++ runes_of_ascii " emoji
, 65535
    :// " ++ [27880; 37322]%N ++ runes_of_ascii "
T
, } ,	}packet metadata { repeat
    // @lengthOf(
    Foo ,
    i32 T
    @lengthOf( roots ) `doc` , zchar[	007 ] i64_
@lengthOf( _x	),	}
")).
Eval vm_compute in ("<<<M1685>>>" ++ check (runes_of_ascii "packet
a1 // " ++ [128512]%N ++ runes_of_ascii " emoji
{ }
options { i8i8
= """ ++ [128512]%N ++ runes_of_ascii """
uint8x
=""" ++ [233]%N ++ runes_of_ascii "t" ++ [233]%N ++ runes_of_ascii """
;
Logon =
'\x00';  } packet x_y_z{u32 f32a , @lengthOf(MetaDataX
)char[] msg_type,}")).
Eval vm_compute in ("<<<M1717>>>" ++ check (runes_of_ascii "MetaData
// " ++ [27880; 37322]%N ++ runes_of_ascii "
//	t
Pad
{char[] u128 `
`	,char[
1 ] trueish `100% of %d` ,char[ 1
]u
    `say ""hi""`,char[ 0
    ] Header ,
} packet falsey { @tag( 255
) @calculatedFrom( ""{,}"" )  @tag( 00	) match //x
msg_type as float {
    00 :  falsey
""x y""  : metadata , [42 ,10 , ""{,}""
    , ""packet""
,00	, ""`tick`""
,""\" ++ [233]%N ++ runes_of_ascii """ , ""// no comment""// 50% %s
] : roots , [ 007 , 00
    ,/// triple
""`tick`"" , 00	, ""a\""b"" ,
    7// " ++ [128512]%N ++ runes_of_ascii " emoji
,
// `tick` ""quote"" 'q'
/// triple
1
    ] : trueish
,
7	:u128 ,	}	, } packet Z9_ {@tag( 00 ) T msg_type
    `{ , }`
, } packet a1	{ }
")).
Eval vm_compute in ("<<<M1749>>>" ++ check (runes_of_ascii "packet packetx
    // " ++ [128512]%N ++ runes_of_ascii " emoji
    { repeat zchar[ 3]a1 `" ++ [233]%N ++ runes_of_ascii "`	, @calculatedFrom(
""""
    //
    ) u64 pack
@lengthOf(
    Pad // c
)	,}
")).
Eval vm_compute in ("<<<T1749>>>" ++ terms [mkTok 35 "packet" 1 0 false; mkTok 42 "packetx" 1 7 false; mkTok 44 (string_of_bytes [47; 47; 32; 240; 159; 152; 128; 32; 101; 109; 111; 106; 105]%N) 2 4 true; mkTok 2 "{" 3 4 false; mkTok 36 "repeat" 3 6 false; mkTok 14 "zchar[" 3 13 false; mkTok 30 "3" 3 20 false; mkTok 13 "]" 3 21 false; mkTok 42 "a1" 3 22 false; mkTok 43 (string_of_bytes [96; 195; 169; 96]%N) 3 25 false; mkTok 40 "," 3 29 false; mkTok 5 "@calculatedFrom(" 3 31 false; mkTok 31 """""" 4 0 false; mkTok 44 "//" 5 4 true; mkTok 6 ")" 6 4 false; mkTok 23 "u64" 6 6 false; mkTok 42 "pack" 6 10 false; mkTok 7 "@lengthOf(" 7 0 false; mkTok 42 "Pad" 8 4 false; mkTok 44 "// c" 8 8 true; mkTok 6 ")" 9 0 false; mkTok 40 "," 9 2 false; mkTok 3 "}" 9 3 false; mkTok 0 "<EOF>" 10 0 false] (mkPacket (mkPtok 35 "packet" 1 0 0) (Some (mkPtok 3 "}" 9 3 22)) [(DPacket (mkPacketDef (mkSpan (mkPtok 35 "packet" 1 0 0) (mkPtok 3 "}" 9 3 22)) None (mkPtok 35 "packet" 1 0 0) (mkPtok 42 "packetx" 1 7 1) (mkPtok 2 "{" 3 4 3) [(mkFieldWithAttr (mkSpan (mkPtok 36 "repeat" 3 6 4) (mkPtok 40 "," 3 29 10)) [] (MetaField (mkSpan (mkPtok 36 "repeat" 3 6 4) (mkPtok 40 "," 3 29 10)) (Some (mkPtok 36 "repeat" 3 6 4)) (mkMetaDecl (mkSpan (mkPtok 14 "zchar[" 3 13 5) (mkPtok 40 "," 3 29 10)) (TyFixed (mkSpan (mkPtok 14 "zchar[" 3 13 5) (mkPtok 13 "]" 3 21 7)) (mkFixedString (mkSpan (mkPtok 14 "zchar[" 3 13 5) (mkPtok 13 "]" 3 21 7)) (mkPtok 14 "zchar[" 3 13 5) (mkPtok 30 "3" 3 20 6) (mkPtok 13 "]" 3 21 7))) (mkPtok 42 "a1" 3 22 8) (Some (mkPtok 43 (string_of_bytes [96; 195; 169; 96]%N) 3 25 9)) (mkPtok 40 "," 3 29 10)))); (mkFieldWithAttr (mkSpan (mkPtok 5 "@calculatedFrom(" 3 31 11) (mkPtok 40 "," 9 2 21)) [(FACalculatedFrom (mkSpan (mkPtok 5 "@calculatedFrom(" 3 31 11) (mkPtok 6 ")" 6 4 14)) (mkCalculatedFrom (mkSpan (mkPtok 5 "@calculatedFrom(" 3 31 11) (mkPtok 6 ")" 6 4 14)) (mkPtok 5 "@calculatedFrom(" 3 31 11) (mkPtok 31 """""" 4 0 12) (mkPtok 6 ")" 6 4 14)))] (LengthField (mkSpan (mkPtok 23 "u64" 6 6 15) (mkPtok 40 "," 9 2 21)) (mkLengthFieldDecl (mkSpan (mkPtok 23 "u64" 6 6 15) (mkPtok 40 "," 9 2 21)) (Some (TyBasic (mkSpan (mkPtok 23 "u64" 6 6 15) (mkPtok 23 "u64" 6 6 15)) (mkBasicType (mkSpan (mkPtok 23 "u64" 6 6 15) (mkPtok 23 "u64" 6 6 15)) (mkPtok 23 "u64" 6 6 15)))) (mkPtok 42 "pack" 6 10 16) (mkLengthOf (mkSpan (mkPtok 7 "@lengthOf(" 7 0 17) (mkPtok 6 ")" 9 0 20)) (mkPtok 7 "@lengthOf(" 7 0 17) (mkPtok 42 "Pad" 8 4 18) (mkPtok 6 ")" 9 0 20)) None (mkPtok 40 "," 9 2 21))))] (mkPtok 3 "}" 9 3 22)))])).
Eval vm_compute in ("<<<M1781>>>" ++ check (runes_of_ascii "options
{pack = """ ++ [233]%N ++ runes_of_ascii "t" ++ [233]%N ++ runes_of_ascii """
; } packet
roots
// trailing space 
//	t
{
match o // packet A { u8 x, }
as repeatCount /// triple
{10 :
uint8x , 65535 :
Logon 4294967296 : pack
,
0123456789
    // packet A { u8 x, }
    : trueish
    , } , repeat
i8
    Pad `two words` , } root packet
// packet A { u8 x, }
// a // b
charz
    {@tag(65535 ) repeat	crc
    , @calculatedFrom( """ ++ [28040; 24687]%N ++ runes_of_ascii """
)	char[007 ] o
`" ++ [233]%N ++ runes_of_ascii "` , zchar[0 ] string_ , repeat A
{ char[] roots ,
    } ,  } // " ++ [128512]%N ++ runes_of_ascii " emoji")).
Eval vm_compute in ("<<<M1813>>>" ++ check (runes_of_ascii "options{
    // @lengthOf(
    repeatCount = """ ++ [233]%N ++ runes_of_ascii "t" ++ [233]%N ++ runes_of_ascii """
u	= false
; Pad //x
=true As = '\x00' } packet a1 {f64 options1
    ,
    u16 x
@lengthOf(crc	)
,
i32 uint8x ,// packet A { u8 x, }
@lengthOf(msg_type ) //x
repeat int	{ repeat char[
7 ]crc `say ""hi""`// trailing space 
, match// `tick` ""quote"" 'q'
zchar as	lengthOf{ ""1"" : a1},
repeat Foo // " ++ [128512]%N ++ runes_of_ascii " emoji
string_ ,u8x uint8x`u8 x,` //	t
,  },
    } packet o { @lengthOf(// trailing space 
trueish ) char[] i8i8@lengthOf( _x ) , }//x
packet	Header { } // trailing space 
MetaData // packet A { u8 x, }
rootA { char[]metadata `u8 x,` ,
// " ++ [27880; 37322]%N ++ runes_of_ascii "
// " ++ [27880; 37322]%N ++ runes_of_ascii "
}
")).
Eval vm_compute in ("<<<M1845>>>" ++ check (runes_of_ascii "
")).
Eval vm_compute in ("<<<M1877>>>" ++ check (runes_of_ascii "
// 50% %s
")).
Eval vm_compute in ("<<<M1909>>>" ++ check (runes_of_ascii "packet chars { }
packet a1 // " ++ [128512]%N ++ runes_of_ascii " emoji
{ char[ 0123456789] i64_
    @calculatedFrom( ""it's"" ) // a // b
, }
")).
Eval vm_compute in ("<<<M1941>>>" ++ check (runes_of_ascii "MetaData packetx
{
charz falsey	, }
")).
Eval vm_compute in ("<<<M1973>>>" ++ check (runes_of_ascii "MetaData matchKey { zchar[ 1
    // 50% %s
    ]crc `it's`
// @lengthOf(
// packet A { u8 x, }
, zchar options1 //
, asx A	`crlf
line`
, char[
0 ] string_ ,char[]
    repeatCount `// not a comment` , // packet A { u8 x, }
i8
    repeatCount `say ""hi""`, } packet A { repeat
lengthOf Pad`two words` , } options
{
    } packet x { @calculatedFrom( """ ++ [128512]%N ++ runes_of_ascii """	) @lengthOf( trueish )
    char[
    4294967296] x , Z9_ `100% of %d` ,
repeat string_ ,match Z9_ as u8x // `tick` ""quote"" 'q'
{ ""a\""b"" : i64_ ""\n""
:MetaDataX
[
    65535
,	""abc""
    ]:	Logon ,
}, zchar[
    3 ]
    x_y_z ,
    chars// `tick` ""quote"" 'q'
@calculatedFrom(
    ""a\""b""
) , @tag(0123456789 ) @lengthOf( body ) @rightPad ( '\x00'
)
u16 rootA@lengthOf( tag ),
    int16//	t
int ,
int32 BodyLength ,}
// c
")).
Eval vm_compute in ("<<<T1973>>>" ++ terms [mkTok 37 "MetaData" 1 0 false; mkTok 42 "matchKey" 1 9 false; mkTok 2 "{" 1 18 false; mkTok 14 "zchar[" 1 20 false; mkTok 30 "1" 1 27 false; mkTok 44 "// 50% %s" 2 4 true; mkTok 13 "]" 3 4 false; mkTok 42 "crc" 3 5 false; mkTok 43 "`it's`" 3 9 false; mkTok 44 "// @lengthOf(" 4 0 true; mkTok 44 "// packet A { u8 x, }" 5 0 true; mkTok 40 "," 6 0 false; mkTok 42 "zchar" 6 2 false; mkTok 42 "options1" 6 8 false; mkTok 44 "//" 6 17 true; mkTok 40 "," 7 0 false; mkTok 42 "asx" 7 2 false; mkTok 42 "A" 7 6 false; mkTok 43 (string_of_bytes [96; 99; 114; 108; 102; 13; 10; 108; 105; 110; 101; 96]%N) 7 8 false; mkTok 40 "," 9 0 false; mkTok 12 "char[" 9 2 false; mkTok 30 "0" 10 0 false; mkTok 13 "]" 10 2 false; mkTok 42 "string_" 10 4 false; mkTok 40 "," 10 12 false; mkTok 16 "char[]" 10 13 false; mkTok 42 "repeatCount" 11 4 false; mkTok 43 "`// not a comment`" 11 16 false; mkTok 40 "," 11 35 false; mkTok 44 "// packet A { u8 x, }" 11 37 true; mkTok 24 "i8" 12 0 false; mkTok 42 "repeatCount" 13 4 false; mkTok 43 "`say ""hi""`" 13 16 false; mkTok 40 "," 13 26 false; mkTok 3 "}" 13 28 false; mkTok 35 "packet" 13 30 false; mkTok 42 "A" 13 37 false; mkTok 2 "{" 13 39 false; mkTok 36 "repeat" 13 41 false; mkTok 42 "lengthOf" 14 0 false; mkTok 42 "Pad" 14 9 false; mkTok 43 "`two words`" 14 12 false; mkTok 40 "," 14 24 false; mkTok 3 "}" 14 26 false; mkTok 1 "options" 14 28 false; mkTok 2 "{" 15 0 false; mkTok 3 "}" 16 4 false; mkTok 35 "packet" 16 6 false; mkTok 42 "x" 16 13 false; mkTok 2 "{" 16 15 false; mkTok 5 "@calculatedFrom(" 16 17 false; mkTok 31 (string_of_bytes [34; 240; 159; 152; 128; 34]%N) 16 34 false; mkTok 6 ")" 16 38 false; mkTok 7 "@lengthOf(" 16 40 false; mkTok 42 "trueish" 16 51 false; mkTok 6 ")" 16 59 false; mkTok 12 "char[" 17 4 false; mkTok 30 "4294967296" 18 4 false; mkTok 13 "]" 18 14 false; mkTok 42 "x" 18 16 false; mkTok 40 "," 18 18 false; mkTok 42 "Z9_" 18 20 false; mkTok 43 "`100% of %d`" 18 24 false; mkTok 40 "," 18 37 false; mkTok 36 "repeat" 19 0 false; mkTok 42 "string_" 19 7 false; mkTok 40 "," 19 15 false; mkTok 38 "match" 19 16 false; mkTok 42 "Z9_" 19 22 false; mkTok 17 "as" 19 26 false; mkTok 42 "u8x" 19 29 false; mkTok 44 "// `tick` ""quote"" 'q'" 19 33 true; mkTok 2 "{" 20 0 false; mkTok 31 """a\""b""" 20 2 false; mkTok 39 ":" 20 9 false; mkTok 42 "i64_" 20 11 false; mkTok 31 """\n""" 20 16 false; mkTok 39 ":" 21 0 false; mkTok 42 "MetaDataX" 21 1 false; mkTok 18 "[" 22 0 false; mkTok 30 "65535" 23 4 false; mkTok 40 "," 24 0 false; mkTok 31 """abc""" 24 2 false; mkTok 13 "]" 25 4 false; mkTok 39 ":" 25 5 false; mkTok 42 "Logon" 25 7 false; mkTok 40 "," 25 13 false; mkTok 3 "}" 26 0 false; mkTok 40 "," 26 1 false; mkTok 14 "zchar[" 26 3 false; mkTok 30 "3" 27 4 false; mkTok 13 "]" 27 6 false; mkTok 42 "x_y_z" 28 4 false; mkTok 40 "," 28 10 false; mkTok 42 "chars" 29 4 false; mkTok 44 "// `tick` ""quote"" 'q'" 29 9 true; mkTok 5 "@calculatedFrom(" 30 0 false; mkTok 31 """a\""b""" 31 4 false; mkTok 6 ")" 32 0 false; mkTok 40 "," 32 2 false; mkTok 9 "@tag(" 32 4 false; mkTok 30 "0123456789" 32 9 false; mkTok 6 ")" 32 20 false; mkTok 7 "@lengthOf(" 32 22 false; mkTok 42 "body" 32 33 false; mkTok 6 ")" 32 38 false; mkTok 32 "@rightPad" 32 40 false; mkTok 8 "(" 32 50 false; mkTok 33 "'\x00'" 32 52 false; mkTok 6 ")" 33 0 false; mkTok 21 "u16" 34 0 false; mkTok 42 "rootA" 34 4 false; mkTok 7 "@lengthOf(" 34 9 false; mkTok 42 "tag" 34 20 false; mkTok 6 ")" 34 24 false; mkTok 40 "," 34 25 false; mkTok 25 "int16" 35 4 false; mkTok 44 (string_of_bytes [47; 47; 9; 116]%N) 35 9 true; mkTok 42 "int" 36 0 false; mkTok 40 "," 36 4 false; mkTok 26 "int32" 37 0 false; mkTok 42 "BodyLength" 37 6 false; mkTok 40 "," 37 17 false; mkTok 3 "}" 37 18 false; mkTok 44 "// c" 38 0 true; mkTok 0 "<EOF>" 39 0 false] (mkPacket (mkPtok 37 "MetaData" 1 0 0) (Some (mkPtok 3 "}" 37 18 123)) [(DMeta (mkMetaDef (mkSpan (mkPtok 37 "MetaData" 1 0 0) (mkPtok 3 "}" 13 28 34)) (mkPtok 37 "MetaData" 1 0 0) (mkPtok 42 "matchKey" 1 9 1) (mkPtok 2 "{" 1 18 2) [(MIDecl (mkMetaDecl (mkSpan (mkPtok 14 "zchar[" 1 20 3) (mkPtok 40 "," 6 0 11)) (TyFixed (mkSpan (mkPtok 14 "zchar[" 1 20 3) (mkPtok 13 "]" 3 4 6)) (mkFixedString (mkSpan (mkPtok 14 "zchar[" 1 20 3) (mkPtok 13 "]" 3 4 6)) (mkPtok 14 "zchar[" 1 20 3) (mkPtok 30 "1" 1 27 4) (mkPtok 13 "]" 3 4 6))) (mkPtok 42 "crc" 3 5 7) (Some (mkPtok 43 "`it's`" 3 9 8)) (mkPtok 40 "," 6 0 11))); (MIRef (mkRefMetaDecl (mkSpan (mkPtok 42 "zchar" 6 2 12) (mkPtok 40 "," 7 0 15)) (mkPtok 42 "zchar" 6 2 12) (mkPtok 42 "options1" 6 8 13) None (mkPtok 40 "," 7 0 15))); (MIRef (mkRefMetaDecl (mkSpan (mkPtok 42 "asx" 7 2 16) (mkPtok 40 "," 9 0 19)) (mkPtok 42 "asx" 7 2 16) (mkPtok 42 "A" 7 6 17) (Some (mkPtok 43 (string_of_bytes [96; 99; 114; 108; 102; 13; 10; 108; 105; 110; 101; 96]%N) 7 8 18)) (mkPtok 40 "," 9 0 19))); (MIDecl (mkMetaDecl (mkSpan (mkPtok 12 "char[" 9 2 20) (mkPtok 40 "," 10 12 24)) (TyFixed (mkSpan (mkPtok 12 "char[" 9 2 20) (mkPtok 13 "]" 10 2 22)) (mkFixedString (mkSpan (mkPtok 12 "char[" 9 2 20) (mkPtok 13 "]" 10 2 22)) (mkPtok 12 "char[" 9 2 20) (mkPtok 30 "0" 10 0 21) (mkPtok 13 "]" 10 2 22))) (mkPtok 42 "string_" 10 4 23) None (mkPtok 40 "," 10 12 24))); (MIDecl (mkMetaDecl (mkSpan (mkPtok 16 "char[]" 10 13 25) (mkPtok 40 "," 11 35 28)) (TyDynamic (mkSpan (mkPtok 16 "char[]" 10 13 25) (mkPtok 16 "char[]" 10 13 25)) (mkDynamicString (mkSpan (mkPtok 16 "char[]" 10 13 25) (mkPtok 16 "char[]" 10 13 25)) (mkPtok 16 "char[]" 10 13 25))) (mkPtok 42 "repeatCount" 11 4 26) (Some (mkPtok 43 "`// not a comment`" 11 16 27)) (mkPtok 40 "," 11 35 28))); (MIDecl (mkMetaDecl (mkSpan (mkPtok 24 "i8" 12 0 30) (mkPtok 40 "," 13 26 33)) (TyBasic (mkSpan (mkPtok 24 "i8" 12 0 30) (mkPtok 24 "i8" 12 0 30)) (mkBasicType (mkSpan (mkPtok 24 "i8" 12 0 30) (mkPtok 24 "i8" 12 0 30)) (mkPtok 24 "i8" 12 0 30))) (mkPtok 42 "repeatCount" 13 4 31) (Some (mkPtok 43 "`say ""hi""`" 13 16 32)) (mkPtok 40 "," 13 26 33)))] (mkPtok 3 "}" 13 28 34))); (DPacket (mkPacketDef (mkSpan (mkPtok 35 "packet" 13 30 35) (mkPtok 3 "}" 14 26 43)) None (mkPtok 35 "packet" 13 30 35) (mkPtok 42 "A" 13 37 36) (mkPtok 2 "{" 13 39 37) [(mkFieldWithAttr (mkSpan (mkPtok 36 "repeat" 13 41 38) (mkPtok 40 "," 14 24 42)) [] (ObjectField (mkSpan (mkPtok 36 "repeat" 13 41 38) (mkPtok 40 "," 14 24 42)) (Some (mkPtok 36 "repeat" 13 41 38)) (mkPtok 42 "lengthOf" 14 0 39) (Some (mkPtok 42 "Pad" 14 9 40)) (Some (mkPtok 43 "`two words`" 14 12 41)) (mkPtok 40 "," 14 24 42)))] (mkPtok 3 "}" 14 26 43))); (DOption (mkOptionDef (mkSpan (mkPtok 1 "options" 14 28 44) (mkPtok 3 "}" 16 4 46)) (mkPtok 1 "options" 14 28 44) (mkPtok 2 "{" 15 0 45) [] (mkPtok 3 "}" 16 4 46))); (DPacket (mkPacketDef (mkSpan (mkPtok 35 "packet" 16 6 47) (mkPtok 3 "}" 37 18 123)) None (mkPtok 35 "packet" 16 6 47) (mkPtok 42 "x" 16 13 48) (mkPtok 2 "{" 16 15 49) [(mkFieldWithAttr (mkSpan (mkPtok 5 "@calculatedFrom(" 16 17 50) (mkPtok 40 "," 18 18 60)) [(FACalculatedFrom (mkSpan (mkPtok 5 "@calculatedFrom(" 16 17 50) (mkPtok 6 ")" 16 38 52)) (mkCalculatedFrom (mkSpan (mkPtok 5 "@calculatedFrom(" 16 17 50) (mkPtok 6 ")" 16 38 52)) (mkPtok 5 "@calculatedFrom(" 16 17 50) (mkPtok 31 (string_of_bytes [34; 240; 159; 152; 128; 34]%N) 16 34 51) (mkPtok 6 ")" 16 38 52))); (FALengthOf (mkSpan (mkPtok 7 "@lengthOf(" 16 40 53) (mkPtok 6 ")" 16 59 55)) (mkLengthOf (mkSpan (mkPtok 7 "@lengthOf(" 16 40 53) (mkPtok 6 ")" 16 59 55)) (mkPtok 7 "@lengthOf(" 16 40 53) (mkPtok 42 "trueish" 16 51 54) (mkPtok 6 ")" 16 59 55)))] (MetaField (mkSpan (mkPtok 12 "char[" 17 4 56) (mkPtok 40 "," 18 18 60)) None (mkMetaDecl (mkSpan (mkPtok 12 "char[" 17 4 56) (mkPtok 40 "," 18 18 60)) (TyFixed (mkSpan (mkPtok 12 "char[" 17 4 56) (mkPtok 13 "]" 18 14 58)) (mkFixedString (mkSpan (mkPtok 12 "char[" 17 4 56) (mkPtok 13 "]" 18 14 58)) (mkPtok 12 "char[" 17 4 56) (mkPtok 30 "4294967296" 18 4 57) (mkPtok 13 "]" 18 14 58))) (mkPtok 42 "x" 18 16 59) None (mkPtok 40 "," 18 18 60)))); (mkFieldWithAttr (mkSpan (mkPtok 42 "Z9_" 18 20 61) (mkPtok 40 "," 18 37 63)) [] (ObjectField (mkSpan (mkPtok 42 "Z9_" 18 20 61) (mkPtok 40 "," 18 37 63)) None (mkPtok 42 "Z9_" 18 20 61) None (Some (mkPtok 43 "`100% of %d`" 18 24 62)) (mkPtok 40 "," 18 37 63))); (mkFieldWithAttr (mkSpan (mkPtok 36 "repeat" 19 0 64) (mkPtok 40 "," 19 15 66)) [] (ObjectField (mkSpan (mkPtok 36 "repeat" 19 0 64) (mkPtok 40 "," 19 15 66)) (Some (mkPtok 36 "repeat" 19 0 64)) (mkPtok 42 "string_" 19 7 65) None None (mkPtok 40 "," 19 15 66))); (mkFieldWithAttr (mkSpan (mkPtok 38 "match" 19 16 67) (mkPtok 40 "," 26 1 88)) [] (MatchField (mkSpan (mkPtok 38 "match" 19 16 67) (mkPtok 40 "," 26 1 88)) (mkMatchFieldDecl (mkSpan (mkPtok 38 "match" 19 16 67) (mkPtok 3 "}" 26 0 87)) (mkPtok 38 "match" 19 16 67) (mkPtok 42 "Z9_" 19 22 68) (mkPtok 17 "as" 19 26 69) (mkPtok 42 "u8x" 19 29 70) (mkPtok 2 "{" 20 0 72) [(mkMatchPair (mkSpan (mkPtok 31 """a\""b""" 20 2 73) (mkPtok 42 "i64_" 20 11 75)) (MKString (mkPtok 31 """a\""b""" 20 2 73)) (mkPtok 39 ":" 20 9 74) (mkPtok 42 "i64_" 20 11 75) None); (mkMatchPair (mkSpan (mkPtok 31 """\n""" 20 16 76) (mkPtok 42 "MetaDataX" 21 1 78)) (MKString (mkPtok 31 """\n""" 20 16 76)) (mkPtok 39 ":" 21 0 77) (mkPtok 42 "MetaDataX" 21 1 78) None); (mkMatchPair (mkSpan (mkPtok 18 "[" 22 0 79) (mkPtok 40 "," 25 13 86)) (MKList (mkKeyList (mkSpan (mkPtok 18 "[" 22 0 79) (mkPtok 13 "]" 25 4 83)) (mkPtok 18 "[" 22 0 79) (mkPtok 30 "65535" 23 4 80) [((mkPtok 40 "," 24 0 81), (mkPtok 31 """abc""" 24 2 82))] (mkPtok 13 "]" 25 4 83))) (mkPtok 39 ":" 25 5 84) (mkPtok 42 "Logon" 25 7 85) (Some (mkPtok 40 "," 25 13 86)))] (mkPtok 3 "}" 26 0 87)) (mkPtok 40 "," 26 1 88))); (mkFieldWithAttr (mkSpan (mkPtok 14 "zchar[" 26 3 89) (mkPtok 40 "," 28 10 93)) [] (MetaField (mkSpan (mkPtok 14 "zchar[" 26 3 89) (mkPtok 40 "," 28 10 93)) None (mkMetaDecl (mkSpan (mkPtok 14 "zchar[" 26 3 89) (mkPtok 40 "," 28 10 93)) (TyFixed (mkSpan (mkPtok 14 "zchar[" 26 3 89) (mkPtok 13 "]" 27 6 91)) (mkFixedString (mkSpan (mkPtok 14 "zchar[" 26 3 89) (mkPtok 13 "]" 27 6 91)) (mkPtok 14 "zchar[" 26 3 89) (mkPtok 30 "3" 27 4 90) (mkPtok 13 "]" 27 6 91))) (mkPtok 42 "x_y_z" 28 4 92) None (mkPtok 40 "," 28 10 93)))); (mkFieldWithAttr (mkSpan (mkPtok 42 "chars" 29 4 94) (mkPtok 40 "," 32 2 99)) [] (CheckSumField (mkSpan (mkPtok 42 "chars" 29 4 94) (mkPtok 40 "," 32 2 99)) (mkChecksumFieldDecl (mkSpan (mkPtok 42 "chars" 29 4 94) (mkPtok 40 "," 32 2 99)) None (mkPtok 42 "chars" 29 4 94) (mkCalculatedFrom (mkSpan (mkPtok 5 "@calculatedFrom(" 30 0 96) (mkPtok 6 ")" 32 0 98)) (mkPtok 5 "@calculatedFrom(" 30 0 96) (mkPtok 31 """a\""b""" 31 4 97) (mkPtok 6 ")" 32 0 98)) None (mkPtok 40 "," 32 2 99)))); (mkFieldWithAttr (mkSpan (mkPtok 9 "@tag(" 32 4 100) (mkPtok 40 "," 34 25 115)) [(FATag (mkSpan (mkPtok 9 "@tag(" 32 4 100) (mkPtok 6 ")" 32 20 102)) (mkTagAttr (mkSpan (mkPtok 9 "@tag(" 32 4 100) (mkPtok 6 ")" 32 20 102)) (mkPtok 9 "@tag(" 32 4 100) (mkPtok 30 "0123456789" 32 9 101) (mkPtok 6 ")" 32 20 102))); (FALengthOf (mkSpan (mkPtok 7 "@lengthOf(" 32 22 103) (mkPtok 6 ")" 32 38 105)) (mkLengthOf (mkSpan (mkPtok 7 "@lengthOf(" 32 22 103) (mkPtok 6 ")" 32 38 105)) (mkPtok 7 "@lengthOf(" 32 22 103) (mkPtok 42 "body" 32 33 104) (mkPtok 6 ")" 32 38 105))); (FAPadding (mkSpan (mkPtok 32 "@rightPad" 32 40 106) (mkPtok 6 ")" 33 0 109)) (mkPaddingAttr (mkSpan (mkPtok 32 "@rightPad" 32 40 106) (mkPtok 6 ")" 33 0 109)) (mkPtok 32 "@rightPad" 32 40 106) (mkPtok 8 "(" 32 50 107) (Some (mkPtok 33 "'\x00'" 32 52 108)) (mkPtok 6 ")" 33 0 109)))] (LengthField (mkSpan (mkPtok 21 "u16" 34 0 110) (mkPtok 40 "," 34 25 115)) (mkLengthFieldDecl (mkSpan (mkPtok 21 "u16" 34 0 110) (mkPtok 40 "," 34 25 115)) (Some (TyBasic (mkSpan (mkPtok 21 "u16" 34 0 110) (mkPtok 21 "u16" 34 0 110)) (mkBasicType (mkSpan (mkPtok 21 "u16" 34 0 110) (mkPtok 21 "u16" 34 0 110)) (mkPtok 21 "u16" 34 0 110)))) (mkPtok 42 "rootA" 34 4 111) (mkLengthOf (mkSpan (mkPtok 7 "@lengthOf(" 34 9 112) (mkPtok 6 ")" 34 24 114)) (mkPtok 7 "@lengthOf(" 34 9 112) (mkPtok 42 "tag" 34 20 113) (mkPtok 6 ")" 34 24 114)) None (mkPtok 40 "," 34 25 115)))); (mkFieldWithAttr (mkSpan (mkPtok 25 "int16" 35 4 116) (mkPtok 40 "," 36 4 119)) [] (MetaField (mkSpan (mkPtok 25 "int16" 35 4 116) (mkPtok 40 "," 36 4 119)) None (mkMetaDecl (mkSpan (mkPtok 25 "int16" 35 4 116) (mkPtok 40 "," 36 4 119)) (TyBasic (mkSpan (mkPtok 25 "int16" 35 4 116) (mkPtok 25 "int16" 35 4 116)) (mkBasicType (mkSpan (mkPtok 25 "int16" 35 4 116) (mkPtok 25 "int16" 35 4 116)) (mkPtok 25 "int16" 35 4 116))) (mkPtok 42 "int" 36 0 118) None (mkPtok 40 "," 36 4 119)))); (mkFieldWithAttr (mkSpan (mkPtok 26 "int32" 37 0 120) (mkPtok 40 "," 37 17 122)) [] (MetaField (mkSpan (mkPtok 26 "int32" 37 0 120) (mkPtok 40 "," 37 17 122)) None (mkMetaDecl (mkSpan (mkPtok 26 "int32" 37 0 120) (mkPtok 40 "," 37 17 122)) (TyBasic (mkSpan (mkPtok 26 "int32" 37 0 120) (mkPtok 26 "int32" 37 0 120)) (mkBasicType (mkSpan (mkPtok 26 "int32" 37 0 120) (mkPtok 26 "int32" 37 0 120)) (mkPtok 26 "int32" 37 0 120))) (mkPtok 42 "BodyLength" 37 6 121) None (mkPtok 40 "," 37 17 122))))] (mkPtok 3 "}" 37 18 123)))])).
Eval vm_compute in ("<<<M2005>>>" ++ check (runes_of_ascii "options {
	StringPrefixLenType = u16;
	ArrayPrefixLenType = u16;
}

packet SampleBinary {
	uint16 MsgType `" ++ [28040; 24687; 31867; 22411]%N ++ runes_of_ascii "`,
	u16 BodyLenght @lengthOf(Body) `" ++ [28040; 24687; 20307; 38271; 24230]%N ++ runes_of_ascii "`,
	match MsgType as Body {
		1 : Logon,
		2 : Logout,
		3 : Heartbeat,
		4 : RiskControlRequest,
		5 : RiskControlResponse,
	},
	@calculatedFrom(""CRC32"")
	u32 Ckecksum `" ++ [26657; 39564; 21644]%N ++ runes_of_ascii "`,
}

packet Logon {
	@leftPad('0')
	char[10] UserName `" ++ [29992; 25143; 21517]%N ++ runes_of_ascii "`,
	string Password `" ++ [23494; 30721]%N ++ runes_of_ascii "`,
	uint64 ClientId `" ++ [23458; 25143; 31471]%N ++ runes_of_ascii "ID`,
	u16 HeartbeatInterval `" ++ [24515; 36339; 38388; 38548]%N ++ runes_of_ascii "`,
}

packet Logout {
	@rightPad('0')
	char[10] UserName `" ++ [29992; 25143; 21517]%N ++ runes_of_ascii "`,
	uint64 ClientId `" ++ [23458; 25143; 31471]%N ++ runes_of_ascii "ID`,
}

packet Heartbeat {
}

packet RiskControlRequest {
	string UniqueOrderId `" ++ [21807; 19968; 35746; 21333; 21495]%N ++ runes_of_ascii "`,
	char[16] ClOrdID `" ++ [23458; 25143; 35746; 21333; 21495]%N ++ runes_of_ascii "`,
	char[3] MarketID `" ++ [24066; 22330]%N ++ runes_of_ascii "id`,
	char[12] SecurityID `" ++ [35777; 21048; 20195; 30721]%N ++ runes_of_ascii "`,
	char Side `" ++ [20080; 21334; 26041; 21521]%N ++ runes_of_ascii "`,
	char OrderType `" ++ [35746; 21333; 31867; 22411]%N ++ runes_of_ascii "`,
	u64 Price `" ++ [20215; 26684]%N ++ runes_of_ascii "`,
	u32 Qty `" ++ [25968; 37327]%N ++ runes_of_ascii "`,
	repeat string ExtraInfo `" ++ [38468; 21152; 20449; 24687]%N ++ runes_of_ascii "`,
	repeat SubOrder {
		char[16] ClOrdID `" ++ [23376; 35746; 21333; 21495]%N ++ runes_of_ascii "`,
		u64 Price `" ++ [23376; 35746; 21333; 20215; 26684]%N ++ runes_of_ascii "`,
		u32 Qty `" ++ [23376; 35746; 21333; 25968; 37327]%N ++ runes_of_ascii "`,
	},
}

packet RiskControlResponse {
	string UniqueOrderId `" ++ [21807; 19968; 35746; 21333; 21495]%N ++ runes_of_ascii "`,
	i32 Status `" ++ [29366; 24577]%N ++ runes_of_ascii "`,
	string Msg `" ++ [32467; 26524; 20449; 24687]%N ++ runes_of_ascii "`,
	repeat Detail,
}

packet Detail {
	string RuleName `" ++ [35268; 21017; 21517; 31216]%N ++ runes_of_ascii "`,
	u16 Code `" ++ [21407; 22240; 20195; 30721]%N ++ runes_of_ascii "`,
}")).
Eval vm_compute in ("<<<M2037>>>" ++ check (runes_of_ascii "MetaData repeatCount { float64 packetx metadata
} root packet  metadata {
char _x @lengthOf( trueish ), @leftPad
( ' '// " ++ [27880; 37322]%N ++ runes_of_ascii "
)/// triple
char[] len`doc` , // packet A { u8 x, }
repeatCount , }
")).
Eval vm_compute in ("<<<M2069>>>" ++ check (runes_of_ascii "MetaData repeatCount { float64 packetx,
} root packet  metadata {
char  @lengthOf( trueish ), @leftPad
( ' '// " ++ [27880; 37322]%N ++ runes_of_ascii "
)/// triple
char[] len`doc` , // packet A { u8 x, }
repeatCount , }
")).
Eval vm_compute in ("<<<M2101>>>" ++ check (runes_of_ascii "MetaData repeatCount { float64 packetx,
} root packet  metadata {
char _x @lengthOf( trueish ), @leftPad
' ' (// " ++ [27880; 37322]%N ++ runes_of_ascii "
)/// triple
char[] len`doc` , // packet A { u8 x, }
repeatCount , }
")).
Eval vm_compute in ("<<<M2133>>>" ++ check (runes_of_ascii "MetaData repeatCount { float64 packetx,
} root packet  metadata {
char _x @lengthOf( trueish ), @leftPad
( ' '// " ++ [27880; 37322]%N ++ runes_of_ascii "
)/// triple
char[] len`doc`")).
Eval vm_compute in ("<<<M2165>>>" ++ check (runes_of_ascii "MetaData repeatCount { float64 packetx,
} root packet  metadata {
char _x @lengthOf( trueish ), @leftPad
( ' '// " ++ [27880; 37322]%N ++ runes_of_ascii "
)/// triple
char[] len" ++ [65279]%N ++ runes_of_ascii " `doc` , // packet A { u8 x, }
repeatCount , }
")).
Eval vm_compute in ("<<<M2197>>>" ++ check (runes_of_ascii "options{
leftPad
    =65535
a1
; = true ; packetx=  '\x00' ; packetx
=  """ ++ [28040; 24687]%N ++ runes_of_ascii """MetaDataX= // " ++ [27880; 37322]%N ++ runes_of_ascii "
false }root // c
packet // packet A { u8 x, }
Pad { repeat
u8 Header
// packet A { u8 x, }
//	t
`{ , }`
// a // b
//x
, }
")).
Eval vm_compute in ("<<<M2229>>>" ++ check (runes_of_ascii "options{
leftPad
    =65535
;
a1 = true ; packetx")).
Eval vm_compute in ("<<<M2261>>>" ++ check (runes_of_ascii "options{
leftPad
    =65535
;
a1 = true ; packetx=  '\x00' ; packetx
=  """ ++ [28040; 24687]%N ++ runes_of_ascii """MetaDataX= = // " ++ [27880; 37322]%N ++ runes_of_ascii "
false }root // c
packet // packet A { u8 x, }
Pad { repeat
u8 Header
// packet A { u8 x, }
//	t
`{ , }`
// a // b
//x
, }
")).
Eval vm_compute in ("<<<M2293>>>" ++ check (runes_of_ascii "options{
leftPad
    =65535
;
a1 = true ; packetx=  '\x00' ; packetx
=  """ ++ [28040; 24687]%N ++ runes_of_ascii """MetaDataX= // " ++ [27880; 37322]%N ++ runes_of_ascii "
false }root // c
packet // packet A { u8 x, }
Pad : repeat
u8 Header
// packet A { u8 x, }
//	t
`{ , }`
// a // b
//x
, }
")).
Eval vm_compute in ("<<<M2325>>>" ++ check (runes_of_ascii "options{
leftPad
    =65535
;
a1 = true ; packetx=  '\x00' ; packetx
=  """ ++ [28040; 24687]%N ++ runes_of_ascii """MetaDataX= // " ++ [27880; 37322]%N ++ runes_of_ascii "
false }root // c
packet // packet A { u8 x, }
Pad { repeat
u8 H")).
Eval vm_compute in ("<<<M2357>>>" ++ check (runes_of_ascii "
packet float
{ {	@calculatedFrom( """ ++ [233]%N ++ runes_of_ascii "t" ++ [233]%N ++ runes_of_ascii """ )
@rightPad ( '\x00' )
    @calculatedFrom( ""x y"" ) string chars  ,
    // a // b
    char[0 ]
    u	@lengthOf( i8i8 ) `{ , }` ,repeat char[] o //x
`// not a comment`, } // c")).
Eval vm_compute in ("<<<M2389>>>" ++ check (runes_of_ascii "
packet float
{	@calculatedFrom( """ ++ [233]%N ++ runes_of_ascii "t" ++ [233]%N ++ runes_of_ascii """ )
@rightPad ( i8 )
    @calculatedFrom( ""x y"" ) string chars  ,
    // a // b
    char[0 ]
    u	@lengthOf( i8i8 ) `{ , }` ,repeat char[] o //x
`// not a comment`, } // c")).
Eval vm_compute in ("<<<M2421>>>" ++ check (runes_of_ascii "
packet float
{	@calculatedFrom( """ ++ [233]%N ++ runes_of_ascii "t" ++ [233]%N ++ runes_of_ascii """ )
@rightPad ( '\x00' )
    @calculatedFrom( ""x y"" ) string chars  
    // a // b
    char[0 ]
    u	@lengthOf( i8i8 ) `{ , }` ,repeat char[] o //x
`// not a comment`, } // c")).
Eval vm_compute in ("<<<M2453>>>" ++ check (runes_of_ascii "
packet float
{	@calculatedFrom( """ ++ [233]%N ++ runes_of_ascii "t" ++ [233]%N ++ runes_of_ascii """ )
@rightPad ( '\x00' )
    @calculatedFrom( ""x y"" ) string chars  ,
    // a // b
    char[0 ]
    u	@lengthOf( ) i8i8 `{ , }` ,repeat char[] o //x
`// not a comment`, } // c")).
Eval vm_compute in ("<<<M2485>>>" ++ check (runes_of_ascii "
packet float
{	@calculatedFrom( """ ++ [233]%N ++ runes_of_ascii "t" ++ [233]%N ++ runes_of_ascii """ )
@rightPad ( '\x00' )
    @calculatedFrom( ""x y"" ) string chars  ,
    // a // b
    char[0 ]
    u	@lengthOf( i8i8 ) `{ , }` ,repeat char[]")).
Eval vm_compute in ("<<<M2517>>>" ++ check (runes_of_ascii "
packet float
{	@calculatedFrom( """ ++ [233]%N ++ runes_of_ascii "t" ++ [233]%N ++ runes_of_ascii """ )
@rightPad ( ~ '\x00' )
    @calculatedFrom( ""x y"" ) string chars  ,
    // a // b
    char[0 ]
    u	@lengthOf( i8i8 ) `{ , }` ,repeat char[] o //x
`// not a comment`, } // c")).
Eval vm_compute in ("<<<M2549>>>" ++ check (runes_of_ascii "root packet u128{
    repeat
    65535 zchar[ ] u `" ++ [28040; 24687; 31867; 22411]%N ++ runes_of_ascii "` ,// `tick` ""quote"" 'q'
} packet i64_ {repeatCount
    `
` ,	} // " ++ [128512]%N ++ runes_of_ascii " emoji")).
Eval vm_compute in ("<<<M2581>>>" ++ check (runes_of_ascii "root packet u128{
    repeat
    zchar[ 65535 ] u `" ++ [28040; 24687; 31867; 22411]%N ++ runes_of_ascii "` ,")).
Eval vm_compute in ("<<<M2613>>>" ++ check (runes_of_ascii "root packet u128{
    repeat
    zchar[ 65535 ] u `" ++ [28040; 24687; 31867; 22411]%N ++ runes_of_ascii "` ,// `tick` ""quote"" 'q'
} packet i64_ {repeatCount
    `
` ,	} } // " ++ [128512]%N ++ runes_of_ascii " emoji")).
Eval vm_compute in ("<<<M2645>>>" ++ check (runes_of_ascii "
MetaData
{ roots int8
    BodyLength ,//	t
}
")).
Eval vm_compute in ("<<<M2677>>>" ++ check (runes_of_ascii "
MetaData
roots { @lengthOfint8
    BodyLength ,//	t
}
")).
Eval vm_compute in ("<<<M2709>>>" ++ check (runes_of_ascii "options {Packet  ""CRC32""i8i8 = false; leftPad =
    '\x00'
    // `tick` ""quote"" 'q'
    ; o=255  ;
    // packet A { u8 x, }
    }")).
Eval vm_compute in ("<<<M2741>>>" ++ check (runes_of_ascii "options {Packet = ""CRC32""i8i8 = false; = leftPad
    '\x00'
    // `tick` ""quote"" 'q'
    ; o=255  ;
    // packet A { u8 x, }
    }")).
Eval vm_compute in ("<<<M2773>>>" ++ check (runes_of_ascii "options {Packet = ""CRC32""i8i8 = false; leftPad =
    '\x00'
    // `tick` ""quote"" 'q'
    ; o=")).
Eval vm_compute in ("<<<M2805>>>" ++ check (runes_of_ascii "
 metadata { @rightPad (
    // packet A { u8 x, }
    ' ' ) repeat u32	A
,matchKey ,
    @lengthOf( string_ ) @lengthOf( body )
    // a // b
    @lengthOf(float  )	repeat
int32 u8x
    // c
    `tab	here`
, } // a // b")).
Eval vm_compute in ("<<<M2837>>>" ++ check (runes_of_ascii "
packet metadata { @rightPad (
    // packet A { u8 x, }
    ' ' repeat ) u32	A
,matchKey ,
    @lengthOf( string_ ) @lengthOf( body )
    // a // b
    @lengthOf(float  )	repeat
int32 u8x
    // c
    `tab	here`
, } // a // b")).
Eval vm_compute in ("<<<M2869>>>" ++ check (runes_of_ascii "
packet metadata { @rightPad (
    // packet A { u8 x, }
    ' ' ) repeat u32	A
,matchKey")).
Eval vm_compute in ("<<<M2901>>>" ++ check (runes_of_ascii "
packet metadata { @rightPad (
    // packet A { u8 x, }
    ' ' ) repeat u32	A
,matchKey ,
    @lengthOf( string_ ) @lengthOf( body )
    // a // b
    @lengthOf( @lengthOf(float  )	repeat
int32 u8x
    // c
    `tab	here`
, } // a // b")).
Eval vm_compute in ("<<<M2933>>>" ++ check (runes_of_ascii "
packet metadata { @rightPad (
    // packet A { u8 x, }
    ' ' ) repeat u32	A
,matchKey ,
    @lengthOf( string_ ) @lengthOf( body )
    // a // b
    @lengthOf(float  )	repeat
int32 u8x
    // c
    @lengthOf(
, } // a // b")).
Eval vm_compute in ("<<<M2965>>>" ++ check (runes_of_ascii "
packet metadata { @rightPad (
    // packet A { u8 x, }
    ' ' ) repeat u32	A
,matchKey ,
    @lengthOf( string_ ) @lengthOf( caf" ++ [233]%N ++ runes_of_ascii "_1 )
    // a // b
    @lengthOf(float  )	repeat
int32 u8x
    // c
    `tab	here`
, } // a // b")).
Eval vm_compute in ("<<<M2997>>>" ++ check (runes_of_ascii "packet x{
string
zchar , //	t
} }
")).
Eval vm_compute in ("<<<M3029>>>" ++ check (runes_of_ascii "
MetaData {
Logon // c
}root packet
    Pad {
    } options
{
u
    =
    ""CRC32""
    // " ++ [128512]%N ++ runes_of_ascii " emoji
    i64_ = u16;
T =65535 x = ' '
    ; u128
= true ; }")).
Eval vm_compute in ("<<<M3061>>>" ++ check (runes_of_ascii "
MetaData Logon
{ // c
}root packet
    Pad")).
Eval vm_compute in ("<<<M3093>>>" ++ check (runes_of_ascii "
MetaData Logon
{ // c
}root packet
    Pad {
    } options
{
u
    =
    ""CRC32""
    // " ++ [128512]%N ++ runes_of_ascii " emoji
    i64_ i64_ = u16;
T =65535 x = ' '
    ; u128
= true ; }")).
Eval vm_compute in ("<<<M3125>>>" ++ check (runes_of_ascii "
MetaData Logon
{ // c
}root packet
    Pad {
    } options
{
u
    =
    ""CRC32""
    // " ++ [128512]%N ++ runes_of_ascii " emoji
    i64_ = u16;
T =root x = ' '
    ; u128
= true ; }")).
Eval vm_compute in ("<<<M3157>>>" ++ check (runes_of_ascii "
MetaData Logon
{ // c
}root packet
    Pad {
    } options
{
u
    =
    ""CRC32""
    // " ++ [128512]%N ++ runes_of_ascii " emoji
    i64_ = u16;
T =65535 x = ' '
    ; u128
=  ; }")).
Eval vm_compute in ("<<<M3189>>>" ++ check (runes_of_ascii "
MetaData Logon
{ // c
}root packet
    Pad {
    } options
{
u
    =
    ""CRC32""
    // " ++ [128512]%N ++ runes_of_ascii " emoji
    i64_ = u16;
T |=65535 x = ' '
    ; u128
= true ; }")).
Eval vm_compute in ("<<<M3221>>>" ++ check (runes_of_ascii "MetaData body{}
packet	char { x_y_z @calculatedFrom(  ""a\\"")// `tick` ""quote"" 'q'
, }
")).
Eval vm_compute in ("<<<M3253>>>" ++ check (runes_of_ascii "MetaData body{}
packet	Packet { x_y_z @calculatedFrom(  ""a\\"")// `tick` ""quote"" 'q'
, 
")).
Eval vm_compute in ("<<<M3285>>>" ++ check (runes_of_ascii "packet f32a f32a {} root packet len {repeat u // " ++ [128512]%N ++ runes_of_ascii " emoji
`{ , }` , }
")).
Eval vm_compute in ("<<<M3317>>>" ++ check (runes_of_ascii "packet f32a {} root packet len options repeat u // " ++ [128512]%N ++ runes_of_ascii " emoji
`{ , }` , }
")).
Eval vm_compute in ("<<<M3349>>>" ++ check (runes_of_ascii "packet f32a {} root packet len |{repeat u // " ++ [128512]%N ++ runes_of_ascii " emoji
`{ , }` , }
")).
Eval vm_compute in ("<<<M3381>>>" ++ check (runes_of_ascii "options{ _x=""\" ++ [233]%N ++ runes_of_ascii """;")).
Eval vm_compute in ("<<<M3413>>>" ++ check (runes_of_ascii "options{ _x=""\" ++ [233]%N ++ runes_of_ascii """;
    Logon = = 10	; Foo= 7;
i64_= char[]} options {
matchKey = ""// no comment"" // a // b
falsey = string
; trueish =
    4294967296
options1=
    ""it's"" string_	= true } options {
    /// triple
    }")).
Eval vm_compute in ("<<<M3445>>>" ++ check (runes_of_ascii "options{ _x=""\" ++ [233]%N ++ runes_of_ascii """;
    Logon = 10	; Foo= 7;
i64_= char[]} options {
matchKey = ""// no comment"" // a // b
falsey = string
; trueish =
    4/294967296
options1=
    ""it's"" string_	= true } options {
    /// triple
    }")).
Eval vm_compute in ("<<<M3477>>>" ++ check (runes_of_ascii "options{ _x=""\" ++ [233]%N ++ runes_of_ascii """;
    Logon = 10	; Foo= 7;
i64_= char[]} options {
matchKey = ""// no comment"" // a // b
caf" ++ [233]%N ++ runes_of_ascii "_1 = string
; trueish =
    4294967296
options1=
    ""it's"" string_	= true } options {
    /// triple
    }")).
Eval vm_compute in ("<<<M3509>>>" ++ check (runes_of_ascii "f32 f64 float32 float64 float")).
Eval vm_compute in ("<<<M3541>>>" ++ check (runes_of_ascii "'1'")).
Eval vm_compute in ("<<<M3573>>>" ++ check (runes_of_ascii """""")).
Eval vm_compute in ("<<<M3605>>>" ++ check (runes_of_ascii "A1b2")).
Eval vm_compute in ("<<<M3637>>>" ++ check (runes_of_ascii "packet A { x, }")).
Eval vm_compute in ("<<<M3669>>>" ++ check (runes_of_ascii "packet A { match k as n { }, }")).
Eval vm_compute in ("<<<M3701>>>" ++ check (runes_of_ascii "packet A { } // c")).
Eval vm_compute in ("<<<M3733>>>" ++ check (runes_of_ascii "options { a = char[x]; }")).
Eval vm_compute in ("<<<M3765>>>" ++ check (runes_of_ascii "Q0tg@C&")).
Eval vm_compute in ("<<<M3797>>>" ++ check (runes_of_ascii "f'6*W(_4$|)xOGE;N60pK&jsdP+Cp_:8Jk9@99m")).
Eval vm_compute in ("<<<M3829>>>" ++ check (runes_of_ascii "S6tO<"")S0tM>-?:$")).
Eval vm_compute in ("<<<M3861>>>" ++ check (runes_of_ascii "X<9,xiDM:zDB=yFx")).
Eval vm_compute in ("<<<M3893>>>" ++ check (runes_of_ascii "Y:I%{4""y^r$Tv0GA=%ex=")).
Eval vm_compute in ("<<<M3925>>>" ++ check (runes_of_ascii "rs""kQ""\@3-lR^$Qj~]WZgKH ::z>j^qw'iS>Syo?")).
Eval vm_compute in ("<<<M3957>>>" ++ check (runes_of_ascii "c7x""IU1\1:7;qP""QL""7EJSjtO>DCs4D")).
Eval vm_compute in ("<<<M3989>>>" ++ check (runes_of_ascii "C2mXituz<a,I'IF6")).
