From FP Require Import Lexer Parser ShowPT Digest.
From Coq Require Import String List NArith.
Import ListNotations.
Open Scope string_scope.
Set Printing Width 100000000.
Set Printing Depth 100000000.
Definition nl : string := String (Ascii.ascii_of_nat 10) EmptyString.
Definition model_lex (rs : list rune) : string := show_toks (lex rs).
Definition model_parse (rs : list rune) : string :=
  show_pt (match lex rs with Some ts => parse ts | None => None end).
(* coqc is slow at printing long strings: digests first (Digest.v), full texts on demand *)
Definition check (rs : list rune) : string :=
  digest (model_lex rs) ++ " " ++ digest (model_parse rs).
Definition full (rs : list rune) : string := model_lex rs ++ nl ++ model_parse rs.
Definition terms (ts : list tok) (t : pt) : string :=
  digest (show_toks (Some ts)) ++ " " ++ digest (show_pt (Some t)) ++ " " ++ digest (show_pt (parse ts)).
Definition terms_full (ts : list tok) (t : pt) : string :=
  show_toks (Some ts) ++ nl ++ show_pt (Some t) ++ nl ++ show_pt (parse ts).
Eval vm_compute in ("<<<M7>>>" ++ check (runes_of_ascii "
packet stringy {
    @tag( 3
) @rightPad ( ) //x
@lengthOf( charz ) i8i8
@lengthOf(
    // @lengthOf(
    BodyLength )
`line1
line2` , msg_type @calculatedFrom( ""CRC32""
    )
,
    }
packet a1 {
repeat i32 x  , i16
msg_type @calculatedFrom( ""it's""  ) `crlf
line`, }  packet
// a // b
// @lengthOf(
Z9_  {repeat asx
    `100% of %d` ,int ,
// " ++ [128512]%N ++ runes_of_ascii " emoji
// " ++ [27880; 37322]%N ++ runes_of_ascii "
@tag( 10) int16  Logon ,i64 roots `line1
line2` , u64 Pad@calculatedFrom(  ""\" ++ [233]%N ++ runes_of_ascii """ )	,@leftPad
// " ++ [27880; 37322]%N ++ runes_of_ascii "
// a // b
(
) @leftPad ( ' ' ) @tag(007 )
u
@calculatedFrom(""" ++ [233]%N ++ runes_of_ascii "t" ++ [233]%N ++ runes_of_ascii """ ) `
`
,
}	packet  asx {string i64_ @lengthOf( pack ) ,@tag(
10)
char[ 1 ]T  , repeat leftPad { repeat uint64 repeatCount ,
int64
// " ++ [27880; 37322]%N ++ runes_of_ascii "
// trailing space 
pack
`it's` , repeat char[ 255  ] BodyLength, } ,
// `tick` ""quote"" 'q'
//	t
@lengthOf( f32a ) calculatedFrom { roots//
,
match metadata as x_y_z
// 50% %s
// 50% %s
{
42
:metadata
[ ""\n""
,""a\\""]:As [  0,"""" ,42 , 4294967296 ,""abc"" , ""CRC32"", ""a	b"" , 007 ]
:falsey,
[
    ""a	b""
, 7 ]
: i64_// @lengthOf(
,
[ """ ++ [28040; 24687]%N ++ runes_of_ascii """
,
""{,}"" ,  65535 ,
42 , ""{,}"" ,255 ,
255
    ]: string_/// triple
,
    7 // a // b
: T }
, } , }")).
Eval vm_compute in ("<<<M17>>>" ++ check (runes_of_ascii "MetaData
matchKey
    { trueish Packet `// not a comment` , stringy calculatedFrom`tab	here`
    //
    , matchKey  o `doc` , } // 50% %s")).
Eval vm_compute in ("<<<M27>>>" ++ check (runes_of_ascii "MetaData charz
/// triple
// 50% %s
{
u32 metadata , }
root packet u{ @tag( 42 )
    repeat uint8
Foo , }
")).
Eval vm_compute in ("<<<T27>>>" ++ terms [mkTok 37 "MetaData" 1 0 false; mkTok 42 "charz" 1 9 false; mkTok 44 "/// triple" 2 0 true; mkTok 44 "// 50% %s" 3 0 true; mkTok 2 "{" 4 0 false; mkTok 22 "u32" 5 0 false; mkTok 42 "metadata" 5 4 false; mkTok 40 "," 5 13 false; mkTok 3 "}" 5 15 false; mkTok 34 "root" 6 0 false; mkTok 35 "packet" 6 5 false; mkTok 42 "u" 6 12 false; mkTok 2 "{" 6 13 false; mkTok 9 "@tag(" 6 15 false; mkTok 30 "42" 6 21 false; mkTok 6 ")" 6 24 false; mkTok 36 "repeat" 7 4 false; mkTok 20 "uint8" 7 11 false; mkTok 42 "Foo" 8 0 false; mkTok 40 "," 8 4 false; mkTok 3 "}" 8 6 false; mkTok 0 "<EOF>" 9 0 false] (mkPacket (mkPtok 37 "MetaData" 1 0 0) (Some (mkPtok 3 "}" 8 6 20)) [(DMeta (mkMetaDef (mkSpan (mkPtok 37 "MetaData" 1 0 0) (mkPtok 3 "}" 5 15 8)) (mkPtok 37 "MetaData" 1 0 0) (mkPtok 42 "charz" 1 9 1) (mkPtok 2 "{" 4 0 4) [(MIDecl (mkMetaDecl (mkSpan (mkPtok 22 "u32" 5 0 5) (mkPtok 40 "," 5 13 7)) (TyBasic (mkSpan (mkPtok 22 "u32" 5 0 5) (mkPtok 22 "u32" 5 0 5)) (mkBasicType (mkSpan (mkPtok 22 "u32" 5 0 5) (mkPtok 22 "u32" 5 0 5)) (mkPtok 22 "u32" 5 0 5))) (mkPtok 42 "metadata" 5 4 6) None (mkPtok 40 "," 5 13 7)))] (mkPtok 3 "}" 5 15 8))); (DPacket (mkPacketDef (mkSpan (mkPtok 34 "root" 6 0 9) (mkPtok 3 "}" 8 6 20)) (Some (mkPtok 34 "root" 6 0 9)) (mkPtok 35 "packet" 6 5 10) (mkPtok 42 "u" 6 12 11) (mkPtok 2 "{" 6 13 12) [(mkFieldWithAttr (mkSpan (mkPtok 9 "@tag(" 6 15 13) (mkPtok 40 "," 8 4 19)) [(FATag (mkSpan (mkPtok 9 "@tag(" 6 15 13) (mkPtok 6 ")" 6 24 15)) (mkTagAttr (mkSpan (mkPtok 9 "@tag(" 6 15 13) (mkPtok 6 ")" 6 24 15)) (mkPtok 9 "@tag(" 6 15 13) (mkPtok 30 "42" 6 21 14) (mkPtok 6 ")" 6 24 15)))] (MetaField (mkSpan (mkPtok 36 "repeat" 7 4 16) (mkPtok 40 "," 8 4 19)) (Some (mkPtok 36 "repeat" 7 4 16)) (mkMetaDecl (mkSpan (mkPtok 20 "uint8" 7 11 17) (mkPtok 40 "," 8 4 19)) (TyBasic (mkSpan (mkPtok 20 "uint8" 7 11 17) (mkPtok 20 "uint8" 7 11 17)) (mkBasicType (mkSpan (mkPtok 20 "uint8" 7 11 17) (mkPtok 20 "uint8" 7 11 17)) (mkPtok 20 "uint8" 7 11 17))) (mkPtok 42 "Foo" 8 0 18) None (mkPtok 40 "," 8 4 19))))] (mkPtok 3 "}" 8 6 20)))])).
Eval vm_compute in ("<<<M37>>>" ++ check (runes_of_ascii "MetaData metadata {
    int8
MetaDataX
    ,char
Header /// triple
`say ""hi""` , A msg_type ,}
")).
Eval vm_compute in ("<<<M47>>>" ++ check (runes_of_ascii "root
packet
metadata //	t
{ @lengthOf( rootA ) string
    Logon@lengthOf( u8x
    ) , uint8 repeatCount @lengthOf( //x
crc )
`it's` , @lengthOf( MetaDataX ) match x as x_y_z { 65535:
uint8x, // " ++ [27880; 37322]%N ++ runes_of_ascii "
[	""// no comment""
    , ""// no comment"" ,  """ ++ [233]%N ++ runes_of_ascii "t" ++ [233]%N ++ runes_of_ascii """ , ""\" ++ [233]%N ++ runes_of_ascii """ , //
7	, 1,""" ++ [128512]%N ++ runes_of_ascii """] :BodyLength ,
    """ ++ [128512]%N ++ runes_of_ascii """ :
    u8x ,65535 :metadata,	""" ++ [233]%N ++ runes_of_ascii "t" ++ [233]%N ++ runes_of_ascii """
/// triple
// 50% %s
: Packet,// packet A { u8 x, }
} , packetx i8i8
    `100% of %d` ,  char[] u8x
    @calculatedFrom(""{,}""  )
`u8 x,`, zchar[ 3
] Z9_
,@calculatedFrom( """"
    ) @lengthOf(	trueish ) @lengthOf(
lengthOf) tag , uint64 // packet A { u8 x, }
metadata // 50% %s
`100% of %d`
,
}
")).
Eval vm_compute in ("<<<M57>>>" ++ check (runes_of_ascii "packet //	t
trueish
{/// triple
string crc`two words`,
T chars , }
packet
asx	{ @leftPad ( '0'
) match x as u8x { [ ""{,}"" ,
1 ,
65535, ""// no comment""	,  7,3 ,// c
10
,	42 ]:
    o ,
}
, // c
@leftPad(	'0'	) //	t
repeat	int64
    f32a`doc` ,  @tag( 4294967296)	@rightPad
    (
// trailing space 
//x
' ') @tag( 3)	o
`u8 x,` ,} packet	options1//x
{ // `tick` ""quote"" 'q'
char crc,
    rootA
//
// a // b
`a\` ,
    }
")).
Eval vm_compute in ("<<<M67>>>" ++ check (runes_of_ascii "packet
    BodyLength // `tick` ""quote"" 'q'
{
Foo BodyLength , char[] int @calculatedFrom(""// no comment""
    ) ,match pack
as	i8i8
// c
// c
{
""a\""b"" :
// c
//x
rootA ,
    } ,}MetaData pack
    { pack packetx// `tick` ""quote"" 'q'
, i8 f32a , u64
MetaDataX ,  }
options { tag = /// triple
true
    // a // b
    ;
    falsey = true // " ++ [128512]%N ++ runes_of_ascii " emoji
trueish
    = ""1"" ; T
    // 50% %s
    = 7 Z9_=  '0' // `tick` ""quote"" 'q'
;
    }
options { leftPad =true ;
options1 = float64 Header = ' ' } // " ++ [27880; 37322]%N)).
Eval vm_compute in ("<<<M77>>>" ++ check (runes_of_ascii "options { Pad
    = char[ 7
] ;	asx
= ""CRC32"" ; a1 =	string ;}")).
Eval vm_compute in ("<<<M87>>>" ++ check (runes_of_ascii "root
    // @lengthOf(
    packet falsey { // c
repeat// " ++ [128512]%N ++ runes_of_ascii " emoji
zchar[ 42	]  f32a ,
matchKey@lengthOf( // packet A { u8 x, }
x ) , // `tick` ""quote"" 'q'
@calculatedFrom(""{,}""
) @leftPad
('\x00' ) //	t
repeat	f32a , @rightPad ( '\x00'
) T @lengthOf(	o ),
    }")).
Eval vm_compute in ("<<<M97>>>" ++ check (runes_of_ascii "packet calculatedFrom { repeat string x_y_z,As  @lengthOf(  options1
    ) `say ""hi""`
, @rightPad( ) int	{  repeat
As
    rootA``	,char[]
// " ++ [27880; 37322]%N ++ runes_of_ascii "
// `tick` ""quote"" 'q'
string_ ,// " ++ [27880; 37322]%N ++ runes_of_ascii "
repeat
    // " ++ [128512]%N ++ runes_of_ascii " emoji
    u128	u, } ,
    } packet
    Header{ }
packet charz {@lengthOf( rootA) u64 calculatedFrom @lengthOf( // c
lengthOf ) `100% of %d`
// 50% %s
// c
, asx @calculatedFrom( ""// no comment"" // `tick` ""quote"" 'q'
) , int32 len , } packet uint8x
{
    @tag(7 ) @calculatedFrom(""\n"" ) string _x , @calculatedFrom( ""`tick`""
    // trailing space 
    )@leftPad
    // trailing space 
    (' '
)// `tick` ""quote"" 'q'
zchar
,//x
@lengthOf( x_y_z ) o , i64_	pack ,
@leftPad (
)
    repeat zchar[ 255 //
] u , i8
    chars @calculatedFrom(
    // c
    ""a\\"" ) `crlf
line` ,
char u128 // a // b
`` ,
@calculatedFrom(/// triple
""\n"" )	repeat	tag body	,}
    // packet A { u8 x, }
    options{
    calculatedFrom =  i64 pack	= uint16 }
")).
Eval vm_compute in ("<<<T97>>>" ++ terms [mkTok 35 "packet" 1 0 false; mkTok 42 "calculatedFrom" 1 7 false; mkTok 2 "{" 1 22 false; mkTok 36 "repeat" 1 24 false; mkTok 15 "string" 1 31 false; mkTok 42 "x_y_z" 1 38 false; mkTok 40 "," 1 43 false; mkTok 42 "As" 1 44 false; mkTok 7 "@lengthOf(" 1 48 false; mkTok 42 "options1" 1 60 false; mkTok 6 ")" 2 4 false; mkTok 43 "`say ""hi""`" 2 6 false; mkTok 40 "," 3 0 false; mkTok 32 "@rightPad" 3 2 false; mkTok 8 "(" 3 11 false; mkTok 6 ")" 3 13 false; mkTok 42 "int" 3 15 false; mkTok 2 "{" 3 19 false; mkTok 36 "repeat" 3 22 false; mkTok 42 "As" 4 0 false; mkTok 42 "rootA" 5 4 false; mkTok 43 "``" 5 9 false; mkTok 40 "," 5 12 false; mkTok 16 "char[]" 5 13 false; mkTok 44 (string_of_bytes [47; 47; 32; 230; 179; 168; 233; 135; 138]%N) 6 0 true; mkTok 44 "// `tick` ""quote"" 'q'" 7 0 true; mkTok 42 "string_" 8 0 false; mkTok 40 "," 8 8 false; mkTok 44 (string_of_bytes [47; 47; 32; 230; 179; 168; 233; 135; 138]%N) 8 9 true; mkTok 36 "repeat" 9 0 false; mkTok 44 (string_of_bytes [47; 47; 32; 240; 159; 152; 128; 32; 101; 109; 111; 106; 105]%N) 10 4 true; mkTok 42 "u128" 11 4 false; mkTok 42 "u" 11 9 false; mkTok 40 "," 11 10 false; mkTok 3 "}" 11 12 false; mkTok 40 "," 11 14 false; mkTok 3 "}" 12 4 false; mkTok 35 "packet" 12 6 false; mkTok 42 "Header" 13 4 false; mkTok 2 "{" 13 10 false; mkTok 3 "}" 13 12 false; mkTok 35 "packet" 14 0 false; mkTok 42 "charz" 14 7 false; mkTok 2 "{" 14 13 false; mkTok 7 "@lengthOf(" 14 14 false; mkTok 42 "rootA" 14 25 false; mkTok 6 ")" 14 30 false; mkTok 23 "u64" 14 32 false; mkTok 42 "calculatedFrom" 14 36 false; mkTok 7 "@lengthOf(" 14 51 false; mkTok 44 "// c" 14 62 true; mkTok 42 "lengthOf" 15 0 false; mkTok 6 ")" 15 9 false; mkTok 43 "`100% of %d`" 15 11 false; mkTok 44 "// 50% %s" 16 0 true; mkTok 44 "// c" 17 0 true; mkTok 40 "," 18 0 false; mkTok 42 "asx" 18 2 false; mkTok 5 "@calculatedFrom(" 18 6 false; mkTok 31 """// no comment""" 18 23 false; mkTok 44 "// `tick` ""quote"" 'q'" 18 39 true; mkTok 6 ")" 19 0 false; mkTok 40 "," 19 2 false; mkTok 26 "int32" 19 4 false; mkTok 42 "len" 19 10 false; mkTok 40 "," 19 14 false; mkTok 3 "}" 19 16 false; mkTok 35 "packet" 19 18 false; mkTok 42 "uint8x" 19 25 false; mkTok 2 "{" 20 0 false; mkTok 9 "@tag(" 21 4 false; mkTok 30 "7" 21 9 false; mkTok 6 ")" 21 11 false; mkTok 5 "@calculatedFrom(" 21 13 false; mkTok 31 """\n""" 21 29 false; mkTok 6 ")" 21 34 false; mkTok 15 "string" 21 36 false; mkTok 42 "_x" 21 43 false; mkTok 40 "," 21 46 false; mkTok 5 "@calculatedFrom(" 21 48 false; mkTok 31 """`tick`""" 21 65 false; mkTok 44 "// trailing space " 22 4 true; mkTok 6 ")" 23 4 false; mkTok 32 "@leftPad" 23 5 false; mkTok 44 "// trailing space " 24 4 true; mkTok 8 "(" 25 4 false; mkTok 33 "' '" 25 5 false; mkTok 6 ")" 26 0 false; mkTok 44 "// `tick` ""quote"" 'q'" 26 1 true; mkTok 42 "zchar" 27 0 false; mkTok 40 "," 28 0 false; mkTok 44 "//x" 28 1 true; mkTok 7 "@lengthOf(" 29 0 false; mkTok 42 "x_y_z" 29 11 false; mkTok 6 ")" 29 17 false; mkTok 42 "o" 29 19 false; mkTok 40 "," 29 21 false; mkTok 42 "i64_" 29 23 false; mkTok 42 "pack" 29 28 false; mkTok 40 "," 29 33 false; mkTok 32 "@leftPad" 30 0 false; mkTok 8 "(" 30 9 false; mkTok 6 ")" 31 0 false; mkTok 36 "repeat" 32 4 false; mkTok 14 "zchar[" 32 11 false; mkTok 30 "255" 32 18 false; mkTok 44 "//" 32 22 true; mkTok 13 "]" 33 0 false; mkTok 42 "u" 33 2 false; mkTok 40 "," 33 4 false; mkTok 24 "i8" 33 6 false; mkTok 42 "chars" 34 4 false; mkTok 5 "@calculatedFrom(" 34 10 false; mkTok 44 "// c" 35 4 true; mkTok 31 """a\\""" 36 4 false; mkTok 6 ")" 36 10 false; mkTok 43 (string_of_bytes [96; 99; 114; 108; 102; 13; 10; 108; 105; 110; 101; 96]%N) 36 12 false; mkTok 40 "," 37 6 false; mkTok 19 "char" 38 0 false; mkTok 42 "u128" 38 5 false; mkTok 44 "// a // b" 38 10 true; mkTok 43 "``" 39 0 false; mkTok 40 "," 39 3 false; mkTok 5 "@calculatedFrom(" 40 0 false; mkTok 44 "/// triple" 40 16 true; mkTok 31 """\n""" 41 0 false; mkTok 6 ")" 41 5 false; mkTok 36 "repeat" 41 7 false; mkTok 42 "tag" 41 14 false; mkTok 42 "body" 41 18 false; mkTok 40 "," 41 23 false; mkTok 3 "}" 41 24 false; mkTok 44 "// packet A { u8 x, }" 42 4 true; mkTok 1 "options" 43 4 false; mkTok 2 "{" 43 11 false; mkTok 42 "calculatedFrom" 44 4 false; mkTok 4 "=" 44 19 false; mkTok 27 "i64" 44 22 false; mkTok 42 "pack" 44 26 false; mkTok 4 "=" 44 31 false; mkTok 21 "uint16" 44 33 false; mkTok 3 "}" 44 40 false; mkTok 0 "<EOF>" 45 0 false] (mkPacket (mkPtok 35 "packet" 1 0 0) (Some (mkPtok 3 "}" 44 40 141)) [(DPacket (mkPacketDef (mkSpan (mkPtok 35 "packet" 1 0 0) (mkPtok 3 "}" 12 4 36)) None (mkPtok 35 "packet" 1 0 0) (mkPtok 42 "calculatedFrom" 1 7 1) (mkPtok 2 "{" 1 22 2) [(mkFieldWithAttr (mkSpan (mkPtok 36 "repeat" 1 24 3) (mkPtok 40 "," 1 43 6)) [] (MetaField (mkSpan (mkPtok 36 "repeat" 1 24 3) (mkPtok 40 "," 1 43 6)) (Some (mkPtok 36 "repeat" 1 24 3)) (mkMetaDecl (mkSpan (mkPtok 15 "string" 1 31 4) (mkPtok 40 "," 1 43 6)) (TyDynamic (mkSpan (mkPtok 15 "string" 1 31 4) (mkPtok 15 "string" 1 31 4)) (mkDynamicString (mkSpan (mkPtok 15 "string" 1 31 4) (mkPtok 15 "string" 1 31 4)) (mkPtok 15 "string" 1 31 4))) (mkPtok 42 "x_y_z" 1 38 5) None (mkPtok 40 "," 1 43 6)))); (mkFieldWithAttr (mkSpan (mkPtok 42 "As" 1 44 7) (mkPtok 40 "," 3 0 12)) [] (LengthField (mkSpan (mkPtok 42 "As" 1 44 7) (mkPtok 40 "," 3 0 12)) (mkLengthFieldDecl (mkSpan (mkPtok 42 "As" 1 44 7) (mkPtok 40 "," 3 0 12)) None (mkPtok 42 "As" 1 44 7) (mkLengthOf (mkSpan (mkPtok 7 "@lengthOf(" 1 48 8) (mkPtok 6 ")" 2 4 10)) (mkPtok 7 "@lengthOf(" 1 48 8) (mkPtok 42 "options1" 1 60 9) (mkPtok 6 ")" 2 4 10)) (Some (mkPtok 43 "`say ""hi""`" 2 6 11)) (mkPtok 40 "," 3 0 12)))); (mkFieldWithAttr (mkSpan (mkPtok 32 "@rightPad" 3 2 13) (mkPtok 40 "," 11 14 35)) [(FAPadding (mkSpan (mkPtok 32 "@rightPad" 3 2 13) (mkPtok 6 ")" 3 13 15)) (mkPaddingAttr (mkSpan (mkPtok 32 "@rightPad" 3 2 13) (mkPtok 6 ")" 3 13 15)) (mkPtok 32 "@rightPad" 3 2 13) (mkPtok 8 "(" 3 11 14) None (mkPtok 6 ")" 3 13 15)))] (InerObjectField (mkSpan (mkPtok 42 "int" 3 15 16) (mkPtok 40 "," 11 14 35)) None (InerObjectDecl (mkSpan (mkPtok 42 "int" 3 15 16) (mkPtok 3 "}" 11 12 34)) (mkPtok 42 "int" 3 15 16) (mkPtok 2 "{" 3 19 17) [(ObjectField (mkSpan (mkPtok 36 "repeat" 3 22 18) (mkPtok 40 "," 5 12 22)) (Some (mkPtok 36 "repeat" 3 22 18)) (mkPtok 42 "As" 4 0 19) (Some (mkPtok 42 "rootA" 5 4 20)) (Some (mkPtok 43 "``" 5 9 21)) (mkPtok 40 "," 5 12 22)); (MetaField (mkSpan (mkPtok 16 "char[]" 5 13 23) (mkPtok 40 "," 8 8 27)) None (mkMetaDecl (mkSpan (mkPtok 16 "char[]" 5 13 23) (mkPtok 40 "," 8 8 27)) (TyDynamic (mkSpan (mkPtok 16 "char[]" 5 13 23) (mkPtok 16 "char[]" 5 13 23)) (mkDynamicString (mkSpan (mkPtok 16 "char[]" 5 13 23) (mkPtok 16 "char[]" 5 13 23)) (mkPtok 16 "char[]" 5 13 23))) (mkPtok 42 "string_" 8 0 26) None (mkPtok 40 "," 8 8 27))); (ObjectField (mkSpan (mkPtok 36 "repeat" 9 0 29) (mkPtok 40 "," 11 10 33)) (Some (mkPtok 36 "repeat" 9 0 29)) (mkPtok 42 "u128" 11 4 31) (Some (mkPtok 42 "u" 11 9 32)) None (mkPtok 40 "," 11 10 33))] (mkPtok 3 "}" 11 12 34)) (mkPtok 40 "," 11 14 35)))] (mkPtok 3 "}" 12 4 36))); (DPacket (mkPacketDef (mkSpan (mkPtok 35 "packet" 12 6 37) (mkPtok 3 "}" 13 12 40)) None (mkPtok 35 "packet" 12 6 37) (mkPtok 42 "Header" 13 4 38) (mkPtok 2 "{" 13 10 39) [] (mkPtok 3 "}" 13 12 40))); (DPacket (mkPacketDef (mkSpan (mkPtok 35 "packet" 14 0 41) (mkPtok 3 "}" 19 16 66)) None (mkPtok 35 "packet" 14 0 41) (mkPtok 42 "charz" 14 7 42) (mkPtok 2 "{" 14 13 43) [(mkFieldWithAttr (mkSpan (mkPtok 7 "@lengthOf(" 14 14 44) (mkPtok 40 "," 18 0 56)) [(FALengthOf (mkSpan (mkPtok 7 "@lengthOf(" 14 14 44) (mkPtok 6 ")" 14 30 46)) (mkLengthOf (mkSpan (mkPtok 7 "@lengthOf(" 14 14 44) (mkPtok 6 ")" 14 30 46)) (mkPtok 7 "@lengthOf(" 14 14 44) (mkPtok 42 "rootA" 14 25 45) (mkPtok 6 ")" 14 30 46)))] (LengthField (mkSpan (mkPtok 23 "u64" 14 32 47) (mkPtok 40 "," 18 0 56)) (mkLengthFieldDecl (mkSpan (mkPtok 23 "u64" 14 32 47) (mkPtok 40 "," 18 0 56)) (Some (TyBasic (mkSpan (mkPtok 23 "u64" 14 32 47) (mkPtok 23 "u64" 14 32 47)) (mkBasicType (mkSpan (mkPtok 23 "u64" 14 32 47) (mkPtok 23 "u64" 14 32 47)) (mkPtok 23 "u64" 14 32 47)))) (mkPtok 42 "calculatedFrom" 14 36 48) (mkLengthOf (mkSpan (mkPtok 7 "@lengthOf(" 14 51 49) (mkPtok 6 ")" 15 9 52)) (mkPtok 7 "@lengthOf(" 14 51 49) (mkPtok 42 "lengthOf" 15 0 51) (mkPtok 6 ")" 15 9 52)) (Some (mkPtok 43 "`100% of %d`" 15 11 53)) (mkPtok 40 "," 18 0 56)))); (mkFieldWithAttr (mkSpan (mkPtok 42 "asx" 18 2 57) (mkPtok 40 "," 19 2 62)) [] (CheckSumField (mkSpan (mkPtok 42 "asx" 18 2 57) (mkPtok 40 "," 19 2 62)) (mkChecksumFieldDecl (mkSpan (mkPtok 42 "asx" 18 2 57) (mkPtok 40 "," 19 2 62)) None (mkPtok 42 "asx" 18 2 57) (mkCalculatedFrom (mkSpan (mkPtok 5 "@calculatedFrom(" 18 6 58) (mkPtok 6 ")" 19 0 61)) (mkPtok 5 "@calculatedFrom(" 18 6 58) (mkPtok 31 """// no comment""" 18 23 59) (mkPtok 6 ")" 19 0 61)) None (mkPtok 40 "," 19 2 62)))); (mkFieldWithAttr (mkSpan (mkPtok 26 "int32" 19 4 63) (mkPtok 40 "," 19 14 65)) [] (MetaField (mkSpan (mkPtok 26 "int32" 19 4 63) (mkPtok 40 "," 19 14 65)) None (mkMetaDecl (mkSpan (mkPtok 26 "int32" 19 4 63) (mkPtok 40 "," 19 14 65)) (TyBasic (mkSpan (mkPtok 26 "int32" 19 4 63) (mkPtok 26 "int32" 19 4 63)) (mkBasicType (mkSpan (mkPtok 26 "int32" 19 4 63) (mkPtok 26 "int32" 19 4 63)) (mkPtok 26 "int32" 19 4 63))) (mkPtok 42 "len" 19 10 64) None (mkPtok 40 "," 19 14 65))))] (mkPtok 3 "}" 19 16 66))); (DPacket (mkPacketDef (mkSpan (mkPtok 35 "packet" 19 18 67) (mkPtok 3 "}" 41 24 131)) None (mkPtok 35 "packet" 19 18 67) (mkPtok 42 "uint8x" 19 25 68) (mkPtok 2 "{" 20 0 69) [(mkFieldWithAttr (mkSpan (mkPtok 9 "@tag(" 21 4 70) (mkPtok 40 "," 21 46 78)) [(FATag (mkSpan (mkPtok 9 "@tag(" 21 4 70) (mkPtok 6 ")" 21 11 72)) (mkTagAttr (mkSpan (mkPtok 9 "@tag(" 21 4 70) (mkPtok 6 ")" 21 11 72)) (mkPtok 9 "@tag(" 21 4 70) (mkPtok 30 "7" 21 9 71) (mkPtok 6 ")" 21 11 72))); (FACalculatedFrom (mkSpan (mkPtok 5 "@calculatedFrom(" 21 13 73) (mkPtok 6 ")" 21 34 75)) (mkCalculatedFrom (mkSpan (mkPtok 5 "@calculatedFrom(" 21 13 73) (mkPtok 6 ")" 21 34 75)) (mkPtok 5 "@calculatedFrom(" 21 13 73) (mkPtok 31 """\n""" 21 29 74) (mkPtok 6 ")" 21 34 75)))] (MetaField (mkSpan (mkPtok 15 "string" 21 36 76) (mkPtok 40 "," 21 46 78)) None (mkMetaDecl (mkSpan (mkPtok 15 "string" 21 36 76) (mkPtok 40 "," 21 46 78)) (TyDynamic (mkSpan (mkPtok 15 "string" 21 36 76) (mkPtok 15 "string" 21 36 76)) (mkDynamicString (mkSpan (mkPtok 15 "string" 21 36 76) (mkPtok 15 "string" 21 36 76)) (mkPtok 15 "string" 21 36 76))) (mkPtok 42 "_x" 21 43 77) None (mkPtok 40 "," 21 46 78)))); (mkFieldWithAttr (mkSpan (mkPtok 5 "@calculatedFrom(" 21 48 79) (mkPtok 40 "," 28 0 90)) [(FACalculatedFrom (mkSpan (mkPtok 5 "@calculatedFrom(" 21 48 79) (mkPtok 6 ")" 23 4 82)) (mkCalculatedFrom (mkSpan (mkPtok 5 "@calculatedFrom(" 21 48 79) (mkPtok 6 ")" 23 4 82)) (mkPtok 5 "@calculatedFrom(" 21 48 79) (mkPtok 31 """`tick`""" 21 65 80) (mkPtok 6 ")" 23 4 82))); (FAPadding (mkSpan (mkPtok 32 "@leftPad" 23 5 83) (mkPtok 6 ")" 26 0 87)) (mkPaddingAttr (mkSpan (mkPtok 32 "@leftPad" 23 5 83) (mkPtok 6 ")" 26 0 87)) (mkPtok 32 "@leftPad" 23 5 83) (mkPtok 8 "(" 25 4 85) (Some (mkPtok 33 "' '" 25 5 86)) (mkPtok 6 ")" 26 0 87)))] (ObjectField (mkSpan (mkPtok 42 "zchar" 27 0 89) (mkPtok 40 "," 28 0 90)) None (mkPtok 42 "zchar" 27 0 89) None None (mkPtok 40 "," 28 0 90))); (mkFieldWithAttr (mkSpan (mkPtok 7 "@lengthOf(" 29 0 92) (mkPtok 40 "," 29 21 96)) [(FALengthOf (mkSpan (mkPtok 7 "@lengthOf(" 29 0 92) (mkPtok 6 ")" 29 17 94)) (mkLengthOf (mkSpan (mkPtok 7 "@lengthOf(" 29 0 92) (mkPtok 6 ")" 29 17 94)) (mkPtok 7 "@lengthOf(" 29 0 92) (mkPtok 42 "x_y_z" 29 11 93) (mkPtok 6 ")" 29 17 94)))] (ObjectField (mkSpan (mkPtok 42 "o" 29 19 95) (mkPtok 40 "," 29 21 96)) None (mkPtok 42 "o" 29 19 95) None None (mkPtok 40 "," 29 21 96))); (mkFieldWithAttr (mkSpan (mkPtok 42 "i64_" 29 23 97) (mkPtok 40 "," 29 33 99)) [] (ObjectField (mkSpan (mkPtok 42 "i64_" 29 23 97) (mkPtok 40 "," 29 33 99)) None (mkPtok 42 "i64_" 29 23 97) (Some (mkPtok 42 "pack" 29 28 98)) None (mkPtok 40 "," 29 33 99))); (mkFieldWithAttr (mkSpan (mkPtok 32 "@leftPad" 30 0 100) (mkPtok 40 "," 33 4 109)) [(FAPadding (mkSpan (mkPtok 32 "@leftPad" 30 0 100) (mkPtok 6 ")" 31 0 102)) (mkPaddingAttr (mkSpan (mkPtok 32 "@leftPad" 30 0 100) (mkPtok 6 ")" 31 0 102)) (mkPtok 32 "@leftPad" 30 0 100) (mkPtok 8 "(" 30 9 101) None (mkPtok 6 ")" 31 0 102)))] (MetaField (mkSpan (mkPtok 36 "repeat" 32 4 103) (mkPtok 40 "," 33 4 109)) (Some (mkPtok 36 "repeat" 32 4 103)) (mkMetaDecl (mkSpan (mkPtok 14 "zchar[" 32 11 104) (mkPtok 40 "," 33 4 109)) (TyFixed (mkSpan (mkPtok 14 "zchar[" 32 11 104) (mkPtok 13 "]" 33 0 107)) (mkFixedString (mkSpan (mkPtok 14 "zchar[" 32 11 104) (mkPtok 13 "]" 33 0 107)) (mkPtok 14 "zchar[" 32 11 104) (mkPtok 30 "255" 32 18 105) (mkPtok 13 "]" 33 0 107))) (mkPtok 42 "u" 33 2 108) None (mkPtok 40 "," 33 4 109)))); (mkFieldWithAttr (mkSpan (mkPtok 24 "i8" 33 6 110) (mkPtok 40 "," 37 6 117)) [] (CheckSumField (mkSpan (mkPtok 24 "i8" 33 6 110) (mkPtok 40 "," 37 6 117)) (mkChecksumFieldDecl (mkSpan (mkPtok 24 "i8" 33 6 110) (mkPtok 40 "," 37 6 117)) (Some (TyBasic (mkSpan (mkPtok 24 "i8" 33 6 110) (mkPtok 24 "i8" 33 6 110)) (mkBasicType (mkSpan (mkPtok 24 "i8" 33 6 110) (mkPtok 24 "i8" 33 6 110)) (mkPtok 24 "i8" 33 6 110)))) (mkPtok 42 "chars" 34 4 111) (mkCalculatedFrom (mkSpan (mkPtok 5 "@calculatedFrom(" 34 10 112) (mkPtok 6 ")" 36 10 115)) (mkPtok 5 "@calculatedFrom(" 34 10 112) (mkPtok 31 """a\\""" 36 4 114) (mkPtok 6 ")" 36 10 115)) (Some (mkPtok 43 (string_of_bytes [96; 99; 114; 108; 102; 13; 10; 108; 105; 110; 101; 96]%N) 36 12 116)) (mkPtok 40 "," 37 6 117)))); (mkFieldWithAttr (mkSpan (mkPtok 19 "char" 38 0 118) (mkPtok 40 "," 39 3 122)) [] (MetaField (mkSpan (mkPtok 19 "char" 38 0 118) (mkPtok 40 "," 39 3 122)) None (mkMetaDecl (mkSpan (mkPtok 19 "char" 38 0 118) (mkPtok 40 "," 39 3 122)) (TyBasic (mkSpan (mkPtok 19 "char" 38 0 118) (mkPtok 19 "char" 38 0 118)) (mkBasicType (mkSpan (mkPtok 19 "char" 38 0 118) (mkPtok 19 "char" 38 0 118)) (mkPtok 19 "char" 38 0 118))) (mkPtok 42 "u128" 38 5 119) (Some (mkPtok 43 "``" 39 0 121)) (mkPtok 40 "," 39 3 122)))); (mkFieldWithAttr (mkSpan (mkPtok 5 "@calculatedFrom(" 40 0 123) (mkPtok 40 "," 41 23 130)) [(FACalculatedFrom (mkSpan (mkPtok 5 "@calculatedFrom(" 40 0 123) (mkPtok 6 ")" 41 5 126)) (mkCalculatedFrom (mkSpan (mkPtok 5 "@calculatedFrom(" 40 0 123) (mkPtok 6 ")" 41 5 126)) (mkPtok 5 "@calculatedFrom(" 40 0 123) (mkPtok 31 """\n""" 41 0 125) (mkPtok 6 ")" 41 5 126)))] (ObjectField (mkSpan (mkPtok 36 "repeat" 41 7 127) (mkPtok 40 "," 41 23 130)) (Some (mkPtok 36 "repeat" 41 7 127)) (mkPtok 42 "tag" 41 14 128) (Some (mkPtok 42 "body" 41 18 129)) None (mkPtok 40 "," 41 23 130)))] (mkPtok 3 "}" 41 24 131))); (DOption (mkOptionDef (mkSpan (mkPtok 1 "options" 43 4 133) (mkPtok 3 "}" 44 40 141)) (mkPtok 1 "options" 43 4 133) (mkPtok 2 "{" 43 11 134) [(mkOptionDecl (mkSpan (mkPtok 42 "calculatedFrom" 44 4 135) (mkPtok 27 "i64" 44 22 137)) (mkPtok 42 "calculatedFrom" 44 4 135) (mkPtok 4 "=" 44 19 136) (VType (mkSpan (mkPtok 27 "i64" 44 22 137) (mkPtok 27 "i64" 44 22 137)) (TyBasic (mkSpan (mkPtok 27 "i64" 44 22 137) (mkPtok 27 "i64" 44 22 137)) (mkBasicType (mkSpan (mkPtok 27 "i64" 44 22 137) (mkPtok 27 "i64" 44 22 137)) (mkPtok 27 "i64" 44 22 137)))) None); (mkOptionDecl (mkSpan (mkPtok 42 "pack" 44 26 138) (mkPtok 21 "uint16" 44 33 140)) (mkPtok 42 "pack" 44 26 138) (mkPtok 4 "=" 44 31 139) (VType (mkSpan (mkPtok 21 "uint16" 44 33 140) (mkPtok 21 "uint16" 44 33 140)) (TyBasic (mkSpan (mkPtok 21 "uint16" 44 33 140) (mkPtok 21 "uint16" 44 33 140)) (mkBasicType (mkSpan (mkPtok 21 "uint16" 44 33 140) (mkPtok 21 "uint16" 44 33 140)) (mkPtok 21 "uint16" 44 33 140)))) None)] (mkPtok 3 "}" 44 40 141)))])).
Eval vm_compute in ("<<<M107>>>" ++ check (runes_of_ascii "
options { options1 =
i64 matchKey// `tick` ""quote"" 'q'
= true ;
matchKey// c
=
    i16 ;
    u8x =
    ""{,}""; }
")).
Eval vm_compute in ("<<<M117>>>" ++ check (runes_of_ascii "MetaData tag{
} MetaData tag
    { options1 metadata// " ++ [128512]%N ++ runes_of_ascii " emoji
,
}
    root packet Header { @lengthOf( body
) len
msg_type
    , repeat	string
    //x
    int
`{ , }`, u8
    rootA @lengthOf(
Z9_ )  `" ++ [233]%N ++ runes_of_ascii "` , }
")).
Eval vm_compute in ("<<<M127>>>" ++ check (runes_of_ascii "root packet u{ zchar[ 00] body , @lengthOf( o ) match
u as u{
    ""\" ++ [233]%N ++ runes_of_ascii """ : Z9_
    //x
    [/// triple
65535 ,
255 , ""x y"" ] // a // b
:
chars,
0123456789:float , } , }packet x_y_z {
zchar[ 3 ]u
    , @tag(
    10 ) zchar[ 4294967296 ]  body // @lengthOf(
`tab	here` ,
@lengthOf(Pad
// a // b
// @lengthOf(
) repeat i64_ crc ,
repeat
    u16
    msg_type,	@rightPad
// @lengthOf(
//	t
(
) char[]
/// triple
// @lengthOf(
float //	t
, @rightPad
( )@leftPad
( )repeat char[ 4294967296
]options1 , repeat f64 _x`` , u64 string_//
,	} root packet packetx
{int32 i8i8 @calculatedFrom( ""\" ++ [233]%N ++ runes_of_ascii """
// a // b
// trailing space 
)
    `100% of %d`
// " ++ [128512]%N ++ runes_of_ascii " emoji
// " ++ [128512]%N ++ runes_of_ascii " emoji
, @tag( 1 ) @lengthOf( // " ++ [128512]%N ++ runes_of_ascii " emoji
i64_ )
    @calculatedFrom( ""x y""
    )
// `tick` ""quote"" 'q'
//	t
char[
    0123456789
    ]
rootA @calculatedFrom(
""// no comment"" )
    `" ++ [28040; 24687; 31867; 22411]%N ++ runes_of_ascii "` ,u32
T @lengthOf(x )
    `it's`, char MetaDataX/// triple
, } packet
/// triple
// `tick` ""quote"" 'q'
Header {@calculatedFrom(
""`tick`""  )
    @tag( 3) x crc,
    @calculatedFrom( ""it's"" )
u16 Z9_
`" ++ [28040; 24687; 31867; 22411]%N ++ runes_of_ascii "` ,	@calculatedFrom(
""`tick`"")
As , // c
@leftPad //	t
( )
    // trailing space 
    u128  @calculatedFrom(
    """ ++ [28040; 24687]%N ++ runes_of_ascii """ ) , @calculatedFrom(""// no comment""// trailing space 
)
repeat
As { body {
repeat f32a
{ match Z9_ as
BodyLength
    { ""it's"" : Logon }
//x
//
,
    char[ 65535 ] pack,
Packet @calculatedFrom( // `tick` ""quote"" 'q'
""a\\"") , char[] _x @calculatedFrom( """") , } , } ,} ,
    @tag(
65535
    )
@calculatedFrom(//
""abc"" )@calculatedFrom( ""`tick`"" )
    BodyLength {	crc matchKey,	asx ,
    match /// triple
repeatCount //	t
as
int{
""1""
:Logon
,
},
asx
    {repeat
_x ,
x Foo
`" ++ [233]%N ++ runes_of_ascii "` ,
repeat// c
zchar[42 ]A
    , u16
lengthOf `100% of %d`
, }
    // `tick` ""quote"" 'q'
    ,
    // a // b
    } ,
@rightPad (' ' )
    match  Z9_ as i64_ {
    //	t
    1 :
// 50% %s
// trailing space 
Header ,	""\n"": lengthOf  , } , string_ {  repeat char[ 255 // c
] Pad
    , }  ,
    float32
    leftPad @calculatedFrom( ""a\\"" )  , }
packet
calculatedFrom // c
{}
")).
Eval vm_compute in ("<<<M137>>>" ++ check (runes_of_ascii "root
packet // packet A { u8 x, }
MetaDataX	{
    match msg_type as _x{ ""CRC32"": pack //
, } ,@calculatedFrom( ""1""	) repeat
charz { chars{ u64 tag `u8 x,` ,
    repeat
    a1
{match
charz // " ++ [128512]%N ++ runes_of_ascii " emoji
as Logon { 0 : // " ++ [27880; 37322]%N ++ runes_of_ascii "
Packet , 4294967296 :
    f32a[""\" ++ [233]%N ++ runes_of_ascii """ , 4294967296 , ""x y"" , 65535
,  """ ++ [128512]%N ++ runes_of_ascii """, 7 ]:
    trueish , 007:Foo, ""packet""
: rootA , } ,
falsey
    @calculatedFrom(""1""
    // `tick` ""quote"" 'q'
    )
, } , // `tick` ""quote"" 'q'
char[]len  ,} ,match trueish as crc { 42
: chars } , int64 MetaDataX@calculatedFrom( ""`tick`"" )	`100% of %d` , } ,
}
")).
Eval vm_compute in ("<<<M147>>>" ++ check (runes_of_ascii "MetaData
Logon {string //x
a1`{ , }`
    , string
a1,Logon charz,zchar[ 42 ]Z9_ ,
// packet A { u8 x, }
//
} options { packetx =
    00; tag = zchar[
    0123456789]
    i64_	=
    ""\" ++ [233]%N ++ runes_of_ascii """ As
    =""CRC32"" ;body
=
255 ;}// 50% %s
MetaData Packet { u64
    // 50% %s
    x
, zchar[ 7 ] matchKey
`" ++ [28040; 24687; 31867; 22411]%N ++ runes_of_ascii "` ,
    string_
    As ,	} // @lengthOf(")).
Eval vm_compute in ("<<<M157>>>" ++ check (runes_of_ascii "packet calculatedFrom {	char matchKey, zchar[
//	t
// `tick` ""quote"" 'q'
7]  x_y_z `// not a comment`
    , @leftPad
( ' ' ) // packet A { u8 x, }
@rightPad // trailing space 
(
    )repeat  Header	`` ,
body  { repeat i32
BodyLength, } , match Foo as//x
pack {
    0
: _x// @lengthOf(
,
    }
    , int64
Foo
`100% of %d`
    // `tick` ""quote"" 'q'
    ,
} packet asx{}options
{ o =007; } packet A
{ }	options { Logon = true}
")).
Eval vm_compute in ("<<<M167>>>" ++ check (runes_of_ascii "// " ++ [128512]%N ++ runes_of_ascii " emoji
root packet	uint8x
{ zchar[ 007 ] trueish `doc` , @calculatedFrom(
""" ++ [28040; 24687]%N ++ runes_of_ascii """)body Pad
, }
packet i64_
// packet A { u8 x, }
// packet A { u8 x, }
{ int32
i8i8 `doc` ,// a // b
}
    // 50% %s
    options { f32a = ""// no comment"" ;
    crc
= ' '/// triple
As // " ++ [128512]%N ++ runes_of_ascii " emoji
='\x00' Packet
    =
u64; Logon
    =false; } packet Logon {@lengthOf( zchar
    ) zchar[ 007 ]x // 50% %s
,
@rightPad
( ' '
) match matchKey as zchar { 0: f32a
,[ ""x y""
    // " ++ [27880; 37322]%N ++ runes_of_ascii "
    ,
""" ++ [233]%N ++ runes_of_ascii "t" ++ [233]%N ++ runes_of_ascii """ ,42 // packet A { u8 x, }
, ""it's"" , 00
    // c
    ,7
,	""" ++ [128512]%N ++ runes_of_ascii """, """ ++ [233]%N ++ runes_of_ascii "t" ++ [233]%N ++ runes_of_ascii """ ] :
    falsey [4294967296 ]// @lengthOf(
:
    pack,  [ ""a	b"" , 42
,	10
// " ++ [27880; 37322]%N ++ runes_of_ascii "
// `tick` ""quote"" 'q'
, ""abc"", ""{,}""  , ""{,}"" ]: //	t
f32a[ 00 ,
// packet A { u8 x, }
// @lengthOf(
""// no comment"",0
,
    //	t
    10	, ""packet""
    ,
    //
    ""x y"" ] :packetx
, 007 : float  } ,
// @lengthOf(
// packet A { u8 x, }
@tag( 10 ) u32
zchar @lengthOf(
u8x )
    , @lengthOf(
    // c
    tag) zchar[ 7
    ]
_x ,
@tag( 65535 ) tag {//
uint8x repeatCount , match packetx
as zchar {
    [
""" ++ [128512]%N ++ runes_of_ascii """ , // " ++ [27880; 37322]%N ++ runes_of_ascii "
007
    // `tick` ""quote"" 'q'
    ] :leftPad 7
    : zchar
,
""packet"": lengthOf },}
// trailing space 
// @lengthOf(
, zchar[ 3 ] pack
@lengthOf(
T  ) , repeat A charz
, repeat
    // " ++ [128512]%N ++ runes_of_ascii " emoji
    charz `100% of %d` ,	@tag( 007)@tag(	00 )@calculatedFrom(
    ""abc"") repeat
u64 repeatCount`doc` , // `tick` ""quote"" 'q'
stringy  `{ , }` , } packet	crc
    { i16
metadata // " ++ [128512]%N ++ runes_of_ascii " emoji
, match
    string_ as  float{
    42: rootA
    , 65535 :
roots 00 : As,
    [//x
""// no comment""
    /// triple
    ,
    0123456789 ] : // " ++ [128512]%N ++ runes_of_ascii " emoji
options1, // a // b
00: BodyLength, }, repeat x{
repeat
o i8i8
// packet A { u8 x, }
// @lengthOf(
`" ++ [233]%N ++ runes_of_ascii "`
    // a // b
    ,} , match string_
as
    Z9_ { ""abc"" : a1, [ 42
, 255//	t
,
    3 , ""a	b"" , ""\" ++ [233]%N ++ runes_of_ascii """ ]
: /// triple
MetaDataX, 3 :
    //x
    matchKey ,
[ // a // b
""\" ++ [233]%N ++ runes_of_ascii """
    ,	1,
""abc"" , 255 ,	255]:
string_ ,} ,
Foo
{ crc {	char[] stringy @calculatedFrom( ""\" ++ [233]%N ++ runes_of_ascii """
    // 50% %s
    )
    // `tick` ""quote"" 'q'
    ,
repeat a1 { char[ 42 ]
    calculatedFrom @calculatedFrom( ""a\\""),
}
    ,float64 Packet `crlf
line`
, }, As { zchar @calculatedFrom( ""a\\"" ) , }, } //	t
, int16 string_ //x
@calculatedFrom( ""// no comment"" ) `" ++ [28040; 24687; 31867; 22411]%N ++ runes_of_ascii "` , repeat x `
`
, //
zchar[ 65535	] i64_ ,
    } 	 ")).
Eval vm_compute in ("<<<T167>>>" ++ terms [mkTok 44 (string_of_bytes [47; 47; 32; 240; 159; 152; 128; 32; 101; 109; 111; 106; 105]%N) 1 0 true; mkTok 34 "root" 2 0 false; mkTok 35 "packet" 2 5 false; mkTok 42 "uint8x" 2 12 false; mkTok 2 "{" 3 0 false; mkTok 14 "zchar[" 3 2 false; mkTok 30 "007" 3 9 false; mkTok 13 "]" 3 13 false; mkTok 42 "trueish" 3 15 false; mkTok 43 "`doc`" 3 23 false; mkTok 40 "," 3 29 false; mkTok 5 "@calculatedFrom(" 3 31 false; mkTok 31 (string_of_bytes [34; 230; 182; 136; 230; 129; 175; 34]%N) 4 0 false; mkTok 6 ")" 4 4 false; mkTok 42 "body" 4 5 false; mkTok 42 "Pad" 4 10 false; mkTok 40 "," 5 0 false; mkTok 3 "}" 5 2 false; mkTok 35 "packet" 6 0 false; mkTok 42 "i64_" 6 7 false; mkTok 44 "// packet A { u8 x, }" 7 0 true; mkTok 44 "// packet A { u8 x, }" 8 0 true; mkTok 2 "{" 9 0 false; mkTok 26 "int32" 9 2 false; mkTok 42 "i8i8" 10 0 false; mkTok 43 "`doc`" 10 5 false; mkTok 40 "," 10 11 false; mkTok 44 "// a // b" 10 12 true; mkTok 3 "}" 11 0 false; mkTok 44 "// 50% %s" 12 4 true; mkTok 1 "options" 13 4 false; mkTok 2 "{" 13 12 false; mkTok 42 "f32a" 13 14 false; mkTok 4 "=" 13 19 false; mkTok 31 """// no comment""" 13 21 false; mkTok 41 ";" 13 37 false; mkTok 42 "crc" 14 4 false; mkTok 4 "=" 15 0 false; mkTok 33 "' '" 15 2 false; mkTok 44 "/// triple" 15 5 true; mkTok 42 "As" 16 0 false; mkTok 44 (string_of_bytes [47; 47; 32; 240; 159; 152; 128; 32; 101; 109; 111; 106; 105]%N) 16 3 true; mkTok 4 "=" 17 0 false; mkTok 33 "'\x00'" 17 1 false; mkTok 42 "Packet" 17 8 false; mkTok 4 "=" 18 4 false; mkTok 23 "u64" 19 0 false; mkTok 41 ";" 19 3 false; mkTok 42 "Logon" 19 5 false; mkTok 4 "=" 20 4 false; mkTok 11 "false" 20 5 false; mkTok 41 ";" 20 10 false; mkTok 3 "}" 20 12 false; mkTok 35 "packet" 20 14 false; mkTok 42 "Logon" 20 21 false; mkTok 2 "{" 20 27 false; mkTok 7 "@lengthOf(" 20 28 false; mkTok 42 "zchar" 20 39 false; mkTok 6 ")" 21 4 false; mkTok 14 "zchar[" 21 6 false; mkTok 30 "007" 21 13 false; mkTok 13 "]" 21 17 false; mkTok 42 "x" 21 18 false; mkTok 44 "// 50% %s" 21 20 true; mkTok 40 "," 22 0 false; mkTok 32 "@rightPad" 23 0 false; mkTok 8 "(" 24 0 false; mkTok 33 "' '" 24 2 false; mkTok 6 ")" 25 0 false; mkTok 38 "match" 25 2 false; mkTok 42 "matchKey" 25 8 false; mkTok 17 "as" 25 17 false; mkTok 42 "zchar" 25 20 false; mkTok 2 "{" 25 26 false; mkTok 30 "0" 25 28 false; mkTok 39 ":" 25 29 false; mkTok 42 "f32a" 25 31 false; mkTok 40 "," 26 0 false; mkTok 18 "[" 26 1 false; mkTok 31 """x y""" 26 3 false; mkTok 44 (string_of_bytes [47; 47; 32; 230; 179; 168; 233; 135; 138]%N) 27 4 true; mkTok 40 "," 28 4 false; mkTok 31 (string_of_bytes [34; 195; 169; 116; 195; 169; 34]%N) 29 0 false; mkTok 40 "," 29 6 false; mkTok 30 "42" 29 7 false; mkTok 44 "// packet A { u8 x, }" 29 10 true; mkTok 40 "," 30 0 false; mkTok 31 """it's""" 30 2 false; mkTok 40 "," 30 9 false; mkTok 30 "00" 30 11 false; mkTok 44 "// c" 31 4 true; mkTok 40 "," 32 4 false; mkTok 30 "7" 32 5 false; mkTok 40 "," 33 0 false; mkTok 31 (string_of_bytes [34; 240; 159; 152; 128; 34]%N) 33 2 false; mkTok 40 "," 33 5 false; mkTok 31 (string_of_bytes [34; 195; 169; 116; 195; 169; 34]%N) 33 7 false; mkTok 13 "]" 33 13 false; mkTok 39 ":" 33 15 false; mkTok 42 "falsey" 34 4 false; mkTok 18 "[" 34 11 false; mkTok 30 "4294967296" 34 12 false; mkTok 13 "]" 34 23 false; mkTok 44 "// @lengthOf(" 34 24 true; mkTok 39 ":" 35 0 false; mkTok 42 "pack" 36 4 false; mkTok 40 "," 36 8 false; mkTok 18 "[" 36 11 false; mkTok 31 (string_of_bytes [34; 97; 9; 98; 34]%N) 36 13 false; mkTok 40 "," 36 19 false; mkTok 30 "42" 36 21 false; mkTok 40 "," 37 0 false; mkTok 30 "10" 37 2 false; mkTok 44 (string_of_bytes [47; 47; 32; 230; 179; 168; 233; 135; 138]%N) 38 0 true; mkTok 44 "// `tick` ""quote"" 'q'" 39 0 true; mkTok 40 "," 40 0 false; mkTok 31 """abc""" 40 2 false; mkTok 40 "," 40 7 false; mkTok 31 """{,}""" 40 9 false; mkTok 40 "," 40 16 false; mkTok 31 """{,}""" 40 18 false; mkTok 13 "]" 40 24 false; mkTok 39 ":" 40 25 false; mkTok 44 (string_of_bytes [47; 47; 9; 116]%N) 40 27 true; mkTok 42 "f32a" 41 0 false; mkTok 18 "[" 41 4 false; mkTok 30 "00" 41 6 false; mkTok 40 "," 41 9 false; mkTok 44 "// packet A { u8 x, }" 42 0 true; mkTok 44 "// @lengthOf(" 43 0 true; mkTok 31 """// no comment""" 44 0 false; mkTok 40 "," 44 15 false; mkTok 30 "0" 44 16 false; mkTok 40 "," 45 0 false; mkTok 44 (string_of_bytes [47; 47; 9; 116]%N) 46 4 true; mkTok 30 "10" 47 4 false; mkTok 40 "," 47 7 false; mkTok 31 """packet""" 47 9 false; mkTok 40 "," 48 4 false; mkTok 44 "//" 49 4 true; mkTok 31 """x y""" 50 4 false; mkTok 13 "]" 50 10 false; mkTok 39 ":" 50 12 false; mkTok 42 "packetx" 50 13 false; mkTok 40 "," 51 0 false; mkTok 30 "007" 51 2 false; mkTok 39 ":" 51 6 false; mkTok 42 "float" 51 8 false; mkTok 3 "}" 51 15 false; mkTok 40 "," 51 17 false; mkTok 44 "// @lengthOf(" 52 0 true; mkTok 44 "// packet A { u8 x, }" 53 0 true; mkTok 9 "@tag(" 54 0 false; mkTok 30 "10" 54 6 false; mkTok 6 ")" 54 9 false; mkTok 22 "u32" 54 11 false; mkTok 42 "zchar" 55 0 false; mkTok 7 "@lengthOf(" 55 6 false; mkTok 42 "u8x" 56 0 false; mkTok 6 ")" 56 4 false; mkTok 40 "," 57 4 false; mkTok 7 "@lengthOf(" 57 6 false; mkTok 44 "// c" 58 4 true; mkTok 42 "tag" 59 4 false; mkTok 6 ")" 59 7 false; mkTok 14 "zchar[" 59 9 false; mkTok 30 "7" 59 16 false; mkTok 13 "]" 60 4 false; mkTok 42 "_x" 61 0 false; mkTok 40 "," 61 3 false; mkTok 9 "@tag(" 62 0 false; mkTok 30 "65535" 62 6 false; mkTok 6 ")" 62 12 false; mkTok 42 "tag" 62 14 false; mkTok 2 "{" 62 18 false; mkTok 44 "//" 62 19 true; mkTok 42 "uint8x" 63 0 false; mkTok 42 "repeatCount" 63 7 false; mkTok 40 "," 63 19 false; mkTok 38 "match" 63 21 false; mkTok 42 "packetx" 63 27 false; mkTok 17 "as" 64 0 false; mkTok 42 "zchar" 64 3 false; mkTok 2 "{" 64 9 false; mkTok 18 "[" 65 4 false; mkTok 31 (string_of_bytes [34; 240; 159; 152; 128; 34]%N) 66 0 false; mkTok 40 "," 66 4 false; mkTok 44 (string_of_bytes [47; 47; 32; 230; 179; 168; 233; 135; 138]%N) 66 6 true; mkTok 30 "007" 67 0 false; mkTok 44 "// `tick` ""quote"" 'q'" 68 4 true; mkTok 13 "]" 69 4 false; mkTok 39 ":" 69 6 false; mkTok 42 "leftPad" 69 7 false; mkTok 30 "7" 69 15 false; mkTok 39 ":" 70 4 false; mkTok 42 "zchar" 70 6 false; mkTok 40 "," 71 0 false; mkTok 31 """packet""" 72 0 false; mkTok 39 ":" 72 8 false; mkTok 42 "lengthOf" 72 10 false; mkTok 3 "}" 72 19 false; mkTok 40 "," 72 20 false; mkTok 3 "}" 72 21 false; mkTok 44 "// trailing space " 73 0 true; mkTok 44 "// @lengthOf(" 74 0 true; mkTok 40 "," 75 0 false; mkTok 14 "zchar[" 75 2 false; mkTok 30 "3" 75 9 false; mkTok 13 "]" 75 11 false; mkTok 42 "pack" 75 13 false; mkTok 7 "@lengthOf(" 76 0 false; mkTok 42 "T" 77 0 false; mkTok 6 ")" 77 3 false; mkTok 40 "," 77 5 false; mkTok 36 "repeat" 77 7 false; mkTok 42 "A" 77 14 false; mkTok 42 "charz" 77 16 false; mkTok 40 "," 78 0 false; mkTok 36 "repeat" 78 2 false; mkTok 44 (string_of_bytes [47; 47; 32; 240; 159; 152; 128; 32; 101; 109; 111; 106; 105]%N) 79 4 true; mkTok 42 "charz" 80 4 false; mkTok 43 "`100% of %d`" 80 10 false; mkTok 40 "," 80 23 false; mkTok 9 "@tag(" 80 25 false; mkTok 30 "007" 80 31 false; mkTok 6 ")" 80 34 false; mkTok 9 "@tag(" 80 35 false; mkTok 30 "00" 80 41 false; mkTok 6 ")" 80 44 false; mkTok 5 "@calculatedFrom(" 80 45 false; mkTok 31 """abc""" 81 4 false; mkTok 6 ")" 81 9 false; mkTok 36 "repeat" 81 11 false; mkTok 23 "u64" 82 0 false; mkTok 42 "repeatCount" 82 4 false; mkTok 43 "`doc`" 82 15 false; mkTok 40 "," 82 21 false; mkTok 44 "// `tick` ""quote"" 'q'" 82 23 true; mkTok 42 "stringy" 83 0 false; mkTok 43 "`{ , }`" 83 9 false; mkTok 40 "," 83 17 false; mkTok 3 "}" 83 19 false; mkTok 35 "packet" 83 21 false; mkTok 42 "crc" 83 28 false; mkTok 2 "{" 84 4 false; mkTok 25 "i16" 84 6 false; mkTok 42 "metadata" 85 0 false; mkTok 44 (string_of_bytes [47; 47; 32; 240; 159; 152; 128; 32; 101; 109; 111; 106; 105]%N) 85 9 true; mkTok 40 "," 86 0 false; mkTok 38 "match" 86 2 false; mkTok 42 "string_" 87 4 false; mkTok 17 "as" 87 12 false; mkTok 42 "float" 87 16 false; mkTok 2 "{" 87 21 false; mkTok 30 "42" 88 4 false; mkTok 39 ":" 88 6 false; mkTok 42 "rootA" 88 8 false; mkTok 40 "," 89 4 false; mkTok 30 "65535" 89 6 false; mkTok 39 ":" 89 12 false; mkTok 42 "roots" 90 0 false; mkTok 30 "00" 90 6 false; mkTok 39 ":" 90 9 false; mkTok 42 "As" 90 11 false; mkTok 40 "," 90 13 false; mkTok 18 "[" 91 4 false; mkTok 44 "//x" 91 5 true; mkTok 31 """// no comment""" 92 0 false; mkTok 44 "/// triple" 93 4 true; mkTok 40 "," 94 4 false; mkTok 30 "0123456789" 95 4 false; mkTok 13 "]" 95 15 false; mkTok 39 ":" 95 17 false; mkTok 44 (string_of_bytes [47; 47; 32; 240; 159; 152; 128; 32; 101; 109; 111; 106; 105]%N) 95 19 true; mkTok 42 "options1" 96 0 false; mkTok 40 "," 96 8 false; mkTok 44 "// a // b" 96 10 true; mkTok 30 "00" 97 0 false; mkTok 39 ":" 97 2 false; mkTok 42 "BodyLength" 97 4 false; mkTok 40 "," 97 14 false; mkTok 3 "}" 97 16 false; mkTok 40 "," 97 17 false; mkTok 36 "repeat" 97 19 false; mkTok 42 "x" 97 26 false; mkTok 2 "{" 97 27 false; mkTok 36 "repeat" 98 0 false; mkTok 42 "o" 99 0 false; mkTok 42 "i8i8" 99 2 false; mkTok 44 "// packet A { u8 x, }" 100 0 true; mkTok 44 "// @lengthOf(" 101 0 true; mkTok 43 (string_of_bytes [96; 195; 169; 96]%N) 102 0 false; mkTok 44 "// a // b" 103 4 true; mkTok 40 "," 104 4 false; mkTok 3 "}" 104 5 false; mkTok 40 "," 104 7 false; mkTok 38 "match" 104 9 false; mkTok 42 "string_" 104 15 false; mkTok 17 "as" 105 0 false; mkTok 42 "Z9_" 106 4 false; mkTok 2 "{" 106 8 false; mkTok 31 """abc""" 106 10 false; mkTok 39 ":" 106 16 false; mkTok 42 "a1" 106 18 false; mkTok 40 "," 106 20 false; mkTok 18 "[" 106 22 false; mkTok 30 "42" 106 24 false; mkTok 40 "," 107 0 false; mkTok 30 "255" 107 2 false; mkTok 44 (string_of_bytes [47; 47; 9; 116]%N) 107 5 true; mkTok 40 "," 108 0 false; mkTok 30 "3" 109 4 false; mkTok 40 "," 109 6 false; mkTok 31 (string_of_bytes [34; 97; 9; 98; 34]%N) 109 8 false; mkTok 40 "," 109 14 false; mkTok 31 (string_of_bytes [34; 92; 195; 169; 34]%N) 109 16 false; mkTok 13 "]" 109 21 false; mkTok 39 ":" 110 0 false; mkTok 44 "/// triple" 110 2 true; mkTok 42 "MetaDataX" 111 0 false; mkTok 40 "," 111 9 false; mkTok 30 "3" 111 11 false; mkTok 39 ":" 111 13 false; mkTok 44 "//x" 112 4 true; mkTok 42 "matchKey" 113 4 false; mkTok 40 "," 113 13 false; mkTok 18 "[" 114 0 false; mkTok 44 "// a // b" 114 2 true; mkTok 31 (string_of_bytes [34; 92; 195; 169; 34]%N) 115 0 false; mkTok 40 "," 116 4 false; mkTok 30 "1" 116 6 false; mkTok 40 "," 116 7 false; mkTok 31 """abc""" 117 0 false; mkTok 40 "," 117 6 false; mkTok 30 "255" 117 8 false; mkTok 40 "," 117 12 false; mkTok 30 "255" 117 14 false; mkTok 13 "]" 117 17 false; mkTok 39 ":" 117 18 false; mkTok 42 "string_" 118 0 false; mkTok 40 "," 118 8 false; mkTok 3 "}" 118 9 false; mkTok 40 "," 118 11 false; mkTok 42 "Foo" 119 0 false; mkTok 2 "{" 120 0 false; mkTok 42 "crc" 120 2 false; mkTok 2 "{" 120 6 false; mkTok 16 "char[]" 120 8 false; mkTok 42 "stringy" 120 15 false; mkTok 5 "@calculatedFrom(" 120 23 false; mkTok 31 (string_of_bytes [34; 92; 195; 169; 34]%N) 120 40 false; mkTok 44 "// 50% %s" 121 4 true; mkTok 6 ")" 122 4 false; mkTok 44 "// `tick` ""quote"" 'q'" 123 4 true; mkTok 40 "," 124 4 false; mkTok 36 "repeat" 125 0 false; mkTok 42 "a1" 125 7 false; mkTok 2 "{" 125 10 false; mkTok 12 "char[" 125 12 false; mkTok 30 "42" 125 18 false; mkTok 13 "]" 125 21 false; mkTok 42 "calculatedFrom" 126 4 false; mkTok 5 "@calculatedFrom(" 126 19 false; mkTok 31 """a\\""" 126 36 false; mkTok 6 ")" 126 41 false; mkTok 40 "," 126 42 false; mkTok 3 "}" 127 0 false; mkTok 40 "," 128 4 false; mkTok 29 "float64" 128 5 false; mkTok 42 "Packet" 128 13 false; mkTok 43 (string_of_bytes [96; 99; 114; 108; 102; 13; 10; 108; 105; 110; 101; 96]%N) 128 20 false; mkTok 40 "," 130 0 false; mkTok 3 "}" 130 2 false; mkTok 40 "," 130 3 false; mkTok 42 "As" 130 5 false; mkTok 2 "{" 130 8 false; mkTok 42 "zchar" 130 10 false; mkTok 5 "@calculatedFrom(" 130 16 false; mkTok 31 """a\\""" 130 33 false; mkTok 6 ")" 130 39 false; mkTok 40 "," 130 41 false; mkTok 3 "}" 130 43 false; mkTok 40 "," 130 44 false; mkTok 3 "}" 130 46 false; mkTok 44 (string_of_bytes [47; 47; 9; 116]%N) 130 48 true; mkTok 40 "," 131 0 false; mkTok 25 "int16" 131 2 false; mkTok 42 "string_" 131 8 false; mkTok 44 "//x" 131 16 true; mkTok 5 "@calculatedFrom(" 132 0 false; mkTok 31 """// no comment""" 132 17 false; mkTok 6 ")" 132 33 false; mkTok 43 (string_of_bytes [96; 230; 182; 136; 230; 129; 175; 231; 177; 187; 229; 158; 139; 96]%N) 132 35 false; mkTok 40 "," 132 42 false; mkTok 36 "repeat" 132 44 false; mkTok 42 "x" 132 51 false; mkTok 43 (string_of_bytes [96; 10; 96]%N) 132 53 false; mkTok 40 "," 134 0 false; mkTok 44 "//" 134 2 true; mkTok 14 "zchar[" 135 0 false; mkTok 30 "65535" 135 7 false; mkTok 13 "]" 135 13 false; mkTok 42 "i64_" 135 15 false; mkTok 40 "," 135 20 false; mkTok 3 "}" 136 4 false; mkTok 0 "<EOF>" 136 8 false] (mkPacket (mkPtok 34 "root" 2 0 1) (Some (mkPtok 3 "}" 136 4 404)) [(DPacket (mkPacketDef (mkSpan (mkPtok 34 "root" 2 0 1) (mkPtok 3 "}" 5 2 17)) (Some (mkPtok 34 "root" 2 0 1)) (mkPtok 35 "packet" 2 5 2) (mkPtok 42 "uint8x" 2 12 3) (mkPtok 2 "{" 3 0 4) [(mkFieldWithAttr (mkSpan (mkPtok 14 "zchar[" 3 2 5) (mkPtok 40 "," 3 29 10)) [] (MetaField (mkSpan (mkPtok 14 "zchar[" 3 2 5) (mkPtok 40 "," 3 29 10)) None (mkMetaDecl (mkSpan (mkPtok 14 "zchar[" 3 2 5) (mkPtok 40 "," 3 29 10)) (TyFixed (mkSpan (mkPtok 14 "zchar[" 3 2 5) (mkPtok 13 "]" 3 13 7)) (mkFixedString (mkSpan (mkPtok 14 "zchar[" 3 2 5) (mkPtok 13 "]" 3 13 7)) (mkPtok 14 "zchar[" 3 2 5) (mkPtok 30 "007" 3 9 6) (mkPtok 13 "]" 3 13 7))) (mkPtok 42 "trueish" 3 15 8) (Some (mkPtok 43 "`doc`" 3 23 9)) (mkPtok 40 "," 3 29 10)))); (mkFieldWithAttr (mkSpan (mkPtok 5 "@calculatedFrom(" 3 31 11) (mkPtok 40 "," 5 0 16)) [(FACalculatedFrom (mkSpan (mkPtok 5 "@calculatedFrom(" 3 31 11) (mkPtok 6 ")" 4 4 13)) (mkCalculatedFrom (mkSpan (mkPtok 5 "@calculatedFrom(" 3 31 11) (mkPtok 6 ")" 4 4 13)) (mkPtok 5 "@calculatedFrom(" 3 31 11) (mkPtok 31 (string_of_bytes [34; 230; 182; 136; 230; 129; 175; 34]%N) 4 0 12) (mkPtok 6 ")" 4 4 13)))] (ObjectField (mkSpan (mkPtok 42 "body" 4 5 14) (mkPtok 40 "," 5 0 16)) None (mkPtok 42 "body" 4 5 14) (Some (mkPtok 42 "Pad" 4 10 15)) None (mkPtok 40 "," 5 0 16)))] (mkPtok 3 "}" 5 2 17))); (DPacket (mkPacketDef (mkSpan (mkPtok 35 "packet" 6 0 18) (mkPtok 3 "}" 11 0 28)) None (mkPtok 35 "packet" 6 0 18) (mkPtok 42 "i64_" 6 7 19) (mkPtok 2 "{" 9 0 22) [(mkFieldWithAttr (mkSpan (mkPtok 26 "int32" 9 2 23) (mkPtok 40 "," 10 11 26)) [] (MetaField (mkSpan (mkPtok 26 "int32" 9 2 23) (mkPtok 40 "," 10 11 26)) None (mkMetaDecl (mkSpan (mkPtok 26 "int32" 9 2 23) (mkPtok 40 "," 10 11 26)) (TyBasic (mkSpan (mkPtok 26 "int32" 9 2 23) (mkPtok 26 "int32" 9 2 23)) (mkBasicType (mkSpan (mkPtok 26 "int32" 9 2 23) (mkPtok 26 "int32" 9 2 23)) (mkPtok 26 "int32" 9 2 23))) (mkPtok 42 "i8i8" 10 0 24) (Some (mkPtok 43 "`doc`" 10 5 25)) (mkPtok 40 "," 10 11 26))))] (mkPtok 3 "}" 11 0 28))); (DOption (mkOptionDef (mkSpan (mkPtok 1 "options" 13 4 30) (mkPtok 3 "}" 20 12 52)) (mkPtok 1 "options" 13 4 30) (mkPtok 2 "{" 13 12 31) [(mkOptionDecl (mkSpan (mkPtok 42 "f32a" 13 14 32) (mkPtok 41 ";" 13 37 35)) (mkPtok 42 "f32a" 13 14 32) (mkPtok 4 "=" 13 19 33) (VString (mkSpan (mkPtok 31 """// no comment""" 13 21 34) (mkPtok 31 """// no comment""" 13 21 34)) (mkPtok 31 """// no comment""" 13 21 34)) (Some (mkPtok 41 ";" 13 37 35))); (mkOptionDecl (mkSpan (mkPtok 42 "crc" 14 4 36) (mkPtok 33 "' '" 15 2 38)) (mkPtok 42 "crc" 14 4 36) (mkPtok 4 "=" 15 0 37) (VPaddingChar (mkSpan (mkPtok 33 "' '" 15 2 38) (mkPtok 33 "' '" 15 2 38)) (mkPtok 33 "' '" 15 2 38)) None); (mkOptionDecl (mkSpan (mkPtok 42 "As" 16 0 40) (mkPtok 33 "'\x00'" 17 1 43)) (mkPtok 42 "As" 16 0 40) (mkPtok 4 "=" 17 0 42) (VPaddingChar (mkSpan (mkPtok 33 "'\x00'" 17 1 43) (mkPtok 33 "'\x00'" 17 1 43)) (mkPtok 33 "'\x00'" 17 1 43)) None); (mkOptionDecl (mkSpan (mkPtok 42 "Packet" 17 8 44) (mkPtok 41 ";" 19 3 47)) (mkPtok 42 "Packet" 17 8 44) (mkPtok 4 "=" 18 4 45) (VType (mkSpan (mkPtok 23 "u64" 19 0 46) (mkPtok 23 "u64" 19 0 46)) (TyBasic (mkSpan (mkPtok 23 "u64" 19 0 46) (mkPtok 23 "u64" 19 0 46)) (mkBasicType (mkSpan (mkPtok 23 "u64" 19 0 46) (mkPtok 23 "u64" 19 0 46)) (mkPtok 23 "u64" 19 0 46)))) (Some (mkPtok 41 ";" 19 3 47))); (mkOptionDecl (mkSpan (mkPtok 42 "Logon" 19 5 48) (mkPtok 41 ";" 20 10 51)) (mkPtok 42 "Logon" 19 5 48) (mkPtok 4 "=" 20 4 49) (VFalse (mkSpan (mkPtok 11 "false" 20 5 50) (mkPtok 11 "false" 20 5 50)) (mkPtok 11 "false" 20 5 50)) (Some (mkPtok 41 ";" 20 10 51)))] (mkPtok 3 "}" 20 12 52))); (DPacket (mkPacketDef (mkSpan (mkPtok 35 "packet" 20 14 53) (mkPtok 3 "}" 83 19 241)) None (mkPtok 35 "packet" 20 14 53) (mkPtok 42 "Logon" 20 21 54) (mkPtok 2 "{" 20 27 55) [(mkFieldWithAttr (mkSpan (mkPtok 7 "@lengthOf(" 20 28 56) (mkPtok 40 "," 22 0 64)) [(FALengthOf (mkSpan (mkPtok 7 "@lengthOf(" 20 28 56) (mkPtok 6 ")" 21 4 58)) (mkLengthOf (mkSpan (mkPtok 7 "@lengthOf(" 20 28 56) (mkPtok 6 ")" 21 4 58)) (mkPtok 7 "@lengthOf(" 20 28 56) (mkPtok 42 "zchar" 20 39 57) (mkPtok 6 ")" 21 4 58)))] (MetaField (mkSpan (mkPtok 14 "zchar[" 21 6 59) (mkPtok 40 "," 22 0 64)) None (mkMetaDecl (mkSpan (mkPtok 14 "zchar[" 21 6 59) (mkPtok 40 "," 22 0 64)) (TyFixed (mkSpan (mkPtok 14 "zchar[" 21 6 59) (mkPtok 13 "]" 21 17 61)) (mkFixedString (mkSpan (mkPtok 14 "zchar[" 21 6 59) (mkPtok 13 "]" 21 17 61)) (mkPtok 14 "zchar[" 21 6 59) (mkPtok 30 "007" 21 13 60) (mkPtok 13 "]" 21 17 61))) (mkPtok 42 "x" 21 18 62) None (mkPtok 40 "," 22 0 64)))); (mkFieldWithAttr (mkSpan (mkPtok 32 "@rightPad" 23 0 65) (mkPtok 40 "," 51 17 149)) [(FAPadding (mkSpan (mkPtok 32 "@rightPad" 23 0 65) (mkPtok 6 ")" 25 0 68)) (mkPaddingAttr (mkSpan (mkPtok 32 "@rightPad" 23 0 65) (mkPtok 6 ")" 25 0 68)) (mkPtok 32 "@rightPad" 23 0 65) (mkPtok 8 "(" 24 0 66) (Some (mkPtok 33 "' '" 24 2 67)) (mkPtok 6 ")" 25 0 68)))] (MatchField (mkSpan (mkPtok 38 "match" 25 2 69) (mkPtok 40 "," 51 17 149)) (mkMatchFieldDecl (mkSpan (mkPtok 38 "match" 25 2 69) (mkPtok 3 "}" 51 15 148)) (mkPtok 38 "match" 25 2 69) (mkPtok 42 "matchKey" 25 8 70) (mkPtok 17 "as" 25 17 71) (mkPtok 42 "zchar" 25 20 72) (mkPtok 2 "{" 25 26 73) [(mkMatchPair (mkSpan (mkPtok 30 "0" 25 28 74) (mkPtok 40 "," 26 0 77)) (MKDigits (mkPtok 30 "0" 25 28 74)) (mkPtok 39 ":" 25 29 75) (mkPtok 42 "f32a" 25 31 76) (Some (mkPtok 40 "," 26 0 77))); (mkMatchPair (mkSpan (mkPtok 18 "[" 26 1 78) (mkPtok 42 "falsey" 34 4 99)) (MKList (mkKeyList (mkSpan (mkPtok 18 "[" 26 1 78) (mkPtok 13 "]" 33 13 97)) (mkPtok 18 "[" 26 1 78) (mkPtok 31 """x y""" 26 3 79) [((mkPtok 40 "," 28 4 81), (mkPtok 31 (string_of_bytes [34; 195; 169; 116; 195; 169; 34]%N) 29 0 82)); ((mkPtok 40 "," 29 6 83), (mkPtok 30 "42" 29 7 84)); ((mkPtok 40 "," 30 0 86), (mkPtok 31 """it's""" 30 2 87)); ((mkPtok 40 "," 30 9 88), (mkPtok 30 "00" 30 11 89)); ((mkPtok 40 "," 32 4 91), (mkPtok 30 "7" 32 5 92)); ((mkPtok 40 "," 33 0 93), (mkPtok 31 (string_of_bytes [34; 240; 159; 152; 128; 34]%N) 33 2 94)); ((mkPtok 40 "," 33 5 95), (mkPtok 31 (string_of_bytes [34; 195; 169; 116; 195; 169; 34]%N) 33 7 96))] (mkPtok 13 "]" 33 13 97))) (mkPtok 39 ":" 33 15 98) (mkPtok 42 "falsey" 34 4 99) None); (mkMatchPair (mkSpan (mkPtok 18 "[" 34 11 100) (mkPtok 40 "," 36 8 106)) (MKList (mkKeyList (mkSpan (mkPtok 18 "[" 34 11 100) (mkPtok 13 "]" 34 23 102)) (mkPtok 18 "[" 34 11 100) (mkPtok 30 "4294967296" 34 12 101) [] (mkPtok 13 "]" 34 23 102))) (mkPtok 39 ":" 35 0 104) (mkPtok 42 "pack" 36 4 105) (Some (mkPtok 40 "," 36 8 106))); (mkMatchPair (mkSpan (mkPtok 18 "[" 36 11 107) (mkPtok 42 "f32a" 41 0 124)) (MKList (mkKeyList (mkSpan (mkPtok 18 "[" 36 11 107) (mkPtok 13 "]" 40 24 121)) (mkPtok 18 "[" 36 11 107) (mkPtok 31 (string_of_bytes [34; 97; 9; 98; 34]%N) 36 13 108) [((mkPtok 40 "," 36 19 109), (mkPtok 30 "42" 36 21 110)); ((mkPtok 40 "," 37 0 111), (mkPtok 30 "10" 37 2 112)); ((mkPtok 40 "," 40 0 115), (mkPtok 31 """abc""" 40 2 116)); ((mkPtok 40 "," 40 7 117), (mkPtok 31 """{,}""" 40 9 118)); ((mkPtok 40 "," 40 16 119), (mkPtok 31 """{,}""" 40 18 120))] (mkPtok 13 "]" 40 24 121))) (mkPtok 39 ":" 40 25 122) (mkPtok 42 "f32a" 41 0 124) None); (mkMatchPair (mkSpan (mkPtok 18 "[" 41 4 125) (mkPtok 40 "," 51 0 144)) (MKList (mkKeyList (mkSpan (mkPtok 18 "[" 41 4 125) (mkPtok 13 "]" 50 10 141)) (mkPtok 18 "[" 41 4 125) (mkPtok 30 "00" 41 6 126) [((mkPtok 40 "," 41 9 127), (mkPtok 31 """// no comment""" 44 0 130)); ((mkPtok 40 "," 44 15 131), (mkPtok 30 "0" 44 16 132)); ((mkPtok 40 "," 45 0 133), (mkPtok 30 "10" 47 4 135)); ((mkPtok 40 "," 47 7 136), (mkPtok 31 """packet""" 47 9 137)); ((mkPtok 40 "," 48 4 138), (mkPtok 31 """x y""" 50 4 140))] (mkPtok 13 "]" 50 10 141))) (mkPtok 39 ":" 50 12 142) (mkPtok 42 "packetx" 50 13 143) (Some (mkPtok 40 "," 51 0 144))); (mkMatchPair (mkSpan (mkPtok 30 "007" 51 2 145) (mkPtok 42 "float" 51 8 147)) (MKDigits (mkPtok 30 "007" 51 2 145)) (mkPtok 39 ":" 51 6 146) (mkPtok 42 "float" 51 8 147) None)] (mkPtok 3 "}" 51 15 148)) (mkPtok 40 "," 51 17 149))); (mkFieldWithAttr (mkSpan (mkPtok 9 "@tag(" 54 0 152) (mkPtok 40 "," 57 4 160)) [(FATag (mkSpan (mkPtok 9 "@tag(" 54 0 152) (mkPtok 6 ")" 54 9 154)) (mkTagAttr (mkSpan (mkPtok 9 "@tag(" 54 0 152) (mkPtok 6 ")" 54 9 154)) (mkPtok 9 "@tag(" 54 0 152) (mkPtok 30 "10" 54 6 153) (mkPtok 6 ")" 54 9 154)))] (LengthField (mkSpan (mkPtok 22 "u32" 54 11 155) (mkPtok 40 "," 57 4 160)) (mkLengthFieldDecl (mkSpan (mkPtok 22 "u32" 54 11 155) (mkPtok 40 "," 57 4 160)) (Some (TyBasic (mkSpan (mkPtok 22 "u32" 54 11 155) (mkPtok 22 "u32" 54 11 155)) (mkBasicType (mkSpan (mkPtok 22 "u32" 54 11 155) (mkPtok 22 "u32" 54 11 155)) (mkPtok 22 "u32" 54 11 155)))) (mkPtok 42 "zchar" 55 0 156) (mkLengthOf (mkSpan (mkPtok 7 "@lengthOf(" 55 6 157) (mkPtok 6 ")" 56 4 159)) (mkPtok 7 "@lengthOf(" 55 6 157) (mkPtok 42 "u8x" 56 0 158) (mkPtok 6 ")" 56 4 159)) None (mkPtok 40 "," 57 4 160)))); (mkFieldWithAttr (mkSpan (mkPtok 7 "@lengthOf(" 57 6 161) (mkPtok 40 "," 61 3 169)) [(FALengthOf (mkSpan (mkPtok 7 "@lengthOf(" 57 6 161) (mkPtok 6 ")" 59 7 164)) (mkLengthOf (mkSpan (mkPtok 7 "@lengthOf(" 57 6 161) (mkPtok 6 ")" 59 7 164)) (mkPtok 7 "@lengthOf(" 57 6 161) (mkPtok 42 "tag" 59 4 163) (mkPtok 6 ")" 59 7 164)))] (MetaField (mkSpan (mkPtok 14 "zchar[" 59 9 165) (mkPtok 40 "," 61 3 169)) None (mkMetaDecl (mkSpan (mkPtok 14 "zchar[" 59 9 165) (mkPtok 40 "," 61 3 169)) (TyFixed (mkSpan (mkPtok 14 "zchar[" 59 9 165) (mkPtok 13 "]" 60 4 167)) (mkFixedString (mkSpan (mkPtok 14 "zchar[" 59 9 165) (mkPtok 13 "]" 60 4 167)) (mkPtok 14 "zchar[" 59 9 165) (mkPtok 30 "7" 59 16 166) (mkPtok 13 "]" 60 4 167))) (mkPtok 42 "_x" 61 0 168) None (mkPtok 40 "," 61 3 169)))); (mkFieldWithAttr (mkSpan (mkPtok 9 "@tag(" 62 0 170) (mkPtok 40 "," 75 0 205)) [(FATag (mkSpan (mkPtok 9 "@tag(" 62 0 170) (mkPtok 6 ")" 62 12 172)) (mkTagAttr (mkSpan (mkPtok 9 "@tag(" 62 0 170) (mkPtok 6 ")" 62 12 172)) (mkPtok 9 "@tag(" 62 0 170) (mkPtok 30 "65535" 62 6 171) (mkPtok 6 ")" 62 12 172)))] (InerObjectField (mkSpan (mkPtok 42 "tag" 62 14 173) (mkPtok 40 "," 75 0 205)) None (InerObjectDecl (mkSpan (mkPtok 42 "tag" 62 14 173) (mkPtok 3 "}" 72 21 202)) (mkPtok 42 "tag" 62 14 173) (mkPtok 2 "{" 62 18 174) [(ObjectField (mkSpan (mkPtok 42 "uint8x" 63 0 176) (mkPtok 40 "," 63 19 178)) None (mkPtok 42 "uint8x" 63 0 176) (Some (mkPtok 42 "repeatCount" 63 7 177)) None (mkPtok 40 "," 63 19 178)); (MatchField (mkSpan (mkPtok 38 "match" 63 21 179) (mkPtok 40 "," 72 20 201)) (mkMatchFieldDecl (mkSpan (mkPtok 38 "match" 63 21 179) (mkPtok 3 "}" 72 19 200)) (mkPtok 38 "match" 63 21 179) (mkPtok 42 "packetx" 63 27 180) (mkPtok 17 "as" 64 0 181) (mkPtok 42 "zchar" 64 3 182) (mkPtok 2 "{" 64 9 183) [(mkMatchPair (mkSpan (mkPtok 18 "[" 65 4 184) (mkPtok 42 "leftPad" 69 7 192)) (MKList (mkKeyList (mkSpan (mkPtok 18 "[" 65 4 184) (mkPtok 13 "]" 69 4 190)) (mkPtok 18 "[" 65 4 184) (mkPtok 31 (string_of_bytes [34; 240; 159; 152; 128; 34]%N) 66 0 185) [((mkPtok 40 "," 66 4 186), (mkPtok 30 "007" 67 0 188))] (mkPtok 13 "]" 69 4 190))) (mkPtok 39 ":" 69 6 191) (mkPtok 42 "leftPad" 69 7 192) None); (mkMatchPair (mkSpan (mkPtok 30 "7" 69 15 193) (mkPtok 40 "," 71 0 196)) (MKDigits (mkPtok 30 "7" 69 15 193)) (mkPtok 39 ":" 70 4 194) (mkPtok 42 "zchar" 70 6 195) (Some (mkPtok 40 "," 71 0 196))); (mkMatchPair (mkSpan (mkPtok 31 """packet""" 72 0 197) (mkPtok 42 "lengthOf" 72 10 199)) (MKString (mkPtok 31 """packet""" 72 0 197)) (mkPtok 39 ":" 72 8 198) (mkPtok 42 "lengthOf" 72 10 199) None)] (mkPtok 3 "}" 72 19 200)) (mkPtok 40 "," 72 20 201))] (mkPtok 3 "}" 72 21 202)) (mkPtok 40 "," 75 0 205))); (mkFieldWithAttr (mkSpan (mkPtok 14 "zchar[" 75 2 206) (mkPtok 40 "," 77 5 213)) [] (LengthField (mkSpan (mkPtok 14 "zchar[" 75 2 206) (mkPtok 40 "," 77 5 213)) (mkLengthFieldDecl (mkSpan (mkPtok 14 "zchar[" 75 2 206) (mkPtok 40 "," 77 5 213)) (Some (TyFixed (mkSpan (mkPtok 14 "zchar[" 75 2 206) (mkPtok 13 "]" 75 11 208)) (mkFixedString (mkSpan (mkPtok 14 "zchar[" 75 2 206) (mkPtok 13 "]" 75 11 208)) (mkPtok 14 "zchar[" 75 2 206) (mkPtok 30 "3" 75 9 207) (mkPtok 13 "]" 75 11 208)))) (mkPtok 42 "pack" 75 13 209) (mkLengthOf (mkSpan (mkPtok 7 "@lengthOf(" 76 0 210) (mkPtok 6 ")" 77 3 212)) (mkPtok 7 "@lengthOf(" 76 0 210) (mkPtok 42 "T" 77 0 211) (mkPtok 6 ")" 77 3 212)) None (mkPtok 40 "," 77 5 213)))); (mkFieldWithAttr (mkSpan (mkPtok 36 "repeat" 77 7 214) (mkPtok 40 "," 78 0 217)) [] (ObjectField (mkSpan (mkPtok 36 "repeat" 77 7 214) (mkPtok 40 "," 78 0 217)) (Some (mkPtok 36 "repeat" 77 7 214)) (mkPtok 42 "A" 77 14 215) (Some (mkPtok 42 "charz" 77 16 216)) None (mkPtok 40 "," 78 0 217))); (mkFieldWithAttr (mkSpan (mkPtok 36 "repeat" 78 2 218) (mkPtok 40 "," 80 23 222)) [] (ObjectField (mkSpan (mkPtok 36 "repeat" 78 2 218) (mkPtok 40 "," 80 23 222)) (Some (mkPtok 36 "repeat" 78 2 218)) (mkPtok 42 "charz" 80 4 220) None (Some (mkPtok 43 "`100% of %d`" 80 10 221)) (mkPtok 40 "," 80 23 222))); (mkFieldWithAttr (mkSpan (mkPtok 9 "@tag(" 80 25 223) (mkPtok 40 "," 82 21 236)) [(FATag (mkSpan (mkPtok 9 "@tag(" 80 25 223) (mkPtok 6 ")" 80 34 225)) (mkTagAttr (mkSpan (mkPtok 9 "@tag(" 80 25 223) (mkPtok 6 ")" 80 34 225)) (mkPtok 9 "@tag(" 80 25 223) (mkPtok 30 "007" 80 31 224) (mkPtok 6 ")" 80 34 225))); (FATag (mkSpan (mkPtok 9 "@tag(" 80 35 226) (mkPtok 6 ")" 80 44 228)) (mkTagAttr (mkSpan (mkPtok 9 "@tag(" 80 35 226) (mkPtok 6 ")" 80 44 228)) (mkPtok 9 "@tag(" 80 35 226) (mkPtok 30 "00" 80 41 227) (mkPtok 6 ")" 80 44 228))); (FACalculatedFrom (mkSpan (mkPtok 5 "@calculatedFrom(" 80 45 229) (mkPtok 6 ")" 81 9 231)) (mkCalculatedFrom (mkSpan (mkPtok 5 "@calculatedFrom(" 80 45 229) (mkPtok 6 ")" 81 9 231)) (mkPtok 5 "@calculatedFrom(" 80 45 229) (mkPtok 31 """abc""" 81 4 230) (mkPtok 6 ")" 81 9 231)))] (MetaField (mkSpan (mkPtok 36 "repeat" 81 11 232) (mkPtok 40 "," 82 21 236)) (Some (mkPtok 36 "repeat" 81 11 232)) (mkMetaDecl (mkSpan (mkPtok 23 "u64" 82 0 233) (mkPtok 40 "," 82 21 236)) (TyBasic (mkSpan (mkPtok 23 "u64" 82 0 233) (mkPtok 23 "u64" 82 0 233)) (mkBasicType (mkSpan (mkPtok 23 "u64" 82 0 233) (mkPtok 23 "u64" 82 0 233)) (mkPtok 23 "u64" 82 0 233))) (mkPtok 42 "repeatCount" 82 4 234) (Some (mkPtok 43 "`doc`" 82 15 235)) (mkPtok 40 "," 82 21 236)))); (mkFieldWithAttr (mkSpan (mkPtok 42 "stringy" 83 0 238) (mkPtok 40 "," 83 17 240)) [] (ObjectField (mkSpan (mkPtok 42 "stringy" 83 0 238) (mkPtok 40 "," 83 17 240)) None (mkPtok 42 "stringy" 83 0 238) None (Some (mkPtok 43 "`{ , }`" 83 9 239)) (mkPtok 40 "," 83 17 240)))] (mkPtok 3 "}" 83 19 241))); (DPacket (mkPacketDef (mkSpan (mkPtok 35 "packet" 83 21 242) (mkPtok 3 "}" 136 4 404)) None (mkPtok 35 "packet" 83 21 242) (mkPtok 42 "crc" 83 28 243) (mkPtok 2 "{" 84 4 244) [(mkFieldWithAttr (mkSpan (mkPtok 25 "i16" 84 6 245) (mkPtok 40 "," 86 0 248)) [] (MetaField (mkSpan (mkPtok 25 "i16" 84 6 245) (mkPtok 40 "," 86 0 248)) None (mkMetaDecl (mkSpan (mkPtok 25 "i16" 84 6 245) (mkPtok 40 "," 86 0 248)) (TyBasic (mkSpan (mkPtok 25 "i16" 84 6 245) (mkPtok 25 "i16" 84 6 245)) (mkBasicType (mkSpan (mkPtok 25 "i16" 84 6 245) (mkPtok 25 "i16" 84 6 245)) (mkPtok 25 "i16" 84 6 245))) (mkPtok 42 "metadata" 85 0 246) None (mkPtok 40 "," 86 0 248)))); (mkFieldWithAttr (mkSpan (mkPtok 38 "match" 86 2 249) (mkPtok 40 "," 97 17 282)) [] (MatchField (mkSpan (mkPtok 38 "match" 86 2 249) (mkPtok 40 "," 97 17 282)) (mkMatchFieldDecl (mkSpan (mkPtok 38 "match" 86 2 249) (mkPtok 3 "}" 97 16 281)) (mkPtok 38 "match" 86 2 249) (mkPtok 42 "string_" 87 4 250) (mkPtok 17 "as" 87 12 251) (mkPtok 42 "float" 87 16 252) (mkPtok 2 "{" 87 21 253) [(mkMatchPair (mkSpan (mkPtok 30 "42" 88 4 254) (mkPtok 40 "," 89 4 257)) (MKDigits (mkPtok 30 "42" 88 4 254)) (mkPtok 39 ":" 88 6 255) (mkPtok 42 "rootA" 88 8 256) (Some (mkPtok 40 "," 89 4 257))); (mkMatchPair (mkSpan (mkPtok 30 "65535" 89 6 258) (mkPtok 42 "roots" 90 0 260)) (MKDigits (mkPtok 30 "65535" 89 6 258)) (mkPtok 39 ":" 89 12 259) (mkPtok 42 "roots" 90 0 260) None); (mkMatchPair (mkSpan (mkPtok 30 "00" 90 6 261) (mkPtok 40 "," 90 13 264)) (MKDigits (mkPtok 30 "00" 90 6 261)) (mkPtok 39 ":" 90 9 262) (mkPtok 42 "As" 90 11 263) (Some (mkPtok 40 "," 90 13 264))); (mkMatchPair (mkSpan (mkPtok 18 "[" 91 4 265) (mkPtok 40 "," 96 8 275)) (MKList (mkKeyList (mkSpan (mkPtok 18 "[" 91 4 265) (mkPtok 13 "]" 95 15 271)) (mkPtok 18 "[" 91 4 265) (mkPtok 31 """// no comment""" 92 0 267) [((mkPtok 40 "," 94 4 269), (mkPtok 30 "0123456789" 95 4 270))] (mkPtok 13 "]" 95 15 271))) (mkPtok 39 ":" 95 17 272) (mkPtok 42 "options1" 96 0 274) (Some (mkPtok 40 "," 96 8 275))); (mkMatchPair (mkSpan (mkPtok 30 "00" 97 0 277) (mkPtok 40 "," 97 14 280)) (MKDigits (mkPtok 30 "00" 97 0 277)) (mkPtok 39 ":" 97 2 278) (mkPtok 42 "BodyLength" 97 4 279) (Some (mkPtok 40 "," 97 14 280)))] (mkPtok 3 "}" 97 16 281)) (mkPtok 40 "," 97 17 282))); (mkFieldWithAttr (mkSpan (mkPtok 36 "repeat" 97 19 283) (mkPtok 40 "," 104 7 295)) [] (InerObjectField (mkSpan (mkPtok 36 "repeat" 97 19 283) (mkPtok 40 "," 104 7 295)) (Some (mkPtok 36 "repeat" 97 19 283)) (InerObjectDecl (mkSpan (mkPtok 42 "x" 97 26 284) (mkPtok 3 "}" 104 5 294)) (mkPtok 42 "x" 97 26 284) (mkPtok 2 "{" 97 27 285) [(ObjectField (mkSpan (mkPtok 36 "repeat" 98 0 286) (mkPtok 40 "," 104 4 293)) (Some (mkPtok 36 "repeat" 98 0 286)) (mkPtok 42 "o" 99 0 287) (Some (mkPtok 42 "i8i8" 99 2 288)) (Some (mkPtok 43 (string_of_bytes [96; 195; 169; 96]%N) 102 0 291)) (mkPtok 40 "," 104 4 293))] (mkPtok 3 "}" 104 5 294)) (mkPtok 40 "," 104 7 295))); (mkFieldWithAttr (mkSpan (mkPtok 38 "match" 104 9 296) (mkPtok 40 "," 118 11 342)) [] (MatchField (mkSpan (mkPtok 38 "match" 104 9 296) (mkPtok 40 "," 118 11 342)) (mkMatchFieldDecl (mkSpan (mkPtok 38 "match" 104 9 296) (mkPtok 3 "}" 118 9 341)) (mkPtok 38 "match" 104 9 296) (mkPtok 42 "string_" 104 15 297) (mkPtok 17 "as" 105 0 298) (mkPtok 42 "Z9_" 106 4 299) (mkPtok 2 "{" 106 8 300) [(mkMatchPair (mkSpan (mkPtok 31 """abc""" 106 10 301) (mkPtok 40 "," 106 20 304)) (MKString (mkPtok 31 """abc""" 106 10 301)) (mkPtok 39 ":" 106 16 302) (mkPtok 42 "a1" 106 18 303) (Some (mkPtok 40 "," 106 20 304))); (mkMatchPair (mkSpan (mkPtok 18 "[" 106 22 305) (mkPtok 40 "," 111 9 320)) (MKList (mkKeyList (mkSpan (mkPtok 18 "[" 106 22 305) (mkPtok 13 "]" 109 21 316)) (mkPtok 18 "[" 106 22 305) (mkPtok 30 "42" 106 24 306) [((mkPtok 40 "," 107 0 307), (mkPtok 30 "255" 107 2 308)); ((mkPtok 40 "," 108 0 310), (mkPtok 30 "3" 109 4 311)); ((mkPtok 40 "," 109 6 312), (mkPtok 31 (string_of_bytes [34; 97; 9; 98; 34]%N) 109 8 313)); ((mkPtok 40 "," 109 14 314), (mkPtok 31 (string_of_bytes [34; 92; 195; 169; 34]%N) 109 16 315))] (mkPtok 13 "]" 109 21 316))) (mkPtok 39 ":" 110 0 317) (mkPtok 42 "MetaDataX" 111 0 319) (Some (mkPtok 40 "," 111 9 320))); (mkMatchPair (mkSpan (mkPtok 30 "3" 111 11 321) (mkPtok 40 "," 113 13 325)) (MKDigits (mkPtok 30 "3" 111 11 321)) (mkPtok 39 ":" 111 13 322) (mkPtok 42 "matchKey" 113 4 324) (Some (mkPtok 40 "," 113 13 325))); (mkMatchPair (mkSpan (mkPtok 18 "[" 114 0 326) (mkPtok 40 "," 118 8 340)) (MKList (mkKeyList (mkSpan (mkPtok 18 "[" 114 0 326) (mkPtok 13 "]" 117 17 337)) (mkPtok 18 "[" 114 0 326) (mkPtok 31 (string_of_bytes [34; 92; 195; 169; 34]%N) 115 0 328) [((mkPtok 40 "," 116 4 329), (mkPtok 30 "1" 116 6 330)); ((mkPtok 40 "," 116 7 331), (mkPtok 31 """abc""" 117 0 332)); ((mkPtok 40 "," 117 6 333), (mkPtok 30 "255" 117 8 334)); ((mkPtok 40 "," 117 12 335), (mkPtok 30 "255" 117 14 336))] (mkPtok 13 "]" 117 17 337))) (mkPtok 39 ":" 117 18 338) (mkPtok 42 "string_" 118 0 339) (Some (mkPtok 40 "," 118 8 340)))] (mkPtok 3 "}" 118 9 341)) (mkPtok 40 "," 118 11 342))); (mkFieldWithAttr (mkSpan (mkPtok 42 "Foo" 119 0 343) (mkPtok 40 "," 131 0 385)) [] (InerObjectField (mkSpan (mkPtok 42 "Foo" 119 0 343) (mkPtok 40 "," 131 0 385)) None (InerObjectDecl (mkSpan (mkPtok 42 "Foo" 119 0 343) (mkPtok 3 "}" 130 46 383)) (mkPtok 42 "Foo" 119 0 343) (mkPtok 2 "{" 120 0 344) [(InerObjectField (mkSpan (mkPtok 42 "crc" 120 2 345) (mkPtok 40 "," 130 3 373)) None (InerObjectDecl (mkSpan (mkPtok 42 "crc" 120 2 345) (mkPtok 3 "}" 130 2 372)) (mkPtok 42 "crc" 120 2 345) (mkPtok 2 "{" 120 6 346) [(CheckSumField (mkSpan (mkPtok 16 "char[]" 120 8 347) (mkPtok 40 "," 124 4 354)) (mkChecksumFieldDecl (mkSpan (mkPtok 16 "char[]" 120 8 347) (mkPtok 40 "," 124 4 354)) (Some (TyDynamic (mkSpan (mkPtok 16 "char[]" 120 8 347) (mkPtok 16 "char[]" 120 8 347)) (mkDynamicString (mkSpan (mkPtok 16 "char[]" 120 8 347) (mkPtok 16 "char[]" 120 8 347)) (mkPtok 16 "char[]" 120 8 347)))) (mkPtok 42 "stringy" 120 15 348) (mkCalculatedFrom (mkSpan (mkPtok 5 "@calculatedFrom(" 120 23 349) (mkPtok 6 ")" 122 4 352)) (mkPtok 5 "@calculatedFrom(" 120 23 349) (mkPtok 31 (string_of_bytes [34; 92; 195; 169; 34]%N) 120 40 350) (mkPtok 6 ")" 122 4 352)) None (mkPtok 40 "," 124 4 354))); (InerObjectField (mkSpan (mkPtok 36 "repeat" 125 0 355) (mkPtok 40 "," 128 4 367)) (Some (mkPtok 36 "repeat" 125 0 355)) (InerObjectDecl (mkSpan (mkPtok 42 "a1" 125 7 356) (mkPtok 3 "}" 127 0 366)) (mkPtok 42 "a1" 125 7 356) (mkPtok 2 "{" 125 10 357) [(CheckSumField (mkSpan (mkPtok 12 "char[" 125 12 358) (mkPtok 40 "," 126 42 365)) (mkChecksumFieldDecl (mkSpan (mkPtok 12 "char[" 125 12 358) (mkPtok 40 "," 126 42 365)) (Some (TyFixed (mkSpan (mkPtok 12 "char[" 125 12 358) (mkPtok 13 "]" 125 21 360)) (mkFixedString (mkSpan (mkPtok 12 "char[" 125 12 358) (mkPtok 13 "]" 125 21 360)) (mkPtok 12 "char[" 125 12 358) (mkPtok 30 "42" 125 18 359) (mkPtok 13 "]" 125 21 360)))) (mkPtok 42 "calculatedFrom" 126 4 361) (mkCalculatedFrom (mkSpan (mkPtok 5 "@calculatedFrom(" 126 19 362) (mkPtok 6 ")" 126 41 364)) (mkPtok 5 "@calculatedFrom(" 126 19 362) (mkPtok 31 """a\\""" 126 36 363) (mkPtok 6 ")" 126 41 364)) None (mkPtok 40 "," 126 42 365)))] (mkPtok 3 "}" 127 0 366)) (mkPtok 40 "," 128 4 367)); (MetaField (mkSpan (mkPtok 29 "float64" 128 5 368) (mkPtok 40 "," 130 0 371)) None (mkMetaDecl (mkSpan (mkPtok 29 "float64" 128 5 368) (mkPtok 40 "," 130 0 371)) (TyBasic (mkSpan (mkPtok 29 "float64" 128 5 368) (mkPtok 29 "float64" 128 5 368)) (mkBasicType (mkSpan (mkPtok 29 "float64" 128 5 368) (mkPtok 29 "float64" 128 5 368)) (mkPtok 29 "float64" 128 5 368))) (mkPtok 42 "Packet" 128 13 369) (Some (mkPtok 43 (string_of_bytes [96; 99; 114; 108; 102; 13; 10; 108; 105; 110; 101; 96]%N) 128 20 370)) (mkPtok 40 "," 130 0 371)))] (mkPtok 3 "}" 130 2 372)) (mkPtok 40 "," 130 3 373)); (InerObjectField (mkSpan (mkPtok 42 "As" 130 5 374) (mkPtok 40 "," 130 44 382)) None (InerObjectDecl (mkSpan (mkPtok 42 "As" 130 5 374) (mkPtok 3 "}" 130 43 381)) (mkPtok 42 "As" 130 5 374) (mkPtok 2 "{" 130 8 375) [(CheckSumField (mkSpan (mkPtok 42 "zchar" 130 10 376) (mkPtok 40 "," 130 41 380)) (mkChecksumFieldDecl (mkSpan (mkPtok 42 "zchar" 130 10 376) (mkPtok 40 "," 130 41 380)) None (mkPtok 42 "zchar" 130 10 376) (mkCalculatedFrom (mkSpan (mkPtok 5 "@calculatedFrom(" 130 16 377) (mkPtok 6 ")" 130 39 379)) (mkPtok 5 "@calculatedFrom(" 130 16 377) (mkPtok 31 """a\\""" 130 33 378) (mkPtok 6 ")" 130 39 379)) None (mkPtok 40 "," 130 41 380)))] (mkPtok 3 "}" 130 43 381)) (mkPtok 40 "," 130 44 382))] (mkPtok 3 "}" 130 46 383)) (mkPtok 40 "," 131 0 385))); (mkFieldWithAttr (mkSpan (mkPtok 25 "int16" 131 2 386) (mkPtok 40 "," 132 42 393)) [] (CheckSumField (mkSpan (mkPtok 25 "int16" 131 2 386) (mkPtok 40 "," 132 42 393)) (mkChecksumFieldDecl (mkSpan (mkPtok 25 "int16" 131 2 386) (mkPtok 40 "," 132 42 393)) (Some (TyBasic (mkSpan (mkPtok 25 "int16" 131 2 386) (mkPtok 25 "int16" 131 2 386)) (mkBasicType (mkSpan (mkPtok 25 "int16" 131 2 386) (mkPtok 25 "int16" 131 2 386)) (mkPtok 25 "int16" 131 2 386)))) (mkPtok 42 "string_" 131 8 387) (mkCalculatedFrom (mkSpan (mkPtok 5 "@calculatedFrom(" 132 0 389) (mkPtok 6 ")" 132 33 391)) (mkPtok 5 "@calculatedFrom(" 132 0 389) (mkPtok 31 """// no comment""" 132 17 390) (mkPtok 6 ")" 132 33 391)) (Some (mkPtok 43 (string_of_bytes [96; 230; 182; 136; 230; 129; 175; 231; 177; 187; 229; 158; 139; 96]%N) 132 35 392)) (mkPtok 40 "," 132 42 393)))); (mkFieldWithAttr (mkSpan (mkPtok 36 "repeat" 132 44 394) (mkPtok 40 "," 134 0 397)) [] (ObjectField (mkSpan (mkPtok 36 "repeat" 132 44 394) (mkPtok 40 "," 134 0 397)) (Some (mkPtok 36 "repeat" 132 44 394)) (mkPtok 42 "x" 132 51 395) None (Some (mkPtok 43 (string_of_bytes [96; 10; 96]%N) 132 53 396)) (mkPtok 40 "," 134 0 397))); (mkFieldWithAttr (mkSpan (mkPtok 14 "zchar[" 135 0 399) (mkPtok 40 "," 135 20 403)) [] (MetaField (mkSpan (mkPtok 14 "zchar[" 135 0 399) (mkPtok 40 "," 135 20 403)) None (mkMetaDecl (mkSpan (mkPtok 14 "zchar[" 135 0 399) (mkPtok 40 "," 135 20 403)) (TyFixed (mkSpan (mkPtok 14 "zchar[" 135 0 399) (mkPtok 13 "]" 135 13 401)) (mkFixedString (mkSpan (mkPtok 14 "zchar[" 135 0 399) (mkPtok 13 "]" 135 13 401)) (mkPtok 14 "zchar[" 135 0 399) (mkPtok 30 "65535" 135 7 400) (mkPtok 13 "]" 135 13 401))) (mkPtok 42 "i64_" 135 15 402) None (mkPtok 40 "," 135 20 403))))] (mkPtok 3 "}" 136 4 404)))])).
Eval vm_compute in ("<<<M177>>>" ++ check (runes_of_ascii "options{
    metadata = '0'}
options{u =
1 ;msg_type = string;	As = ""{,}"";
i8i8 = string; crc// `tick` ""quote"" 'q'
=
char[ 4294967296
] }")).
Eval vm_compute in ("<<<M187>>>" ++ check (runes_of_ascii "MetaData int{ }packet T
    {char[ 65535 ]	options1
, @calculatedFrom(
    ""// no comment"" ) // " ++ [128512]%N ++ runes_of_ascii " emoji
leftPad { match
zchar as	charz  { [
    7 ,
0123456789 ,
    //
    007,
    3 ,0123456789] // " ++ [128512]%N ++ runes_of_ascii " emoji
: pack ,
}
    , } , @tag( 255 ) uint64 string_	@lengthOf( matchKey ) `{ , }` , @lengthOf( Pad
    /// triple
    ) repeat matchKey x_y_z , match body as f32a { """ ++ [28040; 24687]%N ++ runes_of_ascii """ : u} ,uint16 As @calculatedFrom(""CRC32"" ) , zchar {//	t
u8 lengthOf ,} ,
    }
packet
    BodyLength { matchKey { repeat string falsey,
    // " ++ [27880; 37322]%N ++ runes_of_ascii "
    } , packetx  @calculatedFrom(""// no comment"" )
    ,falsey
// packet A { u8 x, }
// packet A { u8 x, }
{ Packet
A , uint16
    u@calculatedFrom(""a\""b""
)
,//x
f32 charz @lengthOf( u ) `u8 x,`  ,// @lengthOf(
},
@leftPad// " ++ [27880; 37322]%N ++ runes_of_ascii "
( '\x00' )
    options1
    ,
@rightPad (
    '0'
    ) repeatCount{  repeat u8
body ,
    }// " ++ [128512]%N ++ runes_of_ascii " emoji
,
metadata @lengthOf(	chars
)
`a\`
, @rightPad ( )@lengthOf( Pad )
    @calculatedFrom( ""abc"") float ,  @calculatedFrom(
""" ++ [128512]%N ++ runes_of_ascii """) zchar[
007]
A ,
// 50% %s
// 50% %s
string Pad// @lengthOf(
`line1
line2` ,
} packet
MetaDataX{
    //
    repeat string As`a\` , } packet// a // b
As { string repeatCount @lengthOf(
    Header
)
    ,repeat stringy
    `tab	here`
// 50% %s
// @lengthOf(
,}
")).
Eval vm_compute in ("<<<M197>>>" ++ check (runes_of_ascii "options
    { /// triple
charz
//
// 50% %s
=""a	b"" ;}
")).
Eval vm_compute in ("<<<M207>>>" ++ check (runes_of_ascii "packet uint8x { }
")).
Eval vm_compute in ("<<<M217>>>" ++ check (runes_of_ascii "
packet x
    { match Foo as stringy  {
    [
    ""CRC32"" , //	t
""{,}"" , ""it's""
,  ""a\\""
,
    // @lengthOf(
    """ ++ [28040; 24687]%N ++ runes_of_ascii """ , """ ++ [233]%N ++ runes_of_ascii "t" ++ [233]%N ++ runes_of_ascii """]
// " ++ [27880; 37322]%N ++ runes_of_ascii "
// @lengthOf(
: Packet ,} ,
match Header as
Foo
    {
[ 42
    , 1
]: BodyLength , }
    // `tick` ""quote"" 'q'
    , i64_ @calculatedFrom(
    ""it's"" ) `{ , }` ,
    } root // `tick` ""quote"" 'q'
packet	stringy { zchar[ 42 ]
    asx
`doc` ,
// packet A { u8 x, }
//x
}
    packet Z9_ { uint8
// " ++ [27880; 37322]%N ++ runes_of_ascii "
// " ++ [27880; 37322]%N ++ runes_of_ascii "
charz @calculatedFrom( ""CRC32"" ) `it's` , match stringy
    as  u128 { 42 : i8i8// trailing space 
, 0123456789 : charz ,
[00
, ""\" ++ [233]%N ++ runes_of_ascii """ , """ ++ [128512]%N ++ runes_of_ascii """ ,""\n"" , 10 , 42 ,	10 ] :
falsey	, 10 : pack
    ,	} , @tag( 10 ) repeat trueish
{ x_y_z MetaDataX `100% of %d` , } , tag
@calculatedFrom( ""`tick`"" ) ,
// c
// @lengthOf(
@calculatedFrom(""x y"" ) len // 50% %s
`
` ,@calculatedFrom( // " ++ [27880; 37322]%N ++ runes_of_ascii "
""`tick`""
    )repeat // a // b
pack { MetaDataX`" ++ [28040; 24687; 31867; 22411]%N ++ runes_of_ascii "` // `tick` ""quote"" 'q'
,repeat char[
007
    ]
Header // " ++ [128512]%N ++ runes_of_ascii " emoji
,}
, match msg_type as uint8x{ ""a\""b"" :uint8x 00: i64_,
10 : Header""packet"" :
f32a ,} , repeat string_ i8i8 , int32
    charz `// not a comment` ,@rightPad
( ) // 50% %s
match T
    as charz
{ [""\n""
    , """" , 10 , 10
,10 ,
10 , 4294967296 ]
:crc// packet A { u8 x, }
, ""a	b"" : a1
,	""\" ++ [233]%N ++ runes_of_ascii """  : // @lengthOf(
len
, 255
    // c
    :
x
    } ,}options { // " ++ [128512]%N ++ runes_of_ascii " emoji
packetx =false } packet u {
    //x
    @calculatedFrom( """ ++ [28040; 24687]%N ++ runes_of_ascii """ )repeat
// packet A { u8 x, }
// a // b
char[ 7 ]	Logon, }

")).
Eval vm_compute in ("<<<M227>>>" ++ check (runes_of_ascii "//	t
packet	u8x {repeat uint16 body , }MetaData
    trueish // packet A { u8 x, }
{} options
    {
    // 50% %s
    Header
=
false ;
} packet Logon { match i8i8 as options1 { 0
: MetaDataX,""" ++ [128512]%N ++ runes_of_ascii """ : MetaDataX
    , [ """ ++ [233]%N ++ runes_of_ascii "t" ++ [233]%N ++ runes_of_ascii """ ,255 ]
    :T } , repeat a1
a1 `crlf
line` ,	@calculatedFrom(
    ""\" ++ [233]%N ++ runes_of_ascii """
) o
@calculatedFrom(
""a	b"" ) ,
    // a // b
    @rightPad //x
(
) zchar[1]  stringy
@lengthOf(
Z9_), @tag( 1
)char[
65535 ]packetx
, repeat chars {x_y_z	{Logon chars`u8 x,`, } ,
    } ,
    u16	_x
    @lengthOf(Header
) , @tag(
65535
    ) repeat
uint8x	{int/// triple
`crlf
line`
    , } , @leftPad ( // 50% %s
'0' )
@calculatedFrom(
""a\""b"" ) repeat // " ++ [27880; 37322]%N ++ runes_of_ascii "
u64 tag , char[]
MetaDataX
, } options {
}
// " ++ [27880; 37322]%N ++ runes_of_ascii "
")).
Eval vm_compute in ("<<<M237>>>" ++ check (runes_of_ascii "packet As{  zchar[3 ]
    o @lengthOf(
    // trailing space 
    Header)`doc` , repeat char[] string_ , @tag(1 )
match BodyLength
    //	t
    as msg_type
{ """ ++ [28040; 24687]%N ++ runes_of_ascii """  :u8x, }
,  @tag(255 )repeat char[] crc
    // `tick` ""quote"" 'q'
    , }
")).
Eval vm_compute in ("<<<T237>>>" ++ terms [mkTok 35 "packet" 1 0 false; mkTok 42 "As" 1 7 false; mkTok 2 "{" 1 9 false; mkTok 14 "zchar[" 1 12 false; mkTok 30 "3" 1 18 false; mkTok 13 "]" 1 20 false; mkTok 42 "o" 2 4 false; mkTok 7 "@lengthOf(" 2 6 false; mkTok 44 "// trailing space " 3 4 true; mkTok 42 "Header" 4 4 false; mkTok 6 ")" 4 10 false; mkTok 43 "`doc`" 4 11 false; mkTok 40 "," 4 17 false; mkTok 36 "repeat" 4 19 false; mkTok 16 "char[]" 4 26 false; mkTok 42 "string_" 4 33 false; mkTok 40 "," 4 41 false; mkTok 9 "@tag(" 4 43 false; mkTok 30 "1" 4 48 false; mkTok 6 ")" 4 50 false; mkTok 38 "match" 5 0 false; mkTok 42 "BodyLength" 5 6 false; mkTok 44 (string_of_bytes [47; 47; 9; 116]%N) 6 4 true; mkTok 17 "as" 7 4 false; mkTok 42 "msg_type" 7 7 false; mkTok 2 "{" 8 0 false; mkTok 31 (string_of_bytes [34; 230; 182; 136; 230; 129; 175; 34]%N) 8 2 false; mkTok 39 ":" 8 8 false; mkTok 42 "u8x" 8 9 false; mkTok 40 "," 8 12 false; mkTok 3 "}" 8 14 false; mkTok 40 "," 9 0 false; mkTok 9 "@tag(" 9 3 false; mkTok 30 "255" 9 8 false; mkTok 6 ")" 9 12 false; mkTok 36 "repeat" 9 13 false; mkTok 16 "char[]" 9 20 false; mkTok 42 "crc" 9 27 false; mkTok 44 "// `tick` ""quote"" 'q'" 10 4 true; mkTok 40 "," 11 4 false; mkTok 3 "}" 11 6 false; mkTok 0 "<EOF>" 12 0 false] (mkPacket (mkPtok 35 "packet" 1 0 0) (Some (mkPtok 3 "}" 11 6 40)) [(DPacket (mkPacketDef (mkSpan (mkPtok 35 "packet" 1 0 0) (mkPtok 3 "}" 11 6 40)) None (mkPtok 35 "packet" 1 0 0) (mkPtok 42 "As" 1 7 1) (mkPtok 2 "{" 1 9 2) [(mkFieldWithAttr (mkSpan (mkPtok 14 "zchar[" 1 12 3) (mkPtok 40 "," 4 17 12)) [] (LengthField (mkSpan (mkPtok 14 "zchar[" 1 12 3) (mkPtok 40 "," 4 17 12)) (mkLengthFieldDecl (mkSpan (mkPtok 14 "zchar[" 1 12 3) (mkPtok 40 "," 4 17 12)) (Some (TyFixed (mkSpan (mkPtok 14 "zchar[" 1 12 3) (mkPtok 13 "]" 1 20 5)) (mkFixedString (mkSpan (mkPtok 14 "zchar[" 1 12 3) (mkPtok 13 "]" 1 20 5)) (mkPtok 14 "zchar[" 1 12 3) (mkPtok 30 "3" 1 18 4) (mkPtok 13 "]" 1 20 5)))) (mkPtok 42 "o" 2 4 6) (mkLengthOf (mkSpan (mkPtok 7 "@lengthOf(" 2 6 7) (mkPtok 6 ")" 4 10 10)) (mkPtok 7 "@lengthOf(" 2 6 7) (mkPtok 42 "Header" 4 4 9) (mkPtok 6 ")" 4 10 10)) (Some (mkPtok 43 "`doc`" 4 11 11)) (mkPtok 40 "," 4 17 12)))); (mkFieldWithAttr (mkSpan (mkPtok 36 "repeat" 4 19 13) (mkPtok 40 "," 4 41 16)) [] (MetaField (mkSpan (mkPtok 36 "repeat" 4 19 13) (mkPtok 40 "," 4 41 16)) (Some (mkPtok 36 "repeat" 4 19 13)) (mkMetaDecl (mkSpan (mkPtok 16 "char[]" 4 26 14) (mkPtok 40 "," 4 41 16)) (TyDynamic (mkSpan (mkPtok 16 "char[]" 4 26 14) (mkPtok 16 "char[]" 4 26 14)) (mkDynamicString (mkSpan (mkPtok 16 "char[]" 4 26 14) (mkPtok 16 "char[]" 4 26 14)) (mkPtok 16 "char[]" 4 26 14))) (mkPtok 42 "string_" 4 33 15) None (mkPtok 40 "," 4 41 16)))); (mkFieldWithAttr (mkSpan (mkPtok 9 "@tag(" 4 43 17) (mkPtok 40 "," 9 0 31)) [(FATag (mkSpan (mkPtok 9 "@tag(" 4 43 17) (mkPtok 6 ")" 4 50 19)) (mkTagAttr (mkSpan (mkPtok 9 "@tag(" 4 43 17) (mkPtok 6 ")" 4 50 19)) (mkPtok 9 "@tag(" 4 43 17) (mkPtok 30 "1" 4 48 18) (mkPtok 6 ")" 4 50 19)))] (MatchField (mkSpan (mkPtok 38 "match" 5 0 20) (mkPtok 40 "," 9 0 31)) (mkMatchFieldDecl (mkSpan (mkPtok 38 "match" 5 0 20) (mkPtok 3 "}" 8 14 30)) (mkPtok 38 "match" 5 0 20) (mkPtok 42 "BodyLength" 5 6 21) (mkPtok 17 "as" 7 4 23) (mkPtok 42 "msg_type" 7 7 24) (mkPtok 2 "{" 8 0 25) [(mkMatchPair (mkSpan (mkPtok 31 (string_of_bytes [34; 230; 182; 136; 230; 129; 175; 34]%N) 8 2 26) (mkPtok 40 "," 8 12 29)) (MKString (mkPtok 31 (string_of_bytes [34; 230; 182; 136; 230; 129; 175; 34]%N) 8 2 26)) (mkPtok 39 ":" 8 8 27) (mkPtok 42 "u8x" 8 9 28) (Some (mkPtok 40 "," 8 12 29)))] (mkPtok 3 "}" 8 14 30)) (mkPtok 40 "," 9 0 31))); (mkFieldWithAttr (mkSpan (mkPtok 9 "@tag(" 9 3 32) (mkPtok 40 "," 11 4 39)) [(FATag (mkSpan (mkPtok 9 "@tag(" 9 3 32) (mkPtok 6 ")" 9 12 34)) (mkTagAttr (mkSpan (mkPtok 9 "@tag(" 9 3 32) (mkPtok 6 ")" 9 12 34)) (mkPtok 9 "@tag(" 9 3 32) (mkPtok 30 "255" 9 8 33) (mkPtok 6 ")" 9 12 34)))] (MetaField (mkSpan (mkPtok 36 "repeat" 9 13 35) (mkPtok 40 "," 11 4 39)) (Some (mkPtok 36 "repeat" 9 13 35)) (mkMetaDecl (mkSpan (mkPtok 16 "char[]" 9 20 36) (mkPtok 40 "," 11 4 39)) (TyDynamic (mkSpan (mkPtok 16 "char[]" 9 20 36) (mkPtok 16 "char[]" 9 20 36)) (mkDynamicString (mkSpan (mkPtok 16 "char[]" 9 20 36) (mkPtok 16 "char[]" 9 20 36)) (mkPtok 16 "char[]" 9 20 36))) (mkPtok 42 "crc" 9 27 37) None (mkPtok 40 "," 11 4 39))))] (mkPtok 3 "}" 11 6 40)))])).
Eval vm_compute in ("<<<M247>>>" ++ check (@nil rune)).
Eval vm_compute in ("<<<M257>>>" ++ check (runes_of_ascii "options //
{ o = zchar[ 0 ] ;
    // 50% %s
    leftPad ='0'
    ; charz =
""packet"" // a // b
; zchar
    =
i32
    ;u8x = true } MetaData As {
    char[ 0 ] As `100% of %d` , i64 charz ,
tag
len`tab	here`
, //
Logon leftPad `it's`,
char[]
x`crlf
line`
,
}
root //
packet _x{ } packet
// `tick` ""quote"" 'q'
// c
Header { @leftPad ( '\x00' ) Header
    //
    @lengthOf(	metadata
    )
    `" ++ [28040; 24687; 31867; 22411]%N ++ runes_of_ascii "` , } root packet
    //x
    f32a  { @lengthOf(
    int ) repeat Foo { u32 i64_
, } ,
Packet  @lengthOf(
tag
)
    `u8 x,` ,
    @calculatedFrom(""" ++ [233]%N ++ runes_of_ascii "t" ++ [233]%N ++ runes_of_ascii """
    ) @calculatedFrom( ""a	b""// trailing space 
)
    char[]	lengthOf`{ , }` , // a // b
repeat int16 falsey `
` , _x	u128, @lengthOf( pack
)	repeat int32  trueish `100% of %d` , // " ++ [27880; 37322]%N ++ runes_of_ascii "
@lengthOf(	i64_ ) match A as
    x_y_z{
    // @lengthOf(
    [ """ ++ [28040; 24687]%N ++ runes_of_ascii """ ,	0123456789,	0 ,7	, 65535,
    /// triple
    ""{,}"" // " ++ [27880; 37322]%N ++ runes_of_ascii "
] : //x
options1,
    ""`tick`"" :	uint8x ""packet"" : charz ,
}
, @tag( 0123456789) char[ 10 ] roots
    @lengthOf( // @lengthOf(
a1 )
,
f64 asx
@calculatedFrom(
""a	b"" ) ,
    u8 lengthOf@calculatedFrom(  ""\" ++ [233]%N ++ runes_of_ascii """ ), }
")).
Eval vm_compute in ("<<<M267>>>" ++ check (runes_of_ascii "packet packetx{} packet
    zchar //	t
{}
")).
Eval vm_compute in ("<<<M277>>>" ++ check (runes_of_ascii "
packet stringy
    { // c
u8 Header// 50% %s
@calculatedFrom(
""it's""), calculatedFrom f32a, zchar[
    /// triple
    7
] chars
@lengthOf( x ),repeat
As //x
{ u8x crc
`
` ,	} , @tag(7) //x
i16 rootA `it's`	, @calculatedFrom( """ ++ [128512]%N ++ runes_of_ascii """ ) i8 i8i8 `line1
line2` ,
repeat  char charz `say ""hi""` , } options
    { }")).
Eval vm_compute in ("<<<M287>>>" ++ check (runes_of_ascii "
packet _x { }
packet msg_type
    {	@lengthOf( f32a ) u8x Z9_
, } MetaData /// triple
chars { string T
, } //x")).
Eval vm_compute in ("<<<M297>>>" ++ check (runes_of_ascii "//
options
{}
")).
Eval vm_compute in ("<<<M307>>>" ++ check (runes_of_ascii "root packet SimpleMessage {
    uint16 MsgType `" ++ [28040; 24687; 31867; 22411]%N ++ runes_of_ascii "`,
    string JsonBody `Json" ++ [23383; 31526; 20018; 28040; 24687; 20307]%N ++ runes_of_ascii "`,
}")).
Eval vm_compute in ("<<<T307>>>" ++ terms [mkTok 34 "root" 1 0 false; mkTok 35 "packet" 1 5 false; mkTok 42 "SimpleMessage" 1 12 false; mkTok 2 "{" 1 26 false; mkTok 21 "uint16" 2 4 false; mkTok 42 "MsgType" 2 11 false; mkTok 43 (string_of_bytes [96; 230; 182; 136; 230; 129; 175; 231; 177; 187; 229; 158; 139; 96]%N) 2 19 false; mkTok 40 "," 2 25 false; mkTok 15 "string" 3 4 false; mkTok 42 "JsonBody" 3 11 false; mkTok 43 (string_of_bytes [96; 74; 115; 111; 110; 229; 173; 151; 231; 172; 166; 228; 184; 178; 230; 182; 136; 230; 129; 175; 228; 189; 147; 96]%N) 3 20 false; mkTok 40 "," 3 32 false; mkTok 3 "}" 4 0 false; mkTok 0 "<EOF>" 4 1 false] (mkPacket (mkPtok 34 "root" 1 0 0) (Some (mkPtok 3 "}" 4 0 12)) [(DPacket (mkPacketDef (mkSpan (mkPtok 34 "root" 1 0 0) (mkPtok 3 "}" 4 0 12)) (Some (mkPtok 34 "root" 1 0 0)) (mkPtok 35 "packet" 1 5 1) (mkPtok 42 "SimpleMessage" 1 12 2) (mkPtok 2 "{" 1 26 3) [(mkFieldWithAttr (mkSpan (mkPtok 21 "uint16" 2 4 4) (mkPtok 40 "," 2 25 7)) [] (MetaField (mkSpan (mkPtok 21 "uint16" 2 4 4) (mkPtok 40 "," 2 25 7)) None (mkMetaDecl (mkSpan (mkPtok 21 "uint16" 2 4 4) (mkPtok 40 "," 2 25 7)) (TyBasic (mkSpan (mkPtok 21 "uint16" 2 4 4) (mkPtok 21 "uint16" 2 4 4)) (mkBasicType (mkSpan (mkPtok 21 "uint16" 2 4 4) (mkPtok 21 "uint16" 2 4 4)) (mkPtok 21 "uint16" 2 4 4))) (mkPtok 42 "MsgType" 2 11 5) (Some (mkPtok 43 (string_of_bytes [96; 230; 182; 136; 230; 129; 175; 231; 177; 187; 229; 158; 139; 96]%N) 2 19 6)) (mkPtok 40 "," 2 25 7)))); (mkFieldWithAttr (mkSpan (mkPtok 15 "string" 3 4 8) (mkPtok 40 "," 3 32 11)) [] (MetaField (mkSpan (mkPtok 15 "string" 3 4 8) (mkPtok 40 "," 3 32 11)) None (mkMetaDecl (mkSpan (mkPtok 15 "string" 3 4 8) (mkPtok 40 "," 3 32 11)) (TyDynamic (mkSpan (mkPtok 15 "string" 3 4 8) (mkPtok 15 "string" 3 4 8)) (mkDynamicString (mkSpan (mkPtok 15 "string" 3 4 8) (mkPtok 15 "string" 3 4 8)) (mkPtok 15 "string" 3 4 8))) (mkPtok 42 "JsonBody" 3 11 9) (Some (mkPtok 43 (string_of_bytes [96; 74; 115; 111; 110; 229; 173; 151; 231; 172; 166; 228; 184; 178; 230; 182; 136; 230; 129; 175; 228; 189; 147; 96]%N) 3 20 10)) (mkPtok 40 "," 3 32 11))))] (mkPtok 3 "}" 4 0 12)))])).
Eval vm_compute in ("<<<M317>>>" ++ check (runes_of_ascii "MetaData
@lengthOf(	{ char[] Z9_`{ , }`,} options { tag =
    false } packet
// a // b
// @lengthOf(
Pad {Foo @calculatedFrom( // `tick` ""quote"" 'q'
""a\\"" ) ,
    trueish ,
    char[ 00]
    // " ++ [128512]%N ++ runes_of_ascii " emoji
    packetx , }
")).
Eval vm_compute in ("<<<M327>>>" ++ check (runes_of_ascii "MetaData
crc	{ uint8 Z9_`{ , }`,} options { tag =
    false } packet
// a // b
// @lengthOf(
Pad {Foo @calculatedFrom( // `tick` ""quote"" 'q'
""a\\"" ) ,
    trueish ,
    char[ 00]
    // " ++ [128512]%N ++ runes_of_ascii " emoji
    packetx , }
")).
Eval vm_compute in ("<<<M337>>>" ++ check (runes_of_ascii "MetaData
crc	{ char[] Z9_},} options { tag =
    false } packet
// a // b
// @lengthOf(
Pad {Foo @calculatedFrom( // `tick` ""quote"" 'q'
""a\\"" ) ,
    trueish ,
    char[ 00]
    // " ++ [128512]%N ++ runes_of_ascii " emoji
    packetx , }
")).
Eval vm_compute in ("<<<M347>>>" ++ check (runes_of_ascii "MetaData
crc	{ char[] Z9_`{ , }`,{ options { tag =
    false } packet
// a // b
// @lengthOf(
Pad {Foo @calculatedFrom( // `tick` ""quote"" 'q'
""a\\"" ) ,
    trueish ,
    char[ 00]
    // " ++ [128512]%N ++ runes_of_ascii " emoji
    packetx , }
")).
Eval vm_compute in ("<<<M357>>>" ++ check (runes_of_ascii "MetaData
crc	{ char[] Z9_`{ , }`,} options repeat tag =
    false } packet
// a // b
// @lengthOf(
Pad {Foo @calculatedFrom( // `tick` ""quote"" 'q'
""a\\"" ) ,
    trueish ,
    char[ 00]
    // " ++ [128512]%N ++ runes_of_ascii " emoji
    packetx , }
")).
Eval vm_compute in ("<<<M367>>>" ++ check (runes_of_ascii "MetaData
crc	{ char[] Z9_`{ , }`,} options { tag root
    false } packet
// a // b
// @lengthOf(
Pad {Foo @calculatedFrom( // `tick` ""quote"" 'q'
""a\\"" ) ,
    trueish ,
    char[ 00]
    // " ++ [128512]%N ++ runes_of_ascii " emoji
    packetx , }
")).
Eval vm_compute in ("<<<M377>>>" ++ check (runes_of_ascii "MetaData
crc	{ char[] Z9_`{ , }`,} options { tag =
    false char[] packet
// a // b
// @lengthOf(
Pad {Foo @calculatedFrom( // `tick` ""quote"" 'q'
""a\\"" ) ,
    trueish ,
    char[ 00]
    // " ++ [128512]%N ++ runes_of_ascii " emoji
    packetx , }
")).
Eval vm_compute in ("<<<M387>>>" ++ check (runes_of_ascii "MetaData
crc	{ char[] Z9_`{ , }`,} options { tag =
    false } packet
// a // b
// @lengthOf(
u64 {Foo @calculatedFrom( // `tick` ""quote"" 'q'
""a\\"" ) ,
    trueish ,
    char[ 00]
    // " ++ [128512]%N ++ runes_of_ascii " emoji
    packetx , }
")).
Eval vm_compute in ("<<<M397>>>" ++ check (runes_of_ascii "MetaData
crc	{ char[] Z9_`{ , }`,} options { tag =
    false } packet
// a // b
// @lengthOf(
Pad {: @calculatedFrom( // `tick` ""quote"" 'q'
""a\\"" ) ,
    trueish ,
    char[ 00]
    // " ++ [128512]%N ++ runes_of_ascii " emoji
    packetx , }
")).
Eval vm_compute in ("<<<M407>>>" ++ check (runes_of_ascii "MetaData
crc	{ char[] Z9_`{ , }`,} options { tag =
    false } packet
// a // b
// @lengthOf(
Pad {Foo @calculatedFrom( // `tick` ""quote"" 'q'
int64 ) ,
    trueish ,
    char[ 00]
    // " ++ [128512]%N ++ runes_of_ascii " emoji
    packetx , }
")).
Eval vm_compute in ("<<<M417>>>" ++ check (runes_of_ascii "MetaData
crc	{ char[] Z9_`{ , }`,} options { tag =
    false } packet
// a // b
// @lengthOf(
Pad {Foo @calculatedFrom( // `tick` ""quote"" 'q'
""a\\"" ) a1
    trueish ,
    char[ 00]
    // " ++ [128512]%N ++ runes_of_ascii " emoji
    packetx , }
")).
Eval vm_compute in ("<<<M427>>>" ++ check (runes_of_ascii "MetaData
crc	{ char[] Z9_`{ , }`,} options { tag =
    false } packet
// a // b
// @lengthOf(
Pad {Foo @calculatedFrom( // `tick` ""quote"" 'q'
""a\\"" ) ,
    trueish zchar[
    char[ 00]
    // " ++ [128512]%N ++ runes_of_ascii " emoji
    packetx , }
")).
Eval vm_compute in ("<<<M437>>>" ++ check (runes_of_ascii "MetaData
crc	{ char[] Z9_`{ , }`,} options { tag =
    false } packet
// a // b
// @lengthOf(
Pad {Foo @calculatedFrom( // `tick` ""quote"" 'q'
""a\\"" ) ,
    trueish ,
    char[ char[]]
    // " ++ [128512]%N ++ runes_of_ascii " emoji
    packetx , }
")).
Eval vm_compute in ("<<<M447>>>" ++ check (runes_of_ascii "MetaData
crc	{ char[] Z9_`{ , }`,} options { tag =
    false } packet
// a // b
// @lengthOf(
Pad {Foo @calculatedFrom( // `tick` ""quote"" 'q'
""a\\"" ) ,
    trueish ,
    char[ 00]
    // " ++ [128512]%N ++ runes_of_ascii " emoji
    [ , }
")).
Eval vm_compute in ("<<<M457>>>" ++ check (runes_of_ascii "MetaData
crc	{ char[] Z9_`{ , }`,} options { tag =
    false } packet
// a // b
// @lengthOf(
Pad {Foo @calculatedFrom( // `tick` ""quote"" 'q'
""a\\"" ) ,
    trueish ,
    char[ 00]
    // " ++ [128512]%N ++ runes_of_ascii " emoji
    packetx ,")).
Eval vm_compute in ("<<<M467>>>" ++ check (runes_of_ascii "MetaData
crc	{ char[] Z9_`{ , }`,} options { / tag =
    false } packet
// a // b
// @lengthOf(
Pad {Foo @calculatedFrom( // `tick` ""quote"" 'q'
""a\\"" ) ,
    trueish ,
    char[ 00]
    // " ++ [128512]%N ++ runes_of_ascii " emoji
    packetx , }
")).
Eval vm_compute in ("<<<M477>>>" ++ check (runes_of_ascii "MetaData
crc	{ char[] Z9_`{ , }`,} options { na" ++ [239]%N ++ runes_of_ascii "ve =
    false } packet
// a // b
// @lengthOf(
Pad {Foo @calculatedFrom( // `tick` ""quote"" 'q'
""a\\"" ) ,
    trueish ,
    char[ 00]
    // " ++ [128512]%N ++ runes_of_ascii " emoji
    packetx , }
")).
Eval vm_compute in ("<<<M487>>>" ++ check (runes_of_ascii "root packet _x	{ @rightPad (
' ' ) string u8x @lengthOf(
    _x
) , repeat Pad  { // " ++ [128512]%N ++ runes_of_ascii " emoji
As")).
Eval vm_compute in ("<<<M497>>>" ++ check (runes_of_ascii "root packet _x	{ @rightPad (
' ' ) string u8x @lengthOf(
    _x
) , repeat Pad  { // " ++ [128512]%N ++ runes_of_ascii " emoji
As
// `tick` ""quote"" 'q'
//x
{matchKey chars,
} , }} ,")).
Eval vm_compute in ("<<<M507>>>" ++ check (runes_of_ascii "root packet _x	{ @rightPad (
' ' ) string u8x @lengthOf(
    _x
) , repeat Pad  { // " ++ [128512]%N ++ runes_of_ascii " emoji
As
// `tick` ""quote"" 'q'
//x
{matchKey")).
Eval vm_compute in ("<<<M517>>>" ++ check (runes_of_ascii "root packet _x	{ @rightPad (
' ' ) string u8x @lengthOf(
    _x
) , repeat Pad  { // " ++ [128512]%N ++ runes_of_ascii " emoji
As As
// `tick` ""quote"" 'q'
//x
{matchKey chars,
} , }, }")).
Eval vm_compute in ("<<<M527>>>" ++ check (runes_of_ascii "root packet _x	{ @rightPad (
' ' ) string u8x @lengthOf(
    _x
) , repeat")).
Eval vm_compute in ("<<<M537>>>" ++ check (runes_of_ascii "root packet _x	{ @rightPad (
' ' ) string u8x @lengthOf(
    _x
) , repeat {  Pad // " ++ [128512]%N ++ runes_of_ascii " emoji
As
// `tick` ""quote"" 'q'
//x
{matchKey chars,
} , }, }")).
Eval vm_compute in ("<<<M547>>>" ++ check (runes_of_ascii "root packet _x	{ @rightPad (
' ' ) string u8x @lengthOf(
    _x
) , repeat Pad  { // " ++ [128512]%N ++ runes_of_ascii " emoji
As
// `tick`" ++ [0]%N ++ runes_of_ascii " ""quote"" 'q'
//x
{matchKey chars,
} , }, }")).
Eval vm_compute in ("<<<T547>>>" ++ terms [mkTok 34 "root" 1 0 false; mkTok 35 "packet" 1 5 false; mkTok 42 "_x" 1 12 false; mkTok 2 "{" 1 15 false; mkTok 32 "@rightPad" 1 17 false; mkTok 8 "(" 1 27 false; mkTok 33 "' '" 2 0 false; mkTok 6 ")" 2 4 false; mkTok 15 "string" 2 6 false; mkTok 42 "u8x" 2 13 false; mkTok 7 "@lengthOf(" 2 17 false; mkTok 42 "_x" 3 4 false; mkTok 6 ")" 4 0 false; mkTok 40 "," 4 2 false; mkTok 36 "repeat" 4 4 false; mkTok 42 "Pad" 4 11 false; mkTok 2 "{" 4 16 false; mkTok 44 (string_of_bytes [47; 47; 32; 240; 159; 152; 128; 32; 101; 109; 111; 106; 105]%N) 4 18 true; mkTok 42 "As" 5 0 false; mkTok 44 (string_of_bytes [47; 47; 32; 96; 116; 105; 99; 107; 96; 0; 32; 34; 113; 117; 111; 116; 101; 34; 32; 39; 113; 39]%N) 6 0 true; mkTok 44 "//x" 7 0 true; mkTok 2 "{" 8 0 false; mkTok 42 "matchKey" 8 1 false; mkTok 42 "chars" 8 10 false; mkTok 40 "," 8 15 false; mkTok 3 "}" 9 0 false; mkTok 40 "," 9 2 false; mkTok 3 "}" 9 4 false; mkTok 40 "," 9 5 false; mkTok 3 "}" 9 7 false; mkTok 0 "<EOF>" 9 8 false] (mkPacket (mkPtok 34 "root" 1 0 0) (Some (mkPtok 3 "}" 9 7 29)) [(DPacket (mkPacketDef (mkSpan (mkPtok 34 "root" 1 0 0) (mkPtok 3 "}" 9 7 29)) (Some (mkPtok 34 "root" 1 0 0)) (mkPtok 35 "packet" 1 5 1) (mkPtok 42 "_x" 1 12 2) (mkPtok 2 "{" 1 15 3) [(mkFieldWithAttr (mkSpan (mkPtok 32 "@rightPad" 1 17 4) (mkPtok 40 "," 4 2 13)) [(FAPadding (mkSpan (mkPtok 32 "@rightPad" 1 17 4) (mkPtok 6 ")" 2 4 7)) (mkPaddingAttr (mkSpan (mkPtok 32 "@rightPad" 1 17 4) (mkPtok 6 ")" 2 4 7)) (mkPtok 32 "@rightPad" 1 17 4) (mkPtok 8 "(" 1 27 5) (Some (mkPtok 33 "' '" 2 0 6)) (mkPtok 6 ")" 2 4 7)))] (LengthField (mkSpan (mkPtok 15 "string" 2 6 8) (mkPtok 40 "," 4 2 13)) (mkLengthFieldDecl (mkSpan (mkPtok 15 "string" 2 6 8) (mkPtok 40 "," 4 2 13)) (Some (TyDynamic (mkSpan (mkPtok 15 "string" 2 6 8) (mkPtok 15 "string" 2 6 8)) (mkDynamicString (mkSpan (mkPtok 15 "string" 2 6 8) (mkPtok 15 "string" 2 6 8)) (mkPtok 15 "string" 2 6 8)))) (mkPtok 42 "u8x" 2 13 9) (mkLengthOf (mkSpan (mkPtok 7 "@lengthOf(" 2 17 10) (mkPtok 6 ")" 4 0 12)) (mkPtok 7 "@lengthOf(" 2 17 10) (mkPtok 42 "_x" 3 4 11) (mkPtok 6 ")" 4 0 12)) None (mkPtok 40 "," 4 2 13)))); (mkFieldWithAttr (mkSpan (mkPtok 36 "repeat" 4 4 14) (mkPtok 40 "," 9 5 28)) [] (InerObjectField (mkSpan (mkPtok 36 "repeat" 4 4 14) (mkPtok 40 "," 9 5 28)) (Some (mkPtok 36 "repeat" 4 4 14)) (InerObjectDecl (mkSpan (mkPtok 42 "Pad" 4 11 15) (mkPtok 3 "}" 9 4 27)) (mkPtok 42 "Pad" 4 11 15) (mkPtok 2 "{" 4 16 16) [(InerObjectField (mkSpan (mkPtok 42 "As" 5 0 18) (mkPtok 40 "," 9 2 26)) None (InerObjectDecl (mkSpan (mkPtok 42 "As" 5 0 18) (mkPtok 3 "}" 9 0 25)) (mkPtok 42 "As" 5 0 18) (mkPtok 2 "{" 8 0 21) [(ObjectField (mkSpan (mkPtok 42 "matchKey" 8 1 22) (mkPtok 40 "," 8 15 24)) None (mkPtok 42 "matchKey" 8 1 22) (Some (mkPtok 42 "chars" 8 10 23)) None (mkPtok 40 "," 8 15 24))] (mkPtok 3 "}" 9 0 25)) (mkPtok 40 "," 9 2 26))] (mkPtok 3 "}" 9 4 27)) (mkPtok 40 "," 9 5 28)))] (mkPtok 3 "}" 9 7 29)))])).
Eval vm_compute in ("<<<M557>>>" ++ check (runes_of_ascii "root packet _x	{ @rightPad (
' ' ) string u8x @lengthOf(
    _x
) ,")).
Eval vm_compute in ("<<<M567>>>" ++ check (runes_of_ascii "")).
Eval vm_compute in ("<<<M577>>>" ++ check ([397; 8; 65533; 65533; 29; 65533]%N ++ runes_of_ascii "ar
+" ++ [65533]%N ++ runes_of_ascii ":" ++ [65533; 65533; 65533; 65533; 20; 566; 65533]%N ++ runes_of_ascii "T" ++ [65533; 65533]%N ++ runes_of_ascii "	" ++ [21; 65533; 65533]%N)).
Eval vm_compute in ("<<<M587>>>" ++ check (runes_of_ascii "255 char[ u64 [ char[] `
`")).
Eval vm_compute in ("<<<M597>>>" ++ check (runes_of_ascii "6|" ++ [65533]%N ++ runes_of_ascii "" ++ [65533; 65533]%N ++ runes_of_ascii """O~" ++ [65533; 65533; 65533; 22; 65533; 65533]%N ++ runes_of_ascii "6" ++ [25; 28; 127; 65533]%N ++ runes_of_ascii "|")).
