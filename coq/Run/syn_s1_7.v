From FP Require Import Lexer Parser ShowPT Digest.
From Coq Require Import String List NArith.
Import ListNotations.
Open Scope string_scope.
Set Printing Width 100000000.
Set Printing Depth 100000000.
Definition nl : string := String (Ascii.ascii_of_nat 10) EmptyString.
Definition model_lex (rs : list rune) : string := show_toks (lex rs).
Definition model_parse (rs : list rune) : string :=
  show_pt (match lex rs with Some ts => parse ts | None => None end).
(* coqc is slow at printing long strings: digests first (Digest.v), full texts on demand *)
Definition check (rs : list rune) : string :=
  digest (model_lex rs) ++ " " ++ digest (model_parse rs).
Definition full (rs : list rune) : string := model_lex rs ++ nl ++ model_parse rs.
Definition terms (ts : list tok) (t : pt) : string :=
  digest (show_toks (Some ts)) ++ " " ++ digest (show_pt (Some t)) ++ " " ++ digest (show_pt (parse ts)).
Definition terms_full (ts : list tok) (t : pt) : string :=
  show_toks (Some ts) ++ nl ++ show_pt (Some t) ++ nl ++ show_pt (parse ts).
Eval vm_compute in ("<<<M7>>>" ++ check (runes_of_ascii "packet pack {
repeat As {
char[ 65535 // trailing space 
] crc `crlf
line` , },
}
")).
Eval vm_compute in ("<<<M17>>>" ++ check (runes_of_ascii "packet Z9_// packet A { u8 x, }
{ @tag(
4294967296 )uint8x@calculatedFrom( ""abc"" ), }

")).
Eval vm_compute in ("<<<M27>>>" ++ check (runes_of_ascii "options // " ++ [27880; 37322]%N ++ runes_of_ascii "
{Packet = 4294967296
; i64_  = // c
""1"" ;	Z9_ = ""abc"" ; options1 =
""a\\""
; o=0  ; }")).
Eval vm_compute in ("<<<T27>>>" ++ terms [mkTok 1 "options" 1 0 false; mkTok 44 (string_of_bytes [47; 47; 32; 230; 179; 168; 233; 135; 138]%N) 1 8 true; mkTok 2 "{" 2 0 false; mkTok 42 "Packet" 2 1 false; mkTok 4 "=" 2 8 false; mkTok 30 "4294967296" 2 10 false; mkTok 41 ";" 3 0 false; mkTok 42 "i64_" 3 2 false; mkTok 4 "=" 3 8 false; mkTok 44 "// c" 3 10 true; mkTok 31 """1""" 4 0 false; mkTok 41 ";" 4 4 false; mkTok 42 "Z9_" 4 6 false; mkTok 4 "=" 4 10 false; mkTok 31 """abc""" 4 12 false; mkTok 41 ";" 4 18 false; mkTok 42 "options1" 4 20 false; mkTok 4 "=" 4 29 false; mkTok 31 """a\\""" 5 0 false; mkTok 41 ";" 6 0 false; mkTok 42 "o" 6 2 false; mkTok 4 "=" 6 3 false; mkTok 30 "0" 6 4 false; mkTok 41 ";" 6 7 false; mkTok 3 "}" 6 9 false; mkTok 0 "<EOF>" 6 10 false] (mkPacket (mkPtok 1 "options" 1 0 0) (Some (mkPtok 3 "}" 6 9 24)) [(DOption (mkOptionDef (mkSpan (mkPtok 1 "options" 1 0 0) (mkPtok 3 "}" 6 9 24)) (mkPtok 1 "options" 1 0 0) (mkPtok 2 "{" 2 0 2) [(mkOptionDecl (mkSpan (mkPtok 42 "Packet" 2 1 3) (mkPtok 41 ";" 3 0 6)) (mkPtok 42 "Packet" 2 1 3) (mkPtok 4 "=" 2 8 4) (VDigits (mkSpan (mkPtok 30 "4294967296" 2 10 5) (mkPtok 30 "4294967296" 2 10 5)) (mkPtok 30 "4294967296" 2 10 5)) (Some (mkPtok 41 ";" 3 0 6))); (mkOptionDecl (mkSpan (mkPtok 42 "i64_" 3 2 7) (mkPtok 41 ";" 4 4 11)) (mkPtok 42 "i64_" 3 2 7) (mkPtok 4 "=" 3 8 8) (VString (mkSpan (mkPtok 31 """1""" 4 0 10) (mkPtok 31 """1""" 4 0 10)) (mkPtok 31 """1""" 4 0 10)) (Some (mkPtok 41 ";" 4 4 11))); (mkOptionDecl (mkSpan (mkPtok 42 "Z9_" 4 6 12) (mkPtok 41 ";" 4 18 15)) (mkPtok 42 "Z9_" 4 6 12) (mkPtok 4 "=" 4 10 13) (VString (mkSpan (mkPtok 31 """abc""" 4 12 14) (mkPtok 31 """abc""" 4 12 14)) (mkPtok 31 """abc""" 4 12 14)) (Some (mkPtok 41 ";" 4 18 15))); (mkOptionDecl (mkSpan (mkPtok 42 "options1" 4 20 16) (mkPtok 41 ";" 6 0 19)) (mkPtok 42 "options1" 4 20 16) (mkPtok 4 "=" 4 29 17) (VString (mkSpan (mkPtok 31 """a\\""" 5 0 18) (mkPtok 31 """a\\""" 5 0 18)) (mkPtok 31 """a\\""" 5 0 18)) (Some (mkPtok 41 ";" 6 0 19))); (mkOptionDecl (mkSpan (mkPtok 42 "o" 6 2 20) (mkPtok 41 ";" 6 7 23)) (mkPtok 42 "o" 6 2 20) (mkPtok 4 "=" 6 3 21) (VDigits (mkSpan (mkPtok 30 "0" 6 4 22) (mkPtok 30 "0" 6 4 22)) (mkPtok 30 "0" 6 4 22)) (Some (mkPtok 41 ";" 6 7 23)))] (mkPtok 3 "}" 6 9 24)))])).
Eval vm_compute in ("<<<M37>>>" ++ check (runes_of_ascii "packet  int {@tag( 00
) float	,
@leftPad( '0'
)@calculatedFrom(""" ++ [28040; 24687]%N ++ runes_of_ascii """ ) match crc
as body
    {""`tick`"" : msg_type} // @lengthOf(
,
Logon
,repeat u8x, // " ++ [27880; 37322]%N ++ runes_of_ascii "
} packet MetaDataX { }packet string_ {
repeat //
Header Header
, // trailing space 
} packet
A{ @rightPad // " ++ [27880; 37322]%N ++ runes_of_ascii "
( '\x00' // trailing space 
) @leftPad (
    ' ' ) repeat uint64
    matchKey // trailing space 
, f32 len // @lengthOf(
, // trailing space 
repeat
tag
{i64
// @lengthOf(
// " ++ [27880; 37322]%N ++ runes_of_ascii "
roots
    // " ++ [27880; 37322]%N ++ runes_of_ascii "
    @lengthOf( metadata ), }
, @tag(
65535
    ) char[ //
00 ]
// a // b
/// triple
a1
    ,repeat i16 i8i8 ,char[
3 ]int @calculatedFrom(
""a\\"" ) , // a // b
@calculatedFrom( """ ++ [28040; 24687]%N ++ runes_of_ascii """) Pad// " ++ [128512]%N ++ runes_of_ascii " emoji
@lengthOf(
stringy ) ,/// triple
}
")).
Eval vm_compute in ("<<<M47>>>" ++ check (runes_of_ascii "packet rootA{ }
options
{ uint8x =//	t
u32 ; i64_
=	255 ;
len
    = ' '
    ;
    } // @lengthOf(")).
Eval vm_compute in ("<<<M57>>>" ++ check (runes_of_ascii "// " ++ [27880; 37322]%N ++ runes_of_ascii "
options { u8x
=false}	packet crc
{ @leftPad
    ( // `tick` ""quote"" 'q'
'\x00'
)@calculatedFrom( ""a\""b"" ) char[] u@lengthOf(
    x ), stringy
charz	`" ++ [233]%N ++ runes_of_ascii "`
// c
// c
,
} packet
// c
//x
tag {
    string T,zchar[ 7
    ] leftPad ,// `tick` ""quote"" 'q'
}
")).
Eval vm_compute in ("<<<M67>>>" ++ check (runes_of_ascii "  options	{ string_
=true; } options
{ T
= false}
packet
u8x { @lengthOf( int
    //
    )
zchar[ 255 ] BodyLength , } // trailing space 
root
packet
    f32a  { }packet roots
{ Foo
    , repeat char[ 007 ] Pad
,repeat  int8
packetx
    ,
    match Z9_ as T	{
00 :A , ""a\""b"" :
    falsey  , //
""CRC32""
:a1
,
    }	, }
")).
Eval vm_compute in ("<<<M77>>>" ++ check (runes_of_ascii "MetaData calculatedFrom { // @lengthOf(
tag a1
, uint8 _x`crlf
line`,
// " ++ [27880; 37322]%N ++ runes_of_ascii "
// packet A { u8 x, }
string
    Z9_ ,uint8x A`line1
line2` ,char falsey , packetx Foo
,  }
MetaData body {
string x_y_z``
    , falsey zchar `line1
line2` , } options{ }
")).
Eval vm_compute in ("<<<M87>>>" ++ check (runes_of_ascii "MetaData
Packet
{
    }options { Z9_ =
char[] ; _x=
'0';
body
=
false }
")).
Eval vm_compute in ("<<<M97>>>" ++ check (runes_of_ascii "packet repeatCount{	} // c")).
Eval vm_compute in ("<<<T97>>>" ++ terms [mkTok 35 "packet" 1 0 false; mkTok 42 "repeatCount" 1 7 false; mkTok 2 "{" 1 18 false; mkTok 3 "}" 1 20 false; mkTok 44 "// c" 1 22 true; mkTok 0 "<EOF>" 1 26 false] (mkPacket (mkPtok 35 "packet" 1 0 0) (Some (mkPtok 3 "}" 1 20 3)) [(DPacket (mkPacketDef (mkSpan (mkPtok 35 "packet" 1 0 0) (mkPtok 3 "}" 1 20 3)) None (mkPtok 35 "packet" 1 0 0) (mkPtok 42 "repeatCount" 1 7 1) (mkPtok 2 "{" 1 18 2) [] (mkPtok 3 "}" 1 20 3)))])).
Eval vm_compute in ("<<<M107>>>" ++ check (runes_of_ascii "
packet float {
} MetaData As { char[]
    trueish , }
// " ++ [27880; 37322]%N ++ runes_of_ascii "
")).
Eval vm_compute in ("<<<M117>>>" ++ check (@nil rune)).
Eval vm_compute in ("<<<M127>>>" ++ check (runes_of_ascii "
packet  u
    //	t
    {uint32 metadata	,	@lengthOf( metadata // " ++ [27880; 37322]%N ++ runes_of_ascii "
)
// `tick` ""quote"" 'q'
// c
repeat Logon
    ,x_y_z// a // b
, @lengthOf(
    tag )
// " ++ [128512]%N ++ runes_of_ascii " emoji
// c
float msg_type	,}MetaData chars { u8x
    matchKey
// " ++ [27880; 37322]%N ++ runes_of_ascii "
//x
,
    uint8
    x_y_z `u8 x,`, zchar x_y_z `doc` ,	char i64_ `a\` ,f32 tag//	t
, } MetaData _x {
// trailing space 
// `tick` ""quote"" 'q'
} options { }
")).
Eval vm_compute in ("<<<M137>>>" ++ check (runes_of_ascii "packet u128 {@lengthOf( x_y_z )	@lengthOf( stringy )
@lengthOf( _x) zchar[
// c
// c
4294967296 ] asx @calculatedFrom(
    ""\" ++ [233]%N ++ runes_of_ascii """	)
    `
` ,char[0 ] matchKey
, rootA
    u128
    ,
    metadata metadata ,	zchar[	3 ]
    string_ `" ++ [233]%N ++ runes_of_ascii "`
,
// `tick` ""quote"" 'q'
// " ++ [27880; 37322]%N ++ runes_of_ascii "
@calculatedFrom(""a	b""
)
char roots `" ++ [28040; 24687; 31867; 22411]%N ++ runes_of_ascii "` , repeat zchar[10]
pack
    `
`, @calculatedFrom( ""{,}"" )
@lengthOf( //	t
Foo )  packetx {// " ++ [128512]%N ++ runes_of_ascii " emoji
match i8i8 as Header
{ 255	: Z9_  """ ++ [233]%N ++ runes_of_ascii "t" ++ [233]%N ++ runes_of_ascii """ :tag
, [ 7,	1, ""// no comment"", ""// no comment"" , 3
,
    """" , // `tick` ""quote"" 'q'
1 ] :lengthOf 3 :  asx , [ 42	,
0 , 1 ] :Z9_ , 10 :
    A}, } , }root packet T {/// triple
int32 roots `two words`, stringy, @rightPad ( '\x00')float64 len	@lengthOf( o )
    ,match body // `tick` ""quote"" 'q'
as	uint8x { 10
    :
tag , }
    ,
    repeat u8
    Pad
    `" ++ [28040; 24687; 31867; 22411]%N ++ runes_of_ascii "`
    , repeat char[]
    float // c
, @calculatedFrom(	""packet"" ) u16 x
    @lengthOf(
u8x)
// c
// a // b
, } //x")).
Eval vm_compute in ("<<<M147>>>" ++ check (runes_of_ascii "packet Header {
    }
")).
Eval vm_compute in ("<<<M157>>>" ++ check (runes_of_ascii "packet
    Header	{	repeat string
    Header
,
repeat options1  ,	zchar[
    //	t
    00 ] matchKey ,} options
// @lengthOf(
// `tick` ""quote"" 'q'
{charz= ""\n"" ; // a // b
BodyLength = ""x y"" u8x
    = ""x y""
    u // `tick` ""quote"" 'q'
= 255 }
MetaData u8x{
// a // b
// c
Z9_
i8i8 , float32  stringy , float msg_type // `tick` ""quote"" 'q'
`doc`
    ,
calculatedFrom T , Foo T `a\` , }	root
    packet
    roots
    {	@tag( 00
) /// triple
match// `tick` ""quote"" 'q'
len
    as roots {
    // @lengthOf(
    [ 4294967296 ]
    : tag ""// no comment"" :float ,"""" : uint8x ,
// " ++ [27880; 37322]%N ++ runes_of_ascii "
// trailing space 
007
    // " ++ [27880; 37322]%N ++ runes_of_ascii "
    :
    options1 , } , }")).
Eval vm_compute in ("<<<M167>>>" ++ check (runes_of_ascii "packet matchKey
{ // packet A { u8 x, }
zchar[ 65535
//	t
// packet A { u8 x, }
] Foo @calculatedFrom(
// " ++ [128512]%N ++ runes_of_ascii " emoji
// a // b
""\n"" ) ``, @tag(10 ) repeat
x Logon`
` , @calculatedFrom(
    ""it's"" ) @rightPad (
) zchar[ 255 ]	lengthOf
    // @lengthOf(
    , repeat uint8x`" ++ [233]%N ++ runes_of_ascii "`
,
    }
")).
Eval vm_compute in ("<<<T167>>>" ++ terms [mkTok 35 "packet" 1 0 false; mkTok 42 "matchKey" 1 7 false; mkTok 2 "{" 2 0 false; mkTok 44 "// packet A { u8 x, }" 2 2 true; mkTok 14 "zchar[" 3 0 false; mkTok 30 "65535" 3 7 false; mkTok 44 (string_of_bytes [47; 47; 9; 116]%N) 4 0 true; mkTok 44 "// packet A { u8 x, }" 5 0 true; mkTok 13 "]" 6 0 false; mkTok 42 "Foo" 6 2 false; mkTok 5 "@calculatedFrom(" 6 6 false; mkTok 44 (string_of_bytes [47; 47; 32; 240; 159; 152; 128; 32; 101; 109; 111; 106; 105]%N) 7 0 true; mkTok 44 "// a // b" 8 0 true; mkTok 31 """\n""" 9 0 false; mkTok 6 ")" 9 5 false; mkTok 43 "``" 9 7 false; mkTok 40 "," 9 9 false; mkTok 9 "@tag(" 9 11 false; mkTok 30 "10" 9 16 false; mkTok 6 ")" 9 19 false; mkTok 36 "repeat" 9 21 false; mkTok 42 "x" 10 0 false; mkTok 42 "Logon" 10 2 false; mkTok 43 (string_of_bytes [96; 10; 96]%N) 10 7 false; mkTok 40 "," 11 2 false; mkTok 5 "@calculatedFrom(" 11 4 false; mkTok 31 """it's""" 12 4 false; mkTok 6 ")" 12 11 false; mkTok 32 "@rightPad" 12 13 false; mkTok 8 "(" 12 23 false; mkTok 6 ")" 13 0 false; mkTok 14 "zchar[" 13 2 false; mkTok 30 "255" 13 9 false; mkTok 13 "]" 13 13 false; mkTok 42 "lengthOf" 13 15 false; mkTok 44 "// @lengthOf(" 14 4 true; mkTok 40 "," 15 4 false; mkTok 36 "repeat" 15 6 false; mkTok 42 "uint8x" 15 13 false; mkTok 43 (string_of_bytes [96; 195; 169; 96]%N) 15 19 false; mkTok 40 "," 16 0 false; mkTok 3 "}" 17 4 false; mkTok 0 "<EOF>" 18 0 false] (mkPacket (mkPtok 35 "packet" 1 0 0) (Some (mkPtok 3 "}" 17 4 41)) [(DPacket (mkPacketDef (mkSpan (mkPtok 35 "packet" 1 0 0) (mkPtok 3 "}" 17 4 41)) None (mkPtok 35 "packet" 1 0 0) (mkPtok 42 "matchKey" 1 7 1) (mkPtok 2 "{" 2 0 2) [(mkFieldWithAttr (mkSpan (mkPtok 14 "zchar[" 3 0 4) (mkPtok 40 "," 9 9 16)) [] (CheckSumField (mkSpan (mkPtok 14 "zchar[" 3 0 4) (mkPtok 40 "," 9 9 16)) (mkChecksumFieldDecl (mkSpan (mkPtok 14 "zchar[" 3 0 4) (mkPtok 40 "," 9 9 16)) (Some (TyFixed (mkSpan (mkPtok 14 "zchar[" 3 0 4) (mkPtok 13 "]" 6 0 8)) (mkFixedString (mkSpan (mkPtok 14 "zchar[" 3 0 4) (mkPtok 13 "]" 6 0 8)) (mkPtok 14 "zchar[" 3 0 4) (mkPtok 30 "65535" 3 7 5) (mkPtok 13 "]" 6 0 8)))) (mkPtok 42 "Foo" 6 2 9) (mkCalculatedFrom (mkSpan (mkPtok 5 "@calculatedFrom(" 6 6 10) (mkPtok 6 ")" 9 5 14)) (mkPtok 5 "@calculatedFrom(" 6 6 10) (mkPtok 31 """\n""" 9 0 13) (mkPtok 6 ")" 9 5 14)) (Some (mkPtok 43 "``" 9 7 15)) (mkPtok 40 "," 9 9 16)))); (mkFieldWithAttr (mkSpan (mkPtok 9 "@tag(" 9 11 17) (mkPtok 40 "," 11 2 24)) [(FATag (mkSpan (mkPtok 9 "@tag(" 9 11 17) (mkPtok 6 ")" 9 19 19)) (mkTagAttr (mkSpan (mkPtok 9 "@tag(" 9 11 17) (mkPtok 6 ")" 9 19 19)) (mkPtok 9 "@tag(" 9 11 17) (mkPtok 30 "10" 9 16 18) (mkPtok 6 ")" 9 19 19)))] (ObjectField (mkSpan (mkPtok 36 "repeat" 9 21 20) (mkPtok 40 "," 11 2 24)) (Some (mkPtok 36 "repeat" 9 21 20)) (mkPtok 42 "x" 10 0 21) (Some (mkPtok 42 "Logon" 10 2 22)) (Some (mkPtok 43 (string_of_bytes [96; 10; 96]%N) 10 7 23)) (mkPtok 40 "," 11 2 24))); (mkFieldWithAttr (mkSpan (mkPtok 5 "@calculatedFrom(" 11 4 25) (mkPtok 40 "," 15 4 36)) [(FACalculatedFrom (mkSpan (mkPtok 5 "@calculatedFrom(" 11 4 25) (mkPtok 6 ")" 12 11 27)) (mkCalculatedFrom (mkSpan (mkPtok 5 "@calculatedFrom(" 11 4 25) (mkPtok 6 ")" 12 11 27)) (mkPtok 5 "@calculatedFrom(" 11 4 25) (mkPtok 31 """it's""" 12 4 26) (mkPtok 6 ")" 12 11 27))); (FAPadding (mkSpan (mkPtok 32 "@rightPad" 12 13 28) (mkPtok 6 ")" 13 0 30)) (mkPaddingAttr (mkSpan (mkPtok 32 "@rightPad" 12 13 28) (mkPtok 6 ")" 13 0 30)) (mkPtok 32 "@rightPad" 12 13 28) (mkPtok 8 "(" 12 23 29) None (mkPtok 6 ")" 13 0 30)))] (MetaField (mkSpan (mkPtok 14 "zchar[" 13 2 31) (mkPtok 40 "," 15 4 36)) None (mkMetaDecl (mkSpan (mkPtok 14 "zchar[" 13 2 31) (mkPtok 40 "," 15 4 36)) (TyFixed (mkSpan (mkPtok 14 "zchar[" 13 2 31) (mkPtok 13 "]" 13 13 33)) (mkFixedString (mkSpan (mkPtok 14 "zchar[" 13 2 31) (mkPtok 13 "]" 13 13 33)) (mkPtok 14 "zchar[" 13 2 31) (mkPtok 30 "255" 13 9 32) (mkPtok 13 "]" 13 13 33))) (mkPtok 42 "lengthOf" 13 15 34) None (mkPtok 40 "," 15 4 36)))); (mkFieldWithAttr (mkSpan (mkPtok 36 "repeat" 15 6 37) (mkPtok 40 "," 16 0 40)) [] (ObjectField (mkSpan (mkPtok 36 "repeat" 15 6 37) (mkPtok 40 "," 16 0 40)) (Some (mkPtok 36 "repeat" 15 6 37)) (mkPtok 42 "uint8x" 15 13 38) None (Some (mkPtok 43 (string_of_bytes [96; 195; 169; 96]%N) 15 19 39)) (mkPtok 40 "," 16 0 40)))] (mkPtok 3 "}" 17 4 41)))])).
Eval vm_compute in ("<<<M177>>>" ++ check (runes_of_ascii "// " ++ [128512]%N ++ runes_of_ascii " emoji
packet i64_ { match repeatCount
as u8x{ // packet A { u8 x, }
7 : crc , },repeat uint32 roots ,
} packet options1{ match  MetaDataX as
chars
{ ""CRC32""
    :tag , 00 : lengthOf// a // b
,	""" ++ [233]%N ++ runes_of_ascii "t" ++ [233]%N ++ runes_of_ascii """ : _x , } , uint16 trueish	,
char[ 10 ] calculatedFrom	,
@calculatedFrom( ""a\\""  ) @tag(
65535 ) @rightPad (	'\x00' ) repeat int32 len , }
")).
Eval vm_compute in ("<<<M187>>>" ++ check (runes_of_ascii "  packet repeatCount {
@rightPad (' ' )
char[42]	Header @calculatedFrom( ""a\\"" )
    ,
// packet A { u8 x, }
// packet A { u8 x, }
@tag( 10 ) i64 options1@calculatedFrom( ""x y"" )
,  Packet{ i64 lengthOf@calculatedFrom( ""abc""
)
    // " ++ [128512]%N ++ runes_of_ascii " emoji
    , repeat zchar[
00 ] i64_`u8 x,`
    , } ,
    string tag , string
    o `" ++ [233]%N ++ runes_of_ascii "`
/// triple
// " ++ [128512]%N ++ runes_of_ascii " emoji
, repeat char[  42] a1 `doc`,
string leftPad @calculatedFrom(""a\\"" ), } 	 ")).
Eval vm_compute in ("<<<M197>>>" ++ check (runes_of_ascii "MetaData zchar
    {  i32 Z9_ `say ""hi""` ,
    } // a // b")).
Eval vm_compute in ("<<<M207>>>" ++ check (runes_of_ascii "options
{ }	MetaData
Foo {
char[
    0 ]  Logon `u8 x,` ,// packet A { u8 x, }
zchar[ 255 ]
    calculatedFrom `
` ,
    zchar[ 00 ]o
    `u8 x,` ,char[255 ]
Header `a\`// `tick` ""quote"" 'q'
, // a // b
Pad
    Pad ,
    } packet i8i8 {
    u32
    // " ++ [128512]%N ++ runes_of_ascii " emoji
    float,// @lengthOf(
As @calculatedFrom( ""// no comment"" ) , }")).
Eval vm_compute in ("<<<M217>>>" ++ check (runes_of_ascii "packet zchar{
    uint8x { MetaDataX , match stringy as calculatedFrom { """" : options1,""// no comment""
: //x
u
""\" ++ [233]%N ++ runes_of_ascii """
:  body
, [
""abc""
    , ""it's"" , // c
007 ] : packetx
//	t
// @lengthOf(
,65535:
roots
, } ,  zchar[	10 ]
lengthOf`two words`  ,	} // trailing space 
,
//
// packet A { u8 x, }
} root
packet Header{repeat f32a o `two words`,
    @lengthOf(
    f32a ) char[	42
]
    uint8x ,	@tag( 42
)
    float@lengthOf(
MetaDataX  ) , string T	, match _x as leftPad
    { 0123456789 :
    stringy, } ,  @leftPad // @lengthOf(
( )repeat uint8x// c
{
string_ { char[ 255] a1 @calculatedFrom( ""abc""
), metadata @lengthOf(	asx ),
    } , repeat falsey /// triple
,
    Logon { As ,
repeat char[]// trailing space 
u
    , } , },
    @leftPad
    (	' '
    )
char[ 10
] charz
@lengthOf(  float ), @calculatedFrom(
    """ ++ [233]%N ++ runes_of_ascii "t" ++ [233]%N ++ runes_of_ascii """
) i64 trueish
    `two words`
, } options{ options1	=7
; u
    // " ++ [27880; 37322]%N ++ runes_of_ascii "
    = """" ; } 	 ")).
Eval vm_compute in ("<<<M227>>>" ++ check (runes_of_ascii "packet lengthOf {
f64 lengthOf
@lengthOf(a1
)
`" ++ [28040; 24687; 31867; 22411]%N ++ runes_of_ascii "`
, uint64 Logon `" ++ [233]%N ++ runes_of_ascii "`
,	string Pad@calculatedFrom( ""\n"" )
/// triple
// trailing space 
,zchar[ 0123456789
    ] Foo @lengthOf( charz )	`// not a comment` ,
@rightPad ()match falsey
    as Packet{ """"
    :
u ,
65535 :
float ,[  4294967296
] :	trueish // trailing space 
,	[10 ,0123456789 ]  :
Logon , 1 : roots [  7 ,
""\" ++ [233]%N ++ runes_of_ascii """ , 00
    //
    ]:
float , } ,}
")).
Eval vm_compute in ("<<<M237>>>" ++ check (runes_of_ascii "
packet
Z9_  { } packet T
{
repeat
    charz {match float as // " ++ [128512]%N ++ runes_of_ascii " emoji
stringy {00 : f32a [ 00
    //x
    , 00 ,""a\\""
// packet A { u8 x, }
// a // b
, 0 ,	7, 0 ] : As , } ,//	t
uint32 asx ,
//
/// triple
repeat u8x {
    repeat
//x
//
u8 string_ ,
} , } , }
")).
Eval vm_compute in ("<<<T237>>>" ++ terms [mkTok 35 "packet" 2 0 false; mkTok 42 "Z9_" 3 0 false; mkTok 2 "{" 3 5 false; mkTok 3 "}" 3 7 false; mkTok 35 "packet" 3 9 false; mkTok 42 "T" 3 16 false; mkTok 2 "{" 4 0 false; mkTok 36 "repeat" 5 0 false; mkTok 42 "charz" 6 4 false; mkTok 2 "{" 6 10 false; mkTok 38 "match" 6 11 false; mkTok 42 "float" 6 17 false; mkTok 17 "as" 6 23 false; mkTok 44 (string_of_bytes [47; 47; 32; 240; 159; 152; 128; 32; 101; 109; 111; 106; 105]%N) 6 26 true; mkTok 42 "stringy" 7 0 false; mkTok 2 "{" 7 8 false; mkTok 30 "00" 7 9 false; mkTok 39 ":" 7 12 false; mkTok 42 "f32a" 7 14 false; mkTok 18 "[" 7 19 false; mkTok 30 "00" 7 21 false; mkTok 44 "//x" 8 4 true; mkTok 40 "," 9 4 false; mkTok 30 "00" 9 6 false; mkTok 40 "," 9 9 false; mkTok 31 """a\\""" 9 10 false; mkTok 44 "// packet A { u8 x, }" 10 0 true; mkTok 44 "// a // b" 11 0 true; mkTok 40 "," 12 0 false; mkTok 30 "0" 12 2 false; mkTok 40 "," 12 4 false; mkTok 30 "7" 12 6 false; mkTok 40 "," 12 7 false; mkTok 30 "0" 12 9 false; mkTok 13 "]" 12 11 false; mkTok 39 ":" 12 13 false; mkTok 42 "As" 12 15 false; mkTok 40 "," 12 18 false; mkTok 3 "}" 12 20 false; mkTok 40 "," 12 22 false; mkTok 44 (string_of_bytes [47; 47; 9; 116]%N) 12 23 true; mkTok 22 "uint32" 13 0 false; mkTok 42 "asx" 13 7 false; mkTok 40 "," 13 11 false; mkTok 44 "//" 14 0 true; mkTok 44 "/// triple" 15 0 true; mkTok 36 "repeat" 16 0 false; mkTok 42 "u8x" 16 7 false; mkTok 2 "{" 16 11 false; mkTok 36 "repeat" 17 4 false; mkTok 44 "//x" 18 0 true; mkTok 44 "//" 19 0 true; mkTok 20 "u8" 20 0 false; mkTok 42 "string_" 20 3 false; mkTok 40 "," 20 11 false; mkTok 3 "}" 21 0 false; mkTok 40 "," 21 2 false; mkTok 3 "}" 21 4 false; mkTok 40 "," 21 6 false; mkTok 3 "}" 21 8 false; mkTok 0 "<EOF>" 22 0 false] (mkPacket (mkPtok 35 "packet" 2 0 0) (Some (mkPtok 3 "}" 21 8 59)) [(DPacket (mkPacketDef (mkSpan (mkPtok 35 "packet" 2 0 0) (mkPtok 3 "}" 3 7 3)) None (mkPtok 35 "packet" 2 0 0) (mkPtok 42 "Z9_" 3 0 1) (mkPtok 2 "{" 3 5 2) [] (mkPtok 3 "}" 3 7 3))); (DPacket (mkPacketDef (mkSpan (mkPtok 35 "packet" 3 9 4) (mkPtok 3 "}" 21 8 59)) None (mkPtok 35 "packet" 3 9 4) (mkPtok 42 "T" 3 16 5) (mkPtok 2 "{" 4 0 6) [(mkFieldWithAttr (mkSpan (mkPtok 36 "repeat" 5 0 7) (mkPtok 40 "," 21 6 58)) [] (InerObjectField (mkSpan (mkPtok 36 "repeat" 5 0 7) (mkPtok 40 "," 21 6 58)) (Some (mkPtok 36 "repeat" 5 0 7)) (InerObjectDecl (mkSpan (mkPtok 42 "charz" 6 4 8) (mkPtok 3 "}" 21 4 57)) (mkPtok 42 "charz" 6 4 8) (mkPtok 2 "{" 6 10 9) [(MatchField (mkSpan (mkPtok 38 "match" 6 11 10) (mkPtok 40 "," 12 22 39)) (mkMatchFieldDecl (mkSpan (mkPtok 38 "match" 6 11 10) (mkPtok 3 "}" 12 20 38)) (mkPtok 38 "match" 6 11 10) (mkPtok 42 "float" 6 17 11) (mkPtok 17 "as" 6 23 12) (mkPtok 42 "stringy" 7 0 14) (mkPtok 2 "{" 7 8 15) [(mkMatchPair (mkSpan (mkPtok 30 "00" 7 9 16) (mkPtok 42 "f32a" 7 14 18)) (MKDigits (mkPtok 30 "00" 7 9 16)) (mkPtok 39 ":" 7 12 17) (mkPtok 42 "f32a" 7 14 18) None); (mkMatchPair (mkSpan (mkPtok 18 "[" 7 19 19) (mkPtok 40 "," 12 18 37)) (MKList (mkKeyList (mkSpan (mkPtok 18 "[" 7 19 19) (mkPtok 13 "]" 12 11 34)) (mkPtok 18 "[" 7 19 19) (mkPtok 30 "00" 7 21 20) [((mkPtok 40 "," 9 4 22), (mkPtok 30 "00" 9 6 23)); ((mkPtok 40 "," 9 9 24), (mkPtok 31 """a\\""" 9 10 25)); ((mkPtok 40 "," 12 0 28), (mkPtok 30 "0" 12 2 29)); ((mkPtok 40 "," 12 4 30), (mkPtok 30 "7" 12 6 31)); ((mkPtok 40 "," 12 7 32), (mkPtok 30 "0" 12 9 33))] (mkPtok 13 "]" 12 11 34))) (mkPtok 39 ":" 12 13 35) (mkPtok 42 "As" 12 15 36) (Some (mkPtok 40 "," 12 18 37)))] (mkPtok 3 "}" 12 20 38)) (mkPtok 40 "," 12 22 39)); (MetaField (mkSpan (mkPtok 22 "uint32" 13 0 41) (mkPtok 40 "," 13 11 43)) None (mkMetaDecl (mkSpan (mkPtok 22 "uint32" 13 0 41) (mkPtok 40 "," 13 11 43)) (TyBasic (mkSpan (mkPtok 22 "uint32" 13 0 41) (mkPtok 22 "uint32" 13 0 41)) (mkBasicType (mkSpan (mkPtok 22 "uint32" 13 0 41) (mkPtok 22 "uint32" 13 0 41)) (mkPtok 22 "uint32" 13 0 41))) (mkPtok 42 "asx" 13 7 42) None (mkPtok 40 "," 13 11 43))); (InerObjectField (mkSpan (mkPtok 36 "repeat" 16 0 46) (mkPtok 40 "," 21 2 56)) (Some (mkPtok 36 "repeat" 16 0 46)) (InerObjectDecl (mkSpan (mkPtok 42 "u8x" 16 7 47) (mkPtok 3 "}" 21 0 55)) (mkPtok 42 "u8x" 16 7 47) (mkPtok 2 "{" 16 11 48) [(MetaField (mkSpan (mkPtok 36 "repeat" 17 4 49) (mkPtok 40 "," 20 11 54)) (Some (mkPtok 36 "repeat" 17 4 49)) (mkMetaDecl (mkSpan (mkPtok 20 "u8" 20 0 52) (mkPtok 40 "," 20 11 54)) (TyBasic (mkSpan (mkPtok 20 "u8" 20 0 52) (mkPtok 20 "u8" 20 0 52)) (mkBasicType (mkSpan (mkPtok 20 "u8" 20 0 52) (mkPtok 20 "u8" 20 0 52)) (mkPtok 20 "u8" 20 0 52))) (mkPtok 42 "string_" 20 3 53) None (mkPtok 40 "," 20 11 54)))] (mkPtok 3 "}" 21 0 55)) (mkPtok 40 "," 21 2 56))] (mkPtok 3 "}" 21 4 57)) (mkPtok 40 "," 21 6 58)))] (mkPtok 3 "}" 21 8 59)))])).
Eval vm_compute in ("<<<M247>>>" ++ check (runes_of_ascii "MetaData
    a1 { // a // b
}options { o
= 255
; } packet f32a //
{ uint8 _x	@calculatedFrom( ""x y""
)	,}MetaData
    options1
{  f64 lengthOf `it's`
,lengthOf metadata,	int8 crc
`
` /// triple
,
    char[0123456789//	t
]o ,
// " ++ [128512]%N ++ runes_of_ascii " emoji
// packet A { u8 x, }
char[] //	t
a1,}
")).
Eval vm_compute in ("<<<M257>>>" ++ check (runes_of_ascii "

")).
Eval vm_compute in ("<<<M267>>>" ++ check (runes_of_ascii "options
{ u // a // b
=42 x_y_z
    =' ' ;msg_type =
    true ; u
=10 ;  } options { zchar =
uint8
;  } // c")).
Eval vm_compute in ("<<<M277>>>" ++ check (runes_of_ascii "MetaData MetaDataX
{
    Foo BodyLength // packet A { u8 x, }
, As T , }options { calculatedFrom = true  ;// " ++ [27880; 37322]%N ++ runes_of_ascii "
Header
= true}
// trailing space 
// c
packet tag {	@leftPad (
    '\x00') @lengthOf( Foo)// a // b
@tag(
    42)string body
    ,
@calculatedFrom(""abc"")
char[ 00
]	len,@calculatedFrom( """ ++ [128512]%N ++ runes_of_ascii """
)	repeat tag ,match msg_type as // @lengthOf(
Header {	65535
//
// @lengthOf(
: roots , ""abc"" //
: string_ , [ 007 , 0
    // `tick` ""quote"" 'q'
    ,	007 ]:
// " ++ [128512]%N ++ runes_of_ascii " emoji
// a // b
zchar 255
    //
    : Packet [ ""packet"" , 0 ,
    ""\" ++ [233]%N ++ runes_of_ascii """ , ""x y"" , 65535 , """ ++ [233]%N ++ runes_of_ascii "t" ++ [233]%N ++ runes_of_ascii """ , 0123456789
,
7]
: //
matchKey} ,repeat
int64
metadata`
`
,
i64_
`` //
, char[42 ] MetaDataX
// `tick` ""quote"" 'q'
// c
@calculatedFrom( ""CRC32"" ) , zchar[ 255 ]
    //
    roots	@lengthOf(
    options1
    ) `two words` , msg_type @calculatedFrom(
    //x
    ""\n""  ) ,
    u len , } packet x {
} packet falsey
{  @calculatedFrom(
""a	b""
)
    int64 falsey
    `{ , }`,
    repeat f64 crc// trailing space 
,
    @tag(	255) uint32 // a // b
chars `" ++ [28040; 24687; 31867; 22411]%N ++ runes_of_ascii "` , @leftPad ( '\x00'	)@lengthOf( falsey )
@calculatedFrom(	""a	b"" )  stringy { zchar[ // " ++ [27880; 37322]%N ++ runes_of_ascii "
7	] Pad `line1
line2` , string
    pack,
    // @lengthOf(
    float64 string_ ,	},	repeat rootA{	match Logon as
    /// triple
    o // " ++ [27880; 37322]%N ++ runes_of_ascii "
{ 007 //x
:leftPad
    , 0	: T , ""CRC32"" :
T
[ ""a	b"" ]: Logon , } ,
    match // @lengthOf(
x_y_z as
_x
{ 10
:
metadata , """ ++ [233]%N ++ runes_of_ascii "t" ++ [233]%N ++ runes_of_ascii """
    : string_,  } ,} ,
// c
/// triple
o{ options1
    @calculatedFrom("""" ) ,	repeat i32
body, } , @tag(1 /// triple
) match packetx// " ++ [27880; 37322]%N ++ runes_of_ascii "
as rootA
{
""" ++ [128512]%N ++ runes_of_ascii """:
// `tick` ""quote"" 'q'
//x
zchar  ,
    7 :
    zchar  ,
[ 0 , 42,
""a\\"" , 0123456789	, ""it's""
,3 //	t
,
""abc""	, 0123456789	]: lengthOf,
// " ++ [27880; 37322]%N ++ runes_of_ascii "
//x
0
// trailing space 
// " ++ [27880; 37322]%N ++ runes_of_ascii "
: _x, ""1"":
    Header , }
    , @rightPad
    // c
    ( ) repeat pack {
match MetaDataX
    as o { ""a\""b"" : Pad
[ ""a\""b"" ]:A , 1
: rootA  , }
    , match	calculatedFrom as T/// triple
{ 65535  : stringy , // " ++ [27880; 37322]%N ++ runes_of_ascii "
65535 :  Packet ,
    [
007 , ""CRC32""
    , 00 , 3 ,
    65535
,	""x y"" ,65535 ]: matchKey/// triple
, 007
: rootA
,// @lengthOf(
}, },char[] u128
,// a // b
}")).
Eval vm_compute in ("<<<M287>>>" ++ check (runes_of_ascii "packet  int  { @calculatedFrom( """ ++ [28040; 24687]%N ++ runes_of_ascii """  )
@tag(
    // `tick` ""quote"" 'q'
    007
    ) options1 @calculatedFrom( ""CRC32"" ) `tab	here`
, @lengthOf(
As )
    x x_y_z , repeat x
{ i64 Z9_,
zchar[
    // c
    007 ] body
//	t
// a // b
@lengthOf( uint8x
    )
    // c
    , f64  metadata @calculatedFrom( ""`tick`""	)
    `tab	here`, }	, } packet msg_type {
    repeat
// trailing space 
// c
zchar[255 ]A, int64 f32a ,// " ++ [128512]%N ++ runes_of_ascii " emoji
Pad
@lengthOf( falsey
)
,
match
    falsey
as
x_y_z {
7: // `tick` ""quote"" 'q'
len
,}
/// triple
// c
, string // " ++ [27880; 37322]%N ++ runes_of_ascii "
uint8x
    `a\`,string rootA
//x
// a // b
@lengthOf( int	) ,	}	root
/// triple
// `tick` ""quote"" 'q'
packet pack { crc i64_ , }
")).
Eval vm_compute in ("<<<M297>>>" ++ check (runes_of_ascii "MetaData asx { chars
f32a , string /// triple
T , } options
{ zchar=
    10
    // " ++ [27880; 37322]%N ++ runes_of_ascii "
    crc= true}
")).
Eval vm_compute in ("<<<M307>>>" ++ check (runes_of_ascii "root packet SimpleMessage {
    uint16 MsgType `" ++ [28040; 24687; 31867; 22411]%N ++ runes_of_ascii "`,
    string JsonBody `Json" ++ [23383; 31526; 20018; 28040; 24687; 20307]%N ++ runes_of_ascii "`,
}")).
Eval vm_compute in ("<<<T307>>>" ++ terms [mkTok 34 "root" 1 0 false; mkTok 35 "packet" 1 5 false; mkTok 42 "SimpleMessage" 1 12 false; mkTok 2 "{" 1 26 false; mkTok 21 "uint16" 2 4 false; mkTok 42 "MsgType" 2 11 false; mkTok 43 (string_of_bytes [96; 230; 182; 136; 230; 129; 175; 231; 177; 187; 229; 158; 139; 96]%N) 2 19 false; mkTok 40 "," 2 25 false; mkTok 15 "string" 3 4 false; mkTok 42 "JsonBody" 3 11 false; mkTok 43 (string_of_bytes [96; 74; 115; 111; 110; 229; 173; 151; 231; 172; 166; 228; 184; 178; 230; 182; 136; 230; 129; 175; 228; 189; 147; 96]%N) 3 20 false; mkTok 40 "," 3 32 false; mkTok 3 "}" 4 0 false; mkTok 0 "<EOF>" 4 1 false] (mkPacket (mkPtok 34 "root" 1 0 0) (Some (mkPtok 3 "}" 4 0 12)) [(DPacket (mkPacketDef (mkSpan (mkPtok 34 "root" 1 0 0) (mkPtok 3 "}" 4 0 12)) (Some (mkPtok 34 "root" 1 0 0)) (mkPtok 35 "packet" 1 5 1) (mkPtok 42 "SimpleMessage" 1 12 2) (mkPtok 2 "{" 1 26 3) [(mkFieldWithAttr (mkSpan (mkPtok 21 "uint16" 2 4 4) (mkPtok 40 "," 2 25 7)) [] (MetaField (mkSpan (mkPtok 21 "uint16" 2 4 4) (mkPtok 40 "," 2 25 7)) None (mkMetaDecl (mkSpan (mkPtok 21 "uint16" 2 4 4) (mkPtok 40 "," 2 25 7)) (TyBasic (mkSpan (mkPtok 21 "uint16" 2 4 4) (mkPtok 21 "uint16" 2 4 4)) (mkBasicType (mkSpan (mkPtok 21 "uint16" 2 4 4) (mkPtok 21 "uint16" 2 4 4)) (mkPtok 21 "uint16" 2 4 4))) (mkPtok 42 "MsgType" 2 11 5) (Some (mkPtok 43 (string_of_bytes [96; 230; 182; 136; 230; 129; 175; 231; 177; 187; 229; 158; 139; 96]%N) 2 19 6)) (mkPtok 40 "," 2 25 7)))); (mkFieldWithAttr (mkSpan (mkPtok 15 "string" 3 4 8) (mkPtok 40 "," 3 32 11)) [] (MetaField (mkSpan (mkPtok 15 "string" 3 4 8) (mkPtok 40 "," 3 32 11)) None (mkMetaDecl (mkSpan (mkPtok 15 "string" 3 4 8) (mkPtok 40 "," 3 32 11)) (TyDynamic (mkSpan (mkPtok 15 "string" 3 4 8) (mkPtok 15 "string" 3 4 8)) (mkDynamicString (mkSpan (mkPtok 15 "string" 3 4 8) (mkPtok 15 "string" 3 4 8)) (mkPtok 15 "string" 3 4 8))) (mkPtok 42 "JsonBody" 3 11 9) (Some (mkPtok 43 (string_of_bytes [96; 74; 115; 111; 110; 229; 173; 151; 231; 172; 166; 228; 184; 178; 230; 182; 136; 230; 129; 175; 228; 189; 147; 96]%N) 3 20 10)) (mkPtok 40 "," 3 32 11))))] (mkPtok 3 "}" 4 0 12)))])).
Eval vm_compute in ("<<<M317>>>" ++ check (runes_of_ascii "packet
false
{ Z9_ Header// " ++ [128512]%N ++ runes_of_ascii " emoji
,} packet pack
    { }
")).
Eval vm_compute in ("<<<M327>>>" ++ check (runes_of_ascii "packet
asx
{ as Header// " ++ [128512]%N ++ runes_of_ascii " emoji
,} packet pack
    { }
")).
Eval vm_compute in ("<<<M337>>>" ++ check (runes_of_ascii "packet
asx
{ Z9_ Header// " ++ [128512]%N ++ runes_of_ascii " emoji
i16} packet pack
    { }
")).
Eval vm_compute in ("<<<M347>>>" ++ check (runes_of_ascii "packet
asx
{ Z9_ Header// " ++ [128512]%N ++ runes_of_ascii " emoji
,} root pack
    { }
")).
Eval vm_compute in ("<<<M357>>>" ++ check (runes_of_ascii "packet
asx
{ Z9_ Header// " ++ [128512]%N ++ runes_of_ascii " emoji
,} packet pack
    i32 }
")).
Eval vm_compute in ("<<<M367>>>" ++ check (runes_of_ascii "packet
asx
{ Z9_ Header// " ++ [128512]%N ++ runes_of_ascii " emoji
,} packe")).
Eval vm_compute in ("<<<M377>>>" ++ check (runes_of_ascii "packet
asx
{ Z9_ Header/// " ++ [128512]%N ++ runes_of_ascii " emoji
,} packet pack
    { }
")).
Eval vm_compute in ("<<<M387>>>" ++ check (runes_of_ascii "o MetaData { char[ // `tick` ""quote"" 'q'
3] body, } packet o{
u8
charz ,
    }")).
Eval vm_compute in ("<<<M397>>>" ++ check (runes_of_ascii "MetaData o char[ { // `tick` ""quote"" 'q'
3] body, } packet o{
u8
charz ,
    }")).
Eval vm_compute in ("<<<M407>>>" ++ check (runes_of_ascii "MetaData o { char[ // `tick` ""quote"" 'q'
]3 body, } packet o{
u8
charz ,
    }")).
Eval vm_compute in ("<<<M417>>>" ++ check (runes_of_ascii "MetaData o { char[ // `tick` ""quote"" 'q'
3] ,body } packet o{
u8
charz ,
    }")).
Eval vm_compute in ("<<<M427>>>" ++ check (runes_of_ascii "MetaData o { char[ // `tick` ""quote"" 'q'
3] body, packet } o{
u8
charz ,
    }")).
Eval vm_compute in ("<<<M437>>>" ++ check (runes_of_ascii "MetaData o { char[ // `tick` ""quote"" 'q'
3] body, } packet {o
u8
charz ,
    }")).
Eval vm_compute in ("<<<M447>>>" ++ check (runes_of_ascii "MetaData o { char[ // `tick` ""quote"" 'q'
3] body, } packet o{
charz
u8 ,
    }")).
Eval vm_compute in ("<<<M457>>>" ++ check (runes_of_ascii "MetaData o { char[ // `tick` ""quote"" 'q'
3] body, } packet o{
u8
charz }
    ,")).
Eval vm_compute in ("<<<M467>>>" ++ check (runes_of_ascii "MetaData o { ch")).
Eval vm_compute in ("<<<M477>>>" ++ check (runes_of_ascii "MetaData o { char[ // `tick` ""quote"" 'q'
3] body, } packet o{
u8
charz '1',
    }")).
Eval vm_compute in ("<<<M487>>>" ++ check (runes_of_ascii "options options {calculatedFrom =	int8 ;}

")).
Eval vm_compute in ("<<<M497>>>" ++ check (runes_of_ascii "options {calculatedFrom calculatedFrom =	int8 ;}

")).
Eval vm_compute in ("<<<M507>>>" ++ check (runes_of_ascii "options {calculatedFrom =	int8 int8 ;}

")).
Eval vm_compute in ("<<<M517>>>" ++ check (runes_of_ascii "options {calculatedFrom =	int8 ;} }

")).
Eval vm_compute in ("<<<M527>>>" ++ check (runes_of_ascii "options {calculatedFrom =	int8 ;}

' ")).
Eval vm_compute in ("<<<M537>>>" ++ check (runes_of_ascii "options {calculatedFrom =	int8 " ++ [233]%N ++ runes_of_ascii " ;}

")).
Eval vm_compute in ("<<<M547>>>" ++ check (runes_of_ascii "
MetaData chars {Logon packetx,
    float ,
calculatedFrom  u32 i64_ ,	}")).
Eval vm_compute in ("<<<M557>>>" ++ check (runes_of_ascii "
MetaData chars {na" ++ [239]%N ++ runes_of_ascii "ve packetx,
    float calculatedFrom
,  u32 i64_ ,	}")).
Eval vm_compute in ("<<<M567>>>" ++ check (runes_of_ascii "")).
Eval vm_compute in ("<<<M577>>>" ++ check ([65533]%N ++ runes_of_ascii "+" ++ [15; 65533; 65533]%N ++ runes_of_ascii ";" ++ [65533]%N)).
Eval vm_compute in ("<<<M587>>>" ++ check (runes_of_ascii "} '\x00' @rightPad repeat float32 ; packet float32 options @tag( ] string u8")).
Eval vm_compute in ("<<<M597>>>" ++ check ([19; 65533; 65533]%N ++ runes_of_ascii "K" ++ [65533; 2; 5]%N ++ runes_of_ascii "k" ++ [65533; 350; 19]%N ++ runes_of_ascii "]{" ++ [65533]%N ++ runes_of_ascii "Y" ++ [65533; 65533]%N)).
