From FP Require Import Lexer Parser ShowPT Digest.
From Coq Require Import String List NArith.
Import ListNotations.
Open Scope string_scope.
Set Printing Width 100000000.
Set Printing Depth 100000000.
Definition nl : string := String (Ascii.ascii_of_nat 10) EmptyString.
Definition model_lex (rs : list rune) : string := show_toks (lex rs).
Definition model_parse (rs : list rune) : string :=
  show_pt (match lex rs with Some ts => parse ts | None => None end).
(* coqc is slow at printing long strings: digests first (Digest.v), full texts on demand *)
Definition check (rs : list rune) : string :=
  digest (model_lex rs) ++ " " ++ digest (model_parse rs).
Definition full (rs : list rune) : string := model_lex rs ++ nl ++ model_parse rs.
Definition terms (ts : list tok) (t : pt) : string :=
  digest (show_toks (Some ts)) ++ " " ++ digest (show_pt (Some t)) ++ " " ++ digest (show_pt (parse ts)).
Definition terms_full (ts : list tok) (t : pt) : string :=
  show_toks (Some ts) ++ nl ++ show_pt (Some t) ++ nl ++ show_pt (parse ts).
Eval vm_compute in ("<<<M4>>>" ++ check (runes_of_ascii "root
packet  msg_type { // `tick` ""quote"" 'q'
}	packet /// triple
x {char[] // " ++ [27880; 37322]%N ++ runes_of_ascii "
Foo @lengthOf( o)`" ++ [28040; 24687; 31867; 22411]%N ++ runes_of_ascii "`,
    @leftPad (	'0'
) @calculatedFrom(
// packet A { u8 x, }
// `tick` ""quote"" 'q'
""a\""b""	) char[] string_
@calculatedFrom( ""1""	),
    i32 // a // b
i8i8 , match
    pack	as rootA
{
""" ++ [28040; 24687]%N ++ runes_of_ascii """ :float	, [""it's"" , """ ++ [128512]%N ++ runes_of_ascii """
,
10 //
, 0123456789
    ]
// trailing space 
// " ++ [27880; 37322]%N ++ runes_of_ascii "
: string_ ,
""a\\"" : Z9_ ,
""x y"": msg_type }//x
,i16 Foo  `doc` ,  @lengthOf(
    MetaDataX )@calculatedFrom( ""x y""	)repeat
char[] pack
//
//
`a\` , @calculatedFrom(	""" ++ [128512]%N ++ runes_of_ascii """)
@calculatedFrom(
    """ ++ [233]%N ++ runes_of_ascii "t" ++ [233]%N ++ runes_of_ascii """
) @tag(00 ) repeat	u8 int	, }packet x
    { }
")).
Eval vm_compute in ("<<<M14>>>" ++ check (runes_of_ascii "MetaData u{ char[ 3 ]	crc,
    float32	body `
`, char[
42 ]
As , int64 calculatedFrom
    `it's`
    , Z9_ a1
//x
//x
, } packet
As // @lengthOf(
{
string Z9_ , i64 crc , a1
    @calculatedFrom( ""a\""b"" ) , string
i8i8
    `doc` //	t
,
@leftPad(
' ' // trailing space 
) char[ 42 ]
rootA // " ++ [27880; 37322]%N ++ runes_of_ascii "
@lengthOf( zchar ), repeat	char T	, falsey  @calculatedFrom( ""it's"") `it's`
,
    repeat char[] leftPad
,} root packet asx{Logon calculatedFrom `a\`, uint8x calculatedFrom,
repeat // packet A { u8 x, }
char[ 00] a1 `line1
line2` ,
    // packet A { u8 x, }
    match  pack as matchKey {	""abc"" : trueish ,
//x
// c
42: a1, [ 4294967296 , 42 ]
:
x ,
    255 :u128
    ,	""a	b"" :
    tag }
,	} packet stringy {repeat
    int `it's` , } packet body{
    @lengthOf( BodyLength )@calculatedFrom( ""`tick`"")	x@lengthOf( A ) `tab	here` , }
")).
Eval vm_compute in ("<<<M24>>>" ++ check (runes_of_ascii "options{	MetaDataX = 255}packet trueish {/// triple
@calculatedFrom(	""a\\"") @tag( 255 )
    i64_
    // `tick` ""quote"" 'q'
    `crlf
line` ,uint64 lengthOf , }
root packet msg_type{roots `" ++ [233]%N ++ runes_of_ascii "` , } 	 ")).
Eval vm_compute in ("<<<M34>>>" ++ check (runes_of_ascii "options { Pad = true;} 	 ")).
Eval vm_compute in ("<<<T34>>>" ++ terms [mkTok 1 "options" 1 0 false; mkTok 2 "{" 1 8 false; mkTok 42 "Pad" 1 10 false; mkTok 4 "=" 1 14 false; mkTok 10 "true" 1 16 false; mkTok 41 ";" 1 20 false; mkTok 3 "}" 1 21 false; mkTok 0 "<EOF>" 1 25 false] (mkPacket (mkPtok 1 "options" 1 0 0) (Some (mkPtok 3 "}" 1 21 6)) [(DOption (mkOptionDef (mkSpan (mkPtok 1 "options" 1 0 0) (mkPtok 3 "}" 1 21 6)) (mkPtok 1 "options" 1 0 0) (mkPtok 2 "{" 1 8 1) [(mkOptionDecl (mkSpan (mkPtok 42 "Pad" 1 10 2) (mkPtok 41 ";" 1 20 5)) (mkPtok 42 "Pad" 1 10 2) (mkPtok 4 "=" 1 14 3) (VTrue (mkSpan (mkPtok 10 "true" 1 16 4) (mkPtok 10 "true" 1 16 4)) (mkPtok 10 "true" 1 16 4)) (Some (mkPtok 41 ";" 1 20 5)))] (mkPtok 3 "}" 1 21 6)))])).
Eval vm_compute in ("<<<M44>>>" ++ check (runes_of_ascii "  packet i64_ {@tag( 1
    )
    //	t
    u128{ repeat
int8 float `crlf
line` // trailing space 
, char
a1  `tab	here` , // c
repeat int8
    _x , } ,int32 As @lengthOf( int )
`// not a comment` , }
    packet float
{
} packet a1
    /// triple
    { @tag(
    7 )
    //	t
    i8 T ,// packet A { u8 x, }
@lengthOf(
f32a )
    T  @lengthOf( calculatedFrom
)``
, @tag( 65535	)
@tag( 00
)@rightPad	( // c
' '	) repeat char[	0123456789 ]
leftPad
    , @leftPad(  ' ' ) match packetx // " ++ [128512]%N ++ runes_of_ascii " emoji
as
tag {
[ ""a	b"" , ""a	b"" ] :tag ,
    255 : matchKey , """ ++ [28040; 24687]%N ++ runes_of_ascii """ :msg_type, ""packet"" :  float ,
[ ""{,}"" ]
:// @lengthOf(
options1
},
}MetaData
int{}
")).
Eval vm_compute in ("<<<M54>>>" ++ check (runes_of_ascii "packet _x/// triple
{ rootA	,
}")).
Eval vm_compute in ("<<<M64>>>" ++ check (runes_of_ascii "packet BodyLength
{i64 i8i8 `
`
,
}

")).
Eval vm_compute in ("<<<M74>>>" ++ check (runes_of_ascii "MetaData lengthOf{falsey A
    `{ , }`
, // " ++ [128512]%N ++ runes_of_ascii " emoji
} packet tag {}
    //
    packet  u8x {
f32a @calculatedFrom( ""it's"" // c
)
    // trailing space 
    ,int8 crc @calculatedFrom( """ ++ [128512]%N ++ runes_of_ascii """ ),}
")).
Eval vm_compute in ("<<<M84>>>" ++ check (runes_of_ascii "
options { A = char[ 255 ]; } packet len { @tag( 255 ) int64 metadata ,char[  65535 ] Logon , Foo {repeat x_y_z { trueish
    ,	} , } ,} packet crc {@rightPad
( ) @lengthOf(
// " ++ [128512]%N ++ runes_of_ascii " emoji
// " ++ [128512]%N ++ runes_of_ascii " emoji
pack)char[ 255
] int @calculatedFrom(""a\\"" ), @rightPad  ( ) float64 len,repeat Logon {match Foo as
    i64_{ 1 : T , ""x y"": chars	} ,
} ,
    match o
    as	o
{0123456789 :
    charz}, } /// triple")).
Eval vm_compute in ("<<<M94>>>" ++ check (runes_of_ascii "packet roots {@rightPad
(
    ) _x  `say ""hi""`,@calculatedFrom( ""CRC32""
) @rightPad( '\x00' ) @rightPad (
'0') uint8 u `line1
line2`
,repeat
stringy {  float32 Packet
    //
    @calculatedFrom( ""\" ++ [233]%N ++ runes_of_ascii """ )	`a\` , } ,
match
    T as
    matchKey { [ 3 ,// `tick` ""quote"" 'q'
0123456789 ] : chars , [	""a\""b"",
    0
// c
//
]
    : T 65535
    :
o
    0123456789 :matchKey
//x
// a // b
,
[  ""1""
, //x
""packet"" ]
: crc
7
    :
    string_ , }
    ,@rightPad
( '0' )
    // c
    match
    MetaDataX
    as i64_
    { ""packet"" :	u8x
, 42
: Foo
7:	calculatedFrom
    ,0
    : leftPad ,
}
, repeat //
T  {
    // packet A { u8 x, }
    float
,string
// trailing space 
// packet A { u8 x, }
crc  , zchar @calculatedFrom( ""\" ++ [233]%N ++ runes_of_ascii """
) , roots @calculatedFrom( ""packet"" ), } ,zchar[ 42]matchKey// packet A { u8 x, }
`say ""hi""`, @rightPad// c
(
    '\x00' ) repeat
char[ 007
    ]	chars `" ++ [28040; 24687; 31867; 22411]%N ++ runes_of_ascii "` ,@tag(00 ) repeat string_
i8i8 ,	@tag(0123456789 ) options1 float , }
")).
Eval vm_compute in ("<<<M104>>>" ++ check (runes_of_ascii "// " ++ [128512]%N ++ runes_of_ascii " emoji
packet _x
{ }  options { o
= 255 chars =7	;body
= true MetaDataX = ""abc"" ; matchKey=	7 //	t
; // trailing space 
}
MetaData
    i64_  { u32 tag
// trailing space 
//	t
,
u
Foo
,float
x	, /// triple
leftPad f32a
,	x lengthOf`line1
line2` ,
//	t
// packet A { u8 x, }
} root // packet A { u8 x, }
packet roots {
    }packet uint8x{ asx
`{ , }`,@calculatedFrom( """"
)
As	`crlf
line`, @lengthOf( matchKey  )
BodyLength
    `" ++ [28040; 24687; 31867; 22411]%N ++ runes_of_ascii "`	,match	trueish
    as
// " ++ [128512]%N ++ runes_of_ascii " emoji
// packet A { u8 x, }
u128 {""a\""b"" :
pack,
    //
    ""1"" : options1 ""packet"": // trailing space 
u128 4294967296 : Z9_ ,""" ++ [233]%N ++ runes_of_ascii "t" ++ [233]%N ++ runes_of_ascii """	: T ,[ 7]
    // a // b
    : i64_ ,
// " ++ [128512]%N ++ runes_of_ascii " emoji
// packet A { u8 x, }
} ,match
    Logon as stringy { ""1"" : leftPad
    , 4294967296
: packetx
, ""it's"" : u8x ,// trailing space 
42 : A
, }
,
@leftPad ( ' ' )//x
char[
255 ]// trailing space 
len @lengthOf( zchar
    ) ,	zchar[4294967296  ]
    A `line1
line2` , i64
len
`" ++ [28040; 24687; 31867; 22411]%N ++ runes_of_ascii "`,
f32a
    // @lengthOf(
    {/// triple
char[] Logon	, //	t
u128 , repeatCount@lengthOf( x )
    , repeat zchar { int /// triple
@lengthOf( f32a )
`tab	here`
    ,	string string_@lengthOf(
    zchar
    ) , }	, }
, }")).
Eval vm_compute in ("<<<T104>>>" ++ terms [mkTok 44 (string_of_bytes [47; 47; 32; 240; 159; 152; 128; 32; 101; 109; 111; 106; 105]%N) 1 0 true; mkTok 35 "packet" 2 0 false; mkTok 42 "_x" 2 7 false; mkTok 2 "{" 3 0 false; mkTok 3 "}" 3 2 false; mkTok 1 "options" 3 5 false; mkTok 2 "{" 3 13 false; mkTok 42 "o" 3 15 false; mkTok 4 "=" 4 0 false; mkTok 30 "255" 4 2 false; mkTok 42 "chars" 4 6 false; mkTok 4 "=" 4 12 false; mkTok 30 "7" 4 13 false; mkTok 41 ";" 4 15 false; mkTok 42 "body" 4 16 false; mkTok 4 "=" 5 0 false; mkTok 10 "true" 5 2 false; mkTok 42 "MetaDataX" 5 7 false; mkTok 4 "=" 5 17 false; mkTok 31 """abc""" 5 19 false; mkTok 41 ";" 5 25 false; mkTok 42 "matchKey" 5 27 false; mkTok 4 "=" 5 35 false; mkTok 30 "7" 5 37 false; mkTok 44 (string_of_bytes [47; 47; 9; 116]%N) 5 39 true; mkTok 41 ";" 6 0 false; mkTok 44 "// trailing space " 6 2 true; mkTok 3 "}" 7 0 false; mkTok 37 "MetaData" 8 0 false; mkTok 42 "i64_" 9 4 false; mkTok 2 "{" 9 10 false; mkTok 22 "u32" 9 12 false; mkTok 42 "tag" 9 16 false; mkTok 44 "// trailing space " 10 0 true; mkTok 44 (string_of_bytes [47; 47; 9; 116]%N) 11 0 true; mkTok 40 "," 12 0 false; mkTok 42 "u" 13 0 false; mkTok 42 "Foo" 14 0 false; mkTok 40 "," 15 0 false; mkTok 42 "float" 15 1 false; mkTok 42 "x" 16 0 false; mkTok 40 "," 16 2 false; mkTok 44 "/// triple" 16 4 true; mkTok 42 "leftPad" 17 0 false; mkTok 42 "f32a" 17 8 false; mkTok 40 "," 18 0 false; mkTok 42 "x" 18 2 false; mkTok 42 "lengthOf" 18 4 false; mkTok 43 (string_of_bytes [96; 108; 105; 110; 101; 49; 10; 108; 105; 110; 101; 50; 96]%N) 18 12 false; mkTok 40 "," 19 7 false; mkTok 44 (string_of_bytes [47; 47; 9; 116]%N) 20 0 true; mkTok 44 "// packet A { u8 x, }" 21 0 true; mkTok 3 "}" 22 0 false; mkTok 34 "root" 22 2 false; mkTok 44 "// packet A { u8 x, }" 22 7 true; mkTok 35 "packet" 23 0 false; mkTok 42 "roots" 23 7 false; mkTok 2 "{" 23 13 false; mkTok 3 "}" 24 4 false; mkTok 35 "packet" 24 5 false; mkTok 42 "uint8x" 24 12 false; mkTok 2 "{" 24 18 false; mkTok 42 "asx" 24 20 false; mkTok 43 "`{ , }`" 25 0 false; mkTok 40 "," 25 7 false; mkTok 5 "@calculatedFrom(" 25 8 false; mkTok 31 """""" 25 25 false; mkTok 6 ")" 26 0 false; mkTok 42 "As" 27 0 false; mkTok 43 (string_of_bytes [96; 99; 114; 108; 102; 13; 10; 108; 105; 110; 101; 96]%N) 27 3 false; mkTok 40 "," 28 5 false; mkTok 7 "@lengthOf(" 28 7 false; mkTok 42 "matchKey" 28 18 false; mkTok 6 ")" 28 28 false; mkTok 42 "BodyLength" 29 0 false; mkTok 43 (string_of_bytes [96; 230; 182; 136; 230; 129; 175; 231; 177; 187; 229; 158; 139; 96]%N) 30 4 false; mkTok 40 "," 30 11 false; mkTok 38 "match" 30 12 false; mkTok 42 "trueish" 30 18 false; mkTok 17 "as" 31 4 false; mkTok 44 (string_of_bytes [47; 47; 32; 240; 159; 152; 128; 32; 101; 109; 111; 106; 105]%N) 32 0 true; mkTok 44 "// packet A { u8 x, }" 33 0 true; mkTok 42 "u128" 34 0 false; mkTok 2 "{" 34 5 false; mkTok 31 """a\""b""" 34 6 false; mkTok 39 ":" 34 13 false; mkTok 42 "pack" 35 0 false; mkTok 40 "," 35 4 false; mkTok 44 "//" 36 4 true; mkTok 31 """1""" 37 4 false; mkTok 39 ":" 37 8 false; mkTok 42 "options1" 37 10 false; mkTok 31 """packet""" 37 19 false; mkTok 39 ":" 37 27 false; mkTok 44 "// trailing space " 37 29 true; mkTok 42 "u128" 38 0 false; mkTok 30 "4294967296" 38 5 false; mkTok 39 ":" 38 16 false; mkTok 42 "Z9_" 38 18 false; mkTok 40 "," 38 22 false; mkTok 31 (string_of_bytes [34; 195; 169; 116; 195; 169; 34]%N) 38 23 false; mkTok 39 ":" 38 29 false; mkTok 42 "T" 38 31 false; mkTok 40 "," 38 33 false; mkTok 18 "[" 38 34 false; mkTok 30 "7" 38 36 false; mkTok 13 "]" 38 37 false; mkTok 44 "// a // b" 39 4 true; mkTok 39 ":" 40 4 false; mkTok 42 "i64_" 40 6 false; mkTok 40 "," 40 11 false; mkTok 44 (string_of_bytes [47; 47; 32; 240; 159; 152; 128; 32; 101; 109; 111; 106; 105]%N) 41 0 true; mkTok 44 "// packet A { u8 x, }" 42 0 true; mkTok 3 "}" 43 0 false; mkTok 40 "," 43 2 false; mkTok 38 "match" 43 3 false; mkTok 42 "Logon" 44 4 false; mkTok 17 "as" 44 10 false; mkTok 42 "stringy" 44 13 false; mkTok 2 "{" 44 21 false; mkTok 31 """1""" 44 23 false; mkTok 39 ":" 44 27 false; mkTok 42 "leftPad" 44 29 false; mkTok 40 "," 45 4 false; mkTok 30 "4294967296" 45 6 false; mkTok 39 ":" 46 0 false; mkTok 42 "packetx" 46 2 false; mkTok 40 "," 47 0 false; mkTok 31 """it's""" 47 2 false; mkTok 39 ":" 47 9 false; mkTok 42 "u8x" 47 11 false; mkTok 40 "," 47 15 false; mkTok 44 "// trailing space " 47 16 true; mkTok 30 "42" 48 0 false; mkTok 39 ":" 48 3 false; mkTok 42 "A" 48 5 false; mkTok 40 "," 49 0 false; mkTok 3 "}" 49 2 false; mkTok 40 "," 50 0 false; mkTok 32 "@leftPad" 51 0 false; mkTok 8 "(" 51 9 false; mkTok 33 "' '" 51 11 false; mkTok 6 ")" 51 15 false; mkTok 44 "//x" 51 16 true; mkTok 12 "char[" 52 0 false; mkTok 30 "255" 53 0 false; mkTok 13 "]" 53 4 false; mkTok 44 "// trailing space " 53 5 true; mkTok 42 "len" 54 0 false; mkTok 7 "@lengthOf(" 54 4 false; mkTok 42 "zchar" 54 15 false; mkTok 6 ")" 55 4 false; mkTok 40 "," 55 6 false; mkTok 14 "zchar[" 55 8 false; mkTok 30 "4294967296" 55 14 false; mkTok 13 "]" 55 26 false; mkTok 42 "A" 56 4 false; mkTok 43 (string_of_bytes [96; 108; 105; 110; 101; 49; 10; 108; 105; 110; 101; 50; 96]%N) 56 6 false; mkTok 40 "," 57 7 false; mkTok 27 "i64" 57 9 false; mkTok 42 "len" 58 0 false; mkTok 43 (string_of_bytes [96; 230; 182; 136; 230; 129; 175; 231; 177; 187; 229; 158; 139; 96]%N) 59 0 false; mkTok 40 "," 59 6 false; mkTok 42 "f32a" 60 0 false; mkTok 44 "// @lengthOf(" 61 4 true; mkTok 2 "{" 62 4 false; mkTok 44 "/// triple" 62 5 true; mkTok 16 "char[]" 63 0 false; mkTok 42 "Logon" 63 7 false; mkTok 40 "," 63 13 false; mkTok 44 (string_of_bytes [47; 47; 9; 116]%N) 63 15 true; mkTok 42 "u128" 64 0 false; mkTok 40 "," 64 5 false; mkTok 42 "repeatCount" 64 7 false; mkTok 7 "@lengthOf(" 64 18 false; mkTok 42 "x" 64 29 false; mkTok 6 ")" 64 31 false; mkTok 40 "," 65 4 false; mkTok 36 "repeat" 65 6 false; mkTok 42 "zchar" 65 13 false; mkTok 2 "{" 65 19 false; mkTok 42 "int" 65 21 false; mkTok 44 "/// triple" 65 25 true; mkTok 7 "@lengthOf(" 66 0 false; mkTok 42 "f32a" 66 11 false; mkTok 6 ")" 66 16 false; mkTok 43 (string_of_bytes [96; 116; 97; 98; 9; 104; 101; 114; 101; 96]%N) 67 0 false; mkTok 40 "," 68 4 false; mkTok 15 "string" 68 6 false; mkTok 42 "string_" 68 13 false; mkTok 7 "@lengthOf(" 68 20 false; mkTok 42 "zchar" 69 4 false; mkTok 6 ")" 70 4 false; mkTok 40 "," 70 6 false; mkTok 3 "}" 70 8 false; mkTok 40 "," 70 10 false; mkTok 3 "}" 70 12 false; mkTok 40 "," 71 0 false; mkTok 3 "}" 71 2 false; mkTok 0 "<EOF>" 71 3 false] (mkPacket (mkPtok 35 "packet" 2 0 1) (Some (mkPtok 3 "}" 71 2 198)) [(DPacket (mkPacketDef (mkSpan (mkPtok 35 "packet" 2 0 1) (mkPtok 3 "}" 3 2 4)) None (mkPtok 35 "packet" 2 0 1) (mkPtok 42 "_x" 2 7 2) (mkPtok 2 "{" 3 0 3) [] (mkPtok 3 "}" 3 2 4))); (DOption (mkOptionDef (mkSpan (mkPtok 1 "options" 3 5 5) (mkPtok 3 "}" 7 0 27)) (mkPtok 1 "options" 3 5 5) (mkPtok 2 "{" 3 13 6) [(mkOptionDecl (mkSpan (mkPtok 42 "o" 3 15 7) (mkPtok 30 "255" 4 2 9)) (mkPtok 42 "o" 3 15 7) (mkPtok 4 "=" 4 0 8) (VDigits (mkSpan (mkPtok 30 "255" 4 2 9) (mkPtok 30 "255" 4 2 9)) (mkPtok 30 "255" 4 2 9)) None); (mkOptionDecl (mkSpan (mkPtok 42 "chars" 4 6 10) (mkPtok 41 ";" 4 15 13)) (mkPtok 42 "chars" 4 6 10) (mkPtok 4 "=" 4 12 11) (VDigits (mkSpan (mkPtok 30 "7" 4 13 12) (mkPtok 30 "7" 4 13 12)) (mkPtok 30 "7" 4 13 12)) (Some (mkPtok 41 ";" 4 15 13))); (mkOptionDecl (mkSpan (mkPtok 42 "body" 4 16 14) (mkPtok 10 "true" 5 2 16)) (mkPtok 42 "body" 4 16 14) (mkPtok 4 "=" 5 0 15) (VTrue (mkSpan (mkPtok 10 "true" 5 2 16) (mkPtok 10 "true" 5 2 16)) (mkPtok 10 "true" 5 2 16)) None); (mkOptionDecl (mkSpan (mkPtok 42 "MetaDataX" 5 7 17) (mkPtok 41 ";" 5 25 20)) (mkPtok 42 "MetaDataX" 5 7 17) (mkPtok 4 "=" 5 17 18) (VString (mkSpan (mkPtok 31 """abc""" 5 19 19) (mkPtok 31 """abc""" 5 19 19)) (mkPtok 31 """abc""" 5 19 19)) (Some (mkPtok 41 ";" 5 25 20))); (mkOptionDecl (mkSpan (mkPtok 42 "matchKey" 5 27 21) (mkPtok 41 ";" 6 0 25)) (mkPtok 42 "matchKey" 5 27 21) (mkPtok 4 "=" 5 35 22) (VDigits (mkSpan (mkPtok 30 "7" 5 37 23) (mkPtok 30 "7" 5 37 23)) (mkPtok 30 "7" 5 37 23)) (Some (mkPtok 41 ";" 6 0 25)))] (mkPtok 3 "}" 7 0 27))); (DMeta (mkMetaDef (mkSpan (mkPtok 37 "MetaData" 8 0 28) (mkPtok 3 "}" 22 0 52)) (mkPtok 37 "MetaData" 8 0 28) (mkPtok 42 "i64_" 9 4 29) (mkPtok 2 "{" 9 10 30) [(MIDecl (mkMetaDecl (mkSpan (mkPtok 22 "u32" 9 12 31) (mkPtok 40 "," 12 0 35)) (TyBasic (mkSpan (mkPtok 22 "u32" 9 12 31) (mkPtok 22 "u32" 9 12 31)) (mkBasicType (mkSpan (mkPtok 22 "u32" 9 12 31) (mkPtok 22 "u32" 9 12 31)) (mkPtok 22 "u32" 9 12 31))) (mkPtok 42 "tag" 9 16 32) None (mkPtok 40 "," 12 0 35))); (MIRef (mkRefMetaDecl (mkSpan (mkPtok 42 "u" 13 0 36) (mkPtok 40 "," 15 0 38)) (mkPtok 42 "u" 13 0 36) (mkPtok 42 "Foo" 14 0 37) None (mkPtok 40 "," 15 0 38))); (MIRef (mkRefMetaDecl (mkSpan (mkPtok 42 "float" 15 1 39) (mkPtok 40 "," 16 2 41)) (mkPtok 42 "float" 15 1 39) (mkPtok 42 "x" 16 0 40) None (mkPtok 40 "," 16 2 41))); (MIRef (mkRefMetaDecl (mkSpan (mkPtok 42 "leftPad" 17 0 43) (mkPtok 40 "," 18 0 45)) (mkPtok 42 "leftPad" 17 0 43) (mkPtok 42 "f32a" 17 8 44) None (mkPtok 40 "," 18 0 45))); (MIRef (mkRefMetaDecl (mkSpan (mkPtok 42 "x" 18 2 46) (mkPtok 40 "," 19 7 49)) (mkPtok 42 "x" 18 2 46) (mkPtok 42 "lengthOf" 18 4 47) (Some (mkPtok 43 (string_of_bytes [96; 108; 105; 110; 101; 49; 10; 108; 105; 110; 101; 50; 96]%N) 18 12 48)) (mkPtok 40 "," 19 7 49)))] (mkPtok 3 "}" 22 0 52))); (DPacket (mkPacketDef (mkSpan (mkPtok 34 "root" 22 2 53) (mkPtok 3 "}" 24 4 58)) (Some (mkPtok 34 "root" 22 2 53)) (mkPtok 35 "packet" 23 0 55) (mkPtok 42 "roots" 23 7 56) (mkPtok 2 "{" 23 13 57) [] (mkPtok 3 "}" 24 4 58))); (DPacket (mkPacketDef (mkSpan (mkPtok 35 "packet" 24 5 59) (mkPtok 3 "}" 71 2 198)) None (mkPtok 35 "packet" 24 5 59) (mkPtok 42 "uint8x" 24 12 60) (mkPtok 2 "{" 24 18 61) [(mkFieldWithAttr (mkSpan (mkPtok 42 "asx" 24 20 62) (mkPtok 40 "," 25 7 64)) [] (ObjectField (mkSpan (mkPtok 42 "asx" 24 20 62) (mkPtok 40 "," 25 7 64)) None (mkPtok 42 "asx" 24 20 62) None (Some (mkPtok 43 "`{ , }`" 25 0 63)) (mkPtok 40 "," 25 7 64))); (mkFieldWithAttr (mkSpan (mkPtok 5 "@calculatedFrom(" 25 8 65) (mkPtok 40 "," 28 5 70)) [(FACalculatedFrom (mkSpan (mkPtok 5 "@calculatedFrom(" 25 8 65) (mkPtok 6 ")" 26 0 67)) (mkCalculatedFrom (mkSpan (mkPtok 5 "@calculatedFrom(" 25 8 65) (mkPtok 6 ")" 26 0 67)) (mkPtok 5 "@calculatedFrom(" 25 8 65) (mkPtok 31 """""" 25 25 66) (mkPtok 6 ")" 26 0 67)))] (ObjectField (mkSpan (mkPtok 42 "As" 27 0 68) (mkPtok 40 "," 28 5 70)) None (mkPtok 42 "As" 27 0 68) None (Some (mkPtok 43 (string_of_bytes [96; 99; 114; 108; 102; 13; 10; 108; 105; 110; 101; 96]%N) 27 3 69)) (mkPtok 40 "," 28 5 70))); (mkFieldWithAttr (mkSpan (mkPtok 7 "@lengthOf(" 28 7 71) (mkPtok 40 "," 30 11 76)) [(FALengthOf (mkSpan (mkPtok 7 "@lengthOf(" 28 7 71) (mkPtok 6 ")" 28 28 73)) (mkLengthOf (mkSpan (mkPtok 7 "@lengthOf(" 28 7 71) (mkPtok 6 ")" 28 28 73)) (mkPtok 7 "@lengthOf(" 28 7 71) (mkPtok 42 "matchKey" 28 18 72) (mkPtok 6 ")" 28 28 73)))] (ObjectField (mkSpan (mkPtok 42 "BodyLength" 29 0 74) (mkPtok 40 "," 30 11 76)) None (mkPtok 42 "BodyLength" 29 0 74) None (Some (mkPtok 43 (string_of_bytes [96; 230; 182; 136; 230; 129; 175; 231; 177; 187; 229; 158; 139; 96]%N) 30 4 75)) (mkPtok 40 "," 30 11 76))); (mkFieldWithAttr (mkSpan (mkPtok 38 "match" 30 12 77) (mkPtok 40 "," 43 2 114)) [] (MatchField (mkSpan (mkPtok 38 "match" 30 12 77) (mkPtok 40 "," 43 2 114)) (mkMatchFieldDecl (mkSpan (mkPtok 38 "match" 30 12 77) (mkPtok 3 "}" 43 0 113)) (mkPtok 38 "match" 30 12 77) (mkPtok 42 "trueish" 30 18 78) (mkPtok 17 "as" 31 4 79) (mkPtok 42 "u128" 34 0 82) (mkPtok 2 "{" 34 5 83) [(mkMatchPair (mkSpan (mkPtok 31 """a\""b""" 34 6 84) (mkPtok 40 "," 35 4 87)) (MKString (mkPtok 31 """a\""b""" 34 6 84)) (mkPtok 39 ":" 34 13 85) (mkPtok 42 "pack" 35 0 86) (Some (mkPtok 40 "," 35 4 87))); (mkMatchPair (mkSpan (mkPtok 31 """1""" 37 4 89) (mkPtok 42 "options1" 37 10 91)) (MKString (mkPtok 31 """1""" 37 4 89)) (mkPtok 39 ":" 37 8 90) (mkPtok 42 "options1" 37 10 91) None); (mkMatchPair (mkSpan (mkPtok 31 """packet""" 37 19 92) (mkPtok 42 "u128" 38 0 95)) (MKString (mkPtok 31 """packet""" 37 19 92)) (mkPtok 39 ":" 37 27 93) (mkPtok 42 "u128" 38 0 95) None); (mkMatchPair (mkSpan (mkPtok 30 "4294967296" 38 5 96) (mkPtok 40 "," 38 22 99)) (MKDigits (mkPtok 30 "4294967296" 38 5 96)) (mkPtok 39 ":" 38 16 97) (mkPtok 42 "Z9_" 38 18 98) (Some (mkPtok 40 "," 38 22 99))); (mkMatchPair (mkSpan (mkPtok 31 (string_of_bytes [34; 195; 169; 116; 195; 169; 34]%N) 38 23 100) (mkPtok 40 "," 38 33 103)) (MKString (mkPtok 31 (string_of_bytes [34; 195; 169; 116; 195; 169; 34]%N) 38 23 100)) (mkPtok 39 ":" 38 29 101) (mkPtok 42 "T" 38 31 102) (Some (mkPtok 40 "," 38 33 103))); (mkMatchPair (mkSpan (mkPtok 18 "[" 38 34 104) (mkPtok 40 "," 40 11 110)) (MKList (mkKeyList (mkSpan (mkPtok 18 "[" 38 34 104) (mkPtok 13 "]" 38 37 106)) (mkPtok 18 "[" 38 34 104) (mkPtok 30 "7" 38 36 105) [] (mkPtok 13 "]" 38 37 106))) (mkPtok 39 ":" 40 4 108) (mkPtok 42 "i64_" 40 6 109) (Some (mkPtok 40 "," 40 11 110)))] (mkPtok 3 "}" 43 0 113)) (mkPtok 40 "," 43 2 114))); (mkFieldWithAttr (mkSpan (mkPtok 38 "match" 43 3 115) (mkPtok 40 "," 50 0 138)) [] (MatchField (mkSpan (mkPtok 38 "match" 43 3 115) (mkPtok 40 "," 50 0 138)) (mkMatchFieldDecl (mkSpan (mkPtok 38 "match" 43 3 115) (mkPtok 3 "}" 49 2 137)) (mkPtok 38 "match" 43 3 115) (mkPtok 42 "Logon" 44 4 116) (mkPtok 17 "as" 44 10 117) (mkPtok 42 "stringy" 44 13 118) (mkPtok 2 "{" 44 21 119) [(mkMatchPair (mkSpan (mkPtok 31 """1""" 44 23 120) (mkPtok 40 "," 45 4 123)) (MKString (mkPtok 31 """1""" 44 23 120)) (mkPtok 39 ":" 44 27 121) (mkPtok 42 "leftPad" 44 29 122) (Some (mkPtok 40 "," 45 4 123))); (mkMatchPair (mkSpan (mkPtok 30 "4294967296" 45 6 124) (mkPtok 40 "," 47 0 127)) (MKDigits (mkPtok 30 "4294967296" 45 6 124)) (mkPtok 39 ":" 46 0 125) (mkPtok 42 "packetx" 46 2 126) (Some (mkPtok 40 "," 47 0 127))); (mkMatchPair (mkSpan (mkPtok 31 """it's""" 47 2 128) (mkPtok 40 "," 47 15 131)) (MKString (mkPtok 31 """it's""" 47 2 128)) (mkPtok 39 ":" 47 9 129) (mkPtok 42 "u8x" 47 11 130) (Some (mkPtok 40 "," 47 15 131))); (mkMatchPair (mkSpan (mkPtok 30 "42" 48 0 133) (mkPtok 40 "," 49 0 136)) (MKDigits (mkPtok 30 "42" 48 0 133)) (mkPtok 39 ":" 48 3 134) (mkPtok 42 "A" 48 5 135) (Some (mkPtok 40 "," 49 0 136)))] (mkPtok 3 "}" 49 2 137)) (mkPtok 40 "," 50 0 138))); (mkFieldWithAttr (mkSpan (mkPtok 32 "@leftPad" 51 0 139) (mkPtok 40 "," 55 6 152)) [(FAPadding (mkSpan (mkPtok 32 "@leftPad" 51 0 139) (mkPtok 6 ")" 51 15 142)) (mkPaddingAttr (mkSpan (mkPtok 32 "@leftPad" 51 0 139) (mkPtok 6 ")" 51 15 142)) (mkPtok 32 "@leftPad" 51 0 139) (mkPtok 8 "(" 51 9 140) (Some (mkPtok 33 "' '" 51 11 141)) (mkPtok 6 ")" 51 15 142)))] (LengthField (mkSpan (mkPtok 12 "char[" 52 0 144) (mkPtok 40 "," 55 6 152)) (mkLengthFieldDecl (mkSpan (mkPtok 12 "char[" 52 0 144) (mkPtok 40 "," 55 6 152)) (Some (TyFixed (mkSpan (mkPtok 12 "char[" 52 0 144) (mkPtok 13 "]" 53 4 146)) (mkFixedString (mkSpan (mkPtok 12 "char[" 52 0 144) (mkPtok 13 "]" 53 4 146)) (mkPtok 12 "char[" 52 0 144) (mkPtok 30 "255" 53 0 145) (mkPtok 13 "]" 53 4 146)))) (mkPtok 42 "len" 54 0 148) (mkLengthOf (mkSpan (mkPtok 7 "@lengthOf(" 54 4 149) (mkPtok 6 ")" 55 4 151)) (mkPtok 7 "@lengthOf(" 54 4 149) (mkPtok 42 "zchar" 54 15 150) (mkPtok 6 ")" 55 4 151)) None (mkPtok 40 "," 55 6 152)))); (mkFieldWithAttr (mkSpan (mkPtok 14 "zchar[" 55 8 153) (mkPtok 40 "," 57 7 158)) [] (MetaField (mkSpan (mkPtok 14 "zchar[" 55 8 153) (mkPtok 40 "," 57 7 158)) None (mkMetaDecl (mkSpan (mkPtok 14 "zchar[" 55 8 153) (mkPtok 40 "," 57 7 158)) (TyFixed (mkSpan (mkPtok 14 "zchar[" 55 8 153) (mkPtok 13 "]" 55 26 155)) (mkFixedString (mkSpan (mkPtok 14 "zchar[" 55 8 153) (mkPtok 13 "]" 55 26 155)) (mkPtok 14 "zchar[" 55 8 153) (mkPtok 30 "4294967296" 55 14 154) (mkPtok 13 "]" 55 26 155))) (mkPtok 42 "A" 56 4 156) (Some (mkPtok 43 (string_of_bytes [96; 108; 105; 110; 101; 49; 10; 108; 105; 110; 101; 50; 96]%N) 56 6 157)) (mkPtok 40 "," 57 7 158)))); (mkFieldWithAttr (mkSpan (mkPtok 27 "i64" 57 9 159) (mkPtok 40 "," 59 6 162)) [] (MetaField (mkSpan (mkPtok 27 "i64" 57 9 159) (mkPtok 40 "," 59 6 162)) None (mkMetaDecl (mkSpan (mkPtok 27 "i64" 57 9 159) (mkPtok 40 "," 59 6 162)) (TyBasic (mkSpan (mkPtok 27 "i64" 57 9 159) (mkPtok 27 "i64" 57 9 159)) (mkBasicType (mkSpan (mkPtok 27 "i64" 57 9 159) (mkPtok 27 "i64" 57 9 159)) (mkPtok 27 "i64" 57 9 159))) (mkPtok 42 "len" 58 0 160) (Some (mkPtok 43 (string_of_bytes [96; 230; 182; 136; 230; 129; 175; 231; 177; 187; 229; 158; 139; 96]%N) 59 0 161)) (mkPtok 40 "," 59 6 162)))); (mkFieldWithAttr (mkSpan (mkPtok 42 "f32a" 60 0 163) (mkPtok 40 "," 71 0 197)) [] (InerObjectField (mkSpan (mkPtok 42 "f32a" 60 0 163) (mkPtok 40 "," 71 0 197)) None (InerObjectDecl (mkSpan (mkPtok 42 "f32a" 60 0 163) (mkPtok 3 "}" 70 12 196)) (mkPtok 42 "f32a" 60 0 163) (mkPtok 2 "{" 62 4 165) [(MetaField (mkSpan (mkPtok 16 "char[]" 63 0 167) (mkPtok 40 "," 63 13 169)) None (mkMetaDecl (mkSpan (mkPtok 16 "char[]" 63 0 167) (mkPtok 40 "," 63 13 169)) (TyDynamic (mkSpan (mkPtok 16 "char[]" 63 0 167) (mkPtok 16 "char[]" 63 0 167)) (mkDynamicString (mkSpan (mkPtok 16 "char[]" 63 0 167) (mkPtok 16 "char[]" 63 0 167)) (mkPtok 16 "char[]" 63 0 167))) (mkPtok 42 "Logon" 63 7 168) None (mkPtok 40 "," 63 13 169))); (ObjectField (mkSpan (mkPtok 42 "u128" 64 0 171) (mkPtok 40 "," 64 5 172)) None (mkPtok 42 "u128" 64 0 171) None None (mkPtok 40 "," 64 5 172)); (LengthField (mkSpan (mkPtok 42 "repeatCount" 64 7 173) (mkPtok 40 "," 65 4 177)) (mkLengthFieldDecl (mkSpan (mkPtok 42 "repeatCount" 64 7 173) (mkPtok 40 "," 65 4 177)) None (mkPtok 42 "repeatCount" 64 7 173) (mkLengthOf (mkSpan (mkPtok 7 "@lengthOf(" 64 18 174) (mkPtok 6 ")" 64 31 176)) (mkPtok 7 "@lengthOf(" 64 18 174) (mkPtok 42 "x" 64 29 175) (mkPtok 6 ")" 64 31 176)) None (mkPtok 40 "," 65 4 177))); (InerObjectField (mkSpan (mkPtok 36 "repeat" 65 6 178) (mkPtok 40 "," 70 10 195)) (Some (mkPtok 36 "repeat" 65 6 178)) (InerObjectDecl (mkSpan (mkPtok 42 "zchar" 65 13 179) (mkPtok 3 "}" 70 8 194)) (mkPtok 42 "zchar" 65 13 179) (mkPtok 2 "{" 65 19 180) [(LengthField (mkSpan (mkPtok 42 "int" 65 21 181) (mkPtok 40 "," 68 4 187)) (mkLengthFieldDecl (mkSpan (mkPtok 42 "int" 65 21 181) (mkPtok 40 "," 68 4 187)) None (mkPtok 42 "int" 65 21 181) (mkLengthOf (mkSpan (mkPtok 7 "@lengthOf(" 66 0 183) (mkPtok 6 ")" 66 16 185)) (mkPtok 7 "@lengthOf(" 66 0 183) (mkPtok 42 "f32a" 66 11 184) (mkPtok 6 ")" 66 16 185)) (Some (mkPtok 43 (string_of_bytes [96; 116; 97; 98; 9; 104; 101; 114; 101; 96]%N) 67 0 186)) (mkPtok 40 "," 68 4 187))); (LengthField (mkSpan (mkPtok 15 "string" 68 6 188) (mkPtok 40 "," 70 6 193)) (mkLengthFieldDecl (mkSpan (mkPtok 15 "string" 68 6 188) (mkPtok 40 "," 70 6 193)) (Some (TyDynamic (mkSpan (mkPtok 15 "string" 68 6 188) (mkPtok 15 "string" 68 6 188)) (mkDynamicString (mkSpan (mkPtok 15 "string" 68 6 188) (mkPtok 15 "string" 68 6 188)) (mkPtok 15 "string" 68 6 188)))) (mkPtok 42 "string_" 68 13 189) (mkLengthOf (mkSpan (mkPtok 7 "@lengthOf(" 68 20 190) (mkPtok 6 ")" 70 4 192)) (mkPtok 7 "@lengthOf(" 68 20 190) (mkPtok 42 "zchar" 69 4 191) (mkPtok 6 ")" 70 4 192)) None (mkPtok 40 "," 70 6 193)))] (mkPtok 3 "}" 70 8 194)) (mkPtok 40 "," 70 10 195))] (mkPtok 3 "}" 70 12 196)) (mkPtok 40 "," 71 0 197)))] (mkPtok 3 "}" 71 2 198)))])).
Eval vm_compute in ("<<<M114>>>" ++ check (runes_of_ascii "packet Logon{ matchKey
@calculatedFrom( ""abc"" )  `tab	here`
    ,
@calculatedFrom( ""1"" )
    //x
    metadata
@calculatedFrom( ""a	b"" ) `{ , }` ,@rightPad
/// triple
// packet A { u8 x, }
( )
    repeat char[]float
`" ++ [28040; 24687; 31867; 22411]%N ++ runes_of_ascii "`,
// trailing space 
//
} MetaData uint8x { i8
As , }")).
Eval vm_compute in ("<<<M124>>>" ++ check (runes_of_ascii "
MetaData calculatedFrom//	t
{
    zchar string_ ,
}")).
Eval vm_compute in ("<<<M134>>>" ++ check (runes_of_ascii "packet falsey // " ++ [128512]%N ++ runes_of_ascii " emoji
{ // trailing space 
float64 u128
@lengthOf( As
    ), char[
7
] /// triple
calculatedFrom ,} 	 ")).
Eval vm_compute in ("<<<M144>>>" ++ check (runes_of_ascii "MetaData u  {}
root packet Logon {
    /// triple
    @calculatedFrom( """ ++ [128512]%N ++ runes_of_ascii """  ) repeat
uint32 MetaDataX ,
match	A as Z9_ {
0 :i64_
""a\""b""
    :x, ""// no comment"":
    repeatCount""abc""
: x_y_z
""\" ++ [233]%N ++ runes_of_ascii """ // @lengthOf(
: stringy , } , zchar[
10
    //
    ]
x @lengthOf( o) , } options { }
")).
Eval vm_compute in ("<<<M154>>>" ++ check (runes_of_ascii "//
packet packetx  { repeat
    T { x_y_z @calculatedFrom( """ ++ [128512]%N ++ runes_of_ascii """	)	, }, }
    MetaData u { charz roots ,
    }
")).
Eval vm_compute in ("<<<M164>>>" ++ check (runes_of_ascii "
packet
i8i8 { @tag(
10  )  repeat charz Z9_
    // " ++ [128512]%N ++ runes_of_ascii " emoji
    , @lengthOf(
string_	) body//x
`two words` , int16 calculatedFrom , } root packet chars {	@leftPad ( '0' ) @lengthOf( uint8x
)
@leftPad ( ' ' )match x_y_z as tag { ""// no comment"": float, }
,
repeat roots A
`// not a comment` , Foo@lengthOf(
    crc
)`// not a comment`
,
    /// triple
    string x_y_z@calculatedFrom(
""1"" )  ,
    //
    MetaDataX`it's` ,
    MetaDataX { uint8 string_ ,  falsey
    // a // b
    rootA `{ , }`	, } ,
    asx
{repeat Packet { string
asx	, // `tick` ""quote"" 'q'
repeat string zchar ,
    repeat
    //
    len
    {
uint8 x, } , repeat uint8  u
,
} , packetx  , }  ,  }root packet x {
As
, }")).
Eval vm_compute in ("<<<M174>>>" ++ check (runes_of_ascii "
")).
Eval vm_compute in ("<<<T174>>>" ++ terms [mkTok 0 "<EOF>" 2 0 false] (mkPacket (mkPtok 0 "<EOF>" 2 0 0) None [])).
Eval vm_compute in ("<<<M184>>>" ++ check (runes_of_ascii "packet falsey{ repeat
f32 leftPad , @tag(
0123456789// trailing space 
)@leftPad
(
'0' ) @tag( 10 ) char[]
crc `doc`
, char[]
    // " ++ [27880; 37322]%N ++ runes_of_ascii "
    calculatedFrom @lengthOf( charz),
// packet A { u8 x, }
// `tick` ""quote"" 'q'
f64 msg_type @lengthOf(	asx
),
    @tag( 42// a // b
) tag @lengthOf( stringy
    ) `// not a comment`
,
repeat
Packet	crc , @tag( 1
    ) rootA ,
char[] Z9_ ,	char[]
    As @lengthOf( // " ++ [27880; 37322]%N ++ runes_of_ascii "
charz// c
)  ,} // a // b")).
Eval vm_compute in ("<<<M194>>>" ++ check (runes_of_ascii "MetaData// @lengthOf(
lengthOf
//x
// trailing space 
{ }MetaData	falsey {
    i16  f32a
`u8 x,` , len
    // trailing space 
    Foo , }
")).
Eval vm_compute in ("<<<M204>>>" ++ check (runes_of_ascii "packet zchar { @tag( 0123456789
    )	string	Z9_
// a // b
// c
, }
")).
Eval vm_compute in ("<<<M214>>>" ++ check (runes_of_ascii "packet leftPad {
    @tag(//	t
007 ) @calculatedFrom( ""a	b"" ) @lengthOf(
chars
) match int as a1{ 0123456789 :chars ,
    4294967296
    //	t
    :
calculatedFrom
    , }, } //
packet rootA{ msg_type trueish , } root packet
chars {
@lengthOf(repeatCount ) uint8x zchar`it's` ,
string// `tick` ""quote"" 'q'
chars
`u8 x,` // c
,match tag as charz
{ [ 42
    ]
: roots
10
: f32a, }
,
} MetaData
i8i8	{
f32 u, } packet
    i8i8
{ @tag( 255 ) @lengthOf(  roots// c
)@tag(
    65535) chars
// " ++ [128512]%N ++ runes_of_ascii " emoji
// a // b
{//
repeat
    // @lengthOf(
    lengthOf{  repeat
    // " ++ [27880; 37322]%N ++ runes_of_ascii "
    Foo {char[
// @lengthOf(
// `tick` ""quote"" 'q'
3
] string_ @calculatedFrom( ""packet""
    ) ,
} , match
options1
//	t
// a // b
as Packet {
42 : Header , } , char[ 255 ]_x
    // c
    `line1
line2`  , repeat
    // packet A { u8 x, }
    pack { char[]a1
    @calculatedFrom( """ ++ [233]%N ++ runes_of_ascii "t" ++ [233]%N ++ runes_of_ascii """
) `// not a comment`, T roots `
`
,zchar[ 3 ] i64_
    , // c
u32 leftPad ,} , }
, // `tick` ""quote"" 'q'
}, @lengthOf( metadata
// " ++ [128512]%N ++ runes_of_ascii " emoji
/// triple
) match Header
as trueish{
65535 : falsey
    , ""x y""
: T
    ,
""a\""b"" //
: lengthOf
// c
// " ++ [128512]%N ++ runes_of_ascii " emoji
,
// trailing space 
// `tick` ""quote"" 'q'
[
    // packet A { u8 x, }
    ""{,}""] : Z9_ , }
,@tag( 4294967296
    ) // a // b
repeat char[ 0 ]  asx,//	t
repeat u128{
    chars
    charz
    , } , @calculatedFrom( //
""CRC32""
    )	match roots as metadata{
255 : As
    ,	}
    , repeat Pad asx , @leftPad (
    ' '
)
//	t
// a // b
matchKey
    // " ++ [128512]%N ++ runes_of_ascii " emoji
    @calculatedFrom( ""`tick`""
    ) `line1
line2`
, }
/// triple
")).
Eval vm_compute in ("<<<M224>>>" ++ check (runes_of_ascii "  root packet	int  { len msg_type
`u8 x,` , u8  leftPad `" ++ [28040; 24687; 31867; 22411]%N ++ runes_of_ascii "` , body @lengthOf( BodyLength ) , uint16
options1 , len {
    // " ++ [27880; 37322]%N ++ runes_of_ascii "
    string
pack @calculatedFrom( ""1"" ), string asx @lengthOf( i8i8)
    ,
} , @leftPad
// " ++ [27880; 37322]%N ++ runes_of_ascii "
// " ++ [27880; 37322]%N ++ runes_of_ascii "
( '\x00')repeat MetaDataX ,}MetaData  o {
    uint16 Z9_ `say ""hi""`
    ,int64 x_y_z
, i8 x_y_z
`u8 x,` ,  float64 Pad
, As // packet A { u8 x, }
Z9_, Logon
    falsey`a\`, }")).
Eval vm_compute in ("<<<M234>>>" ++ check (runes_of_ascii "// trailing space 
packet charz {
//	t
//
repeat
char[ 3 ] Foo`line1
line2` ,
    } // trailing space ")).
Eval vm_compute in ("<<<M244>>>" ++ check (runes_of_ascii "
root // @lengthOf(
packet	calculatedFrom
{trueish ,
    match Header	as Header
{
65535: As
, [
255, """ ++ [28040; 24687]%N ++ runes_of_ascii """
    , ""CRC32"" , """" ,
1
    ,"""",007 ] : x_y_z [ """"  ,	""CRC32"" ]:
matchKey
, ""packet""
:
charz ,
    ""\" ++ [233]%N ++ runes_of_ascii """:roots
} , string zchar @lengthOf( u128 ) `{ , }`	,match // " ++ [27880; 37322]%N ++ runes_of_ascii "
roots as _x	{ ""1"":
As ,  [
42 ] : zchar , }	, @leftPad (
' ' ) @lengthOf( uint8x ) @calculatedFrom(
""\n"" ) int	rootA , }
packet
    repeatCount { match
    len as calculatedFrom
{	""" ++ [128512]%N ++ runes_of_ascii """ : stringy ,
    4294967296: o ,  ""1"" :
zchar [ 00, 007 , 007
    , 65535 ,
    ""{,}"" , """" ,255 , ""abc"" ] //
:
x_y_z ,
0123456789 : leftPad , 0123456789 : Packet }
    ,
@tag( 007
    )	T , char[007]
string_
    , @tag(
    0
)
    repeat float32 MetaDataX, stringy @lengthOf( metadata )
    // trailing space 
    , falsey
{ match i8i8 as f32a{ 255 :u128 }, }	,@leftPad ( //	t
'0'
) // c
match//x
x_y_z as lengthOf { 007  : packetx , } //
,// packet A { u8 x, }
@calculatedFrom(
""a\\"")
Pad `line1
line2`,
    BodyLength {
string int ,
// @lengthOf(
// trailing space 
char[ // " ++ [27880; 37322]%N ++ runes_of_ascii "
0
] i64_,
string a1 @calculatedFrom(	""packet""
)
,}, } 	 ")).
Eval vm_compute in ("<<<T244>>>" ++ terms [mkTok 34 "root" 2 0 false; mkTok 44 "// @lengthOf(" 2 5 true; mkTok 35 "packet" 3 0 false; mkTok 42 "calculatedFrom" 3 7 false; mkTok 2 "{" 4 0 false; mkTok 42 "trueish" 4 1 false; mkTok 40 "," 4 9 false; mkTok 38 "match" 5 4 false; mkTok 42 "Header" 5 10 false; mkTok 17 "as" 5 17 false; mkTok 42 "Header" 5 20 false; mkTok 2 "{" 6 0 false; mkTok 30 "65535" 7 0 false; mkTok 39 ":" 7 5 false; mkTok 42 "As" 7 7 false; mkTok 40 "," 8 0 false; mkTok 18 "[" 8 2 false; mkTok 30 "255" 9 0 false; mkTok 40 "," 9 3 false; mkTok 31 (string_of_bytes [34; 230; 182; 136; 230; 129; 175; 34]%N) 9 5 false; mkTok 40 "," 10 4 false; mkTok 31 """CRC32""" 10 6 false; mkTok 40 "," 10 14 false; mkTok 31 """""" 10 16 false; mkTok 40 "," 10 19 false; mkTok 30 "1" 11 0 false; mkTok 40 "," 12 4 false; mkTok 31 """""" 12 5 false; mkTok 40 "," 12 7 false; mkTok 30 "007" 12 8 false; mkTok 13 "]" 12 12 false; mkTok 39 ":" 12 14 false; mkTok 42 "x_y_z" 12 16 false; mkTok 18 "[" 12 22 false; mkTok 31 """""" 12 24 false; mkTok 40 "," 12 28 false; mkTok 31 """CRC32""" 12 30 false; mkTok 13 "]" 12 38 false; mkTok 39 ":" 12 39 false; mkTok 42 "matchKey" 13 0 false; mkTok 40 "," 14 0 false; mkTok 31 """packet""" 14 2 false; mkTok 39 ":" 15 0 false; mkTok 42 "charz" 16 0 false; mkTok 40 "," 16 6 false; mkTok 31 (string_of_bytes [34; 92; 195; 169; 34]%N) 17 4 false; mkTok 39 ":" 17 8 false; mkTok 42 "roots" 17 9 false; mkTok 3 "}" 18 0 false; mkTok 40 "," 18 2 false; mkTok 15 "string" 18 4 false; mkTok 42 "zchar" 18 11 false; mkTok 7 "@lengthOf(" 18 17 false; mkTok 42 "u128" 18 28 false; mkTok 6 ")" 18 33 false; mkTok 43 "`{ , }`" 18 35 false; mkTok 40 "," 18 43 false; mkTok 38 "match" 18 44 false; mkTok 44 (string_of_bytes [47; 47; 32; 230; 179; 168; 233; 135; 138]%N) 18 50 true; mkTok 42 "roots" 19 0 false; mkTok 17 "as" 19 6 false; mkTok 42 "_x" 19 9 false; mkTok 2 "{" 19 12 false; mkTok 31 """1""" 19 14 false; mkTok 39 ":" 19 17 false; mkTok 42 "As" 20 0 false; mkTok 40 "," 20 3 false; mkTok 18 "[" 20 6 false; mkTok 30 "42" 21 0 false; mkTok 13 "]" 21 3 false; mkTok 39 ":" 21 5 false; mkTok 42 "zchar" 21 7 false; mkTok 40 "," 21 13 false; mkTok 3 "}" 21 15 false; mkTok 40 "," 21 17 false; mkTok 32 "@leftPad" 21 19 false; mkTok 8 "(" 21 28 false; mkTok 33 "' '" 22 0 false; mkTok 6 ")" 22 4 false; mkTok 7 "@lengthOf(" 22 6 false; mkTok 42 "uint8x" 22 17 false; mkTok 6 ")" 22 24 false; mkTok 5 "@calculatedFrom(" 22 26 false; mkTok 31 """\n""" 23 0 false; mkTok 6 ")" 23 5 false; mkTok 42 "int" 23 7 false; mkTok 42 "rootA" 23 11 false; mkTok 40 "," 23 17 false; mkTok 3 "}" 23 19 false; mkTok 35 "packet" 24 0 false; mkTok 42 "repeatCount" 25 4 false; mkTok 2 "{" 25 16 false; mkTok 38 "match" 25 18 false; mkTok 42 "len" 26 4 false; mkTok 17 "as" 26 8 false; mkTok 42 "calculatedFrom" 26 11 false; mkTok 2 "{" 27 0 false; mkTok 31 (string_of_bytes [34; 240; 159; 152; 128; 34]%N) 27 2 false; mkTok 39 ":" 27 6 false; mkTok 42 "stringy" 27 8 false; mkTok 40 "," 27 16 false; mkTok 30 "4294967296" 28 4 false; mkTok 39 ":" 28 14 false; mkTok 42 "o" 28 16 false; mkTok 40 "," 28 18 false; mkTok 31 """1""" 28 21 false; mkTok 39 ":" 28 25 false; mkTok 42 "zchar" 29 0 false; mkTok 18 "[" 29 6 false; mkTok 30 "00" 29 8 false; mkTok 40 "," 29 10 false; mkTok 30 "007" 29 12 false; mkTok 40 "," 29 16 false; mkTok 30 "007" 29 18 false; mkTok 40 "," 30 4 false; mkTok 30 "65535" 30 6 false; mkTok 40 "," 30 12 false; mkTok 31 """{,}""" 31 4 false; mkTok 40 "," 31 10 false; mkTok 31 """""" 31 12 false; mkTok 40 "," 31 15 false; mkTok 30 "255" 31 16 false; mkTok 40 "," 31 20 false; mkTok 31 """abc""" 31 22 false; mkTok 13 "]" 31 28 false; mkTok 44 "//" 31 30 true; mkTok 39 ":" 32 0 false; mkTok 42 "x_y_z" 33 0 false; mkTok 40 "," 33 6 false; mkTok 30 "0123456789" 34 0 false; mkTok 39 ":" 34 11 false; mkTok 42 "leftPad" 34 13 false; mkTok 40 "," 34 21 false; mkTok 30 "0123456789" 34 23 false; mkTok 39 ":" 34 34 false; mkTok 42 "Packet" 34 36 false; mkTok 3 "}" 34 43 false; mkTok 40 "," 35 4 false; mkTok 9 "@tag(" 36 0 false; mkTok 30 "007" 36 6 false; mkTok 6 ")" 37 4 false; mkTok 42 "T" 37 6 false; mkTok 40 "," 37 8 false; mkTok 12 "char[" 37 10 false; mkTok 30 "007" 37 15 false; mkTok 13 "]" 37 18 false; mkTok 42 "string_" 38 0 false; mkTok 40 "," 39 4 false; mkTok 9 "@tag(" 39 6 false; mkTok 30 "0" 40 4 false; mkTok 6 ")" 41 0 false; mkTok 36 "repeat" 42 4 false; mkTok 28 "float32" 42 11 false; mkTok 42 "MetaDataX" 42 19 false; mkTok 40 "," 42 28 false; mkTok 42 "stringy" 42 30 false; mkTok 7 "@lengthOf(" 42 38 false; mkTok 42 "metadata" 42 49 false; mkTok 6 ")" 42 58 false; mkTok 44 "// trailing space " 43 4 true; mkTok 40 "," 44 4 false; mkTok 42 "falsey" 44 6 false; mkTok 2 "{" 45 0 false; mkTok 38 "match" 45 2 false; mkTok 42 "i8i8" 45 8 false; mkTok 17 "as" 45 13 false; mkTok 42 "f32a" 45 16 false; mkTok 2 "{" 45 20 false; mkTok 30 "255" 45 22 false; mkTok 39 ":" 45 26 false; mkTok 42 "u128" 45 27 false; mkTok 3 "}" 45 32 false; mkTok 40 "," 45 33 false; mkTok 3 "}" 45 35 false; mkTok 40 "," 45 37 false; mkTok 32 "@leftPad" 45 38 false; mkTok 8 "(" 45 47 false; mkTok 44 (string_of_bytes [47; 47; 9; 116]%N) 45 49 true; mkTok 33 "'0'" 46 0 false; mkTok 6 ")" 47 0 false; mkTok 44 "// c" 47 2 true; mkTok 38 "match" 48 0 false; mkTok 44 "//x" 48 5 true; mkTok 42 "x_y_z" 49 0 false; mkTok 17 "as" 49 6 false; mkTok 42 "lengthOf" 49 9 false; mkTok 2 "{" 49 18 false; mkTok 30 "007" 49 20 false; mkTok 39 ":" 49 25 false; mkTok 42 "packetx" 49 27 false; mkTok 40 "," 49 35 false; mkTok 3 "}" 49 37 false; mkTok 44 "//" 49 39 true; mkTok 40 "," 50 0 false; mkTok 44 "// packet A { u8 x, }" 50 1 true; mkTok 5 "@calculatedFrom(" 51 0 false; mkTok 31 """a\\""" 52 0 false; mkTok 6 ")" 52 5 false; mkTok 42 "Pad" 53 0 false; mkTok 43 (string_of_bytes [96; 108; 105; 110; 101; 49; 10; 108; 105; 110; 101; 50; 96]%N) 53 4 false; mkTok 40 "," 54 6 false; mkTok 42 "BodyLength" 55 4 false; mkTok 2 "{" 55 15 false; mkTok 15 "string" 56 0 false; mkTok 42 "int" 56 7 false; mkTok 40 "," 56 11 false; mkTok 44 "// @lengthOf(" 57 0 true; mkTok 44 "// trailing space " 58 0 true; mkTok 12 "char[" 59 0 false; mkTok 44 (string_of_bytes [47; 47; 32; 230; 179; 168; 233; 135; 138]%N) 59 6 true; mkTok 30 "0" 60 0 false; mkTok 13 "]" 61 0 false; mkTok 42 "i64_" 61 2 false; mkTok 40 "," 61 6 false; mkTok 15 "string" 62 0 false; mkTok 42 "a1" 62 7 false; mkTok 5 "@calculatedFrom(" 62 10 false; mkTok 31 """packet""" 62 27 false; mkTok 6 ")" 63 0 false; mkTok 40 "," 64 0 false; mkTok 3 "}" 64 1 false; mkTok 40 "," 64 2 false; mkTok 3 "}" 64 4 false; mkTok 0 "<EOF>" 64 8 false] (mkPacket (mkPtok 34 "root" 2 0 0) (Some (mkPtok 3 "}" 64 4 222)) [(DPacket (mkPacketDef (mkSpan (mkPtok 34 "root" 2 0 0) (mkPtok 3 "}" 23 19 88)) (Some (mkPtok 34 "root" 2 0 0)) (mkPtok 35 "packet" 3 0 2) (mkPtok 42 "calculatedFrom" 3 7 3) (mkPtok 2 "{" 4 0 4) [(mkFieldWithAttr (mkSpan (mkPtok 42 "trueish" 4 1 5) (mkPtok 40 "," 4 9 6)) [] (ObjectField (mkSpan (mkPtok 42 "trueish" 4 1 5) (mkPtok 40 "," 4 9 6)) None (mkPtok 42 "trueish" 4 1 5) None None (mkPtok 40 "," 4 9 6))); (mkFieldWithAttr (mkSpan (mkPtok 38 "match" 5 4 7) (mkPtok 40 "," 18 2 49)) [] (MatchField (mkSpan (mkPtok 38 "match" 5 4 7) (mkPtok 40 "," 18 2 49)) (mkMatchFieldDecl (mkSpan (mkPtok 38 "match" 5 4 7) (mkPtok 3 "}" 18 0 48)) (mkPtok 38 "match" 5 4 7) (mkPtok 42 "Header" 5 10 8) (mkPtok 17 "as" 5 17 9) (mkPtok 42 "Header" 5 20 10) (mkPtok 2 "{" 6 0 11) [(mkMatchPair (mkSpan (mkPtok 30 "65535" 7 0 12) (mkPtok 40 "," 8 0 15)) (MKDigits (mkPtok 30 "65535" 7 0 12)) (mkPtok 39 ":" 7 5 13) (mkPtok 42 "As" 7 7 14) (Some (mkPtok 40 "," 8 0 15))); (mkMatchPair (mkSpan (mkPtok 18 "[" 8 2 16) (mkPtok 42 "x_y_z" 12 16 32)) (MKList (mkKeyList (mkSpan (mkPtok 18 "[" 8 2 16) (mkPtok 13 "]" 12 12 30)) (mkPtok 18 "[" 8 2 16) (mkPtok 30 "255" 9 0 17) [((mkPtok 40 "," 9 3 18), (mkPtok 31 (string_of_bytes [34; 230; 182; 136; 230; 129; 175; 34]%N) 9 5 19)); ((mkPtok 40 "," 10 4 20), (mkPtok 31 """CRC32""" 10 6 21)); ((mkPtok 40 "," 10 14 22), (mkPtok 31 """""" 10 16 23)); ((mkPtok 40 "," 10 19 24), (mkPtok 30 "1" 11 0 25)); ((mkPtok 40 "," 12 4 26), (mkPtok 31 """""" 12 5 27)); ((mkPtok 40 "," 12 7 28), (mkPtok 30 "007" 12 8 29))] (mkPtok 13 "]" 12 12 30))) (mkPtok 39 ":" 12 14 31) (mkPtok 42 "x_y_z" 12 16 32) None); (mkMatchPair (mkSpan (mkPtok 18 "[" 12 22 33) (mkPtok 40 "," 14 0 40)) (MKList (mkKeyList (mkSpan (mkPtok 18 "[" 12 22 33) (mkPtok 13 "]" 12 38 37)) (mkPtok 18 "[" 12 22 33) (mkPtok 31 """""" 12 24 34) [((mkPtok 40 "," 12 28 35), (mkPtok 31 """CRC32""" 12 30 36))] (mkPtok 13 "]" 12 38 37))) (mkPtok 39 ":" 12 39 38) (mkPtok 42 "matchKey" 13 0 39) (Some (mkPtok 40 "," 14 0 40))); (mkMatchPair (mkSpan (mkPtok 31 """packet""" 14 2 41) (mkPtok 40 "," 16 6 44)) (MKString (mkPtok 31 """packet""" 14 2 41)) (mkPtok 39 ":" 15 0 42) (mkPtok 42 "charz" 16 0 43) (Some (mkPtok 40 "," 16 6 44))); (mkMatchPair (mkSpan (mkPtok 31 (string_of_bytes [34; 92; 195; 169; 34]%N) 17 4 45) (mkPtok 42 "roots" 17 9 47)) (MKString (mkPtok 31 (string_of_bytes [34; 92; 195; 169; 34]%N) 17 4 45)) (mkPtok 39 ":" 17 8 46) (mkPtok 42 "roots" 17 9 47) None)] (mkPtok 3 "}" 18 0 48)) (mkPtok 40 "," 18 2 49))); (mkFieldWithAttr (mkSpan (mkPtok 15 "string" 18 4 50) (mkPtok 40 "," 18 43 56)) [] (LengthField (mkSpan (mkPtok 15 "string" 18 4 50) (mkPtok 40 "," 18 43 56)) (mkLengthFieldDecl (mkSpan (mkPtok 15 "string" 18 4 50) (mkPtok 40 "," 18 43 56)) (Some (TyDynamic (mkSpan (mkPtok 15 "string" 18 4 50) (mkPtok 15 "string" 18 4 50)) (mkDynamicString (mkSpan (mkPtok 15 "string" 18 4 50) (mkPtok 15 "string" 18 4 50)) (mkPtok 15 "string" 18 4 50)))) (mkPtok 42 "zchar" 18 11 51) (mkLengthOf (mkSpan (mkPtok 7 "@lengthOf(" 18 17 52) (mkPtok 6 ")" 18 33 54)) (mkPtok 7 "@lengthOf(" 18 17 52) (mkPtok 42 "u128" 18 28 53) (mkPtok 6 ")" 18 33 54)) (Some (mkPtok 43 "`{ , }`" 18 35 55)) (mkPtok 40 "," 18 43 56)))); (mkFieldWithAttr (mkSpan (mkPtok 38 "match" 18 44 57) (mkPtok 40 "," 21 17 74)) [] (MatchField (mkSpan (mkPtok 38 "match" 18 44 57) (mkPtok 40 "," 21 17 74)) (mkMatchFieldDecl (mkSpan (mkPtok 38 "match" 18 44 57) (mkPtok 3 "}" 21 15 73)) (mkPtok 38 "match" 18 44 57) (mkPtok 42 "roots" 19 0 59) (mkPtok 17 "as" 19 6 60) (mkPtok 42 "_x" 19 9 61) (mkPtok 2 "{" 19 12 62) [(mkMatchPair (mkSpan (mkPtok 31 """1""" 19 14 63) (mkPtok 40 "," 20 3 66)) (MKString (mkPtok 31 """1""" 19 14 63)) (mkPtok 39 ":" 19 17 64) (mkPtok 42 "As" 20 0 65) (Some (mkPtok 40 "," 20 3 66))); (mkMatchPair (mkSpan (mkPtok 18 "[" 20 6 67) (mkPtok 40 "," 21 13 72)) (MKList (mkKeyList (mkSpan (mkPtok 18 "[" 20 6 67) (mkPtok 13 "]" 21 3 69)) (mkPtok 18 "[" 20 6 67) (mkPtok 30 "42" 21 0 68) [] (mkPtok 13 "]" 21 3 69))) (mkPtok 39 ":" 21 5 70) (mkPtok 42 "zchar" 21 7 71) (Some (mkPtok 40 "," 21 13 72)))] (mkPtok 3 "}" 21 15 73)) (mkPtok 40 "," 21 17 74))); (mkFieldWithAttr (mkSpan (mkPtok 32 "@leftPad" 21 19 75) (mkPtok 40 "," 23 17 87)) [(FAPadding (mkSpan (mkPtok 32 "@leftPad" 21 19 75) (mkPtok 6 ")" 22 4 78)) (mkPaddingAttr (mkSpan (mkPtok 32 "@leftPad" 21 19 75) (mkPtok 6 ")" 22 4 78)) (mkPtok 32 "@leftPad" 21 19 75) (mkPtok 8 "(" 21 28 76) (Some (mkPtok 33 "' '" 22 0 77)) (mkPtok 6 ")" 22 4 78))); (FALengthOf (mkSpan (mkPtok 7 "@lengthOf(" 22 6 79) (mkPtok 6 ")" 22 24 81)) (mkLengthOf (mkSpan (mkPtok 7 "@lengthOf(" 22 6 79) (mkPtok 6 ")" 22 24 81)) (mkPtok 7 "@lengthOf(" 22 6 79) (mkPtok 42 "uint8x" 22 17 80) (mkPtok 6 ")" 22 24 81))); (FACalculatedFrom (mkSpan (mkPtok 5 "@calculatedFrom(" 22 26 82) (mkPtok 6 ")" 23 5 84)) (mkCalculatedFrom (mkSpan (mkPtok 5 "@calculatedFrom(" 22 26 82) (mkPtok 6 ")" 23 5 84)) (mkPtok 5 "@calculatedFrom(" 22 26 82) (mkPtok 31 """\n""" 23 0 83) (mkPtok 6 ")" 23 5 84)))] (ObjectField (mkSpan (mkPtok 42 "int" 23 7 85) (mkPtok 40 "," 23 17 87)) None (mkPtok 42 "int" 23 7 85) (Some (mkPtok 42 "rootA" 23 11 86)) None (mkPtok 40 "," 23 17 87)))] (mkPtok 3 "}" 23 19 88))); (DPacket (mkPacketDef (mkSpan (mkPtok 35 "packet" 24 0 89) (mkPtok 3 "}" 64 4 222)) None (mkPtok 35 "packet" 24 0 89) (mkPtok 42 "repeatCount" 25 4 90) (mkPtok 2 "{" 25 16 91) [(mkFieldWithAttr (mkSpan (mkPtok 38 "match" 25 18 92) (mkPtok 40 "," 35 4 137)) [] (MatchField (mkSpan (mkPtok 38 "match" 25 18 92) (mkPtok 40 "," 35 4 137)) (mkMatchFieldDecl (mkSpan (mkPtok 38 "match" 25 18 92) (mkPtok 3 "}" 34 43 136)) (mkPtok 38 "match" 25 18 92) (mkPtok 42 "len" 26 4 93) (mkPtok 17 "as" 26 8 94) (mkPtok 42 "calculatedFrom" 26 11 95) (mkPtok 2 "{" 27 0 96) [(mkMatchPair (mkSpan (mkPtok 31 (string_of_bytes [34; 240; 159; 152; 128; 34]%N) 27 2 97) (mkPtok 40 "," 27 16 100)) (MKString (mkPtok 31 (string_of_bytes [34; 240; 159; 152; 128; 34]%N) 27 2 97)) (mkPtok 39 ":" 27 6 98) (mkPtok 42 "stringy" 27 8 99) (Some (mkPtok 40 "," 27 16 100))); (mkMatchPair (mkSpan (mkPtok 30 "4294967296" 28 4 101) (mkPtok 40 "," 28 18 104)) (MKDigits (mkPtok 30 "4294967296" 28 4 101)) (mkPtok 39 ":" 28 14 102) (mkPtok 42 "o" 28 16 103) (Some (mkPtok 40 "," 28 18 104))); (mkMatchPair (mkSpan (mkPtok 31 """1""" 28 21 105) (mkPtok 42 "zchar" 29 0 107)) (MKString (mkPtok 31 """1""" 28 21 105)) (mkPtok 39 ":" 28 25 106) (mkPtok 42 "zchar" 29 0 107) None); (mkMatchPair (mkSpan (mkPtok 18 "[" 29 6 108) (mkPtok 40 "," 33 6 128)) (MKList (mkKeyList (mkSpan (mkPtok 18 "[" 29 6 108) (mkPtok 13 "]" 31 28 124)) (mkPtok 18 "[" 29 6 108) (mkPtok 30 "00" 29 8 109) [((mkPtok 40 "," 29 10 110), (mkPtok 30 "007" 29 12 111)); ((mkPtok 40 "," 29 16 112), (mkPtok 30 "007" 29 18 113)); ((mkPtok 40 "," 30 4 114), (mkPtok 30 "65535" 30 6 115)); ((mkPtok 40 "," 30 12 116), (mkPtok 31 """{,}""" 31 4 117)); ((mkPtok 40 "," 31 10 118), (mkPtok 31 """""" 31 12 119)); ((mkPtok 40 "," 31 15 120), (mkPtok 30 "255" 31 16 121)); ((mkPtok 40 "," 31 20 122), (mkPtok 31 """abc""" 31 22 123))] (mkPtok 13 "]" 31 28 124))) (mkPtok 39 ":" 32 0 126) (mkPtok 42 "x_y_z" 33 0 127) (Some (mkPtok 40 "," 33 6 128))); (mkMatchPair (mkSpan (mkPtok 30 "0123456789" 34 0 129) (mkPtok 40 "," 34 21 132)) (MKDigits (mkPtok 30 "0123456789" 34 0 129)) (mkPtok 39 ":" 34 11 130) (mkPtok 42 "leftPad" 34 13 131) (Some (mkPtok 40 "," 34 21 132))); (mkMatchPair (mkSpan (mkPtok 30 "0123456789" 34 23 133) (mkPtok 42 "Packet" 34 36 135)) (MKDigits (mkPtok 30 "0123456789" 34 23 133)) (mkPtok 39 ":" 34 34 134) (mkPtok 42 "Packet" 34 36 135) None)] (mkPtok 3 "}" 34 43 136)) (mkPtok 40 "," 35 4 137))); (mkFieldWithAttr (mkSpan (mkPtok 9 "@tag(" 36 0 138) (mkPtok 40 "," 37 8 142)) [(FATag (mkSpan (mkPtok 9 "@tag(" 36 0 138) (mkPtok 6 ")" 37 4 140)) (mkTagAttr (mkSpan (mkPtok 9 "@tag(" 36 0 138) (mkPtok 6 ")" 37 4 140)) (mkPtok 9 "@tag(" 36 0 138) (mkPtok 30 "007" 36 6 139) (mkPtok 6 ")" 37 4 140)))] (ObjectField (mkSpan (mkPtok 42 "T" 37 6 141) (mkPtok 40 "," 37 8 142)) None (mkPtok 42 "T" 37 6 141) None None (mkPtok 40 "," 37 8 142))); (mkFieldWithAttr (mkSpan (mkPtok 12 "char[" 37 10 143) (mkPtok 40 "," 39 4 147)) [] (MetaField (mkSpan (mkPtok 12 "char[" 37 10 143) (mkPtok 40 "," 39 4 147)) None (mkMetaDecl (mkSpan (mkPtok 12 "char[" 37 10 143) (mkPtok 40 "," 39 4 147)) (TyFixed (mkSpan (mkPtok 12 "char[" 37 10 143) (mkPtok 13 "]" 37 18 145)) (mkFixedString (mkSpan (mkPtok 12 "char[" 37 10 143) (mkPtok 13 "]" 37 18 145)) (mkPtok 12 "char[" 37 10 143) (mkPtok 30 "007" 37 15 144) (mkPtok 13 "]" 37 18 145))) (mkPtok 42 "string_" 38 0 146) None (mkPtok 40 "," 39 4 147)))); (mkFieldWithAttr (mkSpan (mkPtok 9 "@tag(" 39 6 148) (mkPtok 40 "," 42 28 154)) [(FATag (mkSpan (mkPtok 9 "@tag(" 39 6 148) (mkPtok 6 ")" 41 0 150)) (mkTagAttr (mkSpan (mkPtok 9 "@tag(" 39 6 148) (mkPtok 6 ")" 41 0 150)) (mkPtok 9 "@tag(" 39 6 148) (mkPtok 30 "0" 40 4 149) (mkPtok 6 ")" 41 0 150)))] (MetaField (mkSpan (mkPtok 36 "repeat" 42 4 151) (mkPtok 40 "," 42 28 154)) (Some (mkPtok 36 "repeat" 42 4 151)) (mkMetaDecl (mkSpan (mkPtok 28 "float32" 42 11 152) (mkPtok 40 "," 42 28 154)) (TyBasic (mkSpan (mkPtok 28 "float32" 42 11 152) (mkPtok 28 "float32" 42 11 152)) (mkBasicType (mkSpan (mkPtok 28 "float32" 42 11 152) (mkPtok 28 "float32" 42 11 152)) (mkPtok 28 "float32" 42 11 152))) (mkPtok 42 "MetaDataX" 42 19 153) None (mkPtok 40 "," 42 28 154)))); (mkFieldWithAttr (mkSpan (mkPtok 42 "stringy" 42 30 155) (mkPtok 40 "," 44 4 160)) [] (LengthField (mkSpan (mkPtok 42 "stringy" 42 30 155) (mkPtok 40 "," 44 4 160)) (mkLengthFieldDecl (mkSpan (mkPtok 42 "stringy" 42 30 155) (mkPtok 40 "," 44 4 160)) None (mkPtok 42 "stringy" 42 30 155) (mkLengthOf (mkSpan (mkPtok 7 "@lengthOf(" 42 38 156) (mkPtok 6 ")" 42 58 158)) (mkPtok 7 "@lengthOf(" 42 38 156) (mkPtok 42 "metadata" 42 49 157) (mkPtok 6 ")" 42 58 158)) None (mkPtok 40 "," 44 4 160)))); (mkFieldWithAttr (mkSpan (mkPtok 42 "falsey" 44 6 161) (mkPtok 40 "," 45 37 174)) [] (InerObjectField (mkSpan (mkPtok 42 "falsey" 44 6 161) (mkPtok 40 "," 45 37 174)) None (InerObjectDecl (mkSpan (mkPtok 42 "falsey" 44 6 161) (mkPtok 3 "}" 45 35 173)) (mkPtok 42 "falsey" 44 6 161) (mkPtok 2 "{" 45 0 162) [(MatchField (mkSpan (mkPtok 38 "match" 45 2 163) (mkPtok 40 "," 45 33 172)) (mkMatchFieldDecl (mkSpan (mkPtok 38 "match" 45 2 163) (mkPtok 3 "}" 45 32 171)) (mkPtok 38 "match" 45 2 163) (mkPtok 42 "i8i8" 45 8 164) (mkPtok 17 "as" 45 13 165) (mkPtok 42 "f32a" 45 16 166) (mkPtok 2 "{" 45 20 167) [(mkMatchPair (mkSpan (mkPtok 30 "255" 45 22 168) (mkPtok 42 "u128" 45 27 170)) (MKDigits (mkPtok 30 "255" 45 22 168)) (mkPtok 39 ":" 45 26 169) (mkPtok 42 "u128" 45 27 170) None)] (mkPtok 3 "}" 45 32 171)) (mkPtok 40 "," 45 33 172))] (mkPtok 3 "}" 45 35 173)) (mkPtok 40 "," 45 37 174))); (mkFieldWithAttr (mkSpan (mkPtok 32 "@leftPad" 45 38 175) (mkPtok 40 "," 50 0 193)) [(FAPadding (mkSpan (mkPtok 32 "@leftPad" 45 38 175) (mkPtok 6 ")" 47 0 179)) (mkPaddingAttr (mkSpan (mkPtok 32 "@leftPad" 45 38 175) (mkPtok 6 ")" 47 0 179)) (mkPtok 32 "@leftPad" 45 38 175) (mkPtok 8 "(" 45 47 176) (Some (mkPtok 33 "'0'" 46 0 178)) (mkPtok 6 ")" 47 0 179)))] (MatchField (mkSpan (mkPtok 38 "match" 48 0 181) (mkPtok 40 "," 50 0 193)) (mkMatchFieldDecl (mkSpan (mkPtok 38 "match" 48 0 181) (mkPtok 3 "}" 49 37 191)) (mkPtok 38 "match" 48 0 181) (mkPtok 42 "x_y_z" 49 0 183) (mkPtok 17 "as" 49 6 184) (mkPtok 42 "lengthOf" 49 9 185) (mkPtok 2 "{" 49 18 186) [(mkMatchPair (mkSpan (mkPtok 30 "007" 49 20 187) (mkPtok 40 "," 49 35 190)) (MKDigits (mkPtok 30 "007" 49 20 187)) (mkPtok 39 ":" 49 25 188) (mkPtok 42 "packetx" 49 27 189) (Some (mkPtok 40 "," 49 35 190)))] (mkPtok 3 "}" 49 37 191)) (mkPtok 40 "," 50 0 193))); (mkFieldWithAttr (mkSpan (mkPtok 5 "@calculatedFrom(" 51 0 195) (mkPtok 40 "," 54 6 200)) [(FACalculatedFrom (mkSpan (mkPtok 5 "@calculatedFrom(" 51 0 195) (mkPtok 6 ")" 52 5 197)) (mkCalculatedFrom (mkSpan (mkPtok 5 "@calculatedFrom(" 51 0 195) (mkPtok 6 ")" 52 5 197)) (mkPtok 5 "@calculatedFrom(" 51 0 195) (mkPtok 31 """a\\""" 52 0 196) (mkPtok 6 ")" 52 5 197)))] (ObjectField (mkSpan (mkPtok 42 "Pad" 53 0 198) (mkPtok 40 "," 54 6 200)) None (mkPtok 42 "Pad" 53 0 198) None (Some (mkPtok 43 (string_of_bytes [96; 108; 105; 110; 101; 49; 10; 108; 105; 110; 101; 50; 96]%N) 53 4 199)) (mkPtok 40 "," 54 6 200))); (mkFieldWithAttr (mkSpan (mkPtok 42 "BodyLength" 55 4 201) (mkPtok 40 "," 64 2 221)) [] (InerObjectField (mkSpan (mkPtok 42 "BodyLength" 55 4 201) (mkPtok 40 "," 64 2 221)) None (InerObjectDecl (mkSpan (mkPtok 42 "BodyLength" 55 4 201) (mkPtok 3 "}" 64 1 220)) (mkPtok 42 "BodyLength" 55 4 201) (mkPtok 2 "{" 55 15 202) [(MetaField (mkSpan (mkPtok 15 "string" 56 0 203) (mkPtok 40 "," 56 11 205)) None (mkMetaDecl (mkSpan (mkPtok 15 "string" 56 0 203) (mkPtok 40 "," 56 11 205)) (TyDynamic (mkSpan (mkPtok 15 "string" 56 0 203) (mkPtok 15 "string" 56 0 203)) (mkDynamicString (mkSpan (mkPtok 15 "string" 56 0 203) (mkPtok 15 "string" 56 0 203)) (mkPtok 15 "string" 56 0 203))) (mkPtok 42 "int" 56 7 204) None (mkPtok 40 "," 56 11 205))); (MetaField (mkSpan (mkPtok 12 "char[" 59 0 208) (mkPtok 40 "," 61 6 213)) None (mkMetaDecl (mkSpan (mkPtok 12 "char[" 59 0 208) (mkPtok 40 "," 61 6 213)) (TyFixed (mkSpan (mkPtok 12 "char[" 59 0 208) (mkPtok 13 "]" 61 0 211)) (mkFixedString (mkSpan (mkPtok 12 "char[" 59 0 208) (mkPtok 13 "]" 61 0 211)) (mkPtok 12 "char[" 59 0 208) (mkPtok 30 "0" 60 0 210) (mkPtok 13 "]" 61 0 211))) (mkPtok 42 "i64_" 61 2 212) None (mkPtok 40 "," 61 6 213))); (CheckSumField (mkSpan (mkPtok 15 "string" 62 0 214) (mkPtok 40 "," 64 0 219)) (mkChecksumFieldDecl (mkSpan (mkPtok 15 "string" 62 0 214) (mkPtok 40 "," 64 0 219)) (Some (TyDynamic (mkSpan (mkPtok 15 "string" 62 0 214) (mkPtok 15 "string" 62 0 214)) (mkDynamicString (mkSpan (mkPtok 15 "string" 62 0 214) (mkPtok 15 "string" 62 0 214)) (mkPtok 15 "string" 62 0 214)))) (mkPtok 42 "a1" 62 7 215) (mkCalculatedFrom (mkSpan (mkPtok 5 "@calculatedFrom(" 62 10 216) (mkPtok 6 ")" 63 0 218)) (mkPtok 5 "@calculatedFrom(" 62 10 216) (mkPtok 31 """packet""" 62 27 217) (mkPtok 6 ")" 63 0 218)) None (mkPtok 40 "," 64 0 219)))] (mkPtok 3 "}" 64 1 220)) (mkPtok 40 "," 64 2 221)))] (mkPtok 3 "}" 64 4 222)))])).
Eval vm_compute in ("<<<M254>>>" ++ check (runes_of_ascii "//	t
MetaData chars // a // b
{
    char[ 00]
    stringy
, asx A `a\`
,//x
i16
    Foo// trailing space 
`// not a comment` , u roots,
    string_ float, }")).
Eval vm_compute in ("<<<M264>>>" ++ check (runes_of_ascii "MetaData MetaDataX { msg_type
As
    `a\`
    // trailing space 
    ,	u calculatedFrom , float32 metadata , x Pad
, u16 chars `u8 x,`
    , options1 msg_type `" ++ [28040; 24687; 31867; 22411]%N ++ runes_of_ascii "`
,}options // a // b
{ }
")).
Eval vm_compute in ("<<<M274>>>" ++ check (runes_of_ascii "MetaData leftPad
{ char[
3 ]//
msg_type
    `{ , }`
,
} root
    packet o	{  int // packet A { u8 x, }
`tab	here` ,
    } // " ++ [128512]%N ++ runes_of_ascii " emoji
root packet Logon { @lengthOf( int )MetaDataX
    // `tick` ""quote"" 'q'
    @calculatedFrom( ""x y"" )	`a\`
,	@rightPad (
    '0') // packet A { u8 x, }
u16
//x
// " ++ [128512]%N ++ runes_of_ascii " emoji
calculatedFrom ,	string
//x
// trailing space 
lengthOf
@calculatedFrom( // trailing space 
""{,}"" ) ,
    string metadata @lengthOf(  o)  ,match
    f32a// " ++ [128512]%N ++ runes_of_ascii " emoji
as falsey { 007 //x
: o, ""packet"" : Packet ,
    ""packet""
    :
f32a ,
7: int
,
    [ ""`tick`"", ""1"" ]:
T
, [""CRC32"" ,
    ""\" ++ [233]%N ++ runes_of_ascii """,
""\" ++ [233]%N ++ runes_of_ascii """, ""CRC32"",
""abc"" , ""// no comment"" , ""abc"" ]:float,
    }	,} options{ Foo //	t
=
    ""`tick`""  } // a // b")).
Eval vm_compute in ("<<<M284>>>" ++ check (runes_of_ascii "options{// @lengthOf(
BodyLength =false repeatCount =
false
;	Pad =
""{,}"" ;
// `tick` ""quote"" 'q'
// " ++ [128512]%N ++ runes_of_ascii " emoji
calculatedFrom = ' '} packet Packet { @tag(// @lengthOf(
65535 )  char[] MetaDataX //	t
@calculatedFrom(""a\""b""
    ) ,} root
    packet
    As {
    }
    options
{
    packetx = 00
    ; } options { }
")).
Eval vm_compute in ("<<<M294>>>" ++ check (runes_of_ascii "packet Packet {@leftPad ( '\x00' )
    // " ++ [128512]%N ++ runes_of_ascii " emoji
    match x_y_z as
chars { """" // `tick` ""quote"" 'q'
: packetx """ ++ [128512]%N ++ runes_of_ascii """ :
// packet A { u8 x, }
// " ++ [128512]%N ++ runes_of_ascii " emoji
A, }
    , match charz	as o{
    ""\" ++ [233]%N ++ runes_of_ascii """
// " ++ [27880; 37322]%N ++ runes_of_ascii "
// " ++ [27880; 37322]%N ++ runes_of_ascii "
: o, 0123456789 : int ,""abc"" : Header/// triple
, ""packet"" : i8i8, ""`tick`"" : a1 , } ,char[] x_y_z @lengthOf(	rootA)
    `// not a comment`
,
}
    // trailing space 
    packet
falsey {
@calculatedFrom( ""CRC32"" ) char[]
    matchKey @calculatedFrom( ""a\\""
    ) ,//
calculatedFrom u `// not a comment`
    ,
// trailing space 
// a // b
falsey	{uint64 options1, } ,
@calculatedFrom( """") int8 Pad@calculatedFrom(""" ++ [28040; 24687]%N ++ runes_of_ascii """
) `
` ,
} options { T
    =
'\x00'
    ; }")).
Eval vm_compute in ("<<<M304>>>" ++ check (runes_of_ascii "options {
    StringPrefixLenType = u16;
    ArrayPrefixLenType = u16;
}

packet SampleBinary {
    uint16 MsgType `" ++ [28040; 24687; 31867; 22411]%N ++ runes_of_ascii "`,
    u16 BodyLenght @lengthOf(Body) `" ++ [28040; 24687; 20307; 38271; 24230]%N ++ runes_of_ascii "`,
    match MsgType as Body {
        1 : Logon,
        2 : Logout,
        3 : Heartbeat,
        4 : RiskControlRequest,
        5 : RiskControlResponse,
    },
    @calculatedFrom(""CRC32"")
    u32 Ckecksum `" ++ [26657; 39564; 21644]%N ++ runes_of_ascii "`,
}

packet Logon {
    @leftPad('0')
    char[10] UserName `" ++ [29992; 25143; 21517]%N ++ runes_of_ascii "`,
    string Password `" ++ [23494; 30721]%N ++ runes_of_ascii "`,
    uint64 ClientId `" ++ [23458; 25143; 31471]%N ++ runes_of_ascii "ID`,
    u16 HeartbeatInterval `" ++ [24515; 36339; 38388; 38548]%N ++ runes_of_ascii "`,
}

packet Logout {
    @rightPad('0')
    char[10] UserName `" ++ [29992; 25143; 21517]%N ++ runes_of_ascii "`,
    uint64 ClientId `" ++ [23458; 25143; 31471]%N ++ runes_of_ascii "ID`,
}

packet Heartbeat {
}

packet RiskControlRequest {
    string UniqueOrderId `" ++ [21807; 19968; 35746; 21333; 21495]%N ++ runes_of_ascii "`,
    char[16] ClOrdID `" ++ [23458; 25143; 35746; 21333; 21495]%N ++ runes_of_ascii "`,
    char[3] MarketID `" ++ [24066; 22330]%N ++ runes_of_ascii "id`,
    char[12] SecurityID `" ++ [35777; 21048; 20195; 30721]%N ++ runes_of_ascii "`,
    char Side `" ++ [20080; 21334; 26041; 21521]%N ++ runes_of_ascii "`,
    char OrderType `" ++ [35746; 21333; 31867; 22411]%N ++ runes_of_ascii "`,
    u64 Price `" ++ [20215; 26684]%N ++ runes_of_ascii "`,
    u32 Qty `" ++ [25968; 37327]%N ++ runes_of_ascii "`,
    repeat string ExtraInfo `" ++ [38468; 21152; 20449; 24687]%N ++ runes_of_ascii "`,
    repeat SubOrder {
        char[16] ClOrdID `" ++ [23376; 35746; 21333; 21495]%N ++ runes_of_ascii "`,
        u64 Price `" ++ [23376; 35746; 21333; 20215; 26684]%N ++ runes_of_ascii "`,
        u32 Qty `" ++ [23376; 35746; 21333; 25968; 37327]%N ++ runes_of_ascii "`,
    },
}

packet RiskControlResponse {
    string UniqueOrderId `" ++ [21807; 19968; 35746; 21333; 21495]%N ++ runes_of_ascii "`,
    i32 Status `" ++ [29366; 24577]%N ++ runes_of_ascii "`,
    string Msg `" ++ [32467; 26524; 20449; 24687]%N ++ runes_of_ascii "`,
    repeat Detail,
}

packet Detail {
    string RuleName `" ++ [35268; 21017; 21517; 31216]%N ++ runes_of_ascii "`,
    u16 Code `" ++ [21407; 22240; 20195; 30721]%N ++ runes_of_ascii "`,
}")).
Eval vm_compute in ("<<<M314>>>" ++ check (runes_of_ascii "packet  { @rightPad(	' '
    )@lengthOf( uint8x
)	i32  options1 ,u ,
    //	t
    len @lengthOf(
int // trailing space 
)
    , @tag( 42 ) repeat uint32 u ,
    }")).
Eval vm_compute in ("<<<M324>>>" ++ check (runes_of_ascii "packet  calculatedFrom{ (	' '
    )@lengthOf( uint8x
)	i32  options1 ,u ,
    //	t
    len @lengthOf(
int // trailing space 
)
    , @tag( 42 ) repeat uint32 u ,
    }")).
Eval vm_compute in ("<<<M334>>>" ++ check (runes_of_ascii "packet  calculatedFrom{ @rightPad(	
    )@lengthOf( uint8x
)	i32  options1 ,u ,
    //	t
    len @lengthOf(
int // trailing space 
)
    , @tag( 42 ) repeat uint32 u ,
    }")).
Eval vm_compute in ("<<<M344>>>" ++ check (runes_of_ascii "packet  calculatedFrom{ @rightPad(	' '
    ) uint8x
)	i32  options1 ,u ,
    //	t
    len @lengthOf(
int // trailing space 
)
    , @tag( 42 ) repeat uint32 u ,
    }")).
Eval vm_compute in ("<<<M354>>>" ++ check (runes_of_ascii "packet  calculatedFrom{ @rightPad(	' '
    )@lengthOf( uint8x
	i32  options1 ,u ,
    //	t
    len @lengthOf(
int // trailing space 
)
    , @tag( 42 ) repeat uint32 u ,
    }")).
Eval vm_compute in ("<<<M364>>>" ++ check (runes_of_ascii "packet  calculatedFrom{ @rightPad(	' '
    )@lengthOf( uint8x
)	i32   ,u ,
    //	t
    len @lengthOf(
int // trailing space 
)
    , @tag( 42 ) repeat uint32 u ,
    }")).
Eval vm_compute in ("<<<M374>>>" ++ check (runes_of_ascii "packet  calculatedFrom{ @rightPad(	' '
    )@lengthOf( uint8x
)	i32  options1 , ,
    //	t
    len @lengthOf(
int // trailing space 
)
    , @tag( 42 ) repeat uint32 u ,
    }")).
Eval vm_compute in ("<<<M384>>>" ++ check (runes_of_ascii "packet  calculatedFrom{ @rightPad(	' '
    )@lengthOf( uint8x
)	i32  options1 ,u ,
    //	t
     @lengthOf(
int // trailing space 
)
    , @tag( 42 ) repeat uint32 u ,
    }")).
Eval vm_compute in ("<<<M394>>>" ++ check (runes_of_ascii "packet  calculatedFrom{ @rightPad(	' '
    )@lengthOf( uint8x
)	i32  options1 ,u ,
    //	t
    len @lengthOf(
 // trailing space 
)
    , @tag( 42 ) repeat uint32 u ,
    }")).
Eval vm_compute in ("<<<M404>>>" ++ check (runes_of_ascii "packet  calculatedFrom{ @rightPad(	' '
    )@lengthOf( uint8x
)	i32  options1 ,u ,
    //	t
    len @lengthOf(
int // trailing space 
)
     @tag( 42 ) repeat uint32 u ,
    }")).
Eval vm_compute in ("<<<M414>>>" ++ check (runes_of_ascii "packet  calculatedFrom{ @rightPad(	' '
    )@lengthOf( uint8x
)	i32  options1 ,u ,
    //	t
    len @lengthOf(
int // trailing space 
)
    , @tag(  ) repeat uint32 u ,
    }")).
Eval vm_compute in ("<<<M424>>>" ++ check (runes_of_ascii "packet  calculatedFrom{ @rightPad(	' '
    )@lengthOf( uint8x
)	i32  options1 ,u ,
    //	t
    len @lengthOf(
int // trailing space 
)
    , @tag( 42 )  uint32 u ,
    }")).
Eval vm_compute in ("<<<M434>>>" ++ check (runes_of_ascii "packet  calculatedFrom{ @rightPad(	' '
    )@lengthOf( uint8x
)	i32  options1 ,u ,
    //	t
    len @lengthOf(
int // trailing space 
)
    , @tag( 42 ) repeat uint32  ,
    }")).
Eval vm_compute in ("<<<M444>>>" ++ check (runes_of_ascii "packet  calculatedFrom{ @rightPad(	' '
    )@lengthOf( uint8x
)	i32  options1 ,u ,
    //	t
    len @lengthOf(
int // trailing space 
)
    , @tag( 42 ) repeat uint32 u ,
    ")).
Eval vm_compute in ("<<<M454>>>" ++ check (runes_of_ascii "packet  calculatedFrom{ @rightPad(	' '
    )@lengthOf( uint8x
)	i32  options1 ,u ,
    //	t
    len @lengthOf(
int // trailing space 
)
    " ++ [233]%N ++ runes_of_ascii ", @tag( 42 ) repeat uint32 u ,
    }")).
Eval vm_compute in ("<<<M464>>>" ++ check (runes_of_ascii "packet  calculatedFrom{ @rightPad(	' '
    )@lengthOf( uint8x
)	i32  options1 ,u ,
    //	t
    len @lengthOf(
in'\x01't // trailing space 
)
    , @tag( 42 ) repeat uint32 u ,
    }")).
Eval vm_compute in ("<<<M474>>>" ++ check (runes_of_ascii "MetaData u// packet A { u8 x, }
packet A
// c
//	t
i64_ ,char[ 255 ]
    repeatCount , zchar[
65535 ]
    tag `" ++ [233]%N ++ runes_of_ascii "`
    ,int32 lengthOf	, }
")).
Eval vm_compute in ("<<<M484>>>" ++ check (runes_of_ascii "MetaData u// packet A { u8 x, }
{ A
// c
//	t
i64_ ,char[ 255 ]
    repeatCount zchar[ ,
65535 ]
    tag `" ++ [233]%N ++ runes_of_ascii "`
    ,int32 lengthOf	, }
")).
Eval vm_compute in ("<<<M494>>>" ++ check (runes_of_ascii "MetaData u// packet A { u8 x, }
{ A
// c
//	t
i64_ ,char[ 255 ]
    repeatCount , zchar[
65535 ]
    a" ++ [769]%N ++ runes_of_ascii "b `" ++ [233]%N ++ runes_of_ascii "`
    ,int32 lengthOf	, }
")).
Eval vm_compute in ("<<<M504>>>" ++ check (runes_of_ascii "MetaData u// packet A { u8 x, }
{")).
Eval vm_compute in ("<<<M514>>>" ++ check (runes_of_ascii "MetaData u// packet A { u8 x, }
{ A
// c
//	t
i64_ ,char[ 255 ]
    repeatCount , zchar[")).
Eval vm_compute in ("<<<M524>>>" ++ check (runes_of_ascii "'0' u// packet A { u8 x, }
{ A
// c
//	t
i64_ ,char[ 255 ]
    repeatCount , zchar[
65535 ]
    tag `" ++ [233]%N ++ runes_of_ascii "`
    ,int32 lengthOf	, }
")).
Eval vm_compute in ("<<<M534>>>" ++ check (runes_of_ascii "MetaData u// packet A { u8 x, }
{ A
// c
//	t
i64_ ,char[ 255 ]
    repeatCount , zchar[
65535 ]
    tag `" ++ [233]%N ++ runes_of_ascii "`
    ,int32 uint16	, }
")).
Eval vm_compute in ("<<<M544>>>" ++ check (runes_of_ascii "MetaData u// packet A { u8 x, }
{ A
// c
//	t
i64_ stringy char[ 255 ]
    repeatCount , zchar[
65535 ]
    tag `" ++ [233]%N ++ runes_of_ascii "`
    ,int32 lengthOf	, }
")).
Eval vm_compute in ("<<<M554>>>" ++ check (runes_of_ascii "MetaData // packet A { u8 x, }
{ A
// c
//	t
i64_ ,char[ 255 ]
    repeatCount , zchar[
65535 ]
    tag `" ++ [233]%N ++ runes_of_ascii "`
    ,int32 lengthOf	, }
")).
Eval vm_compute in ("<<<M564>>>" ++ check (runes_of_ascii " ")).
Eval vm_compute in ("<<<M574>>>" ++ check ([65279]%N)).
Eval vm_compute in ("<<<M584>>>" ++ check (runes_of_ascii "packet : u16 """ ++ [28040; 24687]%N ++ runes_of_ascii """ MetaData } ) } u8 u64 @tag( uint16 uint32")).
Eval vm_compute in ("<<<M594>>>" ++ check (runes_of_ascii "DggB7%C,fU~E`fV-D,jk;*pr&#9Mz!!J^")).
